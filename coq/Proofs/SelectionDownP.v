(* The downsampled table of a non-behemoth parent (MarkerGeneArray.downsample_pairs_to_other) and
   the independence of the selection from the behemoth threshold.
   Part 1: a renaming lemma - the whole of _run_selection commutes with a renumbering of the pairs.
   Part 2: downsample_pairs preserves the marks of the parent's pairs.
   Part 3: select_parent gives the same selection for behemoth = true / false, for every rule. *)
From Coq Require Import ZArith List Bool Arith Lia Permutation.
From CTM Require Import Base.Sx Base.SortX Model.Tree Model.Selection Proofs.SelectionP Proofs.SelectionPickP.
Import ListNotations.
Local Open Scope nat_scope.

Lemma count_map {A B} (f : B -> bool) (g : A -> B) l : count f (map g l) = count (fun x => f (g x)) l.
Proof.
  induction l as [|x t IH]; [reflexivity|]. cbn [map]. rewrite !count_cons, IH. reflexivity.
Qed.
Lemma existsb_map {A B} (f : B -> bool) (g : A -> B) l : existsb f (map g l) = existsb (fun x => f (g x)) l.
Proof. induction l as [|x t IH]; cbn; [reflexivity|]. rewrite IH. reflexivity. Qed.
Lemma forallb_map {A B} (f : B -> bool) (g : A -> B) l : forallb f (map g l) = forallb (fun x => f (g x)) l.
Proof. induction l as [|x t IH]; cbn; [reflexivity|]. rewrite IH. reflexivity. Qed.
Lemma existsb_ext_in {A} (f g : A -> bool) l : (forall x, In x l -> f x = g x) -> existsb f l = existsb g l.
Proof.
  induction l as [|x t IH]; intros H; cbn; [reflexivity|].
  rewrite (H x (or_introl eq_refl)), IH; [reflexivity|]. intros y Hy. apply H. right. exact Hy.
Qed.
Lemma forallb_ext_in {A} (f g : A -> bool) l : (forall x, In x l -> f x = g x) -> forallb f l = forallb g l.
Proof.
  induction l as [|x t IH]; intros H; cbn; [reflexivity|].
  rewrite (H x (or_introl eq_refl)), IH; [reflexivity|]. intros y Hy. apply H. right. exact Hy.
Qed.
Lemma filter_map_comm {A B} (P : B -> bool) (g : A -> B) l : filter P (map g l) = map g (filter (fun x => P (g x)) l).
Proof. induction l as [|x t IH]; cbn; [reflexivity|]. rewrite IH. destruct (P (g x)); reflexivity. Qed.
Lemma existsb_filter_in (P : slot -> bool) s l : In s l -> existsb (slot_eqb s) (filter P l) = P s.
Proof.
  intros H. destruct (P s) eqn:E.
  - apply existsb_slot. apply filter_In. split; assumption.
  - destruct (existsb (slot_eqb s) (filter P l)) eqn:E2; [|reflexivity].
    apply existsb_slot, filter_In in E2. destruct E2 as [_ E2]. congruence.
Qed.

(* ------------------------------------------------------------------ Part 1: renumbering the pairs *)
Section Rename.
Variable n_genes : nat.
Variable n : nat.
Variable f : nat -> nat.                  (* local pair number -> global pair number *)
Variable pairs' : list nat.               (* local numbering *)
Variables marks' marks : nat -> slot -> bool.
Hypothesis Hmarks : forall g p d, In p pairs' -> marks' g (p, d) = marks g (f p, d).

Definition rn_pairs : list nat := map f pairs'.
Definition rn_slot (s : slot) : slot := (f (fst s), snd s).
Notation pairs := rn_pairs.
Notation F := rn_slot.

Definition ren_state (a' a : state) : Prop :=
  chosen a' = chosen a /\
  (forall s, In s (slots pairs') -> counts a' s = counts a (F s)) /\
  (forall p, In p pairs' -> aggr a' p = aggr a (f p)) /\
  (forall s, In s (slots pairs') -> filled a' s = filled a (F s)) /\
  (forall g, utility a' g = utility a g).

Lemma slots_map_gen l : slots (map f l) = map F (slots l).
Proof. unfold slots. induction l as [|p r IH]; [reflexivity|]. cbn. rewrite IH. reflexivity. Qed.
Lemma slots_map : slots pairs = map F (slots pairs').
Proof. apply slots_map_gen. Qed.

Lemma slot_fst s : In s (slots pairs') -> In (fst s) pairs'.
Proof. destruct s as [p d]. apply slot_in. Qed.

Lemma marks_ren g s : In s (slots pairs') -> marks' g s = marks g (F s).
Proof. destruct s as [p d]. intros H. apply Hmarks. apply (slot_in pairs' p d). exact H. Qed.

Lemma census_ren s : In s (slots pairs') -> census n_genes marks' s = census n_genes marks (F s).
Proof. intros H. unfold census. apply count_ext_in. intros g _. apply marks_ren. exact H. Qed.

Lemma are_possible_ren p : In p pairs' -> are_possible n_genes marks' n p = are_possible n_genes marks n (f p).
Proof.
  intros H. unfold are_possible.
  rewrite (census_ren (p, false)), (census_ren (p, true)) by (apply slot_in; exact H). reflexivity.
Qed.

Lemma newly_ren a' a s : ren_state a' a -> In s (slots pairs') ->
  newly n_genes marks' n a' s = newly n_genes marks n a (F s).
Proof.
  intros (_ & E2 & E3 & E4 & _) H. unfold newly.
  rewrite (E2 s H), (E4 s H), (census_ren s H), (are_possible_ren (fst s) (slot_fst s H)), (E3 (fst s) (slot_fst s H)).
  reflexivity.
Qed.

Lemma update_ren a' a : ren_state a' a ->
  ren_state (update_filled n_genes pairs' marks' n a') (update_filled n_genes pairs marks n a).
Proof.
  intros E. pose proof E as (E1 & E2 & E3 & E4 & E5). unfold ren_state.
  split; [exact E1|]. split; [exact E2|]. split; [exact E3|]. split.
  - intros s H. unfold update_filled. cbn [filled]. rewrite (E4 s H). f_equal.
    rewrite (existsb_filter_in _ s _ H). rewrite slots_map.
    rewrite (existsb_filter_in _ (F s)) by (apply in_map; exact H).
    apply newly_ren; assumption.
  - intros g. unfold update_filled. cbn [utility]. rewrite (E5 g). f_equal. f_equal.
    rewrite !count_filter. rewrite slots_map, count_map. apply count_ext_in. intros s H.
    rewrite (newly_ren a' a s E H), (marks_ren g s H). reflexivity.
Qed.

Lemma choose_ren a' a g : ren_state a' a -> ren_state (choose marks' a' g) (choose marks a g).
Proof.
  intros (E1 & E2 & E3 & E4 & E5). unfold ren_state. cbn [choose chosen counts aggr filled utility].
  split; [rewrite E1; reflexivity|].
  split; [intros s H; rewrite (E2 s H), (marks_ren g s H); reflexivity|].
  split; [intros p H; rewrite (E3 p H), !(Hmarks g p _ H); reflexivity|].
  split; [exact E4|]. intros h. rewrite E5. reflexivity.
Qed.

Lemma max_utility_ren a' a : ren_state a' a -> max_utility n_genes a' = max_utility n_genes a.
Proof. intros (_ & _ & _ & _ & E5). unfold max_utility. f_equal. apply map_ext. exact E5. Qed.

Lemma finished_ren a' a : ren_state a' a -> finished n_genes pairs' a' = finished n_genes pairs a.
Proof.
  intros E. unfold finished. rewrite (max_utility_ren a' a E). f_equal.
  unfold all_filled. rewrite slots_map, forallb_map. apply forallb_ext_in. intros s H. apply E. exact H.
Qed.

Definition opt_ren (x' x : option state) : Prop :=
  match x', x with
  | Some s', Some s => ren_state s' s
  | None, None => True
  | _, _ => False
  end.

Lemma step_ren a' a g : ren_state a' a ->
  opt_ren (step n_genes pairs' marks' n a' g) (step n_genes pairs marks n a g).
Proof.
  intros E. pose proof (update_ren a' a E) as E'. unfold step.
  rewrite (finished_ren _ _ E').
  destruct (finished n_genes pairs (update_filled n_genes pairs marks n a)); [exact Logic.I|].
  pose proof E' as (P1 & _ & _ & _ & P5).
  rewrite P1, (P5 g), (max_utility_ren _ _ E').
  destruct (negb (nmem g (chosen (update_filled n_genes pairs marks n a))) && nmem g (genes n_genes) &&
            (utility (update_filled n_genes pairs marks n a) g =? max_utility n_genes (update_filled n_genes pairs marks n a))%Z);
    [|exact Logic.I].
  apply choose_ren. exact E'.
Qed.

Lemma take_all_ren l : forall a' a, ren_state a' a -> ren_state (take_all marks' l a') (take_all marks l a).
Proof.
  induction l as [|g r IH]; intros a' a E; cbn; [exact E|]. apply IH. unfold take1.
  pose proof E as (E1 & _). rewrite E1. destruct (nmem g (chosen a)); [exact E | apply choose_ren; exact E].
Qed.

Lemma pair_genes_ren p : In p pairs' -> pair_genes n_genes marks' p = pair_genes n_genes marks (f p).
Proof.
  intros H. unfold pair_genes. apply filter_ext. intros g. rewrite !(Hmarks g p _ H). reflexivity.
Qed.

Lemma desperate_list_ren :
  flat_map (pair_genes n_genes marks') (desperate_pairs n_genes pairs' marks' n) =
  flat_map (pair_genes n_genes marks) (desperate_pairs n_genes pairs marks n).
Proof.
  unfold desperate_pairs, rn_pairs. rewrite filter_map_comm.
  assert (G : forall l, incl l pairs' ->
    flat_map (pair_genes n_genes marks')
      (filter (fun p => (0 <? census n_genes marks' (p, false) + census n_genes marks' (p, true)) &&
                        (census n_genes marks' (p, false) + census n_genes marks' (p, true) <=? n)) l) =
    flat_map (pair_genes n_genes marks)
      (map f (filter (fun p => (0 <? census n_genes marks (f p, false) + census n_genes marks (f p, true)) &&
                               (census n_genes marks (f p, false) + census n_genes marks (f p, true) <=? n)) l))).
  { induction l as [|p r IH]; intros Hin; [reflexivity|]. cbn [filter].
    assert (Hp : In p pairs') by (apply Hin; left; reflexivity).
    assert (Hr : incl r pairs') by (intros x Hx; apply Hin; right; exact Hx).
    pose proof (census_ren (p, false) (proj2 (slot_in pairs' p false) Hp)) as C0.
    pose proof (census_ren (p, true) (proj2 (slot_in pairs' p true) Hp)) as C1.
    unfold rn_slot in C0, C1. cbn [fst snd] in C0, C1. rewrite C0, C1.
    destruct ((0 <? census n_genes marks (f p, false) + census n_genes marks (f p, true)) &&
              (census n_genes marks (f p, false) + census n_genes marks (f p, true) <=? n)).
    - cbn [map flat_map]. rewrite (pair_genes_ren p Hp), (IH Hr). reflexivity.
    - apply IH. exact Hr. }
  apply G. apply incl_refl.
Qed.

Lemma desperate_ren a' a : ren_state a' a ->
  ren_state (desperate n_genes pairs' marks' n a') (desperate n_genes pairs marks n a).
Proof.
  intros E. rewrite !desperate_as_take_all. rewrite desperate_list_ren. apply take_all_ren. exact E.
Qed.

Lemma init_ren : ren_state (init pairs' marks') (init pairs marks).
Proof.
  unfold ren_state, init. cbn [chosen counts aggr filled utility]. repeat split; try reflexivity.
  intros g. unfold utility0. f_equal. rewrite slots_map, count_map. apply count_ext_in.
  intros s H. apply marks_ren. exact H.
Qed.

Lemma start_ren : ren_state (start n_genes pairs' marks' n) (start n_genes pairs marks n).
Proof. unfold start. apply desperate_ren, update_ren, init_ren. Qed.

Lemma snapshot_ren a' a : ren_state a' a -> snapshot n_genes a' = snapshot n_genes a.
Proof. intros (_ & _ & _ & _ & E5). unfold snapshot. apply map_ext. exact E5. Qed.

(* a rule sees literally the same history under both numberings *)
Lemma observe_ren a' a h : ren_state a' a ->
  observe n_genes pairs' marks' n a' h = observe n_genes pairs marks n a h.
Proof.
  intros E. unfold observe.
  assert (X1 : existsb (newly n_genes marks' n a') (slots pairs') = existsb (newly n_genes marks n a) (slots pairs)).
  { rewrite slots_map, existsb_map. apply existsb_ext_in. intros s H. apply newly_ren; assumption. }
  rewrite X1, (snapshot_ren _ _ (update_ren a' a E)). destruct E as (E1 & _). rewrite E1. reflexivity.
Qed.

Definition wres_ren (r' r : wres) : Prop :=
  match r', r with
  | WDone s', WDone s => ren_state s' s
  | WIllegal g', WIllegal g => g' = g
  | WStuck, WStuck => True
  | WOutOfFuel, WOutOfFuel => True
  | _, _ => False
  end.

Lemma run_with_ren pick : forall fuel h a' a, ren_state a' a ->
  wres_ren (run_with n_genes pairs' marks' n pick fuel h a') (run_with n_genes pairs marks n pick fuel h a).
Proof.
  induction fuel as [|k IH]; intros h a' a E; [exact Logic.I|]. rewrite !run_with_S.
  pose proof (update_ren a' a E) as E'. rewrite (finished_ren _ _ E').
  destruct (finished n_genes pairs (update_filled n_genes pairs marks n a)); [exact E'|].
  rewrite (observe_ren a' a h E). pose proof E as (E1 & _). rewrite E1.
  destruct (pick (observe n_genes pairs marks n a h) (chosen a)) as [g|]; [|exact Logic.I].
  pose proof (step_ren a' a g E) as S.
  destruct (step n_genes pairs' marks' n a' g) as [b'|], (step n_genes pairs marks n a g) as [b|];
    cbn in S; try contradiction; [|reflexivity].
  apply IH. exact S.
Qed.

Theorem select_with_ren pick :
  wres_ren (select_with n_genes pairs' marks' n pick) (select_with n_genes pairs marks n pick).
Proof.
  unfold select_with, hist0_sorted.
  rewrite (snapshot_ren _ _ (update_ren _ _ init_ren)). apply run_with_ren. apply start_ren.
Qed.
End Rename.

(* ------------------------------------------------------------------ Part 2: downsample_pairs *)
Lemma pair_eqb_eq a b : pair_eqb a b = true <-> a = b.
Proof.
  destruct a as [a1 a2], b as [b1 b2]. unfold pair_eqb. cbn [fst snd].
  rewrite andb_true_iff, !Z.eqb_eq. split; [intros [-> ->]; reflexivity | intros H; inversion H; auto].
Qed.

Definition no_tables : list nat * list nat := ([], []).

(* the content found under a key is the content at the index idx_of_pair returns for it *)
Lemma tables_idx pr l : forall k,
  match tables_of_pair pr l, idx_of_pair pr l k with
  | Some tb, Some i => k <= i /\ i - k < length l /\ nth (i - k) (map snd l) no_tables = tb /\
                       exists e, nth_error l (i - k) = Some e /\ fst e = pr
  | None, None => True
  | _, _ => False
  end.
Proof.
  induction l as [|e t IH]; intros k; cbn; [exact Logic.I|].
  destruct (pair_eqb pr (fst e)) eqn:E.
  - rewrite Nat.sub_diag. cbn. repeat split; try lia. exists e. split; [reflexivity|].
    symmetry. apply pair_eqb_eq. exact E.
  - specialize (IH (S k)). destruct (tables_of_pair pr t) as [tb|], (idx_of_pair pr t (S k)) as [i|]; try exact IH.
    destruct IH as (H1 & H2 & H3 & e' & H4 & H5).
    replace (i - k) with (S (i - S k)) by lia. cbn. repeat split; try lia; [exact H3|].
    exists e'. auto.
Qed.

Lemma opt_all_app {A} (l1 l2 : list (option A)) :
  opt_all (l1 ++ l2) = match opt_all l1, opt_all l2 with Some a, Some b => Some (a ++ b) | _, _ => None end.
Proof.
  induction l1 as [|[x|] t IH]; cbn.
  - destruct (opt_all l2); reflexivity.
  - rewrite IH. destruct (opt_all t), (opt_all l2); reflexivity.
  - reflexivity.
Qed.

Lemma ds_core l : forall keep ps,
  opt_all (map (fun pr => option_map (fun tb => (pr, tb)) (tables_of_pair pr l)) keep) = Some ps ->
  exists idx, opt_all (map (fun pr => idx_of_pair pr l 0) keep) = Some idx /\
              map fst ps = keep /\ Forall (fun i => i < length l) idx /\
              map snd ps = map (fun i => nth i (map snd l) no_tables) idx.
Proof.
  induction keep as [|pr r IH]; intros ps H; cbn in H.
  - inversion H; subst. exists []. cbn. repeat split; auto.
  - pose proof (tables_idx pr l 0) as T.
    destruct (tables_of_pair pr l) as [tb|]; cbn in H; [|discriminate].
    destruct (opt_all (map (fun pr0 => option_map (fun tb0 => (pr0, tb0)) (tables_of_pair pr0 l)) r)) as [ps'|] eqn:R;
      [|discriminate].
    inversion H; subst ps. destruct (IH ps' eq_refl) as (idx & I1 & I2 & I3 & I4).
    destruct (idx_of_pair pr l 0) as [i|] eqn:Ei; [|contradiction].
    destruct T as (_ & T2 & T3 & _). rewrite Nat.sub_0_r in T2, T3.
    exists (i :: idx). cbn. rewrite Ei, I1. repeat split.
    + rewrite I2. reflexivity.
    + constructor; assumption.
    + rewrite T3, I4. reflexivity.
Qed.

Lemma ds_core_none l : forall keep,
  opt_all (map (fun pr => option_map (fun tb => (pr, tb)) (tables_of_pair pr l)) keep) = None ->
  opt_all (map (fun pr => idx_of_pair pr l 0) keep) = None.
Proof.
  induction keep as [|pr r IH]; intros H; cbn in H |- *; [discriminate|].
  pose proof (tables_idx pr l 0) as T.
  destruct (tables_of_pair pr l) as [tb|], (idx_of_pair pr l 0) as [i|]; try contradiction; [|reflexivity].
  cbn in H. destruct (opt_all (map (fun pr0 => option_map (fun tb0 => (pr0, tb0)) (tables_of_pair pr0 l)) r)); [discriminate|].
  rewrite (IH eq_refl). reflexivity.
Qed.

Lemma idx_of_pair_nodup l : NoDup (map fst l) -> forall k e j,
  nth_error l k = Some e -> idx_of_pair (fst e) l j = Some (j + k).
Proof.
  induction l as [|x t IH]; intros ND k e j H; [destruct k; discriminate|].
  inversion ND as [|? ? Hx ND']; subst. destruct k as [|k]; cbn in H |- *.
  - inversion H; subst. rewrite (proj2 (pair_eqb_eq (fst e) (fst e)) eq_refl). f_equal. lia.
  - destruct (pair_eqb (fst e) (fst x)) eqn:E.
    + apply pair_eqb_eq in E. exfalso. apply Hx. rewrite <- E. apply in_map. eapply nth_error_In. exact H.
    + rewrite (IH ND' k e (S j) H). f_equal. lia.
Qed.

Lemma idx_local ps : NoDup (map fst ps) ->
  opt_all (map (fun pr => idx_of_pair pr ps 0) (map fst ps)) = Some (seq 0 (length ps)).
Proof.
  intros ND.
  assert (G : forall l2 l1, ps = l1 ++ l2 ->
            opt_all (map (fun pr => idx_of_pair pr ps 0) (map fst l2)) = Some (seq (length l1) (length l2))).
  { induction l2 as [|e r IH]; intros l1 E; [reflexivity|]. cbn.
    assert (N : nth_error ps (length l1) = Some e).
    { rewrite E, nth_error_app2 by lia. rewrite Nat.sub_diag. reflexivity. }
    rewrite (idx_of_pair_nodup ps ND _ _ 0 N). cbn.
    rewrite (IH (l1 ++ [e])) by (rewrite <- app_assoc; exact E).
    rewrite app_length. cbn. replace (length l1 + 1) with (S (length l1)) by lia. reflexivity. }
  apply (G ps []). reflexivity.
Qed.

Lemma marks_of_nth pd g p d :
  marks_of pd g (p, d) = nmem g (if d then snd (nth p pd no_tables) else fst (nth p pd no_tables)).
Proof. reflexivity. Qed.

(* the downsampled array: same genes; its pairs are the kept keys in the given order, found again at the
   local numbers 0..m-1; and the marks of local pair k are those of the global pair idx[k] of the full
   array - for every gene and both directions *)
Theorem downsample_preserves_marks rm keep arr :
  NoDup keep -> downsample_pairs rm keep = Some arr ->
  rm_genes arr = rm_genes rm /\
  map fst (rm_pairs arr) = keep /\
  exists idx,
    opt_all (map (fun pr => idx_of_pair pr (rm_pairs rm) 0) keep) = Some idx /\
    opt_all (map (fun pr => idx_of_pair pr (rm_pairs arr) 0) keep) = Some (seq 0 (length keep)) /\
    length idx = length keep /\
    Forall (fun i => i < length (rm_pairs rm)) idx /\
    forall k i, nth_error idx k = Some i ->
      forall g d, marks_of (pair_tables arr) g (k, d) = marks_of (pair_tables rm) g (i, d).
Proof.
  intros ND H. unfold downsample_pairs in H.
  destruct (opt_all _) as [ps|] eqn:O; [|discriminate]. inversion H; subst arr. cbn [rm_genes rm_pairs].
  destruct (ds_core _ _ _ O) as (idx & I1 & I2 & I3 & I4).
  split; [reflexivity|]. split; [exact I2|]. exists idx. split; [exact I1|].
  assert (L : length idx = length keep).
  { rewrite <- I2, map_length. rewrite <- (map_length snd ps), I4, map_length. reflexivity. }
  split; [|split; [exact L|split; [exact I3|]]].
  - rewrite <- I2 at 1. rewrite idx_local by (rewrite I2; exact ND). rewrite <- I2, map_length. reflexivity.
  - intros k i Hk g d. rewrite !marks_of_nth. unfold pair_tables. cbn [rm_pairs]. rewrite I4.
    assert (E : nth k (map (fun i0 => nth i0 (map snd (rm_pairs rm)) no_tables) idx) no_tables =
                nth i (map snd (rm_pairs rm)) no_tables).
    { apply nth_error_nth.
      exact (map_nth_error (fun i0 => nth i0 (map snd (rm_pairs rm)) no_tables) k idx Hk). }
    rewrite E. reflexivity.
Qed.

Lemma downsample_none rm keep :
  downsample_pairs rm keep = None -> opt_all (map (fun pr => idx_of_pair pr (rm_pairs rm) 0) keep) = None.
Proof.
  unfold downsample_pairs. destruct (opt_all _) eqn:O; [discriminate|]. intros _. apply ds_core_none. exact O.
Qed.

Lemma nat_sort_perm l : Permutation (nat_sort l) l.
Proof.
  unfold nat_sort. eapply Permutation_trans; [apply Permutation_map, zsort_perm|].
  rewrite map_map. erewrite map_ext; [rewrite map_id; apply Permutation_refl|]. intros x. apply Nat2Z.id.
Qed.

(* no pair handed to _run_selection is out of range (marks_of's totalisation is never exercised) *)
Theorem parent_idx_in_range rm t parent b idx :
  parent_idx rm t parent b = Some idx -> Forall (fun i => i < length (rm_pairs rm)) idx.
Proof.
  unfold parent_idx. destruct (opt_all _) as [ix|] eqn:O; [|discriminate]. intros H.
  assert (G : Forall (fun i => i < length (rm_pairs rm)) ix).
  { clear H. revert ix O. induction (leaf_pairs t parent) as [|pr r IH]; intros ix O; cbn in O.
    - inversion O. constructor.
    - pose proof (tables_idx pr (rm_pairs rm) 0) as T.
      destruct (idx_of_pair pr (rm_pairs rm) 0) as [i|]; [|discriminate].
      destruct (opt_all (map (fun pr0 => idx_of_pair pr0 (rm_pairs rm) 0) r)) as [ix'|]; [|discriminate].
      inversion O; subst. constructor; [|apply IH; reflexivity].
      destruct (tables_of_pair pr (rm_pairs rm)); [|contradiction]. destruct T as (_ & T & _). lia. }
  destruct b; inversion H; subst; [|exact G].
  apply Forall_forall. intros x Hx. rewrite Forall_forall in G. apply G.
  eapply Permutation_in; [apply nat_sort_perm | exact Hx].
Qed.

(* ------------------------------------------------------------------ Part 3: the behemoth threshold is irrelevant *)
Lemma map_nth_seq (idx : list nat) : map (fun k => nth k idx 0) (seq 0 (length idx)) = idx.
Proof.
  induction idx as [|x t IH]; [reflexivity|]. cbn [length seq map nth]. f_equal.
  rewrite <- seq_shift, map_map. exact IH.
Qed.

(* what "the same selection" means for two runs of _run_selection: same outcome; on `break` the same
   choice sequence in the loop after desperate prefixes that are permutations of each other, hence the
   same selected SET; the same final utility array *)
Definition sel_same (d d' : list nat) (r r' : wres) : Prop :=
  match r, r' with
  | WDone s, WDone s' =>
      (exists t, chosen s = d ++ t /\ chosen s' = d' ++ t) /\ Permutation d d' /\
      Permutation (chosen s) (chosen s') /\ (forall g, utility s g = utility s' g)
  | WIllegal g, WIllegal g' => g = g'
  | WStuck, WStuck => True
  | WOutOfFuel, WOutOfFuel => True
  | _, _ => False
  end.

Theorem threshold_core n_genes n pick marksB marksD idx idxB idxD :
  pick_respects pick ->
  (forall g k d, k < length idx -> marksD g (k, d) = marksB g (nth k idx 0, d)) ->
  Permutation idxB idx -> Permutation idxD (seq 0 (length idx)) ->
  sel_same (chosen (start n_genes idxB marksB n)) (chosen (start n_genes idxD marksD n))
           (select_with n_genes idxB marksB n pick) (select_with n_genes idxD marksD n pick).
Proof.
  intros HR HM PB PD.
  set (f := fun k => nth k idx 0). set (loc := seq 0 (length idx)).
  assert (HM' : forall g p d, In p loc -> marksD g (p, d) = marksB g (f p, d)).
  { intros g p d Hp. apply HM. apply in_seq in Hp. lia. }
  pose proof (select_with_ren n_genes n f loc marksD marksB HM' pick) as H2.
  pose proof (start_ren n_genes n f loc marksD marksB HM') as S2.
  unfold rn_pairs in H2, S2. unfold f, loc in H2, S2. rewrite map_nth_seq in H2, S2. fold loc in H2, S2.
  pose proof (pick_function_order_irrelevant n_genes marksB n idxB idx pick PB HR) as H1.
  pose proof (pick_function_order_irrelevant n_genes marksD n loc idxD pick (Permutation_sym PD) HR) as H3.
  pose proof (start_same n_genes marksB n idxB idx PB) as S1.
  pose proof (start_same n_genes marksD n loc idxD (Permutation_sym PD)) as S3.
  assert (PS : Permutation (chosen (start n_genes idxB marksB n)) (chosen (start n_genes idxD marksD n))).
  { eapply Permutation_trans; [apply S1|]. destruct S2 as (S2 & _). rewrite <- S2. apply S3. }
  unfold sel_same.
  destruct (select_with n_genes idxB marksB n pick) as [sB|gB| |],
           (select_with n_genes idx marksB n pick) as [sC|gC| |]; try contradiction;
  destruct (select_with n_genes loc marksD n pick) as [sC'|gC'| |]; cbn in H2; try contradiction;
  destruct (select_with n_genes idxD marksD n pick) as [sD|gD| |]; try contradiction; try exact Logic.I;
    [|congruence].
  destruct H1 as ((t1 & A1 & A2 & _) & P1 & _ & _ & U1).
  destruct H3 as ((t3 & B1 & B2 & _) & P3 & _ & _ & U3).
  destruct H2 as (C1 & _ & _ & _ & U2). destruct S2 as (S2 & _).
  assert (t1 = t3).
  { rewrite C1, A2, <- S2 in B1. apply app_inv_head in B1. auto. }
  subst t3. split; [exists t1; auto|]. split; [exact PS|]. split.
  - eapply Permutation_trans; [exact P1|]. rewrite <- C1. exact P3.
  - intros g. rewrite U1, <- U2, U3. reflexivity.
Qed.

(* d, d' of sel_same are the desperate prefixes of the two runs: spelled out *)
Definition parent_res_same (rm' : refmarkers) (t : tree) (parent : option (nat * node)) (n : nat)
                           (r r' : parent_res) : Prop :=
  match r, r' with
  | PSkip, PSkip => True
  | PErrOverlap, PErrOverlap => True
  | PErrPair, PErrPair => True
  | PRun ng w, PRun ng' w' =>
      ng = ng' /\ ng = length (rm_genes rm') /\
      exists arr idxB idxD,
        downsample_pairs rm' (leaf_pairs t parent) = Some arr /\
        parent_idx rm' t parent true = Some idxB /\ parent_idx arr t parent true = Some idxD /\
        sel_same (chosen (start ng idxB (marks_of (pair_tables rm')) n))
                 (chosen (start ng idxD (marks_of (pair_tables arr)) n)) w w'
  | _, _ => False
  end.

Lemma parent_idx_some rm t parent b idx :
  opt_all (map (fun pr => idx_of_pair pr (rm_pairs rm) 0) (leaf_pairs t parent)) = Some idx ->
  parent_idx rm t parent b = Some (if b then nat_sort idx else idx).
Proof. intros H. unfold parent_idx. rewrite H. reflexivity. Qed.

(* a parent treated as a behemoth (full table, sorted global pair numbers) and the same parent given a
   table downsampled to its own pairs (local numbers) get the same selection, for every rule *)
Theorem threshold_irrelevant pick rm query t parent n :
  pick_respects pick -> NoDup (leaf_pairs t parent) ->
  parent_res_same (thin_genes rm query) t parent n
    (select_parent pick rm query t parent true n) (select_parent pick rm query t parent false n).
Proof.
  intros HR ND. unfold select_parent.
  destruct (keep_idx rm query) as [|k0 kr] eqn:K; [exact Logic.I|].
  destruct (leaf_pairs t parent) as [|lp lr] eqn:LP; [exact Logic.I|]. rewrite <- LP in *.
  set (rm' := thin_genes rm query).
  destruct (downsample_pairs rm' (leaf_pairs t parent)) as [arr|] eqn:D.
  - destruct (downsample_preserves_marks rm' _ arr ND D) as (G & _ & idx & I1 & I2 & L & _ & M).
    rewrite (parent_idx_some rm' t parent true idx I1), (parent_idx_some arr t parent true _ I2).
    cbn. rewrite G. split; [reflexivity|]. split; [reflexivity|].
    exists arr, (nat_sort idx), (nat_sort (seq 0 (length (leaf_pairs t parent)))).
    split; [exact D|].
    split; [apply (parent_idx_some rm' t parent true idx I1)|].
    split; [apply (parent_idx_some arr t parent true _ I2)|].
    rewrite <- L. apply threshold_core with (idx := idx).
    + exact HR.
    + intros g k d Hk. destruct (nth_error idx k) as [i|] eqn:E.
      * rewrite (M k i E g d). rewrite (nth_error_nth _ _ 0 E). reflexivity.
      * apply nth_error_None in E. lia.
    + apply nat_sort_perm.
    + apply nat_sort_perm.
  - pose proof (downsample_none _ _ D) as N. unfold parent_idx. rewrite N. exact Logic.I.
Qed.
