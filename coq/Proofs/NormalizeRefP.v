(* Lemmas about Model/NormalizeRef.v: the query row the vote model reads (q_of over the matrices of
   prepare_query) IS the row the reference side of assemble_query_data is compared with, column
   for column; and the float-summation witness of C07. *)
From Coq Require Import ZArith List Bool Lia Arith Permutation.
From CTM Require Import Base.Sx Base.ListX Base.SortX Model.Tree Model.Normalize Model.Markers Model.RefSide
                        Model.NormalizeVote Model.NormalizeRef.
From CTM Require Import Proofs.NormalizeP Proofs.MarkersP Proofs.RefSideP.
Import ListNotations.
Open Scope Z_scope.

(* ------------------------------------------------------------------ generic *)
Lemma res_all_nth {X Y} (f : X -> result Y) l ms k x :
  res_all (map f l) = Ok ms -> nth_error l k = Some x ->
  exists y, nth_error ms k = Some y /\ f x = Ok y.
Proof.
  revert ms k. induction l as [|h t IH]; intros ms k H Hk; [destruct k; discriminate|].
  cbn in H. destruct (f h) as [y0|e] eqn:Eh; [|discriminate].
  destruct (res_all (map f t)) as [t'|e] eqn:Et; [|discriminate]. injection H as <-.
  destruct k as [|k]; cbn in Hk |- *.
  - injection Hk as <-. exists y0. split; [reflexivity | exact Eh].
  - apply (IH t' k eq_refl Hk).
Qed.

Lemma res_all_length {X Y} (f : X -> result Y) l ms :
  res_all (map f l) = Ok ms -> length ms = length l.
Proof.
  revert ms. induction l as [|h t IH]; intros ms H; cbn in H.
  - injection H as <-. reflexivity.
  - destruct (f h); [|discriminate]. destruct (res_all (map f t)) as [t'|]; [|discriminate].
    injection H as <-. cbn. f_equal. apply IH. reflexivity.
Qed.

Lemma group_index_tget {X} (p : pkey) (gs : list (pkey * X)) v :
  tget p gs = Some v -> exists k k', group_index p gs = Some k /\ nth_error gs k = Some (k', v).
Proof.
  induction gs as [|[k0 v0] r IH]; cbn; [discriminate|].
  destruct (pkey_eqb p k0).
  - intros H. injection H as ->. exists O, k0. split; reflexivity.
  - intros H. destruct (IH H) as (k & k' & H1 & H2). exists (S k), k'. rewrite H1. split; [reflexivity | exact H2].
Qed.

(* ------------------------------------------------------------------ prepare_query, inverted *)
Section Prep.
Variable R : Type.
Variable lg : frac -> R.

Lemma prepare_ok_inv genes inp lists mats :
  prepare_query R lg genes inp lists = Ok mats ->
  NoDup genes /\ well_shaped genes (normalised_rows R lg inp) /\
  prepare_query R lg genes (DeclNorm (normalised_rows R lg inp)) lists = Ok mats.
Proof.
  intros H.
  assert (H' : prepare_query R lg genes (DeclNorm (normalised_rows R lg inp)) lists = Ok mats).
  { destruct inp as [d|d]; [|exact H]. cbn [normalised_rows].
    destruct (has_negative d) eqn:En.
    - rewrite (raw_negative R lg genes d lists En) in H. destruct (marker_cache genes lists); discriminate.
    - rewrite <- (raw_equals_declared R lg genes d lists En). exact H. }
  split; [|split; [|exact H']].
  - unfold prepare_query in H'. destruct (marker_cache genes lists); [|discriminate]. cbn [bind] in H'.
    rewrite make_cbg_spec in H'.
    destruct (negb (forallb (fun r => Nat.eqb (length r) (length genes)) (normalised_rows R lg inp))); [discriminate|].
    destruct (znodup_b genes) eqn:En; [apply znodup_b_spec; exact En | discriminate].
  - unfold prepare_query in H'. destruct (marker_cache genes lists); [|discriminate]. cbn [bind] in H'.
    rewrite make_cbg_spec in H'.
    destruct (forallb (fun r => Nat.eqb (length r) (length genes)) (normalised_rows R lg inp)) eqn:Es;
      [apply shape_check; exact Es | discriminate].
Qed.

(* the matrix of the k-th list: every cell's values of that list's genes, looked up BY NAME in the
   normalised full row *)
Lemma prepared_matrix genes inp lists mats k l :
  prepare_query R lg genes inp lists = Ok mats -> nth_error lists k = Some l ->
  NoDup l /\ incl l genes /\
  nth_error mats k = Some (map (fun row => pick genes row l) (normalised_rows R lg inp)).
Proof.
  intros H Hk. destruct (prepare_ok_inv _ _ _ _ H) as (Hn & Hw & H').
  rewrite (prepare_norm_spec R lg genes _ lists Hn Hw) in H'.
  destruct (forallb (fun g => zmem g genes) (concat lists)) eqn:Eall; [|discriminate].
  destruct (res_all_nth _ _ _ _ _ H' Hk) as (y & Hy & Hs).
  unfold spec_matrix in Hs. destruct (znodup_b l) eqn:Enl; [|discriminate]. injection Hs as <-.
  split; [apply znodup_b_spec; exact Enl|]. split; [|exact Hy].
  intros g Hg. rewrite forallb_forall in Eall. apply zmem_in. apply Eall.
  apply (in_concat_incl l lists (nth_error_In _ _ Hk) g Hg).
Qed.

Lemma pick_by_name {A} genes (row : list A) l :
  length row = length genes -> incl l genes ->
  Forall2 (fun g v => zassoc g (combine genes row) = Some v) l (pick genes row l).
Proof.
  intros Hl. induction l as [|g t IH]; intros Hi; [constructor|].
  unfold pick in *. cbn [flat_map].
  destruct (lookup_known genes row g Hl (Hi g (or_introl eq_refl))) as [v Hv]. rewrite Hv. cbn [olist app].
  constructor; [rewrite <- lookup_zassoc; exact Hv|]. apply IH. intros x Hx. apply Hi. right. exact Hx.
Qed.

End Prep.

(* ------------------------------------------------------------------ THE BRIDGE *)
Theorem prepared_row_is_the_compared_row (A R : Type) (lg : frac -> R) tb t refg qg c lists inp mats
        qgenes qnorm (m : rmat A) parent a :
  write_query_markers tb refg qg = MOk c ->
  cache_lists c qg = Some lists ->
  prepare_query R lg qg inp lists = Ok mats ->
  assemble_reference A t (c_groups c) refg qg qgenes qnorm m parent = ROk a ->
  exists k l,
    group_index parent (c_groups c) = Some k /\ pidx_of c parent = k /\
    nth_error lists k = Some (m_genes (a_ref a)) /\ a_qgenes a = m_genes (a_ref a) /\
    In (parent, l) tb /\ Permutation l (m_genes (a_ref a)) /\
    length (nth k mats []) = length (normalised_rows R lg inp) /\
    forall ci row, nth_error (normalised_rows R lg inp) ci = Some row ->
      Forall2 (fun g v => zassoc g (combine qg row) = Some v)
              (m_genes (a_ref a)) (nth ci (nth (pidx_of c parent) mats []) []).
Proof.
  intros Wq Hl Hp Ha.
  destruct (columns_aligned A tb t refg qg c qgenes qnorm m parent a Wq Ha) as (ri & qi & l & Eg & Hin & HP & Eqr & _).
  destruct (assemble_inv A _ _ _ _ _ _ _ _ _ Ha) as (_ & _ & ri' & qi' & _ & _ & Eg' & Eq & _).
  rewrite Eg in Eg'. injection Eg' as <- <-.
  destruct (group_index_tget parent (c_groups c) (ri, qi) Eg) as (k & k' & Hk & Hnth).
  unfold cache_lists in Hl. apply opt_all_Forall2 in Hl.
  destruct (Forall2_nth_l _ _ _ _ _ Hl Hnth) as (lk & Hlk & Hnames). cbn [snd] in Hnames.
  rewrite Eq in Hnames. injection Hnames as <-.
  assert (Hpidx : pidx_of c parent = k) by (unfold pidx_of; rewrite Hk; reflexivity).
  destruct (prepared_matrix R lg qg inp lists mats k _ Hp Hlk) as (_ & Hincl & Hmat).
  destruct (prepare_ok_inv R lg _ _ _ _ Hp) as (_ & Hw & _).
  exists k, l. split; [exact Hk|]. split; [exact Hpidx|]. rewrite <- Eqr.
  split; [exact Hlk|]. split; [reflexivity|]. split; [exact Hin|]. split; [rewrite Eqr; exact HP|].
  rewrite (nth_error_nth _ _ _ Hmat). split; [apply map_length|].
  intros ci row Hrow. rewrite Hpidx, (nth_error_nth _ _ _ Hmat).
  rewrite (nth_error_nth _ ci [] (map_nth_error (fun row0 => pick qg row0 (a_qgenes a)) ci _ Hrow)).
  apply pick_by_name; [|exact Hincl].
  unfold well_shaped in Hw. rewrite Forall_forall in Hw. apply Hw. apply (nth_error_In _ _ Hrow).
Qed.

(* ------------------------------------------------------------------ float summation *)
Lemma fsum_lr_exact_gen row acc :
  0 <= acc -> Forall (fun x => 0 <= x) row -> acc + rsum row <= two24 ->
  fold_left (fun a x => rnd24 (a + x)) row acc = acc + rsum row.
Proof.
  revert acc. induction row as [|x t IH]; intros acc Ha Hr Hs; cbn [fold_left rsum fold_right].
  - unfold rsum. cbn. lia.
  - inversion Hr as [|? ? Hx Ht]; subst.
    assert (Ht0 : 0 <= rsum t) by (apply rsum_nonneg; exact Ht).
    change (fold_right Z.add 0 t) with (rsum t) in *.
    assert (Hr1 : rnd24 (acc + x) = acc + x).
    { unfold rnd24. destruct (acc + x <=? two24) eqn:E; [reflexivity|]. apply Z.leb_gt in E.
      unfold rsum in Hs. cbn [fold_right] in Hs. change (fold_right Z.add 0 t) with (rsum t) in Hs. lia. }
    rewrite Hr1, IH; [unfold rsum; cbn [fold_right]; lia | lia | exact Ht |].
    unfold rsum in Hs |- *. cbn [fold_right] in Hs. lia.
Qed.

(* a row of non-negative integer counts whose sum is at most 2^24 is summed EXACTLY by the
   left-to-right binary32 sum: on such rows the exact model and the float code agree on S *)
Lemma fsum_lr_exact row :
  Forall (fun x => 0 <= x) row -> rsum row <= two24 -> fsum_lr rnd24 row = rsum row.
Proof. intros Hr Hs. unfold fsum_lr. rewrite fsum_lr_exact_gen; [lia | lia | exact Hr | lia]. Qed.

Lemma float_sum_order_matters :
  (forall r1 r2, Permutation r1 r2 -> rsum r1 = rsum r2) /\
  Permutation [two24; 1; 1] [1; 1; two24] /\
  fsum_lr rnd24 [two24; 1; 1] = 16777216 /\ fsum_lr rnd24 [1; 1; two24] = 16777218 /\
  rsum [two24; 1; 1] = 16777218.
Proof.
  split; [exact rsum_perm|]. split.
  - apply perm_trans with [1; two24; 1]; [apply perm_swap | apply perm_skip; apply perm_swap].
  - vm_compute. repeat split; reflexivity.
Qed.
