(* Lemmas about Model/NormalizeRef.v: the query row the vote model reads (q_of over the matrices of
   prepare_query) IS the row the reference side of assemble_query_data is compared with, column
   for column; and the float-summation witness of C07. *)
From Coq Require Import ZArith List Bool Lia Arith Permutation.
From CTM Require Import Base.Sx Base.ListX Base.SortX Model.Tree Model.Normalize Model.Markers Model.RefSide
                        Model.NormalizeVote Model.NormalizeRef.
From CTM Require Import Proofs.NormalizeP Proofs.MarkersP Proofs.RefSideP.
Import ListNotations.
Open Scope Z_scope.

(* ------------------------------------------------------------------ generic *)
Lemma res_all_nth {X Y} (f : X -> result Y) l ms k x :
  res_all (map f l) = Ok ms -> nth_error l k = Some x ->
  exists y, nth_error ms k = Some y /\ f x = Ok y.
Proof.
  revert ms k. induction l as [|h t IH]; intros ms k H Hk; [destruct k; discriminate|].
  cbn in H. destruct (f h) as [y0|e] eqn:Eh; [|discriminate].
  destruct (res_all (map f t)) as [t'|e] eqn:Et; [|discriminate]. injection H as <-.
  destruct k as [|k]; cbn in Hk |- *.
  - injection Hk as <-. exists y0. split; [reflexivity | exact Eh].
  - apply (IH t' k eq_refl Hk).
Qed.

Lemma res_all_length {X Y} (f : X -> result Y) l ms :
  res_all (map f l) = Ok ms -> length ms = length l.
Proof.
  revert ms. induction l as [|h t IH]; intros ms H; cbn in H.
  - injection H as <-. reflexivity.
  - destruct (f h); [|discriminate]. destruct (res_all (map f t)) as [t'|]; [|discriminate].
    injection H as <-. cbn. f_equal. apply IH. reflexivity.
Qed.

Lemma group_index_tget {X} (p : pkey) (gs : list (pkey * X)) v :
  tget p gs = Some v -> exists k k', group_index p gs = Some k /\ nth_error gs k = Some (k', v).
Proof.
  induction gs as [|[k0 v0] r IH]; cbn; [discriminate|].
  destruct (pkey_eqb p k0).
  - intros H. injection H as ->. exists O, k0. split; reflexivity.
  - intros H. destruct (IH H) as (k & k' & H1 & H2). exists (S k), k'. rewrite H1. split; [reflexivity | exact H2].
Qed.

(* ------------------------------------------------------------------ prepare_query, inverted *)
Section Prep.
Variable R : Type.
Variable lg : frac -> R.

Lemma prepare_ok_inv genes inp lists mats :
  prepare_query R lg genes inp lists = Ok mats ->
  NoDup genes /\ well_shaped genes (normalised_rows R lg inp) /\
  prepare_query R lg genes (DeclNorm (normalised_rows R lg inp)) lists = Ok mats.
Proof.
  intros H.
  assert (H' : prepare_query R lg genes (DeclNorm (normalised_rows R lg inp)) lists = Ok mats).
  { destruct inp as [d|d]; [|exact H]. cbn [normalised_rows].
    destruct (has_negative d) eqn:En.
    - rewrite (raw_negative R lg genes d lists En) in H. destruct (marker_cache genes lists); discriminate.
    - rewrite <- (raw_equals_declared R lg genes d lists En). exact H. }
  split; [|split; [|exact H']].
  - unfold prepare_query in H'. destruct (marker_cache genes lists); [|discriminate]. cbn [bind] in H'.
    rewrite make_cbg_spec in H'.
    destruct (negb (forallb (fun r => Nat.eqb (length r) (length genes)) (normalised_rows R lg inp))); [discriminate|].
    destruct (znodup_b genes) eqn:En; [apply znodup_b_spec; exact En | discriminate].
  - unfold prepare_query in H'. destruct (marker_cache genes lists); [|discriminate]. cbn [bind] in H'.
    rewrite make_cbg_spec in H'.
    destruct (forallb (fun r => Nat.eqb (length r) (length genes)) (normalised_rows R lg inp)) eqn:Es;
      [apply shape_check; exact Es | discriminate].
Qed.

(* the matrix of the k-th list: every cell's values of that list's genes, looked up BY NAME in the
   normalised full row *)
Lemma prepared_matrix genes inp lists mats k l :
  prepare_query R lg genes inp lists = Ok mats -> nth_error lists k = Some l ->
  NoDup l /\ incl l genes /\
  nth_error mats k = Some (map (fun row => pick genes row l) (normalised_rows R lg inp)).
Proof.
  intros H Hk. destruct (prepare_ok_inv _ _ _ _ H) as (Hn & Hw & H').
  rewrite (prepare_norm_spec R lg genes _ lists Hn Hw) in H'.
  destruct (forallb (fun g => zmem g genes) (concat lists)) eqn:Eall; [|discriminate].
  destruct (res_all_nth _ _ _ _ _ H' Hk) as (y & Hy & Hs).
  unfold spec_matrix in Hs. destruct (znodup_b l) eqn:Enl; [|discriminate]. injection Hs as <-.
  split; [apply znodup_b_spec; exact Enl|]. split; [|exact Hy].
  intros g Hg. rewrite forallb_forall in Eall. apply zmem_in. apply Eall.
  apply (in_concat_incl l lists (nth_error_In _ _ Hk) g Hg).
Qed.

Lemma pick_by_name {A} genes (row : list A) l :
  length row = length genes -> incl l genes ->
  Forall2 (fun g v => zassoc g (combine genes row) = Some v) l (pick genes row l).
Proof.
  intros Hl. induction l as [|g t IH]; intros Hi; [constructor|].
  unfold pick in *. cbn [flat_map].
  destruct (lookup_known genes row g Hl (Hi g (or_introl eq_refl))) as [v Hv]. rewrite Hv. cbn [olist app].
  constructor; [rewrite <- lookup_zassoc; exact Hv|]. apply IH. intros x Hx. apply Hi. right. exact Hx.
Qed.

End Prep.

(* ------------------------------------------------------------------ THE BRIDGE *)
Theorem prepared_row_is_the_compared_row (A R : Type) (lg : frac -> R) tb t refg qg c lists inp mats
        qgenes qnorm (m : rmat A) parent a :
  write_query_markers tb refg qg = MOk c ->
  cache_lists c qg = Some lists ->
  prepare_query R lg qg inp lists = Ok mats ->
  assemble_reference A t (c_groups c) refg qg qgenes qnorm m parent = ROk a ->
  exists k l,
    group_index parent (c_groups c) = Some k /\ pidx_of c parent = k /\
    nth_error lists k = Some (m_genes (a_ref a)) /\ a_qgenes a = m_genes (a_ref a) /\
    In (parent, l) tb /\ Permutation l (m_genes (a_ref a)) /\
    length (nth k mats []) = length (normalised_rows R lg inp) /\
    forall ci row, nth_error (normalised_rows R lg inp) ci = Some row ->
      Forall2 (fun g v => zassoc g (combine qg row) = Some v)
              (m_genes (a_ref a)) (nth ci (nth (pidx_of c parent) mats []) []).
Proof.
  intros Wq Hl Hp Ha.
  destruct (columns_aligned A tb t refg qg c qgenes qnorm m parent a Wq Ha) as (ri & qi & l & Eg & Hin & HP & Eqr & _).
  destruct (assemble_inv A _ _ _ _ _ _ _ _ _ Ha) as (_ & _ & ri' & qi' & _ & _ & Eg' & Eq & _).
  rewrite Eg in Eg'. injection Eg' as <- <-.
  destruct (group_index_tget parent (c_groups c) (ri, qi) Eg) as (k & k' & Hk & Hnth).
  unfold cache_lists in Hl. apply opt_all_Forall2 in Hl.
  destruct (Forall2_nth_l _ _ _ _ _ Hl Hnth) as (lk & Hlk & Hnames). cbn [snd] in Hnames.
  rewrite Eq in Hnames. injection Hnames as <-.
  assert (Hpidx : pidx_of c parent = k) by (unfold pidx_of; rewrite Hk; reflexivity).
  destruct (prepared_matrix R lg qg inp lists mats k _ Hp Hlk) as (_ & Hincl & Hmat).
  destruct (prepare_ok_inv R lg _ _ _ _ Hp) as (_ & Hw & _).
  exists k, l. split; [exact Hk|]. split; [exact Hpidx|]. rewrite <- Eqr.
  split; [exact Hlk|]. split; [reflexivity|]. split; [exact Hin|]. split; [rewrite Eqr; exact HP|].
  rewrite (nth_error_nth _ _ _ Hmat). split; [apply map_length|].
  intros ci row Hrow. rewrite Hpidx, (nth_error_nth _ _ _ Hmat).
  rewrite (nth_error_nth _ ci [] (map_nth_error (fun row0 => pick qg row0 (a_qgenes a)) ci _ Hrow)).
  apply pick_by_name; [|exact Hincl].
  unfold well_shaped in Hw. rewrite Forall_forall in Hw. apply Hw. apply (nth_error_In _ _ Hrow).
Qed.

(* ------------------------------------------------------------------ float summation *)
Lemma fsum_lr_exact_gen row acc :
  0 <= acc -> Forall (fun x => 0 <= x) row -> acc + rsum row <= two24 ->
  fold_left (fun a x => rnd24 (a + x)) row acc = acc + rsum row.
Proof.
  revert acc. induction row as [|x t IH]; intros acc Ha Hr Hs; cbn [fold_left rsum fold_right].
  - unfold rsum. cbn. lia.
  - inversion Hr as [|? ? Hx Ht]; subst.
    assert (Ht0 : 0 <= rsum t) by (apply rsum_nonneg; exact Ht).
    change (fold_right Z.add 0 t) with (rsum t) in *.
    assert (Hr1 : rnd24 (acc + x) = acc + x).
    { unfold rnd24. destruct (acc + x <=? two24) eqn:E; [reflexivity|]. apply Z.leb_gt in E.
      unfold rsum in Hs. cbn [fold_right] in Hs. change (fold_right Z.add 0 t) with (rsum t) in Hs. lia. }
    rewrite Hr1, IH; [unfold rsum; cbn [fold_right]; lia | lia | exact Ht |].
    unfold rsum in Hs |- *. cbn [fold_right] in Hs. lia.
Qed.

(* a row of non-negative integer counts whose sum is at most 2^24 is summed EXACTLY by the
   left-to-right binary32 sum: on such rows the exact model and the float code agree on S *)
Lemma fsum_lr_exact row :
  Forall (fun x => 0 <= x) row -> rsum row <= two24 -> fsum_lr rnd24 row = rsum row.
Proof. intros Hr Hs. unfold fsum_lr. rewrite fsum_lr_exact_gen; [lia | lia | exact Hr | lia]. Qed.

(* ------------------------------------------------------------------ EVERY bracketing (audit 4, A6) *)
(* np.sum(axis=1) is NOT the left-to-right fold for rows of 8 or more entries: numpy's pairwise sum keeps 8
   running partial sums r[j] += a[i + j] and combines them as ((r0+r1)+(r2+r3)) + ((r4+r5)+(r6+r7)), recursing
   on halves above 128 entries.  Whatever the scheme, it is a binary tree of rounded additions whose leaves are
   the entries of the row IN SOME ORDER (not the row order: r0 collects a[0], a[8], a[16], ...), possibly with
   a literal 0 as a start value.  sum_tree is any such tree; the theorem below needs nothing about its shape. *)
Inductive sum_tree :=
| SLeaf (x : Z)                    (* an entry of the row *)
| SZero                            (* the start value of an accumulator *)
| SNode (l r : sum_tree).          (* one rounded addition *)
Fixpoint leaves (t : sum_tree) : list Z :=
  match t with SLeaf x => [x] | SZero => [] | SNode l r => leaves l ++ leaves r end.
Fixpoint fsum_tree (rnd : Z -> Z) (t : sum_tree) : Z :=
  match t with SLeaf x => x | SZero => 0 | SNode l r => rnd (fsum_tree rnd l + fsum_tree rnd r) end.

Lemma rsum_app a b : rsum (a ++ b) = rsum a + rsum b.
Proof. unfold rsum. induction a as [|x t IH]; cbn [app fold_right]; [lia|]. rewrite IH. lia. Qed.

(* every sub-sum of non-negative counts is at most the whole sum, hence at most 2^24, hence exact *)
Lemma fsum_tree_exact t :
  Forall (fun x => 0 <= x) (leaves t) -> rsum (leaves t) <= two24 -> fsum_tree rnd24 t = rsum (leaves t).
Proof.
  induction t as [x| |l IHl r IHr]; intros Hr Hs; cbn [leaves fsum_tree] in *.
  - unfold rsum. cbn. lia.
  - reflexivity.
  - apply Forall_app in Hr. destruct Hr as [Hl Hrr]. rewrite rsum_app in Hs |- *.
    pose proof (rsum_nonneg _ Hl) as Nl. pose proof (rsum_nonneg _ Hrr) as Nr.
    rewrite IHl by (try exact Hl; lia). rewrite IHr by (try exact Hrr; lia).
    unfold rnd24. destruct (rsum (leaves l) + rsum (leaves r) <=? two24) eqn:E; [reflexivity|].
    apply Z.leb_gt in E. lia.
Qed.

(* the statement about a ROW: whatever tree of additions is laid over the entries of the row, taken in
   whatever order, the binary32 result is the exact row sum *)
Theorem fsum_any_bracketing_exact row t :
  Forall (fun x => 0 <= x) row -> rsum row <= two24 -> Permutation (leaves t) row ->
  fsum_tree rnd24 t = rsum row.
Proof.
  intros Hr Hs HP. rewrite <- (rsum_perm _ _ HP) in Hs |- *. apply fsum_tree_exact; [|exact Hs].
  rewrite Forall_forall in Hr |- *. intros x Hx. apply Hr. apply (Permutation_in _ HP Hx).
Qed.

(* the left-to-right fold is one of the trees (the left comb over the row, started at 0) ... *)
Definition comb_tree (row : list Z) : sum_tree := fold_left (fun t x => SNode t (SLeaf x)) row SZero.
Lemma comb_tree_gen rnd row : forall t,
  fsum_tree rnd (fold_left (fun t x => SNode t (SLeaf x)) row t) = fold_left (fun acc x => rnd (acc + x)) row (fsum_tree rnd t) /\
  leaves (fold_left (fun t x => SNode t (SLeaf x)) row t) = leaves t ++ row.
Proof.
  induction row as [|x r IH]; intros t; cbn [fold_left].
  - split; [reflexivity | rewrite app_nil_r; reflexivity].
  - destruct (IH (SNode t (SLeaf x))) as [A B]. split; [exact A|]. rewrite B. cbn [leaves]. rewrite <- app_assoc. reflexivity.
Qed.
Lemma comb_tree_is_fsum_lr rnd row : fsum_tree rnd (comb_tree row) = fsum_lr rnd row /\ leaves (comb_tree row) = row.
Proof. unfold comb_tree, fsum_lr. destruct (comb_tree_gen rnd row SZero) as [A B]. split; [exact A | exact B]. Qed.

(* ... and so is numpy's pairwise_sum for 8 <= n < 16 entries, spelled out for n = 10 (the audit's row length):
   r[0..7] = a[0..7]; res = ((r0+r1)+(r2+r3)) + ((r4+r5)+(r6+r7)); then the n % 8 = 2 remaining entries are added
   to res one by one *)
Definition np_pairwise_10 (a : list Z) : sum_tree :=
  let x i := SLeaf (nth i a 0) in
  let res := SNode (SNode (SNode (x 0%nat) (x 1%nat)) (SNode (x 2%nat) (x 3%nat)))
                   (SNode (SNode (x 4%nat) (x 5%nat)) (SNode (x 6%nat) (x 7%nat))) in
  SNode (SNode res (x 8%nat)) (x 9%nat).
(* out of the domain the two trees differ from each other and from the exact sum (the numbers of the audit:
   np.array([16777213] + [1]*9, dtype=np.float32).sum() = 16777220) *)
Lemma bracketings_differ_above_2_24 :
  let row := [16777213; 1; 1; 1; 1; 1; 1; 1; 1; 1] in
  leaves (np_pairwise_10 row) = row /\
  fsum_tree rnd24 (np_pairwise_10 row) = 16777220 /\ fsum_lr rnd24 row = 16777216 /\ rsum row = 16777222.
Proof. vm_compute. repeat split; reflexivity. Qed.

Lemma float_sum_order_matters :
  (forall r1 r2, Permutation r1 r2 -> rsum r1 = rsum r2) /\
  Permutation [two24; 1; 1] [1; 1; two24] /\
  fsum_lr rnd24 [two24; 1; 1] = 16777216 /\ fsum_lr rnd24 [1; 1; two24] = 16777218 /\
  rsum [two24; 1; 1] = 16777218.
Proof.
  split; [exact rsum_perm|]. split.
  - apply perm_trans with [1; two24; 1]; [apply perm_swap | apply perm_skip; apply perm_swap].
  - vm_compute. repeat split; reflexivity.
Qed.
