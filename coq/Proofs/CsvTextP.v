(* Proofs about Model/CsvText.v: the reader undoes the writer (csv_roundtrip), comment lines are
   skipped (csv_comments_safe), witnesses of the excluded classes; '%.4f' (nearest, ties to even,
   monotone, unit interval, digits round trip). *)
From Coq Require Import ZArith List Bool Lia.
From CTM Require Import Base.Sx Base.SortX Model.Output Model.CsvText Proofs.OutputP.
Import ListNotations.
Open Scope Z_scope.

(* ------------------------------------------------------------------ classification *)
Lemma classify_inv cm c :
  match classify cm c with
  | KComma => c = c_comma | KQuote => c = c_quote | KLf => c = c_lf | KCr => c = c_cr
  | KCom => cm = true /\ c = c_hash
  | KWs => is_blank c = true | KOther => is_blank c = false
  end.
Proof.
  unfold classify, is_blank.
  destruct (c =? c_comma) eqn:E1; [apply Z.eqb_eq in E1; exact E1|].
  destruct (c =? c_quote) eqn:E2; [apply Z.eqb_eq in E2; exact E2|].
  destruct (c =? c_lf) eqn:E3; [apply Z.eqb_eq in E3; exact E3|].
  destruct (c =? c_cr) eqn:E4; [apply Z.eqb_eq in E4; exact E4|].
  destruct (cm && (c =? c_hash)) eqn:E5.
  - apply andb_true_iff in E5 as [Hc E5]. apply Z.eqb_eq in E5. auto.
  - destruct ((c =? c_space) || (c =? c_tab)); reflexivity.
Qed.

Lemma classify_comma cm : classify cm c_comma = KComma.
Proof. reflexivity. Qed.
Lemma classify_quote cm : classify cm c_quote = KQuote.
Proof. reflexivity. Qed.
Lemma classify_lf cm : classify cm c_lf = KLf.
Proof. reflexivity. Qed.

(* a character that the reader just appends to an unquoted field *)
Definition plain (cm : bool) (c : Z) : Prop := classify cm c = KWs \/ classify cm c = KOther.

Lemma plain_class cm c : plain cm c -> classify cm c = if is_blank c then KWs else KOther.
Proof.
  intros Hp. pose proof (classify_inv cm c) as K.
  destruct Hp as [E|E]; rewrite E in *; rewrite K; reflexivity.
Qed.

Lemma plain_of_tests cm c :
  needs_quote_char c = false -> (c =? c_cr) = false -> (cm && (c =? c_hash)) = false -> plain cm c.
Proof.
  intros Hq Hr Hh. unfold needs_quote_char in Hq.
  apply orb_false_iff in Hq as [Hq H3]. apply orb_false_iff in Hq as [H1 H2].
  unfold plain, classify. rewrite H1, H2, H3, Hr, Hh.
  destruct ((c =? c_space) || (c =? c_tab)); [left|right]; reflexivity.
Qed.

Lemma plain_of_field cm f :
  needs_quote f = false -> field_ok cm f = true -> Forall (plain cm) f.
Proof.
  unfold field_ok. intros Hq Hok. rewrite Hq in Hok. cbn [orb] in Hok.
  unfold needs_quote in Hq. induction f as [|c t IH]; [constructor|].
  cbn [existsb] in Hq. apply orb_false_iff in Hq as [Hc Ht].
  cbn [forallb] in Hok. apply andb_true_iff in Hok as [Hc2 Ht2].
  apply andb_true_iff in Hc2 as [Hr Hh].
  apply negb_true_iff in Hr. apply negb_true_iff in Hh.
  constructor; [apply plain_of_tests; assumption | apply IH; assumption].
Qed.

(* ------------------------------------------------------------------ runs *)
Definition pushes (f : str) (a : acc) : acc := mkAcc (rev f ++ a_fld a) (a_row a) (a_done a).

Lemma pushes_nil a : pushes [] a = a.
Proof. destruct a; reflexivity. Qed.
Lemma pushes_cons c t a : pushes t (push c a) = pushes (c :: t) a.
Proof. unfold pushes, push. cbn [a_fld a_row a_done rev]. rewrite <- app_assoc. reflexivity. Qed.

Lemma run_cons cm st a c t :
  run cm st a (c :: t) = run cm (fst (step cm st a c)) (snd (step cm st a c)) t.
Proof. reflexivity. Qed.

Lemma step_if_plain cm a c : plain cm c -> step cm IF a c = (IF, push c a).
Proof. intros [E|E]; unfold step, step_if; rewrite E; reflexivity. Qed.
Lemma step_sf_plain cm a c : plain cm c -> step cm SF a c = (IF, push c a).
Proof. intros [E|E]; unfold step, step_sf; rewrite E; reflexivity. Qed.

Lemma run_if_plain cm : forall f a rest,
  Forall (plain cm) f -> run cm IF a (f ++ rest) = run cm IF (pushes f a) rest.
Proof.
  induction f as [|c t IH]; intros a rest HF.
  - rewrite pushes_nil. reflexivity.
  - inversion HF as [|? ? Hc Ht]; subst. cbn [app]. rewrite run_cons, (step_if_plain cm a c Hc).
    cbn [fst snd]. rewrite IH by assumption. rewrite pushes_cons. reflexivity.
Qed.

Lemma run_iq_body cm : forall f a rest,
  run cm IQ a (double_quotes f ++ rest) = run cm IQ (pushes f a) rest.
Proof.
  induction f as [|c t IH]; intros a rest.
  - rewrite pushes_nil. reflexivity.
  - cbn [double_quotes]. destruct (c =? c_quote) eqn:E.
    + apply Z.eqb_eq in E. subst c. cbn [app]. rewrite run_cons.
      unfold step at 1 2. rewrite classify_quote. cbn [fst snd]. rewrite run_cons.
      unfold step at 1 2. rewrite classify_quote. cbn [fst snd].
      rewrite IH, pushes_cons. reflexivity.
    + cbn [app]. rewrite run_cons.
      assert (Hs : step cm IQ a c = (IQ, push c a)).
      { unfold step. pose proof (classify_inv cm c) as K.
        destruct (classify cm c); try reflexivity.
        subst c. discriminate E. }
      rewrite Hs. cbn [fst snd]. rewrite IH, pushes_cons. reflexivity.
Qed.

(* what a ',' or a '\n' does at the end of a field *)
Definition fin (d : Z) (a : acc) : pstate * acc :=
  if d =? c_comma then (SF, end_field a) else (SR, end_line (end_field a)).
Definition is_term (d : Z) : Prop := d = c_comma \/ d = c_lf.

Lemma step_if_term cm a d : is_term d -> step cm IF a d = fin d a.
Proof. intros [-> | ->]; reflexivity. Qed.
Lemma step_sf_term cm a d : is_term d -> step cm SF a d = fin d a.
Proof. intros [-> | ->]; reflexivity. Qed.
Lemma step_qq_term cm a d : is_term d -> step cm QQ a d = fin d a.
Proof. intros [-> | ->]; reflexivity. Qed.

(* a quoted field, from the opening quote on, in START_FIELD or START_RECORD *)
Lemma run_quoted cm st f a d rest :
  st = SF \/ st = SR -> is_term d ->
  run cm st a ((c_quote :: double_quotes f ++ [c_quote]) ++ d :: rest)
  = run cm (fst (fin d (pushes f a))) (snd (fin d (pushes f a))) rest.
Proof.
  intros Hst Hd. cbn [app]. rewrite run_cons.
  assert (Hs : step cm st a c_quote = (IQ, a)) by (destruct Hst; subst st; reflexivity).
  rewrite Hs. cbn [fst snd]. rewrite <- app_assoc. rewrite run_iq_body. cbn [app].
  rewrite run_cons. unfold step at 1 2. rewrite classify_quote. cbn [fst snd].
  rewrite run_cons. rewrite (step_qq_term cm _ d Hd). reflexivity.
Qed.

Lemma field_sf cm f a d rest :
  field_ok cm f = true -> is_term d ->
  run cm SF a (csv_field f ++ d :: rest)
  = run cm (fst (fin d (pushes f a))) (snd (fin d (pushes f a))) rest.
Proof.
  intros Hok Hd. unfold csv_field. destruct (needs_quote f) eqn:Q.
  - apply run_quoted; auto.
  - pose proof (plain_of_field cm f Q Hok) as HF.
    destruct f as [|c t].
    + cbn [app]. rewrite run_cons, (step_sf_term cm a d Hd), pushes_nil. reflexivity.
    + inversion HF as [|? ? Hc Ht]; subst. cbn [app].
      rewrite run_cons, (step_sf_plain cm a c Hc). cbn [fst snd].
      rewrite run_if_plain by assumption. rewrite run_cons, (step_if_term cm _ d Hd), pushes_cons.
      reflexivity.
Qed.

(* the first field of a record: the line may start with blanks *)
Lemma step_sr_blank cm a c : plain cm c -> is_blank c = true -> step cm SR a c = (WS, push c a).
Proof. intros Hp Hb. unfold step, step_sr. rewrite (plain_class cm c Hp), Hb. reflexivity. Qed.
Lemma step_sr_other cm a c : plain cm c -> is_blank c = false -> step cm SR a c = (IF, push c a).
Proof. intros Hp Hb. unfold step, step_sr, step_sf. rewrite (plain_class cm c Hp), Hb. reflexivity. Qed.
Lemma step_ws_blank cm a c : plain cm c -> is_blank c = true -> step cm WS a c = (WS, push c a).
Proof. intros Hp Hb. unfold step. rewrite (plain_class cm c Hp), Hb. reflexivity. Qed.
Lemma step_ws_other cm a c : plain cm c -> is_blank c = false -> step cm WS a c = (IF, push c a).
Proof. intros Hp Hb. unfold step, step_if. rewrite (plain_class cm c Hp), Hb. reflexivity. Qed.

Lemma run_ws_comma cm : forall t a rest,
  Forall (plain cm) t ->
  run cm WS a (t ++ c_comma :: rest) = run cm SF (end_field (pushes t a)) rest.
Proof.
  induction t as [|c t IH]; intros a rest HF.
  - rewrite pushes_nil. reflexivity.
  - inversion HF as [|? ? Hc Ht]; subst. cbn [app]. rewrite run_cons.
    destruct (is_blank c) eqn:B.
    + rewrite (step_ws_blank cm a c Hc B). cbn [fst snd]. rewrite IH by assumption.
      rewrite pushes_cons. reflexivity.
    + rewrite (step_ws_other cm a c Hc B). cbn [fst snd]. rewrite run_if_plain by assumption.
      rewrite run_cons, (step_if_term cm _ c_comma (or_introl eq_refl)), pushes_cons. reflexivity.
Qed.

Definition nonblank (c : Z) : bool := negb (is_blank c).

Lemma run_ws_lf cm : forall t a rest,
  Forall (plain cm) t -> existsb nonblank t = true ->
  run cm WS a (t ++ c_lf :: rest) = run cm SR (end_line (end_field (pushes t a))) rest.
Proof.
  induction t as [|c t IH]; intros a rest HF HE.
  - discriminate HE.
  - inversion HF as [|? ? Hc Ht]; subst. cbn [app]. rewrite run_cons.
    destruct (is_blank c) eqn:B.
    + rewrite (step_ws_blank cm a c Hc B). cbn [fst snd].
      cbn [existsb] in HE. unfold nonblank at 1 in HE. rewrite B in HE. cbn [negb orb] in HE.
      rewrite IH by assumption. rewrite pushes_cons. reflexivity.
    + rewrite (step_ws_other cm a c Hc B). cbn [fst snd]. rewrite run_if_plain by assumption.
      rewrite run_cons, (step_if_term cm _ c_lf (or_intror eq_refl)), pushes_cons. reflexivity.
Qed.

Lemma field_sr_comma cm f a rest :
  field_ok cm f = true ->
  run cm SR a (csv_field f ++ c_comma :: rest) = run cm SF (end_field (pushes f a)) rest.
Proof.
  intros Hok. unfold csv_field. destruct (needs_quote f) eqn:Q.
  - rewrite (run_quoted cm SR f a c_comma rest (or_intror eq_refl) (or_introl eq_refl)). reflexivity.
  - pose proof (plain_of_field cm f Q Hok) as HF.
    destruct f as [|c t].
    + cbn [app]. rewrite run_cons, pushes_nil. reflexivity.
    + inversion HF as [|? ? Hc Ht]; subst. cbn [app]. rewrite run_cons.
      destruct (is_blank c) eqn:B.
      * rewrite (step_sr_blank cm a c Hc B). cbn [fst snd]. rewrite run_ws_comma by assumption.
        rewrite pushes_cons. reflexivity.
      * rewrite (step_sr_other cm a c Hc B). cbn [fst snd]. rewrite run_if_plain by assumption.
        rewrite run_cons, (step_if_term cm _ c_comma (or_introl eq_refl)), pushes_cons. reflexivity.
Qed.

Lemma field_sr_lf cm f a rest :
  field_ok cm f = true -> (needs_quote f = true \/ existsb nonblank f = true) ->
  run cm SR a (csv_field f ++ c_lf :: rest) = run cm SR (end_line (end_field (pushes f a))) rest.
Proof.
  intros Hok Hnb. unfold csv_field. destruct (needs_quote f) eqn:Q.
  - rewrite (run_quoted cm SR f a c_lf rest (or_intror eq_refl) (or_intror eq_refl)). reflexivity.
  - destruct Hnb as [Hq|Hnb]; [discriminate Hq|].
    pose proof (plain_of_field cm f Q Hok) as HF.
    destruct f as [|c t]; [discriminate Hnb|].
    inversion HF as [|? ? Hc Ht]; subst. cbn [app]. rewrite run_cons.
    destruct (is_blank c) eqn:B.
    + rewrite (step_sr_blank cm a c Hc B). cbn [fst snd].
      cbn [existsb] in Hnb. unfold nonblank at 1 in Hnb. rewrite B in Hnb. cbn [negb orb] in Hnb.
      rewrite run_ws_lf by assumption. rewrite pushes_cons. reflexivity.
    + rewrite (step_sr_other cm a c Hc B). cbn [fst snd]. rewrite run_if_plain by assumption.
      rewrite run_cons, (step_if_term cm _ c_lf (or_intror eq_refl)), pushes_cons. reflexivity.
Qed.

(* ------------------------------------------------------------------ records *)
Lemma join_fields_cons2 f g t :
  join_fields (f :: g :: t) = csv_field f ++ c_comma :: join_fields (g :: t).
Proof. reflexivity. Qed.

Lemma field_done f rw dn :
  end_field (pushes f (mkAcc [] rw dn)) = mkAcc [] (f :: rw) dn.
Proof.
  unfold end_field, pushes. cbn [a_fld a_row a_done]. rewrite app_nil_r, rev_involutive. reflexivity.
Qed.

Lemma sf_fields cm : forall r,
  r <> [] -> forallb (field_ok cm) r = true ->
  forall rw dn rest,
    run cm SF (mkAcc [] rw dn) (join_fields r ++ c_lf :: rest)
    = run cm SR (mkAcc [] [] (rev (rev r ++ rw) :: dn)) rest.
Proof.
  induction r as [|f t IH]; intros Hne Hok rw dn rest; [congruence|].
  cbn [forallb] in Hok. apply andb_true_iff in Hok as [Hf Ht].
  destruct t as [|g t'].
  - cbn [join_fields]. rewrite (field_sf cm f _ c_lf rest Hf (or_intror eq_refl)).
    unfold fin. cbn [fst snd]. replace (c_lf =? c_comma) with false by reflexivity. cbn [fst snd].
    rewrite field_done. unfold end_line. cbn [a_row a_done rev app]. reflexivity.
  - rewrite join_fields_cons2. rewrite <- app_assoc, <- app_comm_cons.
    rewrite (field_sf cm f _ c_comma _ Hf (or_introl eq_refl)).
    unfold fin. replace (c_comma =? c_comma) with true by reflexivity. cbn [fst snd].
    rewrite field_done. rewrite IH by (congruence || assumption).
    replace (rev (g :: t') ++ f :: rw) with (rev (f :: g :: t') ++ rw); [reflexivity|].
    cbn [rev]. rewrite <- !app_assoc. reflexivity.
Qed.

Lemma row_parse cm r dn rest :
  row_tok cm r = true ->
  run cm SR (mkAcc [] [] dn) (csv_row r ++ rest) = run cm SR (mkAcc [] [] (r :: dn)) rest.
Proof.
  unfold row_tok. intros H. apply andb_true_iff in H as [Hok Hshape].
  destruct r as [|f t]; [discriminate Hshape|].
  cbn [forallb] in Hok. apply andb_true_iff in Hok as [Hf Ht].
  destruct t as [|g t'].
  - destruct f as [|c f'].
    + destruct cm; reflexivity.
    + set (f := c :: f') in *.
      change (csv_row [f]) with (csv_field f ++ [c_lf]).
      rewrite <- app_assoc. cbn [app].
      rewrite field_sr_lf; [| assumption |].
      * rewrite field_done. reflexivity.
      * apply orb_true_iff in Hshape. destruct Hshape as [Hq|Hnb]; [left; assumption|right].
        exact Hnb.
  - assert (Hr : csv_row (f :: g :: t') = join_fields (f :: g :: t') ++ [c_lf]).
    { destruct f; reflexivity. }
    rewrite Hr, join_fields_cons2. rewrite <- !app_assoc, <- app_comm_cons. cbn [app].
    rewrite field_sr_comma by assumption. rewrite field_done.
    rewrite sf_fields by (congruence || assumption).
    replace (rev (rev (g :: t') ++ [f])) with (f :: g :: t'); [reflexivity|].
    rewrite rev_app_distr, rev_involutive. reflexivity.
Qed.

Lemma text_parse cm : forall rows dn rest,
  well_tok cm rows = true ->
  run cm SR (mkAcc [] [] dn) (csv_text rows ++ rest) = run cm SR (mkAcc [] [] (rev rows ++ dn)) rest.
Proof.
  induction rows as [|r t IH]; intros dn rest Hw.
  - reflexivity.
  - unfold well_tok in Hw. cbn [forallb] in Hw. apply andb_true_iff in Hw as [Hr Ht].
    unfold csv_text. cbn [map concat]. rewrite <- app_assoc.
    rewrite row_parse by assumption. fold (csv_text t). rewrite IH by assumption.
    cbn [rev]. rewrite <- app_assoc. reflexivity.
Qed.

(* comment lines in front of the table *)
Lemma run_cml : forall body a rest,
  comment_ok body = true -> run true CML a (body ++ c_lf :: rest) = run true SR a rest.
Proof.
  induction body as [|c t IH]; intros a rest Hok.
  - reflexivity.
  - unfold comment_ok in Hok. cbn [forallb] in Hok. apply andb_true_iff in Hok as [Hc Ht].
    apply andb_true_iff in Hc as [Hc _].
    apply andb_true_iff in Hc as [H1 H2]. apply negb_true_iff in H1. apply negb_true_iff in H2.
    cbn [app]. rewrite run_cons.
    assert (Hs : step true CML a c = (CML, a)).
    { unfold step. pose proof (classify_inv true c) as K.
      destruct (classify true c); try reflexivity; subst c; discriminate. }
    rewrite Hs. cbn [fst snd]. apply IH. exact Ht.
Qed.

Lemma comments_skipped : forall bodies dn rest,
  forallb comment_ok bodies = true ->
  run true SR (mkAcc [] [] dn) (comment_text bodies ++ rest) = run true SR (mkAcc [] [] dn) rest.
Proof.
  induction bodies as [|b t IH]; intros dn rest Hok.
  - reflexivity.
  - cbn [forallb] in Hok. apply andb_true_iff in Hok as [Hb Ht].
    unfold comment_text. cbn [map concat]. fold (comment_text t).
    unfold comment_line. rewrite <- app_assoc. cbn [app]. rewrite run_cons.
    assert (Hs : step true SR (mkAcc [] [] dn) c_hash = (CML, mkAcc [] [] dn)) by reflexivity.
    rewrite Hs. cbn [fst snd]. rewrite <- app_assoc. cbn [app]. rewrite run_cml by assumption.
    apply IH. exact Ht.
Qed.

(* ------------------------------------------------------------------ the round trip *)
(* for the tokenizer model as such ... *)
Theorem csv_roundtrip_tok cm rows :
  well_tok cm rows = true -> csv_parse cm (csv_text rows) = Some rows.
Proof.
  intros Hw. unfold csv_parse, acc0.
  rewrite <- (app_nil_r (csv_text rows)). rewrite text_parse by assumption.
  cbn [run fst snd finish a_done]. rewrite app_nil_r, rev_involutive. reflexivity.
Qed.

Theorem csv_comments_safe_tok bodies rows :
  forallb comment_ok bodies = true -> well_tok true rows = true ->
  csv_parse true (csv_file bodies rows) = Some rows.
Proof.
  intros Hb Hw. unfold csv_parse, acc0, csv_file.
  rewrite comments_skipped by assumption.
  rewrite <- (app_nil_r (csv_text rows)). rewrite text_parse by assumption.
  cbn [run fst snd finish a_done]. rewrite app_nil_r, rev_involutive. reflexivity.
Qed.

(* ... and on the tables where the model is the real reader (well_shaped = well_tok + the first field of a
   row does not start with an unquoted blank + every code point is a Unicode scalar value other than NUL) *)
Lemma well_shaped_tok cm rows : well_shaped cm rows = true -> well_tok cm rows = true.
Proof.
  unfold well_shaped, well_tok. intros H0. apply andb_true_iff in H0 as [_ H0]. revert H0.
  induction rows as [|r t IH]; [reflexivity|]. cbn [forallb].
  intros H. apply andb_true_iff in H as [Hr Ht]. unfold row_ok in Hr.
  apply andb_true_iff in Hr as [Hr _]. apply andb_true_iff in Hr as [Hr _].
  rewrite Hr, (IH Ht). reflexivity.
Qed.

Theorem csv_roundtrip_gen cm rows :
  well_shaped cm rows = true -> csv_parse cm (csv_text rows) = Some rows.
Proof. intros H. apply csv_roundtrip_tok, well_shaped_tok, H. Qed.

Theorem csv_roundtrip rows :
  well_shaped false rows = true -> csv_parse false (csv_text rows) = Some rows.
Proof. apply csv_roundtrip_gen. Qed.

Theorem csv_comments_safe bodies rows :
  forallb comment_ok bodies = true -> well_shaped true rows = true ->
  csv_parse true (csv_file bodies rows) = Some rows.
Proof. intros Hb Hw. apply csv_comments_safe_tok; [exact Hb | apply well_shaped_tok, Hw]. Qed.

(* on a well_shaped table the reader never enters the WHITESPACE_LINE state at the start of a row -- the only
   state in which pandas' tokenizer looks back into its buffer (and loses blanks at a chunk boundary): the
   first character of the text of a row is not a blank *)
Lemma row_text_starts_nonblank cm r :
  row_ok cm r = true -> match csv_row r with c :: _ => is_blank c = false | [] => False end.
Proof.
  unfold row_ok. intros H. apply andb_true_iff in H as [H _]. apply andb_true_iff in H as [Ht Hf].
  destruct r as [|f t]; [unfold row_tok in Ht; rewrite andb_false_r in Ht; discriminate|].
  cbn [first_ok] in Hf.
  assert (Hfield : match csv_field f ++ [c_comma] with c :: _ => is_blank c = false | [] => False end).
  { unfold csv_field. destruct (needs_quote f); [reflexivity|]. cbn [orb] in Hf.
    destruct f as [|c f']; [reflexivity|]. cbn [app]. apply negb_true_iff. exact Hf. }
  unfold csv_row. destruct f as [|c f'].
  - destruct t as [|g t']; [reflexivity|]. cbn [join_fields]. reflexivity.
  - assert (Hjoin : forall tl, match join_fields ((c :: f') :: tl) ++ [c_lf] with x :: _ => is_blank x = false | [] => False end).
    { intros tl. cbn [join_fields]. unfold csv_field in *. destruct (needs_quote (c :: f')).
      - destruct tl; reflexivity.
      - cbn [orb] in Hf. apply negb_true_iff in Hf. destruct tl; cbn [app]; exact Hf. }
    apply Hjoin.
Qed.

(* well_shaped true is stronger than well_shaped false *)
Lemma field_ok_weaken f : field_ok true f = true -> field_ok false f = true.
Proof.
  unfold field_ok. destruct (needs_quote f); [reflexivity|]. cbn [orb].
  induction f as [|c t IH]; [reflexivity|]. cbn [forallb]. intros H.
  apply andb_true_iff in H as [Hc Ht]. apply andb_true_iff in Hc as [H1 _].
  rewrite H1, (IH Ht). reflexivity.
Qed.

(* ---- witnesses of the excluded classes (the reader is the faithful one) ---- *)
(* a leading U+FEFF (audit 4, A6): the MODEL of the tokenizer keeps it, the real read_csv strips it (observed:
   the table below reads as [['id','n'],['c','a']]); bom_ok excludes exactly this table - it satisfies every
   other clause of well_shaped *)
Lemma leading_bom_excluded :
  let rows := [[[65279; 105; 100]; [110]]; [[99]; [97]]] in
  well_shaped false rows = false /\ bom_ok rows = false /\ forallb (row_ok false) rows = true /\
  csv_parse false (csv_text rows) = Some rows /\
  (* quoted, or not at the start of the text: admitted *)
  well_shaped false [[[65279; 44; 105]; [110]]] = true /\ well_shaped false [[[105]; [65279]]; [[65279]; [97]]] = true.
Proof. vm_compute. repeat split; reflexivity. Qed.

(* '#' at the start of the first field (cell_id #c): the row vanishes for a reader with comment='#' *)
Lemma hash_row_vanishes :
  exists rows rows',
    well_shaped false rows = true /\
    csv_parse true (csv_text rows) = Some rows' /\ (length rows' < length rows)%nat.
Proof.
  exists [[[105; 100]; [110]]; [[35; 99]; [120]]; [[100]; [121]]], [[[105; 100]; [110]]; [[100]; [121]]].
  vm_compute. repeat split; reflexivity || lia.
Qed.
(* '#' inside a later field (node name a#b): the field is cut and the rest of the row is lost *)
Lemma hash_field_truncated :
  exists rows,
    well_shaped false rows = true /\
    csv_parse true (csv_text rows) = Some [[[105; 100]; [110]; [122]]; [[99]; [97]]].
Proof.
  exists [[[105; 100]; [110]; [122]]; [[99]; [97; 35; 98]; [119]]].
  vm_compute. split; reflexivity.
Qed.
(* a '\r' in a field without ',' DQUOTE '\n' is written unquoted and read as a line end *)
Lemma cr_field_splits_row :
  exists rows,
    row_ok false [[99]; [97; 13; 98]; [119]] = false /\
    rows = [[[105; 100]; [110]; [122]]; [[99]; [97; 13; 98]; [119]]] /\
    csv_parse false (csv_text rows) = Some [[[105; 100]; [110]; [122]]; [[99]; [97]]; [[98]; [119]]].
Proof. eexists. vm_compute. repeat split; reflexivity. Qed.
(* a one-column table: a field of blanks only is a blank line to the reader *)
Lemma blank_single_column_vanishes :
  csv_parse false (csv_text [[[110]]; [[32; 9]]; [[120]]]) = Some [[[110]]; [[120]]].
Proof. vm_compute. reflexivity. Qed.

(* ------------------------------------------------------------------ '%.4f' *)
Lemma rhe_tie_even n d :
  0 < d -> 2 * Z.abs (round_half_even (n, d) * d - n) = d -> Z.even (round_half_even (n, d)) = true.
Proof.
  intros Hd. unfold round_half_even.
  pose proof (Z.div_mod n d ltac:(lia)) as Hdm.
  pose proof (Z.mod_pos_bound n d Hd) as Hb.
  set (q := n / d) in *. set (r := n mod d) in *.
  destruct (2 * r <? d) eqn:E1.
  - apply Z.ltb_lt in E1. intros H. exfalso. nia.
  - apply Z.ltb_ge in E1. destruct (d <? 2 * r) eqn:E2.
    + apply Z.ltb_lt in E2. intros H. exfalso. nia.
    + destruct (Z.even q) eqn:E3; intros _; [exact E3|].
      rewrite Z.add_1_r, Z.even_succ. rewrite <- Z.negb_even. rewrite E3. reflexivity.
Qed.

Lemma rhe_mono n1 d1 n2 d2 :
  0 < d1 -> 0 < d2 -> n1 * d2 <= n2 * d1 ->
  round_half_even (n1, d1) <= round_half_even (n2, d2).
Proof.
  intros H1 H2 Hle.
  pose proof (round_half_even_half n1 d1 H1) as A1.
  pose proof (round_half_even_half n2 d2 H2) as A2.
  pose proof (rhe_tie_even n1 d1 H1) as T1.
  pose proof (rhe_tie_even n2 d2 H2) as T2.
  set (k1 := round_half_even (n1, d1)) in *. set (k2 := round_half_even (n2, d2)) in *.
  destruct (Z_le_gt_dec k1 k2) as [|Hgt]; [assumption|exfalso].
  assert (B1 : (2 * k1 - 1) * d1 <= 2 * n1) by lia.
  assert (B2 : 2 * n2 <= (2 * k2 + 1) * d2) by lia.
  assert (C1 : (2 * k1 - 1) * (d1 * d2) <= 2 * (n1 * d2)) by nia.
  assert (C2 : 2 * (n2 * d1) <= (2 * k2 + 1) * (d1 * d2)) by nia.
  assert (P : 0 < d1 * d2) by nia.
  assert (K : k1 = k2 + 1) by nia.
  assert (E1 : (2 * k1 - 1) * (d1 * d2) = 2 * (n1 * d2)) by nia.
  assert (E2 : 2 * (n2 * d1) = (2 * k2 + 1) * (d1 * d2)) by nia.
  assert (F1 : (2 * k1 - 1) * d1 = 2 * n1) by nia.
  assert (F2 : 2 * n2 = (2 * k2 + 1) * d2) by nia.
  assert (V1 : Z.even k1 = true) by (apply T1; lia).
  assert (V2 : Z.even k2 = true) by (apply T2; lia).
  subst k1. rewrite K in V1. rewrite Z.add_1_r, Z.even_succ, <- Z.negb_even, V2 in V1. discriminate.
Qed.

Lemma rhe_int n : round_half_even (n, 1) = n.
Proof.
  unfold round_half_even. rewrite Z.div_1_r, Z.mod_1_r. reflexivity.
Qed.

Lemma dyadic_den_pos m e : 0 < snd (dyadic m e).
Proof.
  unfold dyadic. destruct (0 <=? e) eqn:E; cbn [snd]; [lia|].
  apply Z.leb_gt in E. apply Z.pow_pos_nonneg; lia.
Qed.

(* dyadic m e is the value m * 2^e: after scaling by any large enough power of two *)
Lemma dyadic_exact m e s :
  0 <= s -> 0 <= e + s ->
  fst (dyadic m e) * 2 ^ s = snd (dyadic m e) * (m * 2 ^ (e + s)).
Proof.
  intros Hs Hes. unfold dyadic. destruct (0 <=? e) eqn:E; cbn [fst snd].
  - apply Z.leb_le in E. rewrite Z.pow_add_r by lia. ring.
  - apply Z.leb_gt in E. replace s with (- e + (e + s)) at 1 by lia.
    rewrite Z.pow_add_r by lia. ring.
Qed.

Lemma fmt4k_exact m e : 0 <= e -> fmt4k m e = m * 2 ^ e * 10000.
Proof.
  intros He. unfold fmt4k, fmt4, dyadic. apply Z.leb_le in He. rewrite He. cbn [fst snd].
  apply rhe_int.
Qed.

Lemma fmt4k_nearest m e :
  e < 0 -> 2 * Z.abs (fmt4k m e * 2 ^ (- e) - 10000 * m) <= 2 ^ (- e).
Proof.
  intros He. unfold fmt4k.
  pose proof (fmt4_half (dyadic m e) (dyadic_den_pos m e)) as H.
  unfold dyadic in *. apply Z.leb_gt in He. rewrite He in *. cbn [fst snd] in H. exact H.
Qed.

Lemma fmt4k_ties_even m e :
  e < 0 -> 2 * Z.abs (fmt4k m e * 2 ^ (- e) - 10000 * m) = 2 ^ (- e) -> Z.even (fmt4k m e) = true.
Proof.
  intros He H. unfold fmt4k, fmt4 in *. pose proof (dyadic_den_pos m e) as Hd.
  unfold dyadic in *. apply Z.leb_gt in He. rewrite He in *. cbn [fst snd] in *.
  apply rhe_tie_even; [assumption|]. etransitivity; [|exact H]. f_equal. f_equal. ring.
Qed.

Lemma fmt4_mono (x y : rat) :
  0 < snd x -> 0 < snd y -> fst x * snd y <= fst y * snd x -> fmt4 x <= fmt4 y.
Proof.
  intros Hx Hy Hle. unfold fmt4. apply rhe_mono; try assumption. nia.
Qed.

Lemma fmt4k_mono m1 e1 m2 e2 :
  fst (dyadic m1 e1) * snd (dyadic m2 e2) <= fst (dyadic m2 e2) * snd (dyadic m1 e1) ->
  fmt4k m1 e1 <= fmt4k m2 e2.
Proof. intros H. unfold fmt4k. apply fmt4_mono; auto using dyadic_den_pos. Qed.

Lemma fmt4k_unit m e :
  0 <= fst (dyadic m e) <= snd (dyadic m e) -> 0 <= fmt4k m e <= 10000.
Proof.
  intros [H0 H1]. pose proof (dyadic_den_pos m e) as Hd. unfold fmt4k. split.
  - change 0 with (fmt4 (0, 1)). apply fmt4_mono; cbn [fst snd]; lia.
  - change 10000 with (fmt4 (1, 1)). apply fmt4_mono; cbn [fst snd]; lia.
Qed.

Lemma fmt4k_nonneg m e : 0 <= m -> 0 <= fmt4k m e.
Proof.
  intros Hm. pose proof (dyadic_den_pos m e) as Hd. unfold fmt4k.
  change 0 with (fmt4 (0, 1)). apply fmt4_mono; cbn [fst snd]; try lia.
  unfold dyadic. destruct (0 <=? e) eqn:E; cbn [fst]; [|lia].
  apply Z.leb_le in E. pose proof (Z.pow_nonneg 2 e ltac:(lia)). nia.
Qed.

(* ---- digits ---- *)
Definition is_digit (c : Z) : bool := (48 <=? c) && (c <=? 57).

Lemma digit_ok k : 0 <= k < 10 -> is_digit (48 + k) = true.
Proof. intros H. unfold is_digit. apply andb_true_iff. split; apply Z.leb_le; lia. Qed.

Lemma parse_digits_cons k t a :
  0 <= k < 10 -> parse_digits ((48 + k) :: t) a = parse_digits t (a * 10 + k).
Proof.
  intros H. cbn [parse_digits]. fold (is_digit (48 + k)). rewrite (digit_ok k H).
  f_equal. lia.
Qed.

Lemma dig_parse : forall fuel k l,
  0 <= k < 10 ^ Z.of_nat fuel -> parse_digits (dig fuel k l) 0 = parse_digits l k.
Proof.
  induction fuel as [|f IH]; intros k l Hk.
  - cbn [dig]. change (10 ^ Z.of_nat 0) with 1 in Hk. replace k with 0 by lia. reflexivity.
  - cbn [dig]. destruct (k <? 10) eqn:E.
    + apply Z.ltb_lt in E. rewrite parse_digits_cons by lia. f_equal.
    + apply Z.ltb_ge in E.
      assert (Hp : 10 ^ Z.of_nat (S f) = 10 * 10 ^ Z.of_nat f).
      { rewrite Nat2Z.inj_succ, Z.pow_succ_r by lia. reflexivity. }
      rewrite IH.
      * rewrite parse_digits_cons by (apply Z.mod_pos_bound; lia). f_equal.
        pose proof (Z.div_mod k 10 ltac:(lia)). lia.
      * split; [apply Z.div_pos; lia|]. apply Z.div_lt_upper_bound; lia.
Qed.

Lemma digf_parse : forall n k l,
  0 <= k < 10 ^ Z.of_nat n -> parse_digits (digf n k l) 0 = parse_digits l k.
Proof.
  induction n as [|n IH]; intros k l Hk.
  - cbn [digf]. change (10 ^ Z.of_nat 0) with 1 in Hk. replace k with 0 by lia. reflexivity.
  - cbn [digf].
    assert (Hp : 10 ^ Z.of_nat (S n) = 10 * 10 ^ Z.of_nat n).
    { rewrite Nat2Z.inj_succ, Z.pow_succ_r by lia. reflexivity. }
    rewrite IH.
    + rewrite parse_digits_cons by (apply Z.mod_pos_bound; lia). f_equal.
      pose proof (Z.div_mod k 10 ltac:(lia)). lia.
    + split; [apply Z.div_pos; lia|]. apply Z.div_lt_upper_bound; lia.
Qed.

Lemma digf_length : forall n k l, length (digf n k l) = (n + length l)%nat.
Proof.
  induction n as [|n IH]; intros k l; [reflexivity|].
  cbn [digf]. rewrite IH. cbn [length]. lia.
Qed.

(* every character produced is a decimal digit (given that those already there are) *)
Lemma dig_digits : forall fuel k l,
  0 <= k -> forallb is_digit l = true -> forallb is_digit (dig fuel k l) = true.
Proof.
  induction fuel as [|f IH]; intros k l Hk Hl; [exact Hl|].
  cbn [dig]. destruct (k <? 10) eqn:E.
  - apply Z.ltb_lt in E. cbn [forallb]. rewrite digit_ok by lia. exact Hl.
  - apply IH; [apply Z.div_pos; lia|]. cbn [forallb].
    rewrite digit_ok by (apply Z.mod_pos_bound; lia). exact Hl.
Qed.

Lemma dig_nonempty : forall fuel k l, l <> [] -> dig fuel k l <> [].
Proof.
  induction fuel as [|f IH]; intros k l Hl; [exact Hl|].
  cbn [dig]. destruct (k <? 10); [discriminate|]. apply IH. discriminate.
Qed.

Lemma digits_nonempty k : digits k <> [].
Proof.
  unfold digits. cbn [dig]. destruct (k <? 10); [discriminate|]. apply dig_nonempty. discriminate.
Qed.

Lemma digits_fuel k : 0 <= k -> k < 10 ^ Z.of_nat (S (Z.to_nat (Z.log2 k))).
Proof.
  intros Hk. rewrite Nat2Z.inj_succ, Z2Nat.id by apply Z.log2_nonneg.
  destruct (Z.eq_dec k 0) as [->|Hnz]; [reflexivity|].
  pose proof (Z.log2_spec k ltac:(lia)) as [_ Hu].
  pose proof (Z.log2_nonneg k) as Hl.
  eapply Z.lt_le_trans; [exact Hu|].
  apply Z.pow_le_mono_l. lia.
Qed.

Lemma digits_parse k : 0 <= k -> parse_digits (digits k) 0 = Some k.
Proof.
  intros Hk. unfold digits. rewrite dig_parse; [reflexivity|].
  split; [assumption|apply digits_fuel; assumption].
Qed.

Lemma split_dot_digits : forall ds rest,
  forallb is_digit ds = true -> split_dot (ds ++ 46 :: rest) = Some (ds, rest).
Proof.
  induction ds as [|c t IH]; intros rest H.
  - reflexivity.
  - cbn [forallb] in H. apply andb_true_iff in H as [Hc Ht].
    cbn [app split_dot]. unfold is_digit in Hc. apply andb_true_iff in Hc as [Hlo _].
    apply Z.leb_le in Hlo. destruct (c =? 46) eqn:E; [apply Z.eqb_eq in E; lia|].
    rewrite IH by assumption. reflexivity.
Qed.

Theorem fixed4u_roundtrip k : 0 <= k -> parse_fixed4u (fixed4 k) = Some k.
Proof.
  intros Hk. unfold parse_fixed4u, fixed4.
  assert (Hq : 0 <= k / 10000) by (apply Z.div_pos; lia).
  pose proof (Z.mod_pos_bound k 10000 ltac:(lia)) as Hr.
  cbn [app]. rewrite split_dot_digits.
  2:{ unfold digits. apply dig_digits; [assumption|reflexivity]. }
  pose proof (digits_nonempty (k / 10000)) as Hne.
  destruct (digits (k / 10000)) as [|c0 t0] eqn:ED; [congruence|].
  rewrite digf_length. cbn [length Nat.add Nat.eqb].
  rewrite <- ED. rewrite digits_parse by assumption.
  rewrite digf_parse by (change (10 ^ Z.of_nat 4) with 10000; lia).
  cbn [parse_digits]. f_equal.
  pose proof (Z.div_mod k 10000 ltac:(lia)). lia.
Qed.

(* the text of a non-negative number starts with a digit, not with '-' *)
Lemma fixed4_head k : 0 <= k -> exists c t, fixed4 k = c :: t /\ is_digit c = true.
Proof.
  intros Hk. unfold fixed4.
  assert (Hq : 0 <= k / 10000) by (apply Z.div_pos; lia).
  pose proof (digits_nonempty (k / 10000)) as Hne.
  assert (Hd : forallb is_digit (digits (k / 10000)) = true).
  { unfold digits. apply dig_digits; [assumption|reflexivity]. }
  destruct (digits (k / 10000)) as [|c0 t0]; [congruence|].
  cbn [forallb] in Hd. apply andb_true_iff in Hd as [Hc _].
  exists c0. eexists. split; [reflexivity | exact Hc].
Qed.

Theorem fixed4_roundtrip k : 0 <= k -> parse_fixed4 (fixed4 k) = Some k.
Proof.
  intros Hk. destruct (fixed4_head k Hk) as (c & t & E & Hc).
  unfold parse_fixed4. rewrite E. unfold is_digit in Hc. apply andb_true_iff in Hc as [Hlo _].
  apply Z.leb_le in Hlo. destruct (c =? 45) eqn:E45; [apply Z.eqb_eq in E45; lia|].
  rewrite <- E. apply fixed4u_roundtrip. exact Hk.
Qed.

(* both signs: '%.4f' of x = (-1)^neg * m * 2^e reads back as (-1)^neg * fmt4k m e; '-0.0000' (a negative
   zero, or a negative value that rounds to zero) reads as 0 *)
Theorem fmt4_text_roundtrip_signed neg m e :
  0 <= m -> parse_fixed4 (fmt4_text neg m e) = Some (if neg then - fmt4k m e else fmt4k m e).
Proof.
  intros Hm. pose proof (fmt4k_nonneg m e Hm) as Hk. unfold fmt4_text. destruct neg; cbn [app].
  - unfold parse_fixed4. change (45 =? 45) with true. cbv iota. rewrite fixed4u_roundtrip by exact Hk. reflexivity.
  - apply fixed4_roundtrip. exact Hk.
Qed.

Theorem fmt4_text_roundtrip m e :
  0 <= m -> parse_fixed4 (fmt4_text false m e) = Some (fmt4k m e).
Proof. intros Hm. exact (fmt4_text_roundtrip_signed false m e Hm). Qed.

Lemma dyadic_value m e s :
  0 <= s -> 0 <= e + s ->
  0 < snd (dyadic m e) /\ fst (dyadic m e) * 2 ^ s = snd (dyadic m e) * (m * 2 ^ (e + s)).
Proof. intros Hs Hes. split; [apply dyadic_den_pos | apply dyadic_exact; assumption]. Qed.

Lemma fmt4k_nearest_both m e :
  (0 <= e -> fmt4k m e = m * 2 ^ e * 10000) /\
  (e < 0 -> 2 * Z.abs (fmt4k m e * 2 ^ (- e) - 10000 * m) <= 2 ^ (- e)).
Proof. split; [apply fmt4k_exact | apply fmt4k_nearest]. Qed.

(* two different (well-shaped) tables never give the same file *)
Lemma csv_text_injective r1 r2 :
  well_shaped false r1 = true -> well_shaped false r2 = true -> csv_text r1 = csv_text r2 -> r1 = r2.
Proof.
  intros H1 H2 E. pose proof (csv_roundtrip r1 H1) as P1. pose proof (csv_roundtrip r2 H2) as P2.
  rewrite E in P1. congruence.
Qed.

(* ------------------------------------------------------------------ negative values *)
Lemma rhe_opp n d : 0 < d -> round_half_even (- n, d) = - round_half_even (n, d).
Proof.
  intros Hd. unfold round_half_even.
  pose proof (Z.div_mod n d ltac:(lia)) as Hdm.
  pose proof (Z.mod_pos_bound n d Hd) as Hb.
  pose proof (Z.div_mod (- n) d ltac:(lia)) as Hdm'.
  pose proof (Z.mod_pos_bound (- n) d Hd) as Hb'.
  set (q := n / d) in *. set (r := n mod d) in *.
  set (q' := - n / d) in *. set (r' := - n mod d) in *.
  assert (Hs : d * (q + q') = - (r + r')) by lia.
  assert (Hs2 : -2 < q + q' < 1) by nia.
  assert (Hq : (q + q' = 0 /\ r = 0 /\ r' = 0) \/ (q + q' = -1 /\ r + r' = d)).
  { destruct (Z.eq_dec (q + q') 0) as [E0|E0]; [left; rewrite E0 in Hs; lia|].
    right. assert (E1 : q + q' = -1) by lia. rewrite E1 in Hs. lia. }
  destruct (2 * r <? d) eqn:E1; destruct (2 * r' <? d) eqn:E1';
    destruct (d <? 2 * r) eqn:E2; destruct (d <? 2 * r') eqn:E2';
    try apply Z.ltb_lt in E1; try apply Z.ltb_ge in E1; try apply Z.ltb_lt in E1'; try apply Z.ltb_ge in E1';
    try apply Z.ltb_lt in E2; try apply Z.ltb_ge in E2; try apply Z.ltb_lt in E2'; try apply Z.ltb_ge in E2';
    try lia.
  assert (Hq' : q' = - Z.succ q) by lia.
  rewrite Hq', Z.even_opp, Z.even_succ, <- Z.negb_even. destruct (Z.even q); cbn [negb]; lia.
Qed.

Lemma fmt4_opp n d : 0 < d -> fmt4 (- n, d) = - fmt4 (n, d).
Proof.
  intros Hd. unfold fmt4. cbn [fst snd]. replace (- n * 10000) with (- (n * 10000)) by lia.
  apply rhe_opp. exact Hd.
Qed.

Lemma fmt4_nonneg n d : 0 <= n -> 0 < d -> 0 <= fmt4 (n, d).
Proof.
  intros Hn Hd. change 0 with (fmt4 (0, 1)) at 1. apply fmt4_mono; cbn [fst snd]; lia.
Qed.

(* the confidence field of the text reads back (digits '.' four digits, optional '-') as the JSON value
   rounded to four decimals: fmt4 x is what c15_four_decimals bounds *)
Theorem fmt4_rat_text_parse (x : rat) : 0 < snd x -> parse_fixed4 (fmt4_rat_text x) = Some (fmt4 x).
Proof.
  destruct x as [n d]; cbn [fst snd]; intros Hd. unfold fmt4_rat_text. cbn [fst snd].
  destruct (n <? 0) eqn:E.
  - apply Z.ltb_lt in E. unfold parse_fixed4. change (45 =? 45) with true. cbv iota.
    rewrite fixed4u_roundtrip by (apply fmt4_nonneg; lia). cbn [option_map].
    rewrite fmt4_opp by exact Hd. f_equal. lia.
  - apply Z.ltb_ge in E. apply fixed4_roundtrip. apply fmt4_nonneg; lia.
Qed.

(* on a double (-1)^neg * m * 2^e (not the negative zero) the text is what '%.4f' prints *)
Lemma fmt4_rat_text_dyadic (neg : bool) (m e : Z) :
  (if neg then 0 < m else 0 <= m) ->
  fmt4_rat_text (dyadic (if neg then - m else m) e) = fmt4_text neg m e.
Proof.
  intros Hm. unfold fmt4_rat_text, fmt4_text, fmt4k, dyadic.
  destruct neg; destruct (0 <=? e) eqn:E; cbn [fst snd app].
  - apply Z.leb_le in E. pose proof (Z.pow_pos_nonneg 2 e ltac:(lia) E) as Hp.
    assert (Hlt : (- m * 2 ^ e <? 0) = true) by (apply Z.ltb_lt; nia).
    rewrite Hlt. replace (- (- m * 2 ^ e)) with (m * 2 ^ e) by lia. reflexivity.
  - assert (Hlt : (- m <? 0) = true) by (apply Z.ltb_lt; lia).
    rewrite Hlt. rewrite Z.opp_involutive. reflexivity.
  - apply Z.leb_le in E. pose proof (Z.pow_pos_nonneg 2 e ltac:(lia) E) as Hp.
    assert (Hlt : (m * 2 ^ e <? 0) = false) by (apply Z.ltb_ge; nia).
    rewrite Hlt. reflexivity.
  - assert (Hlt : (m <? 0) = false) by (apply Z.ltb_ge; lia).
    rewrite Hlt. reflexivity.
Qed.

(* ------------------------------------------------------------------ the file of a blob *)
Theorem csv_text_of_blob names reprs repo version nm hier meta algo conf sticky categ b text :
  (conf < 2)%nat ->
  NoDup (map (level_to_name nm) hier) ->
  blob_to_csv_text names reprs repo version nm hier meta algo conf sticky categ b = Ok text ->
  exists cols rows,
    let bodies := csv_comment_bodies names repo version nm hier meta algo in
    let table := map (col_name names conf) cols :: rows in
    text = csv_file bodies table /\
    (forallb comment_ok bodies = true -> well_shaped true table = true -> csv_parse true text = Some table) /\
    length rows = length b /\
    forall i cl row,
      nth_error b i = Some cl -> nth_error rows i = Some row ->
      tget cols row KId = Some (name_str names (c_id cl)) /\
      forall j level l,
        nth_error hier j = Some level -> nth_error (c_levels cl) j = Some l ->
        let rl := level_to_name nm level in
        tget cols row (KLabel rl) = Some (name_str names (l_assign l)) /\
        tget cols row (KName rl) = Some (name_str names (label_to_name nm level (l_assign l) false)) /\
        (S j = length hier ->
           tget cols row (KAlias rl) = Some (name_str names (label_to_name nm level (l_assign l) true))) /\
        tget cols row (KField rl conf) =
          Some (if zmem rl categ
                then match rassoc (conf_value conf l) reprs with Some s => s | None => [] end
                else fmt4_rat_text (conf_value conf l)).
Proof.
  intros Hconf Hnd H. unfold blob_to_csv_text, blob_to_csv_table in H.
  destruct (blob_to_table (fun k v => cell_text names reprs (col_categ categ k) v) nm hier conf sticky b)
    as [[cols rows]|] eqn:E; cbn [bind fst snd] in H; [|discriminate].
  apply Ok_inj in H. exists cols, rows. cbv zeta.
  split; [symmetry; exact H|]. split.
  - intros Hb Hw. rewrite <- H. apply csv_comments_safe; assumption.
  - destruct (table_rows _ nm hier conf sticky b cols rows Hconf Hnd E) as (Hlen & Hrows).
    split; [exact Hlen|].
    intros i cl row Hbi Hrow. destruct (Hrows i cl row Hbi Hrow) as (Hid & Hlv).
    split; [exact Hid|].
    intros j level l Hh Hl. pose proof (Hlv j level l Hh Hl) as Hx. cbv zeta in Hx.
    destruct Hx as (HA & HB & HC & HD).
    split; [exact HA|]. split; [exact HB|]. split; [exact HC|].
    rewrite HD. cbn. reflexivity.
Qed.

(* ---- the same with sticky / categ DERIVED by the model and the hypotheses on the STRINGS (audit 4, A4) *)
Lemma zmem_filter (P : Z -> bool) x l : zmem x (filter P l) = zmem x l && P x.
Proof. apply Bool.eq_true_iff_eq. rewrite andb_true_iff, !zmem_in, filter_In. reflexivity. Qed.

Lemma NoDup_map_compose {A B C} (f : A -> B) (g : B -> C) (l : list A) :
  NoDup (map (fun x => g (f x)) l) -> NoDup (map f l).
Proof.
  intros H. rewrite <- map_map in H. revert H. generalize (map f l). clear.
  intros l. induction l as [|b t IH]; intros H; [constructor|]. cbn [map] in H.
  inversion H as [|? ? Hn Ht]; subst. constructor; [|apply IH, Ht].
  intros Hin. apply Hn. apply in_map, Hin.
Qed.

Theorem csv_text_of_blob_auto names reprs repo version nm hier meta algo conf b text :
  (conf < 2)%nat ->
  NoDup (map (fun l => name_str names (level_to_name nm l)) hier) ->
  names_defined names (used_names nm hier meta b) = true ->
  blob_to_csv_text_auto names reprs repo version nm hier meta algo conf b = Ok text ->
  exists cols rows,
    let bodies := csv_comment_bodies names repo version nm hier meta algo in
    let table := map (col_name names conf) cols :: rows in
    text = csv_file bodies table /\
    (forallb comment_ok bodies = true -> well_shaped true table = true -> csv_parse true text = Some table) /\
    length rows = length b /\
    forall i cl row,
      nth_error b i = Some cl -> nth_error rows i = Some row ->
      tget cols row KId = Some (name_str names (c_id cl)) /\
      forall j level l,
        nth_error hier j = Some level -> nth_error (c_levels cl) j = Some l ->
        let rl := level_to_name nm level in
        tget cols row (KLabel rl) = Some (name_str names (l_assign l)) /\
        tget cols row (KName rl) = Some (name_str names (label_to_name nm level (l_assign l) false)) /\
        (S j = length hier ->
           tget cols row (KAlias rl) = Some (name_str names (label_to_name nm level (l_assign l) true))) /\
        tget cols row (KField rl conf) =
          Some (if categ_word (name_str names rl)
                then match rassoc (conf_value conf l) reprs with Some s => s | None => [] end
                else fmt4_rat_text (conf_value conf l)).
Proof.
  intros Hconf Hnd _ H. unfold blob_to_csv_text_auto in H. cbv zeta in H.
  apply NoDup_map_compose with (f := level_to_name nm) (g := name_str names) in Hnd.
  destruct (csv_text_of_blob _ _ _ _ _ _ _ _ _ _ _ _ _ Hconf Hnd H) as (cols & rows & Ht & Hp & Hl & Hrows).
  exists cols, rows. cbv zeta. split; [exact Ht|]. split; [exact Hp|]. split; [exact Hl|].
  intros i cl row Hb Hr. destruct (Hrows i cl row Hb Hr) as [Hid Hlv]. split; [exact Hid|].
  intros j level l Hh Hc. destruct (Hlv j level l Hh Hc) as (H1 & H2 & H3 & H4).
  split; [exact H1|]. split; [exact H2|]. split; [exact H3|].
  rewrite H4. unfold categ_of. rewrite zmem_filter.
  assert (Hin : zmem (level_to_name nm level) (map (level_to_name nm) hier) = true).
  { apply zmem_in. apply in_map. eapply nth_error_In, Hh. }
  rewrite Hin. reflexivity.
Qed.
