(* Skipping uninteresting t-values (utils/stats_utils.py:approximate_welch_t_test, boring_t):
   the CDF half of c11_boring_t_sound, and its composition with the Holm half (HolmP.v).

   Numbers: a CDF value is the exact rational c/(2H) (H > 0: the value 0.5), a p-value P/(2H), the
   threshold p_th = T/(2H) - the same common denominator S = 2H as in Model/Holm.v; a t statistic
   is an integer over some common denominator (only order and negation matter); the degrees of
   freedom nu are an opaque index.  scipy's CDF is NOT modelled: it is a Section variable and
   what is assumed about it is written as Section hypotheses (assumptions about scipy, listed in
   the theorem comment of Props/C11.v).  What the code itself does with a CDF value IS modelled
   (Model/Welch.v: clipc, pval_of, p_of_cdf):
     cdf = np.where(np.isfinite(cdf), cdf, 0.5)          (None = NaN)
     cdf = np.clip(cdf, eps, ceil)
     pval = np.where(cdf < 0.5, 2.0*cdf, 2.0*(1.0-cdf))

   PREMISES (re-stated after the audit, defect 1).  The former premise
   `T <= 2 * norm_cdf (- b)` is FALSE of the real boring_t_from_p_value (np.interp of the concave
   inverse overshoots: 2*norm.cdf(-boring_t) = p_th*(1 - 1.4e-6 .. 2.2e-5)), and the former
   `t_sym` was assumed for every t, which no saturating binary64 CDF satisfies.  They are
   replaced by what the real values do satisfy and what the harness checks numerically on every
   run for every nu that occurs (harness/props/c11.py: boring_premise_cases):
     end_lo : t_cdf nu (-b) = Some c  ->  T <= 2 * c            (2*t.cdf(-boring_t, nu) >= p_th)
     end_hi : t_cdf nu b = Some c     ->  T <= 2 * (2H - c)     (2*(1 - t.cdf(boring_t, nu)) >= p_th)
     t_mono : monotone in t ON [-b, b] only
     t_nan  : NaN-ness depends on nu only, on [-b, b]
   No symmetry and no normal CDF are needed any more.  end_lo / end_hi hold for the real functions
   iff nu is below about 3e6 .. 2.6e7 (depending on p_th; measured); above, the Student tail is
   so close to the normal one that the interpolation error of boring_t decides: see
   boring_unsound_without_end_lo (the conclusion is then false) and finding F22 (C11-boring-huge-nu). *)
From Coq Require Import ZArith List Bool Lia.
From CTM Require Import Base.Sx Base.ListX Model.Holm Model.Welch Proofs.HolmP.
Import ListNotations.
Open Scope Z_scope.

Definition gene := (Z * Z)%type.                       (* (nu, t) *)
(* exact_welch_t_test: the p-value of one gene *)
Definition exact_p (t_cdf : Z -> Z -> option Z) (H lo hi : Z) (g : gene) : Z :=
  p_of_cdf H lo hi (t_cdf (fst g) (snd g)).
(* interesting = np.logical_or(tt < -boring_t, tt > boring_t) *)
Definition boring (b : Z) (g : gene) : bool := negb ((snd g <? - b) || (b <? snd g)).
(* approximate_welch_t_test (big_nu = None): cdf = 0.5 unless interesting *)
Definition skip_p (t_cdf : Z -> Z -> option Z) (H lo hi b : Z) (g : gene) : Z :=
  if boring b g then p_of_cdf H lo hi (Some H) else exact_p t_cdf H lo hi g.

Lemma p_of_cdf_range H lo hi c : 0 < H -> 0 <= lo -> hi <= 2 * H -> lo <= hi ->
  0 <= p_of_cdf H lo hi c <= 2 * H.
Proof.
  intros HH Hlo Hhi Hlh. unfold p_of_cdf, pval_of, clipc.
  destruct (2 * Z.min hi (Z.max lo match c with Some v => v | None => H end) <? 2 * H) eqn:E;
    [apply Z.ltb_lt in E | apply Z.ltb_ge in E]; lia.
Qed.

Lemma p_of_half H lo hi : 0 < H -> lo <= H <= hi -> p_of_cdf H lo hi (Some H) = 2 * H.
Proof.
  intros HH Hc. unfold p_of_cdf, pval_of, clipc.
  replace (Z.min hi (Z.max lo H)) with H by lia.
  rewrite Z.ltb_irrefl. lia.
Qed.

Lemma Forall2_map_l' {A B C} (R : B -> C -> Prop) (f : A -> B) : forall l l',
  Forall2 (fun a c => R (f a) c) l l' -> Forall2 R (map f l) l'.
Proof. intros l l' H. induction H; cbn; constructor; assumption. Qed.

(* ------------------------------------------------------------------ *)
(* generic form: any type of gene, the oracle's CDF value of each gene, any skipping rule.
   Premise: the exact CDF value c of a SKIPPED gene satisfies p_th <= 2c and p_th <= 2(1 - c),
   i.e. its exact two-sided p-value, before clipping, is >= p_th. *)
Section BoringG.
  Variable G : Type.
  Variables H lo hi T : Z.
  Variable cdfv : G -> option Z.
  Variable brg : G -> bool.
  Hypothesis H_pos : 0 < H.
  Hypothesis clip_lo : 0 <= lo <= H.
  Hypothesis clip_hi : H <= hi <= 2 * H.
  Hypothesis T_le_1 : T <= 2 * H.
  Hypothesis skipped_ge : forall g c, brg g = true -> cdfv g = Some c -> T <= 2 * c /\ T <= 2 * (2 * H - c).

  Definition exactG (g : G) : Z := p_of_cdf H lo hi (cdfv g).
  Definition skipG (g : G) : Z := if brg g then p_of_cdf H lo hi (Some H) else exactG g.

  Lemma boringG_exact_ge : forall g, brg g = true -> T <= exactG g.
  Proof.
    intros g Hb. unfold exactG. destruct (cdfv g) as [c|] eqn:E.
    - destruct (skipped_ge g c Hb E) as [L U].
      unfold p_of_cdf, pval_of, clipc.
      destruct (2 * Z.min hi (Z.max lo c) <? 2 * H) eqn:E2; [apply Z.ltb_lt in E2 | apply Z.ltb_ge in E2]; lia.
    - change (p_of_cdf H lo hi None) with (p_of_cdf H lo hi (Some H)).
      rewrite p_of_half by lia. exact T_le_1.
  Qed.

  Lemma exactG_range : forall g, 0 <= exactG g <= 2 * H.
  Proof. intros g. apply p_of_cdf_range; lia. Qed.

  Theorem boringG_sound : forall genes p',
    Forall (fun x => 0 <= x <= 2 * H) p' ->
    Forall2 (fun g v' => if brg g then T <= v' else v' = exactG g) genes p' ->
    let p := map exactG genes in
    Forall (fun x => 0 <= x <= 2 * H) p /\
    Forall2 (fun g v => brg g = true -> T <= v) genes p /\
    map (fun v => v <? T) (correct_ttest (2 * H) 0 p) = map (fun v => v <? T) (correct_ttest (2 * H) 0 p') /\
    map (fun v => v <? T) (approx_correct_ttest (2 * H) T p') = map (fun v => v <? T) (correct_ttest (2 * H) 0 p).
  Proof.
    intros genes p' Hr HF p.
    assert (Hp : Forall (fun x => 0 <= x <= 2 * H) p).
    { unfold p. apply Forall_forall. intros x Hx. apply in_map_iff in Hx. destruct Hx as (g & <- & _).
      apply exactG_range. }
    assert (HB : Forall2 (fun g v => brg g = true -> T <= v) genes p).
    { unfold p. clear HF Hp p. induction genes as [|g t IH]; cbn [map]; [constructor|]. constructor; [|exact IH].
      apply boringG_exact_ge. }
    split; [exact Hp|]. split; [exact HB|].
    apply boring_sound_full; [exact Hp | exact Hr | exact T_le_1 |].
    unfold p. apply Forall2_map_l'. clear Hr Hp HB p.
    induction HF as [|g v' genes p' Hg HF IH]; constructor; [|exact IH].
    unfold same_or_above. destruct (brg g) eqn:Eb.
    - right. split; [|exact Hg]. apply boringG_exact_ge. exact Eb.
    - left. symmetry. exact Hg.
  Qed.

  Corollary boringG_sound_code : forall genes,
    let p := map exactG genes in
    let p' := map skipG genes in
    (forall g, brg g = true -> skipG g = 2 * H) /\
    map (fun v => v <? T) (correct_ttest (2 * H) 0 p) = map (fun v => v <? T) (correct_ttest (2 * H) 0 p') /\
    map (fun v => v <? T) (approx_correct_ttest (2 * H) T p') = map (fun v => v <? T) (correct_ttest (2 * H) 0 p).
  Proof.
    intros genes p p'.
    assert (Hs : forall g, brg g = true -> skipG g = 2 * H).
    { intros g Hb. unfold skipG. rewrite Hb. apply p_of_half; lia. }
    split; [exact Hs|].
    destruct (boringG_sound genes p') as (_ & _ & R1 & R2); [| |split; [exact R1 | exact R2]].
    - unfold p'. apply Forall_forall. intros x Hx. apply in_map_iff in Hx. destruct Hx as (g & <- & _).
      unfold skipG. destruct (brg g); [apply p_of_cdf_range; lia | apply exactG_range].
    - unfold p'. clear p p'. induction genes as [|g t IH]; cbn [map]; [constructor|]. constructor; [|exact IH].
      destruct (brg g) eqn:Eb; [rewrite (Hs g Eb); exact T_le_1 | unfold skipG; rewrite Eb; reflexivity].
  Qed.
End BoringG.

(* ------------------------------------------------------------------ *)
(* the premise about the skipped genes follows from the two END POINTS +-boring_t at the gene's nu and
   monotonicity between them - for ANY type of gene with a preorder `le` on the genes of one nu inside
   [-boring_t, boring_t] (elo g, ehi g: the end points at the nu of g).  Used twice: for genes (nu, t) with
   integer t below (Section Boring), and for the statistics Model/Welch.v derives from the summary
   statistics (Proofs/WelchP.v: tnu, t = sign * sqrt of a rational) - which is how c11_boring_exact_p_ge and
   c11_sound_exact_welch are composed (c11_sound_exact_welch_composed). *)
Section BoringOrd.
  Variable G : Type.
  Variables H T : Z.
  Variable cdfv : G -> option Z.
  Variable brg : G -> bool.
  Variable le : G -> G -> Prop.
  Variables elo ehi : G -> G.
  Hypothesis between : forall g, brg g = true -> le (elo g) g /\ le g (ehi g).
  Hypothesis end_lo : forall g c, cdfv (elo g) = Some c -> T <= 2 * c.
  Hypothesis end_hi : forall g c, cdfv (ehi g) = Some c -> T <= 2 * (2 * H - c).
  Hypothesis mono : forall a a' c c', le a a' -> cdfv a = Some c -> cdfv a' = Some c' -> c <= c'.
  Hypothesis nan : forall a a', le a a' \/ le a' a -> cdfv a = None -> cdfv a' = None.

  Lemma skipped_ge_ord : forall g c, brg g = true -> cdfv g = Some c -> T <= 2 * c /\ T <= 2 * (2 * H - c).
  Proof.
    intros g c Hb E. destruct (between g Hb) as [B1 B2].
    destruct (cdfv (elo g)) as [cl|] eqn:El.
    2:{ rewrite (nan (elo g) g (or_introl B1) El) in E. discriminate E. }
    destruct (cdfv (ehi g)) as [ch|] eqn:Eh.
    2:{ rewrite (nan (ehi g) g (or_intror B2) Eh) in E. discriminate E. }
    pose proof (mono _ _ _ _ B1 El E) as M1.
    pose proof (mono _ _ _ _ B2 E Eh) as M2.
    pose proof (end_lo g cl El). pose proof (end_hi g ch Eh). lia.
  Qed.
End BoringOrd.

(* genes (nu, t), t an integer over a common denominator *)
Section Boring.
  Variables H lo hi T b : Z.
  Variable t_cdf : Z -> Z -> option Z.        (* scipy.stats.t.cdf(t, df=nu); None = NaN *)

  (* the setting *)
  Hypothesis H_pos : 0 < H.
  Hypothesis clip_lo : 0 <= lo <= H.          (* eps = smallest normal <= 0.5 *)
  Hypothesis clip_hi : H <= hi <= 2 * H.      (* 0.5 <= ceil = 1 - epsneg <= 1 *)
  Hypothesis T_le_1 : T <= 2 * H.             (* p_th <= 1 *)
  Hypothesis b_nonneg : 0 <= b.

  (* ABOUT THE REAL boring_t AND scipy's CDF AT IT (not proved; checked numerically by the harness
     for every nu that occurs): the two-sided p-values at the two end points are >= p_th *)
  Hypothesis end_lo : forall nu c, t_cdf nu (- b) = Some c -> T <= 2 * c.
  Hypothesis end_hi : forall nu c, t_cdf nu b = Some c -> T <= 2 * (2 * H - c).
  (* ASSUMPTIONS ABOUT SCIPY (not proved), on the range used only *)
  Hypothesis t_mono : forall nu a a' c c', - b <= a -> a <= a' -> a' <= b ->
    t_cdf nu a = Some c -> t_cdf nu a' = Some c' -> c <= c'.
  Hypothesis t_nan : forall nu a a', - b <= a <= b -> - b <= a' <= b -> t_cdf nu a = None -> t_cdf nu a' = None.

  Lemma boring_bounds : forall g, boring b g = true -> - b <= snd g <= b.
  Proof.
    intros g Hb. unfold boring in Hb. apply negb_true_iff in Hb. apply orb_false_iff in Hb.
    destruct Hb as [H1 H2]. apply Z.ltb_ge in H1, H2. lia.
  Qed.

  Lemma skipped_ge_nu_t : forall (g : gene) c, boring b g = true -> t_cdf (fst g) (snd g) = Some c ->
    T <= 2 * c /\ T <= 2 * (2 * H - c).
  Proof using b_nonneg end_lo end_hi t_mono t_nan.
    apply (skipped_ge_ord gene H T (fun g => t_cdf (fst g) (snd g)) (boring b)
             (fun a a' : gene => fst a = fst a' /\ - b <= snd a /\ snd a <= snd a' /\ snd a' <= b)
             (fun g => (fst g, - b)) (fun g => (fst g, b))).
    - intros g Hb. pose proof (boring_bounds g Hb). cbn [fst snd]. repeat split; lia.
    - intros g c. cbn [fst snd]. apply end_lo.
    - intros g c. cbn [fst snd]. apply end_hi.
    - intros [nu a] [nu' a'] c c' (En & L1 & L2 & L3). cbn [fst snd] in *. subst nu'. apply t_mono; assumption.
    - intros [nu a] [nu' a'] [(En & L1 & L2 & L3)|(En & L1 & L2 & L3)]; cbn [fst snd] in *; subst nu'; apply t_nan; lia.
  Qed.

  (* |t| <= boring_t  =>  the exact two-sided p-value is >= p_th *)
  Lemma boring_exact_ge : forall nu t, - b <= t <= b -> T <= exact_p t_cdf H lo hi (nu, t).
  Proof.
    intros nu t Ht.
    apply (boringG_exact_ge gene H lo hi T (fun g => t_cdf (fst g) (snd g)) (boring b)
             H_pos clip_lo clip_hi T_le_1 skipped_ge_nu_t (nu, t)).
    unfold boring. cbn [snd]. apply negb_true_iff. apply orb_false_iff. split; apply Z.ltb_ge; lia.
  Qed.

  Lemma exact_p_range : forall g, 0 <= exact_p t_cdf H lo hi g <= 2 * H.
  Proof. intros g. apply p_of_cdf_range; lia. Qed.

  Theorem boring_t_sound : forall genes p',
    Forall (fun x => 0 <= x <= 2 * H) p' ->
    Forall2 (fun g v' => if boring b g then T <= v' else v' = exact_p t_cdf H lo hi g) genes p' ->
    let p := map (exact_p t_cdf H lo hi) genes in
    Forall (fun x => 0 <= x <= 2 * H) p /\
    Forall2 (fun g v => boring b g = true -> T <= v) genes p /\
    map (fun v => v <? T) (correct_ttest (2 * H) 0 p) = map (fun v => v <? T) (correct_ttest (2 * H) 0 p') /\
    map (fun v => v <? T) (approx_correct_ttest (2 * H) T p') = map (fun v => v <? T) (correct_ttest (2 * H) 0 p).
  Proof.
    exact (boringG_sound gene H lo hi T (fun g => t_cdf (fst g) (snd g)) (boring b)
             H_pos clip_lo clip_hi T_le_1 skipped_ge_nu_t).
  Qed.

  Corollary boring_t_sound_code : forall genes,
    let p := map (exact_p t_cdf H lo hi) genes in
    let p' := map (skip_p t_cdf H lo hi b) genes in
    (forall g, boring b g = true -> skip_p t_cdf H lo hi b g = 2 * H) /\
    map (fun v => v <? T) (correct_ttest (2 * H) 0 p) = map (fun v => v <? T) (correct_ttest (2 * H) 0 p') /\
    map (fun v => v <? T) (approx_correct_ttest (2 * H) T p') = map (fun v => v <? T) (correct_ttest (2 * H) 0 p).
  Proof.
    exact (boringG_sound_code gene H lo hi T (fun g => t_cdf (fst g) (snd g)) (boring b)
             H_pos clip_lo clip_hi T_le_1 skipped_ge_nu_t).
  Qed.
End Boring.

(* a toy instance on which every hypothesis holds (S = 64, so 0.5 = 32/64):
   t_cdf(t, nu) = clamp(32 + 8t, 1, 63)/64 (saturating, like a binary64 CDF), NaN for nu <= 0; boring_t = 1, p_th = 20/64 *)
Definition toy_t_cdf (nu t : Z) : option Z := if nu <=? 0 then None else Some (Z.max 1 (Z.min 63 (32 + 8 * t))).

Lemma toy_hyps :
  (forall nu c, toy_t_cdf nu (- 1) = Some c -> 20 <= 2 * c) /\
  (forall nu c, toy_t_cdf nu 1 = Some c -> 20 <= 2 * (2 * 32 - c)) /\
  (forall nu a a' c c', - 1 <= a -> a <= a' -> a' <= 1 ->
      toy_t_cdf nu a = Some c -> toy_t_cdf nu a' = Some c' -> c <= c') /\
  (forall nu a a', - 1 <= a <= 1 -> - 1 <= a' <= 1 -> toy_t_cdf nu a = None -> toy_t_cdf nu a' = None).
Proof.
  unfold toy_t_cdf. split; [|split; [|split]].
  - intros nu c. destruct (nu <=? 0); [discriminate|]. intros E. inversion E. vm_compute. discriminate.
  - intros nu c. destruct (nu <=? 0); [discriminate|]. intros E. inversion E. vm_compute. discriminate.
  - intros nu a a' c c' _ Ha _. destruct (nu <=? 0); [discriminate|]. intros E E'.
    assert (Ec : Z.max 1 (Z.min 63 (32 + 8 * a)) = c) by congruence.
    assert (Ec' : Z.max 1 (Z.min 63 (32 + 8 * a')) = c') by congruence. lia.
  - intros nu a a' _ _. destruct (nu <=? 0); [reflexivity | discriminate].
Qed.

(* WITHOUT end_lo the conclusion is false.  A CDF that is monotone everywhere, with
   2*cdf(-boring_t) = 18/64 < p_th = 20/64 (boring_t a little too large, as the real one is
   against the normal limit): one gene at t = -boring_t has exact p = 18/64 < p_th and is the
   only gene (Holm multiplier 1): the exact route records it, the skipping route does not. *)
Definition low_t_cdf (nu t : Z) : option Z := Some (Z.max 1 (Z.min 63 (32 + 23 * t))).
Lemma boring_unsound_without_end_lo :
  exists (H lo hi T b : Z) (t_cdf : Z -> Z -> option Z) (genes : list gene),
    0 < H /\ 0 <= lo <= H /\ H <= hi <= 2 * H /\ T <= 2 * H /\ 0 <= b /\
    (forall nu a a' c c', a <= a' -> t_cdf nu a = Some c -> t_cdf nu a' = Some c' -> c <= c') /\
    (forall nu a a', t_cdf nu a = None -> t_cdf nu a' = None) /\
    ~ (forall nu c, t_cdf nu (- b) = Some c -> T <= 2 * c) /\
    map (fun v => v <? T) (correct_ttest (2 * H) 0 (map (exact_p t_cdf H lo hi) genes)) = [true] /\
    map (fun v => v <? T) (approx_correct_ttest (2 * H) T (map (skip_p t_cdf H lo hi b) genes)) = [false].
Proof.
  exists 32, 1, 63, 20, 1, low_t_cdf, [(5, -1)].
  split; [lia|]. split; [lia|]. split; [lia|]. split; [lia|]. split; [lia|].
  split.
  { unfold low_t_cdf. intros nu a a' c c' Ha E E'.
    assert (Ec : Z.max 1 (Z.min 63 (32 + 23 * a)) = c) by congruence.
    assert (Ec' : Z.max 1 (Z.min 63 (32 + 23 * a')) = c') by congruence. lia. }
  split; [unfold low_t_cdf; discriminate|].
  split.
  { intro Hc. specialize (Hc 5 9 eq_refl). lia. }
  split; vm_compute; reflexivity.
Qed.
