(* Skipping uninteresting t-values (utils/stats_utils.py:approximate_welch_t_test, boring_t):
   the CDF half of c11_boring_t_sound, and its composition with the Holm half (HolmP.v).

   Numbers: a CDF value is the exact rational c/(2H) (H > 0: the value 0.5), a p-value P/(2H), the
   threshold p_th = T/(2H) - the same common denominator S = 2H as in Model/Holm.v; a t statistic
   is an integer over some common denominator (only order and negation matter); the degrees of
   freedom nu are an opaque index.  scipy's CDFs are NOT modelled: they are Section variables and
   what is assumed about them is written as Section hypotheses (assumptions about scipy, listed in
   the theorem comment of Props/C11.v).  What the code itself does with a CDF value IS modelled:
     cdf = np.where(np.isfinite(cdf), cdf, 0.5)          (None = NaN)
     cdf = np.clip(cdf, eps, ceil)
     pval = np.where(cdf < 0.5, 2.0*cdf, 2.0*(1.0-cdf)) *)
From Coq Require Import ZArith List Bool Lia.
From CTM Require Import Base.Sx Base.ListX Model.Holm Proofs.HolmP.
Import ListNotations.
Open Scope Z_scope.

Definition clipc (lo hi c : Z) : Z := Z.min hi (Z.max lo c).
Definition pval_of (S c : Z) : Z := if 2 * c <? S then 2 * c else 2 * (S - c).
Definition p_of_cdf (H lo hi : Z) (c : option Z) : Z :=
  pval_of (2 * H) (clipc lo hi (match c with Some v => v | None => H end)).

Definition gene := (Z * Z)%type.                       (* (nu, t) *)
(* exact_welch_t_test: the p-value of one gene *)
Definition exact_p (t_cdf : Z -> Z -> option Z) (H lo hi : Z) (g : gene) : Z :=
  p_of_cdf H lo hi (t_cdf (fst g) (snd g)).
(* interesting = np.logical_or(tt < -boring_t, tt > boring_t) *)
Definition boring (b : Z) (g : gene) : bool := negb ((snd g <? - b) || (b <? snd g)).
(* approximate_welch_t_test (big_nu = None): cdf = 0.5 unless interesting *)
Definition skip_p (t_cdf : Z -> Z -> option Z) (H lo hi b : Z) (g : gene) : Z :=
  if boring b g then p_of_cdf H lo hi (Some H) else exact_p t_cdf H lo hi g.

Lemma p_of_cdf_range H lo hi c : 0 < H -> 0 <= lo -> hi <= 2 * H -> lo <= hi ->
  0 <= p_of_cdf H lo hi c <= 2 * H.
Proof.
  intros HH Hlo Hhi Hlh. unfold p_of_cdf, pval_of, clipc.
  destruct (2 * Z.min hi (Z.max lo match c with Some v => v | None => H end) <? 2 * H) eqn:E;
    [apply Z.ltb_lt in E | apply Z.ltb_ge in E]; lia.
Qed.

Lemma p_of_half H lo hi : 0 < H -> lo <= H <= hi -> p_of_cdf H lo hi (Some H) = 2 * H.
Proof.
  intros HH Hc. unfold p_of_cdf, pval_of, clipc.
  replace (Z.min hi (Z.max lo H)) with H by lia.
  rewrite Z.ltb_irrefl. lia.
Qed.

Lemma Forall2_map_l' {A B C} (R : B -> C -> Prop) (f : A -> B) : forall l l',
  Forall2 (fun a c => R (f a) c) l l' -> Forall2 R (map f l) l'.
Proof. intros l l' H. induction H; cbn; constructor; assumption. Qed.

Section Boring.
  Variables H lo hi T b : Z.
  Variable t_cdf : Z -> Z -> option Z.        (* scipy.stats.t.cdf(t, df=nu); None = NaN *)
  Variable norm_cdf : Z -> Z.                 (* scipy.stats.norm.cdf *)

  (* the setting *)
  Hypothesis H_pos : 0 < H.
  Hypothesis clip_lo : 0 <= lo <= H.          (* eps = smallest normal <= 0.5 *)
  Hypothesis clip_hi : H <= hi <= 2 * H.      (* 0.5 <= ceil = 1 - epsneg <= 1 *)
  Hypothesis T_le_1 : T <= 2 * H.             (* p_th <= 1 *)
  Hypothesis b_nonneg : 0 <= b.
  (* how boring_t_from_p_value chooses boring_t: 2 * norm_cdf(-boring_t) >= p_th *)
  Hypothesis b_choice : T <= 2 * norm_cdf (- b).

  (* ASSUMPTIONS ABOUT SCIPY (not proved) *)
  Hypothesis t_mono : forall nu a a' c c', a <= a' ->
    t_cdf nu a = Some c -> t_cdf nu a' = Some c' -> c <= c'.
  Hypothesis t_sym : forall nu a c, t_cdf nu a = Some c -> t_cdf nu (- a) = Some (2 * H - c).
  Hypothesis t_nan : forall nu a a', t_cdf nu a = None -> t_cdf nu a' = None.
  Hypothesis t_tail : forall nu x c, 0 <= x -> t_cdf nu (- x) = Some c -> norm_cdf (- x) <= c.

  (* |t| <= boring_t  =>  the exact two-sided p-value is >= p_th *)
  Lemma boring_exact_ge : forall nu t, - b <= t <= b -> T <= exact_p t_cdf H lo hi (nu, t).
  Proof.
    intros nu t Ht. unfold exact_p. cbn [fst snd].
    destruct (t_cdf nu t) as [c|] eqn:E.
    - destruct (t_cdf nu (- b)) as [cb|] eqn:Eb.
      2:{ rewrite (t_nan nu (- b) t Eb) in E. discriminate E. }
      pose proof (t_mono nu (- b) t cb c ltac:(lia) Eb E) as M1.
      pose proof (t_sym nu (- b) cb Eb) as Es. rewrite Z.opp_involutive in Es.
      pose proof (t_mono nu t b c (2 * H - cb) ltac:(lia) E Es) as M2.
      pose proof (t_tail nu b cb b_nonneg Eb) as Tl.
      unfold p_of_cdf, pval_of, clipc.
      destruct (2 * Z.min hi (Z.max lo c) <? 2 * H) eqn:E2; [apply Z.ltb_lt in E2 | apply Z.ltb_ge in E2]; lia.
    - change (p_of_cdf H lo hi None) with (p_of_cdf H lo hi (Some H)).
      rewrite p_of_half by lia. exact T_le_1.
  Qed.

  Lemma exact_p_range : forall g, 0 <= exact_p t_cdf H lo hi g <= 2 * H.
  Proof. intros g. apply p_of_cdf_range; lia. Qed.

  Lemma boring_bounds : forall g, boring b g = true -> - b <= snd g <= b.
  Proof.
    intros g Hb. unfold boring in Hb. apply negb_true_iff in Hb. apply orb_false_iff in Hb.
    destruct Hb as [H1 H2]. apply Z.ltb_ge in H1, H2. lia.
  Qed.

  (* c11_boring_t_sound: replace the p-value of every gene with |t| <= boring_t by ANY value
     >= p_th (and keep the exact p-value of the others): no decision of the full Holm correction
     changes, and the restricted correction on the replaced values decides like the full
     correction on the exact ones *)
  Theorem boring_t_sound : forall genes p',
    Forall (fun x => 0 <= x <= 2 * H) p' ->
    Forall2 (fun g v' => if boring b g then T <= v' else v' = exact_p t_cdf H lo hi g) genes p' ->
    let p := map (exact_p t_cdf H lo hi) genes in
    Forall (fun x => 0 <= x <= 2 * H) p /\
    Forall2 (fun g v => boring b g = true -> T <= v) genes p /\
    map (fun v => v <? T) (correct_ttest (2 * H) 0 p) = map (fun v => v <? T) (correct_ttest (2 * H) 0 p') /\
    map (fun v => v <? T) (approx_correct_ttest (2 * H) T p') = map (fun v => v <? T) (correct_ttest (2 * H) 0 p).
  Proof.
    intros genes p' Hr HF p.
    assert (Hp : Forall (fun x => 0 <= x <= 2 * H) p).
    { unfold p. apply Forall_forall. intros x Hx. apply in_map_iff in Hx. destruct Hx as (g & <- & _).
      apply exact_p_range. }
    assert (HB : Forall2 (fun g v => boring b g = true -> T <= v) genes p).
    { unfold p. clear HF Hp p. induction genes as [|g t IH]; cbn [map]; [constructor|]. constructor; [|exact IH].
      intros Hb. destruct g as [nu tt]. apply boring_exact_ge. apply (boring_bounds (nu, tt) Hb). }
    split; [exact Hp|]. split; [exact HB|].
    apply boring_sound_full; [exact Hp | exact Hr | exact T_le_1 |].
    unfold p. apply Forall2_map_l'. clear Hr Hp HB p.
    induction HF as [|g v' genes p' Hg HF IH]; constructor; [|exact IH].
    unfold same_or_above. destruct (boring b g) eqn:Eb.
    - right. split; [|exact Hg]. destruct g as [nu tt]. apply boring_exact_ge. apply (boring_bounds (nu, tt) Eb).
    - left. symmetry. exact Hg.
  Qed.

  (* ... in particular for the values the code uses: cdf = 0.5, i.e. p = 1, for the skipped genes *)
  Corollary boring_t_sound_code : forall genes,
    let p := map (exact_p t_cdf H lo hi) genes in
    let p' := map (skip_p t_cdf H lo hi b) genes in
    (forall g, boring b g = true -> skip_p t_cdf H lo hi b g = 2 * H) /\
    map (fun v => v <? T) (correct_ttest (2 * H) 0 p) = map (fun v => v <? T) (correct_ttest (2 * H) 0 p') /\
    map (fun v => v <? T) (approx_correct_ttest (2 * H) T p') = map (fun v => v <? T) (correct_ttest (2 * H) 0 p).
  Proof.
    intros genes p p'.
    assert (Hs : forall g, boring b g = true -> skip_p t_cdf H lo hi b g = 2 * H).
    { intros g Hb. unfold skip_p. rewrite Hb. apply p_of_half; lia. }
    split; [exact Hs|].
    destruct (boring_t_sound genes p') as (_ & _ & R1 & R2); [| |split; [exact R1 | exact R2]].
    - unfold p'. apply Forall_forall. intros x Hx. apply in_map_iff in Hx. destruct Hx as (g & <- & _).
      unfold skip_p. destruct (boring b g); [apply p_of_cdf_range; lia | apply exact_p_range].
    - unfold p'. clear p p'. induction genes as [|g t IH]; cbn [map]; [constructor|]. constructor; [|exact IH].
      destruct (boring b g) eqn:Eb; [rewrite (Hs g Eb); exact T_le_1 | unfold skip_p; rewrite Eb; reflexivity].
  Qed.
End Boring.

(* a toy instance on which every hypothesis holds (S = 64, so 0.5 = 32/64):
   t_cdf(t, nu) = clamp(32 + 8t, 1, 63)/64, NaN for nu <= 0;  norm_cdf(t) = clamp(32 + 16t, 0, 64)/64 *)
Definition toy_t_cdf (nu t : Z) : option Z := if nu <=? 0 then None else Some (Z.max 1 (Z.min 63 (32 + 8 * t))).
Definition toy_norm_cdf (t : Z) : Z := Z.max 0 (Z.min 64 (32 + 16 * t)).

Lemma toy_hyps :
  (forall nu a a' c c', a <= a' -> toy_t_cdf nu a = Some c -> toy_t_cdf nu a' = Some c' -> c <= c') /\
  (forall nu a c, toy_t_cdf nu a = Some c -> toy_t_cdf nu (- a) = Some (2 * 32 - c)) /\
  (forall nu a a', toy_t_cdf nu a = None -> toy_t_cdf nu a' = None) /\
  (forall nu x c, 0 <= x -> toy_t_cdf nu (- x) = Some c -> toy_norm_cdf (- x) <= c) /\
  20 <= 2 * toy_norm_cdf (- 1).
Proof.
  unfold toy_t_cdf, toy_norm_cdf. split; [|split; [|split; [|split]]].
  - intros nu a a' c c' Ha. destruct (nu <=? 0); [discriminate|]. intros E E'.
    assert (Ec : Z.max 1 (Z.min 63 (32 + 8 * a)) = c) by congruence.
    assert (Ec' : Z.max 1 (Z.min 63 (32 + 8 * a')) = c') by congruence. lia.
  - intros nu a c. destruct (nu <=? 0); [discriminate|]. intros E.
    assert (Ec : Z.max 1 (Z.min 63 (32 + 8 * a)) = c) by congruence. f_equal. lia.
  - intros nu a a'. destruct (nu <=? 0); [reflexivity | discriminate].
  - intros nu x c Hx. destruct (nu <=? 0); [discriminate|]. intros E.
    assert (Ec : Z.max 1 (Z.min 63 (32 + 8 * - x)) = c) by congruence. lia.
  - vm_compute. discriminate.
Qed.
