(* Lemmas about Model/Sparse.v: slices, chunking, the "list of rows" view of a
   well-formed compressed matrix, row loading. *)
From Coq Require Import List Arith ZArith Lia Bool Permutation.
From CTM Require Import Base.Sx Base.ListX Model.Sparse.
Import ListNotations.

(* ================================================================ slices *)
Lemma slice_nil {A} a b : @slice A [] a b = [].
Proof. unfold slice. rewrite skipn_nil, firstn_nil. reflexivity. Qed.

Lemma slice_0 {A} (l : list A) b : slice l 0 b = firstn b l.
Proof. unfold slice. rewrite Nat.sub_0_r. reflexivity. Qed.

Lemma slice_full {A} (l : list A) : slice l 0 (length l) = l.
Proof. rewrite slice_0. apply firstn_all. Qed.

Lemma slice_empty {A} (l : list A) a b : b <= a -> slice l a b = [].
Proof. intros H. unfold slice. replace (b - a) with 0 by lia. reflexivity. Qed.

Lemma slice_length {A} (l : list A) a b : b <= length l -> length (slice l a b) = b - a.
Proof.
  intros H. unfold slice. rewrite firstn_length, skipn_length. lia.
Qed.

Lemma slice_app_adj {A} (l : list A) a b c :
  a <= b -> b <= c -> slice l a b ++ slice l b c = slice l a c.
Proof.
  intros H1 H2. unfold slice.
  replace (c - a) with ((b - a) + (c - b)) by lia.
  rewrite firstn_add. f_equal. rewrite skipn_skipn.
  replace (a + (b - a)) with b by lia. reflexivity.
Qed.

Lemma slice_cons {A} (x : A) l a b : slice (x :: l) (S a) (S b) = slice l a b.
Proof. unfold slice. reflexivity. Qed.

Lemma slice_app_r {A} (l1 l2 : list A) a b :
  slice (l1 ++ l2) (length l1 + a) (length l1 + b) = slice l2 a b.
Proof.
  unfold slice. rewrite skipn_app.
  replace (length l1 + a - length l1) with a by lia.
  rewrite (skipn_all2 l1) by lia. cbn.
  replace (length l1 + b - (length l1 + a)) with (b - a) by lia. reflexivity.
Qed.

Lemma slice_app_l {A} (l1 l2 : list A) a b :
  b <= length l1 -> slice (l1 ++ l2) a b = slice l1 a b.
Proof.
  intros H. unfold slice. rewrite skipn_app, firstn_app.
  rewrite skipn_length.
  replace (b - a - (length l1 - a)) with 0 by lia. cbn. apply app_nil_r.
Qed.

Lemma slice_mid {A} (l1 l2 l3 : list A) :
  slice (l1 ++ l2 ++ l3) (length l1) (length l1 + length l2) = l2.
Proof.
  replace (length l1) with (length l1 + 0) at 1 by lia.
  rewrite slice_app_r. rewrite slice_app_l by lia. apply slice_full.
Qed.

Lemma nth_firstn_lt {A} (l : list A) n i d : i < n -> nth i (firstn n l) d = nth i l d.
Proof.
  revert l i. induction n as [|n IH]; intros l i H; [lia|].
  destruct l as [|x t]; [destruct i; reflexivity|]. destruct i as [|i]; cbn; [reflexivity|].
  apply IH. lia.
Qed.

Lemma nth_skipn_add {A} (l : list A) n i d : nth i (skipn n l) d = nth (n + i) l d.
Proof.
  revert l. induction n as [|n IH]; intros l; [reflexivity|].
  destruct l as [|x t]; [destruct i; reflexivity|]. cbn. apply IH.
Qed.

Lemma slice_nth {A} (l : list A) a b i d :
  i < b - a -> nth i (slice l a b) d = nth (a + i) l d.
Proof.
  intros H1. unfold slice. rewrite nth_firstn_lt by exact H1. apply nth_skipn_add.
Qed.

Lemma slice_map {A B} (f : A -> B) l a b : slice (map f l) a b = map f (slice l a b).
Proof. unfold slice. rewrite skipn_map, firstn_map. reflexivity. Qed.

Lemma skipn_seq_x n a len : skipn n (seq a len) = seq (a + n) (len - n).
Proof.
  revert a len. induction n as [|n IH]; intros a len; cbn.
  - rewrite Nat.add_0_r, Nat.sub_0_r. reflexivity.
  - destruct len as [|len]; cbn; [reflexivity|]. rewrite IH. f_equal. lia.
Qed.

Lemma firstn_seq_x n a len : firstn n (seq a len) = seq a (Nat.min n len).
Proof.
  revert a len. induction n as [|n IH]; intros a len; cbn; [reflexivity|].
  destruct len as [|len]; cbn; [reflexivity|]. rewrite IH. reflexivity.
Qed.

Lemma slice_seq a b n : b <= n -> slice (seq 0 n) a b = seq a (b - a).
Proof.
  intros H. unfold slice. rewrite skipn_seq_x, firstn_seq_x. cbn [Nat.add]. f_equal. lia.
Qed.

(* ================================================================ upd *)
Lemma upd_length {A} (l : list A) i x : length (upd l i x) = length l.
Proof. revert i. induction l as [|h t IH]; intros [|i]; cbn; auto. Qed.

Lemma nth_upd_eq {A} (l : list A) i x d : i < length l -> nth i (upd l i x) d = x.
Proof.
  revert i. induction l as [|h t IH]; intros [|i] H; cbn in *; try lia; auto.
  apply IH. lia.
Qed.

Lemma nth_upd_neq {A} (l : list A) i j x d : i <> j -> nth j (upd l i x) d = nth j l d.
Proof.
  revert i j. induction l as [|h t IH]; intros [|i] [|j] H; cbn; auto; try lia.
Qed.

(* ================================================================ sums *)
Lemma sum_list_app l1 l2 : sum_list (l1 ++ l2) = sum_list l1 + sum_list l2.
Proof. unfold sum_list. induction l1 as [|x t IH]; cbn; [reflexivity|]. rewrite IH. lia. Qed.

Lemma sum_list_perm l1 l2 : Permutation l1 l2 -> sum_list l1 = sum_list l2.
Proof. unfold sum_list. induction 1; cbn; lia. Qed.

Lemma cumsum_length acc l : length (cumsum_from acc l) = length l.
Proof. revert acc. induction l as [|x t IH]; intros acc; cbn; auto. Qed.

Lemma cumsum_app acc l1 l2 :
  cumsum_from acc (l1 ++ l2) = cumsum_from acc l1 ++ cumsum_from (acc + sum_list l1) l2.
Proof.
  revert acc. induction l1 as [|x t IH]; intros acc; cbn.
  - f_equal. lia.
  - rewrite IH. do 3 f_equal. unfold sum_list. cbn. lia.
Qed.

Lemma cumsum_shift k acc l : map (fun p => p - k) (cumsum_from (k + acc) l) = cumsum_from acc l.
Proof.
  revert acc. induction l as [|x t IH]; intros acc; cbn; [reflexivity|].
  f_equal; [lia|]. replace (k + acc + x) with (k + (acc + x)) by lia. apply IH.
Qed.

Lemma cumsum_add k acc l : map (fun p => p + k) (cumsum_from acc l) = cumsum_from (acc + k) l.
Proof.
  revert acc. induction l as [|x t IH]; intros acc; cbn; [reflexivity|].
  f_equal; [lia|]. replace (acc + k + x) with (acc + x + k) by lia. apply IH.
Qed.

Lemma cumsum_last acc l : last (acc :: cumsum_from acc l) 0 = acc + sum_list l.
Proof.
  revert acc. induction l as [|x t IH]; intros acc; [cbn; lia|].
  cbn [cumsum_from]. change (last (acc :: (acc + x) :: cumsum_from (acc + x) t) 0)
    with (last ((acc + x) :: cumsum_from (acc + x) t) 0).
  rewrite IH. unfold sum_list. cbn. lia.
Qed.

Lemma cumsum_ge acc l : Forall (fun p => acc <= p) (cumsum_from acc l).
Proof.
  revert acc. induction l as [|x t IH]; intros acc; cbn; constructor; [lia|].
  eapply Forall_impl; [|apply IH]. cbn. intros; lia.
Qed.

Lemma cumsum_mono acc l : mono (acc :: cumsum_from acc l).
Proof.
  revert acc. induction l as [|x t IH]; intros acc; [exact Logic.I|].
  cbn [cumsum_from]. split; [lia|]. apply IH.
Qed.

(* ================================================================ chunking *)
Lemma range_chunks_from_cover {A} (l : list A) fuel a n c :
  1 <= c -> n - a <= fuel -> a <= n ->
  concat (map (fun ch => slice l (fst ch) (snd ch)) (range_chunks_from fuel a n c)) = slice l a n.
Proof.
  intros Hc. revert a. induction fuel as [|f IH]; intros a Hf Ha.
  - cbn. rewrite slice_empty by lia. reflexivity.
  - cbn. destruct (n <=? a) eqn:E.
    + apply Nat.leb_le in E. cbn. rewrite slice_empty by lia. reflexivity.
    + apply Nat.leb_gt in E. cbn [map concat fst snd].
      destruct (le_lt_dec n (a + c)) as [H|H].
      * rewrite Nat.min_l by lia.
        destruct f as [|f']; cbn.
        -- apply app_nil_r.
        -- replace (n <=? a + c) with true by (symmetry; apply Nat.leb_le; lia).
           cbn. apply app_nil_r.
      * rewrite Nat.min_r by lia. rewrite IH by lia.
        apply slice_app_adj; lia.
Qed.

Lemma range_chunks_cover {A} (l : list A) c :
  1 <= c -> concat (map (fun ch => slice l (fst ch) (snd ch)) (range_chunks (length l) c)) = l.
Proof.
  intros Hc. unfold range_chunks. rewrite range_chunks_from_cover by lia. apply slice_full.
Qed.

Lemma range_chunks_from_chained fuel a n c :
  1 <= c -> n - a <= fuel -> a <= n ->
  chained a (range_chunks_from fuel a n c) n /\
  Forall (fun ch => snd ch - fst ch <= c) (range_chunks_from fuel a n c).
Proof.
  intros Hc. revert a. induction fuel as [|f IH]; intros a Hf Ha.
  - cbn. split; [lia | constructor].
  - cbn. destruct (n <=? a) eqn:E.
    + apply Nat.leb_le in E. cbn. split; [lia | constructor].
    + apply Nat.leb_gt in E. cbn.
      destruct (IH (Nat.min n (a + c))) as [I1 I2]; [lia | lia |].
      destruct (le_lt_dec n (a + c)) as [H|H].
      * rewrite Nat.min_l in * by lia.
        assert (R : range_chunks_from f (a + c) n c = []).
        { destruct f; cbn; [reflexivity|].
          replace (n <=? a + c) with true by (symmetry; apply Nat.leb_le; lia). reflexivity. }
        rewrite R. cbn. repeat split; try lia. constructor; [cbn; lia | constructor].
      * rewrite Nat.min_r in * by lia.
        repeat split; try lia; [exact I1|]. constructor; [cbn; lia | exact I2].
Qed.

(* the iterators' __next__ loop produces the same ranges as range() and needs at most n steps *)
Lemma iter_chunks_ok fuel r0 n c :
  1 <= c -> n - r0 <= fuel -> iter_chunks fuel r0 n c = Ok (range_chunks_from fuel r0 n c).
Proof.
  intros Hc. revert r0. induction fuel as [|f IH]; intros r0 Hf.
  - cbn. replace (n <=? r0) with true by (symmetry; apply Nat.leb_le; lia). reflexivity.
  - cbn. destruct (n <=? r0) eqn:E; [reflexivity|].
    apply Nat.leb_gt in E.
    destruct (le_lt_dec n (r0 + c)) as [H|H].
    + rewrite Nat.min_l by lia. rewrite IH by lia. cbn.
      assert (R : range_chunks_from f (r0 + c) n c = range_chunks_from f n n c).
      { destruct f; cbn; [reflexivity|].
        replace (n <=? r0 + c) with true by (symmetry; apply Nat.leb_le; lia).
        rewrite Nat.leb_refl. reflexivity. }
      rewrite R. reflexivity.
    + rewrite Nat.min_r by lia. rewrite IH by lia. reflexivity.
Qed.

Lemma row_chunks_ok n c : 1 <= c -> row_chunks n c = Ok (range_chunks n c).
Proof. intros Hc. unfold row_chunks, range_chunks. apply iter_chunks_ok; lia. Qed.

Lemma chunks_cover n c :
  1 <= c ->
  exists chs, row_chunks n c = Ok chs /\ chained 0 chs n /\
    Forall (fun ch => snd ch - fst ch <= c) chs /\
    forall (A : Type) (M : list A), length M = n ->
      concat (map (fun ch => slice M (fst ch) (snd ch)) chs) = M.
Proof.
  intros Hc. exists (range_chunks n c). split; [apply row_chunks_ok; exact Hc|].
  unfold range_chunks.
  destruct (range_chunks_from_chained n 0 n c) as [H1 H2]; try lia.
  split; [exact H1|]. split; [exact H2|].
  intros A M HM. subst n. apply range_chunks_cover. exact Hc.
Qed.

(* chained ranges stay inside [a, n] *)
Lemma chained_bounds a l n : chained a l n -> a <= n /\ Forall (fun ch => a <= fst ch /\ snd ch <= n) l.
Proof.
  revert a. induction l as [|ch t IH]; intros a H; cbn in H.
  - subst. split; [lia | constructor].
  - destruct H as (H1 & H2 & H3). destruct (IH _ H3) as [I1 I2]. split; [lia|].
    constructor; [lia|]. eapply Forall_impl; [|exact I2]. cbn. intros; lia.
Qed.

Lemma chained_concat {A} (M : list A) a l n :
  chained a l n -> concat (map (fun ch => slice M (fst ch) (snd ch)) l) = slice M a n.
Proof.
  revert a. induction l as [|ch t IH]; intros a H; cbn in H.
  - subst. cbn. rewrite slice_empty by lia. reflexivity.
  - destruct H as (H1 & H2 & H3). cbn. rewrite (IH _ H3). subst a.
    destruct (chained_bounds _ _ _ H3) as [B _]. apply slice_app_adj; lia.
Qed.

(* ================================================================ the rows view *)
Notation srow := (list nat * list Z)%type (only parsing).
Definition row_ok (r : srow) : Prop := length (fst r) = length (snd r).
Definition rlen (r : srow) : nat := length (fst r).

Definition of_rows (R : list srow) : comp :=
  {| ptr := 0 :: cumsum_from 0 (map rlen R);
     idx := concat (map fst R);
     dat := concat (map snd R) |}.

Fixpoint segs {A} (l : list A) (ps : list nat) : list (list A) :=
  match ps with
  | [] => []
  | p0 :: t => match t with [] => [] | p1 :: _ => slice l p0 p1 :: segs l t end
  end.

Definition rows_of (m : comp) : list srow := combine (segs (idx m) (ptr m)) (segs (dat m) (ptr m)).

Lemma segs_cons2 {A} (l : list A) p0 p1 t :
  segs l (p0 :: p1 :: t) = slice l p0 p1 :: segs l (p1 :: t).
Proof. reflexivity. Qed.

Lemma segs_length {A} (l : list A) ps : length (segs l ps) = length ps - 1.
Proof.
  induction ps as [|p0 t IH]; [reflexivity|]. destruct t as [|p1 t']; [reflexivity|].
  rewrite segs_cons2. cbn [length]. rewrite IH. cbn. lia.
Qed.

Lemma mono_last_ge p0 t : mono (p0 :: t) -> p0 <= last (p0 :: t) 0.
Proof.
  revert p0. induction t as [|p1 t' IH]; intros p0 H; [cbn; lia|].
  destruct H as [H1 H2]. change (last (p0 :: p1 :: t') 0) with (last (p1 :: t') 0).
  specialize (IH _ H2). lia.
Qed.

Lemma segs_concat {A} (l : list A) p0 t :
  mono (p0 :: t) -> concat (segs l (p0 :: t)) = slice l p0 (last (p0 :: t) 0).
Proof.
  revert p0. induction t as [|p1 t' IH]; intros p0 H.
  - cbn [segs concat]. symmetry. apply slice_empty. cbn. lia.
  - destruct H as [H1 H2]. rewrite segs_cons2. cbn [concat]. rewrite (IH _ H2).
    change (last (p0 :: p1 :: t') 0) with (last (p1 :: t') 0).
    apply slice_app_adj; [lia | apply mono_last_ge; exact H2].
Qed.

Lemma segs_psums {A} (l : list A) p0 t :
  mono (p0 :: t) -> last (p0 :: t) 0 <= length l ->
  p0 :: cumsum_from p0 (map (@length A) (segs l (p0 :: t))) = p0 :: t.
Proof.
  revert p0. induction t as [|p1 t' IH]; intros p0 H HL; [reflexivity|].
  destruct H as [H1 H2]. change (last (p0 :: p1 :: t') 0) with (last (p1 :: t') 0) in HL.
  rewrite segs_cons2. cbn [map cumsum_from]. f_equal.
  pose proof (mono_last_ge _ _ H2) as G.
  rewrite slice_length by lia. replace (p0 + (p1 - p0)) with p1 by lia.
  apply IH; assumption.
Qed.

Lemma map_fst_combine {A B} (l1 : list A) (l2 : list B) :
  length l1 = length l2 -> map fst (combine l1 l2) = l1.
Proof.
  revert l2. induction l1 as [|x t IH]; intros [|y t2] H; cbn in *; try lia; [reflexivity|].
  f_equal. apply IH. lia.
Qed.
Lemma map_snd_combine {A B} (l1 : list A) (l2 : list B) :
  length l1 = length l2 -> map snd (combine l1 l2) = l2.
Proof.
  revert l2. induction l1 as [|x t IH]; intros [|y t2] H; cbn in *; try lia; [reflexivity|].
  f_equal. apply IH. lia.
Qed.

Lemma segs_map_length {A B} (l1 : list A) (l2 : list B) ps :
  length l1 = length l2 -> map (@length A) (segs l1 ps) = map (@length B) (segs l2 ps).
Proof.
  intros HL. induction ps as [|p0 t IH]; [reflexivity|]. destruct t as [|p1 t']; [reflexivity|].
  rewrite !segs_cons2. cbn [map]. f_equal; [|exact IH].
  unfold slice. rewrite !firstn_length, !skipn_length. lia.
Qed.

Lemma map_rlen_combine (l1 : list (list nat)) (l2 : list (list Z)) :
  length l1 = length l2 -> map rlen (combine l1 l2) = map (@length nat) l1.
Proof.
  revert l2. induction l1 as [|x t IH]; intros [|y t2] H; cbn in *; try lia; [reflexivity|].
  f_equal. apply IH. lia.
Qed.

Lemma wf_ptr_shape m nc : wf_comp m nc -> exists t, ptr m = 0 :: t.
Proof.
  intros (H0 & _). destruct (ptr m) as [|p t]; cbn in H0; [discriminate|]. subst. eauto.
Qed.

(* a well-formed CSR matrix is the list of its rows *)
Lemma of_rows_rows_of m nr nc : wf_csr m nr nc -> of_rows (rows_of m) = m.
Proof.
  intros (W & HP & HD). destruct (wf_ptr_shape _ _ W) as [t Et].
  destruct W as (H0 & HL & HM & HF).
  destruct m as [p i d]. cbn in *. subst p.
  unfold of_rows, rows_of. cbn [ptr idx dat].
  assert (L1 : length (segs i (0 :: t)) = length (segs d (0 :: t))) by (rewrite !segs_length; reflexivity).
  f_equal.
  - rewrite map_rlen_combine by exact L1.
    apply segs_psums; [exact HM | lia].
  - rewrite map_fst_combine by exact L1. rewrite segs_concat by exact HM.
    rewrite HL. apply slice_full.
  - rewrite map_snd_combine by exact L1. rewrite segs_concat by exact HM.
    rewrite HL, <- HD. apply slice_full.
Qed.

Lemma rows_of_length m nr nc : wf_csr m nr nc -> length (rows_of m) = nr.
Proof.
  intros (W & HP & HD). unfold rows_of. rewrite combine_length, !segs_length, HP. lia.
Qed.

Lemma rows_of_ok m nr nc : wf_csr m nr nc -> Forall row_ok (rows_of m).
Proof.
  intros (W & HP & HD). unfold rows_of.
  assert (G : forall ps, Forall row_ok (combine (segs (idx m) ps) (segs (dat m) ps))).
  { induction ps as [|p0 t IH]; [constructor|]. destruct t as [|p1 t']; [constructor|].
    rewrite !segs_cons2. cbn [combine]. constructor; [|exact IH].
    unfold row_ok, slice. cbn [fst snd]. rewrite !firstn_length, !skipn_length. lia. }
  apply G.
Qed.

(* ---- pointer arithmetic of of_rows ---- *)
Definition psums (k : nat) (lens : list nat) : list nat := k :: cumsum_from k lens.

Lemma psums_app k l1 l2 :
  psums k (l1 ++ l2) = removelast (psums k l1) ++ psums (k + sum_list l1) l2.
Proof.
  unfold psums. revert k. induction l1 as [|x t IH]; intros k.
  - cbn [app cumsum_from removelast]. unfold sum_list. cbn [fold_right].
    rewrite Nat.add_0_r. reflexivity.
  - cbn [app cumsum_from]. specialize (IH (k + x)).
    change (removelast (k :: (k + x) :: cumsum_from (k + x) t))
      with (k :: removelast ((k + x) :: cumsum_from (k + x) t)).
    cbn [app]. f_equal. rewrite IH.
    replace (k + sum_list (x :: t)) with (k + x + sum_list t) by (unfold sum_list; cbn; lia).
    reflexivity.
Qed.

Lemma removelast_psums_length k l : length (removelast (psums k l)) = length l.
Proof.
  unfold psums. revert k. induction l as [|x t IH]; intros k; [reflexivity|].
  cbn [cumsum_from]. change (removelast (k :: (k + x) :: cumsum_from (k + x) t))
    with (k :: removelast ((k + x) :: cumsum_from (k + x) t)).
  cbn [length]. rewrite IH. reflexivity.
Qed.

Lemma psums_removelast_last k l : removelast (psums k l) ++ [k + sum_list l] = psums k l.
Proof.
  unfold psums. rewrite <- (cumsum_last k l).
  symmetry. apply app_removelast_last. discriminate.
Qed.

Lemma concat_rows_length (R : list srow) : length (concat (map fst R)) = sum_list (map rlen R).
Proof.
  induction R as [|r t IH]; [reflexivity|]. cbn. rewrite app_length, IH. reflexivity.
Qed.

Lemma concat_rows_length_snd (R : list srow) :
  Forall row_ok R -> length (concat (map snd R)) = sum_list (map rlen R).
Proof.
  induction 1 as [|r t Hr _ IH]; [reflexivity|]. cbn [map concat]. rewrite app_length, IH.
  unfold sum_list. cbn [fold_right]. unfold row_ok, rlen in *. lia.
Qed.

Lemma fold_min_ge p l : Forall (fun x => p <= x) l -> fold_right Nat.min p l = p.
Proof. induction 1 as [|x t Hx _ IH]; cbn; [reflexivity|]. rewrite IH. lia. Qed.

(* _load_sparse on the rows view: rows [|R1|, |R1|+|R2|) *)
Lemma load_sparse_rows R1 R2 R3 :
  Forall row_ok R1 -> Forall row_ok R2 ->
  load_sparse (length R1) (length R1 + length R2) (of_rows (R1 ++ R2 ++ R3)) = Ok (of_rows R2).
Proof.
  intros Hok Hok2. unfold load_sparse, of_rows. cbn [ptr idx dat].
  set (s1 := sum_list (map rlen R1)). set (s2 := sum_list (map rlen R2)).
  assert (E : slice (0 :: cumsum_from 0 (map rlen (R1 ++ R2 ++ R3))) (length R1) (S (length R1 + length R2))
              = psums s1 (map rlen R2)).
  { change (0 :: cumsum_from 0 (map rlen (R1 ++ R2 ++ R3))) with (psums 0 (map rlen (R1 ++ R2 ++ R3))).
    rewrite !map_app. rewrite psums_app. cbn [Nat.add]. fold s1.
    rewrite psums_app. fold s2.
    set (A := removelast (psums 0 (map rlen R1))). set (B := removelast (psums s1 (map rlen R2))).
    assert (LA : length A = length R1)
      by (unfold A; rewrite removelast_psums_length, map_length; reflexivity).
    assert (EB : B ++ [s1 + s2] = psums s1 (map rlen R2)) by apply psums_removelast_last.
    replace (psums (s1 + s2) (map rlen R3))
      with ([s1 + s2] ++ cumsum_from (s1 + s2) (map rlen R3)) by reflexivity.
    rewrite (app_assoc B). rewrite EB.
    rewrite <- LA.
    replace (S (length A + length R2)) with (length A + length (psums s1 (map rlen R2))).
    2:{ unfold psums. cbn [length]. rewrite cumsum_length, map_length. lia. }
    apply slice_mid. }
  rewrite E. unfold psums at 1.
  assert (Emin : fold_right Nat.min s1 (psums s1 (map rlen R2)) = s1).
  { apply fold_min_ge. unfold psums. constructor; [lia | apply cumsum_ge]. }
  rewrite Emin.
  assert (Elast : last (psums s1 (map rlen R2)) 0 = s1 + s2) by apply cumsum_last.
  rewrite Elast. f_equal. f_equal.
  - unfold psums. cbn [map]. f_equal; [lia|].
    pose proof (cumsum_shift s1 0 (map rlen R2)) as CS. rewrite Nat.add_0_r in CS. exact CS.
  - rewrite !map_app, !concat_app.
    replace s1 with (length (concat (map fst R1))) by apply concat_rows_length.
    replace s2 with (length (concat (map fst R2))) by apply concat_rows_length.
    apply slice_mid.
  - rewrite !map_app, !concat_app.
    replace s1 with (length (concat (map snd R1))) by (apply concat_rows_length_snd; exact Hok).
    replace s2 with (length (concat (map snd R2))) by (apply concat_rows_length_snd; exact Hok2).
    apply slice_mid.
Qed.

(* ================================================================ dense rows *)
(* value of column x after `row[cols] = vals` on a row whose column x held d (last write wins) *)
Fixpoint row_value (x : nat) (cols : list nat) (vals : list Z) (d : Z) : Z :=
  match cols, vals with
  | c :: ct, v :: vt => row_value x ct vt (if c =? x then v else d)
  | _, _ => d
  end.

Definition dense_row (nc : nat) (r : srow) : list Z :=
  map (fun x => row_value x (fst r) (snd r) 0%Z) (seq 0 nc).

Lemma set_row_spec row cols vals :
  length cols = length vals -> Forall (fun c => c < length row) cols ->
  exists out, set_row row cols vals = Ok out /\ length out = length row /\
              forall x, nth x out 0%Z = row_value x cols vals (nth x row 0%Z).
Proof.
  revert row vals. induction cols as [|c ct IH]; intros row [|v vt] HL HF; cbn in HL; try lia.
  - exists row. cbn. auto.
  - inversion HF as [|? ? Hc Hct]; subst. cbn [set_row].
    replace (c <? length row) with true by (symmetry; apply Nat.ltb_lt; exact Hc).
    destruct (IH (upd row c v) vt) as (out & E & L & N).
    + lia.
    + rewrite upd_length. exact Hct.
    + exists out. split; [exact E|]. split; [rewrite L; apply upd_length|].
      intros x. rewrite N. cbn [row_value]. f_equal.
      destruct (c =? x) eqn:Ecx.
      * apply Nat.eqb_eq in Ecx. subst x. apply nth_upd_eq. exact Hc.
      * apply Nat.eqb_neq in Ecx. apply nth_upd_neq. exact Ecx.
Qed.

Lemma nth_repeat_0 n x : nth x (repeat 0%Z n) 0%Z = 0%Z.
Proof. revert x. induction n as [|n IH]; intros [|x]; cbn; auto. Qed.

Lemma set_row_dense nc r :
  row_ok r -> Forall (fun c => c < nc) (fst r) ->
  set_row (repeat 0%Z nc) (fst r) (snd r) = Ok (dense_row nc r).
Proof.
  intros Hok HF.
  destruct (set_row_spec (repeat 0%Z nc) (fst r) (snd r)) as (out & E & L & N).
  - exact Hok.
  - rewrite repeat_length. exact HF.
  - rewrite E. f_equal. rewrite repeat_length in L.
    apply (nth_ext _ _ 0%Z 0%Z).
    + unfold dense_row. rewrite map_length, seq_length. exact L.
    + intros x Hx. rewrite N, nth_repeat_0. unfold dense_row.
      rewrite L in Hx.
      rewrite (nth_indep _ 0%Z (row_value 0 (fst r) (snd r) 0%Z))
        by (rewrite map_length, seq_length; exact Hx).
      rewrite (map_nth (fun x0 => row_value x0 (fst r) (snd r) 0%Z) (seq 0 nc) 0 x).
      rewrite seq_nth by exact Hx. reflexivity.
Qed.

Definition cols_ok (nc : nat) (r : srow) : Prop := Forall (fun c => c < nc) (fst r).

Lemma dense_rows_cons2 nc p0 p1 t indices data k :
  dense_rows nc (p0 :: p1 :: t) indices data k =
  bind (set_row (repeat 0%Z nc) (slice indices p0 p1)
                (slice data k (k + length (slice indices p0 p1)))) (fun row =>
  bind (dense_rows nc (p1 :: t) indices data (k + length (slice indices p0 p1)))
       (fun rest => Ok (row :: rest))).
Proof. reflexivity. Qed.

Lemma dense_rows_single nc p0 indices data k : dense_rows nc [p0] indices data k = Ok [].
Proof. reflexivity. Qed.

(* the loop of _csr_to_dense on the rows view *)
Lemma dense_rows_of_rows nc R :
  Forall row_ok R -> Forall (cols_ok nc) R ->
  forall pre_i pre_d, length pre_i = length pre_d ->
  dense_rows nc (psums (length pre_i) (map rlen R))
             (pre_i ++ concat (map fst R)) (pre_d ++ concat (map snd R)) (length pre_i)
  = Ok (map (dense_row nc) R).
Proof.
  induction R as [|r t IH]; intros Hok Hc pre_i pre_d HL; [reflexivity|].
  inversion Hok as [|? ? Hr Ht]; subst. inversion Hc as [|? ? Cr Ct]; subst.
  unfold psums. cbn [map cumsum_from concat]. rewrite dense_rows_cons2.
  assert (E1 : slice (pre_i ++ fst r ++ concat (map fst t)) (length pre_i) (length pre_i + rlen r) = fst r)
    by apply slice_mid.
  rewrite E1.
  assert (E2 : slice (pre_d ++ snd r ++ concat (map snd t)) (length pre_i) (length pre_i + length (fst r)) = snd r).
  { rewrite HL. replace (length (fst r)) with (length (snd r)) by (symmetry; exact Hr). apply slice_mid. }
  rewrite E2. rewrite set_row_dense by assumption. cbn [bind].
  specialize (IH Ht Ct (pre_i ++ fst r) (pre_d ++ snd r)).
  rewrite !app_length in IH. unfold psums in IH. rewrite <- !app_assoc in IH.
  unfold rlen at 1 2.
  rewrite IH by (unfold row_ok in Hr; lia). reflexivity.
Qed.

Lemma csr_to_dense_rows nc R :
  Forall row_ok R -> Forall (cols_ok nc) R ->
  csr_to_dense (of_rows R) (length R) nc = Ok (map (dense_row nc) R).
Proof.
  intros Hok Hc. unfold csr_to_dense, of_rows. cbn [ptr idx dat].
  pose proof (dense_rows_of_rows nc R Hok Hc [] [] eq_refl) as H. cbn [length app] in H.
  unfold psums in H. rewrite H. cbn [bind]. rewrite map_length, Nat.ltb_irrefl, Nat.sub_diag.
  cbn. rewrite app_nil_r. reflexivity.
Qed.

Lemma Forall_sub {A} (P : A -> Prop) l l2 :
  (forall x, In x l2 -> In x l) -> Forall P l -> Forall P l2.
Proof.
  intros H HF. apply Forall_forall. intros x Hx. exact (proj1 (Forall_forall _ _) HF x (H x Hx)).
Qed.

Lemma firstn_In {A} (l : list A) n x : In x (firstn n l) -> In x l.
Proof.
  intros H. rewrite <- (firstn_skipn n l). apply in_or_app. left. exact H.
Qed.

Lemma In_skipn {A} (l : list A) n x : In x (skipn n l) -> In x l.
Proof.
  intros H. rewrite <- (firstn_skipn n l). apply in_or_app. right. exact H.
Qed.

Lemma In_slice {A} (l : list A) a b x : In x (slice l a b) -> In x l.
Proof.
  unfold slice. intros H. apply firstn_In in H. exact (In_skipn _ _ _ H).
Qed.

(* load_csr on the rows view *)
Lemma load_csr_rows nc R r0 r1 :
  Forall row_ok R -> Forall (cols_ok nc) R -> r0 <= r1 -> r1 <= length R ->
  load_csr r0 r1 nc (of_rows R) = Ok (map (dense_row nc) (slice R r0 r1)).
Proof.
  intros Hok Hc H01 H1. unfold load_csr.
  assert (ER : R = firstn r0 R ++ slice R r0 r1 ++ skipn r1 R).
  { rewrite <- (firstn_skipn r0 R) at 1. f_equal.
    rewrite <- (firstn_skipn (r1 - r0) (skipn r0 R)) at 1. unfold slice. f_equal.
    rewrite skipn_skipn. f_equal. lia. }
  assert (L0 : length (firstn r0 R) = r0) by (rewrite firstn_length; lia).
  assert (L1 : length (slice R r0 r1) = r1 - r0) by (apply slice_length; exact H1).
  assert (Hok0 : Forall row_ok (firstn r0 R)).
  { eapply Forall_sub; [|exact Hok]. intros x Hx. exact (firstn_In _ _ _ Hx). }
  assert (Hok1 : Forall row_ok (slice R r0 r1)).
  { eapply Forall_sub; [|exact Hok]. intros x Hx. exact (In_slice _ _ _ _ Hx). }
  assert (Hc1 : Forall (cols_ok nc) (slice R r0 r1)).
  { eapply Forall_sub; [|exact Hc]. intros x Hx. exact (In_slice _ _ _ _ Hx). }
  rewrite ER at 1.
  replace r0 with (length (firstn r0 R)) at 1 by exact L0.
  replace r1 with (length (firstn r0 R) + length (slice R r0 r1)) at 1 by lia.
  rewrite load_sparse_rows by assumption. cbn [bind].
  rewrite <- L1. apply csr_to_dense_rows; assumption.
Qed.

(* ================================================================ dense view = rows view *)
Lemma segs_nth {A} (l : list A) ps j :
  S j < length ps -> nth j (segs l ps) [] = slice l (nth j ps 0) (nth (S j) ps 0).
Proof.
  revert j. induction ps as [|p0 t IH]; intros j H; [cbn in H; lia|].
  destruct t as [|p1 t']; [cbn in H; lia|]. rewrite segs_cons2.
  destruct j as [|j]; [reflexivity|]. cbn [nth]. rewrite IH by (cbn in *; lia). reflexivity.
Qed.

Lemma combine_nth_pair {A B} (l1 : list A) (l2 : list B) j d1 d2 :
  length l1 = length l2 -> nth j (combine l1 l2) (d1, d2) = (nth j l1 d1, nth j l2 d2).
Proof. intros H. apply combine_nth. exact H. Qed.

Lemma rows_of_nth m j :
  S j < length (ptr m) ->
  nth j (rows_of m) ([], []) =
  (slice (idx m) (nth j (ptr m) 0) (nth (S j) (ptr m) 0),
   slice (dat m) (nth j (ptr m) 0) (nth (S j) (ptr m) 0)).
Proof.
  intros H. unfold rows_of. rewrite combine_nth by (rewrite !segs_length; reflexivity).
  rewrite !segs_nth by exact H. reflexivity.
Qed.

Lemma slice_S {A} (l : list A) a n d :
  a < length l -> slice l a (a + S n) = nth a l d :: slice l (S a) (S a + n).
Proof.
  intros H. unfold slice. replace (a + S n - a) with (S n) by lia.
  replace (S a + n - S a) with n by lia.
  revert a H. induction l as [|x t IH]; intros a H; [cbn in H; lia|].
  destruct a as [|a]; [reflexivity|]. cbn [skipn nth]. apply IH. cbn in H. lia.
Qed.

Lemma map_nth_seq_slice {A} (l : list A) d a n :
  a + n <= length l -> map (fun k => nth k l d) (seq a n) = slice l a (a + n).
Proof.
  revert a. induction n as [|n IH]; intros a H.
  - cbn. rewrite slice_empty by lia. reflexivity.
  - cbn [seq map]. rewrite (slice_S l a n d) by lia. f_equal. apply IH. lia.
Qed.

(* first-match lookup over positions = first-match lookup over the paired slices *)
Lemma find_span_slices (i : list nat) (d : list Z) x a n :
  a + n <= length i -> length d = length i ->
  match find (fun k => nth k i 0 =? x) (seq a n) with
  | Some k => Some (nth k d 0%Z) | None => None end =
  match find (fun p => fst p =? x) (combine (slice i a (a + n)) (slice d a (a + n))) with
  | Some p => Some (snd p) | None => None end.
Proof.
  revert a. induction n as [|n IH]; intros a H HD.
  - cbn. rewrite (slice_empty i) by lia. reflexivity.
  - cbn [seq find]. rewrite (slice_S i a n 0) by lia. rewrite (slice_S d a n 0%Z) by lia.
    cbn [combine find fst snd]. destruct (nth a i 0 =? x); [reflexivity|]. apply IH; lia.
Qed.

Lemma row_value_notin x cols vals d : ~ In x cols -> row_value x cols vals d = d.
Proof.
  revert vals d. induction cols as [|c ct IH]; intros [|v vt] d H; cbn; try reflexivity.
  rewrite IH by (intros Hx; apply H; right; exact Hx).
  destruct (c =? x) eqn:E; [|reflexivity]. apply Nat.eqb_eq in E. subst. exfalso. apply H. left. reflexivity.
Qed.

Lemma row_value_find x cols vals d :
  NoDup cols -> length cols = length vals ->
  row_value x cols vals d =
  match find (fun p => fst p =? x) (combine cols vals) with Some p => snd p | None => d end.
Proof.
  revert vals d. induction cols as [|c ct IH]; intros [|v vt] d ND HL; cbn in HL; try lia; [reflexivity|].
  inversion ND as [|? ? Hn ND']; subst. cbn [row_value combine find fst snd].
  destruct (c =? x) eqn:E.
  - apply Nat.eqb_eq in E. subst. apply row_value_notin. exact Hn.
  - apply IH; [exact ND' | lia].
Qed.

Lemma mono_nth_le ps j : mono ps -> S j < length ps -> nth j ps 0 <= nth (S j) ps 0.
Proof.
  revert j. induction ps as [|p0 t IH]; intros j HM H; [cbn in H; lia|].
  destruct t as [|p1 t']; [cbn in H; lia|]. destruct HM as [H1 H2].
  destruct j as [|j]; [exact H1|]. apply (IH j H2). cbn in *. lia.
Qed.

Lemma mono_nth_le_last ps j : mono ps -> j < length ps -> nth j ps 0 <= last ps 0.
Proof.
  revert j. induction ps as [|p0 t IH]; intros j HM H; [cbn in H; lia|].
  destruct j as [|j].
  - apply mono_last_ge. exact HM.
  - destruct t as [|p1 t']; [cbn in H; lia|]. destruct HM as [H1 H2].
    change (last (p0 :: p1 :: t') 0) with (last (p1 :: t') 0). apply (IH j H2). cbn in *. lia.
Qed.

Lemma cell_rows m nr nc j x :
  wf_csr m nr nc -> no_dup_minor m -> j < nr ->
  cell m j x = row_value x (fst (nth j (rows_of m) ([], []))) (snd (nth j (rows_of m) ([], []))) 0%Z.
Proof.
  intros W ND Hj. pose proof W as (Wc & HP & HD). destruct Wc as (H0 & HL & HM & HF).
  assert (Hj' : S j < length (ptr m)) by lia.
  rewrite rows_of_nth by exact Hj'. cbn [fst snd].
  pose proof (mono_nth_le _ j HM Hj') as Hle.
  pose proof (mono_nth_le_last _ (S j) HM Hj') as Hlast. rewrite HL in Hlast.
  set (a := nth j (ptr m) 0) in *. set (b := nth (S j) (ptr m) 0) in *.
  unfold cell, lookup, span. fold a b.
  pose proof (find_span_slices (idx m) (dat m) x a (b - a)) as F.
  replace (a + (b - a)) with b in F by lia.
  specialize (F ltac:(lia) HD).
  rewrite row_value_find.
  - destruct (find (fun k => nth k (idx m) 0 =? x) (seq a (b - a))) as [k|];
      destruct (find (fun p => fst p =? x) (combine (slice (idx m) a b) (slice (dat m) a b))) as [p|];
      try discriminate; [inversion F; reflexivity | reflexivity].
  - specialize (ND j Hj'). unfold span in ND. fold a b in ND.
    rewrite map_nth_seq_slice in ND by lia. replace (a + (b - a)) with b in ND by lia. exact ND.
  - rewrite !slice_length by lia. reflexivity.
Qed.

Lemma rows_of_cols_ok m nr nc : wf_csr m nr nc -> Forall (cols_ok nc) (rows_of m).
Proof.
  intros (Wc & HP & HD). destruct Wc as (H0 & HL & HM & HF).
  unfold rows_of.
  assert (G : forall ps, Forall (cols_ok nc) (combine (segs (idx m) ps) (segs (dat m) ps))).
  { induction ps as [|p0 t IH]; [constructor|]. destruct t as [|p1 t']; [constructor|].
    rewrite !segs_cons2. cbn [combine]. constructor; [|exact IH].
    unfold cols_ok. cbn [fst]. apply Forall_forall. intros c Hc.
    exact (proj1 (Forall_forall _ _) HF c (In_slice _ _ _ _ Hc)). }
  apply G.
Qed.

Lemma dense_of_rows m nr nc :
  wf_csr m nr nc -> no_dup_minor m -> dense_of m nr nc = map (dense_row nc) (rows_of m).
Proof.
  intros W ND. pose proof (rows_of_length _ _ _ W) as LR.
  apply (nth_ext _ _ [] []).
  - unfold dense_of. rewrite !map_length, seq_length. symmetry. exact LR.
  - intros j Hj. unfold dense_of in *. rewrite map_length, seq_length in Hj.
    rewrite (nth_indep _ [] (map (cell m 0) (seq 0 nc))) by (rewrite map_length, seq_length; exact Hj).
    rewrite (map_nth (fun j0 => map (cell m j0) (seq 0 nc)) (seq 0 nr) 0 j).
    rewrite seq_nth by exact Hj. cbn [Nat.add].
    rewrite (nth_indep _ [] (dense_row nc ([], []))) by (rewrite map_length; lia).
    rewrite (map_nth (dense_row nc) (rows_of m) ([], []) j).
    unfold dense_row. apply map_ext. intros x. apply (cell_rows m nr nc); assumption.
Qed.

(* ================================================================ C05: row access *)
Theorem load_csr_exact m nr nc r0 r1 :
  wf_csr m nr nc -> no_dup_minor m -> r0 <= r1 -> r1 <= nr ->
  load_csr r0 r1 nc m = Ok (slice (dense_of m nr nc) r0 r1).
Proof.
  intros W ND H01 H1.
  rewrite (dense_of_rows m nr nc W ND). rewrite slice_map.
  rewrite <- (of_rows_rows_of m nr nc W) at 1.
  apply load_csr_rows; try assumption.
  - eapply rows_of_ok; exact W.
  - eapply rows_of_cols_ok; exact W.
  - rewrite (rows_of_length _ _ _ W). exact H1.
Qed.

Lemma res_map_ok {A B} (f : A -> res B) (g : A -> B) l :
  (forall x, In x l -> f x = Ok (g x)) -> res_map f l = Ok (map g l).
Proof.
  induction l as [|x t IH]; intros H; [reflexivity|].
  cbn [res_map map]. rewrite (H x) by (left; reflexivity). cbn [bind].
  rewrite IH by (intros y Hy; apply H; right; exact Hy). reflexivity.
Qed.

Theorem iterate_csr_exact m nr nc c :
  wf_csr m nr nc -> no_dup_minor m -> 1 <= c ->
  exists bl, iterate_csr m nr nc c = Ok bl /\
    chained 0 (map fst bl) nr /\
    Forall (fun b => snd (fst b) - fst (fst b) <= c) bl /\
    Forall (fun b => snd b = slice (dense_of m nr nc) (fst (fst b)) (snd (fst b))) bl /\
    concat (map snd bl) = dense_of m nr nc.
Proof.
  intros W ND Hc. destruct (chunks_cover nr c Hc) as (chs & E & Hch & Hsz & Hcov).
  set (D := dense_of m nr nc).
  exists (map (fun ch => (fst ch, snd ch, slice D (fst ch) (snd ch))) chs).
  unfold iterate_csr. rewrite E. cbn [bind].
  destruct (chained_bounds _ _ _ Hch) as [_ HB].
  split.
  - apply res_map_ok. intros ch Hin.
    pose proof (proj1 (Forall_forall _ _) HB ch Hin) as [_ B2].
    assert (B1 : fst ch <= snd ch).
    { clear - Hch Hin. revert Hch. generalize 0. induction chs as [|h t IH]; intros a Hch; [destruct Hin|].
      destruct Hch as (H1 & H2 & H3). destruct Hin as [<-|Hin]; [lia | eapply IH; eauto]. }
    rewrite (load_csr_exact m nr nc) by assumption. reflexivity.
  - rewrite map_map. cbn [fst].
    assert (Em : map (fun x : nat * nat => (fst x, snd x)) chs = chs).
    { clear. induction chs as [|[a b] t IH]; cbn; [reflexivity | rewrite IH; reflexivity]. }
    rewrite Em. split; [exact Hch|]. split.
    + apply Forall_forall. intros b Hb. apply in_map_iff in Hb. destruct Hb as (ch & <- & Hin).
      cbn. exact (proj1 (Forall_forall _ _) Hsz ch Hin).
    + split.
      * apply Forall_forall. intros b Hb. apply in_map_iff in Hb. destruct Hb as (ch & <- & Hin). reflexivity.
      * rewrite map_map. cbn [snd]. apply Hcov. unfold D, dense_of. rewrite map_length, seq_length. reflexivity.
Qed.

Theorem iterate_dense_exact (d : dense) nr c :
  length d = nr -> 1 <= c ->
  exists bl, iterate_dense d nr c = Ok bl /\
    chained 0 (map fst bl) nr /\
    Forall (fun b => snd (fst b) - fst (fst b) <= c) bl /\
    Forall (fun b => snd b = slice d (fst (fst b)) (snd (fst b))) bl /\
    concat (map snd bl) = d.
Proof.
  intros HL Hc. destruct (chunks_cover nr c Hc) as (chs & E & Hch & Hsz & Hcov).
  exists (map (fun ch => (fst ch, snd ch, slice d (fst ch) (snd ch))) chs).
  unfold iterate_dense. rewrite E. cbn [bind]. split; [reflexivity|].
  rewrite map_map. cbn [fst].
  assert (Em : map (fun x : nat * nat => (fst x, snd x)) chs = chs).
  { clear. induction chs as [|[a b] t IH]; cbn; [reflexivity | rewrite IH; reflexivity]. }
  rewrite Em. split; [exact Hch|]. split.
  - apply Forall_forall. intros b Hb. apply in_map_iff in Hb. destruct Hb as (ch & <- & Hin).
    cbn. exact (proj1 (Forall_forall _ _) Hsz ch Hin).
  - split.
    + apply Forall_forall. intros b Hb. apply in_map_iff in Hb. destruct Hb as (ch & <- & Hin). reflexivity.
    + rewrite map_map. cbn [snd]. apply Hcov. exact HL.
Qed.
