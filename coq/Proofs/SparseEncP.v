(* C05, last sentence: the three encodings of one matrix hand every consumer the same
   rows - the same block list for the same chunk size, the same row stream for any chunk
   sizes, the same answer (or a refusal by all three) to every get_batch - hence the same
   reference statistics (Model/Stats.v, whose input is the row stream). *)
From Coq Require Import List Arith ZArith Lia Bool.
From CTM Require Import Base.Sx Base.ListX Model.Sparse Model.Transpose
  Proofs.SparseP Proofs.SparseBatchP Proofs.TransposeSpecP Proofs.SparseCscP.
From CTM Require Model.Stats.
Import ListNotations.

(* the block list an iterator with chunk size c yields on the n_rows x . matrix d *)
Definition blocks_of (d : dense) (n_rows c : nat) : list (nat * nat * dense) :=
  map (fun ch => (fst ch, snd ch, slice d (fst ch) (snd ch))) (range_chunks n_rows c).

Lemma chained_le a l n ch : chained a l n -> In ch l -> fst ch <= snd ch /\ snd ch <= n.
Proof.
  intros H Hin. destruct (chained_bounds _ _ _ H) as [_ HB].
  pose proof (proj1 (Forall_forall _ _) HB ch Hin) as [_ B2]. split; [|exact B2].
  clear HB B2. revert a H. induction l as [|h t IH]; intros a H; [destruct Hin|].
  destruct H as (H1 & H2 & H3). destruct Hin as [<-|Hin]; [lia | eapply IH; eauto].
Qed.

Lemma blocks_of_stream (d : dense) nr c : length d = nr -> 1 <= c -> concat (map snd (blocks_of d nr c)) = d.
Proof.
  intros <- Hc. unfold blocks_of. rewrite map_map. cbn [snd]. apply range_chunks_cover. exact Hc.
Qed.

Lemma iterate_dense_blocks (d : dense) nr c : 1 <= c -> iterate_dense d nr c = Ok (blocks_of d nr c).
Proof. intros Hc. unfold iterate_dense. rewrite row_chunks_ok by exact Hc. reflexivity. Qed.

Lemma iterate_csr_blocks m nr nc c :
  wf_csr m nr nc -> no_dup_minor m -> 1 <= c ->
  iterate_csr m nr nc c = Ok (blocks_of (dense_of m nr nc) nr c).
Proof.
  intros W ND Hc. unfold iterate_csr. rewrite row_chunks_ok by exact Hc. cbn [bind].
  unfold blocks_of. apply res_map_ok. intros ch Hin.
  assert (CH : chained 0 (range_chunks nr c) nr).
  { unfold range_chunks. apply (range_chunks_from_chained nr 0 nr c); lia. }
  destruct (chained_le _ _ _ ch CH Hin) as [B1 B2].
  rewrite (load_csr_exact m nr nc) by assumption. reflexivity.
Qed.

Lemma iterate_csc_blocks m n_rows n_cols c E L Lc :
  wf_comp m n_rows -> length (ptr m) = S n_cols -> length (dat m) = length (idx m) ->
  no_dup_minor m -> 1 <= c -> 1 <= L -> 1 <= Lc ->
  iterate_csc m n_rows n_cols c E L Lc =
  Ok (blocks_of (map (fun r => map (fun j => cell m j r) (seq 0 n_cols)) (seq 0 n_rows)) n_rows c).
Proof.
  intros W HP HD ND Hc HL HLc. unfold iterate_csc.
  destruct (transpose_full m n_cols true n_rows None E L Lc W HP (fun _ => HD) HL HLc) as (t & EQ & Ht).
  cbn zeta in Ht. destruct Ht as (EO & _ & _ & _ & _ & _ & _ & _ & Hd).
  destruct (Hd eq_refl) as (_ & _ & HDense). cbn [n_out_of Nat.add] in HDense.
  rewrite EQ. cbn [bind].
  destruct (spec_wf_csr m n_rows n_cols W HP HD ND) as [Wo NDo]. cbn zeta in Wo, NDo. rewrite <- EO in Wo, NDo.
  rewrite (iterate_csr_blocks (t_out t) n_rows n_cols c Wo NDo Hc). rewrite HDense. reflexivity.
Qed.

(* d stored as a dense array, as the CSR matrix mr and as the CSC matrix mc *)
Definition three_encodings (d : dense) (mr mc : comp) (nr nc : nat) : Prop :=
  length d = nr /\
  wf_csr mr nr nc /\ no_dup_minor mr /\ dense_of mr nr nc = d /\
  wf_comp mc nr /\ length (ptr mc) = S nc /\ length (dat mc) = length (idx mc) /\
  no_dup_minor mc /\
  map (fun r => map (fun j => cell mc j r) (seq 0 nc)) (seq 0 nr) = d.

Theorem encodings_same_rows (d : dense) mr mc nr nc :
  three_encodings d mr mc nr nc ->
  (* chunked iteration: the same chunk size gives the same list of blocks (r0, r1, rows) *)
  (forall c E L Lc, 1 <= c -> 1 <= L -> 1 <= Lc ->
     iterate_dense d nr c = Ok (blocks_of d nr c) /\
     iterate_csr mr nr nc c = Ok (blocks_of d nr c) /\
     iterate_csc mc nr nc c E L Lc = Ok (blocks_of d nr c)) /\
  (* ... and every chunk size gives the same stream of rows *)
  (forall c, 1 <= c -> concat (map snd (blocks_of d nr c)) = d) /\
  (* get_batch: an accepted list is answered alike ... *)
  (forall rows E L Lc, 1 <= L -> 1 <= Lc ->
     rows <> [] -> NoDup rows -> Forall (fun r => r < nr) rows ->
     let ans := Ok (map (fun r => nth r d []) rows) in
     dense_get_batch rows nr d = ans /\ csr_get_batch rows nc mr = ans /\
     csc_get_batch mc rows nr nc E L Lc = ans) /\
  (* ... and every other list is refused by all three *)
  (forall rows E L Lc, 1 <= L -> 1 <= Lc ->
     rows = [] \/ ~ NoDup rows \/ Exists (fun r => nr <= r) rows ->
     (exists e, dense_get_batch rows nr d = Err e) /\ (exists e, csr_get_batch rows nc mr = Err e) /\
     (exists e, csc_get_batch mc rows nr nc E L Lc = Err e)).
Proof.
  intros (HL & Wr & NDr & Dr & Wc & HP & HD & NDc & Dc).
  split; [|split; [|split]].
  - intros c E L Lc Hc H4 H5. split; [apply iterate_dense_blocks; exact Hc|]. split.
    + rewrite <- Dr. apply iterate_csr_blocks; assumption.
    + rewrite <- Dc. apply iterate_csc_blocks; assumption.
  - intros c Hc. apply blocks_of_stream; assumption.
  - intros rows E L Lc H4 H5 Hne ND HF. cbn zeta.
    split; [apply dense_get_batch_exact; assumption|]. split.
    + rewrite <- Dr. apply (csr_get_batch_exact mr nr nc); assumption.
    + rewrite <- Dc. apply (csc_get_batch_exact mc rows nr nc E L Lc); assumption.
  - intros rows E L Lc H4 H5 Hbad. split; [|split].
    + exists EReject. apply dense_get_batch_rejects. exact Hbad.
    + destruct Wr as (_ & HPr & _). exact (csr_get_batch_rejects mr nr nc rows HPr Hbad).
    + exact (csc_get_batch_rejects mc rows nr nc E L Lc Wc HP HD H4 H5 Hbad).
Qed.

(* whatever the three iterators return - with chunk sizes that may all differ - the row
   streams coincide (with d), so every function of the row stream has the same value *)
Theorem encodings_same_stream (d : dense) mr mc nr nc c1 c2 c3 E L Lc b1 b2 b3 :
  three_encodings d mr mc nr nc ->
  1 <= c1 -> 1 <= c2 -> 1 <= c3 -> 1 <= L -> 1 <= Lc ->
  iterate_dense d nr c1 = Ok b1 -> iterate_csr mr nr nc c2 = Ok b2 ->
  iterate_csc mc nr nc c3 E L Lc = Ok b3 ->
  concat (map snd b1) = d /\ concat (map snd b2) = d /\ concat (map snd b3) = d /\
  forall (X : Type) (F : dense -> X),
    F (concat (map snd b1)) = F (concat (map snd b2)) /\ F (concat (map snd b2)) = F (concat (map snd b3)).
Proof.
  intros T H1 H2 H3 H4 H5 E1 E2 E3.
  destruct (encodings_same_rows d mr mc nr nc T) as (I & S & _ & _).
  destruct (I c1 E L Lc H1 H4 H5) as (D1 & _ & _).
  destruct (I c2 E L Lc H2 H4 H5) as (_ & D2 & _).
  destruct (I c3 E L Lc H3 H4 H5) as (_ & _ & D3).
  rewrite E1 in D1. rewrite E2 in D2. rewrite E3 in D3.
  inversion D1; subst b1. inversion D2; subst b2. inversion D3; subst b3.
  rewrite !S by assumption. repeat split; reflexivity.
Qed.

(* the statistics of a reference file (Model/Stats.v): the summary of the rows read, and
   the whole table written by precompute for the file whose cells are the rows read
   paired with the cell names - beside any other files, for any rows_at_a_time and worker
   count - are the same for the three encodings *)
Theorem stats_same_for_all_encodings (d : dense) mr mc nr nc c1 c2 c3 E L Lc b1 b2 b3 :
  three_encodings d mr mc nr nc ->
  1 <= c1 -> 1 <= c2 -> 1 <= c3 -> 1 <= L -> 1 <= Lc ->
  iterate_dense d nr c1 = Ok b1 -> iterate_csr mr nr nc c2 = Ok b2 ->
  iterate_csc mc nr nc c3 E L Lc = Ok b3 ->
  forall D,
  (forall ng,
     Stats.stats_of_rows D ng (concat (map snd b1)) = Stats.stats_of_rows D ng d /\
     Stats.stats_of_rows D ng (concat (map snd b2)) = Stats.stats_of_rows D ng d /\
     Stats.stats_of_rows D ng (concat (map snd b3)) = Stats.stats_of_rows D ng d) /\
  (forall leaf genes names before after rows_at_a_time n_processors,
     let file := fun (b : list (nat * nat * dense)) =>
                   Stats.mk_h5ad genes (combine names (concat (map snd b))) in
     let run := fun b => Stats.precompute D leaf (before ++ file b :: after) rows_at_a_time n_processors in
     run b1 = run b2 /\ run b2 = run b3).
Proof.
  intros T H1 H2 H3 H4 H5 E1 E2 E3 D.
  destruct (encodings_same_stream d mr mc nr nc c1 c2 c3 E L Lc b1 b2 b3 T H1 H2 H3 H4 H5 E1 E2 E3)
    as (S1 & S2 & S3 & _).
  split.
  - intros ng. rewrite S1, S2, S3. repeat split; reflexivity.
  - intros leaf genes names before after rows p. cbv beta zeta. rewrite S1, S2, S3. split; reflexivity.
Qed.
