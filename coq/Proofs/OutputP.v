(* Lemmas about Model/Output.v: HDF5 round trip, CSV rows, four-decimal rounding,
   re_order_blob, and the taxonomy embedded in the output (Tree.drop_cells). *)
From Coq Require Import ZArith List Bool Lia Permutation.
From CTM Require Import Base.Sx Base.ListX Base.SortX Model.Tree Model.Output.
Import ListNotations.
Open Scope Z_scope.

(* ------------------------------------------------------------------ *)
(* node <-> integer tables                                              *)
(* ------------------------------------------------------------------ *)
Lemma index_of_some x l : zmem x l = true -> exists i, index_of x l = Some i.
Proof.
  induction l as [|y t IH]; cbn; [discriminate|].
  destruct (x =? y) eqn:E; [eexists; reflexivity|].
  cbn. intros H. destruct (IH H) as [i Hi]. rewrite Hi. eexists; reflexivity.
Qed.

Lemma index_of_nth x l i : index_of x l = Some i -> nth_error l i = Some x.
Proof.
  revert i. induction l as [|y t IH]; cbn; intros i H; [discriminate|].
  destruct (x =? y) eqn:E.
  - inversion H; subst. apply Z.eqb_eq in E. subst. reflexivity.
  - destruct (index_of x t) as [j|]; cbn in H; [|discriminate].
    inversion H; subst. cbn. apply IH. reflexivity.
Qed.

Lemma py_nth_of_nat {A} (l : list A) i : py_nth l (Z.of_nat i) = nth_error l i.
Proof.
  unfold py_nth. destruct (Z.of_nat i <? 0) eqn:E; [apply Z.ltb_lt in E; lia|].
  rewrite Nat2Z.id. reflexivity.
Qed.

Lemma index_roundtrip x l :
  zmem x l = true -> exists i, index_of x l = Some i /\ py_nth l (Z.of_nat i) = Some x.
Proof.
  intros H. destruct (index_of_some x l H) as [i Hi]. exists i. split; [exact Hi|].
  rewrite py_nth_of_nat. apply index_of_nth. exact Hi.
Qed.

(* ------------------------------------------------------------------ *)
(* runner-up rows                                                       *)
(* ------------------------------------------------------------------ *)
Lemma read_runners_pad nodes k xp xc :
  read_runners nodes (repeat (-1) k) xp xc = Ok (mkRun [] [] []).
Proof. destruct k; reflexivity. Qed.

Lemma runners_roundtrip nodes e :
  forall room ra rp rc,
    (length ra <= room)%nat -> length rp = length ra -> length rc = length ra ->
    forallb (fun a => zmem a nodes) ra = true ->
    exists xa xp xc,
      write_runners nodes e room ra rp rc = Ok (xa, xp, xc) /\
      read_runners nodes xa xp xc = Ok (mkRun ra rp rc).
Proof.
  intros room ra. revert room.
  induction ra as [|a ra IH]; intros room rp rc Hle Hp Hc Hin.
  - destruct rp; [|discriminate]. destruct rc; [|discriminate].
    cbn. do 3 eexists. split; [reflexivity|]. apply read_runners_pad.
  - destruct rp as [|p rp]; [discriminate|]. destruct rc as [|c rc]; [discriminate|].
    cbn in Hin. apply andb_true_iff in Hin. destruct Hin as [Ha Hin].
    destruct (index_roundtrip a nodes Ha) as (ia & Hia & Hnth).
    destruct room as [|room]; [cbn in Hle; lia|].
    cbn in Hle, Hp, Hc.
    destruct (IH room rp rc ltac:(lia) ltac:(lia) ltac:(lia) Hin) as (xa & xp & xc & Hw & Hr).
    cbn [write_runners]. rewrite Hia, Hw. cbn [bind].
    do 3 eexists. split; [reflexivity|].
    cbn [read_runners].
    assert (Hneg : (Z.of_nat ia <? 0) = false) by (apply Z.ltb_ge; lia).
    rewrite Hneg, Hnth, Hr. reflexivity.
Qed.

Lemma runners_eta r : mkRun (ru_assign r) (ru_prob r) (ru_corr r) = r.
Proof. destruct r; reflexivity. Qed.

Lemma length_zero_nil {A} (l : list A) : length l = 0%nat -> l = [].
Proof. destruct l; [reflexivity|discriminate]. Qed.

(* ------------------------------------------------------------------ *)
(* one level, one record                                                *)
(* ------------------------------------------------------------------ *)
Lemma level_roundtrip w nodes l :
  lvl_ok w nodes l = true ->
  exists row, write_level w nodes l = Ok row /\ read_level w nodes (l_direct l) row = Ok l.
Proof.
  unfold lvl_ok. intros H. apply andb_true_iff in H. destruct H as [Ha Hr].
  destruct (index_roundtrip _ _ Ha) as (i & Hi & Hnth).
  unfold write_level. rewrite Hi.
  destruct l as [a p c g d run]; cbn [l_assign l_prob l_corr l_agg l_direct l_run] in *.
  destruct run as [r|].
  - apply andb_true_iff in Hr. destruct Hr as [Hd Hr]. subst d.
    unfold runners_ok in Hr.
    repeat (apply andb_true_iff in Hr; destruct Hr as [Hr ?]).
    apply Nat.leb_le in Hr.
    match goal with H : Nat.eqb (length (ru_prob r)) _ = true |- _ => apply Nat.eqb_eq in H; rename H into Hp end.
    match goal with H : Nat.eqb (length (ru_corr r)) _ = true |- _ => apply Nat.eqb_eq in H; rename H into Hc end.
    match goal with H : forallb _ _ = true |- _ => rename H into Hin end.
    destruct (runners_roundtrip nodes (if Nat.eqb w 0 then E_TYPE else E_INDEX) w _ _ _ Hr Hp Hc Hin)
      as (xa & xp & xc & Hw & Hrd).
    rewrite Hw. cbn [bind]. eexists. split; [reflexivity|].
    unfold read_level. cbn [w_assign w_prob w_agg w_corr w_ra w_rp w_rc]. rewrite Hnth.
    destruct (Nat.eqb w 0) eqn:Ew.
    + apply Nat.eqb_eq in Ew. subst w.
      assert (Ha0 : ru_assign r = []) by (apply length_zero_nil; lia).
      assert (Hp0 : ru_prob r = []) by (apply length_zero_nil; rewrite Hp, Ha0; reflexivity).
      assert (Hc0 : ru_corr r = []) by (apply length_zero_nil; rewrite Hc, Ha0; reflexivity).
      cbn [bind]. rewrite <- (runners_eta r), Ha0, Hp0, Hc0. reflexivity.
    + rewrite Hrd. cbn [bind]. rewrite runners_eta. reflexivity.
  - apply negb_true_iff in Hr. subst d.
    eexists. split; [reflexivity|].
    unfold read_level. cbn [w_assign w_prob w_agg w_corr]. rewrite Hnth. reflexivity.
Qed.

Lemma levels_roundtrip w :
  forall npl ls,
    levels_ok w npl ls = true ->
    exists rows, write_levels w npl ls = Ok rows /\
                 read_levels w npl (map l_direct ls) rows = Ok ls.
Proof.
  induction npl as [|nodes nt IH]; intros ls H.
  - destruct ls; [|discriminate]. exists []. split; reflexivity.
  - destruct ls as [|l lt]; [discriminate|].
    cbn in H. apply andb_true_iff in H. destruct H as [Hl Ht].
    destruct (level_roundtrip _ _ _ Hl) as (row & Hw & Hr).
    destruct (IH lt Ht) as (rows & Hws & Hrs).
    exists (row :: rows). cbn [write_levels map read_levels]. rewrite Hw, Hws, Hr, Hrs. split; reflexivity.
Qed.

Lemma levels_ok_length w : forall npl ls, levels_ok w npl ls = true -> length ls = length npl.
Proof.
  induction npl as [|n nt IH]; intros [|l lt] H; try discriminate; [reflexivity|].
  cbn in H. apply andb_true_iff in H. destruct H as [_ H]. cbn. f_equal. apply IH. exact H.
Qed.

Lemma bools_eqb_eq a : forall b, bools_eqb a b = true -> a = b.
Proof.
  induction a as [|x a IH]; intros [|y b] H; try discriminate; [reflexivity|].
  cbn in H. apply andb_true_iff in H. destruct H as [H1 H2].
  apply Bool.eqb_prop in H1. subst. f_equal. apply IH. exact H2.
Qed.

Lemma cell_eta c : mkCell (c_id c) (c_levels c) = c.
Proof. destruct c; reflexivity. Qed.

Lemma cells_roundtrip w npl d :
  forall b,
    Forall (fun c => cell_ok w npl c = true /\ flags_of c = d) b ->
    exists rows, mapM (fun c => write_levels w npl (c_levels c)) b = Ok rows /\
                 read_cells w npl d (map c_id b) rows = Ok b.
Proof.
  induction b as [|c b IH]; intros H.
  - exists []. split; reflexivity.
  - inversion H as [|c' b' [Hc Hd] Hb]. subst c' b'.
    destruct (levels_roundtrip w npl (c_levels c) Hc) as (row & Hw & Hr).
    destruct (IH Hb) as (rows & Hws & Hrs).
    exists (row :: rows). cbn [mapM map read_cells]. rewrite Hw. cbn [bind]. rewrite Hws. cbn [bind].
    split; [reflexivity|].
    unfold flags_of in Hd. rewrite Hd in Hr. rewrite Hr. cbn [bind]. rewrite Hrs. cbn [bind]. rewrite cell_eta. reflexivity.
Qed.

(* blob_ok, unfolded *)
Lemma blob_ok_inv w npl b :
  blob_ok w npl b = true ->
  exists c0 rest, b = c0 :: rest /\
    Forall (fun c => cell_ok w npl c = true /\ flags_of c = flags_of c0) b.
Proof.
  unfold blob_ok. intros H.
  apply andb_true_iff in H. destruct H as [H Hu].
  apply andb_true_iff in H. destruct H as [Hne Hall].
  destruct b as [|c0 rest]; [discriminate|].
  exists c0, rest. split; [reflexivity|].
  rewrite forallb_forall in Hall. cbn in Hu. rewrite forallb_forall in Hu.
  apply Forall_forall. intros c [<-|Hin].
  - split; [apply Hall; left; reflexivity | reflexivity].
  - split; [apply Hall; right; exact Hin|]. apply bools_eqb_eq. apply Hu. exact Hin.
Qed.

Theorem hdf5_roundtrip npl w b :
  blob_ok w npl b = true ->
  exists f, blob_to_hdf5 npl w b = Ok f /\ hdf5_to_blob f = Ok b.
Proof.
  intros H. destruct (blob_ok_inv _ _ _ H) as (c0 & rest & -> & Hall).
  assert (Hc0 : cell_ok w npl c0 = true).
  { inversion Hall as [|? ? [Hc _] _]; exact Hc. }
  pose proof (levels_ok_length _ _ _ Hc0) as Hlen.
  destruct (cells_roundtrip w npl (flags_of c0) (c0 :: rest) Hall) as (rows & Hw & Hr).
  unfold blob_to_hdf5, first_flags.
  assert (Hlt : Nat.ltb (length (c_levels c0)) (length npl) = false) by (apply Nat.ltb_ge; lia).
  rewrite Hlt. cbn [bind]. rewrite Hw. cbn [bind].
  eexists. split; [reflexivity|].
  unfold hdf5_to_blob. cbn [h_width h_nodes h_direct h_ids h_rows].
  rewrite <- Hlen, firstn_all. exact Hr.
Qed.

(* without uniform flags the first-record shortcut loses information: every record is
   individually well formed, yet what is read back differs from what was written *)
Definition nonuniform_blob : blob :=
  [ mkCell 1 [mkLvl 10 (1, 2) (1, 4) (1, 2) false None];
    mkCell 2 [mkLvl 10 (1, 2) (1, 4) (1, 2) true (Some (mkRun [11] [(1, 4)] [(1, 8)]))] ].
Lemma roundtrip_needs_uniform_flags :
  exists npl w b b',
    b <> [] /\ forallb (cell_ok w npl) b = true /\ flags_uniform b = false /\
    bind (blob_to_hdf5 npl w b) hdf5_to_blob = Ok b' /\ b' <> b.
Proof.
  exists [[10; 11]], 2%nat, nonuniform_blob.
  eexists. split; [discriminate|]. split; [reflexivity|]. split; [reflexivity|].
  split; [vm_compute; reflexivity|]. discriminate.
Qed.

(* ------------------------------------------------------------------ *)
(* four decimals                                                        *)
(* ------------------------------------------------------------------ *)
Lemma round_half_even_half n d :
  0 < d -> 2 * Z.abs (round_half_even (n, d) * d - n) <= d.
Proof.
  intros Hd. unfold round_half_even.
  pose proof (Z.div_mod n d ltac:(lia)) as Hdm.
  pose proof (Z.mod_pos_bound n d Hd) as Hb.
  destruct (2 * (n mod d) <? d) eqn:E1.
  - apply Z.ltb_lt in E1. nia.
  - apply Z.ltb_ge in E1. destruct (d <? 2 * (n mod d)) eqn:E2.
    + apply Z.ltb_lt in E2. nia.
    + apply Z.ltb_ge in E2. destruct (Z.even (n / d)); nia.
Qed.

(* the CSV number differs from the JSON value by at most half a unit of the fourth decimal *)
Lemma fmt4_half x :
  0 < snd x -> 2 * Z.abs (fmt4 x * snd x - 10000 * fst x) <= snd x.
Proof.
  intros Hd. unfold fmt4. pose proof (round_half_even_half (fst x * 10000) (snd x) Hd) as H.
  replace (10000 * fst x) with (fst x * 10000) by lia. exact H.
Qed.

(* ------------------------------------------------------------------ *)
(* CSV rows                                                             *)
(* ------------------------------------------------------------------ *)
Lemma colkey_eqb_eq a b : colkey_eqb a b = true <-> a = b.
Proof.
  split.
  - destruct a, b; cbn; intros H; try discriminate; try reflexivity;
      repeat (apply andb_true_iff in H; destruct H as [H ?]);
      repeat match goal with
             | E : Nat.eqb _ _ = true |- _ => apply Nat.eqb_eq in E
             | E : Z.eqb _ _ = true |- _ => apply Z.eqb_eq in E
             end;
      subst; reflexivity.
  - intros <-. destruct a; cbn; rewrite ?Nat.eqb_refl, ?Z.eqb_refl; reflexivity.
Qed.

Lemma colkey_eqb_refl a : colkey_eqb a a = true.
Proof. apply colkey_eqb_eq. reflexivity. Qed.

Lemma kmem_in k l : kmem k l = true <-> In k l.
Proof.
  unfold kmem. rewrite existsb_exists. split.
  - intros (x & Hx & E). apply colkey_eqb_eq in E. subst. exact Hx.
  - intros H. exists k. split; [exact H | apply colkey_eqb_refl].
Qed.

Lemma add_cols_incl seen ks : forall k, In k seen \/ In k ks -> In k (add_cols seen ks).
Proof.
  revert seen. induction ks as [|x t IH]; intros seen k H; cbn.
  - destruct H as [H|[]]; exact H.
  - destruct (kmem x seen) eqn:E.
    + apply IH. destruct H as [H|[<-|H]]; [left; exact H | left; apply kmem_in; exact E | right; exact H].
    + apply IH. destruct H as [H|[<-|H]].
      * left. apply in_or_app. left. exact H.
      * left. apply in_or_app. right. left. reflexivity.
      * right. exact H.
Qed.

Lemma all_cols_from_incl recs : forall seen k,
  (In k seen \/ exists r, In r recs /\ In k (map fst r)) ->
  In k (fold_left (fun seen r => add_cols seen (map (@fst colkey dval) r)) recs seen).
Proof.
  induction recs as [|r t IH]; intros seen k H; cbn.
  - destruct H as [H|(r & [] & _)]. exact H.
  - apply IH. destruct H as [H|(r' & [<-|Hr] & Hk)].
    + left. apply add_cols_incl. left. exact H.
    + left. apply add_cols_incl. right. exact Hk.
    + right. exists r'. split; assumption.
Qed.

Lemma all_cols_incl recs r k : In r recs -> In k (map fst r) -> In k (all_cols recs).
Proof. intros Hr Hk. unfold all_cols. apply all_cols_from_incl. right. exists r. split; assumption. Qed.

(* position-wise reading of a row: the cell under the first column called k *)
Definition tget {B} (cols : list colkey) (row : list B) (k : colkey) : option B :=
  klookup k (combine cols row).
Definition csv_get (c : csv) (row : list cval) (k : colkey) : option cval := tget (v_cols c) row k.

Lemma select_lookup {A B} (kp : colkey -> bool) (g : colkey -> A) (h : colkey -> A -> B) cols k :
  kp k = true -> In k cols ->
  klookup k (combine (select (map kp cols) cols)
                     (map2 h (select (map kp cols) cols) (select (map kp cols) (map g cols))))
  = Some (h k (g k)).
Proof.
  intros Hk. induction cols as [|x t IH]; intros Hin; [destruct Hin|].
  cbn [map select]. destruct (kp x) eqn:Ex.
  - cbn [map2 combine klookup]. destruct (colkey_eqb k x) eqn:E.
    + apply colkey_eqb_eq in E. subst. reflexivity.
    + apply IH. destruct Hin as [<-|Hin]; [rewrite colkey_eqb_refl in E; discriminate | exact Hin].
  - apply IH. destruct Hin as [<-|Hin]; [congruence | exact Hin].
Qed.

Lemma klookup_in {A} k (r : list (colkey * A)) v : klookup k r = Some v -> In k (map fst r).
Proof.
  induction r as [|[k' v'] t IH]; cbn; [discriminate|].
  destruct (colkey_eqb k k') eqn:E.
  - intros _. left. apply colkey_eqb_eq in E. congruence.
  - intros H. right. apply IH. exact H.
Qed.

Lemma mapM_length {A B} (f : A -> res B) l l' : mapM f l = Ok l' -> length l' = length l.
Proof.
  revert l'. induction l as [|x t IH]; cbn; intros l' H; [inversion H; reflexivity|].
  destruct (f x); cbn in H; [|discriminate].
  destruct (mapM f t); cbn in H; [|discriminate].
  inversion H; subst. cbn. f_equal. apply IH. reflexivity.
Qed.

Lemma mapM_nth {A B} (f : A -> res B) l l' i x :
  mapM f l = Ok l' -> nth_error l i = Some x -> exists y, f x = Ok y /\ nth_error l' i = Some y.
Proof.
  revert l' i. induction l as [|a t IH]; cbn; intros l' i H Hx; [destruct i; discriminate|].
  destruct (f a) eqn:Ea; cbn in H; [|discriminate].
  destruct (mapM f t) eqn:Et; cbn in H; [|discriminate].
  inversion H; subst. destruct i as [|i]; cbn in *.
  - inversion Hx; subst. eexists. split; [exact Ea | reflexivity].
  - eapply IH; [reflexivity | exact Hx].
Qed.

Lemma Ok_inj {A} (a b : A) : Ok a = Ok b -> a = b.
Proof. intros H. inversion H. reflexivity. Qed.

(* --- the dict: a key holds the value of its LAST assignment --- *)
Fixpoint klast {A} (k : colkey) (kvs : list (colkey * A)) : option A :=
  match kvs with
  | [] => None
  | (k', v) :: t =>
      match klast k t with
      | Some w => Some w
      | None => if colkey_eqb k k' then Some v else None
      end
  end.

Lemma klookup_dset {A} k k' (v : A) r :
  klookup k (dset k' v r) = if colkey_eqb k k' then Some v else klookup k r.
Proof.
  induction r as [|[k2 v2] t IH]; cbn; [reflexivity|].
  destruct (colkey_eqb k' k2) eqn:E2; cbn.
  - apply colkey_eqb_eq in E2. subst k2. destruct (colkey_eqb k k'); reflexivity.
  - rewrite IH. destruct (colkey_eqb k k2) eqn:Ea; destruct (colkey_eqb k k') eqn:Eb; try reflexivity.
    apply colkey_eqb_eq in Ea. apply colkey_eqb_eq in Eb. subst. rewrite colkey_eqb_refl in E2. discriminate.
Qed.

Lemma klookup_fold_dset {A} k (kvs : list (colkey * A)) : forall r,
  klookup k (fold_left (fun r kv => dset (fst kv) (snd kv) r) kvs r)
  = match klast k kvs with Some w => Some w | None => klookup k r end.
Proof.
  induction kvs as [|[k' v] t IH]; intros r; cbn; [reflexivity|].
  rewrite IH, klookup_dset. destruct (klast k t); [reflexivity|].
  destruct (colkey_eqb k k'); reflexivity.
Qed.

Lemma klookup_dict_of {A} k (kvs : list (colkey * A)) : klookup k (dict_of kvs) = klast k kvs.
Proof. unfold dict_of. rewrite klookup_fold_dset. destruct (klast k kvs); reflexivity. Qed.

Lemma klast_app {A} k (a b : list (colkey * A)) :
  klast k (a ++ b) = match klast k b with Some w => Some w | None => klast k a end.
Proof.
  induction a as [|[k' v] t IH]; cbn.
  - destruct (klast k b); reflexivity.
  - rewrite IH. destruct (klast k b); reflexivity.
Qed.

Lemma klast_none {A} k (l : list (colkey * A)) :
  (forall k', In k' (map fst l) -> colkey_eqb k k' = false) -> klast k l = None.
Proof.
  induction l as [|[k' v] t IH]; cbn; intros H; [reflexivity|].
  rewrite IH by (intros k2 Hk; apply H; right; exact Hk).
  rewrite (H k' (or_introl eq_refl)). reflexivity.
Qed.

(* --- which keys a level writes --- *)
Lemma level_elements_keys rl l k :
  In k (map fst (level_elements rl l)) -> (exists f, k = KField rl f) \/ (exists kd i, k = KRun rl kd i).
Proof.
  unfold level_elements. rewrite !map_app, !in_app_iff. cbn.
  intros [[<-|[<-|[]]]|[H|[<-|[<-|[]]]]]; try (left; eexists; reflexivity).
  destruct (l_run l) as [r|]; [|destruct H].
  rewrite !map_app, !in_app_iff, !map_map in H. cbn in H.
  destruct H as [H|[H|H]]; apply in_map_iff in H; destruct H as (p & <- & _); right; eexists; eexists; reflexivity.
Qed.

Lemma level_record_keys nm lf level l k :
  In k (map fst (level_record nm lf level l)) -> col_level k = Some (level_to_name nm level).
Proof.
  unfold level_record. cbn zeta. rewrite !map_app, !in_app_iff. cbn.
  intros [[<-|[<-|[]]]|[H|H]]; try reflexivity.
  - destruct lf; [destruct H as [<-|[]]; reflexivity | destruct H].
  - apply level_elements_keys in H. destruct H as [(f & ->)|(kd & i & ->)]; reflexivity.
Qed.

Lemma levels_record_keys nm : forall hier ls r k,
  levels_record nm hier ls = Ok r -> In k (map fst r) ->
  exists level, In level hier /\ col_level k = Some (level_to_name nm level).
Proof.
  induction hier as [|level ht IH]; intros ls r k H Hk; cbn [levels_record] in H.
  - inversion H; subst. destruct Hk.
  - destruct ls as [|l lt]; [discriminate|].
    destruct (levels_record nm ht lt) as [rest|] eqn:E; cbn [bind] in H; [|discriminate].
    apply Ok_inj in H. subst r. rewrite map_app, in_app_iff in Hk. destruct Hk as [Hk|Hk].
    + exists level. split; [left; reflexivity | eapply level_record_keys; exact Hk].
    + destruct (IH _ _ _ E Hk) as (lv & Hin & Hc). exists lv. split; [right; exact Hin | exact Hc].
Qed.

Lemma colkey_level_neq k k' : col_level k <> col_level k' -> colkey_eqb k k' = false.
Proof.
  intros H. destruct (colkey_eqb k k') eqn:E; [|reflexivity].
  apply colkey_eqb_eq in E. subst. contradiction.
Qed.

(* the value of one level's own columns among that level's assignments *)
Definition conf_value (conf : nat) (l : lvl) : rat := match conf with O => l_prob l | _ => l_corr l end.

Lemma klast_elements_field rl l conf :
  (conf < 2)%nat -> klast (KField rl conf) (level_elements rl l) = Some (DNum (conf_value conf l)).
Proof.
  intros Hc. unfold level_elements. rewrite !klast_app.
  assert (E2 : klast (KField rl conf) [(KField rl 2, DNum (l_agg l)); (KField rl 3, DBool (l_direct l))] = None).
  { cbn. rewrite Z.eqb_refl. destruct conf as [|[|conf]]; [reflexivity | reflexivity | lia]. }
  rewrite E2.
  assert (ER : klast (KField rl conf)
                 (match l_run l with
                  | None => []
                  | Some r =>
                      map (fun p => (KRun rl 0 (fst p), DName (snd p))) (enum_from 0 (ru_assign r)) ++
                      map (fun p => (KRun rl 1 (fst p), DNum (snd p))) (enum_from 0 (ru_corr r)) ++
                      map (fun p => (KRun rl 2 (fst p), DNum (snd p))) (enum_from 0 (ru_prob r))
                  end) = None).
  { apply klast_none. intros k' Hk. destruct (l_run l) as [r|]; [|destruct Hk].
    rewrite !map_app, !in_app_iff, !map_map in Hk. cbn in Hk.
    destruct Hk as [H|[H|H]]; apply in_map_iff in H; destruct H as (p & <- & _); reflexivity. }
  rewrite ER. cbn. rewrite Z.eqb_refl.
  destruct conf as [|[|conf]]; [reflexivity | reflexivity | lia].
Qed.

Lemma level_record_values nm lf level l :
  let rl := level_to_name nm level in
  klast (KLabel rl) (level_record nm lf level l) = Some (DName (l_assign l)) /\
  klast (KName rl) (level_record nm lf level l) = Some (DName (label_to_name nm level (l_assign l) false)) /\
  (lf = true -> klast (KAlias rl) (level_record nm lf level l)
                = Some (DName (label_to_name nm level (l_assign l) true))) /\
  (forall conf, (conf < 2)%nat ->
     klast (KField rl conf) (level_record nm lf level l) = Some (DNum (conf_value conf l))).
Proof.
  intros rl. unfold level_record. fold rl.
  assert (Hel : forall k, (forall f, k <> KField rl f) -> (forall kd i, k <> KRun rl kd i) ->
                          klast k (level_elements rl l) = None).
  { intros k H1 H2. apply klast_none. intros k' Hk. apply level_elements_keys in Hk.
    destruct (colkey_eqb k k') eqn:E; [|reflexivity]. apply colkey_eqb_eq in E. subst k'.
    destruct Hk as [(f & ->)|(kd & i & ->)]; [destruct (H1 f eq_refl) | destruct (H2 kd i eq_refl)]. }
  assert (Hal : forall k, (forall x, k <> KAlias x) ->
            klast k (if lf then [(KAlias rl, DName (label_to_name nm level (l_assign l) true))] else []) = None).
  { intros k H. destruct lf; [|reflexivity]. cbn.
    destruct (colkey_eqb k (KAlias rl)) eqn:E; [|reflexivity]. apply colkey_eqb_eq in E. destruct (H rl E). }
  repeat split.
  - rewrite !klast_app, Hel, Hal by (intros; discriminate). cbn. rewrite Z.eqb_refl. reflexivity.
  - rewrite !klast_app, Hel, Hal by (intros; discriminate). cbn. rewrite Z.eqb_refl. reflexivity.
  - intros ->. rewrite !klast_app, Hel by (intros; discriminate). cbn. rewrite Z.eqb_refl. reflexivity.
  - intros conf Hc. rewrite !klast_app, klast_elements_field by exact Hc. reflexivity.
Qed.

(* a level's columns hold that level's values PROVIDED no later level has the same readable name
   (a later level overwrites them: F31) *)
Lemma levels_record_values nm : forall hier ls r j level l,
  NoDup (map (level_to_name nm) hier) ->
  levels_record nm hier ls = Ok r ->
  nth_error hier j = Some level -> nth_error ls j = Some l ->
  let rl := level_to_name nm level in
  klast (KLabel rl) r = Some (DName (l_assign l)) /\
  klast (KName rl) r = Some (DName (label_to_name nm level (l_assign l) false)) /\
  (S j = length hier -> klast (KAlias rl) r = Some (DName (label_to_name nm level (l_assign l) true))) /\
  (forall conf, (conf < 2)%nat -> klast (KField rl conf) r = Some (DNum (conf_value conf l))).
Proof.
  induction hier as [|lv_label ht IH]; intros ls r j level l Hnd H Hh Hl; [destruct j; discriminate|].
  cbn [levels_record] in H. destruct ls as [|l0 lt]; [discriminate|].
  destruct (levels_record nm ht lt) as [rest|] eqn:E; cbn [bind] in H; [|discriminate].
  apply Ok_inj in H. subst r. cbn [map] in Hnd. apply NoDup_cons_iff in Hnd. destruct Hnd as [Hnot Hnd].
  destruct j as [|j]; cbn in Hh, Hl.
  - inversion Hh; inversion Hl; subst. intros rl.
    assert (Hrest : forall k, col_level k = Some rl -> klast k rest = None).
    { intros k Hk. apply klast_none. intros k' Hk'.
      destruct (levels_record_keys nm ht lt rest k' E Hk') as (lv & Hin & Hc).
      apply colkey_level_neq. rewrite Hk, Hc. intros X. inversion X as [X']. apply Hnot.
      unfold rl in X'. rewrite X'. apply in_map. exact Hin. }
    destruct (level_record_values nm (match ht with [] => true | _ => false end) level l) as (A & B & C & D).
    fold rl in A, B, C, D.
    rewrite !klast_app, !Hrest by reflexivity.
    split; [exact A|]. split; [exact B|]. split.
    + intros Hlen. rewrite ?klast_app, ?Hrest by reflexivity. apply C. destruct ht; [reflexivity | cbn in Hlen; lia].
    + intros conf Hc. rewrite klast_app, Hrest by reflexivity. apply D. exact Hc.
  - intros rl. destruct (IH lt rest j level l Hnd E Hh Hl) as (A & B & C & D). fold rl in A, B, C, D.
    rewrite !klast_app, A, B.
    split; [reflexivity|]. split; [reflexivity|]. split.
    + intros Hlen. rewrite ?klast_app, C by (cbn in Hlen; lia). reflexivity.
    + intros conf Hc. rewrite klast_app, D by exact Hc. reflexivity.
Qed.

Lemma cell_record_values nm hier c r :
  NoDup (map (level_to_name nm) hier) ->
  cell_record nm hier c = Ok r ->
  klookup KId r = Some (DName (c_id c)) /\
  forall j level l, nth_error hier j = Some level -> nth_error (c_levels c) j = Some l ->
    let rl := level_to_name nm level in
    klookup (KLabel rl) r = Some (DName (l_assign l)) /\
    klookup (KName rl) r = Some (DName (label_to_name nm level (l_assign l) false)) /\
    (S j = length hier -> klookup (KAlias rl) r = Some (DName (label_to_name nm level (l_assign l) true))) /\
    (forall conf, (conf < 2)%nat -> klookup (KField rl conf) r = Some (DNum (conf_value conf l))).
Proof.
  intros Hnd. unfold cell_record.
  destruct (levels_record nm hier (c_levels c)) as [lr|] eqn:E; cbn [bind]; [|discriminate].
  intros H. apply Ok_inj in H. subst r. split.
  - rewrite klookup_dict_of. cbn [klast].
    rewrite klast_none; [reflexivity|]. intros k' Hk'.
    destruct (levels_record_keys nm hier _ lr k' E Hk') as (lv & _ & Hc).
    apply colkey_level_neq. rewrite Hc. discriminate.
  - intros j level l Hh Hl.
    destruct (levels_record_values nm hier _ _ j level l Hnd E Hh Hl) as (A & B & C & D).
    rewrite !klookup_dict_of. cbn [klast]. rewrite A, B.
    split; [reflexivity|]. split; [reflexivity|]. split.
    + intros Hlen. rewrite ?klookup_dict_of. cbn [klast]. rewrite (C Hlen). reflexivity.
    + intros conf Hc. rewrite klookup_dict_of. cbn [klast]. rewrite (D conf Hc). reflexivity.
Qed.

(* the table, whatever is made of a cell (render): the CSV fields and the CSV text are two instances *)
Theorem table_rows {B} (render : colkey -> option dval -> B) nm hier conf sticky b cols rows :
  (conf < 2)%nat ->
  NoDup (map (level_to_name nm) hier) ->
  blob_to_table render nm hier conf sticky b = Ok (cols, rows) ->
  length rows = length b /\
  forall i cl row,
    nth_error b i = Some cl -> nth_error rows i = Some row ->
    tget cols row KId = Some (render KId (Some (DName (c_id cl)))) /\
    forall j level l,
      nth_error hier j = Some level -> nth_error (c_levels cl) j = Some l ->
      let rl := level_to_name nm level in
      tget cols row (KLabel rl) = Some (render (KLabel rl) (Some (DName (l_assign l)))) /\
      tget cols row (KName rl) = Some (render (KName rl) (Some (DName (label_to_name nm level (l_assign l) false)))) /\
      (S j = length hier ->
         tget cols row (KAlias rl) = Some (render (KAlias rl) (Some (DName (label_to_name nm level (l_assign l) true))))) /\
      tget cols row (KField rl conf) = Some (render (KField rl conf) (Some (DNum (conf_value conf l)))).
Proof.
  intros Hconf Hnd H. unfold blob_to_table, blob_to_df in H.
  destruct (mapM (cell_record nm hier) b) as [recs|] eqn:E; cbn in H; [|discriminate].
  apply Ok_inj in H. inversion H; subst cols rows; clear H.
  split; [rewrite !map_length; eapply mapM_length; exact E|].
  intros i cl row Hb Hrow.
  destruct (mapM_nth _ _ _ _ _ E Hb) as (r & Hr & Hri).
  rewrite !map_map in Hrow. rewrite nth_error_map, Hri in Hrow. cbn in Hrow. inversion Hrow; subst row; clear Hrow.
  unfold tget.
  set (cols := all_cols recs).
  assert (Hrin : In r recs) by (eapply nth_error_In; exact Hri).
  assert (Hget : forall k v, keep_col conf sticky k = true -> klookup k r = Some v ->
            klookup k (combine (select (map (keep_col conf sticky) cols) cols)
                         (map2 render
                               (select (map (keep_col conf sticky) cols) cols)
                               (select (map (keep_col conf sticky) cols) (map (fun k => klookup k r) cols))))
            = Some (render k (Some v))).
  { intros k v Hk Hv.
    rewrite (select_lookup (keep_col conf sticky) (fun k => klookup k r) render cols k Hk).
    - rewrite Hv. reflexivity.
    - eapply all_cols_incl; [exact Hrin|]. eapply klookup_in. exact Hv. }
  destruct (cell_record_values nm hier cl r Hnd Hr) as (Hid & Hlv).
  split; [exact (Hget KId _ eq_refl Hid)|].
  intros j level l Hh Hl. cbv zeta. set (rl := level_to_name nm level).
  pose proof (Hlv j level l Hh Hl) as Hx. cbv zeta in Hx. fold rl in Hx. destruct Hx as (HA & HB & HC & HD).
  split; [exact (Hget (KLabel rl) _ eq_refl HA)|].
  split; [exact (Hget (KName rl) _ eq_refl HB)|].
  split; [intros Hlen; exact (Hget (KAlias rl) _ eq_refl (HC Hlen))|].
  assert (Hk : keep_col conf sticky (KField rl conf) = true) by (cbn; rewrite Nat.eqb_refl; reflexivity).
  exact (Hget (KField rl conf) _ Hk (HD conf Hconf)).
Qed.

Theorem csv_rows nm hier meta algo conf sticky categ b c :
  (conf < 2)%nat ->
  NoDup (map (level_to_name nm) hier) ->
  blob_to_csv nm hier meta algo conf sticky categ b = Ok c ->
  v_comments c = csv_header nm hier meta algo /\
  length (v_rows c) = length b /\
  forall i cl row,
    nth_error b i = Some cl -> nth_error (v_rows c) i = Some row ->
    csv_get c row KId = Some (CName (c_id cl)) /\
    forall j level l,
      nth_error hier j = Some level -> nth_error (c_levels cl) j = Some l ->
      let rl := level_to_name nm level in
      csv_get c row (KLabel rl) = Some (CName (l_assign l)) /\
      csv_get c row (KName rl) = Some (CName (label_to_name nm level (l_assign l) false)) /\
      (S j = length hier ->
         csv_get c row (KAlias rl) = Some (CName (label_to_name nm level (l_assign l) true))) /\
      csv_get c row (KField rl conf) =
        Some (if zmem rl categ then CNumFull (conf_value conf l) else CNum4 (fmt4 (conf_value conf l))).
Proof.
  intros Hconf Hnd H. unfold blob_to_csv in H.
  destruct (blob_to_table (fun k v => csv_cell (col_categ categ k) v) nm hier conf sticky b) as [[cols rows]|] eqn:E;
    cbn [bind] in H; [|discriminate].
  apply Ok_inj in H. subst c. cbn [v_comments v_rows v_cols fst snd]. split; [reflexivity|].
  destruct (table_rows _ nm hier conf sticky b cols rows Hconf Hnd E) as (Hlen & Hrows).
  split; [exact Hlen|].
  intros i cl row Hb Hrow. destruct (Hrows i cl row Hb Hrow) as (Hid & Hlv). unfold csv_get. cbn [v_cols].
  split; [exact Hid|].
  intros j level l Hh Hl. cbv zeta. set (rl := level_to_name nm level).
  pose proof (Hlv j level l Hh Hl) as Hx. cbv zeta in Hx. fold rl in Hx. destruct Hx as (HA & HB & HC & HD).
  split; [exact HA|]. split; [exact HB|]. split; [exact HC|].
  rewrite HD. cbn. reflexivity.
Qed.

(* a level whose readable name contains 'label' / 'name' / 'alias' / 'assignment' does not get its
   confidence to four decimals *)
Lemma csv_confidence_not_rounded_on_categorical_level :
  exists nm hier conf sticky categ b c row,
    blob_to_csv nm hier None 0 conf sticky categ b = Ok c /\ nth_error (v_rows c) 0 = Some row /\
    csv_get c row (KField 7 conf) = Some (CNumFull (1, 3)).
Proof.
  exists (mkNaming None None), [7], 0%nat, [7], [7],
         [mkCell 1 [mkLvl 10 (1, 3) (1, 4) (1, 2) true (Some (mkRun [] [] []))]].
  eexists. eexists. split; [vm_compute; reflexivity|]. split; [reflexivity|]. vm_compute. reflexivity.
Qed.

(* F31: two levels with ONE readable name.  Hierarchy [7; 8], hierarchy_mapper 7 -> 70, 8 -> 70; one cell
   (id 100) assigned to node 1 (p = 0.37) at level 7 and to node 11 (p = 0.25) at level 8.  The CSV has
   five columns -- the alias column of the leaf comes LAST, after the confidence -- and the assignment of
   level 7 appears nowhere: what c15_csv_rows promises for j = 0 is false *)
Definition dup_nm : naming := mkNaming (Some [(7, 70); (8, 70)]) None.
Definition dup_blob : blob :=
  [mkCell 100 [mkLvl 1 (37, 100) (1, 2) (37, 100) true (Some (mkRun [] [] []));
               mkLvl 11 (1, 4) (1, 2) (1, 4) true (Some (mkRun [] [] []))]].
Lemma csv_duplicate_readable_level :
  exists c row,
    map (level_to_name dup_nm) [7; 8] = [70; 70] /\
    blob_to_csv dup_nm [7; 8] None 0 0 [] [] dup_blob = Ok c /\
    v_cols c = [KId; KLabel 70; KName 70; KField 70 0; KAlias 70] /\
    v_rows c = [row] /\ row = [CName 100; CName 11; CName 11; CNum4 2500; CName 11] /\
    nth_error [7; 8] 0 = Some 7 /\
    csv_get c row (KLabel (level_to_name dup_nm 7)) <> Some (CName 1) /\
    csv_get c row (KField (level_to_name dup_nm 7) 0) <> Some (CNum4 (fmt4 (37, 100))).
Proof.
  eexists. eexists. split; [reflexivity|]. split; [vm_compute; reflexivity|].
  split; [reflexivity|]. split; [reflexivity|]. split; [reflexivity|]. split; [reflexivity|].
  split; vm_compute; discriminate.
Qed.

(* ------------------------------------------------------------------ *)
(* re_order_blob                                                        *)
(* ------------------------------------------------------------------ *)
Lemma find_last_spec b i c : find_last b i = Some c -> In c b /\ c_id c = i.
Proof.
  unfold find_last. intros H. apply find_some in H. destruct H as [Hin E].
  apply in_rev in Hin. apply Z.eqb_eq in E. split; assumption.
Qed.

Lemma find_last_some b i : In i (map c_id b) -> exists c, find_last b i = Some c.
Proof.
  intros H. unfold find_last. destruct (find (fun c => c_id c =? i) (rev b)) as [c|] eqn:E; [eauto|].
  exfalso. apply in_map_iff in H. destruct H as (c & Hc & Hin).
  assert (Hr : In c (rev b)) by (apply in_rev; rewrite rev_involutive; exact Hin).
  pose proof (find_none _ _ E c Hr) as Hn. cbn in Hn. rewrite Hc, Z.eqb_refl in Hn. discriminate Hn.
Qed.

Lemma re_order_spec b order :
  (forall i, In i order -> In i (map c_id b)) ->
  exists b', re_order_blob b order = Ok b' /\ map c_id b' = order /\ (forall c, In c b' -> In c b).
Proof.
  unfold re_order_blob. induction order as [|i t IH]; intros H.
  - exists []. cbn. repeat split. intros c [].
  - destruct (find_last_some b i (H i (or_introl eq_refl))) as [c Hc].
    destruct IH as (b' & Hb' & Hids & Hin); [intros j Hj; apply H; right; exact Hj|].
    exists (c :: b'). cbn [mapM]. rewrite Hc. cbn [bind]. rewrite Hb'. cbn [bind].
    destruct (find_last_spec _ _ _ Hc) as [Hcin Hcid].
    split; [reflexivity|]. split; [cbn; rewrite Hcid, Hids; reflexivity|].
    intros c' [<-|Hc']; [exact Hcin | apply Hin; exact Hc'].
Qed.

Lemma NoDup_map_inj {A B} (f : A -> B) l x y :
  NoDup (map f l) -> In x l -> In y l -> f x = f y -> x = y.
Proof.
  induction l as [|a t IH]; intros Hnd Hx Hy E; [destruct Hx|].
  cbn in Hnd. inversion Hnd as [|? ? Hna Hnt]; subst.
  destruct Hx as [<-|Hx], Hy as [<-|Hy]; [reflexivity | | |apply IH; assumption].
  - exfalso. apply Hna. rewrite E. apply in_map. exact Hy.
  - exfalso. apply Hna. rewrite <- E. apply in_map. exact Hx.
Qed.

Lemma NoDup_map_NoDup {A B} (f : A -> B) l : NoDup (map f l) -> NoDup l.
Proof.
  induction l as [|a t IH]; intros H; [constructor|].
  cbn in H. inversion H as [|? ? Hna Hnt]; subst. constructor; [|apply IH; exact Hnt].
  intros Hin. apply Hna. apply in_map. exact Hin.
Qed.

(* one record per cell, in query order *)
Theorem re_order_permutation b order :
  NoDup (map c_id b) -> Permutation order (map c_id b) ->
  exists b', re_order_blob b order = Ok b' /\ map c_id b' = order /\ Permutation b' b.
Proof.
  intros Hnd Hperm.
  destruct (re_order_spec b order) as (b' & Hb' & Hids & Hin).
  { intros i Hi. eapply Permutation_in; [exact Hperm | exact Hi]. }
  exists b'. split; [exact Hb'|]. split; [exact Hids|].
  assert (Hnd' : NoDup (map c_id b')).
  { rewrite Hids. eapply Permutation_NoDup; [apply Permutation_sym; exact Hperm | exact Hnd]. }
  apply NoDup_Permutation; [eapply NoDup_map_NoDup; exact Hnd' | eapply NoDup_map_NoDup; exact Hnd |].
  intros c. split; [apply Hin|].
  intros Hc.
  assert (Hio : In (c_id c) (map c_id b')).
  { rewrite Hids. eapply Permutation_in; [apply Permutation_sym; exact Hperm | apply in_map; exact Hc]. }
  apply in_map_iff in Hio. destruct Hio as (c' & Hid & Hc').
  rewrite <- (NoDup_map_inj c_id b c' c Hnd (Hin c' Hc') Hc Hid). exact Hc'.
Qed.

(* ------------------------------------------------------------------ *)
(* the taxonomy embedded in the output                                  *)
(* ------------------------------------------------------------------ *)
Lemma set_eqb_refl a : set_eqb a a = true.
Proof.
  unfold set_eqb. assert (H : forallb (fun x => zmem x a) a = true).
  { apply forallb_forall. intros x Hx. apply zmem_in. exact Hx. }
  rewrite H. reflexivity.
Qed.

Definition strip_leaf (lf : level) : level := map (fun nc => (fst nc, @nil Z)) lf.

Lemma nodes_strip_leaf lf : nodes (strip_leaf lf) = nodes lf.
Proof. unfold nodes, strip_leaf. rewrite map_map. reflexivity. Qed.

Lemma drop_cells_app above lf : drop_cells (above ++ [lf]) = above ++ [strip_leaf lf].
Proof. unfold drop_cells. rewrite rev_app_distr. cbn. rewrite rev_involutive. reflexivity. Qed.

Lemma is_equal_to_stripped above lf : is_equal_to (above ++ [strip_leaf lf]) (above ++ [lf]) = true.
Proof.
  induction above as [|lv t IH].
  - cbn. rewrite nodes_strip_leaf, set_eqb_refl. reflexivity.
  - cbn [app is_equal_to]. rewrite set_eqb_refl, IH.
    assert (H : forallb (fun x => set_eqb (children_of lv x) (children_of lv x)) (nodes lv) = true).
    { apply forallb_forall. intros x _. apply set_eqb_refl. }
    rewrite H. destruct (t ++ [strip_leaf lf]); reflexivity.
Qed.

(* to_str(drop_cells=True) -> from_str gives back the same hierarchy, the same nodes at every
   level, the same children of every non-leaf node, and no cell lists *)
Theorem tree_reconstructs t :
  t <> [] ->
  is_equal_to (drop_cells t) t = true /\
  length (drop_cells t) = length t /\
  map nodes (drop_cells t) = map nodes t /\
  removelast (drop_cells t) = removelast t /\
  Forall (fun nc => snd nc = []) (leaf_level (drop_cells t)).
Proof.
  intros Hne. destruct (exists_last Hne) as (above & lf & ->).
  rewrite drop_cells_app.
  split; [apply is_equal_to_stripped|].
  split; [rewrite !app_length; reflexivity|].
  split; [rewrite !map_app; cbn; rewrite nodes_strip_leaf; reflexivity|].
  split; [rewrite !removelast_last; reflexivity|].
  unfold leaf_level. rewrite last_last. unfold strip_leaf. apply Forall_forall.
  intros nc H. apply in_map_iff in H. destruct H as (x & <- & _). reflexivity.
Qed.
