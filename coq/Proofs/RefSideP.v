(* Lemmas about Model/RefSide.v: the reference side of the mapper reads statistics, taxonomy and marker
   cache BY NAME (C18). *)
From Coq Require Import ZArith List Bool Lia Arith Permutation Sorted.
From CTM Require Import Base.Sx Base.ListX Base.SortX Model.Tree Model.Normalize Model.Markers Model.RefSide.
From CTM Require Import Proofs.NormalizeP Proofs.TreeP Proofs.MarkersP.
Import ListNotations.
Open Scope Z_scope.

(* ------------------------------------------------------------------ generic *)
Lemma opt_all_Forall2 {X Y} (f : X -> option Y) l d :
  opt_all (map f l) = Some d -> Forall2 (fun x y => f x = Some y) l d.
Proof.
  revert d. induction l as [|x t IH]; intros d H; cbn in H.
  - injection H as <-. constructor.
  - destruct (f x) as [y|] eqn:E; [|discriminate].
    destruct (opt_all (map f t)) as [d'|]; [|discriminate]. injection H as <-.
    constructor; [exact E | apply IH; reflexivity].
Qed.

Lemma Forall2_opt_all {X Y} (f : X -> option Y) l d :
  Forall2 (fun x y => f x = Some y) l d -> opt_all (map f l) = Some d.
Proof. induction 1 as [|x y l d H _ IH]; cbn; [reflexivity|]. rewrite H, IH. reflexivity. Qed.

Lemma Forall2_nth_l {X Y} (R : X -> Y -> Prop) l1 l2 i a :
  Forall2 R l1 l2 -> nth_error l1 i = Some a -> exists b, nth_error l2 i = Some b /\ R a b.
Proof.
  intros H. revert i. induction H as [|x y l1 l2 Hxy _ IH]; intros i Hi; [destruct i; discriminate|].
  destruct i as [|i]; cbn in *; [injection Hi as <-; eauto | apply IH; exact Hi].
Qed.

Lemma Forall2_eq_l {X Y} (R : X -> Y -> Prop) l d d' :
  (forall x y y', R x y -> R x y' -> y = y') -> Forall2 R l d -> Forall2 R l d' -> d = d'.
Proof.
  intros F H. revert d'. induction H as [|x y l d Hxy _ IH]; intros d' H'; inversion H'; subst; [reflexivity|].
  f_equal; [eapply F; eassumption | apply IH; assumption].
Qed.

Lemma gene_to_col_nodup l i g : NoDup l -> nth_error l i = Some g -> gene_to_col l g = Some i.
Proof.
  revert i. induction l as [|h t IH]; intros i ND H; [destruct i; discriminate|].
  inversion ND as [|? ? Hn ND']; subst. destruct i as [|i]; cbn in *.
  - injection H as ->. rewrite Z.eqb_refl. reflexivity.
  - destruct (g =? h) eqn:E.
    + apply Z.eqb_eq in E. subst. exfalso. apply Hn. eapply nth_error_In. exact H.
    + rewrite (IH i ND' H). reflexivity.
Qed.

Lemma zlist_eq_spec a b : zlist_eq a b = true <-> a = b.
Proof.
  revert b. induction a as [|x a IH]; intros [|y b]; cbn; try (split; [discriminate | discriminate]); [tauto|].
  rewrite andb_true_iff, Z.eqb_eq, IH. split; [intros [-> ->]; reflexivity | intros H; injection H; auto].
Qed.

(* ------------------------------------------------------------------ matrices read by name *)
Section Generic.
Variable A : Type.
Variable mean : Z -> Z -> A.

Lemma mat_at_row (m : rmat A) c g i row :
  gene_to_col (m_cells m) c = Some i -> nth_error (m_data m) i = Some row ->
  mat_at A m c g = lookup (m_genes m) row g.
Proof.
  intros Hc Hr. unfold mat_at, lookup. rewrite Hc, Hr. destruct (gene_to_col (m_genes m) g); reflexivity.
Qed.

Lemma mat_at_mat_row (m : rmat A) c g :
  mat_at A m c g = match mat_row A m c with Some row => lookup (m_genes m) row g | None => None end.
Proof.
  unfold mat_at, mat_row, lookup. destruct (gene_to_col (m_cells m) c) as [i|]; [|reflexivity].
  destruct (gene_to_col (m_genes m) g); destruct (nth_error (m_data m) i); reflexivity.
Qed.

Lemma make_rmat_inv cells genes data n m :
  make_rmat A cells genes data n = ROk m ->
  m = mk_rmat cells genes data n /\ Forall (fun r => length r = length genes) data /\ NoDup genes /\ NoDup cells.
Proof.
  unfold make_rmat.
  destruct (forallb (fun r => Nat.eqb (length r) (length genes)) data) eqn:E1; cbn [negb]; [|discriminate].
  destruct (znodup_b genes) eqn:E2; cbn [negb]; [|discriminate].
  destruct (znodup_b cells) eqn:E3; cbn [negb]; [|discriminate].
  intros H. injection H as <-. split; [reflexivity|]. split; [|split; apply znodup_b_spec; assumption].
  apply Forall_forall. intros r Hr. rewrite forallb_forall in E1. apply Nat.eqb_eq, E1, Hr.
Qed.

Lemma make_rmat_ok cells genes data n :
  Forall (fun r => length r = length genes) data -> NoDup genes -> NoDup cells ->
  make_rmat A cells genes data n = ROk (mk_rmat cells genes data n).
Proof.
  intros F G C. unfold make_rmat.
  replace (forallb (fun r => Nat.eqb (length r) (length genes)) data) with true.
  - rewrite (proj2 (znodup_b_spec genes) G), (proj2 (znodup_b_spec cells) C). reflexivity.
  - symmetry. apply forallb_forall. intros r Hr. apply Nat.eqb_eq. rewrite Forall_forall in F. apply F, Hr.
Qed.

(* ------------------------------------------------------------------ the statistics file *)
Lemma raw_stats_assoc sf c2r cs : raw_stats sf c2r = Some cs ->
  forall c, zassoc c cs = match zassoc c c2r with Some idx => raw_entry sf idx | None => None end.
Proof.
  revert cs. induction c2r as [|[k idx] r IH]; intros cs H c; cbn in H.
  - injection H as <-. reflexivity.
  - destruct (raw_entry sf idx) as [e|] eqn:E; [|discriminate].
    destruct (raw_stats sf r) as [rest|]; [|discriminate]. injection H as <-. cbn.
    destruct (c =? k); [symmetry; exact E | apply IH; reflexivity].
Qed.

Lemma raw_stats_keys sf c2r cs : raw_stats sf c2r = Some cs -> map fst cs = map fst c2r.
Proof.
  revert cs. induction c2r as [|[k idx] r IH]; intros cs H; cbn in H.
  - injection H as <-. reflexivity.
  - destruct (raw_entry sf idx) as [e|]; [|discriminate].
    destruct (raw_stats sf r) as [rest|]; [|discriminate]. injection H as <-. cbn. f_equal. apply IH. reflexivity.
Qed.

(* what get_leaf_means returns, unfolded *)
Lemma get_leaf_means_inv t sf fs m : get_leaf_means A mean t sf fs = ROk m ->
  exists cs,
    raw_stats sf (sf_c2r sf) = Some cs /\
    agg_all cs (map snd (concat (as_leaves t))) = ROk tt /\
    m_cells m = zsort (nodes (leaf_level t)) /\ m_genes m = sf_cols sf /\ m_norm m = Log2CPM /\
    opt_all (map (leaf_mean_row A mean cs) (m_cells m)) = Some (m_data m) /\
    nodes (leaf_level t) <> [] /\
    Forall (fun r => length r = length (sf_cols sf)) (m_data m) /\ NoDup (sf_cols sf) /\
    sf_basic sf = true /\ (fs = true -> sf_sel sf = true).
Proof.
  unfold get_leaf_means.
  destruct (sf_basic sf) eqn:Eb; cbn [negb]; [|discriminate].
  destruct (fs && negb (sf_sel sf)) eqn:Es; [discriminate|].
  destruct (raw_stats sf (sf_c2r sf)) as [cs|] eqn:Er; [|discriminate].
  destruct (agg_all cs (map snd (concat (as_leaves t)))) as [[]|] eqn:Ea; cbn [rbind]; [|discriminate].
  destruct (opt_all (map (leaf_mean_row A mean cs) (zsort (nodes (leaf_level t))))) as [data|] eqn:Eo; [|discriminate].
  destruct (is_nil (zsort (nodes (leaf_level t)))) eqn:En; [discriminate|].
  intros H. apply make_rmat_inv in H. destruct H as (-> & F & G & C). cbn.
  exists cs. split; [reflexivity|]. split; [exact Ea|]. split; [reflexivity|]. split; [reflexivity|].
  split; [reflexivity|]. split; [exact Eo|]. split.
  - intros E0. rewrite E0 in En. discriminate.
  - split; [exact F|]. split; [exact G|]. split; [reflexivity|]. intros ->. destruct (sf_sel sf); [reflexivity | discriminate].
Qed.

(* (1a) the mean of leaf L at gene G is sum(L,G) / max(1, n(L)), both read by name from the file *)
Theorem leaf_means_by_name t sf fs m : get_leaf_means A mean t sf fs = ROk m ->
  m_cells m = zsort (nodes (leaf_level t)) /\ m_genes m = sf_cols sf /\ m_norm m = Log2CPM /\
  length (m_data m) = length (m_cells m) /\
  forall c g, In c (nodes (leaf_level t)) ->
    mat_at A m c g = option_map (fun sn => mean (fst sn) (Z.max 1 (snd sn))) (sf_at sf c g).
Proof.
  intros H. destruct (get_leaf_means_inv t sf fs m H) as (cs & Er & _ & Ec & Eg & En & Eo & _ & _ & ND & _).
  split; [exact Ec|]. split; [exact Eg|]. split; [exact En|].
  pose proof (opt_all_Forall2 _ _ _ Eo) as F2. split; [symmetry; apply (Forall2_length _ _ _ F2)|].
  intros c g Hc.
  assert (Hin : In c (m_cells m)) by (rewrite Ec; apply zsort_in; exact Hc).
  destruct (gene_to_col_in _ _ Hin) as [i Hi]. destruct (gene_to_col_spec _ _ _ Hi) as [_ Hnth].
  destruct (Forall2_nth_l _ _ _ _ _ F2 Hnth) as (row & Hrow & Hlm).
  rewrite (mat_at_row m c g i row Hi Hrow). unfold leaf_mean_row in Hlm.
  rewrite (raw_stats_assoc sf _ cs Er c) in Hlm. unfold sf_at.
  destruct (zassoc c (sf_c2r sf)) as [idx|]; [|discriminate].
  destruct (raw_entry sf idx) as [[n s]|]; [|discriminate]. injection Hlm as <-.
  unfold lookup. rewrite Eg. destruct (gene_to_col (sf_cols sf) g) as [j|]; [|reflexivity].
  rewrite nth_error_map. destruct (nth_error s j); reflexivity.
Qed.

End Generic.
