(* Lemmas about Model/RefSide.v: the reference side of the mapper reads statistics, taxonomy and marker
   cache BY NAME (C18). *)
From Coq Require Import ZArith List Bool Lia Arith Permutation Sorted.
From CTM Require Import Base.Sx Base.ListX Base.SortX Model.Tree Model.Normalize Model.Markers Model.RefSide.
From CTM Require Import Proofs.NormalizeP Proofs.TreeP Proofs.MarkersP.
Import ListNotations.
Open Scope Z_scope.

(* ------------------------------------------------------------------ generic *)
Lemma opt_all_Forall2 {X Y} (f : X -> option Y) l d :
  opt_all (map f l) = Some d -> Forall2 (fun x y => f x = Some y) l d.
Proof.
  revert d. induction l as [|x t IH]; intros d H; cbn in H.
  - injection H as <-. constructor.
  - destruct (f x) as [y|] eqn:E; [|discriminate].
    destruct (opt_all (map f t)) as [d'|]; [|discriminate]. injection H as <-.
    constructor; [exact E | apply IH; reflexivity].
Qed.

Lemma Forall2_opt_all {X Y} (f : X -> option Y) l d :
  Forall2 (fun x y => f x = Some y) l d -> opt_all (map f l) = Some d.
Proof. induction 1 as [|x y l d H _ IH]; cbn; [reflexivity|]. rewrite H, IH. reflexivity. Qed.

Lemma Forall2_nth_l {X Y} (R : X -> Y -> Prop) l1 l2 i a :
  Forall2 R l1 l2 -> nth_error l1 i = Some a -> exists b, nth_error l2 i = Some b /\ R a b.
Proof.
  intros H. revert i. induction H as [|x y l1 l2 Hxy _ IH]; intros i Hi; [destruct i; discriminate|].
  destruct i as [|i]; cbn in *; [injection Hi as <-; eauto | apply IH; exact Hi].
Qed.

Lemma Forall2_eq_l {X Y} (R : X -> Y -> Prop) l d d' :
  (forall x y y', R x y -> R x y' -> y = y') -> Forall2 R l d -> Forall2 R l d' -> d = d'.
Proof.
  intros F H. revert d'. induction H as [|x y l d Hxy _ IH]; intros d' H'; inversion H'; subst; [reflexivity|].
  f_equal; [eapply F; eassumption | apply IH; assumption].
Qed.

Lemma gene_to_col_nodup l i g : NoDup l -> nth_error l i = Some g -> gene_to_col l g = Some i.
Proof.
  revert i. induction l as [|h t IH]; intros i ND H; [destruct i; discriminate|].
  inversion ND as [|? ? Hn ND']; subst. destruct i as [|i]; cbn in *.
  - injection H as ->. rewrite Z.eqb_refl. reflexivity.
  - destruct (g =? h) eqn:E.
    + apply Z.eqb_eq in E. subst. exfalso. apply Hn. eapply nth_error_In. exact H.
    + rewrite (IH i ND' H). reflexivity.
Qed.

Lemma zlist_eq_spec a b : zlist_eq a b = true <-> a = b.
Proof.
  revert b. induction a as [|x a IH]; intros [|y b]; cbn; try (split; [discriminate | discriminate]); [tauto|].
  rewrite andb_true_iff, Z.eqb_eq, IH. split; [intros [-> ->]; reflexivity | intros H; injection H; auto].
Qed.

(* ------------------------------------------------------------------ matrices read by name *)
Section Generic.
Variable A : Type.
Variable mean : Z -> Z -> A.

Lemma mat_at_row (m : rmat A) c g i row :
  gene_to_col (m_cells m) c = Some i -> nth_error (m_data m) i = Some row ->
  mat_at A m c g = lookup (m_genes m) row g.
Proof.
  intros Hc Hr. unfold mat_at, lookup. rewrite Hc, Hr. destruct (gene_to_col (m_genes m) g); reflexivity.
Qed.

Lemma mat_at_mat_row (m : rmat A) c g :
  mat_at A m c g = match mat_row A m c with Some row => lookup (m_genes m) row g | None => None end.
Proof.
  unfold mat_at, mat_row, lookup. destruct (gene_to_col (m_cells m) c) as [i|]; [|reflexivity].
  destruct (gene_to_col (m_genes m) g); destruct (nth_error (m_data m) i); reflexivity.
Qed.

Lemma make_rmat_inv cells genes data n m :
  make_rmat A cells genes data n = ROk m ->
  m = mk_rmat cells genes data n /\ Forall (fun r => length r = length genes) data /\ NoDup genes /\ NoDup cells.
Proof.
  unfold make_rmat.
  destruct (forallb (fun r => Nat.eqb (length r) (length genes)) data) eqn:E1; cbn [negb]; [|discriminate].
  destruct (znodup_b genes) eqn:E2; cbn [negb]; [|discriminate].
  destruct (znodup_b cells) eqn:E3; cbn [negb]; [|discriminate].
  intros H. injection H as <-. split; [reflexivity|]. split; [|split; apply znodup_b_spec; assumption].
  apply Forall_forall. intros r Hr. rewrite forallb_forall in E1. apply Nat.eqb_eq, E1, Hr.
Qed.

Lemma make_rmat_ok cells genes data n :
  Forall (fun r => length r = length genes) data -> NoDup genes -> NoDup cells ->
  make_rmat A cells genes data n = ROk (mk_rmat cells genes data n).
Proof.
  intros F G C. unfold make_rmat.
  replace (forallb (fun r => Nat.eqb (length r) (length genes)) data) with true.
  - rewrite (proj2 (znodup_b_spec genes) G), (proj2 (znodup_b_spec cells) C). reflexivity.
  - symmetry. apply forallb_forall. intros r Hr. apply Nat.eqb_eq. rewrite Forall_forall in F. apply F, Hr.
Qed.

(* ------------------------------------------------------------------ the statistics file *)
Lemma raw_stats_assoc sf c2r cs : raw_stats sf c2r = Some cs ->
  forall c, zassoc c cs = match zassoc c c2r with Some idx => raw_entry sf idx | None => None end.
Proof.
  revert cs. induction c2r as [|[k idx] r IH]; intros cs H c; cbn in H.
  - injection H as <-. reflexivity.
  - destruct (raw_entry sf idx) as [e|] eqn:E; [|discriminate].
    destruct (raw_stats sf r) as [rest|]; [|discriminate]. injection H as <-. cbn.
    destruct (c =? k); [symmetry; exact E | apply IH; reflexivity].
Qed.

Lemma raw_stats_keys sf c2r cs : raw_stats sf c2r = Some cs -> map fst cs = map fst c2r.
Proof.
  revert cs. induction c2r as [|[k idx] r IH]; intros cs H; cbn in H.
  - injection H as <-. reflexivity.
  - destruct (raw_entry sf idx) as [e|]; [|discriminate].
    destruct (raw_stats sf r) as [rest|]; [|discriminate]. injection H as <-. cbn. f_equal. apply IH. reflexivity.
Qed.

(* what get_leaf_means returns, unfolded *)
Lemma get_leaf_means_inv t sf fs m : get_leaf_means A mean t sf fs = ROk m ->
  exists cs,
    raw_stats sf (sf_c2r sf) = Some cs /\
    agg_all cs (map snd (concat (as_leaves t))) = ROk tt /\
    m_cells m = zsort (nodes (leaf_level t)) /\ m_genes m = sf_cols sf /\ m_norm m = Log2CPM /\
    opt_all (map (leaf_mean_row A mean cs) (m_cells m)) = Some (m_data m) /\
    nodes (leaf_level t) <> [] /\
    Forall (fun r => length r = length (sf_cols sf)) (m_data m) /\ NoDup (sf_cols sf) /\
    sf_basic sf = true /\ (fs = true -> sf_sel sf = true) /\ NoDup (m_cells m).
Proof.
  unfold get_leaf_means.
  destruct (sf_basic sf) eqn:Eb; cbn [negb]; [|discriminate].
  destruct (fs && negb (sf_sel sf)) eqn:Es; [discriminate|].
  destruct (raw_stats sf (sf_c2r sf)) as [cs|] eqn:Er; [|discriminate].
  destruct (agg_all cs (map snd (concat (as_leaves t)))) as [[]|] eqn:Ea; cbn [rbind]; [|discriminate].
  destruct (opt_all (map (leaf_mean_row A mean cs) (zsort (nodes (leaf_level t))))) as [data|] eqn:Eo; [|discriminate].
  destruct (is_nil (zsort (nodes (leaf_level t)))) eqn:En; [discriminate|].
  intros H. apply make_rmat_inv in H. destruct H as (-> & F & G & C). cbn.
  exists cs. split; [reflexivity|]. split; [exact Ea|]. split; [reflexivity|]. split; [reflexivity|].
  split; [reflexivity|]. split; [exact Eo|]. split.
  - intros E0. rewrite E0 in En. discriminate.
  - split; [exact F|]. split; [exact G|]. split; [reflexivity|]. split; [|exact C].
    intros ->. destruct (sf_sel sf); [reflexivity | discriminate].
Qed.

(* audit 3, item 13: a statistics file without any gene is refused (ValueError in aggregate_stats).  An accepted
   file therefore has a non-empty `sum` row at the first leaf of every aggregated population *)
Lemma agg_all_ok_no_zero cs pops : agg_all cs pops = ROk tt ->
  forall l0 rest, In (l0 :: rest) pops -> zero_row cs l0 = false.
Proof.
  induction pops as [|p r IH]; intros H l0 rest Hin; [destruct Hin|].
  cbn [agg_all] in H. destruct (agg_check cs p) as [[]|] eqn:Ec; cbn [rbind] in H; [|discriminate].
  destruct Hin as [->|Hin]; [|exact (IH H l0 rest Hin)].
  unfold agg_check in Ec. destruct (forallb _ (l0 :: rest)); [|discriminate].
  destruct (zero_row cs l0); [discriminate | reflexivity].
Qed.

Theorem leaf_means_accepted_has_genes t sf fs m : get_leaf_means A mean t sf fs = ROk m ->
  exists cs, raw_stats sf (sf_c2r sf) = Some cs /\
    forall l0 rest, In (l0 :: rest) (map snd (concat (as_leaves t))) -> zero_row cs l0 = false.
Proof.
  intros H. destruct (get_leaf_means_inv t sf fs m H) as (cs & Er & Ea & _).
  exists cs. split; [exact Er | exact (agg_all_ok_no_zero cs _ Ea)].
Qed.

(* (1a) the mean of leaf L at gene G is sum(L,G) / max(1, n(L)), both read by name from the file *)
Theorem leaf_means_by_name t sf fs m : get_leaf_means A mean t sf fs = ROk m ->
  m_cells m = zsort (nodes (leaf_level t)) /\ m_genes m = sf_cols sf /\ m_norm m = Log2CPM /\
  length (m_data m) = length (m_cells m) /\
  forall c g, In c (nodes (leaf_level t)) ->
    mat_at A m c g = option_map (fun sn => mean (fst sn) (Z.max 1 (snd sn))) (sf_at sf c g).
Proof.
  intros H. destruct (get_leaf_means_inv t sf fs m H) as (cs & Er & _ & Ec & Eg & En & Eo & _ & _ & ND & _ & _ & _).
  split; [exact Ec|]. split; [exact Eg|]. split; [exact En|].
  pose proof (opt_all_Forall2 _ _ _ Eo) as F2. split; [symmetry; apply (Forall2_length _ _ _ F2)|].
  intros c g Hc.
  assert (Hin : In c (m_cells m)) by (rewrite Ec; apply zsort_in; exact Hc).
  destruct (gene_to_col_in _ _ Hin) as [i Hi]. destruct (gene_to_col_spec _ _ _ Hi) as [_ Hnth].
  destruct (Forall2_nth_l _ _ _ _ _ F2 Hnth) as (row & Hrow & Hlm).
  rewrite (mat_at_row m c g i row Hi Hrow). unfold leaf_mean_row in Hlm.
  rewrite (raw_stats_assoc sf _ cs Er c) in Hlm. unfold sf_at.
  destruct (zassoc c (sf_c2r sf)) as [idx|]; [|discriminate].
  destruct (raw_entry sf idx) as [[n s]|]; [|discriminate]. injection Hlm as <-.
  unfold lookup. rewrite Eg. destruct (gene_to_col (sf_cols sf) g) as [j|]; [|reflexivity].
  rewrite nth_error_map. destruct (nth_error s j); reflexivity.
Qed.

End Generic.

(* ------------------------------------------------------------------ assemble_query_data, reference half *)
Section Assemble.
Variable A : Type.

Lemma take_cols_lookup genes sel idx (row r : list A) :
  idx_array genes sel = Some idx -> take_cols idx row = Some r ->
  Forall2 (fun g v => lookup genes row g = Some v) sel r.
Proof.
  revert idx r. induction sel as [|g t IH]; intros idx r Hi Ht.
  - injection Hi as <-. cbn in Ht. injection Ht as <-. constructor.
  - rewrite idx_array_cons in Hi. destruct (gene_to_col genes g) as [j|] eqn:Ej; [|discriminate].
    destruct (idx_array genes t) as [it|] eqn:Et; [|discriminate]. injection Hi as <-.
    unfold take_cols in Ht. cbn in Ht. destruct (nth_error row j) as [v|] eqn:En; [|discriminate].
    destruct (opt_all (map (nth_error row) it)) as [r'|] eqn:Er; [|discriminate]. injection Ht as <-.
    constructor; [unfold lookup; rewrite Ej; exact En | apply (IH it); [reflexivity | exact Er]].
Qed.

Lemma lookup_rows_eq genes (row : list A) sel r r' :
  Forall2 (fun g v => lookup genes row g = Some v) sel r ->
  Forall2 (fun g v => lookup genes row g = Some v) sel r' -> r = r'.
Proof. apply Forall2_eq_l. intros x y y' H1 H2. congruence. Qed.

(* downsample_cells: the rows of the result are the rows of m NAMED by the selection *)
Lemma downsample_cells_inv (m : rmat A) sel m1 : downsample_cells A m sel = ROk m1 ->
  m_cells m1 = sel /\ m_genes m1 = m_genes m /\ m_norm m1 = m_norm m /\ NoDup sel /\
  Forall2 (fun c row => mat_row A m c = Some row) sel (m_data m1).
Proof.
  unfold downsample_cells.
  destruct (opt_all (map (gene_to_col (m_cells m)) sel)) as [idx|] eqn:Ei; [|discriminate].
  destruct (opt_all (map (nth_error (m_data m)) idx)) as [d|] eqn:Ed; [|discriminate].
  intros H. apply make_rmat_inv in H. destruct H as (-> & _ & _ & ND). cbn.
  repeat (split; [reflexivity || assumption|]).
  apply opt_all_Forall2 in Ei. apply opt_all_Forall2 in Ed.
  clear ND. revert idx d Ei Ed. induction sel as [|c t IH]; intros idx d Ei Ed.
  - inversion Ei; subst. inversion Ed; subst. constructor.
  - inversion Ei as [|? i ? idx' Hc Hi]; subst. inversion Ed as [|? row ? d' Hr Hd]; subst.
    constructor; [unfold mat_row; rewrite Hc; exact Hr | apply (IH idx'); assumption].
Qed.

Lemma downsample_genes_ip_inv (m : rmat A) sel m2 : downsample_genes_ip A m sel = ROk m2 ->
  m_cells m2 = m_cells m /\ m_genes m2 = sel /\ m_norm m2 = m_norm m /\ NoDup sel /\
  Forall2 (fun row r => Forall2 (fun g v => lookup (m_genes m) row g = Some v) sel r) (m_data m) (m_data m2).
Proof.
  unfold downsample_genes_ip, check_downsample.
  destruct (znodup_b sel) eqn:En; cbn [negb]; [|discriminate].
  destruct (idx_array (m_genes m) sel) as [idx|] eqn:Ei; cbn [rbind]; [|discriminate].
  destruct (opt_all (map (take_cols idx) (m_data m))) as [d|] eqn:Ed; [|discriminate].
  intros H. injection H as <-. cbn. repeat (split; [reflexivity|]). split; [apply znodup_b_spec; exact En|].
  apply opt_all_Forall2 in Ed. revert Ed. generalize (m_data m). intros rows Ed.
  induction Ed as [|row r rows d Hr _ IH]; constructor; [|exact IH].
  apply (take_cols_lookup _ _ idx); assumption.
Qed.

Lemma Forall2_compose {X Y W} (P : X -> Y -> Prop) (Q : Y -> W -> Prop) l1 l2 l3 :
  Forall2 P l1 l2 -> Forall2 Q l2 l3 -> Forall2 (fun x w => exists y, P x y /\ Q y w) l1 l3.
Proof.
  intros H. revert l3. induction H as [|x y l1 l2 Hxy _ IH]; intros l3 H'; inversion H'; subst; constructor; eauto.
Qed.

(* the assignments leaf -> child *)
Lemma leaf_assignments_in t cl kids asg : leaf_assignments t cl kids = Some asg ->
  forall l c, In (l, c) asg <-> In c kids /\ In l (leaves_of t cl c).
Proof.
  unfold leaf_assignments. destruct (forallb _ kids); [|discriminate]. intros H. injection H as <-.
  intros l c. rewrite in_flat_map. split.
  - intros (c' & Hc' & Hin). apply in_map_iff in Hin. destruct Hin as (l' & E & Hl'). injection E as -> ->. tauto.
  - intros (Hc & Hl). exists c. split; [exact Hc|]. apply in_map_iff. exists l. tauto.
Qed.

Lemma type_of_leaf_in asg l c : type_of_leaf asg l = Some c -> In (l, c) asg.
Proof. unfold type_of_leaf. intros H. apply zassoc_in in H. apply in_rev. exact H. Qed.

Lemma sorted_keys_spec asg :
  Sorted Z.le (sorted_keys asg) /\ NoDup (sorted_keys asg) /\
  forall l, In l (sorted_keys asg) <-> exists c, In (l, c) asg.
Proof.
  unfold sorted_keys. split; [apply zsort_sorted|]. split; [apply zsort_nodup, NoDup_nodup|].
  intros l. rewrite zsort_in, nodup_In, in_map_iff. split.
  - intros ([l' c] & E & Hin). cbn in E. subst. eauto.
  - intros (c & Hin). exists (l, c). tauto.
Qed.

(* everything a successful call establishes *)
Lemma assemble_inv t groups refg qg qgenes qnorm (m : rmat A) parent a :
  assemble_reference A t groups refg qg qgenes qnorm m parent = ROk a ->
  exists kids asg ri qi,
    immediate_children t parent = ROk kids /\
    leaf_assignments t (child_level_of parent) kids = Some asg /\
    tget parent groups = Some (ri, qi) /\
    names_at qg qi = Some (a_qgenes a) /\ names_at refg ri = Some (m_genes (a_ref a)) /\
    a_qgenes a = m_genes (a_ref a) /\ NoDup (m_genes (a_ref a)) /\ incl (a_qgenes a) qgenes /\
    m_cells (a_ref a) = sorted_keys asg /\
    Forall2 (fun l c => type_of_leaf asg l = Some c) (m_cells (a_ref a)) (a_types a) /\
    m_norm (a_ref a) = Log2CPM /\ m_norm m = Log2CPM /\ qnorm = Log2CPM /\
    Forall2 (fun l r => exists row, mat_row A m l = Some row /\
                          Forall2 (fun g v => lookup (m_genes m) row g = Some v) (m_genes (a_ref a)) r)
            (m_cells (a_ref a)) (m_data (a_ref a)).
Proof.
  unfold assemble_reference.
  destruct (immediate_children t parent) as [kids|] eqn:Ek; cbn [rbind]; [|discriminate].
  destruct (leaf_assignments t (child_level_of parent) kids) as [asg|] eqn:Ea; [|discriminate].
  destruct (tget parent groups) as [[ri qi]|] eqn:Eg; [|discriminate].
  destruct (names_at qg qi) as [qmark|] eqn:Eq; [|discriminate].
  destruct (check_downsample qgenes qmark) as [qidx|] eqn:Ec; cbn [rbind]; [|discriminate].
  destruct (names_at refg ri) as [rmark|] eqn:Er; [|discriminate].
  destruct (downsample_cells A m (sorted_keys asg)) as [m1|] eqn:E1; cbn [rbind]; [|discriminate].
  destruct (downsample_genes_ip A m1 rmark) as [m2|] eqn:E2; cbn [rbind]; [|discriminate].
  destruct (opt_all (map (type_of_leaf asg) (m_cells m2))) as [types|] eqn:Et; [|discriminate].
  destruct (zlist_eq qmark (m_genes m2)) eqn:Ez; cbn [negb]; [|discriminate].
  destruct (is_log2 qnorm) eqn:Eqn; cbn [negb]; [|discriminate].
  destruct (is_log2 (m_norm m2)) eqn:Ern; cbn [negb]; [|discriminate].
  intros H. injection H as <-. cbn [a_ref a_types a_qgenes].
  apply zlist_eq_spec in Ez.
  destruct (downsample_cells_inv m _ m1 E1) as (C1 & G1 & N1 & _ & D1).
  destruct (downsample_genes_ip_inv m1 _ m2 E2) as (C2 & G2 & N2 & ND2 & D2).
  exists kids, asg, ri, qi. split; [reflexivity|]. split; [exact Ea|]. split; [first [reflexivity | exact Eg]|].
  split; [exact Eq|]. split; [rewrite G2; exact Er|]. split; [exact Ez|].
  split; [rewrite G2; exact ND2|]. split.
  - unfold check_downsample in Ec. destruct (znodup_b qmark); cbn [negb] in Ec; [|discriminate].
    destruct (idx_array qgenes qmark) eqn:Ei; [|discriminate].
    intros g Hg. destruct (in_dec Z.eq_dec g qgenes) as [Hi|Hn]; [exact Hi|].
    exfalso. rewrite idx_array_unknown in Ei; [discriminate|]. intros Hincl. apply Hn, Hincl, Hg.
  - split; [rewrite C2, C1; reflexivity|]. split; [apply opt_all_Forall2; exact Et|].
    assert (Hn2 : m_norm m2 = Log2CPM) by (destruct (m_norm m2); [discriminate | reflexivity]).
    split; [exact Hn2|]. split; [rewrite <- N1, <- N2; exact Hn2|].
    split; [destruct qnorm; [discriminate | reflexivity]|].
    rewrite C2, C1, G2. rewrite G1 in D2.
    eapply Forall2_weaken; [|apply (Forall2_compose _ _ _ _ _ D1 D2)].
    intros l r (row & H1 & H2). exists row. tauto.
Qed.

End Assemble.

(* ------------------------------------------------------------------ (2) rows = the parent's leaves, types = the child above *)
Section Rows.
Variable A : Type.

Lemma immediate_children_inv t parent kids : validate t = true ->
  immediate_children t parent = ROk kids ->
  (child_level_of parent < length t)%nat /\ kids = zsort (children t parent) /\
  (forall li x, parent = Some (li, x) -> In x (nodes (nth li t []))).
Proof.
  intros V. destruct (validate_sound t V) as (NE & _). destruct parent as [[li x]|]; cbn.
  - destruct (length t <=? li)%nat eqn:E1; [discriminate|].
    destruct (zmem x (nodes (nth li t []))) eqn:E2; cbn [negb]; [|discriminate].
    destruct (length t <=? S li)%nat eqn:E3; [discriminate|].
    intros H. injection H as <-. apply Nat.leb_gt in E3. split; [exact E3|]. split; [reflexivity|].
    intros li' x' E. injection E as <- <-. apply zmem_in. exact E2.
  - intros H. injection H as <-. split; [destruct t; [congruence | cbn; lia]|]. split; [reflexivity|].
    intros li x E. discriminate.
Qed.

Theorem reference_rows t groups refg qg qgenes qnorm (m : rmat A) parent a :
  validate t = true -> wf t ->
  assemble_reference A t groups refg qg qgenes qnorm m parent = ROk a ->
  (child_level_of parent < length t)%nat /\
  Sorted Z.le (m_cells (a_ref a)) /\ NoDup (m_cells (a_ref a)) /\
  (forall l, In l (m_cells (a_ref a)) <->
     exists c, In c (children t parent) /\
               ancestor_at t (length t - 1) l (child_level_of parent) = Some c) /\
  (forall li x, parent = Some (li, x) ->
     forall l, In l (m_cells (a_ref a)) <-> ancestor_at t (length t - 1) l li = Some x) /\
  (parent = None -> forall l, In l (m_cells (a_ref a)) <-> In l (nodes (leaf_level t))) /\
  length (a_types a) = length (m_cells (a_ref a)) /\
  length (m_data (a_ref a)) = length (m_cells (a_ref a)) /\
  (forall i l, nth_error (m_cells (a_ref a)) i = Some l ->
     exists c, nth_error (a_types a) i = Some c /\ In c (children t parent) /\
               ancestor_at t (length t - 1) l (child_level_of parent) = Some c).
Proof.
  intros V W H.
  destruct (assemble_inv A _ _ _ _ _ _ _ _ _ H)
    as (kids & asg & ri & qi & Ek & Ea & _ & _ & _ & _ & _ & _ & Ec & Ft & _ & _ & _ & Fd).
  destruct (immediate_children_inv t parent kids V Ek) as (Hcl & -> & Hx).
  destruct (sorted_keys_spec asg) as (S1 & S2 & S3).
  pose proof (leaf_assignments_in t _ _ asg Ea) as Hasg.
  assert (Hkey : forall l c, In (l, c) asg <->
            In c (children t parent) /\ ancestor_at t (length t - 1) l (child_level_of parent) = Some c).
  { intros l c. rewrite Hasg, zsort_in. rewrite (leaves_of_ancestor t V W _ c l Hcl). tauto. }
  assert (Hmem : forall l, In l (m_cells (a_ref a)) <->
            exists c, In c (children t parent) /\
                      ancestor_at t (length t - 1) l (child_level_of parent) = Some c).
  { intros l. rewrite Ec, S3. split; intros (c & Hc); exists c; apply Hkey; exact Hc. }
  destruct (leaves_partition_thm t V W) as (P1 & _ & _ & _ & P5 & _).
  split; [exact Hcl|]. split; [rewrite Ec; exact S1|]. split; [rewrite Ec; exact S2|].
  split; [exact Hmem|]. split; [|split; [|split; [|split]]].
  - intros li x -> l. cbn [child_level_of] in *. rewrite Ec, S3.
    rewrite <- (leaves_of_ancestor t V W li x l) by lia.
    split.
    + intros (c & Hc). apply Hasg in Hc. destruct Hc as (Hc & Hl). apply (proj1 (zsort_in _ _)) in Hc. cbn [children] in Hc.
      apply (Permutation_in _ (Permutation_sym (P1 li x Hcl))). apply in_flat_map. exists c. split; [exact Hc | exact Hl].
    + intros Hl. apply (Permutation_in _ (P1 li x Hcl)) in Hl. apply in_flat_map in Hl.
      destruct Hl as (c & Hc & Hl). exists c. apply Hasg. split; [apply zsort_in; exact Hc | exact Hl].
  - intros -> l. cbn [child_level_of children] in *. rewrite Ec, S3.
    assert (E0 : nth 0 t [] = hd [] t) by (destruct t; reflexivity).
    split.
    + intros (c & Hc). apply Hasg in Hc. destruct Hc as (Hc & Hl). apply (proj1 (zsort_in _ _)) in Hc.
      apply (Permutation_in _ (P5 0%nat Hcl)). apply in_flat_map. exists c. rewrite E0. tauto.
    + intros Hl. apply (Permutation_in _ (Permutation_sym (P5 0%nat Hcl))) in Hl. apply in_flat_map in Hl.
      destruct Hl as (c & Hc & Hl). rewrite E0 in Hc. exists c. apply Hasg.
      split; [apply zsort_in; exact Hc | exact Hl].
  - symmetry. apply (Forall2_length _ _ _ Ft).
  - symmetry. apply (Forall2_length _ _ _ Fd).
  - intros i l Hi. destruct (Forall2_nth_l _ _ _ _ _ Ft Hi) as (c & Hc & Ht).
    exists c. split; [exact Hc|]. apply Hkey. apply type_of_leaf_in. exact Ht.
Qed.

(* (3) column j of reference_data is the column of the reference matrix NAMED all_ref_identifiers[reference_markers[j]] *)
Theorem reference_columns t groups refg qg qgenes qnorm (m : rmat A) parent a :
  assemble_reference A t groups refg qg qgenes qnorm m parent = ROk a ->
  exists ri qi, tget parent groups = Some (ri, qi) /\
    names_at refg ri = Some (m_genes (a_ref a)) /\ names_at qg qi = Some (a_qgenes a) /\
    a_qgenes a = m_genes (a_ref a) /\ NoDup (m_genes (a_ref a)) /\
    m_norm (a_ref a) = Log2CPM /\
    forall i j l r, nth_error (m_cells (a_ref a)) i = Some l -> nth_error ri j = Some r ->
      exists g row v, nth_error refg r = Some g /\ nth_error (m_genes (a_ref a)) j = Some g /\
        nth_error (m_data (a_ref a)) i = Some row /\ nth_error row j = Some v /\
        mat_at A m l g = Some v.
Proof.
  intros H.
  destruct (assemble_inv A _ _ _ _ _ _ _ _ _ H)
    as (kids & asg & ri & qi & _ & _ & Eg & Eq & Er & Eqr & ND & _ & _ & _ & En & _ & _ & Fd).
  exists ri, qi. repeat (split; [assumption|]).
  intros i j l r Hi Hj. pose proof (names_at_inv _ _ _ Er) as Fn.
  destruct (Forall2_nth_l _ _ _ _ _ Fn Hj) as (g & Hg & Hr).
  destruct (Forall2_nth_l _ _ _ _ _ Fd Hi) as (row & Hrow & rowm & Hm & Fl).
  destruct (Forall2_nth_l _ _ _ _ _ Fl Hg) as (v & Hv & Hl).
  exists g, row, v. repeat (split; [assumption|]). rewrite mat_at_mat_row, Hm. exact Hl.
Qed.

(* (4) a profile equal to the mean profile of leaf L, by name on the marker genes, IS row index-of-L *)
Theorem centroid_is_a_reference_row t groups refg qg qgenes qnorm (m : rmat A) parent a L (q : list A) :
  validate t = true -> wf t ->
  assemble_reference A t groups refg qg qgenes qnorm m parent = ROk a ->
  In L (m_cells (a_ref a)) ->
  Forall2 (fun g v => mat_at A m L g = Some v) (m_genes (a_ref a)) q ->
  exists i c, nth_error (m_cells (a_ref a)) i = Some L /\ nth_error (m_data (a_ref a)) i = Some q /\
              nth_error (a_types a) i = Some c /\ In c (children t parent) /\
              ancestor_at t (length t - 1) L (child_level_of parent) = Some c.
Proof.
  intros V W H HL Hq.
  destruct (reference_rows t _ _ _ _ _ _ _ _ V W H) as (_ & _ & _ & _ & _ & _ & _ & _ & Ht).
  destruct (assemble_inv A _ _ _ _ _ _ _ _ _ H)
    as (_ & _ & _ & _ & _ & _ & _ & _ & _ & _ & _ & _ & _ & _ & _ & _ & _ & Fd).
  destruct (In_nth_error _ _ HL) as [i Hi].
  destruct (Ht i L Hi) as (c & Hc & Hin & Hanc).
  destruct (Forall2_nth_l _ _ _ _ _ Fd Hi) as (row & Hrow & rowm & Hm & Fl).
  exists i, c. split; [exact Hi|]. split; [|tauto].
  rewrite Hrow. f_equal. apply (lookup_rows_eq A (m_genes m) rowm (m_genes (a_ref a))); [exact Fl|].
  eapply Forall2_weaken; [|exact Hq]. intros g v Hg. cbn beta in Hg. rewrite mat_at_mat_row, Hm in Hg. exact Hg.
Qed.

End Rows.

(* ------------------------------------------------------------------ (1b) independence of the row and column order *)
Lemma index_nat_spec x l i : index_nat x l = Some i -> nth_error l i = Some x.
Proof.
  revert i. induction l as [|h t IH]; intros i H; cbn in H; [discriminate|].
  destruct (Nat.eqb x h) eqn:E.
  - injection H as <-. apply Nat.eqb_eq in E. subst. reflexivity.
  - destruct (index_nat x t) as [k|]; [|discriminate]. injection H as <-. cbn. apply IH. reflexivity.
Qed.
Lemma index_nat_in x l : In x l -> exists i, index_nat x l = Some i.
Proof.
  induction l as [|h t IH]; intros H; [destruct H|]. cbn. destruct (Nat.eqb x h) eqn:E; [eauto|].
  destruct H as [->|H]; [rewrite Nat.eqb_refl in E; discriminate|]. destruct (IH H) as [i Hi]. rewrite Hi. cbn. eauto.
Qed.

Lemma rpick_nth {X} (d : X) p l i k : nth_error p i = Some k -> nth_error (RefSide.pick d p l) i = Some (nth k l d).
Proof. intros H. unfold RefSide.pick. rewrite nth_error_map, H. reflexivity. Qed.
Lemma rpick_length {X} (d : X) p l : length (RefSide.pick d p l) = length p.
Proof. apply map_length. Qed.

Lemma perm_seq_facts p n : Permutation p (seq 0 n) ->
  length p = n /\ NoDup p /\ forall k, In k p <-> (k < n)%nat.
Proof.
  intros H. split; [rewrite (Permutation_length H); apply seq_length|].
  split; [apply (Permutation_NoDup (Permutation_sym H)), seq_NoDup|].
  intros k. split; intros Hk.
  - apply (Permutation_in _ H) in Hk. apply in_seq in Hk. lia.
  - apply (Permutation_in _ (Permutation_sym H)). apply in_seq. lia.
Qed.

Lemma py_index_nat {X} (l : list X) i d : (i < length l)%nat -> py_index l (Z.of_nat i) = Some (nth i l d).
Proof.
  intros H. unfold py_index.
  replace ((0 <=? Z.of_nat i) && (Z.of_nat i <? Z.of_nat (length l))) with true.
  - rewrite Nat2Z.id. apply nth_error_nth'. exact H.
  - symmetry. apply andb_true_iff. split; [apply Z.leb_le; lia | apply Z.ltb_lt; lia].
Qed.

Lemma zassoc_map_snd {X Y} (f : X -> Y) c (l : list (Z * X)) :
  zassoc c (map (fun kv => (fst kv, f (snd kv))) l) = option_map f (zassoc c l).
Proof. induction l as [|[k v] t IH]; cbn; [reflexivity|]. destruct (c =? k); [reflexivity | exact IH]. Qed.

Lemma rpick_nodup p (cols : list Z) : NoDup cols -> Permutation p (seq 0 (length cols)) -> NoDup (RefSide.pick 0 p cols).
Proof.
  intros ND HP. destruct (perm_seq_facts _ _ HP) as (_ & NDp & Hin). unfold RefSide.pick.
  apply NoDup_map_in_inj; [exact NDp|]. intros x y Hx Hy E.
  apply (proj1 (NoDup_nth cols 0) ND); [apply Hin; exact Hx | apply Hin; exact Hy | exact E].
Qed.

Lemma rpick_in p (cols : list Z) g : Permutation p (seq 0 (length cols)) -> (In g (RefSide.pick 0 p cols) <-> In g cols).
Proof.
  intros HP. destruct (perm_seq_facts _ _ HP) as (_ & _ & Hin). unfold RefSide.pick. rewrite in_map_iff. split.
  - intros (k & <- & Hk). apply nth_In, Hin, Hk.
  - intros Hg. destruct (In_nth _ _ 0 Hg) as (k & Hk & E). exists k. split; [exact E | apply Hin; exact Hk].
Qed.

(* the row of cluster c, before and after *)
Lemma raw_entry_rearrange rp cp sf idx : sf_wf sf ->
  Permutation rp (seq 0 (length (sf_n sf))) -> 0 <= idx < Z.of_nat (length (sf_n sf)) ->
  exists n s, raw_entry sf idx = Some (n, s) /\ length s = length (sf_cols sf) /\
              raw_entry (rearrange rp cp sf) (move_row rp idx) = Some (n, RefSide.pick 0 cp s).
Proof.
  intros (Wl & Wr & _ & _) HP Hidx. destruct (perm_seq_facts _ _ HP) as (Lp & _ & Hin).
  set (k := Z.to_nat idx). assert (Hk : (k < length (sf_n sf))%nat) by (unfold k; lia).
  destruct (index_nat_in k rp (proj2 (Hin k) Hk)) as [i Hi]. pose proof (index_nat_spec _ _ _ Hi) as Hnth.
  assert (Hil : (i < length rp)%nat) by (apply nth_error_Some; rewrite Hnth; discriminate).
  exists (nth k (sf_n sf) 0), (nth k (sf_sum sf) []).
  assert (E1 : raw_entry sf idx = Some (nth k (sf_n sf) 0, nth k (sf_sum sf) [])).
  { unfold raw_entry. replace idx with (Z.of_nat k) by (unfold k; lia).
    rewrite (py_index_nat (sf_n sf) k 0 Hk), (py_index_nat (sf_sum sf) k []) by lia. reflexivity. }
  split; [exact E1|]. split.
  - rewrite Forall_forall in Wr. apply Wr. apply nth_In. lia.
  - unfold move_row. fold k. rewrite Hi. unfold raw_entry, rearrange. cbn [sf_n sf_sum].
    rewrite (py_index_nat (RefSide.pick 0 rp (sf_n sf)) i 0) by (rewrite rpick_length; exact Hil).
    rewrite (py_index_nat (map (RefSide.pick 0 cp) (RefSide.pick [] rp (sf_sum sf))) i [])
      by (rewrite map_length, rpick_length; exact Hil).
    rewrite (nth_error_nth _ _ _ (rpick_nth 0 rp (sf_n sf) i k Hnth)).
    assert (E2 : nth_error (map (RefSide.pick 0 cp) (RefSide.pick [] rp (sf_sum sf))) i = Some (RefSide.pick 0 cp (nth k (sf_sum sf) []))).
    { rewrite nth_error_map, (rpick_nth [] rp (sf_sum sf) i k Hnth). reflexivity. }
    rewrite (nth_error_nth _ _ _ E2). reflexivity.
Qed.

Theorem sf_at_rearrange rp cp sf : sf_wf sf -> NoDup (sf_cols sf) ->
  Permutation rp (seq 0 (length (sf_n sf))) -> Permutation cp (seq 0 (length (sf_cols sf))) ->
  forall c g, sf_at (rearrange rp cp sf) c g = sf_at sf c g.
Proof.
  intros Wf ND HR HC c g. pose proof Wf as (_ & _ & _ & Wi). unfold sf_at.
  cbn [rearrange sf_c2r]. rewrite (zassoc_map_snd (move_row rp) c (sf_c2r sf)).
  destruct (zassoc c (sf_c2r sf)) as [idx|] eqn:Ez; cbn [option_map]; [|reflexivity].
  assert (Hidx : 0 <= idx < Z.of_nat (length (sf_n sf))).
  { apply zassoc_in in Ez. rewrite Forall_forall in Wi. apply (Wi (c, idx) Ez). }
  destruct (raw_entry_rearrange rp cp sf idx Wf HR Hidx) as (n & s & E1 & Ls & E2).
  rewrite E1, E2. destruct (perm_seq_facts _ _ HC) as (Lc & _ & Hin).
  change (sf_cols (rearrange rp cp sf)) with (RefSide.pick 0 cp (sf_cols sf)).
  destruct (gene_to_col (sf_cols sf) g) as [j|] eqn:Eg.
  - destruct (gene_to_col_spec _ _ _ Eg) as [Hj Hnth].
    destruct (In_nth_error _ _ (proj2 (Hin j) Hj)) as [j' Hj'].
    assert (E3 : nth_error (RefSide.pick 0 cp (sf_cols sf)) j' = Some g).
    { rewrite (rpick_nth 0 cp (sf_cols sf) j' j Hj'). f_equal. apply nth_error_nth. exact Hnth. }
    rewrite (gene_to_col_nodup _ _ _ (rpick_nodup cp _ ND HC) E3).
    rewrite (rpick_nth 0 cp s j' j Hj'). rewrite (nth_error_nth' s 0) by lia. reflexivity.
  - replace (gene_to_col (RefSide.pick 0 cp (sf_cols sf)) g) with (@None nat); [reflexivity|].
    symmetry. apply gene_to_col_none. rewrite (rpick_in cp _ g HC). apply gene_to_col_none. exact Eg.
Qed.

Lemma map_nth_seq0 {X} (l : list X) d : map (fun i => nth i l d) (seq 0 (length l)) = l.
Proof.
  induction l as [|x t IH]; [reflexivity|]. cbn [length seq map nth]. f_equal.
  rewrite <- seq_shift, map_map. exact IH.
Qed.

Section Rearranged.
Variable A : Type.
Variable mean : Z -> Z -> A.

Lemma raw_stats_rearrange rp cp sf : sf_wf sf -> Permutation rp (seq 0 (length (sf_n sf))) ->
  forall c2r cs, Forall (fun kv => 0 <= snd kv < Z.of_nat (length (sf_n sf))) c2r ->
    raw_stats sf c2r = Some cs ->
    raw_stats (rearrange rp cp sf) (map (fun kv => (fst kv, move_row rp (snd kv))) c2r) =
    Some (map (fun ke => (fst ke, (fst (snd ke), RefSide.pick 0 cp (snd (snd ke))))) cs).
Proof.
  intros Wf HR. induction c2r as [|[k idx] r IH]; intros cs F H; cbn in H.
  - injection H as <-. reflexivity.
  - inversion F as [|? ? Hidx F']; subst. cbn [snd] in Hidx.
    destruct (raw_entry_rearrange rp cp sf idx Wf HR Hidx) as (n & s & E1 & _ & E2).
    rewrite E1 in H. destruct (raw_stats sf r) as [rest|] eqn:Er; [|discriminate]. injection H as <-.
    cbn [map raw_stats fst snd]. rewrite E2, (IH rest F' eq_refl). reflexivity.
Qed.

Lemma agg_all_keys cs cs' pops : (forall l, is_some (zassoc l cs') = is_some (zassoc l cs)) ->
  (forall l, zero_row cs' l = zero_row cs l) ->
  agg_all cs' pops = agg_all cs pops.
Proof.
  intros H HZ. induction pops as [|p r IH]; [reflexivity|]. cbn. rewrite IH.
  replace (agg_check cs' p) with (agg_check cs p); [reflexivity|].
  unfold agg_check. destruct p as [|x p]; [reflexivity|]. rewrite HZ.
  replace (forallb (fun l => is_some (zassoc l cs')) (x :: p)) with (forallb (fun l => is_some (zassoc l cs)) (x :: p));
    [reflexivity|]. generalize (x :: p). intros q. induction q as [|y q IHq]; [reflexivity|].
  cbn. rewrite IHq, H. reflexivity.
Qed.

(* the rows read from a rectangular `sum` have one entry per column name *)
Lemma py_index_In {X} (l : list X) i x : py_index l i = Some x -> In x l.
Proof.
  unfold py_index. intros H.
  destruct ((0 <=? i) && (i <? Z.of_nat (length l))); [exact (nth_error_In _ _ H)|].
  destruct ((- Z.of_nat (length l) <=? i) && (i <? 0)); [exact (nth_error_In _ _ H) | discriminate].
Qed.

Lemma raw_stats_rows sf c2r cs :
  Forall (fun r => length r = length (sf_cols sf)) (sf_sum sf) ->
  raw_stats sf c2r = Some cs ->
  Forall (fun ke => length (snd (snd ke)) = length (sf_cols sf)) cs.
Proof.
  intros F. revert cs. induction c2r as [|[k idx] r IH]; intros cs H; cbn in H.
  - injection H as <-. constructor.
  - destruct (raw_entry sf idx) as [[n0 s0]|] eqn:E; [|discriminate].
    destruct (raw_stats sf r) as [rest|]; [|discriminate]. injection H as <-.
    constructor; [|apply IH; reflexivity]. cbn [snd].
    unfold raw_entry in E. destruct (py_index (sf_n sf) idx); [|discriminate].
    destruct (py_index (sf_sum sf) idx) as [s1|] eqn:E1; [|discriminate]. injection E as _ <-.
    exact (proj1 (Forall_forall _ _) F _ (py_index_In _ _ _ E1)).
Qed.

(* (1) a statistics file and its row/column rearrangement are accepted alike and give the same leaf means BY NAME *)
Theorem leaf_means_order_independent rp cp t sf fs m : sf_wf sf ->
  Permutation rp (seq 0 (length (sf_n sf))) -> Permutation cp (seq 0 (length (sf_cols sf))) ->
  get_leaf_means A mean t sf fs = ROk m ->
  exists m', get_leaf_means A mean t (rearrange rp cp sf) fs = ROk m' /\
    m_cells m' = m_cells m /\ Permutation (m_genes m') (m_genes m) /\
    forall c g, In c (nodes (leaf_level t)) ->
      mat_at A m' c g = mat_at A m c g /\
      mat_at A m c g = option_map (fun sn => mean (fst sn) (Z.max 1 (snd sn))) (sf_at sf c g).
Proof.
  intros Wf HR HC H.
  destruct (get_leaf_means_inv A mean t sf fs m H) as (cs & Er & Ea & Ec & Eg & En & Eo & NE & Fl & ND & Eb & Es & NDc).
  pose proof Wf as (_ & Wrect & _ & Wi).
  pose proof (raw_stats_rows sf _ cs Wrect Er) as Rows.
  pose proof (raw_stats_rearrange rp cp sf Wf HR _ cs Wi Er) as Er'.
  set (cs' := map (fun ke => (fst ke, (fst (snd ke), RefSide.pick 0 cp (snd (snd ke))))) cs) in *.
  assert (Hz : forall l, zassoc l cs' = option_map (fun e => (fst e, RefSide.pick 0 cp (snd e))) (zassoc l cs)).
  { intros l. unfold cs'. apply (zassoc_map_snd (fun e => (fst e, RefSide.pick 0 cp (snd e)))). }
  destruct (perm_seq_facts _ _ HC) as (Lc & _ & _).
  assert (Hrows : exists data', opt_all (map (leaf_mean_row A mean cs') (m_cells m)) = Some data' /\
                                Forall (fun r => length r = length cp) data').
  { apply opt_all_Forall2 in Eo. clear - Eo Hz. induction Eo as [|l row ls d Hl _ (data' & E' & F')].
    - exists []. split; [reflexivity | constructor].
    - unfold leaf_mean_row in Hl. destruct (zassoc l cs) as [[n s]|] eqn:Ez; [|discriminate].
      exists (map (fun x => mean x (Z.max 1 n)) (RefSide.pick 0 cp s) :: data'). split.
      + cbn. unfold leaf_mean_row at 1. rewrite Hz, Ez. cbn. rewrite E'. reflexivity.
      + constructor; [rewrite map_length; apply rpick_length | exact F']. }
  destruct Hrows as (data' & Eo' & Fl').
  assert (Hm' : get_leaf_means A mean t (rearrange rp cp sf) fs =
                ROk (mk_rmat (m_cells m) (RefSide.pick 0 cp (sf_cols sf)) data' Log2CPM)).
  { unfold get_leaf_means. cbn [rearrange sf_basic sf_sel sf_c2r sf_cols]. rewrite Eb. cbn [negb].
    replace (fs && negb (sf_sel sf)) with false by (destruct fs; [rewrite (Es eq_refl)|]; reflexivity).
    fold (rearrange rp cp sf). rewrite Er'.
    rewrite (agg_all_keys cs cs').
    2:{ intros l; rewrite Hz; destruct (zassoc l cs); reflexivity. }
    2:{ intros l. unfold zero_row. rewrite Hz. destruct (zassoc l cs) as [[n0 s0]|] eqn:Ez; [|reflexivity].
        cbn [option_map fst snd].
        pose proof (proj1 (Forall_forall _ _) Rows _ (zassoc_in _ _ _ Ez)) as Hlen. cbn [snd] in Hlen.
        pose proof (rpick_length 0 cp s0) as Hp. rewrite Lc, <- Hlen in Hp.
        destruct (RefSide.pick 0 cp s0), s0; cbn in Hp; try reflexivity; discriminate Hp. }
    rewrite Ea. cbn [rbind]. rewrite <- Ec, Eo'.
    assert (Hnn : is_nil (m_cells m) = false).
    { destruct (m_cells m) as [|x0 r0] eqn:E0; [|reflexivity]. exfalso. apply NE.
      apply Permutation_nil. pose proof (zsort_perm (nodes (leaf_level t))) as HP0. rewrite <- Ec in HP0. exact HP0. }
    rewrite Hnn.
    apply make_rmat_ok; [|apply rpick_nodup; assumption | exact NDc].
    eapply Forall_impl; [|exact Fl']. intros r Hr. cbn beta in Hr. rewrite Hr, rpick_length. reflexivity. }
  eexists. split; [exact Hm'|]. cbn [m_cells m_genes]. split; [reflexivity|]. split.
  - rewrite Eg. unfold RefSide.pick.
    eapply Permutation_trans; [apply Permutation_map; exact HC|]. rewrite map_nth_seq0. reflexivity.
  - intros c g Hc.
    destruct (leaf_means_by_name A mean t sf fs m H) as (_ & _ & _ & _ & B1).
    destruct (leaf_means_by_name A mean t _ fs _ Hm') as (_ & _ & _ & _ & B2).
    rewrite (B2 c g Hc), (B1 c g Hc), (sf_at_rearrange rp cp sf Wf ND HR HC). split; reflexivity.
Qed.

End Rearranged.

(* ------------------------------------------------------------------ (3') with a cache written by write_query_markers *)
Theorem columns_aligned (A : Type) tb t refg qg c qgenes qnorm (m : rmat A) parent a :
  write_query_markers tb refg qg = MOk c ->
  assemble_reference A t (c_groups c) refg qg qgenes qnorm m parent = ROk a ->
  exists ri qi l, tget parent (c_groups c) = Some (ri, qi) /\
    In (parent, l) tb /\ Permutation l (m_genes (a_ref a)) /\ a_qgenes a = m_genes (a_ref a) /\
    forall j r s, nth_error ri j = Some r -> nth_error qi j = Some s ->
      exists g, nth_error (m_genes (a_ref a)) j = Some g /\ nth_error (a_qgenes a) j = Some g /\
                nth_error refg r = Some g /\ nth_error qg s = Some g.
Proof.
  intros Wq H.
  destruct (assemble_inv A _ _ _ _ _ _ _ _ _ H)
    as (kids & asg & ri & qi & _ & _ & Eg & Eq & Er & Eqr & _).
  destruct (pairing_by_name tb refg qg c parent ri qi Wq (tget_In _ _ _ Eg)) as (l & names & Hin & HP & _ & Nr & Nq).
  assert (names = m_genes (a_ref a)) by congruence. subst names.
  exists ri, qi, l. repeat (split; [assumption|]).
  intros j r s Hr Hs. destruct (names_at_columns refg qg ri qi _ j r s Nr Nq Hr Hs) as (g & G1 & G2 & G3).
  exists g. rewrite Eqr. tauto.
Qed.
