(* C03 at the level of run_type_assignment (any decision procedure): the aggregate
   probability of every row is the running product of its per-level probabilities, and a
   level below a single-child parent carries probability 1, no runners-up and the
   correlation of the level above (1 at the top). *)
From Coq Require Import ZArith List Bool Lia Arith Permutation.
From CTM Require Import Base.Sx Base.ListX Base.SortX Model.Tree Model.Election
     Proofs.ElectionWBP Proofs.ElectionP Proofs.ConfidenceP.
Import ListNotations.
Open Scope Z_scope.

Lemma combine_const {A B} (idx : list A) (x : B) i r :
  In (i, r) (combine idx (map (fun _ => x) idx)) -> r = x.
Proof.
  induction idx as [|j t IH]; intros H; [destruct H|]. cbn in H. destruct H as [H | H]; [congruence | auto].
Qed.

Lemma nth_error_S' {A} (x : A) l n : nth_error (x :: l) (S n) = nth_error l n.
Proof. reflexivity. Qed.
Lemma nth_error_O' {A} (x : A) l : nth_error (x :: l) 0 = Some x.
Proof. reflexivity. Qed.

Section Shape.
Variable cell rng : Type.
Variable decide : rng -> option (nat * node) -> list node -> list cell -> list rec * rng.
Hypothesis decide_kids : forall g p kids cs, (2 <= length kids)%nat ->
  Forall (fun r => In (asg r) kids) (fst (decide g p kids cs)).

Notation visit := (visit cell rng decide).
Notation do_level := (do_level cell rng decide).
Notation levels_from := (levels_from cell rng decide).

Lemma visit_single cells li parent only idx g res pa st' :
  idx <> [] ->
  visit cells li parent [only] idx (g, res, pa) = Ok st' ->
  st' = (g, write_back res li idx (map (fun _ => trivial_rec only) idx),
         regroup idx (map (fun _ => trivial_rec only) idx) ++ pa).
Proof.
  intros Hne H. unfold Election.visit in H. destruct idx as [|i0 idx']; [congruence|].
  injection H as <-. reflexivity.
Qed.

(* ---------------- aggregate probability ---------------- *)
Theorem rta_aggregate t cells g rows g' :
  run_type_assignment cell rng decide t cells g = Ok (rows, g') ->
  Forall (fun row => map agg row = products one (map prob row)) rows.
Proof.
  intros H. unfold run_type_assignment in H.
  destruct (levels_from t cells 0 (length t) (g, empty_table cell t cells, [])) as [[[g1 res] pa]| | |]; try discriminate.
  match type of H with context [map_outcome ?f res] => destruct (map_outcome f res) as [rows'| | |] eqn:Em end;
    try discriminate.
  injection H as <- _. apply map_outcome_spec in Em.
  apply Forall_forall. intros row Hrow. apply In_nth_error in Hrow. destruct Hrow as (i & Hi).
  destruct (nth_error res i) as [orow|] eqn:Eo.
  - pose proof (Forall2_nth_error _ _ _ _ _ _ Em Eo Hi) as Hf. cbn beta in Hf.
    destruct (inherit None orow) as [rs| | |]; try discriminate. injection Hf as <-.
    rewrite (proj1 (proj2 (running_keeps one rs))). apply running_is_product.
  - exfalso. apply nth_error_None in Eo. rewrite (Forall2_length _ _ _ Em) in Eo.
    assert (i < length rows')%nat by (apply nth_error_Some; congruence). lia.
Qed.

(* ---------------- single-child parents: the table ---------------- *)
Section LevelS.
Variable t : tree.
Variable cells : list cell.
Hypothesis Ht : tree_ok t.
Variable pli : nat.
Hypothesis Hpli : (S pli < length t)%nat.
Variable res0 : table.
Variable pa_prev : pa_t.
Hypothesis Hprev : forall x i, In i (lookup_pa pa_prev x) <->
    ((i < length cells)%nat /\ exists r, cellrec res0 i pli = Some r /\ asg r = x).
Hypothesis Hprev_nodup : forall x, NoDup (lookup_pa pa_prev x).

Definition SJ (P : list node) (st : state rng) : Prop :=
  let '(_, res, _) := st in
  forall i r0 only, (i < length cells)%nat -> cellrec res0 i pli = Some r0 -> In (asg r0) P ->
    children_of (nth pli t []) (asg r0) = [only] ->
    cellrec res i (S pli) = Some (trivial_rec only).

Lemma wb_other_row res li idx rs i k : ~ In i idx -> cellrec (write_back res li idx rs) i k = cellrec res i k.
Proof.
  intros Hn. rewrite write_back_unfold. apply fold_wb_other_row.
  intros Hin. apply in_map_iff in Hin. destruct Hin as ([i' r'] & E' & Hin). cbn in E'; subst i'.
  apply in_combine_l in Hin. contradiction.
Qed.

Lemma SJ_step P st x st' :
  ~ In x P ->
  J cell rng t cells pli res0 P st -> SJ P st ->
  visit cells (S pli) (Some (pli, x)) (children_of (nth pli t []) x) (lookup_pa pa_prev x) st = Ok st' ->
  SJ (x :: P) st'.
Proof.
  destruct st as [[g res] pa]. intros HxP (Hsh & _ & _ & _ & _) HV Hv.
  pose proof (idx_in_range cell cells pli res0 pa_prev Hprev x) as Hrange.
  pose proof (Hprev_nodup x) as NDidx.
  assert (Hidx_spec : forall i, In i (lookup_pa pa_prev x) <->
            ((i < length cells)%nat /\ exists r, cellrec res0 i pli = Some r /\ asg r = x))
    by (intros i; apply Hprev).
  remember (lookup_pa pa_prev x) as idx eqn:Hidx_def.
  assert (Hother : forall i r0, cellrec res0 i pli = Some r0 -> asg r0 <> x -> ~ In i idx).
  { intros i r0 Hr0 NE Hin. apply Hidx_spec in Hin. destruct Hin as (_ & r1 & Hr1 & Ha). congruence. }
  destruct idx as [|i0 idx'] eqn:Eidx.
  - cbn in Hv. injection Hv as <-. unfold SJ. intros i r0 only Hi Hr0 [E | Hin] Hone; [|eapply HV; eauto].
    exfalso. assert (Hii : In i []) by (apply Hidx_spec; eauto). destruct Hii.
  - rewrite <- Eidx in *. assert (Hne : idx <> []) by (rewrite Eidx; discriminate).
    destruct (children_of (nth pli t []) x) as [|k0 [|k1 kids'']] eqn:Ek.
    + (* no child: the visit fails *)
      unfold Election.visit in Hv. rewrite Eidx in Hv. discriminate.
    + (* single child k0 *)
      rewrite (visit_single _ _ _ _ _ _ _ _ _ Hne Hv).
      unfold SJ. intros i r0 only Hi Hr0 HP Hone.
      destruct (Z.eq_dec (asg r0) x) as [E | NE].
      * rewrite E, Ek in Hone. injection Hone as <-.
        assert (Hii : In i idx) by (apply Hidx_spec; eauto).
        set (rs := map (fun _ : nat => trivial_rec k0) idx).
        assert (Hlen : length rs = length idx) by (unfold rs; apply map_length).
        destruct (combine_in_fst idx rs i (eq_sym Hlen) Hii) as (r & Hr).
        destruct Hsh as [Hs1 Hs2].
        rewrite write_back_unfold, (fold_wb_hit (S pli) (combine idx rs) res i r).
        -- f_equal. eapply combine_const. exact Hr.
        -- apply combine_fst_nodup. exact NDidx.
        -- exact Hr.
        -- lia.
        -- rewrite Hs2 by exact Hi. exact Hpli.
      * destruct HP as [E | HP]; [congruence|].
        rewrite wb_other_row by (eapply Hother; eauto). eapply HV; eauto.
    + (* two or more children: only cells elsewhere are concerned *)
      destruct (visit_spec cell rng decide decide_kids _ _ _ _ _ _ _ _ _ Hrange Hv)
        as [[Hnil _] | (_ & _ & rs & g' & _ & _ & ->)]; [congruence|].
      unfold SJ. intros i r0 only Hi Hr0 HP Hone.
      destruct (Z.eq_dec (asg r0) x) as [E | NE].
      * rewrite E, Ek in Hone. discriminate.
      * destruct HP as [E | HP]; [congruence|].
        rewrite wb_other_row by (eapply Hother; eauto). eapply HV; eauto.
Qed.

Lemma SJ_fold xs P st st' :
  NoDup xs -> (forall x, In x xs -> ~ In x P) ->
  J cell rng t cells pli res0 P st -> SJ P st ->
  fold_outcome (fun st'' x => visit cells (S pli) (Some (pli, x)) (children_of (nth pli t []) x) (lookup_pa pa_prev x) st'')
               xs st = Ok st' ->
  SJ (rev xs ++ P) st'.
Proof.
  revert P st. induction xs as [|x xs IH]; intros P st ND Hdis HJ HV Hf; cbn in Hf.
  - inversion Hf; subst. exact HV.
  - destruct (visit cells (S pli) (Some (pli, x)) (children_of (nth pli t []) x) (lookup_pa pa_prev x) st) as [st1| | |] eqn:Ev;
      try discriminate.
    inversion ND; subst.
    cbn [rev]. rewrite <- app_assoc. cbn [app].
    apply (IH (x :: P) st1); auto.
    + intros y Hy [E | Hin]; [subst; contradiction | eapply Hdis; [right; exact Hy | exact Hin]].
    + eapply (J_step cell rng decide decide_kids); eauto. apply Hdis. left; reflexivity.
    + eapply SJ_step; eauto. apply Hdis. left; reflexivity.
Qed.
End LevelS.

(* ---------------- all levels ---------------- *)
Section LevelsS.
Variable t : tree.
Variable cells : list cell.
Hypothesis Ht : tree_ok t.

Definition SInv (li : nat) (st : state rng) : Prop :=
  let '(_, res, _) := st in
  (forall i only, (i < length cells)%nat -> (0 < li)%nat -> nodes (hd [] t) = [only] ->
     cellrec res i 0 = Some (trivial_rec only)) /\
  (forall i k r0 only, (i < length cells)%nat -> (S k < li)%nat -> cellrec res i k = Some r0 ->
     children_of (nth k t []) (asg r0) = [only] -> cellrec res i (S k) = Some (trivial_rec only)).

Lemma SInv_level li st st' :
  Inv cell rng t cells li st -> SInv li st -> (li < length t)%nat ->
  do_level t cells li st = Ok st' -> SInv (S li) st'.
Proof.
  destruct st as [[g res] pa]. destruct li as [|pli]; intros HI HV HL Hd.
  - (* root *)
    destruct HI as (Hsh & _ & _ & _). unfold Election.do_level in Hd.
    unfold SInv. destruct st' as [[g' res'] pa']. split; [|intros; lia].
    intros i only Hi _ Hone. rewrite Hone in Hd.
    assert (Hne : seq 0 (length cells) <> []) by (destruct (length cells); [lia | discriminate]).
    pose proof (visit_single _ _ _ _ _ _ _ _ _ Hne Hd) as E. injection E as _ -> _.
    set (idx := seq 0 (length cells)).
    set (rs := map (fun _ : nat => trivial_rec only) idx).
    assert (Hlen : length rs = length idx) by (unfold rs; apply map_length).
    assert (Hii : In i idx) by (apply in_seq; lia).
    destruct (combine_in_fst idx rs i (eq_sym Hlen) Hii) as (r & Hr).
    destruct Hsh as [Hs1 Hs2].
    rewrite write_back_unfold, (fold_wb_hit 0 (combine idx rs) res i r).
    + f_equal. eapply combine_const. exact Hr.
    + apply combine_fst_nodup. apply seq_NoDup.
    + exact Hr.
    + lia.
    + rewrite Hs2 by exact Hi. exact HL.
  - (* below *)
    pose proof HI as (Hsh & HB & HC & HD). destruct (HD ltac:(lia)) as [HD1 HD2].
    replace (S pli - 1)%nat with pli in HD1 by lia.
    unfold Election.do_level in Hd.
    set (lv := nth pli t []) in *.
    assert (HJ0 : J cell rng t cells pli res [] (g, res, [])).
    { unfold J. split; [exact Hsh|]. split; [reflexivity|]. split; [intros ? ? ? ? []|].
      split; [|intros x; constructor].
      intros x i. cbn. split; [tauto|]. intros (_ & r0 & r & _ & [] & _). }
    assert (HS0 : SJ t cells pli res [] (g, res, [])) by (unfold SJ; intros ? ? ? ? ? []).
    assert (ND : NoDup (zsort (nodes lv))) by (apply zsort_nodup; apply (tk_nodup t Ht pli)).
    assert (HJ : J cell rng t cells pli res (rev (zsort (nodes lv)) ++ []) st').
    { eapply (J_fold cell rng decide decide_kids) with (pa_prev := pa) (st := (g, res, [])); eauto. }
    assert (HSJ : SJ t cells pli res (rev (zsort (nodes lv)) ++ []) st').
    { eapply SJ_fold with (pa_prev := pa) (st := (g, res, [])); eauto. }
    rewrite app_nil_r in HJ, HSJ. destruct st' as [[g' res'] pa'].
    destruct HJ as (_ & Hcol & _ & _ & _). destruct HV as [HV1 HV2].
    unfold SInv. split.
    + intros i only Hi _ Hone. rewrite Hcol by lia. apply HV1; [exact Hi | lia | exact Hone].
    + intros i k r0 only Hi Hk Hr0 Hone.
      destruct (Nat.eq_dec k pli) as [-> | NE].
      * rewrite Hcol in Hr0 by lia.
        destruct (HB i pli Hi ltac:(lia)) as (r1 & Hr1 & Hn1). rewrite Hr0 in Hr1. injection Hr1 as <-.
        apply (HSJ i r0 only Hi Hr0); [|exact Hone].
        apply in_rev. rewrite rev_involutive. apply zsort_in. exact Hn1.
      * rewrite Hcol in Hr0 by lia. rewrite Hcol by lia. eapply HV2; eauto. lia.
Qed.

Lemma SInv_levels n_left li st st' :
  Inv cell rng t cells li st -> SInv li st -> (li + n_left = length t)%nat ->
  levels_from t cells li n_left st = Ok st' -> SInv (length t) st'.
Proof.
  revert li st. induction n_left as [|k IH]; intros li st HI HV HL H; cbn in H.
  - inversion H; subst. replace (length t) with li by lia. exact HV.
  - destruct (do_level t cells li st) as [st1| | |] eqn:Ed; try discriminate.
    apply (IH (S li) st1); [| |lia|exact H].
    + eapply (Inv_level cell rng decide decide_kids); eauto. lia.
    + eapply SInv_level; eauto. lia.
Qed.
End LevelsS.

(* ---------------- the two trailing passes, position by position ---------------- *)
Lemma running_nth acc rs k r :
  nth_error (running acc rs) k = Some r ->
  exists r', nth_error rs k = Some r' /\ asg r = asg r' /\ prob r = prob r' /\ corr r = corr r' /\ runners r = runners r'.
Proof.
  revert acc k. induction rs as [|x t IH]; intros acc [|k] H; cbn in H; try discriminate.
  - injection H as <-. exists x. cbn. auto.
  - apply IH in H. exact H.
Qed.

Lemma inherit_nth above row rs k r0 :
  inherit above row = Ok rs -> nth_error row k = Some (Some r0) ->
  exists r, nth_error rs k = Some r /\ asg r = asg r0 /\ prob r = prob r0 /\ runners r = runners r0 /\
            (forall c, corr r0 = Some c -> corr r = Some c) /\
            (k = 0%nat -> corr r0 = None -> corr r = Some (match above with Some a => a | None => one end)).
Proof.
  revert above rs k. induction row as [|o row IH]; intros above rs k H Hk; [destruct k; discriminate|].
  cbn in H. destruct o as [x|]; [|discriminate].
  destruct (inherit _ row) as [t'| | |] eqn:E; try discriminate. injection H as <-.
  destruct k as [|k].
  - cbn in Hk. injection Hk as ->. eexists. split; [reflexivity|]. cbn.
    repeat split; auto.
    + intros c Hc. rewrite Hc. reflexivity.
    + intros _ Hn. rewrite Hn. reflexivity.
  - cbn in Hk. destruct (IH _ _ _ E Hk) as (r & H1 & H2 & H3 & H4 & H5 & _).
    exists r. cbn [nth_error]. repeat split; auto. intros; lia.
Qed.

Lemma inherit_prev above row rs k a b b0 :
  inherit above row = Ok rs -> nth_error row (S k) = Some (Some b0) -> corr b0 = None ->
  nth_error rs k = Some a -> nth_error rs (S k) = Some b -> corr b = corr a.
Proof.
  revert above rs k a b. induction row as [|o row IH]; intros above rs k a b H Hb0 Hn Ha Hb; [discriminate|].
  cbn in H. destruct o as [x|]; [|discriminate].
  destruct (inherit _ row) as [t'| | |] eqn:E; try discriminate. injection H as <-.
  destruct k as [|k].
  - rewrite nth_error_O' in Ha. injection Ha as <-. rewrite nth_error_S' in Hb. rewrite nth_error_S' in Hb0.
    destruct (inherit_nth _ _ _ 0%nat b0 E Hb0) as (r & Hr & _ & _ & _ & _ & Hc).
    rewrite Hb in Hr. injection Hr as <-. cbn [corr]. apply Hc; [reflexivity | exact Hn].
  - rewrite nth_error_S' in Ha. rewrite nth_error_S' in Hb. rewrite nth_error_S' in Hb0. eapply IH; eauto.
Qed.

(* ---------------- the theorem ---------------- *)
Theorem rta_single_child t cells g rows g' :
  tree_ok t ->
  run_type_assignment cell rng decide t cells g = Ok (rows, g') ->
  forall i row, nth_error rows i = Some row ->
    (forall only r, nodes (hd [] t) = [only] -> nth_error row 0 = Some r ->
       asg r = only /\ prob r = one /\ runners r = [] /\ corr r = Some one) /\
    (forall k a b only, nth_error row k = Some a -> nth_error row (S k) = Some b ->
       children_of (nth k t []) (asg a) = [only] ->
       asg b = only /\ prob b = one /\ runners b = [] /\ corr b = corr a).
Proof.
  intros Ht H i row Hrow. unfold run_type_assignment in H.
  destruct (levels_from t cells 0 (length t) (g, empty_table cell t cells, [])) as [[[g1 res] pa]| | |] eqn:El;
    try discriminate.
  pose proof (Inv_levels cell rng decide decide_kids t cells Ht (length t) 0 _ _ (Inv_init cell rng t cells g) eq_refl El) as HI.
  assert (HS0 : SInv t cells 0 (g, empty_table cell t cells, [])) by (unfold SInv; split; intros; lia).
  pose proof (SInv_levels t cells Ht (length t) 0 _ _ (Inv_init cell rng t cells g) HS0 eq_refl El) as [HS1 HS2].
  destruct HI as ((Hs1 & Hs2) & HB & _ & _).
  match type of H with context [map_outcome ?f res] => destruct (map_outcome f res) as [rows'| | |] eqn:Em end;
    try discriminate.
  injection H as <- _. apply map_outcome_spec in Em.
  assert (Hilt : (i < length cells)%nat).
  { rewrite <- Hs1, (Forall2_length _ _ _ Em). apply nth_error_Some. congruence. }
  destruct (nth_error res i) as [orow|] eqn:Eo; [|apply nth_error_None in Eo; lia].
  pose proof (Forall2_nth_error _ _ _ _ _ _ Em Eo Hrow) as Hf. cbn beta in Hf.
  destruct (inherit None orow) as [rs| | |] eqn:Ei; try discriminate. injection Hf as <-.
  assert (Horow : nth i res [] = orow) by (apply nth_error_nth; exact Eo).
  assert (Hlen_o : length orow = length t) by (rewrite <- Horow; apply Hs2; exact Hilt).
  (* the table entry behind position k of the row *)
  assert (Hcell : forall k r, nth_error orow k = Some (Some r) -> cellrec res i k = Some r).
  { intros k r Hk. unfold cellrec. rewrite Horow. apply nth_error_nth. exact Hk. }
  assert (Hentry : forall k, (k < length t)%nat -> exists r, nth_error orow k = Some (Some r)).
  { intros k Hk. destruct (HB i k Hilt Hk) as (r & Hr & _). exists r. unfold cellrec in Hr. rewrite Horow in Hr.
    destruct (nth_error orow k) as [o|] eqn:E; [|apply nth_error_None in E; lia].
    rewrite (nth_error_nth _ _ _ E) in Hr. congruence. }
  assert (Hrs_len : length rs = length t).
  { rewrite <- Hlen_o. clear -Ei. revert rs Ei. generalize (@None frac). induction orow as [|o row IH]; intros ab rs H; cbn in H.
    - injection H as <-. reflexivity.
    - destruct o as [x|]; [|discriminate]. destruct (inherit _ row) as [t'| | |] eqn:E; try discriminate.
      injection H as <-. cbn. f_equal. eapply IH. exact E. }
  split.
  - intros only r Hone Hr.
    destruct (running_nth _ _ _ _ Hr) as (r1 & Hr1 & A1 & A2 & A3 & A4).
    assert (H0 : (0 < length t)%nat) by (rewrite <- Hrs_len; apply nth_error_Some; congruence).
    destruct (Hentry 0%nat H0) as (r0 & Hr0).
    pose proof (HS1 i only Hilt H0 Hone) as Htriv. rewrite (Hcell _ _ Hr0) in Htriv. injection Htriv as ->.
    destruct (inherit_nth _ _ _ _ _ Ei Hr0) as (r2 & Hr2 & B1 & B2 & B3 & _ & B5).
    rewrite Hr1 in Hr2. injection Hr2 as <-.
    rewrite A1, A2, A3, A4, B1, B2, B3, (B5 eq_refl eq_refl). cbn. auto.
  - intros k a b only Ha Hb Hone.
    destruct (running_nth _ _ _ _ Ha) as (a1 & Ha1 & A1 & A2 & A3 & A4).
    destruct (running_nth _ _ _ _ Hb) as (b1 & Hb1 & B1 & B2 & B3 & B4).
    assert (Hk : (S k < length t)%nat) by (rewrite <- Hrs_len; apply nth_error_Some; congruence).
    destruct (Hentry k ltac:(lia)) as (a0 & Ha0). destruct (Hentry (S k) Hk) as (b0 & Hb0).
    destruct (inherit_nth _ _ _ _ _ Ei Ha0) as (a2 & Ha2 & C1 & _). rewrite Ha1 in Ha2. injection Ha2 as <-.
    destruct (inherit_nth _ _ _ _ _ Ei Hb0) as (b2 & Hb2 & D1 & D2 & D3 & _). rewrite Hb1 in Hb2. injection Hb2 as <-.
    rewrite A1, C1 in Hone.
    pose proof (HS2 i k a0 only Hilt Hk (Hcell _ _ Ha0) Hone) as Htriv.
    rewrite (Hcell _ _ Hb0) in Htriv. injection Htriv as ->.
    rewrite B1, B2, B3, B4, A3, D1, D2, D3. cbn [trivial_rec asg prob runners].
    repeat split; auto.
    apply (inherit_prev _ _ _ _ _ _ _ Ei Hb0 eq_refl Ha1 Hb1).
Qed.
End Shape.
