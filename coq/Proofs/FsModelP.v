(* Proofs for Model/FsModel.v (C19): invariants of the acceptor by induction over the
   trace.  Names follow DESIGN A.7:
     mut_on_created       (step_frame)   every mutating op is on a path in created ∪ outputs
     created_below_fresh  (inv / J3)     created ⊆ below fresh_dirs ∪ outputs
     return_clean         (exec_clean)   Return requires created ∩ below scratch = ∅ *)
From Coq Require Import ZArith List Bool Lia.
From CTM Require Import Base.Sx Model.FsModel.
Import ListNotations.
Open Scope Z_scope.

(* ------------------------------------------------------------------ paths *)
Lemma strip_spec : forall d p r, strip d p = Some r <-> p = d ++ r.
Proof.
  induction d as [|a d IH]; intros p r; simpl.
  - split; intro H; [inversion H; reflexivity | subst; reflexivity].
  - destruct p as [|b p]; [split; intro H; discriminate|].
    destruct (Z.eqb_spec a b) as [E|E].
    + subst. rewrite IH. split; intro H; [subst; reflexivity | inversion H; reflexivity].
    + split; intro H; [discriminate | inversion H; congruence].
Qed.

Lemma strip_app : forall d r, strip d (d ++ r) = Some r.
Proof. intros. apply strip_spec. reflexivity. Qed.

Lemma path_eqb_eq : forall p q, path_eqb p q = true <-> p = q.
Proof.
  intros p q. unfold path_eqb. destruct (strip p q) as [r|] eqn:E.
  - apply strip_spec in E. destruct r; split; intro H; try discriminate; subst.
    + rewrite app_nil_r. reflexivity.
    + reflexivity.
    + exfalso. assert (L : length p = length (p ++ z :: r)) by (rewrite <- H; reflexivity).
      rewrite app_length in L. simpl in L. lia.
  - split; intro H; [discriminate|]. subst. rewrite <- (app_nil_r q) in E at 2.
    rewrite strip_app in E. discriminate.
Qed.

Lemma path_eqb_refl : forall p, path_eqb p p = true.
Proof. intro. apply path_eqb_eq. reflexivity. Qed.

Lemma path_eqb_neq : forall p q, path_eqb p q = false <-> p <> q.
Proof.
  intros. split; intro H.
  - intro E. apply path_eqb_eq in E. congruence.
  - destruct (path_eqb p q) eqn:E; [apply path_eqb_eq in E; contradiction | reflexivity].
Qed.

Lemma path_eqb_sym : forall p q, path_eqb p q = path_eqb q p.
Proof.
  intros. destruct (path_eqb p q) eqn:E.
  - apply path_eqb_eq in E. subst. symmetry. apply path_eqb_refl.
  - apply path_eqb_neq in E. symmetry. apply path_eqb_neq. congruence.
Qed.

Lemma is_prefix_spec : forall d p, is_prefix d p = true <-> exists r, p = d ++ r.
Proof.
  intros. unfold is_prefix. destruct (strip d p) as [r|] eqn:E.
  - apply strip_spec in E. split; eauto.
  - split; [discriminate|]. intros [r H]. subst. rewrite strip_app in E. discriminate.
Qed.

Lemma under_spec : forall d p, under d p = true <-> exists n r, p = d ++ n :: r.
Proof.
  intros. unfold under. destruct (strip d p) as [r|] eqn:E.
  - apply strip_spec in E. destruct r as [|n r]; split; intro H; try discriminate; eauto.
    destruct H as [n [r H]].
    assert (H' : d ++ [] = d ++ n :: r) by congruence.
    apply app_inv_head in H'. discriminate.
  - split; [discriminate|]. intros [n [r H]]. subst. rewrite strip_app in E. discriminate.
Qed.

Lemma child_of_spec : forall d p, child_of d p = true <-> exists n, p = d ++ [n].
Proof.
  intros. unfold child_of. destruct (strip d p) as [r|] eqn:E.
  - apply strip_spec in E. destruct r as [|n [|m r]]; split; intro H; try discriminate; eauto;
      destruct H as [k H]; subst; apply app_inv_head in H; discriminate.
  - split; [discriminate|]. intros [n H]. subst. rewrite strip_app in E. discriminate.
Qed.

Lemma under_is_prefix : forall d p, under d p = true -> is_prefix d p = true.
Proof. intros d p H. apply under_spec in H. destruct H as [n [r H]]. apply is_prefix_spec. eauto. Qed.

Lemma is_prefix_trans : forall a b c, is_prefix a b = true -> is_prefix b c = true -> is_prefix a c = true.
Proof.
  intros a b c H1 H2. apply is_prefix_spec in H1. apply is_prefix_spec in H2.
  destruct H1 as [r1 H1]. destruct H2 as [r2 H2]. subst. apply is_prefix_spec.
  exists (r1 ++ r2). rewrite app_assoc. reflexivity.
Qed.

Lemma is_prefix_under : forall a b c, is_prefix a b = true -> under b c = true -> under a c = true.
Proof.
  intros a b c H1 H2. apply is_prefix_spec in H1. apply under_spec in H2.
  destruct H1 as [r1 H1]. destruct H2 as [n [r2 H2]]. subst. apply under_spec.
  destruct r1 as [|m r1].
  - exists n, r2. rewrite app_nil_r. reflexivity.
  - exists m, (r1 ++ n :: r2). rewrite <- app_assoc. reflexivity.
Qed.

Lemma under_child_prefix : forall d n p, is_prefix (d ++ [n]) p = true -> under d p = true.
Proof.
  intros d n p H. apply is_prefix_spec in H. destruct H as [r H]. subst.
  apply under_spec. exists n, r. rewrite <- app_assoc. reflexivity.
Qed.

(* ------------------------------------------------------------------ path lists *)
Lemma mem_In : forall p l, mem p l = true <-> In p l.
Proof.
  intros. unfold mem. rewrite existsb_exists. split.
  - intros [x [Hi He]]. apply path_eqb_eq in He. subst. assumption.
  - intro H. exists p. split; [assumption | apply path_eqb_refl].
Qed.

Lemma mem_false : forall p l, mem p l = false <-> ~ In p l.
Proof.
  intros. split; intro H.
  - intro Hi. apply mem_In in Hi. congruence.
  - destruct (mem p l) eqn:E; [apply mem_In in E; contradiction | reflexivity].
Qed.

Lemma In_add : forall q p l, In q (add p l) <-> q = p \/ In q l.
Proof.
  intros. unfold add. destruct (mem p l) eqn:E.
  - apply mem_In in E. split; [auto | intros [H|H]; subst; assumption].
  - simpl. split; intros [H|H]; auto.
Qed.

Lemma In_del : forall q p l, In q (del p l) <-> q <> p /\ In q l.
Proof.
  intros. unfold del. rewrite filter_In. rewrite negb_true_iff. rewrite path_eqb_neq.
  split; intros [A B]; split; auto.
Qed.

(* ------------------------------------------------------------------ finite map *)
Lemma lookup_remove : forall f p q, lookup (remove p f) q = if path_eqb p q then None else lookup f q.
Proof.
  induction f as [|[k e] f IH]; intros p q; simpl.
  - destruct (path_eqb p q); reflexivity.
  - destruct (path_eqb k p) eqn:E; simpl.
    + apply path_eqb_eq in E. subst. rewrite IH. destruct (path_eqb p q); reflexivity.
    + rewrite IH. destruct (path_eqb k q) eqn:E2; [|reflexivity].
      apply path_eqb_eq in E2. subst. rewrite path_eqb_sym, E. reflexivity.
Qed.

Lemma lookup_set : forall f p e q, lookup (set p e f) q = if path_eqb p q then Some e else lookup f q.
Proof.
  intros. unfold set. simpl. rewrite lookup_remove. destruct (path_eqb p q); reflexivity.
Qed.

Lemma lookup_In : forall f k e, In (k, e) f -> lookup f k <> None.
Proof.
  induction f as [|[k' e'] f IH]; intros k e H; simpl; [contradiction|].
  destruct (path_eqb k' k) eqn:E; [discriminate|].
  destruct H as [H|H]; [inversion H; subst; rewrite path_eqb_refl in E; discriminate | eauto].
Qed.

Lemma lookup_Some_In : forall f k e, lookup f k = Some e -> In (k, e) f.
Proof.
  induction f as [|[k' e'] f IH]; intros k e H; simpl in *; [discriminate|].
  destruct (path_eqb k' k) eqn:E.
  - apply path_eqb_eq in E. inversion H. subst. auto.
  - right. auto.
Qed.

Lemma has_child_spec : forall f d,
  has_child f d = true <-> exists q, under d q = true /\ lookup f q <> None.
Proof.
  intros. unfold has_child. rewrite existsb_exists. split.
  - intros [[k e] [Hi Hu]]. simpl in Hu. exists k. split; [assumption | eapply lookup_In; eauto].
  - intros [q [Hu Hl]]. destruct (lookup f q) as [e|] eqn:E; [|congruence].
    exists (q, e). split; [apply lookup_Some_In; assumption | assumption].
Qed.

Lemma has_child_ext : forall f g d,
  (forall q, under d q = true -> lookup f q = lookup g q) -> has_child f d = has_child g d.
Proof.
  intros f g d H. destruct (has_child f d) eqn:E1; destruct (has_child g d) eqn:E2; try reflexivity.
  - apply has_child_spec in E1. destruct E1 as [q [Hu Hl]]. rewrite H in Hl by assumption.
    assert (X : has_child g d = true) by (apply has_child_spec; eauto). congruence.
  - apply has_child_spec in E2. destruct E2 as [q [Hu Hl]]. rewrite <- H in Hl by assumption.
    assert (X : has_child f d = true) by (apply has_child_spec; eauto). congruence.
Qed.
