(* Proofs for Model/FsModel.v (C19): invariants of the acceptor by induction over the
   trace.  Names follow DESIGN A.7:
     mut_on_created       (step_frame)   every mutating op is on a path in created ∪ outputs
     created_below_fresh  (inv / J3)     created ⊆ below fresh_dirs ∪ outputs
     return_clean         (exec_clean)   Return requires created ∩ below scratch = ∅ *)
From Coq Require Import ZArith List Bool Lia.
From CTM Require Import Base.Sx Model.FsModel.
Import ListNotations.
Open Scope Z_scope.

(* ------------------------------------------------------------------ paths *)
Lemma strip_spec : forall d p r, strip d p = Some r <-> p = d ++ r.
Proof.
  induction d as [|a d IH]; intros p r; simpl.
  - split; intro H; [inversion H; reflexivity | subst; reflexivity].
  - destruct p as [|b p]; [split; intro H; discriminate|].
    destruct (Z.eqb_spec a b) as [E|E].
    + subst. rewrite IH. split; intro H; [subst; reflexivity | inversion H; reflexivity].
    + split; intro H; [discriminate | inversion H; congruence].
Qed.

Lemma strip_app : forall d r, strip d (d ++ r) = Some r.
Proof. intros. apply strip_spec. reflexivity. Qed.

Lemma path_eqb_eq : forall p q, path_eqb p q = true <-> p = q.
Proof.
  intros p q. unfold path_eqb. destruct (strip p q) as [r|] eqn:E.
  - apply strip_spec in E. destruct r; split; intro H; try discriminate; subst.
    + rewrite app_nil_r. reflexivity.
    + reflexivity.
    + exfalso. assert (L : length p = length (p ++ z :: r)) by (rewrite <- H; reflexivity).
      rewrite app_length in L. simpl in L. lia.
  - split; intro H; [discriminate|]. subst. rewrite <- (app_nil_r q) in E at 2.
    rewrite strip_app in E. discriminate.
Qed.

Lemma path_eqb_refl : forall p, path_eqb p p = true.
Proof. intro. apply path_eqb_eq. reflexivity. Qed.

Lemma path_eqb_neq : forall p q, path_eqb p q = false <-> p <> q.
Proof.
  intros. split; intro H.
  - intro E. apply path_eqb_eq in E. congruence.
  - destruct (path_eqb p q) eqn:E; [apply path_eqb_eq in E; contradiction | reflexivity].
Qed.

Lemma path_eqb_sym : forall p q, path_eqb p q = path_eqb q p.
Proof.
  intros. destruct (path_eqb p q) eqn:E.
  - apply path_eqb_eq in E. subst. symmetry. apply path_eqb_refl.
  - apply path_eqb_neq in E. symmetry. apply path_eqb_neq. congruence.
Qed.

Lemma is_prefix_spec : forall d p, is_prefix d p = true <-> exists r, p = d ++ r.
Proof.
  intros. unfold is_prefix. destruct (strip d p) as [r|] eqn:E.
  - apply strip_spec in E. split; eauto.
  - split; [discriminate|]. intros [r H]. subst. rewrite strip_app in E. discriminate.
Qed.

Lemma under_spec : forall d p, under d p = true <-> exists n r, p = d ++ n :: r.
Proof.
  intros. unfold under. destruct (strip d p) as [r|] eqn:E.
  - apply strip_spec in E. destruct r as [|n r]; split; intro H; try discriminate; eauto.
    destruct H as [n [r H]].
    assert (H' : d ++ [] = d ++ n :: r) by congruence.
    apply app_inv_head in H'. discriminate.
  - split; [discriminate|]. intros [n [r H]]. subst. rewrite strip_app in E. discriminate.
Qed.

Lemma child_of_spec : forall d p, child_of d p = true <-> exists n, p = d ++ [n].
Proof.
  intros. unfold child_of. destruct (strip d p) as [r|] eqn:E.
  - apply strip_spec in E. destruct r as [|n [|m r]]; split; intro H; try discriminate; eauto;
      destruct H as [k H]; subst; apply app_inv_head in H; discriminate.
  - split; [discriminate|]. intros [n H]. subst. rewrite strip_app in E. discriminate.
Qed.

Lemma under_is_prefix : forall d p, under d p = true -> is_prefix d p = true.
Proof. intros d p H. apply under_spec in H. destruct H as [n [r H]]. apply is_prefix_spec. eauto. Qed.

Lemma is_prefix_trans : forall a b c, is_prefix a b = true -> is_prefix b c = true -> is_prefix a c = true.
Proof.
  intros a b c H1 H2. apply is_prefix_spec in H1. apply is_prefix_spec in H2.
  destruct H1 as [r1 H1]. destruct H2 as [r2 H2]. subst. apply is_prefix_spec.
  exists (r1 ++ r2). rewrite app_assoc. reflexivity.
Qed.

Lemma is_prefix_under : forall a b c, is_prefix a b = true -> under b c = true -> under a c = true.
Proof.
  intros a b c H1 H2. apply is_prefix_spec in H1. apply under_spec in H2.
  destruct H1 as [r1 H1]. destruct H2 as [n [r2 H2]]. subst. apply under_spec.
  destruct r1 as [|m r1].
  - exists n, r2. rewrite app_nil_r. reflexivity.
  - exists m, (r1 ++ n :: r2). rewrite <- app_assoc. reflexivity.
Qed.

Lemma under_child_prefix : forall d n p, is_prefix (d ++ [n]) p = true -> under d p = true.
Proof.
  intros d n p H. apply is_prefix_spec in H. destruct H as [r H]. subst.
  apply under_spec. exists n, r. rewrite <- app_assoc. reflexivity.
Qed.

(* ------------------------------------------------------------------ path lists *)
Lemma mem_In : forall p l, mem p l = true <-> In p l.
Proof.
  intros. unfold mem. rewrite existsb_exists. split.
  - intros [x [Hi He]]. apply path_eqb_eq in He. subst. assumption.
  - intro H. exists p. split; [assumption | apply path_eqb_refl].
Qed.

Lemma mem_false : forall p l, mem p l = false <-> ~ In p l.
Proof.
  intros. split; intro H.
  - intro Hi. apply mem_In in Hi. congruence.
  - destruct (mem p l) eqn:E; [apply mem_In in E; contradiction | reflexivity].
Qed.

Lemma In_add : forall q p l, In q (add p l) <-> q = p \/ In q l.
Proof.
  intros. unfold add. destruct (mem p l) eqn:E.
  - apply mem_In in E. split; [auto | intros [H|H]; subst; assumption].
  - simpl. split; intros [H|H]; auto.
Qed.

Lemma In_del : forall q p l, In q (del p l) <-> q <> p /\ In q l.
Proof.
  intros. unfold del. rewrite filter_In. rewrite negb_true_iff. rewrite path_eqb_neq.
  split; intros [A B]; split; auto.
Qed.

(* ------------------------------------------------------------------ finite map *)
Lemma lookup_remove : forall f p q, lookup (remove p f) q = if path_eqb p q then None else lookup f q.
Proof.
  induction f as [|[k e] f IH]; intros p q; simpl.
  - destruct (path_eqb p q); reflexivity.
  - destruct (path_eqb k p) eqn:E; simpl.
    + apply path_eqb_eq in E. subst. rewrite IH. destruct (path_eqb p q); reflexivity.
    + rewrite IH. destruct (path_eqb k q) eqn:E2; [|reflexivity].
      apply path_eqb_eq in E2. subst. rewrite path_eqb_sym, E. reflexivity.
Qed.

Lemma lookup_set : forall f p e q, lookup (set p e f) q = if path_eqb p q then Some e else lookup f q.
Proof.
  intros. unfold set. simpl. rewrite lookup_remove. destruct (path_eqb p q); reflexivity.
Qed.

Lemma lookup_In : forall f k e, In (k, e) f -> lookup f k <> None.
Proof.
  induction f as [|[k' e'] f IH]; intros k e H; simpl; [contradiction|].
  destruct (path_eqb k' k) eqn:E; [discriminate|].
  destruct H as [H|H]; [inversion H; subst; rewrite path_eqb_refl in E; discriminate | eauto].
Qed.

Lemma lookup_Some_In : forall f k e, lookup f k = Some e -> In (k, e) f.
Proof.
  induction f as [|[k' e'] f IH]; intros k e H; simpl in *; [discriminate|].
  destruct (path_eqb k' k) eqn:E.
  - apply path_eqb_eq in E. inversion H. subst. auto.
  - right. auto.
Qed.

Lemma has_child_spec : forall f d,
  has_child f d = true <-> exists q, under d q = true /\ lookup f q <> None.
Proof.
  intros. unfold has_child. rewrite existsb_exists. split.
  - intros [[k e] [Hi Hu]]. simpl in Hu. exists k. split; [assumption | eapply lookup_In; eauto].
  - intros [q [Hu Hl]]. destruct (lookup f q) as [e|] eqn:E; [|congruence].
    exists (q, e). split; [apply lookup_Some_In; assumption | assumption].
Qed.

Lemma has_child_ext : forall f g d,
  (forall q, under d q = true -> lookup f q = lookup g q) -> has_child f d = has_child g d.
Proof.
  intros f g d H. destruct (has_child f d) eqn:E1; destruct (has_child g d) eqn:E2; try reflexivity.
  - apply has_child_spec in E1. destruct E1 as [q [Hu Hl]]. rewrite H in Hl by assumption.
    assert (X : has_child g d = true) by (apply has_child_spec; eauto). congruence.
  - apply has_child_spec in E2. destruct E2 as [q [Hu Hl]]. rewrite <- H in Hl by assumption.
    assert (X : has_child f d = true) by (apply has_child_spec; eauto). congruence.
Qed.

(* ------------------------------------------------------------------ effects *)
Definition touched (e : eff) : list path :=
  match e with
  | ENone => []
  | ESet p _ => [p]
  | EDel p => [p]
  | EMove p q _ => [p; q]
  end.

Lemma lookup_apply_untouched : forall e f x, ~ In x (touched e) -> lookup (apply e f) x = lookup f x.
Proof.
  intros e f x H. destruct e; cbn [apply touched In] in *.
  - reflexivity.
  - rewrite lookup_set. destruct (path_eqb p x) eqn:E; [apply path_eqb_eq in E; subst; tauto | reflexivity].
  - rewrite lookup_remove. destruct (path_eqb p x) eqn:E; [apply path_eqb_eq in E; subst; tauto | reflexivity].
  - rewrite lookup_set, lookup_remove.
    destruct (path_eqb q x) eqn:E; [apply path_eqb_eq in E; subst; tauto|].
    destruct (path_eqb p x) eqn:E2; [apply path_eqb_eq in E2; subst; tauto | reflexivity].
Qed.

Lemma lookup_apply_ext : forall e f f' x,
  In x (touched e) \/ lookup f x = lookup f' x -> lookup (apply e f) x = lookup (apply e f') x.
Proof.
  intros e f f' x H. destruct e; cbn [apply touched In] in *.
  - destruct H as [[]|H]; assumption.
  - rewrite !lookup_set. destruct (path_eqb p x) eqn:E; [reflexivity|].
    destruct H as [[H|[]]|H]; [subst; rewrite path_eqb_refl in E; discriminate | assumption].
  - rewrite !lookup_remove. destruct (path_eqb p x) eqn:E; [reflexivity|].
    destruct H as [[H|[]]|H]; [subst; rewrite path_eqb_refl in E; discriminate | assumption].
  - rewrite !lookup_set, !lookup_remove. destruct (path_eqb q x) eqn:E; [reflexivity|].
    destruct (path_eqb p x) eqn:E2; [reflexivity|].
    destruct H as [[H|[H|[]]]|H]; subst; try (rewrite path_eqb_refl in *; discriminate); assumption.
Qed.

Lemma kind_apply_ext : forall e f f' x,
  In x (touched e) \/ kind_of (lookup f x) = kind_of (lookup f' x) ->
  kind_of (lookup (apply e f) x) = kind_of (lookup (apply e f') x).
Proof.
  intros e f f' x H. destruct e; cbn [apply touched In] in *.
  - destruct H as [[]|H]; assumption.
  - rewrite !lookup_set. destruct (path_eqb p x) eqn:E; [reflexivity|].
    destruct H as [[H|[]]|H]; [subst; rewrite path_eqb_refl in E; discriminate | assumption].
  - rewrite !lookup_remove. destruct (path_eqb p x) eqn:E; [reflexivity|].
    destruct H as [[H|[]]|H]; [subst; rewrite path_eqb_refl in E; discriminate | assumption].
  - rewrite !lookup_set, !lookup_remove. destruct (path_eqb q x) eqn:E; [reflexivity|].
    destruct (path_eqb p x) eqn:E2; [reflexivity|].
    destruct H as [[H|[H|[]]]|H]; subst; try (rewrite path_eqb_refl in *; discriminate); assumption.
Qed.

(* ------------------------------------------------------------------ tactics for decide *)
Ltac dcase H :=
  match type of H with
  | context [match lookup ?f ?p with _ => _ end] =>
      let E := fresh "EL" in destruct (lookup f p) as [[[|] ?]|] eqn:E; try discriminate H
  | context [if ?x then _ else _] =>
      let E := fresh "E" in destruct x eqn:E; try discriminate H
  end.

Ltac norm :=
  repeat match goal with
  | H : _ || _ = true |- _ => apply orb_true_iff in H
  | H : _ || _ = false |- _ => apply orb_false_iff in H; destruct H
  | H : mem _ _ = true |- _ => apply mem_In in H
  | H : mem _ _ = false |- _ => apply mem_false in H
  | H : path_eqb _ _ = true |- _ => apply path_eqb_eq in H; subst
  | H : path_eqb _ _ = false |- _ => apply path_eqb_neq in H
  end.

Ltac decide_inv H :=
  unfold decide in H;
  match type of H with context [match ?o with OpenR _ => _ | _ => _ end] => destruct o end;
  repeat dcase H; inversion H; subst; clear H.

(* ------------------------------------------------------------------ creatable *)
Lemma creatable_spec : forall c b p, creatable c b p = true ->
  (exists n, p = c_scratch c ++ [n]) \/ (exists d n, In d (b_dirs b) /\ p = d ++ [n]).
Proof.
  intros c b p H. unfold creatable in H. apply orb_true_iff in H. destruct H as [H|H].
  - left. apply child_of_spec. assumption.
  - right. apply existsb_exists in H. destruct H as [d [Hd Hc]]. apply child_of_spec in Hc.
    destruct Hc as [n Hn]. eauto.
Qed.

Lemma top_name_child : forall c n, top_name c (c_scratch c ++ [n]) = [n].
Proof. intros. unfold top_name. rewrite strip_app. reflexivity. Qed.

(* ------------------------------------------------------------------ invariant on the book-keeping *)
Definition inv (c : config) (N : list Z) (b : bk) : Prop :=
  (forall p, In p (b_created b) -> In p (b_owned b) \/ in_cone c N p = true) /\
  (forall d, In d (b_dirs b) -> in_cone c N d = true) /\
  (forall p, In p (b_owned b) -> In p (c_outputs c)) /\
  incl (b_names b) N.

Lemma inv_bk0 : forall c N, inv c N bk0.
Proof. intros. repeat split; simpl; intros; try contradiction. intros x []. Qed.

Lemma in_cone_app : forall c N d n, in_cone c N d = true -> in_cone c N (d ++ [n]) = true.
Proof.
  intros c N d n H. unfold in_cone in *. apply existsb_exists in H. destruct H as [k [Hk Hp]].
  apply existsb_exists. exists k. split; [assumption|].
  eapply is_prefix_trans; [exact Hp|]. apply is_prefix_spec. eauto.
Qed.

Lemma in_cone_under : forall c N d p, in_cone c N d = true -> under d p = true -> in_cone c N p = true.
Proof.
  intros c N d p H Hu. unfold in_cone in *. apply existsb_exists in H. destruct H as [k [Hk Hp]].
  apply existsb_exists. exists k. split; [assumption|].
  eapply is_prefix_trans; [exact Hp|]. apply under_is_prefix. assumption.
Qed.

Lemma in_cone_top : forall c N n, In n N -> in_cone c N (c_scratch c ++ [n]) = true.
Proof.
  intros. unfold in_cone. apply existsb_exists. exists n. split; [assumption|].
  apply is_prefix_spec. exists []. rewrite app_nil_r. reflexivity.
Qed.

Lemma in_cone_mono : forall c N N' p, incl N N' -> in_cone c N p = true -> in_cone c N' p = true.
Proof.
  intros c N N' p Hi H. unfold in_cone in *. apply existsb_exists in H. destruct H as [k [Hk Hp]].
  apply existsb_exists. exists k. split; [apply Hi; assumption | assumption].
Qed.

Lemma creatable_cone : forall c N b p,
  inv c N b -> incl (top_name c p) N -> creatable c b p = true -> in_cone c N p = true.
Proof.
  intros c N b p [_ [Hd _]] Hn H. apply creatable_spec in H. destruct H as [[n H]|[d [n [Hi H]]]]; subst.
  - rewrite top_name_child in Hn. apply in_cone_top. apply Hn. left. reflexivity.
  - apply in_cone_app. apply Hd. assumption.
Qed.

Ltac bk_simpl :=
  cbn [b_created b_dirs b_owned b_new b_names b_done with_created with_owned with_dirs with_new with_names
       named finished] in *.

Ltac in_simpl :=
  repeat (match goal with
          | H : In _ (add _ _) |- _ => apply In_add in H
          | H : In _ (del _ _) |- _ => apply In_del in H
          | |- In _ (add _ _) => apply In_add
          | |- In _ (del _ _) => apply In_del
          end).

Lemma decide_keeps_inv : forall c N f b o e b',
  inv c N b -> incl (op_fresh c o) N -> decide c f b o = Ok (e, b') -> inv c N b'.
Proof.
  intros c N f b o e b' Hinv Hn H.
  assert (HC : forall p, incl (top_name c p) N -> creatable c b p = true -> in_cone c N p = true)
    by (intros; eapply creatable_cone; eauto).
  destruct Hinv as [I1 [I2 [I3 I4]]].
  assert (N4 : incl (b_names b') N).
  { decide_inv H; bk_simpl; cbn [op_fresh] in Hn; auto; apply incl_app; auto. }
  decide_inv H; norm; try (repeat split; assumption);
    cbn [op_fresh] in Hn;
    (refine (conj _ (conj _ (conj _ N4))); bk_simpl; intros x Hx; in_simpl;
     try (destruct Hx as [Hx|Hx]; [subst|]); in_simpl; eauto;
     try (destruct Hx as [Hx1 Hx2]); eauto).
  all: try (left; apply In_add; eauto; fail).
  all: try (destruct (I1 _ Hx) as [Ho|Hc]; [left; apply In_add; auto | right; assumption]; fail).
  all: try (destruct (I1 _ Hx2) as [Ho|Hc]; [left; try apply In_add; auto | right; assumption]; fail).
Qed.

(* mut_on_created: every mutated path is one this run created (before or by this op),
   one of its fresh directories, or the writable query file *)
Lemma decide_touched : forall c f b o e b' x,
  decide c f b o = Ok (e, b') -> In x (touched e) ->
  In x (b_created b) \/ In x (b_created b') \/ In x (b_dirs b) \/ wq c x = true.
Proof.
  intros c f b o e b' x H Hx.
  decide_inv H; norm; cbn [touched In] in Hx; bk_simpl;
    repeat (destruct Hx as [Hx|Hx]; [subst|]); try contradiction; auto.
  all: try (destruct E as [E|E]; norm; auto; fail).
  all: try (right; left; apply In_add; auto; fail).
  destruct E0 as [E0|E0]; norm; auto.
Qed.

Lemma decide_owned_mono : forall c f b o e b' x,
  decide c f b o = Ok (e, b') -> In x (b_owned b) -> In x (b_owned b').
Proof.
  intros c f b o e b' x H Hx.
  decide_inv H; bk_simpl; auto; apply In_add; auto.
Qed.

Lemma decide_new_owned : forall c f b o e b' x,
  decide c f b o = Ok (e, b') -> In x (b_owned b') -> In x (b_owned b) \/ In x (touched e).
Proof.
  intros c f b o e b' x H Hx.
  decide_inv H; bk_simpl; auto; apply In_add in Hx; destruct Hx as [Hx|Hx]; subst; auto;
    right; cbn [touched In]; auto.
Qed.

Lemma decide_not_done : forall c f b o e b', decide c f b o = Ok (e, b') -> b_done b = false.
Proof.
  intros c f b o e b' H. unfold decide in H. destruct (b_done b); [discriminate | reflexivity].
Qed.

(* ------------------------------------------------------------------ what decide looks at *)
Definition readable (c : config) (b : bk) (o : op) (p : path) : Prop :=
  match o with
  | OpenR x => p = x /\ (mem x (c_inputs c) || mem x (b_created b) = true)
  | OpenW x _ => p = x /\ (mem x (b_created b) || wq c x = true)
  | Create x _ _ => p = x /\ (mem x (b_created b) = true \/
                              (mem x (c_outputs c) = false /\ creatable c b x = true))
  | Mkdir x => p = x /\ mem x (c_outputs c) = false /\ creatable c b x = true
  | Unlink x => p = x /\ mem x (b_created b) = true
  | Rmdir x => mem x (b_dirs b) = true /\ (p = x \/ under x p = true)
  | Rename x y => mem x (b_created b) = true /\
                  (p = x \/ (p = y /\ (mem y (b_created b) = true \/
                                       (mem y (c_outputs c) = false /\ creatable c b y = true))))
  | ListDir x => mem x (b_dirs b) = true /\ under x p = true
  | Return _ | Stat _ _ => False
  end.

(* ... and the paths of which it looks at the kind only (absent / file / directory) *)
Definition kreadable (c : config) (b : bk) (o : op) (p : path) : Prop :=
  match o with
  | Stat x _ => p = x /\ statable c b x = true
  | Create x _ _ => p = x /\ mem x (c_outputs c) = true
  | Rename _ y => p = y /\ mem y (c_outputs c) = true
  | _ => False
  end.

Lemma new_out_kind : forall e e' p l, kind_of e = kind_of e' -> new_out e p l = new_out e' p l.
Proof.
  intros e e' p l H. destruct e as [[[|] x]|]; destruct e' as [[[|] y]|]; simpl in *; try discriminate; reflexivity.
Qed.

Lemma decide_ext : forall c f f' b o,
  (forall p, readable c b o p -> lookup f p = lookup f' p) ->
  (forall p, kreadable c b o p -> kind_of (lookup f p) = kind_of (lookup f' p)) ->
  decide c f b o = decide c f' b o.
Proof.
  intros c f f' b o H HK. unfold decide. destruct (b_done b); [reflexivity|].
  destruct o as [x|x cid|x t cid|x|x|x|x y|x|ok|x r]; cbn [readable kreadable] in H, HK.
  - destruct (mem x (c_inputs c) || mem x (b_created b)) eqn:E; [|reflexivity].
    rewrite (H x) by auto. reflexivity.
  - destruct (mem x (b_created b) || wq c x) eqn:E; [|reflexivity].
    rewrite (H x) by auto. reflexivity.
  - destruct (mem x (b_created b)) eqn:E1; [rewrite (H x) by auto; reflexivity|].
    destruct (mem x (c_outputs c)) eqn:E2.
    { rewrite (new_out_kind (lookup f x) (lookup f' x)) by (apply HK; auto). reflexivity. }
    destruct (creatable c b x) eqn:E3; [|reflexivity]. rewrite (H x) by auto. reflexivity.
  - destruct (mem x (c_outputs c)) eqn:E2; [reflexivity|].
    destruct (creatable c b x) eqn:E3; [|reflexivity]. rewrite (H x) by auto. reflexivity.
  - destruct (mem x (b_created b)) eqn:E1; [|reflexivity]. rewrite (H x) by auto. reflexivity.
  - destruct (mem x (b_dirs b)) eqn:E1; [|reflexivity]. rewrite (H x) by auto.
    rewrite (has_child_ext f f' x) by (intros; apply H; auto). reflexivity.
  - destruct (mem x (b_created b)) eqn:E1; [|reflexivity]. rewrite (H x) by auto.
    destruct (lookup f' x) as [[[|] cid]|]; try reflexivity.
    destruct (path_eqb x y); [reflexivity|].
    destruct (removable c b x); [|reflexivity].
    destruct (mem y (b_created b)) eqn:E2; [rewrite (H y) by auto; reflexivity|].
    destruct (mem y (c_outputs c)) eqn:E3.
    { rewrite (new_out_kind (lookup f y) (lookup f' y)) by (apply HK; auto). reflexivity. }
    destruct (creatable c b y) eqn:E4; [|reflexivity]. rewrite (H y) by auto 6. reflexivity.
  - reflexivity.
  - reflexivity.
  - destruct (statable c b x) eqn:E; [|reflexivity]. rewrite (HK x) by auto. reflexivity.
Qed.

(* the part of the file system a run depends on, given the names N it makes in scratch *)
Definition region (c : config) (N : list Z) (b : bk) (p : path) : Prop :=
  in_cone c N p = true \/ In p (c_inputs c) \/ wq c p = true \/ In p (b_owned b).

Lemma readable_region : forall c N b o p,
  inv c N b -> incl (op_fresh c o) N -> readable c b o p -> region c N b p.
Proof.
  intros c N b o p Hinv Hn H.
  assert (HC : forall p, incl (top_name c p) N -> creatable c b p = true -> in_cone c N p = true)
    by (intros; eapply creatable_cone; eauto).
  destruct Hinv as [I1 [I2 [I3 I4]]]. unfold region.
  assert (CR : forall x, In x (b_created b) -> in_cone c N x = true \/ In x (c_inputs c) \/ wq c x = true \/ In x (b_owned b))
    by (intros x Hx; destruct (I1 _ Hx); auto).
  destruct o as [x|x cid|x t cid|x|x|x|x y|x|ok|x r]; cbn [readable op_fresh] in *.
  - destruct H as [-> H]. norm. destruct H as [H|H]; norm; auto.
  - destruct H as [-> H]. norm. destruct H as [H|H]; norm; auto.
  - destruct H as [-> [H|[H1 H2]]]; norm; auto.
  - destruct H as [-> [H1 H2]]. auto.
  - destruct H as [-> H]. norm. auto.
  - destruct H as [H [->|Hu]]; norm.
    + left. auto.
    + left. eapply in_cone_under; eauto.
  - destruct H as [H [->|[-> [H2|[H2 H3]]]]]; norm; auto.
  - destruct H as [H Hu]. norm. left. eapply in_cone_under; eauto.
  - contradiction.
  - contradiction.
Qed.

Definition agree (P : path -> Prop) (f f' : fs) : Prop := forall p, P p -> lookup f p = lookup f' p.
(* the two file systems have the same KIND of entry (absent / file / directory) at every
   declared path and every ancestor of one *)
Definition kagree (c : config) (f f' : fs) : Prop :=
  forall p, kregion c p = true -> kind_of (lookup f p) = kind_of (lookup f' p).

Lemma kregion_declared : forall c x, In x (declared c) -> kregion c x = true.
Proof.
  intros c x H. unfold kregion. apply existsb_exists. exists x. split; [right; assumption|].
  apply is_prefix_spec. exists []. rewrite app_nil_r. reflexivity.
Qed.

Lemma kregion_output : forall c x, In x (c_outputs c) -> kregion c x = true.
Proof. intros. apply kregion_declared. right. apply in_or_app. auto. Qed.

Lemma kreadable_region : forall c N b o p,
  inv c N b -> kreadable c b o p -> kregion c p = true \/ in_cone c N p = true.
Proof.
  intros c N b o p [_ [_ [_ I4]]] H.
  destruct o as [x|x cid|x t cid|x|x|x|x y|x|ok|x r]; cbn [kreadable] in H; try contradiction.
  - destruct H as [-> H]. left. apply kregion_output. apply mem_In. assumption.
  - destruct H as [-> H]. left. apply kregion_output. apply mem_In. assumption.
  - destruct H as [-> H]. unfold statable in H. apply orb_true_iff in H. destruct H as [H|H]; [auto|].
    right. eapply in_cone_mono; eauto.
Qed.

(* one step of the same run on two file systems that agree on the run's region (and in kind
   on the declared paths and their ancestors) *)
Lemma step_sim : forall c N f f' b o g b',
  inv c N b -> incl (op_fresh c o) N -> agree (region c N b) f f' -> kagree c f f' ->
  step c f b o = Ok (g, b') ->
  exists g', step c f' b o = Ok (g', b') /\ agree (region c N b') g g' /\
             (forall x, lookup f x = lookup f' x -> lookup g x = lookup g' x) /\
             (forall x, kind_of (lookup f x) = kind_of (lookup f' x) ->
                        kind_of (lookup g x) = kind_of (lookup g' x)).
Proof.
  intros c N f f' b o g b' Hinv Hn Ha Hk H. unfold step in *.
  destruct (decide c f b o) as [[e b1]|code] eqn:D; [|discriminate]. inversion H; subst; clear H.
  rewrite <- (decide_ext c f f' b o).
  2:{ intros p Hp. apply Ha. eapply readable_region; eauto. }
  2:{ intros p Hp. destruct (kreadable_region c N b o p Hinv Hp) as [K|K]; [apply Hk; assumption|].
      rewrite (Ha p) by (left; assumption). reflexivity. }
  rewrite D. eexists. split; [reflexivity|]. split; [|split].
  - intros x Hx. apply lookup_apply_ext.
    destruct Hx as [Hx|[Hx|[Hx|Hx]]].
    + right. apply Ha. left. assumption.
    + right. apply Ha. right. left. assumption.
    + right. apply Ha. right. right. left. assumption.
    + destruct (decide_new_owned _ _ _ _ _ _ _ D Hx) as [Ho|Ht]; [|left; assumption].
      right. apply Ha. right. right. right. assumption.
  - intros x Hx. apply lookup_apply_ext. right. assumption.
  - intros x Hx. apply kind_apply_ext. right. assumption.
Qed.

(* ------------------------------------------------------------------ steps and folds *)
Lemma step_decide : forall c f b o g b',
  step c f b o = Ok (g, b') -> exists e, decide c f b o = Ok (e, b') /\ g = apply e f.
Proof.
  intros c f b o g b' H. unfold step in H. destruct (decide c f b o) as [[e b1]|code]; [|discriminate].
  inversion H; subst. eauto.
Qed.

Lemma step_keeps_inv : forall c N f b o g b',
  inv c N b -> incl (op_fresh c o) N -> step c f b o = Ok (g, b') -> inv c N b'.
Proof.
  intros c N f b o g b' Hi Hn H. apply step_decide in H. destruct H as [e [D _]].
  eapply decide_keeps_inv; eauto.
Qed.

Lemma step_owned_mono : forall c f b o g b' x,
  step c f b o = Ok (g, b') -> In x (b_owned b) -> In x (b_owned b').
Proof.
  intros c f b o g b' x H Hx. apply step_decide in H. destruct H as [e [D _]].
  eapply decide_owned_mono; eauto.
Qed.

(* frame: outside its cone, the outputs it owns and the writable query file a step changes nothing *)
Lemma step_frame : forall c N f b o g b' x,
  inv c N b -> incl (op_fresh c o) N -> step c f b o = Ok (g, b') ->
  in_cone c N x = false -> ~ In x (b_owned b') -> wq c x = false -> lookup g x = lookup f x.
Proof.
  intros c N f b o g b' x Hi Hn H Hc Ho Hq.
  assert (Hi' : inv c N b') by (eapply step_keeps_inv; eauto).
  apply step_decide in H. destruct H as [e [D ->]].
  apply lookup_apply_untouched. intro Ht.
  destruct (decide_touched _ _ _ _ _ _ _ D Ht) as [T|[T|[T|T]]].
  - destruct Hi as [I1 _]. destruct (I1 _ T) as [A|A]; [|congruence].
    apply Ho. eapply decide_owned_mono; eauto.
  - destruct Hi' as [I1 _]. destruct (I1 _ T) as [A|A]; [contradiction | congruence].
  - destruct Hi as [_ [I2 _]]. rewrite (I2 _ T) in Hc. discriminate.
  - congruence.
Qed.

Lemma fresh_cons : forall c o t, fresh_names c (o :: t) = op_fresh c o ++ fresh_names c t.
Proof. reflexivity. Qed.

Lemma incl_app_l : forall (A : Type) (l m n : list A), incl (l ++ m) n -> incl l n.
Proof. intros A l m n H x Hx. apply H. apply in_or_app. auto. Qed.
Lemma incl_app_r : forall (A : Type) (l m n : list A), incl (l ++ m) n -> incl m n.
Proof. intros A l m n H x Hx. apply H. apply in_or_app. auto. Qed.

Lemma exec_keeps_inv : forall c N t f b g b',
  inv c N b -> incl (fresh_names c t) N -> exec c f b t = Ok (g, b') -> inv c N b'.
Proof.
  intros c N t. induction t as [|o t IH]; intros f b g b' Hi Hn H; simpl in H.
  - inversion H; subst. assumption.
  - destruct (step c f b o) as [[f1 b1]|code] eqn:S; [|discriminate].
    rewrite fresh_cons in Hn. eapply IH; [| eapply incl_app_r; eauto | exact H].
    eapply step_keeps_inv; eauto. eapply incl_app_l; eauto.
Qed.

Lemma exec_owned_mono : forall c t f b g b' x,
  exec c f b t = Ok (g, b') -> In x (b_owned b) -> In x (b_owned b').
Proof.
  intros c t. induction t as [|o t IH]; intros f b g b' x H Hx; simpl in H.
  - inversion H; subst. assumption.
  - destruct (step c f b o) as [[f1 b1]|code] eqn:S; [|discriminate].
    eapply IH; [exact H|]. eapply step_owned_mono; eauto.
Qed.

Lemma exec_frame : forall c N t f b g b' x,
  inv c N b -> incl (fresh_names c t) N -> exec c f b t = Ok (g, b') ->
  in_cone c N x = false -> ~ In x (b_owned b') -> wq c x = false -> lookup g x = lookup f x.
Proof.
  intros c N t. induction t as [|o t IH]; intros f b g b' x Hi Hn H Hc Ho Hq; simpl in H.
  - inversion H; subst. reflexivity.
  - destruct (step c f b o) as [[f1 b1]|code] eqn:S; [|discriminate].
    rewrite fresh_cons in Hn.
    assert (Hi1 : inv c N b1) by (eapply step_keeps_inv; eauto; eapply incl_app_l; eauto).
    rewrite (IH f1 b1 g b' x Hi1 (incl_app_r _ _ _ _ Hn) H Hc Ho Hq).
    apply (step_frame c N f b o f1 b1 x Hi (incl_app_l _ _ _ _ Hn) S Hc); [|assumption].
    intro A. apply Ho. eapply exec_owned_mono; eauto.
Qed.

Lemma exec_sim : forall c N t f f' b g b',
  inv c N b -> incl (fresh_names c t) N -> agree (region c N b) f f' -> kagree c f f' ->
  exec c f b t = Ok (g, b') ->
  exists g', exec c f' b t = Ok (g', b') /\ agree (region c N b') g g' /\
             (forall x, lookup f x = lookup f' x -> lookup g x = lookup g' x) /\
             (forall x, kind_of (lookup f x) = kind_of (lookup f' x) ->
                        kind_of (lookup g x) = kind_of (lookup g' x)).
Proof.
  intros c N t. induction t as [|o t IH]; intros f f' b g b' Hi Hn Ha Hk H; simpl in H.
  - inversion H; subst. exists f'. simpl. auto.
  - destruct (step c f b o) as [[f1 b1]|code] eqn:S; [|discriminate].
    rewrite fresh_cons in Hn.
    destruct (step_sim c N f f' b o f1 b1 Hi (incl_app_l _ _ _ _ Hn) Ha Hk S) as [f1' [S' [Ha1 [Hp1 Hk1]]]].
    assert (Hi1 : inv c N b1) by (eapply step_keeps_inv; eauto; eapply incl_app_l; eauto).
    assert (Hk' : kagree c f1 f1') by (intros x Hx; apply Hk1; apply Hk; assumption).
    destruct (IH f1 f1' b1 g b' Hi1 (incl_app_r _ _ _ _ Hn) Ha1 Hk' H) as [g' [E' [Ha' [Hp' Hk2]]]].
    exists g'. simpl. rewrite S'. split; [assumption|]. split; [assumption|]. split.
    + intros x Hx. apply Hp'. apply Hp1. assumption.
    + intros x Hx. apply Hk2. apply Hk1. assumption.
Qed.

(* accept = exec + "a Return was seen" *)
Lemma run_exec : forall c t f b i g,
  run c f b t i = Accepted g <-> exists b', exec c f b t = Ok (g, b') /\ b_done b' = true.
Proof.
  intros c t. induction t as [|o t IH]; intros f b i g; simpl.
  - destruct (b_done b) eqn:E; split.
    + intro H. inversion H; subst. eauto.
    + intros [b' [H D]]. inversion H; subst. reflexivity.
    + discriminate.
    + intros [b' [H D]]. inversion H; subst. congruence.
  - destruct (step c f b o) as [[f1 b1]|code]; [apply IH|].
    split; [discriminate | intros [b' [H _]]; discriminate].
Qed.

Lemma accept_exec : forall c f t g,
  accept c f t = Accepted g <-> exists b', exec c f bk0 t = Ok (g, b') /\ b_done b' = true.
Proof. intros. unfold accept. apply run_exec. Qed.

(* ------------------------------------------------------------------ stale independence *)
Lemma in_cone_outside : forall c N p, is_prefix (c_scratch c) p = false -> in_cone c N p = false.
Proof.
  intros c N p H. destruct (in_cone c N p) eqn:E; [|reflexivity].
  unfold in_cone in E. apply existsb_exists in E. destruct E as [n [_ Hp]].
  assert (X : is_prefix (c_scratch c) p = true).
  { eapply is_prefix_trans; [|exact Hp]. apply is_prefix_spec. eauto. }
  congruence.
Qed.

Lemma outside_scratch_spec : forall c p,
  outside_scratch c = true -> p = c_query c \/ In p (c_inputs c) \/ In p (c_outputs c) ->
  is_prefix (c_scratch c) p = false.
Proof.
  intros c p H Hp. unfold outside_scratch in H. rewrite forallb_forall in H.
  apply negb_true_iff. apply H. simpl. destruct Hp as [->|Hp]; [auto|].
  right. apply in_or_app. assumption.
Qed.

Lemma wq_spec : forall c p, wq c p = true <-> c_obsm c = true /\ p = c_query c.
Proof.
  intros. unfold wq. rewrite andb_true_iff, path_eqb_eq. reflexivity.
Qed.

Theorem stale_independence_thm : forall c t f1 f2 g1,
  outside_scratch c = true -> mem (c_query c) (c_outputs c) = false ->
  (forall p, In p (c_inputs c) -> lookup f1 p = lookup f2 p) ->
  (c_obsm c = true -> lookup f1 (c_query c) = lookup f2 (c_query c)) ->
  (forall p, in_cone c (fresh_names c t) p = true -> lookup f1 p = None /\ lookup f2 p = None) ->
  kagree c f1 f2 ->
  accept c f1 t = Accepted g1 ->
  exists g2, accept c f2 t = Accepted g2 /\
    forall o, In o (c_outputs c) ->
      lookup g1 o = lookup g2 o \/ (lookup g1 o = lookup f1 o /\ lookup g2 o = lookup f2 o).
Proof.
  intros c t f1 f2 g1 Hout Hq Hin Hqq Hcone Hk H.
  apply accept_exec in H. destruct H as [b' [E D]].
  set (N := fresh_names c t) in *.
  assert (Ha : agree (region c N bk0) f1 f2).
  { intros p [Hp|[Hp|[Hp|Hp]]].
    - destruct (Hcone p Hp) as [A B]. congruence.
    - apply Hin. assumption.
    - apply wq_spec in Hp. destruct Hp as [Ho ->]. apply Hqq. assumption.
    - simpl in Hp. contradiction. }
  destruct (exec_sim c N t f1 f2 bk0 g1 b' (inv_bk0 c N) (incl_refl _) Ha Hk E) as [g2 [E2 [Ha2 _]]].
  exists g2. split; [apply accept_exec; eauto|].
  intros o Ho. destruct (mem o (b_owned b')) eqn:M.
  - left. apply Ha2. right. right. right. apply mem_In. assumption.
  - right. apply mem_false in M.
    assert (C : in_cone c N o = false).
    { apply in_cone_outside. apply outside_scratch_spec; auto. }
    assert (Q : wq c o = false).
    { destruct (wq c o) eqn:W; [|reflexivity]. apply wq_spec in W. destruct W as [_ ->].
      apply mem_false in Hq. contradiction. }
    split; eapply exec_frame; eauto using inv_bk0, incl_refl.
Qed.

(* ------------------------------------------------------------------ soundness invariant *)
Definition same_or_q (c : config) (f f0 : fs) (p : path) : Prop :=
  lookup f p = lookup f0 p \/
  (wq c p = true /\ is_file (lookup f p) = true /\ is_file (lookup f0 p) = true).

(* relative to the initial file system f0:
   J1 what this run has not created (and does not own) is as it was — except the content of
      the writable query file;
   J2 what it created was absent at the start (or is an output it owns);
   J3 created_below_fresh: what it created is an owned output or lies under scratch;
   J4 it owns only declared outputs *)
Definition J (f0 : fs) (c : config) (f : fs) (b : bk) : Prop :=
  (forall p, ~ In p (b_created b) -> ~ In p (b_dirs b) -> ~ In p (b_owned b) -> same_or_q c f f0 p) /\
  (forall p, In p (b_created b) \/ In p (b_dirs b) -> In p (b_owned b) \/ lookup f0 p = None) /\
  (forall p, In p (b_created b) -> In p (b_owned b) \/ under (c_scratch c) p = true) /\
  (forall p, In p (b_dirs b) -> under (c_scratch c) p = true) /\
  (forall p, In p (b_owned b) -> In p (c_outputs c)).

Lemma J_init : forall c f0, J f0 c f0 bk0.
Proof.
  intros. repeat split; simpl; intros; try contradiction; try (destruct H; contradiction).
  left. reflexivity.
Qed.

Lemma soq_set : forall c f f0 p ent x, p <> x -> same_or_q c f f0 x -> same_or_q c (set p ent f) f0 x.
Proof.
  intros c f f0 p ent x Hn H. unfold same_or_q in *. rewrite lookup_set.
  apply path_eqb_neq in Hn. rewrite Hn. assumption.
Qed.

Lemma soq_del : forall c f f0 p x, p <> x -> same_or_q c f f0 x -> same_or_q c (remove p f) f0 x.
Proof.
  intros c f f0 p x Hn H. unfold same_or_q in *. rewrite lookup_remove.
  apply path_eqb_neq in Hn. rewrite Hn. assumption.
Qed.

Lemma creatable_under : forall c b p,
  (forall d, In d (b_dirs b) -> under (c_scratch c) d = true) ->
  creatable c b p = true -> under (c_scratch c) p = true.
Proof.
  intros c b p Hd H. apply creatable_spec in H. destruct H as [[n ->]|[d [n [Hi ->]]]].
  - apply under_spec. exists n, []. reflexivity.
  - specialize (Hd d Hi). apply under_spec in Hd. destruct Hd as [m [r ->]].
    apply under_spec. exists m, (r ++ [n]). rewrite <- app_assoc. reflexivity.
Qed.

(* a path outside the declared outputs that is absent now was absent at the start *)
Lemma J_absent : forall f0 c f b p,
  J f0 c f b -> ~ In p (c_outputs c) -> lookup f p = None -> lookup f0 p = None.
Proof.
  intros f0 c f b p [J1 [J2 [J3 [J3b J4]]]] Ho Hl.
  assert (Hw : ~ In p (b_owned b)) by (intro A; apply Ho; apply J4; assumption).
  destruct (mem p (b_created b)) eqn:Mc.
  { apply mem_In in Mc. destruct (J2 p (or_introl Mc)) as [A|A]; [contradiction | assumption]. }
  apply mem_false in Mc.
  destruct (mem p (b_dirs b)) eqn:M.
  - apply mem_In in M. destruct (J2 p (or_intror M)) as [A|A]; [contradiction | assumption].
  - apply mem_false in M. destruct (J1 p Mc M Hw) as [A|[_ [A _]]].
    + congruence.
    + rewrite Hl in A. discriminate.
Qed.

Ltac fin :=
  repeat (match goal with
          | H : _ \/ _ |- _ => destruct H
          | H : _ /\ _ |- _ => destruct H
          | H : In _ (add _ _) |- _ => apply In_add in H
          | H : In _ (del _ _) |- _ => apply In_del in H
          end); subst; auto.

(* ~ In x l  from  ~ In x (add p l)  or  ~ In x (del p l) with p <> x *)
Ltac notin :=
  let A := fresh "A" in
  intro A;
  match goal with
  | H : ~ In _ (add _ (del _ _)) |- _ =>
      apply H; apply In_add; right; apply In_del; split; [congruence | assumption]; fail
  | H : ~ In _ (add _ _) |- _ => apply H; apply In_add; auto; fail
  | H : ~ In _ (del _ _) |- _ => apply H; apply In_del; split; [congruence | assumption]; fail
  | H : ~ In _ _ |- _ => apply H; assumption
  end.

Lemma decide_keeps_J : forall f0 c f b o e b',
  J f0 c f b -> decide c f b o = Ok (e, b') -> J f0 c (apply e f) b'.
Proof.
  intros f0 c f b o e b' HJ H.
  assert (HA : forall p, ~ In p (c_outputs c) -> lookup f p = None -> lookup f0 p = None)
    by (intros; eapply J_absent; eauto).
  destruct HJ as [J1 [J2 [J3 [J3b J4]]]].
  assert (HU : forall p, creatable c b p = true -> under (c_scratch c) p = true)
    by (intros; eapply creatable_under; eauto).
  decide_inv H; norm; cbn [apply]; unfold J; bk_simpl.
  all: try (repeat split; assumption).
  all: split; [intros x Hc Hd Ho | split; [intros x Hx | split; [intros x Hx | split; [intros x Hx | intros x Hx]]]].
  (* J4 *)
  all: try (match goal with |- In _ (c_outputs _) => fin end; fail).
  (* J3b *)
  all: try (match goal with |- under _ _ = true => fin end; fail).
  (* J3 *)
  all: try (match goal with |- _ \/ under _ _ = true =>
              fin; try (left; apply In_add; auto; fail); try (right; auto; fail);
              match goal with H : In ?x (b_created _) |- _ =>
                destruct (J3 x H); [left; try apply In_add; auto | right; auto] end
            end; fail).
  (* J2 *)
  all: try (match goal with |- _ \/ lookup _ _ = None =>
              fin; try (left; apply In_add; auto; fail); try (right; auto; fail);
              try (match goal with H : In ?x (b_created _) |- _ =>
                     destruct (J2 x (or_introl H)); [left; solve [auto | apply In_add; auto] | right; solve [auto]] end);
              try (match goal with H : In ?x (b_dirs _) |- _ =>
                     destruct (J2 x (or_intror H)); [left; solve [auto | apply In_add; auto] | right; solve [auto]] end)
            end; fail).
  (* J1: ESet *)
  all: try (match goal with |- same_or_q _ (set ?p _ ?g) _ ?x =>
              match g with
              | remove _ _ => fail 1
              | _ => destruct (path_eqb p x) eqn:Epx; norm;
                     [ try (exfalso; apply Hc; apply In_add; auto; fail)
                     | apply soq_set; [assumption|]; apply J1; notin ]
              end
            end; fail).
  (* J1: EMove (Rename) *)
  all: try (match goal with |- same_or_q _ (set ?q _ (remove ?p _)) _ ?x => destruct (path_eqb q x) eqn:Eqx; norm;
    [ exfalso; apply Hc;
      solve [ apply In_add; auto | apply In_del; split; [congruence | assumption] ]
    | destruct (path_eqb p x) eqn:Epx; norm;
      [ left; rewrite lookup_set, lookup_remove;
        match goal with H : ?a <> ?b |- context [path_eqb ?a ?b] =>
          apply path_eqb_neq in H; rewrite H end;
        rewrite path_eqb_refl; symmetry;
        match goal with |- lookup _ ?y = None =>
          match goal with H : In y (b_created _) |- _ =>
            destruct (J2 y (or_introl H)) as [A|A];
            [exfalso; apply Ho; solve [assumption | apply In_add; auto] | assumption] end end
      | apply soq_set; [assumption|]; apply soq_del; [assumption|]; apply J1;
        try notin; try (intro A; apply Ho; apply In_add; auto) ] ] end; fail).
  (* J1: ESet with unchanged book-keeping (OpenW, Create of an own file) *)
  - destruct (path_eqb p x) eqn:Epx; norm.
    + destruct E0 as [E0|E0]; norm; [contradiction|].
      right. split; [assumption|]. split; [rewrite lookup_set, path_eqb_refl; reflexivity|].
      destruct (J1 _ Hc Hd Ho) as [A|[_ [_ A]]]; [rewrite <- A; assumption | assumption].
    + apply soq_set; [assumption|]. apply J1; assumption.
  - destruct (path_eqb p x) eqn:Epx; norm.
    + contradiction.
    + apply soq_set; [assumption|]. apply J1; assumption.
  (* J1: EDel (Unlink, Rmdir) *)
  - destruct (path_eqb p x) eqn:Epx; norm.
    + left. rewrite lookup_remove, path_eqb_refl. symmetry.
      destruct (J2 x (or_introl E0)) as [A|A]; [contradiction | assumption].
    + apply soq_del; [assumption|]. apply J1; notin.
  - destruct (path_eqb p x) eqn:Epx; norm.
    + left. rewrite lookup_remove, path_eqb_refl. symmetry.
      destruct (J2 x (or_intror E0)) as [A|A]; [contradiction | assumption].
    + apply soq_del; [assumption|]. apply J1; notin.
Qed.

Lemma step_keeps_J : forall f0 c f b o g b',
  J f0 c f b -> step c f b o = Ok (g, b') -> J f0 c g b'.
Proof.
  intros f0 c f b o g b' HJ H. apply step_decide in H. destruct H as [e [D ->]].
  eapply decide_keeps_J; eauto.
Qed.

Lemma exec_keeps_J : forall f0 c t f b g b',
  J f0 c f b -> exec c f b t = Ok (g, b') -> J f0 c g b'.
Proof.
  intros f0 c t. induction t as [|o t IH]; intros f b g b' HJ H; simpl in H.
  - inversion H; subst. assumption.
  - destruct (step c f b o) as [[f1 b1]|code] eqn:S; [|discriminate].
    eapply IH; [|exact H]. eapply step_keeps_J; eauto.
Qed.

(* ------------------------------------------------------------------ return_clean *)
Definition clean (c : config) (b : bk) : bool :=
  forallb (fun p => negb (under (c_scratch c) p)) (b_created b ++ b_dirs b).

Lemma decide_done : forall c f b o e b',
  decide c f b o = Ok (e, b') ->
  match o with
  | Return ok => b_done b' = true /\ (ok || c_strict c = true -> clean c b' = true)
  | _ => b_done b' = false
  end.
Proof.
  intros c f b o e b' H.
  assert (D : b_done b = false) by (eapply decide_not_done; eauto).
  decide_inv H; bk_simpl; auto; split; auto; intro; try discriminate.
  all: unfold clean; bk_simpl; try assumption.
Qed.

Lemma exec_done_nil : forall c t f b g b',
  b_done b = true -> exec c f b t = Ok (g, b') -> t = [].
Proof.
  intros c t f b g b' D H. destruct t as [|o t]; [reflexivity|]. simpl in H.
  unfold step, decide in H. rewrite D in H. discriminate.
Qed.

Lemma exec_clean : forall c t f b g b',
  b_done b = false -> must_be_clean c t = true -> exec c f b t = Ok (g, b') -> clean c b' = true.
Proof.
  intros c t. induction t as [|o t IH]; intros f b g b' D M H; simpl in *; [discriminate|].
  destruct (step c f b o) as [[f1 b1]|code] eqn:S; [|discriminate].
  apply step_decide in S. destruct S as [e [Dd _]]. apply decide_done in Dd.
  destruct o as [x|x cid|x tr cid|x|x|x|x y|x|ok|x r];
    try (simpl in M; eapply IH; eauto; fail).
  destruct Dd as [D1 Hc]. pose proof (exec_done_nil _ _ _ _ _ _ D1 H) as ->.
  simpl in H. inversion H; subst. simpl in M. rewrite orb_false_r in M. auto.
Qed.

Lemma clean_spec : forall c b p,
  clean c b = true -> In p (b_created b) \/ In p (b_dirs b) -> under (c_scratch c) p = false.
Proof.
  intros c b p H Hp. unfold clean in H. rewrite forallb_forall in H.
  apply negb_true_iff. apply H. apply in_or_app. assumption.
Qed.

(* ------------------------------------------------------------------ c19_acceptor_sound *)
Theorem acceptor_sound : forall c f0 t g,
  accept c f0 t = Accepted g ->
  (* inputs keep their content (the query file unless obsm_key is set) *)
  (forall i, In i (c_inputs c) -> lookup f0 i <> None -> ~ In i (c_outputs c) -> wq c i = false ->
             lookup g i = lookup f0 i) /\
  (* after a Return that obliges to clean up (ok, or error of a mapping run):
     the scratch directory is exactly as it was ... *)
  (must_be_clean c t = true -> outside_scratch c = true ->
     forall p, under (c_scratch c) p = true -> lookup g p = lookup f0 p) /\
  (* ... and nothing exists that did not exist before, except declared outputs *)
  (must_be_clean c t = true ->
     forall p, lookup f0 p = None -> lookup g p <> None -> In p (c_outputs c)) /\
  (* in any case: whatever is new lies at a declared output or under scratch *)
  (forall p, lookup f0 p = None -> lookup g p <> None ->
             In p (c_outputs c) \/ under (c_scratch c) p = true).
Proof.
  intros c f0 t g H. apply accept_exec in H. destruct H as [b' [E D]].
  pose proof (exec_keeps_J f0 c t f0 bk0 g b' (J_init c f0) E) as [J1 [J2 [J3 [J3b J4]]]].
  assert (NEW : forall p, lookup f0 p = None -> lookup g p <> None ->
                          In p (b_owned b') \/ In p (b_created b') \/ In p (b_dirs b')).
  { intros p H0 Hg.
    destruct (mem p (b_owned b')) eqn:Mo; [apply mem_In in Mo; auto|]. apply mem_false in Mo.
    destruct (mem p (b_created b')) eqn:Mc; [apply mem_In in Mc; auto|]. apply mem_false in Mc.
    destruct (mem p (b_dirs b')) eqn:Md; [apply mem_In in Md; auto|]. apply mem_false in Md.
    exfalso. destruct (J1 p Mc Md Mo) as [A|[_ [_ A]]].
    - congruence.
    - rewrite H0 in A. discriminate. }
  split; [|split; [|split]].
  - intros i Hi He Ho Hq.
    assert (Mo : ~ In i (b_owned b')) by (intro A; apply Ho; apply J4; assumption).
    assert (Mc : ~ In i (b_created b')).
    { intro A. destruct (J2 i (or_introl A)); [contradiction | congruence]. }
    assert (Md : ~ In i (b_dirs b')).
    { intro A. destruct (J2 i (or_intror A)); [contradiction | congruence]. }
    destruct (J1 i Mc Md Mo) as [A|[A _]]; [assumption | congruence].
  - intros M Hout p Hu.
    pose proof (exec_clean c t f0 bk0 g b' eq_refl M E) as C.
    assert (Mo : ~ In p (b_owned b')).
    { intro A. apply J4 in A. pose proof (outside_scratch_spec c p Hout (or_intror (or_intror A))) as X.
      apply under_is_prefix in Hu. congruence. }
    assert (Mc : ~ In p (b_created b')).
    { intro A. pose proof (clean_spec c b' p C (or_introl A)). congruence. }
    assert (Md : ~ In p (b_dirs b')).
    { intro A. pose proof (clean_spec c b' p C (or_intror A)). congruence. }
    destruct (J1 p Mc Md Mo) as [A|[A _]]; [assumption|].
    apply wq_spec in A. destruct A as [_ ->].
    pose proof (outside_scratch_spec c (c_query c) Hout (or_introl eq_refl)) as X.
    apply under_is_prefix in Hu. congruence.
  - intros M p H0 Hg.
    pose proof (exec_clean c t f0 bk0 g b' eq_refl M E) as C.
    destruct (NEW p H0 Hg) as [A|[A|A]].
    + apply J4. assumption.
    + destruct (J3 p A) as [B|B]; [apply J4; assumption|].
      pose proof (clean_spec c b' p C (or_introl A)). congruence.
    + pose proof (J3b p A). pose proof (clean_spec c b' p C (or_intror A)). congruence.
  - intros p H0 Hg. destruct (NEW p H0 Hg) as [A|[A|A]].
    + left. apply J4. assumption.
    + destruct (J3 p A) as [B|B]; [left; apply J4; assumption | right; assumption].
    + right. apply J3b. assumption.
Qed.

(* ------------------------------------------------------------------ two runs, one file system *)
Fixpoint exec2 (c1 c2 : config) (f : fs) (b1 b2 : bk) (il : list (bool * op)) : res (fs * bk * bk) :=
  match il with
  | [] => Ok (f, b1, b2)
  | (true, o) :: t => match step c1 f b1 o with
                      | Ok (f', b1') => exec2 c1 c2 f' b1' b2 t
                      | Err e => Err e
                      end
  | (false, o) :: t => match step c2 f b2 o with
                       | Ok (f', b2') => exec2 c1 c2 f' b1 b2' t
                       | Err e => Err e
                       end
  end.

Lemma run2_exec2 : forall c1 c2 il f b1 b2 i g,
  run2 c1 c2 f b1 b2 il i = Accepted2 g <->
  exists b1' b2', exec2 c1 c2 f b1 b2 il = Ok (g, b1', b2') /\ b_done b1' = true /\ b_done b2' = true.
Proof.
  intros c1 c2 il. induction il as [|[w o] t IH]; intros f b1 b2 i g; simpl.
  - destruct (b_done b1) eqn:E1; [destruct (b_done b2) eqn:E2|]; split;
      try discriminate;
      try (intro H; inversion H; subst; eauto; fail);
      try (intros [x [y [H [D1 D2]]]]; inversion H; subst; congruence).
  - destruct w.
    + destruct (step c1 f b1 o) as [[f1 b1']|code]; [apply IH|].
      split; [discriminate | intros [x [y [H _]]]; discriminate].
    + destruct (step c2 f b2 o) as [[f1 b2']|code]; [apply IH|].
      split; [discriminate | intros [x [y [H _]]]; discriminate].
Qed.

Lemma region_reads : forall c N b p, inv c N b -> region c N b p -> reads c N p = true.
Proof.
  intros c N b p [_ [_ [I3 _]]] H. unfold reads. destruct H as [H|[H|[H|H]]].
  - rewrite H. reflexivity.
  - apply mem_In in H. rewrite H. rewrite orb_true_r. reflexivity.
  - rewrite H. rewrite orb_true_r. reflexivity.
  - apply I3 in H. apply mem_In in H. rewrite H. rewrite !orb_true_r. reflexivity.
Qed.

Lemma writes_false : forall c N x, writes c N x = false ->
  in_cone c N x = false /\ mem x (c_outputs c) = false /\ wq c x = false.
Proof.
  intros c N x H. unfold writes in H. apply orb_false_iff in H. destruct H as [H H3].
  apply orb_false_iff in H. tauto.
Qed.

Lemma step_frame_w : forall c N f b o g b' x,
  inv c N b -> incl (op_fresh c o) N -> step c f b o = Ok (g, b') ->
  writes c N x = false -> lookup g x = lookup f x.
Proof.
  intros c N f b o g b' x Hi Hn H Hw. apply writes_false in Hw. destruct Hw as [A [B C]].
  assert (Hi' : inv c N b') by (eapply step_keeps_inv; eauto).
  apply (step_frame c N f b o g b' x Hi Hn H A); [|exact C].
  intro X. destruct Hi' as [_ [_ [I3 _]]]. apply I3 in X.
  apply mem_false in B. contradiction.
Qed.

Lemma reads_false_of_sep : forall (R W : path -> bool) x,
  (forall y, W y = true -> R y = false) -> R x = true -> W x = false.
Proof.
  intros R W x H Hr. destruct (W x) eqn:E; [|reflexivity]. apply H in E. congruence.
Qed.

Lemma exec2_sim : forall c1 c2 N1 N2,
  (forall x, writes c1 N1 x = true -> reads c2 N2 x = false) ->
  (forall x, writes c2 N2 x = true -> reads c1 N1 x = false) ->
  (forall x, writes c1 N1 x = true -> kregion c2 x = false) ->
  (forall x, writes c2 N2 x = true -> kregion c1 x = false) ->
  forall il f f1 f2 b1 b2 g1 b1' g2 b2',
  inv c1 N1 b1 -> inv c2 N2 b2 ->
  incl (fresh_names c1 (proj true il)) N1 -> incl (fresh_names c2 (proj false il)) N2 ->
  agree (region c1 N1 b1) f1 f -> agree (region c2 N2 b2) f2 f ->
  kagree c1 f1 f -> kagree c2 f2 f ->
  exec c1 f1 b1 (proj true il) = Ok (g1, b1') -> exec c2 f2 b2 (proj false il) = Ok (g2, b2') ->
  exists g, exec2 c1 c2 f b1 b2 il = Ok (g, b1', b2') /\
    agree (region c1 N1 b1') g1 g /\ agree (region c2 N2 b2') g2 g /\
    (forall x, in_cone c1 N1 x = false -> ~ In x (b_owned b1') -> wq c1 x = false ->
               writes c2 N2 x = false -> lookup g x = lookup f x) /\
    (forall x, in_cone c2 N2 x = false -> ~ In x (b_owned b2') -> wq c2 x = false ->
               writes c1 N1 x = false -> lookup g x = lookup f x).
Proof.
  intros c1 c2 N1 N2 S12 S21 SK12 SK21 il.
  induction il as [|[w o] t IH]; intros f f1 f2 b1 b2 g1 b1' g2 b2' I1 I2 F1 F2 A1 A2 K1 K2 E1 E2.
  - simpl in *. inversion E1; subst. inversion E2; subst. exists f. repeat split; auto.
  - destruct w.
    + change (proj true ((true, o) :: t)) with (o :: proj true t) in *.
      change (proj false ((true, o) :: t)) with (proj false t) in *.
      simpl in E1. destruct (step c1 f1 b1 o) as [[h1 d1]|code] eqn:S; [|discriminate].
      rewrite fresh_cons in F1.
      pose proof (incl_app_l _ _ _ _ F1) as Fo. pose proof (incl_app_r _ _ _ _ F1) as Ft.
      destruct (step_sim c1 N1 f1 f b1 o h1 d1 I1 Fo A1 K1 S) as [h [S' [Ah [_ Kh]]]].
      assert (I1' : inv c1 N1 d1) by (exact (step_keeps_inv c1 N1 f b1 o h d1 I1 Fo S')).
      assert (FR : forall x, writes c1 N1 x = false -> lookup h x = lookup f x)
        by (intros x Hw; exact (step_frame_w c1 N1 f b1 o h d1 x I1 Fo S' Hw)).
      assert (A2' : agree (region c2 N2 b2) f2 h).
      { intros x Hx. rewrite (A2 x Hx). symmetry. apply FR.
        apply (reads_false_of_sep (reads c2 N2) (writes c1 N1) x S12).
        exact (region_reads c2 N2 b2 x I2 Hx). }
      assert (K1' : kagree c1 h1 h) by (intros x Hx; apply Kh; apply K1; assumption).
      assert (K2' : kagree c2 f2 h).
      { intros x Hx. rewrite (K2 x Hx). rewrite FR; [reflexivity|].
        apply (reads_false_of_sep (kregion c2) (writes c1 N1) x SK12). assumption. }
      destruct (IH h h1 f2 d1 b2 g1 b1' g2 b2' I1' I2 Ft F2 Ah A2' K1' K2' E1 E2) as [g [X [B1 [B2 [G1 G2]]]]].
      exists g. simpl. rewrite S'. split; [assumption|]. split; [assumption|]. split; [assumption|].
      split.
      * intros x C O Q W. rewrite (G1 x C O Q W).
        apply (step_frame c1 N1 f b1 o h d1 x I1 Fo S' C); [|exact Q].
        intro Y. apply O. eapply exec_owned_mono; eauto.
      * intros x C O Q W. rewrite (G2 x C O Q W). apply FR. assumption.
    + change (proj true ((false, o) :: t)) with (proj true t) in *.
      change (proj false ((false, o) :: t)) with (o :: proj false t) in *.
      simpl in E2. destruct (step c2 f2 b2 o) as [[h2 d2]|code] eqn:S; [|discriminate].
      rewrite fresh_cons in F2.
      pose proof (incl_app_l _ _ _ _ F2) as Fo. pose proof (incl_app_r _ _ _ _ F2) as Ft.
      destruct (step_sim c2 N2 f2 f b2 o h2 d2 I2 Fo A2 K2 S) as [h [S' [Ah [_ Kh]]]].
      assert (I2' : inv c2 N2 d2) by (exact (step_keeps_inv c2 N2 f b2 o h d2 I2 Fo S')).
      assert (FR : forall x, writes c2 N2 x = false -> lookup h x = lookup f x)
        by (intros x Hw; exact (step_frame_w c2 N2 f b2 o h d2 x I2 Fo S' Hw)).
      assert (A1' : agree (region c1 N1 b1) f1 h).
      { intros x Hx. rewrite (A1 x Hx). symmetry. apply FR.
        apply (reads_false_of_sep (reads c1 N1) (writes c2 N2) x S21).
        exact (region_reads c1 N1 b1 x I1 Hx). }
      assert (K2' : kagree c2 h2 h) by (intros x Hx; apply Kh; apply K2; assumption).
      assert (K1' : kagree c1 f1 h).
      { intros x Hx. rewrite (K1 x Hx). rewrite FR; [reflexivity|].
        apply (reads_false_of_sep (kregion c1) (writes c2 N2) x SK21). assumption. }
      destruct (IH h f1 h2 b1 d2 g1 b1' g2 b2' I1 I2' F1 Ft A1' Ah K1' K2' E1 E2) as [g [X [B1 [B2 [G1 G2]]]]].
      exists g. simpl. rewrite S'. split; [assumption|]. split; [assumption|]. split; [assumption|].
      split.
      * intros x C O Q W. rewrite (G1 x C O Q W). apply FR. assumption.
      * intros x C O Q W. rewrite (G2 x C O Q W).
        apply (step_frame c2 N2 f b2 o h d2 x I2 Fo S' C); [|exact Q].
        intro Y. apply O. eapply exec_owned_mono; eauto.
Qed.

(* ------------------------------------------------------------------ compatb gives separation *)
Lemma In_wlist : forall c x, In x (wlist c) <-> In x (c_outputs c) \/ wq c x = true.
Proof.
  intros. unfold wlist. rewrite in_app_iff. rewrite wq_spec. destruct (c_obsm c); simpl; split.
  - intros [H|[H|[]]]; auto.
  - intros [H|[_ H]]; auto.
  - intros [H|[]]; auto.
  - intros [H|[H _]]; [auto | discriminate].
Qed.

Lemma In_rlist : forall c x, In x (rlist c) <-> In x (c_inputs c) \/ In x (c_outputs c) \/ wq c x = true.
Proof.
  intros. unfold rlist. rewrite !in_app_iff. rewrite wq_spec. destruct (c_obsm c); simpl; split.
  - intros [H|[H|[H|[]]]]; auto.
  - intros [H|[H|[_ H]]]; auto.
  - intros [H|[H|[]]]; auto.
  - intros [H|[H|[H _]]]; [auto | auto | discriminate].
Qed.

Lemma writes_cases : forall c N x, writes c N x = true -> in_cone c N x = true \/ In x (wlist c).
Proof.
  intros c N x H. unfold writes in H. apply orb_true_iff in H. destruct H as [H|H].
  - apply orb_true_iff in H. destruct H as [H|H]; [auto|].
    right. apply In_wlist. left. apply mem_In. assumption.
  - right. apply In_wlist. auto.
Qed.

Lemma reads_cases : forall c N x, reads c N x = true -> in_cone c N x = true \/ In x (rlist c).
Proof.
  intros c N x H. unfold reads in H. apply orb_true_iff in H. destruct H as [H|H].
  - apply orb_true_iff in H. destruct H as [H|H].
    + apply orb_true_iff in H. destruct H as [H|H]; [auto|].
      right. apply In_rlist. left. apply mem_In. assumption.
    + right. apply In_rlist. right. left. apply mem_In. assumption.
  - right. apply In_rlist. auto.
Qed.

Lemma writes_reads : forall c N x, writes c N x = true -> reads c N x = true.
Proof.
  intros c N x H. unfold writes in H. unfold reads.
  apply orb_true_iff in H. destruct H as [H|H].
  - apply orb_true_iff in H. destruct H as [H|H]; rewrite H; rewrite ?orb_true_r; reflexivity.
  - rewrite H. rewrite orb_true_r. reflexivity.
Qed.

Lemma in_cone_prefix : forall c N x, in_cone c N x = true -> is_prefix (c_scratch c) x = true.
Proof.
  intros c N x H. destruct (is_prefix (c_scratch c) x) eqn:E; [reflexivity|].
  rewrite (in_cone_outside c N x E) in H. discriminate.
Qed.

Lemma prefix_same_pos : forall s a b x,
  is_prefix (s ++ [a]) x = true -> is_prefix (s ++ [b]) x = true -> a = b.
Proof.
  intros s a b x H1 H2. apply is_prefix_spec in H1. apply is_prefix_spec in H2.
  destruct H1 as [r1 H1]. destruct H2 as [r2 H2]. subst.
  rewrite <- !app_assoc in H2. apply app_inv_head in H2. simpl in H2. inversion H2. reflexivity.
Qed.

Lemma In_declared_outside : forall c x,
  outside_scratch c = true -> In x (rlist c) -> is_prefix (c_scratch c) x = false.
Proof.
  intros c x Ho H. apply In_rlist in H. apply outside_scratch_spec; [assumption|].
  destruct H as [H|[H|H]]; auto. apply wq_spec in H. destruct H as [_ ->]. auto.
Qed.

Lemma wlist_rlist : forall c x, In x (wlist c) -> In x (rlist c).
Proof. intros c x H. apply In_wlist in H. apply In_rlist. tauto. Qed.

Lemma sep_one : forall c1 N1 c2 N2,
  c_scratch c1 = c_scratch c2 ->
  (forall n, In n N1 -> ~ In n N2) ->
  (forall p, In p (wlist c1) -> ~ In p (rlist c2)) ->
  outside_scratch c1 = true -> outside_scratch c2 = true ->
  forall x, writes c1 N1 x = true -> reads c2 N2 x = false.
Proof.
  intros c1 N1 c2 N2 Hs Hn Hw O1 O2 x W.
  destruct (reads c2 N2 x) eqn:R; [exfalso|reflexivity].
  apply writes_cases in W. apply reads_cases in R. destruct W as [W|W]; destruct R as [R|R].
  - unfold in_cone in W, R. apply existsb_exists in W. apply existsb_exists in R.
    destruct W as [n1 [I1 P1]]. destruct R as [n2 [I2 P2]]. rewrite <- Hs in P2.
    pose proof (prefix_same_pos _ _ _ _ P1 P2). subst. eapply Hn; eauto.
  - apply in_cone_prefix in W. rewrite Hs in W.
    rewrite (In_declared_outside c2 x O2 R) in W. discriminate.
  - apply in_cone_prefix in R. rewrite <- Hs in R.
    rewrite (In_declared_outside c1 x O1 (wlist_rlist _ _ W)) in R. discriminate.
  - eapply Hw; eauto.
Qed.

Lemma cone_not_kregion : forall c1 c2 N x,
  c_scratch c1 = c_scratch c2 -> outside_scratch c2 = true ->
  in_cone c1 N x = true -> kregion c2 x = false.
Proof.
  intros c1 c2 N x Hs Ho Hc. destruct (kregion c2 x) eqn:K; [exfalso|reflexivity].
  unfold kregion in K. apply existsb_exists in K. destruct K as [d [Hd Hp]].
  unfold in_cone in Hc. apply existsb_exists in Hc. destruct Hc as [n [_ Hn]].
  pose proof (is_prefix_trans _ _ _ Hn Hp) as T. rewrite Hs in T.
  destruct Hd as [<-|Hd].
  - apply is_prefix_spec in T. destruct T as [r T].
    assert (L : length (c_scratch c2) = length ((c_scratch c2 ++ [n]) ++ r)) by (rewrite <- T; reflexivity).
    rewrite !app_length in L. simpl in L. lia.
  - assert (P : is_prefix (c_scratch c2) d = true).
    { eapply is_prefix_trans; [|exact T]. apply is_prefix_spec. eauto. }
    rewrite (outside_scratch_spec c2 d Ho) in P; [discriminate|].
    destruct Hd as [Hd|Hd]; [left; auto|]. right. apply in_app_or in Hd. assumption.
Qed.

Lemma compatb_sep : forall c1 N1 c2 N2, compatb c1 N1 c2 N2 = true ->
  (forall x, writes c1 N1 x = true -> reads c2 N2 x = false) /\
  (forall x, writes c2 N2 x = true -> reads c1 N1 x = false) /\
  outside_scratch c1 = true /\ outside_scratch c2 = true /\
  (forall x, writes c1 N1 x = true -> kregion c2 x = false) /\
  (forall x, writes c2 N2 x = true -> kregion c1 x = false).
Proof.
  intros c1 N1 c2 N2 H. unfold compatb in H.
  repeat (apply andb_true_iff in H; destruct H as [H ?]).
  apply path_eqb_eq in H.
  rename H0 into O2. rename H1 into O1. rename H2 into W2. rename H3 into W1. rename H4 into D.
  rewrite forallb_forall in D, W1, W2.
  assert (D12 : forall n, In n N1 -> ~ In n N2).
  { intros n I1 I2. specialize (D n I1). apply negb_true_iff in D.
    assert (X : existsb (Z.eqb n) N2 = true) by (apply existsb_exists; exists n; split; [assumption | apply Z.eqb_refl]).
    congruence. }
  assert (D21 : forall n, In n N2 -> ~ In n N1) by (intros n I2 I1; eapply D12; eauto).
  assert (W12 : forall p, In p (wlist c1) -> ~ In p (rlist c2)).
  { intros p I1 I2. specialize (W1 p I1). apply andb_true_iff in W1. destruct W1 as [W1 _].
    apply negb_true_iff in W1. apply mem_In in I2. congruence. }
  assert (W21 : forall p, In p (wlist c2) -> ~ In p (rlist c1)).
  { intros p I1 I2. specialize (W2 p I1). apply andb_true_iff in W2. destruct W2 as [W2 _].
    apply negb_true_iff in W2. apply mem_In in I2. congruence. }
  split; [|split; [|split; [|split; [|split]]]]; auto.
  - eapply sep_one; eauto.
  - eapply sep_one; eauto.
  - intros x Hw. apply writes_cases in Hw. destruct Hw as [Hw|Hw].
    + eapply cone_not_kregion; [| exact O2 | exact Hw]. assumption.
    + specialize (W1 x Hw). apply andb_true_iff in W1. destruct W1 as [_ W1].
      apply negb_true_iff in W1. assumption.
  - intros x Hw. apply writes_cases in Hw. destruct Hw as [Hw|Hw].
    + eapply cone_not_kregion; [| exact O1 | exact Hw]. symmetry. assumption.
    + specialize (W2 x Hw). apply andb_true_iff in W2. destruct W2 as [_ W2].
      apply negb_true_iff in W2. assumption.
Qed.

(* ------------------------------------------------------------------ concurrent_noninterference *)
Lemma agree_refl : forall P f, agree P f f.
Proof. intros P f p _. reflexivity. Qed.

Lemma output_untouched_args : forall c N o,
  outside_scratch c = true -> mem (c_query c) (c_outputs c) = false -> In o (c_outputs c) ->
  in_cone c N o = false /\ wq c o = false.
Proof.
  intros c N o Ho Hq Hi. split.
  - apply in_cone_outside. apply outside_scratch_spec; auto.
  - destruct (wq c o) eqn:W; [|reflexivity]. apply wq_spec in W. destruct W as [_ ->].
    apply mem_false in Hq. contradiction.
Qed.

Theorem concurrent_noninterference_thm : forall c1 c2 f il g1 g2,
  mem (c_query c1) (c_outputs c1) = false -> mem (c_query c2) (c_outputs c2) = false ->
  accept c1 f (proj true il) = Accepted g1 ->
  accept c2 f (proj false il) = Accepted g2 ->
  compatb c1 (fresh_names c1 (proj true il)) c2 (fresh_names c2 (proj false il)) = true ->
  exists g, accept2 c1 c2 f il = Accepted2 g /\
    (forall o, In o (c_outputs c1) -> lookup g o = lookup g1 o) /\
    (forall o, In o (c_outputs c2) -> lookup g o = lookup g2 o).
Proof.
  intros c1 c2 f il g1 g2 Q1 Q2 H1 H2 HC.
  set (N1 := fresh_names c1 (proj true il)) in *. set (N2 := fresh_names c2 (proj false il)) in *.
  apply compatb_sep in HC. destruct HC as [S12 [S21 [O1 [O2 [SK12 SK21]]]]].
  apply accept_exec in H1. destruct H1 as [b1' [E1 D1]].
  apply accept_exec in H2. destruct H2 as [b2' [E2 D2]].
  destruct (exec2_sim c1 c2 N1 N2 S12 S21 SK12 SK21 il f f f bk0 bk0 g1 b1' g2 b2'
              (inv_bk0 _ _) (inv_bk0 _ _) (incl_refl _) (incl_refl _)
              (agree_refl _ _) (agree_refl _ _) (fun _ _ => eq_refl) (fun _ _ => eq_refl) E1 E2)
    as [g [X [B1 [B2 [G1 G2]]]]].
  exists g. split; [|split].
  - unfold accept2. apply run2_exec2. eauto.
  - intros o Ho. destruct (mem o (b_owned b1')) eqn:M.
    + symmetry. apply B1. right. right. right. apply mem_In. assumption.
    + apply mem_false in M.
      destruct (output_untouched_args c1 N1 o O1 Q1 Ho) as [C W].
      assert (W2 : writes c2 N2 o = false).
      { destruct (writes c2 N2 o) eqn:E; [|reflexivity]. apply S21 in E.
        assert (R : reads c1 N1 o = true).
        { unfold reads. apply mem_In in Ho. rewrite Ho. rewrite orb_true_r. reflexivity. }
        congruence. }
      rewrite (G1 o C M W W2). symmetry.
      eapply exec_frame; eauto using inv_bk0, incl_refl.
  - intros o Ho. destruct (mem o (b_owned b2')) eqn:M.
    + symmetry. apply B2. right. right. right. apply mem_In. assumption.
    + apply mem_false in M.
      destruct (output_untouched_args c2 N2 o O2 Q2 Ho) as [C W].
      assert (W1 : writes c1 N1 o = false).
      { destruct (writes c1 N1 o) eqn:E; [|reflexivity]. apply S12 in E.
        assert (R : reads c2 N2 o = true).
        { unfold reads. apply mem_In in Ho. rewrite Ho. rewrite orb_true_r. reflexivity. }
        congruence. }
      rewrite (G2 o C M W W1). symmetry.
      eapply exec_frame; eauto using inv_bk0, incl_refl.
Qed.
