(* Lemmas about Model/Tree.v, part 4: get_taxonomy_tree (tree from per-cell label columns). *)
From Coq Require Import ZArith List Bool Lia Permutation.
From CTM Require Import Base.Sx Base.ListX Base.SortX Model.Tree Proofs.TreeValidateP Proofs.TreeLeavesP.
Import ListNotations.
Open Scope Z_scope.

(* ------------------------------------------------------------------ add_edge *)
Lemma add_edge_lists lv p c s q d :
  lists (add_edge lv p c s) q d <-> lists lv q d \/ (q = p /\ d = c).
Proof.
  induction lv as [|[q0 cs0] t IH]; cbn [add_edge].
  - rewrite lists_cons. split.
    + intros [[-> [->|[]]]|H]; [right; split; reflexivity | destruct (lists_nil _ _ H)].
    + intros [H|[-> ->]]; [destruct (lists_nil _ _ H) | left; split; [reflexivity | left; reflexivity]].
  - destruct (q0 =? p) eqn:E.
    + apply Z.eqb_eq in E. subst q0. rewrite !lists_cons. split.
      * intros [[-> Hd]|H]; [|left; right; exact H].
        destruct (s && zmem c cs0) eqn:Es; [left; left; split; [reflexivity | exact Hd]|].
        apply in_app_iff in Hd. destruct Hd as [Hd|[<-|[]]]; [left; left; split; [reflexivity | exact Hd] | right; split; reflexivity].
      * intros [[[-> Hd]|H]|[-> ->]].
        -- left. split; [reflexivity|]. destruct (s && zmem c cs0); [exact Hd | apply in_app_iff; left; exact Hd].
        -- right. exact H.
        -- left. split; [reflexivity|]. destruct (s && zmem c cs0) eqn:Es.
           ++ apply andb_true_iff in Es. destruct Es as [_ Es]. apply zmem_in. exact Es.
           ++ apply in_app_iff. right. left. reflexivity.
    + rewrite !lists_cons, IH. tauto.
Qed.

Lemma add_edge_nodes lv p c s x :
  In x (nodes (add_edge lv p c s)) <-> In x (nodes lv) \/ x = p.
Proof.
  induction lv as [|[q0 cs0] t IH]; cbn [add_edge].
  - cbn. intuition.
  - destruct (q0 =? p) eqn:E.
    + apply Z.eqb_eq in E. subst q0. cbn. intuition.
    + cbn [nodes map fst In] in *. rewrite IH. tauto.
Qed.

Lemma add_edge_wf lv p c s : wf_level lv -> wf_level (add_edge lv p c s).
Proof.
  unfold wf_level. induction lv as [|[q0 cs0] t IH]; cbn [add_edge]; intros W.
  - cbn. constructor; [intros [] | constructor].
  - destruct (q0 =? p) eqn:E; [exact W|].
    cbn [nodes map fst] in *. inversion W as [|? ? Wq Wt]; subst. constructor; [|apply IH; exact Wt].
    intros Hin. apply (add_edge_nodes t p c s q0) in Hin. destruct Hin as [Hin| ->]; [contradiction|].
    rewrite Z.eqb_refl in E. discriminate.
Qed.

Lemma add_edge_child_nodup lv p c : child_lists_nodup lv -> child_lists_nodup (add_edge lv p c true).
Proof.
  unfold child_lists_nodup. induction lv as [|[q0 cs0] t IH]; cbn [add_edge]; intros N q cs Hin.
  - destruct Hin as [E|[]]. inversion E; subst. constructor; [intros [] | constructor].
  - destruct (q0 =? p) eqn:E.
    + destruct Hin as [E'|Hin]; [|apply (N q cs); right; exact Hin].
      inversion E'; subst. cbn [andb]. destruct (zmem c cs0) eqn:Em; [apply (N q cs0); left; reflexivity|].
      apply zmem_false in Em.
      apply NoDup_app; [apply (N q cs0); left; reflexivity | constructor; [intros [] | constructor]|].
      intros x Hx [<-|[]]. contradiction.
    + destruct Hin as [E'|Hin]; [inversion E'; subst; apply (N q cs); left; reflexivity|].
      apply (IH (fun q' cs' H => N q' cs' (or_intror H)) q cs Hin).
Qed.

Lemma add_edge_rows_perm lv p c :
  Permutation (concat (map snd (add_edge lv p c false))) (c :: concat (map snd lv)).
Proof.
  induction lv as [|[q0 cs0] t IH]; cbn [add_edge]; [reflexivity|].
  destruct (q0 =? p); cbn [andb map snd concat].
  - rewrite <- app_assoc. cbn [app]. symmetry. apply Permutation_middle.
  - rewrite IH. symmetry. apply Permutation_middle.
Qed.

(* ------------------------------------------------------------------ add_record: one add_edge per level *)
Lemma add_record_levels a r row : length a = length r ->
  length (add_record a r row) = length a /\
  forall k, (k < length a)%nat ->
    exists p c s, nth_error r k = Some p /\
      nth k (add_record a r row) [] = add_edge (nth k a []) p c s /\
      ((nth_error r (S k) = Some c /\ s = true) \/ (S k = length r /\ c = row /\ s = false)).
Proof.
  revert r. induction a as [|lv a' IH]; intros r H; [split; [reflexivity | intros k Hk; cbn in Hk; lia]|].
  destruct r as [|p rest]; [discriminate|]. destruct rest as [|c rest'].
  - destruct a'; [|discriminate]. cbn. split; [reflexivity|]. intros k Hk. assert (k = 0%nat) by lia. subst.
    exists p, row, false. split; [reflexivity|]. split; [reflexivity|]. right. repeat split; reflexivity.
  - cbn [add_record]. cbn in H. destruct (IH (c :: rest') ltac:(cbn; lia)) as [L G]. split; [cbn; lia|].
    intros k Hk. destruct k as [|k].
    + exists p, c, true. split; [reflexivity|]. split; [reflexivity|]. left. split; reflexivity.
    + cbn [nth]. destruct (G k ltac:(cbn in Hk; lia)) as (p' & c' & s & E1 & E2 & E3).
      exists p', c', s. split; [exact E1|]. split; [exact E2|].
      destruct E3 as [[E3 ->]|(E3 & -> & ->)]; [left; split; [exact E3 | reflexivity]|].
      right. split; [cbn in *; lia | split; reflexivity].
Qed.

Lemma last_is_nth {A} (l : list A) d : last l d = nth (length l - 1) l d.
Proof.
  induction l as [|a t IH]; [reflexivity|]. destruct t as [|b t']; [reflexivity|].
  change (last (a :: b :: t') d) with (last (b :: t') d). rewrite IH. cbn [length].
  replace (S (S (length t')) - 1)%nat with (S (S (length t') - 1)) by lia. reflexivity.
Qed.

Lemma inner_nodup_of_nth t :
  (forall k, (S k < length t)%nat -> child_lists_nodup (nth k t [])) -> inner_nodup t.
Proof.
  induction t as [|lv rest IH]; intros G; [exact Logic.I|].
  destruct rest as [|lv2 rest']; [exact Logic.I|]. split.
  - apply (G 0%nat). cbn. lia.
  - apply IH. intros k Hk. apply (G (S k)). cbn in *. lia.
Qed.

Lemma inner_nodup_nth t k : inner_nodup t -> (S k < length t)%nat -> child_lists_nodup (nth k t []).
Proof.
  revert t. induction k as [|k IH]; intros t N H; destruct t as [|a l]; cbn in H; try lia.
  - destruct l; [cbn in H; lia | apply N].
  - cbn [nth]. apply IH; [destruct l; [exact Logic.I | apply N] | lia].
Qed.

Section Records.
  Variable n : nat.
  Hypothesis Hn : (1 <= n)%nat.

  Definition rec_ok (r : list Z) : Prop := length r = n.

  (* what one record contributes at level k *)
  Definition contributes (r : list Z) (row : Z) (k : nat) (p c : Z) : Prop :=
    nth_error r k = Some p /\ (nth_error r (S k) = Some c \/ (S k = n /\ c = row)).

  Lemma add_record_step a r row : length a = n -> rec_ok r ->
    length (add_record a r row) = n /\
    (wf a -> wf (add_record a r row)) /\
    (forall k, (S k < n)%nat -> child_lists_nodup (nth k a []) -> child_lists_nodup (nth k (add_record a r row) [])) /\
    (forall k p c, (k < n)%nat ->
       (lists (nth k (add_record a r row) []) p c <-> lists (nth k a []) p c \/ contributes r row k p c)) /\
    (forall k x, (k < n)%nat ->
       (In x (nodes (nth k (add_record a r row) [])) <-> In x (nodes (nth k a [])) \/ nth_error r k = Some x)) /\
    Permutation (leaf_rows (add_record a r row)) (row :: leaf_rows a).
  Proof.
    intros La Lr. unfold rec_ok in Lr. destruct (add_record_levels a r row ltac:(lia)) as [L G].
    split; [lia|]. split; [|split; [|split; [|split]]].
    - intros W. apply Forall_nth. intros k d Hk. rewrite (nth_indep _ d []) by exact Hk.
      destruct (G k ltac:(lia)) as (p & c & s & _ & -> & _). apply add_edge_wf. apply wf_nth. exact W.
    - intros k Hk N. destruct (G k ltac:(lia)) as (p & c & s & E1 & -> & [[E3 ->]|(E3 & _)]); [|lia].
      apply add_edge_child_nodup. exact N.
    - intros k p c Hk. destruct (G k ltac:(lia)) as (p' & c' & s & E1 & -> & E3).
      rewrite add_edge_lists. unfold contributes. split.
      + intros [H|[-> ->]]; [left; exact H|]. right. split; [exact E1|].
        destruct E3 as [[E3 _]|(E3 & -> & _)]; [left; exact E3 | right; split; [lia | reflexivity]].
      + intros [H|[H1 H2]]; [left; exact H|]. right. split; [congruence|].
        destruct E3 as [[E3 _]|(E3 & -> & _)], H2 as [H2|[H2 ->]]; try congruence.
        * exfalso. assert (S k < length r)%nat by (apply nth_error_Some; congruence). lia.
        * exfalso. assert (S k < length r)%nat by (apply nth_error_Some; congruence). lia.
    - intros k x Hk. destruct (G k ltac:(lia)) as (p' & c' & s & E1 & -> & _).
      rewrite add_edge_nodes. split; (intros [H|H]; [left; exact H | right]).
      + subst x. exact E1.
      + rewrite E1 in H. inversion H. reflexivity.
    - unfold leaf_rows, leaf_level. rewrite !last_is_nth, L.
      destruct (G (length a - 1)%nat ltac:(lia)) as (p & c & s & E1 & -> & [[E3 _]|(_ & -> & ->)]).
      + exfalso. assert (S (length a - 1) < length r)%nat by (apply nth_error_Some; congruence). lia.
      + apply add_edge_rows_perm.
  Qed.

  (* the whole loop *)
  Lemma tree_of_records_spec records : Forall rec_ok records -> forall acc row, length acc = n ->
    let res := tree_of_records n records row acc in
    length res = n /\
    (wf acc -> wf res) /\
    (forall k, (S k < n)%nat -> child_lists_nodup (nth k acc []) -> child_lists_nodup (nth k res [])) /\
    (forall k p c, (k < n)%nat ->
       (lists (nth k res []) p c <->
        lists (nth k acc []) p c \/
        exists i r, nth_error records i = Some r /\ contributes r (row + Z.of_nat i) k p c)) /\
    (forall k x, (k < n)%nat ->
       (In x (nodes (nth k res [])) <->
        In x (nodes (nth k acc [])) \/ exists r, In r records /\ nth_error r k = Some x)) /\
    Permutation (leaf_rows res) (rev (map (fun i => row + Z.of_nat i) (seq 0 (length records))) ++ leaf_rows acc).
  Proof.
    intros F. induction F as [|r rest Hr F IH]; intros acc row La; cbn [tree_of_records].
    - split; [exact La|]. split; [tauto|]. split; [tauto|]. split; [|split].
      + intros k p c _. split; [tauto|]. intros [H|(i & r & E & _)]; [exact H | destruct i; discriminate].
      + intros k x _. split; [tauto|]. intros [H|(r & [] & _)]. exact H.
      + reflexivity.
    - destruct (add_record_step acc r row La Hr) as (S1 & S2 & S3 & S4 & S5 & S6).
      destruct (IH (add_record acc r row) (row + 1) S1) as (I1 & I2 & I3 & I4 & I5 & I6).
      split; [exact I1|]. split; [tauto|]. split; [intros k Hk N; apply I3; [exact Hk | apply S3; assumption]|].
      split; [|split].
      + intros k p c Hk. rewrite I4, S4 by exact Hk. split.
        * intros [[H|H]|(i & r' & E & H)].
          -- left. exact H.
          -- right. exists 0%nat, r. split; [reflexivity|]. rewrite Z.add_0_r. exact H.
          -- right. exists (S i), r'. split; [exact E|]. replace (row + Z.of_nat (S i)) with (row + 1 + Z.of_nat i) by lia. exact H.
        * intros [H|(i & r' & E & H)]; [left; left; exact H|]. destruct i as [|i].
          -- cbn in E. inversion E; subst r'. rewrite Z.add_0_r in H. left. right. exact H.
          -- right. exists i, r'. split; [exact E|]. replace (row + 1 + Z.of_nat i) with (row + Z.of_nat (S i)) by lia. exact H.
      + intros k x Hk. rewrite I5, S5 by exact Hk. split.
        * intros [[H|H]|(r' & Hin & H)]; [left; exact H | right; exists r; split; [left; reflexivity | exact H]|].
          right. exists r'. split; [right; exact Hin | exact H].
        * intros [H|(r' & [<-|Hin] & H)]; [left; left; exact H | left; right; exact H|].
          right. exists r'. split; assumption.
      + rewrite I6, S6. cbn [length seq map rev]. rewrite Z.add_0_r.
        rewrite <- seq_shift, map_map. rewrite <- app_assoc. cbn [app].
        replace (map (fun i => row + Z.of_nat (S i)) (seq 0 (length rest)))
          with (map (fun i => row + 1 + Z.of_nat i) (seq 0 (length rest)))
          by (apply map_ext; intros i; lia).
        reflexivity.
  Qed.

  (* some label has two different parents *)
  Definition two_parents (records : list (list Z)) : Prop :=
    exists k r r' c, (S k < n)%nat /\ In r records /\ In r' records /\
      nth_error r (S k) = Some c /\ nth_error r' (S k) = Some c /\ nth_error r k <> nth_error r' k.

  Definition raw_tree (records : list (list Z)) : tree := tree_of_records n records 0 (repeat [] n).

  Lemma nth_repeat_nil k : nth k (repeat (@nil (node * list Z)) n) [] = [].
  Proof. generalize n. induction k as [|k IH]; intros m; destruct m; cbn; try reflexivity. apply IH. Qed.

  Theorem raw_tree_spec records : Forall rec_ok records ->
    length (raw_tree records) = n /\ wf (raw_tree records) /\ inner_nodup (raw_tree records) /\
    (* edges = label combinations present *)
    (forall k p c, (S k < n)%nat ->
       (lists (nth k (raw_tree records) []) p c <->
        exists r, In r records /\ nth_error r k = Some p /\ nth_error r (S k) = Some c)) /\
    (* nodes = labels present *)
    (forall k x, (k < n)%nat ->
       (In x (nodes (nth k (raw_tree records) [])) <-> exists r, In r records /\ nth_error r k = Some x)) /\
    (* rows of a leaf = positions of the cells carrying that label *)
    (forall l i, lists (leaf_level (raw_tree records)) l i <->
       exists j r, nth_error records j = Some r /\ nth_error r (n - 1) = Some l /\ i = Z.of_nat j) /\
    NoDup (leaf_rows (raw_tree records)).
  Proof.
    intros F. unfold raw_tree.
    destruct (tree_of_records_spec records F (repeat [] n) 0 (repeat_length _ _)) as (I1 & I2 & I3 & I4 & I5 & I6).
    cbv zeta in *. set (res := tree_of_records n records 0 (repeat [] n)) in *.
    split; [exact I1|]. split; [|split; [|split; [|split; [|split]]]].
    - apply I2. unfold wf. apply Forall_forall. intros lv Hlv. apply repeat_spec in Hlv. subst. constructor.
    - assert (G : forall k, (S k < n)%nat -> child_lists_nodup (nth k res [])).
      { intros k Hk. apply I3; [exact Hk|]. rewrite nth_repeat_nil. intros p cs []. }
      apply inner_nodup_of_nth. intros k Hk. apply G. rewrite <- I1. exact Hk.
    - intros k p c Hk. rewrite I4 by lia. rewrite nth_repeat_nil. unfold contributes. split.
      + intros [H|(i & r & E & H1 & [H2|[H2 _]])]; [destruct (lists_nil _ _ H) | | lia].
        exists r. split; [apply (nth_error_In _ _ E) | tauto].
      + intros (r & Hin & H1 & H2). right. apply In_nth_error in Hin. destruct Hin as [i E].
        exists i, r. tauto.
    - intros k x Hk. rewrite I5 by exact Hk. rewrite nth_repeat_nil. cbn. tauto.
    - intros l i. unfold leaf_level. rewrite last_is_nth, I1. rewrite I4 by lia. rewrite nth_repeat_nil.
      unfold contributes. split.
      + intros [H|(j & r & E & H1 & [H2|[_ ->]])]; [destruct (lists_nil _ _ H) | |].
        * exfalso. assert (S (n - 1) < length r)%nat by (apply nth_error_Some; congruence).
          pose proof (proj1 (Forall_forall _ _) F r (nth_error_In _ _ E)) as Lr. unfold rec_ok in Lr. lia.
        * exists j, r. split; [exact E|]. split; [exact H1 | lia].
      + intros (j & r & E & H1 & ->). right. exists j, r. split; [exact E|]. split; [exact H1|].
        right. split; lia.
    - eapply Permutation_NoDup; [apply Permutation_sym; exact I6|].
      assert (E0 : leaf_rows (repeat [] n) = []).
      { unfold leaf_rows, leaf_level. rewrite last_is_nth, nth_repeat_nil. reflexivity. }
      rewrite E0, app_nil_r. apply NoDup_rev. apply NoDup_map_in_inj; [apply seq_NoDup|].
      intros x y _ _ E. lia.
  Qed.

  (* two_parents is decidable: a boolean search over levels and pairs of records *)
  Definition opt_eqb (a b : option Z) : bool :=
    match a, b with Some x, Some y => x =? y | None, None => true | _, _ => false end.
  Lemma opt_eqb_spec a b : opt_eqb a b = true <-> a = b.
  Proof.
    destruct a as [x|], b as [y|]; cbn; try (split; congruence).
    rewrite Z.eqb_eq. split; congruence.
  Qed.
  Definition clash (k : nat) (r r' : list Z) : bool :=
    match nth_error r (S k) with
    | Some c => opt_eqb (nth_error r' (S k)) (Some c) && negb (opt_eqb (nth_error r k) (nth_error r' k))
    | None => false
    end.
  Definition two_parents_b (records : list (list Z)) : bool :=
    existsb (fun k => existsb (fun r => existsb (clash k r) records) records) (seq 0 (n - 1)).

  Lemma two_parents_b_spec records : two_parents_b records = true <-> two_parents records.
  Proof.
    unfold two_parents_b, two_parents. rewrite existsb_exists. split.
    - intros (k & Hk & H). apply in_seq in Hk. apply existsb_exists in H. destruct H as (r & Hr & H).
      apply existsb_exists in H. destruct H as (r' & Hr' & H). unfold clash in H.
      destruct (nth_error r (S k)) as [c|] eqn:Ec; [|discriminate].
      apply andb_true_iff in H. destruct H as [H1 H2]. apply opt_eqb_spec in H1.
      apply negb_true_iff in H2. exists k, r, r', c. repeat split; try assumption; [lia|].
      intros E. apply opt_eqb_spec in E. congruence.
    - intros (k & r & r' & c & Hk & Hr & Hr' & E1 & E2 & Hne). exists k. split; [apply in_seq; lia|].
      apply existsb_exists. exists r. split; [exact Hr|]. apply existsb_exists. exists r'. split; [exact Hr'|].
      unfold clash. rewrite E1. apply andb_true_iff. split; [apply opt_eqb_spec; exact E2|].
      apply negb_true_iff. destruct (opt_eqb (nth_error r k) (nth_error r' k)) eqn:E; [|reflexivity].
      apply opt_eqb_spec in E. contradiction.
  Qed.

  (* accepted exactly when no label has two parents *)
  Theorem from_labels_verdict records : Forall rec_ok records ->
    (get_taxonomy_tree n records = TOk (raw_tree records) /\ ~ two_parents records) \/
    (get_taxonomy_tree n records = TErr E_INVALID /\ two_parents records).
  Proof.
    intros F. destruct (raw_tree_spec records F) as (L & W & N & Ed & Nd & _ & R).
    assert (Hrec : forall r k, In r records -> (k < n)%nat -> exists x, nth_error r k = Some x).
    { intros r k Hin Hk. pose proof (proj1 (Forall_forall _ _) F r Hin) as Lr. unfold rec_ok in Lr.
      destruct (nth_error r k) as [x|] eqn:E; [eexists; reflexivity|]. apply nth_error_None in E. lia. }
    assert (V : validate (raw_tree records) = true <-> ~ two_parents records).
    { rewrite validate_iff. split.
      - intros (_ & S & _) (k & r & r' & c & Hk & Hr & Hr' & E1 & E2 & Hne). rewrite L in S.
        destruct (S k Hk) as (_ & _ & U).
        destruct (Hrec r k Hr ltac:(lia)) as [p Ep]. destruct (Hrec r' k Hr' ltac:(lia)) as [p' Ep'].
        apply Hne. rewrite Ep, Ep'. f_equal. apply (U p p' c); apply Ed; try exact Hk.
        + exists r. tauto.
        + exists r'. tauto.
      - intros NT.
        assert (U : forall k, (S k < n)%nat -> forall p p' c,
                  lists (nth k (raw_tree records) []) p c -> lists (nth k (raw_tree records) []) p' c -> p = p').
        { intros k Hk p p' c Hl Hl'. apply Ed in Hl, Hl'; try exact Hk.
          destruct Hl as (r & Hr & Ep & Ec), Hl' as (r' & Hr' & Ep' & Ec').
          destruct (Z.eq_dec p p') as [E|Hne]; [exact E|]. exfalso. apply NT.
          exists k, r, r', c. repeat split; try assumption. congruence. }
        split; [intros E; rewrite E in L; cbn in L; lia|]. split; [|split; [exact R|]].
        2:{ rewrite L. intros k Hk. apply all_children_nodup;
              [apply wf_nth; exact W | apply inner_nodup_nth; [exact N | rewrite L; exact Hk] | apply U; exact Hk]. }
        rewrite L. intros k Hk. split; [|split].
        + intros c Hc. apply Nd in Hc; [|lia]. destruct Hc as (r & Hr & Ec).
          destruct (Hrec r k Hr ltac:(lia)) as [p Ep]. exists p. apply Ed; [exact Hk|]. exists r. tauto.
        + intros p c Hl. apply Ed in Hl; [|exact Hk]. destruct Hl as (r & Hr & _ & Ec). apply Nd; [lia|].
          exists r. tauto.
        + apply U. exact Hk. }
    unfold get_taxonomy_tree, mk_tree. fold (raw_tree records).
    destruct (two_parents_b records) eqn:Eb.
    - apply two_parents_b_spec in Eb. right. split; [|exact Eb].
      destruct (validate (raw_tree records)) eqn:E; [|reflexivity]. exfalso. apply (proj1 V eq_refl). exact Eb.
    - assert (NT : ~ two_parents records) by (intros TP; apply two_parents_b_spec in TP; congruence).
      left. split; [|exact NT]. rewrite (proj2 V NT). reflexivity.
  Qed.
End Records.
