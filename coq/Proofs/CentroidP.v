(* C18 lifted from one iteration to the whole vote at a node: a centroid query wins every
   iteration, so its child gets all the votes, probability 1, and no runner-up. *)
From Coq Require Import ZArith List Bool Lia Arith Permutation Sorted.
From CTM Require Import Base.Sx Base.ListX Base.SortX Model.Vote Proofs.VoteP Proofs.VoteMainP Proofs.ChooseP.
Import ListNotations.
Open Scope Z_scope.

(* the hypotheses of the property for one drawn subset S: the cell coincides with leaf l's
   mean profile on S, is not flat on S, and no leaf of another child is perfectly
   correlated with it on S *)
Definition centroid_on (q : vec) (refs : list vec) (owners : list Z) (l : nat) (rl : vec) (S : list nat) : Prop :=
  getcols S rl = getcols S q /\
  0 < ccov (getcols S q) (getcols S q) /\
  (forall j rj, nth_error refs j = Some rj -> nth j owners (-1) <> nth l owners (-1) ->
       let qs := getcols S q in let rs := getcols S rj in
       ccov rs rs = 0 \/ ccov qs rs < 0 \/ ccov qs rs * ccov qs rs < ccov qs qs * ccov rs rs).

Lemma tally_cons q refs S subsets winners :
  tally q refs (S :: subsets) = Some winners ->
  exists w ws, winners = w :: ws /\ nearest q refs S = Some w /\ tally q refs subsets = Some ws.
Proof.
  unfold tally. cbn [map opt_all]. destruct (nearest q refs S) as [w|]; [|discriminate].
  destruct (opt_all (map (nearest q refs) subsets)) as [ws|]; [|discriminate].
  intros H. injection H as <-. eauto.
Qed.

Theorem centroid_unanimous q refs (owners : list Z) subsets l rl winners :
  nth_error refs l = Some rl ->
  Forall (centroid_on q refs owners l rl) subsets ->
  tally q refs subsets = Some winners ->
  length winners = length subsets /\
  Forall (fun w => (w < length refs)%nat) winners /\
  Forall (fun w => nth w owners (-1) = nth l owners (-1)) winners /\
  votes_for owners winners (nth l owners (-1)) = length subsets /\
  (forall c, c <> nth l owners (-1) -> votes_for owners winners c = 0%nat).
Proof.
  intros Hl. revert winners. induction subsets as [|S subsets IH]; intros winners HF Ht.
  - unfold tally in Ht. cbn in Ht. injection Ht as <-. cbn. repeat split; auto.
  - destruct (tally_cons _ _ _ _ _ Ht) as (w & ws & -> & Hn & Hts).
    inversion HF as [|? ? (H1 & H2 & H3) HF']; subst.
    destruct (IH ws HF' Hts) as (I1 & I0 & I2 & I3 & I4).
    pose proof (centroid_wins q refs owners S l rl w Hl H1 H2 H3 Hn) as Hw.
    split; [cbn; lia|].
    split; [constructor; [apply (nearest_is_argmax _ _ _ _ Hn) | assumption]|].
    split; [constructor; assumption|]. split.
    + unfold votes_for, count in *. cbn [filter]. rewrite Hw, Z.eqb_refl. cbn [length]. rewrite I3. reflexivity.
    + intros c Hc. unfold votes_for, count in *. cbn [filter]. rewrite Hw.
      destruct (Z.eqb_spec (nth l owners (-1)) c) as [E | _]; [congruence|]. apply I4. exact Hc.
Qed.

(* ... hence whatever the tie order of the sort, choose_node reports l's child with all the
   votes (bootstrapping probability 1) and no runner-up *)
Theorem centroid_probability_one q refs (owners : list Z) subsets l rl winners order n_assign w wv rs :
  nth_error refs l = Some rl -> length owners = length refs ->
  subsets <> [] ->
  Forall (centroid_on q refs owners l rl) subsets ->
  tally q refs subsets = Some winners ->
  Permutation order (zdistinct owners) ->
  StronglySorted (fun a b => (b <= a)%nat) (map (votes_for owners winners) order) ->
  (1 <= n_assign)%nat ->
  choose_with order (votes_for owners winners) n_assign = Some (w, wv, rs) ->
  w = nth l owners (-1) /\ wv = length subsets /\ rs = [].
Proof.
  intros Hl Hlen Hne HF Ht HP HS Hn Hc.
  destruct (centroid_unanimous _ _ _ _ _ _ _ Hl HF Ht) as (U1 & U0 & U2 & U3 & U4).
  set (vf := votes_for owners winners) in *.
  assert (Htot : nsum (map vf (zdistinct owners)) = length winners).
  { apply votes_total. rewrite Hlen. exact U0. }
  pose proof (choose_contract vf (zdistinct owners) order n_assign (length winners) w wv rs
                (zdistinct_nodup owners) HP HS Hn Htot) as C.
  assert (Hi : (1 <= length winners)%nat) by (rewrite U1; destruct subsets; [congruence | cbn; lia]).
  destruct (C Hi Hc) as (C1 & C2 & C3 & C4 & _ & _ & C7 & C8 & _).
  assert (Hw : w = nth l owners (-1)).
  { destruct (Z.eq_dec w (nth l owners (-1))) as [E | NE]; [exact E|]. rewrite (U4 w NE) in C2. lia. }
  split; [exact Hw|]. split; [rewrite <- C2, Hw; exact U3|].
  destruct rs as [|r rs']; [reflexivity|]. exfalso.
  destruct (C8 r (or_introl eq_refl)) as (_ & Hpos & Hv).
  assert (NE : fst r <> nth l owners (-1)) by (intros E; apply C7; left; rewrite E, Hw; reflexivity).
  rewrite (U4 _ NE) in Hv. lia.
Qed.

(* ---------------- a concrete non-trivial instance of the hypotheses ---------------- *)
Lemma centroid_example_ok :
  Forall (centroid_on [8; 0; 16; 24] [[0; 8; 0; 0]; [16; 0; 32; 50]; [8; 0; 16; 24]] [1; 1; 2] 2 [8; 0; 16; 24])
         [[0%nat; 2%nat; 3%nat]; [0%nat; 1%nat; 3%nat]].
Proof.
  assert (Hcase : forall S,
     (forall rj, In rj [[0; 8; 0; 0]; [16; 0; 32; 50]] ->
        let qs := getcols S [8; 0; 16; 24] in let rs := getcols S rj in
        ccov rs rs = 0 \/ ccov qs rs < 0 \/ ccov qs rs * ccov qs rs < ccov qs qs * ccov rs rs) ->
     0 < ccov (getcols S [8; 0; 16; 24]) (getcols S [8; 0; 16; 24]) ->
     centroid_on [8; 0; 16; 24] [[0; 8; 0; 0]; [16; 0; 32; 50]; [8; 0; 16; 24]] [1; 1; 2] 2 [8; 0; 16; 24] S).
  { intros S Hr Hv. split; [reflexivity|]. split; [exact Hv|].
    intros j rj Hj Hne. destruct j as [|[|[|j']]]; cbn in Hj.
    - injection Hj as <-. apply Hr. left. reflexivity.
    - injection Hj as <-. apply Hr. right. left. reflexivity.
    - exfalso. apply Hne. reflexivity.
    - destruct j'; discriminate. }
  constructor; [|constructor; [|constructor]]; apply Hcase.
  - intros rj [<- | [<- | []]]; vm_compute; first [left; reflexivity | right; left; reflexivity | right; right; reflexivity].
  - vm_compute. reflexivity.
  - intros rj [<- | [<- | []]]; vm_compute; first [left; reflexivity | right; left; reflexivity | right; right; reflexivity].
  - vm_compute. reflexivity.
Qed.
