(* The unchecked queries of Model/Tree.v (ancestors, children: total, [] where nothing is found)
   against the checked ones (ancestors_chk, children_chk: KeyError / RuntimeError as values).
   On a node of an accepted tree they agree; on a non-node the checked ones return the error the
   code raises.  So every statement of Props/C10.v written with the unchecked queries speaks about
   the code exactly where its (level, node) argument is a node -- and the `_chk` corollaries below
   restate the ancestor clauses of drop_level and of the drop_cells round trip on nodes, with the
   checked query. *)
From Coq Require Import ZArith List Bool Lia Permutation.
From CTM Require Import Base.Sx Base.ListX Base.SortX Model.Tree Proofs.TreeP.
Import ListNotations.
Open Scope Z_scope.

Theorem queries_total_on_nodes t : validate t = true -> wf t ->
  forall li x, (li < length t)%nat ->
  (In x (nodes (nth li t [])) ->
     ancestors_chk t li x = TOk (ancestors t li x) /\
     children_chk t li x = TOk (children t (Some (li, x)))) /\
  (~ In x (nodes (nth li t [])) ->
     children_chk t li x = TErr E_NONODE /\ children t (Some (li, x)) = [] /\
     ancestors t li x = [] /\
     ((0 < li)%nat -> ancestors_chk t li x = TErr E_KEY) /\
     (li = 0%nat -> ancestors_chk t li x = TOk [])).
Proof.
  intros V W li x Hli. split.
  - intros Hx. split; [apply ancestors_chk_ok; assumption|].
    unfold children_chk. cbn [children]. apply zmem_in in Hx. rewrite Hx. reflexivity.
  - intros Hx. assert (Hm : zmem x (nodes (nth li t [])) = false) by (apply zmem_false; exact Hx).
    split; [unfold children_chk; rewrite Hm; reflexivity|].
    split.
    { cbn [children]. unfold children_of. destruct (zassoc x (nth li t [])) as [cs|] eqn:E; [|reflexivity].
      exfalso. apply Hx. apply zassoc_in in E. unfold nodes. apply (in_map fst) in E. exact E. }
    destruct li as [|k].
    + split; [reflexivity|]. split; [intros H; lia | intros _; reflexivity].
    + assert (Hn : parent_of (nth k t []) x = None).
      { destruct (parent_of (nth k t []) x) as [p|] eqn:E; [|reflexivity]. exfalso. apply Hx.
        destruct (validate_strict t k V Hli) as (_ & S2 & _). apply (S2 p). apply parent_of_lists. exact E. }
      cbn [ancestors ancestors_chk]. rewrite Hn. split; [reflexivity|]. split; [intros _; reflexivity | intros H; discriminate H].
Qed.

(* drop_level: the ancestor clause of drop_preserves on the nodes of the reduced tree, with the
   query that raises *)
Theorem drop_preserves_chk t li : validate t = true -> wf t -> (S li < length t)%nat ->
  exists t', drop_level t li = TOk t' /\
    forall j x, (j < length t')%nat -> In x (nodes (nth j t' [])) ->
      In x (nodes (nth (up_level li j) t [])) /\
      ancestors_chk t (up_level li j) x = TOk (ancestors t (up_level li j) x) /\
      ancestors_chk t' j x = TOk (squash li (ancestors t (up_level li j) x)).
Proof.
  intros V W Hli. destruct (drop_preserves t li V W Hli) as (t' & E & V' & W' & L & _ & N & A & _).
  exists t'. split; [exact E|]. intros j x Hj Hx.
  assert (Hx' : In x (nodes (nth (up_level li j) t []))) by (rewrite <- N; exact Hx).
  assert (Hu : (up_level li j < length t)%nat).
  { unfold up_level. destruct (j <? li)%nat; lia. }
  split; [exact Hx'|]. split; [apply ancestors_chk_ok; assumption|].
  rewrite <- A. apply ancestors_chk_ok; assumption.
Qed.

(* to_str(drop_cells=True) / from_str: the ancestor clause of roundtrip_preserves on nodes *)
Theorem roundtrip_preserves_chk t : validate t = true -> wf t ->
  forall j x, (j < length t)%nat -> In x (nodes (nth j t [])) ->
    In x (nodes (nth j (drop_cells t) [])) /\
    ancestors_chk (drop_cells t) j x = TOk (ancestors t j x) /\
    ancestors_chk t j x = TOk (ancestors t j x).
Proof.
  intros V W j x Hj Hx. destruct (roundtrip_preserves t V W) as (V' & W' & L & N & _ & _ & A & _).
  assert (Hx' : In x (nodes (nth j (drop_cells t) []))) by (rewrite N; exact Hx).
  split; [exact Hx'|]. split; [|apply ancestors_chk_ok; assumption].
  rewrite <- (A j x Hj). apply ancestors_chk_ok; [exact V' | rewrite L; exact Hj | exact Hx'].
Qed.
