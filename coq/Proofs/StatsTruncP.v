(* Truncation of a reference-statistics file, composed with the taxonomy lemmas (C09 x C10):
   the tree written by truncate_precomputed_stats_file is the old tree without the dropped
   levels (again accepted), and the collapsed table holds, per new leaf, the statistics of
   exactly the cells of the old leaves below it = what the writer computes directly against
   the coarser taxonomy.  Uses Proofs/StatsP.v (table level) and Proofs/TreeP.v,
   Proofs/TreeBackfillP.v (drop_level / drop_leaf_level / ancestors). *)
From Coq Require Import ZArith List Bool Arith Lia Permutation.
From CTM Require Import Base.Sx Base.ListX Base.SortX Model.Tree Model.Stats.
From CTM Require Import Proofs.TreeP Proofs.TreeBackfillP Proofs.StatsP.
Import ListNotations.
Open Scope Z_scope.

(* ------------------------------------------------------------------ *)
(* 0. small list facts                                                  *)
Lemma index_of_nth : forall hier lv pos, index_of lv hier = Some pos ->
  nth pos hier 0%nat = lv /\ (pos < length hier)%nat.
Proof.
  induction hier as [|y t IH]; intros lv pos H; [discriminate H|].
  cbn [index_of] in H. destruct (Nat.eqb_spec lv y) as [->|Hne].
  - inversion H; subst. cbn. split; [reflexivity | lia].
  - destruct (index_of lv t) as [p|] eqn:E; [|discriminate H]. cbn in H. inversion H; subst.
    destruct (IH lv p E) as [I1 I2]. cbn [nth length]. split; [exact I1 | lia].
Qed.

Lemma index_of_in : forall hier lv, In lv hier -> exists pos, index_of lv hier = Some pos.
Proof.
  induction hier as [|y t IH]; intros lv H; [destruct H|].
  cbn [index_of]. destruct (Nat.eqb_spec lv y) as [->|Hne]; [exists 0%nat; reflexivity|].
  destruct H as [H|H]; [congruence|]. destruct (IH lv H) as (p & Hp). rewrite Hp. exists (S p). reflexivity.
Qed.

Lemma index_of_last : forall l x, ~ In x l -> index_of x (l ++ [x]) = Some (length l).
Proof.
  induction l as [|y t IH]; intros x H.
  - cbn. rewrite Nat.eqb_refl. reflexivity.
  - cbn [app index_of length]. destruct (Nat.eqb_spec x y) as [->|Hne]; [exfalso; apply H; left; reflexivity|].
    rewrite IH; [reflexivity|]. intros Hin. apply H. right. exact Hin.
Qed.

Lemma remove_nth_length {A} : forall n (l : list A), (n < length l)%nat ->
  length (remove_nth n l) = (length l - 1)%nat.
Proof.
  induction n as [|n IH]; intros [|a l] H; cbn in *; try lia.
  rewrite IH by lia. lia.
Qed.

Lemma remove_nth_last {A} : forall (l : list A) x, remove_nth (length l) (l ++ [x]) = l.
Proof. induction l as [|a l IH]; intros x; cbn; [reflexivity | rewrite IH; reflexivity]. Qed.

Lemma bool_eq_iff (a b : bool) : (a = true <-> b = true) -> a = b.
Proof. destruct a, b; intros [H1 H2]; try reflexivity; [symmetry; apply H1 | apply H2]; reflexivity. Qed.

Lemma opt_map_in {A B} (f : A -> option B) : forall l a, opt_map f l = Some a ->
  forall b, In b a <-> exists x, In x l /\ f x = Some b.
Proof.
  induction l as [|x t IH]; intros a H b.
  - inversion H; subst. split; [intros [] | intros (x & [] & _)].
  - cbn in H. destruct (f x) as [bx|] eqn:Ex; [|discriminate H].
    destruct (opt_map f t) as [t'|] eqn:Et; [|discriminate H]. inversion H; subst. split.
    + intros [<-|Hb]; [exists x; split; [left; reflexivity | exact Ex]|].
      apply (IH t' eq_refl b) in Hb. destruct Hb as (y & Hy & Fy). exists y. split; [right; exact Hy | exact Fy].
    + intros (y & [<-|Hy] & Fy); [left; congruence|]. right. apply (IH t' eq_refl b). exists y. split; assumption.
Qed.

Lemma opt_map_total {A B} (f : A -> option B) : forall l,
  (forall x, In x l -> exists b, f x = Some b) -> exists a, opt_map f l = Some a.
Proof.
  induction l as [|x t IH]; intros H; [exists []; reflexivity|].
  destruct (H x (or_introl eq_refl)) as (b & Hb). destruct IH as (a & Ha).
  { intros y Hy. apply H. right. exact Hy. }
  exists (b :: a). cbn. rewrite Hb, Ha. reflexivity.
Qed.

(* ------------------------------------------------------------------ *)
(* 1. the drop loop of truncate, non-leaf levels: it is Tree.drop_levels *)
Lemma sdrop_app : forall a b t hier,
  Stats.drop_levels t hier (a ++ b) =
  bind (Stats.drop_levels t hier a) (fun th => Stats.drop_levels (fst th) (snd th) b).
Proof.
  induction a as [|lv a IH]; intros b t hier; [reflexivity|].
  cbn [app Stats.drop_levels]. destruct (index_of lv hier) as [pos|]; [|reflexivity].
  destruct (if Nat.eqb (S pos) (length hier) then drop_leaf_level t else drop_level t pos) as [t'|c]; [|reflexivity].
  apply IH.
Qed.

Lemma sdrop_inner : forall to_drop t0 hier,
  validate t0 = true -> wf t0 -> length hier = length t0 -> NoDup hier -> NoDup to_drop ->
  (forall lv, In lv to_drop -> In lv hier /\ lv <> last hier 0%nat) ->
  exists lis t' hier',
    drops_ok (length t0) lis /\ length lis = length to_drop /\
    Tree.drop_levels t0 lis = TOk t' /\
    Stats.drop_levels t0 hier to_drop = Ok (t', hier') /\
    (forall k, nth k hier' 0%nat = nth (up_levels lis k) hier 0%nat).
Proof.
  induction to_drop as [|lv rest IH]; intros t0 hier V W HL NDh NDd Hin.
  - exists [], t0, hier. cbn. repeat split; reflexivity.
  - destruct (Hin lv (or_introl eq_refl)) as [Hlv Hnl].
    destruct (index_of_in hier lv Hlv) as (pos & Epos).
    destruct (index_of_nth hier lv pos Epos) as [Enth Hpos].
    assert (Hnot : S pos <> length hier).
    { intros E. apply Hnl. rewrite last_is_nth. rewrite <- Enth. f_equal. lia. }
    assert (Hs : (S pos < length t0)%nat) by lia.
    destruct (drop_preserves t0 pos V W Hs) as (t1 & E1 & V1 & W1 & L1 & _).
    assert (Hrm : remove_nth pos hier = filter (fun x => negb (Nat.eqb x lv)) hier)
      by (apply index_of_remove; assumption).
    inversion NDd as [|x l Hx Hl]; subst x l.
    destruct (IH t1 (remove_nth pos hier) V1 W1) as (lis & t' & hier' & OK & LL & ET & ES & EN).
    + rewrite remove_nth_length by exact Hpos. lia.
    + rewrite Hrm. apply NoDup_filter. exact NDh.
    + exact Hl.
    + intros lv' Hlv'. destruct (Hin lv' (or_intror Hlv')) as [H1 H2]. split.
      * rewrite Hrm. apply filter_In. split; [exact H1|]. apply negb_true_iff. apply Nat.eqb_neq.
        intros ->. exact (Hx Hlv').
      * assert (El : last (remove_nth pos hier) 0%nat = last hier 0%nat).
        { rewrite !last_is_nth. rewrite remove_nth_length by exact Hpos. rewrite nth_remove_nth.
          replace (length hier - 1 - 1 <? pos)%nat with false by (symmetry; apply Nat.ltb_ge; lia).
          f_equal. lia. }
        rewrite El. exact H2.
    + exists (pos :: lis), t', hier'. split; [|split; [|split; [|split]]].
      * cbn [drops_ok]. split; [exact Hs|]. rewrite <- L1. exact OK.
      * cbn [length]. lia.
      * cbn [Tree.drop_levels]. rewrite E1. exact ET.
      * cbn [Stats.drop_levels]. rewrite Epos.
        replace (Nat.eqb (S pos) (length hier)) with false by (symmetry; apply Nat.eqb_neq; exact Hnot).
        rewrite E1. exact ES.
      * intros k. rewrite EN. rewrite nth_remove_nth. cbn [up_levels]. unfold up_level.
        destruct (up_levels lis k <? pos)%nat; reflexivity.
Qed.

(* ------------------------------------------------------------------ *)
(* 2. the whole drop loop on seq 0 n                                    *)
Lemma filter_length_split {A} (f : A -> bool) : forall l,
  (length (filter f l) + length (filter (fun x => negb (f x)) l) = length l)%nat.
Proof.
  induction l as [|x t IH]; [reflexivity|]. cbn [filter]. destruct (f x); cbn [negb length]; lia.
Qed.

Lemma seq_snoc n : (1 <= n)%nat -> seq 0 n = seq 0 (n - 1) ++ [(n - 1)%nat].
Proof.
  intros H. replace n with ((n - 1) + 1)%nat at 1 by lia. rewrite seq_app. reflexivity.
Qed.

Lemma last_seq n : (1 <= n)%nat -> last (seq 0 n) 0%nat = (n - 1)%nat.
Proof. intros H. rewrite (seq_snoc n H). apply last_last. Qed.

Lemma validate_nonempty t : validate t = true -> (1 <= length t)%nat.
Proof.
  intros V. destruct t; [discriminate V | cbn; lia].
Qed.

Lemma leaf_level_nth (t : tree) : leaf_level t = nth (length t - 1) t [].
Proof. unfold leaf_level. apply last_is_nth. Qed.

Lemma wf_leaf t : wf t -> wf_level (leaf_level t).
Proof. intros W. rewrite leaf_level_nth. apply wf_nth. exact W. Qed.

Lemma trunc_inner : forall t new_hier, validate t = true -> wf t ->
  let n := length t in
  let inner := filter (fun l => negb (nat_mem l new_hier)) (seq 0 (n - 1)) in
  exists lis t1 hier1,
    drops_ok n lis /\ length lis = length inner /\ Tree.drop_levels t lis = TOk t1 /\
    Stats.drop_levels t (seq 0 n) inner = Ok (t1, hier1) /\
    hier1 = filter (fun l => nat_mem l new_hier) (seq 0 (n - 1)) ++ [(n - 1)%nat] /\
    (forall k, (k < n - length lis)%nat -> nth k hier1 0%nat = up_levels lis k).
Proof.
  intros t new_hier V W n inner. pose proof (validate_nonempty t V) as Hn. fold n in Hn.
  assert (Hinner : forall lv, In lv inner -> (lv < n - 1)%nat).
  { intros lv H. apply filter_In in H. destruct H as [H _]. apply in_seq in H. lia. }
  destruct (sdrop_inner inner t (seq 0 n) V W) as (lis & t1 & hier1 & OK & LL & ET & ES & EN).
  - apply seq_length.
  - apply seq_NoDup.
  - apply NoDup_filter. apply seq_NoDup.
  - intros lv H. apply Hinner in H. split; [apply in_seq; lia | rewrite (last_seq n Hn); lia].
  - exists lis, t1, hier1. split; [exact OK|]. split; [exact LL|]. split; [exact ET|]. split; [exact ES|].
    split.
    + pose proof (drop_levels_hier inner t (seq 0 n) t1 hier1 (seq_NoDup _ _) ES) as Eh.
      rewrite Eh. rewrite (seq_snoc n Hn). rewrite filter_app. f_equal.
      * apply kept_levels.
      * cbn [filter]. destruct (nat_mem (n - 1) inner) eqn:E; [|reflexivity].
        apply nat_mem_in in E. apply Hinner in E. lia.
    + intros k Hk. rewrite EN. apply seq_nth. apply up_levels_lt; [exact OK | exact Hk].
Qed.

Lemma drop_leaf_flat (t : tree) : length t = 1%nat -> drop_leaf_level t = TErr E_FLAT.
Proof. intros H. unfold drop_leaf_level, drop_level_gen. rewrite H. reflexivity. Qed.

Lemma trunc_tree : forall t new_hier nt hier', validate t = true -> wf t ->
  let n := length t in
  Stats.drop_levels t (seq 0 n) (filter (fun l => negb (nat_mem l new_hier)) (seq 0 n)) = Ok (nt, hier') ->
  let kept := filter (fun l => nat_mem l new_hier) (seq 0 n) in
  let lvl := last kept 0%nat in
  (exists lis t1, drops_ok n lis /\ Tree.drop_levels t lis = TOk t1 /\
      ((lvl = (n - 1)%nat /\ nt = t1) \/ (lvl <> (n - 1)%nat /\ drop_leaf_level t1 = TOk nt))) /\
  validate nt = true /\ wf nt /\ length nt = length kept /\ (1 <= length kept)%nat /\ (lvl < n)%nat /\
  (lvl = (n - 1)%nat -> leaf_level nt = leaf_level t) /\
  (forall k, (k < length kept)%nat -> nodes (nth k nt []) = nodes (nth (nth k kept 0%nat) t [])) /\
  (forall j k x, (k <= j < length kept)%nat ->
     Tree.ancestor_at nt j x k = Tree.ancestor_at t (nth j kept 0%nat) x (nth k kept 0%nat)) /\
  (forall L c, lists (leaf_level nt) L c <->
     exists o, lists (leaf_level t) o c /\ Tree.ancestor_at t (n - 1) o lvl = Some L).
Proof.
  intros t new_hier nt hier' V W n H kept lvl.
  pose proof (validate_nonempty t V) as Hn. fold n in Hn.
  destruct (trunc_inner t new_hier V W) as (lis & t1 & hier1 & OK & LL & ET & ES & EH & EN).
  fold n in OK, ES, EH, EN, LL.
  set (inner := filter (fun l => negb (nat_mem l new_hier)) (seq 0 (n - 1))) in *.
  set (ki := filter (fun l => nat_mem l new_hier) (seq 0 (n - 1))) in *.
  destruct (drop_levels_preserve lis t V W OK) as (t1' & ET' & V1 & W1 & L1 & LF1 & _ & N1 & A1 & _).
  rewrite ET in ET'. inversion ET'; subst t1'. clear ET'. fold n in L1.
  assert (Hsplit : (length ki + length inner = n - 1)%nat).
  { unfold ki, inner. rewrite (filter_length_split (fun l => nat_mem l new_hier) (seq 0 (n - 1))).
    apply seq_length. }
  assert (Hki : forall x, In x ki -> (x < n - 1)%nat).
  { intros x Hx. apply filter_In in Hx. destruct Hx as [Hx _]. apply in_seq in Hx. lia. }
  assert (Lt1 : length t1 = S (length ki)) by lia.
  assert (Ekn : forall k, (k <= length ki)%nat -> nth k hier1 0%nat = up_levels lis k).
  { intros k Hk. apply EN. lia. }
  assert (Ed : filter (fun l => negb (nat_mem l new_hier)) (seq 0 n) =
               inner ++ (if nat_mem (n - 1) new_hier then [] else [(n - 1)%nat])).
  { rewrite (seq_snoc n Hn), filter_app. cbn [filter]. destruct (nat_mem (n - 1) new_hier); reflexivity. }
  assert (Ek : kept = ki ++ (if nat_mem (n - 1) new_hier then [(n - 1)%nat] else [])).
  { unfold kept. rewrite (seq_snoc n Hn), filter_app. cbn [filter]. destruct (nat_mem (n - 1) new_hier); reflexivity. }
  rewrite Ed in H. unfold lvl. rewrite Ek. clear Ed Ek lvl kept.
  destruct (nat_mem (n - 1) new_hier) eqn:Em.
  - (* the leaf level is kept *)
    rewrite app_nil_r in H. rewrite ES in H. inversion H; subst nt hier'. clear H.
    rewrite last_last. rewrite app_length. cbn [length]. rewrite <- EH.
    split; [exists lis, t1; split; [exact OK|]; split; [exact ET|]; left; split; reflexivity|].
    split; [exact V1|]. split; [exact W1|]. split; [lia|]. split; [lia|]. split; [lia|].
    split; [intros _; exact LF1|]. split; [|split].
    + intros k Hk. rewrite N1. rewrite Ekn by lia. reflexivity.
    + intros j k x Hjk. rewrite A1. rewrite !Ekn by lia. reflexivity.
    + intros L c. rewrite LF1. split.
      * intros HL. exists L. split; [exact HL | apply ancestor_at_self].
      * intros (o & Ho & Ea). rewrite ancestor_at_self in Ea. inversion Ea; subst. exact Ho.
  - (* the leaf level is dropped *)
    rewrite sdrop_app, ES in H. cbn [bind fst snd Stats.drop_levels] in H. rewrite EH in H.
    assert (Hnin : ~ In (n - 1)%nat ki) by (intros Hx; apply Hki in Hx; lia).
    rewrite (index_of_last ki _ Hnin) in H. rewrite app_length in H. cbn [length] in H.
    replace (Nat.eqb (S (length ki)) (length ki + 1)) with true in H by (symmetry; apply Nat.eqb_eq; lia).
    destruct (drop_leaf_level t1) as [t2|c] eqn:E2; [|discriminate H].
    rewrite remove_nth_last in H. inversion H; subst t2 hier'. clear H.
    assert (H2 : (2 <= length t1)%nat).
    { destruct (Nat.eq_dec (length t1) 1) as [E|E]; [|lia]. rewrite (drop_leaf_flat t1 E) in E2. discriminate E2. }
    destruct (drop_leaf_preserves t1 V1 W1 H2) as (t2 & E2' & V2 & W2 & L2 & N2 & A2 & C2).
    rewrite E2 in E2'. inversion E2'; subst t2. clear E2'.
    rewrite app_nil_r.
    assert (Hk1 : (1 <= length ki)%nat) by lia.
    assert (Elast : last ki 0%nat = up_levels lis (length ki - 1)).
    { rewrite last_is_nth. rewrite <- Ekn by lia. rewrite EH. rewrite app_nth1 by lia. reflexivity. }
    assert (Hlast : (last ki 0%nat < n - 1)%nat).
    { apply Hki. rewrite last_is_nth. apply nth_In. lia. }
    assert (Ekk : forall k, (k < length ki)%nat -> nth k ki 0%nat = up_levels lis k).
    { intros k Hk. rewrite <- Ekn by lia. rewrite EH. rewrite app_nth1 by lia. reflexivity. }
    split; [exists lis, t1; split; [exact OK|]; split; [exact ET|]; right; split; [lia | exact E2]|].
    split; [exact V2|]. split; [exact W2|]. split; [lia|]. split; [exact Hk1|]. split; [lia|].
    split; [intros E; lia|]. split; [|split].
    + intros k Hk. rewrite N2 by lia. rewrite N1. rewrite Ekk by exact Hk. reflexivity.
    + intros j k x Hjk. rewrite !Ekk by lia. rewrite <- A1.
      unfold Tree.ancestor_at. rewrite A2 by lia. reflexivity.
    + intros L c.
      set (m := (length ki - 1)%nat).
      assert (Em1 : S m = (length t1 - 1)%nat) by (unfold m; lia).
      assert (Em2 : (length t1 - 2)%nat = m) by (unfold m; lia).
      assert (Eup : up_levels lis (S m) = (n - 1)%nat).
      { rewrite Em1. rewrite L1. apply up_levels_last. exact OK. }
      assert (Eanc : forall o, Tree.ancestor_at t (n - 1) o (last ki 0%nat) = parent_of (nth m t1 []) o).
      { intros o. rewrite Elast. fold m. rewrite <- Eup. rewrite <- A1.
        rewrite (ancestor_at_chain t1 (S m) o m) by lia. rewrite ancestor_at_self. reflexivity. }
      pose proof (wf_leaf nt W2) as WL2. pose proof (wf_leaf t1 W1) as WL1.
      split.
      * intros HL. apply (lists_children_of _ _ _ WL2) in HL. rewrite C2 in HL.
        apply in_flat_map in HL. destruct HL as (o & Ho & Hc). rewrite Em2 in Ho.
        exists o. split; [rewrite <- LF1; apply children_of_lists; exact Hc|].
        rewrite Eanc. apply (children_parent_of t1 V1 m L o); [lia | exact Ho].
      * intros (o & Ho & Ea). rewrite Eanc in Ea.
        destruct (parent_of_children t1 m L o W1 Ea) as [Hch _].
        apply children_of_lists. rewrite C2. apply in_flat_map. exists o. rewrite Em2.
        split; [exact Hch|]. apply (lists_children_of _ _ _ WL1). rewrite LF1. exact Ho.
Qed.

(* ------------------------------------------------------------------ *)
(* 3. the cell -> row lookup in terms of the taxonomy                   *)
Lemma c2c_keys (leaf : level) : map fst (cell_to_cluster leaf) = concat (map snd leaf).
Proof.
  unfold cell_to_cluster. induction leaf as [|[n cs] t IH]; [reflexivity|].
  cbn [flat_map]. rewrite map_app. cbn [map concat snd]. f_equal; [|exact IH].
  rewrite map_map. cbn [fst]. apply map_id.
Qed.

Lemma in_c2c (leaf : level) c cl : In (c, cl) (cell_to_cluster leaf) <-> lists leaf cl c.
Proof.
  unfold cell_to_cluster, lists. rewrite in_flat_map. split.
  - intros ([n cs] & Hin & Hm). cbn [fst snd] in Hm. apply in_map_iff in Hm. destruct Hm as (c' & E & Hc').
    inversion E; subst. exists cs. split; assumption.
  - intros (cs & Hin & Hc). exists (cl, cs). split; [exact Hin|]. cbn [fst snd]. apply in_map_iff.
    exists c. split; [reflexivity | exact Hc].
Qed.

Lemma c2c_get (leaf : level) c cl : NoDup (concat (map snd leaf)) ->
  (dict_get c (cell_to_cluster leaf) = Some cl <-> lists leaf cl c).
Proof.
  intros ND. assert (ND' : NoDup (map fst (cell_to_cluster leaf))) by (rewrite c2c_keys; exact ND).
  rewrite (dict_get_nodup c _ ND'). rewrite <- in_c2c. split; [apply zassoc_in | apply zassoc_nodup_in; exact ND'].
Qed.

Definition lookup_of (leaf : level) (lookup : list (Z * Z)) : Prop :=
  forall cell,
    dict_get cell lookup =
    match dict_get cell (cell_to_cluster leaf) with
    | Some cl => option_map Z.of_nat (zassoc cl (cluster_to_row (map fst leaf)))
    | None => None
    end.

Lemma lookup_row (leaf : level) lookup : lookup_of leaf lookup -> NoDup (concat (map snd leaf)) ->
  forall c z, dict_get c lookup = Some z <->
    exists cl r, lists leaf cl c /\ zassoc cl (cluster_to_row (map fst leaf)) = Some r /\ z = Z.of_nat r.
Proof.
  intros Hs ND c z. rewrite Hs. destruct (dict_get c (cell_to_cluster leaf)) as [cl|] eqn:E.
  - split.
    + intros H. destruct (zassoc cl (cluster_to_row (map fst leaf))) as [r|] eqn:Er; cbn in H; [|discriminate H].
      inversion H; subst. exists cl, r. split; [apply (c2c_get leaf c cl ND); exact E | split; [exact Er | reflexivity]].
    + intros (cl' & r & Hl & Hr & ->). apply (c2c_get leaf c cl' ND) in Hl. rewrite E in Hl. inversion Hl; subst cl'.
      rewrite Hr. reflexivity.
  - split; [discriminate|]. intros (cl & r & Hl & _). apply (c2c_get leaf c cl ND) in Hl. congruence.
Qed.

(* the ancestor used by truncate = the ancestor of the taxonomy model *)
Lemma sanc_eq (t : tree) lvl o : lvl <> (length t - 1)%nat ->
  Stats.ancestor_at t lvl o = Tree.ancestor_at t (length t - 1) o lvl.
Proof.
  intros H. unfold Stats.ancestor_at, Tree.ancestor_at.
  replace (Nat.eqb lvl (length t - 1)) with false by (symmetry; apply Nat.eqb_neq; exact H). reflexivity.
Qed.

(* ------------------------------------------------------------------ *)
(* 4. c09_truncation                                                    *)
Theorem truncation_full : forall D ng t files rows p new_hier c2r data nt nc T,
  validate t = true -> wf t -> files_wf ng files -> (1 <= rows)%nat -> (1 <= p)%nat ->
  precompute D (leaf_level t) files rows p = Ok (c2r, data) ->
  truncate ng t new_hier c2r data = Ok (nt, nc, T) ->
  let n := length t in
  let kept := filter (fun l => nat_mem l new_hier) (seq 0 n) in
  let lvl := last kept 0%nat in
  (* (a) the taxonomy written *)
  (exists lis t1, drops_ok n lis /\ Tree.drop_levels t lis = TOk t1 /\
      ((lvl = (n - 1)%nat /\ nt = t1) \/ (lvl <> (n - 1)%nat /\ drop_leaf_level t1 = TOk nt))) /\
  validate nt = true /\ wf nt /\ length nt = length kept /\ (1 <= length kept)%nat /\
  (forall k, (k < length kept)%nat -> nodes (nth k nt []) = nodes (nth (nth k kept 0%nat) t [])) /\
  (forall j k x, (k <= j < length kept)%nat ->
     Tree.ancestor_at nt j x k = Tree.ancestor_at t (nth j kept 0%nat) x (nth k kept 0%nat)) /\
  (forall L c, lists (leaf_level nt) L c <->
     exists o, lists (leaf_level t) o c /\ Tree.ancestor_at t (n - 1) o lvl = Some L) /\
  (* (b) the table written *)
  Permutation (map fst nc) (nodes (leaf_level nt)) /\ map snd nc = seq 0 (length T) /\
  forall rows' p', (1 <= rows')%nat -> (1 <= p')%nat ->
    exists c2r' data', precompute D (leaf_level nt) files rows' p' = Ok (c2r', data') /\
      length data' = length T /\
      forall L, In L (nodes (leaf_level nt)) ->
        exists r r' s, dict_get L nc = Some r /\ dict_get L c2r' = Some r' /\
                       nth_error T r = Some s /\ nth_error data' r' = Some s.
Proof.
  intros D ng t files rows p new_hier c2r data nt nc T V W Hfw Hrows Hp Hpre Htr n kept lvl.
  set (leaf := (leaf_level t : list (Z * list Z))). set (cells := all_cells files).
  assert (NDl : NoDup (map fst leaf)) by (apply (wf_leaf t W)).
  assert (NDr : NoDup (concat (map snd leaf))) by (destruct (validate_sound t V) as (_ & _ & R & _); exact R).
  destruct (table_is_direct D leaf files rows p ng NDl Hrows Hp Hfw) as (lookup & Hspec & Epre).
  fold leaf in Hpre. rewrite Hpre in Epre. fold cells in Epre.
  destruct (existsb (named lookup) cells) eqn:Enamed; [|discriminate Epre].
  inversion Epre as [[Ec2r Edata]]. clear Epre.
  change (map (fun r => stats_of_rows D ng (members lookup (Z.of_nat r) cells)) (seq 0 (length leaf)))
    with (direct D (length leaf) ng lookup cells) in Edata.
  destruct (truncate_inv _ _ _ _ _ _ _ _ Htr) as (hier' & Hdrop & _).
  destruct (trunc_tree t new_hier nt hier' V W Hdrop) as (TA & V2 & W2 & L2 & K1 & Hlvl & LFA & N2 & A2 & R2).
  fold n in TA, L2, K1, Hlvl, LFA, N2, A2, R2. fold kept in TA, L2, K1, Hlvl, LFA, N2, A2, R2.
  fold lvl in TA, Hlvl, LFA, R2.
  split; [exact TA|]. split; [exact V2|]. split; [exact W2|]. split; [exact L2|]. split; [exact K1|].
  split; [exact N2|]. split; [exact A2|]. split; [exact R2|].
  pose proof (rows_by_name leaf NDl) as RB. cbv zeta in RB. unfold node in *. rewrite <- Ec2r in RB.
  destruct RB as (RB1 & RB2 & RB3 & RB4 & _).
  assert (N1 : NoDup (map fst c2r)) by (rewrite RB1; apply zsort_nodup; exact NDl).
  assert (N2' : NoDup (map snd c2r)) by (rewrite RB2; apply seq_NoDup).
  assert (Hc : cells_rect ng cells) by (apply all_cells_rect; exact Hfw).
  set (leaf' := (leaf_level nt : list (Z * list Z))).
  assert (NDl' : NoDup (map fst leaf')) by (apply (wf_leaf nt W2)).
  assert (NDr' : NoDup (concat (map snd leaf'))) by (destruct (validate_sound nt V2) as (_ & _ & R & _); exact R).
  rewrite Edata in Htr.
  pose proof (truncation_collapse D (length leaf) ng lookup cells t new_hier c2r nt nc T Hc NDl N1 N2' NDl' Htr) as TC.
  cbv zeta in TC. fold n kept lvl in TC.
  destruct TC as [(El & Enc & ET) | (El & Enc & LT & Hrow)].
  - (* leaf level kept: nothing changes *)
    pose proof (LFA El) as LF. fold leaf' leaf in LF.
    split; [rewrite Enc, RB1, LF; apply zsort_perm|].
    split; [rewrite Enc, RB2, ET, direct_length, map_length; reflexivity|].
    intros rows' p' Hr' Hp'. exists c2r, data. split.
    + rewrite LF. rewrite <- Hpre.
      apply (partition_independent D leaf files files rows' rows p' p ng); try assumption. apply Permutation_refl.
    + split; [rewrite ET, Edata; reflexivity|]. intros L HL. rewrite LF in HL.
      destruct (RB3 L HL) as (r & Hr & Hlt & _). rewrite map_length in Hlt.
      exists r, r, (stats_of_rows D ng (members lookup (Z.of_nat r) cells)).
      rewrite Enc. rewrite (dict_get_nodup L c2r N1). split; [exact Hr|]. split; [exact Hr|].
      rewrite ET, Edata. split; apply direct_row; exact Hlt.
  - (* a coarser leaf level *)
    set (newl := nodes leaf') in *.
    split; [rewrite Enc; rewrite map_fst_combine by (rewrite seq_length; reflexivity); apply Permutation_refl|].
    split; [rewrite Enc, LT; apply map_snd_combine; rewrite seq_length; reflexivity|].
    intros rows' p' Hrw' Hpw'.
    destruct (table_is_direct D leaf' files rows' p' ng NDl' Hrw' Hpw' Hfw) as (lookup' & Hspec' & Epre').
    fold cells in Epre'.
    pose proof (rows_by_name leaf' NDl') as RB'. cbv zeta in RB'. destruct RB' as (RB1' & RB2' & RB3' & RB4' & _).
    unfold node in *.
    set (c2r' := cluster_to_row (map fst leaf')) in *.
    assert (N1' : NoDup (map fst c2r')) by (rewrite RB1'; apply zsort_nodup; exact NDl').
    assert (Hanc : forall o, Stats.ancestor_at t lvl o = Tree.ancestor_at t (n - 1) o lvl)
      by (intros o; apply sanc_eq; exact El).
    (* a cell of an old leaf is a cell of the new leaf above it *)
    assert (Hup : forall c z, dict_get c lookup = Some z -> exists z', dict_get c lookup' = Some z').
    { intros c z Hz. apply (lookup_row leaf lookup Hspec NDr) in Hz. destruct Hz as (cl & r & Hl & _ & _).
      pose proof (lists_node _ _ _ Hl) as Hcl. unfold leaf in Hcl. rewrite leaf_level_nth in Hcl.
      destruct (ancestor_at_exists t (n - 1) cl lvl V ltac:(unfold n; pose proof (validate_nonempty t V); lia) Hcl ltac:(lia))
        as (L & HL).
      assert (Hl' : lists leaf' L c) by (apply R2; exists cl; split; [exact Hl | exact HL]).
      destruct (RB3' L (lists_node _ _ _ Hl')) as (r' & Hzr' & _).
      exists (Z.of_nat r'). apply (lookup_row leaf' lookup' Hspec' NDr'). exists L, r'. auto. }
    assert (Enamed' : existsb (named lookup') cells = true).
    { apply existsb_exists in Enamed. destruct Enamed as (x & Hx & Hn). apply existsb_exists. exists x.
      split; [exact Hx|]. unfold named in *. destruct (dict_get (fst x) lookup) as [z|] eqn:Ez; [|discriminate Hn].
      destruct (Hup _ _ Ez) as (z' & Ez'). rewrite Ez'. reflexivity. }
    rewrite Enamed' in Epre'.
    change (map (fun r => stats_of_rows D ng (members lookup' (Z.of_nat r) cells)) (seq 0 (length leaf')))
      with (direct D (length leaf') ng lookup' cells) in Epre'.
    exists c2r', (direct D (length leaf') ng lookup' cells). split; [exact Epre'|].
    split; [rewrite direct_length, LT; unfold newl, nodes; rewrite map_length; reflexivity|].
    intros L HL.
    destruct (c2r_generic newl NDl') as [G1 _]. destruct (G1 L HL) as (dst & Hdst & _).
    assert (Hd : dict_get L nc = Some dst).
    { rewrite Enc. rewrite dict_get_nodup; [exact Hdst|].
      rewrite map_fst_combine by (rewrite seq_length; reflexivity). exact NDl'. }
    destruct (Hrow L dst Hd) as (src & Hsrc & HT).
    destruct (RB3' L HL) as (r' & Hr' & Hlt' & _). rewrite map_length in Hlt'.
    exists dst, r', (stats_of_rows D ng (members lookup' (Z.of_nat r') cells)).
    split; [exact Hd|]. split; [rewrite (dict_get_nodup L c2r' N1'); exact Hr'|].
    split; [|apply direct_row; exact Hlt'].
    rewrite HT. f_equal. f_equal. unfold members_of, members. f_equal. apply filter_ext. intros c.
    apply bool_eq_iff. split.
    + intros P1. destruct (dict_get (fst c) lookup) as [z|] eqn:Ez; [|discriminate P1].
      apply zmem_in in P1. apply in_map_iff in P1. destruct P1 as (r & <- & Hr).
      apply (lookup_row leaf lookup Hspec NDr) in Ez. destruct Ez as (cl & r0 & Hl & Hr0 & Er0).
      apply Nat2Z.inj in Er0. subst r0.
      assert (Hr0' : zassoc cl c2r = Some r) by (rewrite Ec2r; exact Hr0). clear Hr0. rename Hr0' into Hr0.
      apply (opt_map_in _ _ _ Hsrc r) in Hr. destruct Hr as (o & Ho & Hor).
      rewrite (dict_get_nodup o c2r N1) in Hor. pose proof (RB4 o cl r Hor Hr0) as ->.
      apply filter_In in Ho. destruct Ho as [_ Ho]. unfold anc_is in Ho. rewrite Hanc in Ho.
      destruct (Tree.ancestor_at t (n - 1) cl lvl) as [a|] eqn:Ea; [|discriminate Ho].
      apply Z.eqb_eq in Ho. subst a.
      assert (Hl' : lists leaf' L (fst c)) by (apply R2; exists cl; split; [exact Hl | exact Ea]).
      assert (Ez' : dict_get (fst c) lookup' = Some (Z.of_nat r'))
        by (apply (lookup_row leaf' lookup' Hspec' NDr'); exists L, r'; auto).
      rewrite Ez'. apply Z.eqb_refl.
    + intros P2. destruct (dict_get (fst c) lookup') as [z'|] eqn:Ez'; [|discriminate P2].
      apply Z.eqb_eq in P2. subst z'.
      apply (lookup_row leaf' lookup' Hspec' NDr') in Ez'. destruct Ez' as (L' & r'' & Hl' & Hr'' & Er'').
      apply Nat2Z.inj in Er''. subst r''. pose proof (RB4' L' L r' Hr'' Hr') as ->.
      apply R2 in Hl'. destruct Hl' as (o & Ho & Ea).
      pose proof (lists_node _ _ _ Ho) as Hon.
      destruct (RB3 o Hon) as (r & Hr & _).
      assert (Ez : dict_get (fst c) lookup = Some (Z.of_nat r)).
      { apply (lookup_row leaf lookup Hspec NDr). exists o, r.
        split; [exact Ho | split; [rewrite Ec2r in Hr; exact Hr | reflexivity]]. }
      rewrite Ez. apply zmem_in. apply in_map. apply (opt_map_in _ _ _ Hsrc r). exists o. split.
      * apply filter_In. split; [exact Hon|]. unfold anc_is. rewrite Hanc, Ea. apply Z.eqb_refl.
      * rewrite (dict_get_nodup o c2r N1). exact Hr.
Qed.

(* ------------------------------------------------------------------ *)
(* 5. truncate never raises on a legitimate request                     *)
Lemma group_by_total anc : forall olds g0, (forall o, In o olds -> exists k, anc o = Some k) ->
  exists g, group_by anc olds g0 = Some g.
Proof.
  induction olds as [|o t IH]; intros g0 H; [exists g0; reflexivity|].
  cbn [group_by]. destruct (H o (or_introl eq_refl)) as (k & E). rewrite E.
  apply IH. intros o' Ho'. apply H. right. exact Ho'.
Qed.

Lemma set_row_total : forall u s buf, (u < length buf)%nat ->
  exists b', set_row u s buf = Some b' /\ length b' = length buf.
Proof.
  induction u as [|u IH]; intros s [|b t] H; cbn in *; try lia.
  - eexists. split; reflexivity.
  - destruct (IH s t) as (t' & E & L); [lia|]. rewrite E. eexists. split; [reflexivity | cbn; lia].
Qed.

Lemma convert_loop_total ng data oc nc : forall groups acc,
  (forall L olds, In (L, olds) groups ->
     (exists dst, dict_get L nc = Some dst /\ (dst < length acc)%nat) /\
     forall o, In o olds -> exists r, dict_get o oc = Some r /\ (r < length data)%nat) ->
  exists T, convert_loop ng data oc nc groups acc = Ok T.
Proof.
  induction groups as [|[L0 olds0] t IH]; intros acc H; [exists acc; reflexivity|].
  cbn [convert_loop]. destruct (H L0 olds0 (or_introl eq_refl)) as ((dst & Ed & Hd) & Ho). rewrite Ed.
  destruct (opt_map_total (fun o => dict_get o oc) olds0) as (src & Es).
  { intros o Hin. destruct (Ho o Hin) as (r & Er & _). exists r. exact Er. }
  rewrite Es.
  assert (Hsrc : forall r, In r src -> (r < length data)%nat).
  { intros r Hr. apply (opt_map_in _ _ _ Es r) in Hr. destruct Hr as (o & Hin & Eo).
    destruct (Ho o Hin) as (r' & Er' & Hlt). rewrite Eo in Er'. inversion Er'; subst. exact Hlt. }
  destruct (opt_map_total (fun r => nth_error data r) (map Z.to_nat (zsort (map Z.of_nat src)))) as (rows & Er).
  { intros r Hr. apply (Permutation_in _ (sorted_rows_perm src)) in Hr. apply Hsrc in Hr.
    destruct (nth_error data r) as [x|] eqn:E; [exists x; reflexivity|]. apply nth_error_None in E. lia. }
  rewrite Er.
  destruct (set_row_total dst (sum_rows ng rows) acc Hd) as (acc' & Ea & La). rewrite Ea.
  apply IH. intros L olds Hin. destruct (H L olds (or_intror Hin)) as ((d & E1 & E2) & E3).
  split; [exists d; split; [exact E1 | lia] | exact E3].
Qed.

Lemma trunc_drop_total : forall t new_hier, validate t = true -> wf t ->
  let n := length t in
  filter (fun l => nat_mem l new_hier) (seq 0 n) <> [] ->
  exists nt hier',
    Stats.drop_levels t (seq 0 n) (filter (fun l => negb (nat_mem l new_hier)) (seq 0 n)) = Ok (nt, hier').
Proof.
  intros t new_hier V W n Hk.
  pose proof (validate_nonempty t V) as Hn. fold n in Hn.
  destruct (trunc_inner t new_hier V W) as (lis & t1 & hier1 & OK & LL & ET & ES & EH & EN).
  fold n in OK, ES, EH, EN, LL.
  set (inner := filter (fun l => negb (nat_mem l new_hier)) (seq 0 (n - 1))) in *.
  set (ki := filter (fun l => nat_mem l new_hier) (seq 0 (n - 1))) in *.
  destruct (drop_levels_preserve lis t V W OK) as (t1' & ET' & V1 & W1 & L1 & _).
  rewrite ET in ET'. inversion ET'; subst t1'. clear ET'. fold n in L1.
  assert (Hsplit : (length ki + length inner = n - 1)%nat).
  { unfold ki, inner. rewrite (filter_length_split (fun l => nat_mem l new_hier) (seq 0 (n - 1))). apply seq_length. }
  assert (Ed : filter (fun l => negb (nat_mem l new_hier)) (seq 0 n) =
               inner ++ (if nat_mem (n - 1) new_hier then [] else [(n - 1)%nat])).
  { rewrite (seq_snoc n Hn), filter_app. cbn [filter]. destruct (nat_mem (n - 1) new_hier); reflexivity. }
  assert (Ek : filter (fun l => nat_mem l new_hier) (seq 0 n) =
               ki ++ (if nat_mem (n - 1) new_hier then [(n - 1)%nat] else [])).
  { rewrite (seq_snoc n Hn), filter_app. cbn [filter]. destruct (nat_mem (n - 1) new_hier); reflexivity. }
  rewrite Ed. rewrite Ek in Hk. clear Ed Ek.
  destruct (nat_mem (n - 1) new_hier) eqn:Em.
  - rewrite app_nil_r. exists t1, hier1. exact ES.
  - rewrite app_nil_r in Hk. rewrite sdrop_app, ES. cbn [bind fst snd Stats.drop_levels]. rewrite EH.
    assert (Hnin : ~ In (n - 1)%nat ki).
    { intros Hx. apply filter_In in Hx. destruct Hx as [Hx _]. apply in_seq in Hx. lia. }
    rewrite (index_of_last ki _ Hnin). rewrite app_length. cbn [length].
    replace (Nat.eqb (S (length ki)) (length ki + 1)) with true by (symmetry; apply Nat.eqb_eq; lia).
    assert (H2 : (2 <= length t1)%nat).
    { destruct ki as [|x ki']; [congruence|]. cbn [length] in Hsplit. lia. }
    destruct (drop_leaf_preserves t1 V1 W1 H2) as (t2 & E2 & _). rewrite E2.
    eexists. eexists. reflexivity.
Qed.

Lemma anc_node t o lvl L : wf t -> (lvl < length t - 1)%nat ->
  Tree.ancestor_at t (length t - 1) o lvl = Some L -> In L (nodes (nth lvl t [])).
Proof.
  intros W Hl E. rewrite (ancestor_at_chain t (length t - 1) o lvl Hl) in E.
  destruct (Tree.ancestor_at t (length t - 1) o (S lvl)) as [c|]; [|discriminate E].
  apply (parent_of_children t lvl L c W E).
Qed.

(* any statistics file whose row map covers the leaves of its taxonomy with rows of the table *)
Theorem truncation_total : forall ng t new_hier c2r data,
  validate t = true -> wf t ->
  (forall o, In o (nodes (leaf_level t)) -> exists r, dict_get o c2r = Some r /\ (r < length data)%nat) ->
  new_hier <> [] -> Forall (fun l => (l < length t)%nat) new_hier -> nat_sorted_b new_hier = true ->
  (exists l, (l < length t)%nat /\ ~ In l new_hier) ->
  exists nt nc T, truncate ng t new_hier c2r data = Ok (nt, nc, T).
Proof.
  intros ng t new_hier c2r data V W Hrows Hne Hin Hsorted (l0 & Hl0 & Hnot).
  set (n := length t) in *.
  assert (Hkept : filter (fun l => nat_mem l new_hier) (seq 0 n) <> []).
  { destruct new_hier as [|h hs]; [congruence|]. inversion Hin as [|x xs Hh _]; subst x xs.
    intros E. assert (Hx : In h (filter (fun l => nat_mem l (h :: hs)) (seq 0 n))).
    { apply filter_In. split; [apply in_seq; lia | apply nat_mem_in; left; reflexivity]. }
    rewrite E in Hx. destruct Hx. }
  destruct (trunc_drop_total t new_hier V W Hkept) as (nt & hier' & Hdrop). fold n in Hdrop.
  destruct (trunc_tree t new_hier nt hier' V W Hdrop) as (_ & V2 & W2 & L2 & K1 & Hlvl & _ & N2 & _ & _).
  fold n in L2, K1, Hlvl, N2.
  pose proof (drop_levels_hier _ _ _ _ _ (seq_NoDup n 0) Hdrop) as Eh. rewrite kept_levels in Eh.
  set (kept := filter (fun l => nat_mem l new_hier) (seq 0 n)) in *.
  set (lvl := last kept 0%nat) in *.
  unfold truncate. cbv zeta. fold n.
  destruct (list_eq_dec Nat.eq_dec new_hier (seq 0 n)) as [E|_].
  { exfalso. apply Hnot. rewrite E. apply in_seq. lia. }
  replace (forallb (fun l => nat_mem l (seq 0 n)) new_hier) with true.
  2:{ symmetry. apply forallb_forall. intros x Hx. apply nat_mem_in. apply in_seq.
      rewrite Forall_forall in Hin. specialize (Hin x Hx). fold n in Hin. lia. }
  rewrite Hsorted. cbn [negb].
  destruct (filter (fun l => negb (nat_mem l new_hier)) (seq 0 n)) as [|d0 ds] eqn:Ef.
  { exfalso. assert (Hx : In l0 (filter (fun l => negb (nat_mem l new_hier)) (seq 0 n))).
    { apply filter_In. split; [apply in_seq; lia|]. apply negb_true_iff.
      destruct (nat_mem l0 new_hier) eqn:E; [|reflexivity]. apply nat_mem_in in E. contradiction. }
    rewrite Ef in Hx. destruct Hx. }
  rewrite Hdrop. cbn [bind]. rewrite Eh. fold lvl.
  destruct (Nat.eqb_spec lvl (n - 1)) as [El|El]; [eexists; eexists; eexists; reflexivity|].
  set (newl := nodes (leaf_level nt)).
  assert (Enew : newl = nodes (nth lvl t [])).
  { unfold newl. rewrite leaf_level_nth, L2. rewrite N2 by lia. unfold lvl. rewrite last_is_nth. reflexivity. }
  assert (Hanc : forall o, Stats.ancestor_at t lvl o = Tree.ancestor_at t (n - 1) o lvl)
    by (intros o; apply sanc_eq; exact El).
  assert (Hn : (1 <= n)%nat) by apply (validate_nonempty t V).
  destruct (group_by_total (Stats.ancestor_at t lvl) (nodes (leaf_level t)) []) as (groups & Eg).
  { intros o Ho. rewrite Hanc. rewrite leaf_level_nth in Ho.
    apply (ancestor_at_exists t (n - 1) o lvl V); [unfold n in *; lia | exact Ho | lia]. }
  rewrite Eg.
  destruct (group_by_spec _ _ _ Eg) as (_ & Hg).
  assert (NDn : NoDup newl) by apply (wf_leaf nt W2).
  unfold convert_to_new_leaves.
  destruct (convert_loop_total ng data c2r (combine newl (seq 0 (length newl))) groups
              (tzero (length (combine newl (seq 0 (length newl)))) ng)) as (T & ET).
  { intros L olds HLo. apply Hg in HLo. destruct HLo as [Eo Hno]. split.
    - destruct olds as [|o os]; [congruence|].
      assert (Ho : In o (filter (anc_is (Stats.ancestor_at t lvl) L) (nodes (leaf_level t)))) by (rewrite <- Eo; left; reflexivity).
      apply filter_In in Ho. destruct Ho as [_ Ho]. unfold anc_is in Ho. rewrite Hanc in Ho.
      destruct (Tree.ancestor_at t (n - 1) o lvl) as [a|] eqn:Ea; [|discriminate Ho]. apply Z.eqb_eq in Ho. subst a.
      assert (HL : In L newl) by (rewrite Enew; apply (anc_node t o lvl L W); [fold n; lia | exact Ea]).
      destruct (c2r_generic newl NDn) as [G1 _]. destruct (G1 L HL) as (dst & Hdst & Hlt & _).
      exists dst. split.
      + rewrite dict_get_nodup; [exact Hdst|]. rewrite map_fst_combine by (rewrite seq_length; reflexivity). exact NDn.
      + unfold tzero. rewrite repeat_length, combine_length, seq_length, Nat.min_id. exact Hlt.
    - intros o Ho. rewrite Eo in Ho. apply filter_In in Ho. destruct Ho as [Ho _]. apply Hrows. exact Ho. }
  match goal with |- context [bind ?x _] => replace x with (@Ok table T) by (symmetry; exact ET) end.
  cbn [bind]. eexists. eexists. eexists. reflexivity.
Qed.

(* ... in particular the file the writer produces *)
Corollary truncation_total_writer : forall D ng t files rows p new_hier c2r data,
  validate t = true -> wf t -> files_wf ng files -> (1 <= rows)%nat -> (1 <= p)%nat ->
  precompute D (leaf_level t) files rows p = Ok (c2r, data) ->
  new_hier <> [] -> Forall (fun l => (l < length t)%nat) new_hier -> nat_sorted_b new_hier = true ->
  (exists l, (l < length t)%nat /\ ~ In l new_hier) ->
  exists nt nc T, truncate ng t new_hier c2r data = Ok (nt, nc, T).
Proof.
  intros D ng t files rows p new_hier c2r data V W Hfw Hr Hp Hpre.
  apply truncation_total; [exact V | exact W |].
  set (leaf := (leaf_level t : list (Z * list Z))).
  assert (NDl : NoDup (map fst leaf)) by (apply (wf_leaf t W)).
  destruct (table_is_direct D leaf files rows p ng NDl Hr Hp Hfw) as (lookup & _ & Epre).
  fold leaf in Hpre. rewrite Hpre in Epre.
  destruct (existsb (named lookup) (all_cells files)); [|discriminate Epre].
  inversion Epre as [[Ec2r Edata]]. clear Epre.
  pose proof (rows_by_name leaf NDl) as RB. cbv zeta in RB. destruct RB as (RB1 & _ & RB3 & _).
  intros o Ho. destruct (RB3 o Ho) as (r & Er & Hlt & _). exists r. split.
  - try rewrite Ec2r. unfold node in *. rewrite dict_get_nodup; [exact Er|]. rewrite RB1. apply zsort_nodup. exact NDl.
  - try rewrite Edata. rewrite map_length, seq_length. rewrite map_length in Hlt. exact Hlt.
Qed.
