(* Truncation of a reference-statistics file, composed with the taxonomy lemmas (C09 x C10):
   the tree written by truncate_precomputed_stats_file is the old tree without the dropped
   levels (again accepted), and the collapsed table holds, per new leaf, the statistics of
   exactly the cells of the old leaves below it = what the writer computes directly against
   the coarser taxonomy.  Uses Proofs/StatsP.v (table level) and Proofs/TreeP.v,
   Proofs/TreeBackfillP.v (drop_level / drop_leaf_level / ancestors). *)
From Coq Require Import ZArith List Bool Arith Lia Permutation.
From CTM Require Import Base.Sx Base.ListX Base.SortX Model.Tree Model.Stats.
From CTM Require Import Proofs.TreeP Proofs.TreeBackfillP Proofs.StatsP.
Import ListNotations.
Open Scope Z_scope.

(* ------------------------------------------------------------------ *)
(* 0. small list facts                                                  *)
Lemma index_of_nth : forall hier lv pos, index_of lv hier = Some pos ->
  nth pos hier 0%nat = lv /\ (pos < length hier)%nat.
Proof.
  induction hier as [|y t IH]; intros lv pos H; [discriminate H|].
  cbn [index_of] in H. destruct (Nat.eqb_spec lv y) as [->|Hne].
  - inversion H; subst. cbn. split; [reflexivity | lia].
  - destruct (index_of lv t) as [p|] eqn:E; [|discriminate H]. cbn in H. inversion H; subst.
    destruct (IH lv p E) as [I1 I2]. cbn [nth length]. split; [exact I1 | lia].
Qed.

Lemma index_of_in : forall hier lv, In lv hier -> exists pos, index_of lv hier = Some pos.
Proof.
  induction hier as [|y t IH]; intros lv H; [destruct H|].
  cbn [index_of]. destruct (Nat.eqb_spec lv y) as [->|Hne]; [exists 0%nat; reflexivity|].
  destruct H as [H|H]; [congruence|]. destruct (IH lv H) as (p & Hp). rewrite Hp. exists (S p). reflexivity.
Qed.

Lemma index_of_last : forall l x, ~ In x l -> index_of x (l ++ [x]) = Some (length l).
Proof.
  induction l as [|y t IH]; intros x H.
  - cbn. rewrite Nat.eqb_refl. reflexivity.
  - cbn [app index_of length]. destruct (Nat.eqb_spec x y) as [->|Hne]; [exfalso; apply H; left; reflexivity|].
    rewrite IH; [reflexivity|]. intros Hin. apply H. right. exact Hin.
Qed.

Lemma remove_nth_length {A} : forall n (l : list A), (n < length l)%nat ->
  length (remove_nth n l) = (length l - 1)%nat.
Proof.
  induction n as [|n IH]; intros [|a l] H; cbn in *; try lia.
  rewrite IH by lia. lia.
Qed.

Lemma remove_nth_last {A} : forall (l : list A) x, remove_nth (length l) (l ++ [x]) = l.
Proof. induction l as [|a l IH]; intros x; cbn; [reflexivity | rewrite IH; reflexivity]. Qed.

Lemma bool_eq_iff (a b : bool) : (a = true <-> b = true) -> a = b.
Proof. destruct a, b; intros [H1 H2]; try reflexivity; [symmetry; apply H1 | apply H2]; reflexivity. Qed.

Lemma opt_map_in {A B} (f : A -> option B) : forall l a, opt_map f l = Some a ->
  forall b, In b a <-> exists x, In x l /\ f x = Some b.
Proof.
  induction l as [|x t IH]; intros a H b.
  - inversion H; subst. split; [intros [] | intros (x & [] & _)].
  - cbn in H. destruct (f x) as [bx|] eqn:Ex; [|discriminate H].
    destruct (opt_map f t) as [t'|] eqn:Et; [|discriminate H]. inversion H; subst. split.
    + intros [<-|Hb]; [exists x; split; [left; reflexivity | exact Ex]|].
      apply (IH t' eq_refl b) in Hb. destruct Hb as (y & Hy & Fy). exists y. split; [right; exact Hy | exact Fy].
    + intros (y & [<-|Hy] & Fy); [left; congruence|]. right. apply (IH t' eq_refl b). exists y. split; assumption.
Qed.

Lemma opt_map_total {A B} (f : A -> option B) : forall l,
  (forall x, In x l -> exists b, f x = Some b) -> exists a, opt_map f l = Some a.
Proof.
  induction l as [|x t IH]; intros H; [exists []; reflexivity|].
  destruct (H x (or_introl eq_refl)) as (b & Hb). destruct IH as (a & Ha).
  { intros y Hy. apply H. right. exact Hy. }
  exists (b :: a). cbn. rewrite Hb, Ha. reflexivity.
Qed.

(* ------------------------------------------------------------------ *)
(* 1. the drop loop of truncate, non-leaf levels: it is Tree.drop_levels *)
Lemma sdrop_app : forall a b t hier,
  Stats.drop_levels t hier (a ++ b) =
  bind (Stats.drop_levels t hier a) (fun th => Stats.drop_levels (fst th) (snd th) b).
Proof.
  induction a as [|lv a IH]; intros b t hier; [reflexivity|].
  cbn [app Stats.drop_levels]. destruct (index_of lv hier) as [pos|]; [|reflexivity].
  destruct (if Nat.eqb (S pos) (length hier) then drop_leaf_level t else drop_level t pos) as [t'|c]; [|reflexivity].
  apply IH.
Qed.

Lemma sdrop_inner : forall to_drop t0 hier,
  validate t0 = true -> wf t0 -> length hier = length t0 -> NoDup hier -> NoDup to_drop ->
  (forall lv, In lv to_drop -> In lv hier /\ lv <> last hier 0%nat) ->
  exists lis t' hier',
    drops_ok (length t0) lis /\ length lis = length to_drop /\
    Tree.drop_levels t0 lis = TOk t' /\
    Stats.drop_levels t0 hier to_drop = Ok (t', hier') /\
    (forall k, nth k hier' 0%nat = nth (up_levels lis k) hier 0%nat).
Proof.
  induction to_drop as [|lv rest IH]; intros t0 hier V W HL NDh NDd Hin.
  - exists [], t0, hier. cbn. repeat split; reflexivity.
  - destruct (Hin lv (or_introl eq_refl)) as [Hlv Hnl].
    destruct (index_of_in hier lv Hlv) as (pos & Epos).
    destruct (index_of_nth hier lv pos Epos) as [Enth Hpos].
    assert (Hnot : S pos <> length hier).
    { intros E. apply Hnl. rewrite last_is_nth. rewrite <- Enth. f_equal. lia. }
    assert (Hs : (S pos < length t0)%nat) by lia.
    destruct (drop_preserves t0 pos V W Hs) as (t1 & E1 & V1 & W1 & L1 & _).
    assert (Hrm : remove_nth pos hier = filter (fun x => negb (Nat.eqb x lv)) hier)
      by (apply index_of_remove; assumption).
    inversion NDd as [|x l Hx Hl]; subst x l.
    destruct (IH t1 (remove_nth pos hier) V1 W1) as (lis & t' & hier' & OK & LL & ET & ES & EN).
    + rewrite remove_nth_length by exact Hpos. lia.
    + rewrite Hrm. apply NoDup_filter. exact NDh.
    + exact Hl.
    + intros lv' Hlv'. destruct (Hin lv' (or_intror Hlv')) as [H1 H2]. split.
      * rewrite Hrm. apply filter_In. split; [exact H1|]. apply negb_true_iff. apply Nat.eqb_neq.
        intros ->. exact (Hx Hlv').
      * assert (El : last (remove_nth pos hier) 0%nat = last hier 0%nat).
        { rewrite !last_is_nth. rewrite remove_nth_length by exact Hpos. rewrite nth_remove_nth.
          replace (length hier - 1 - 1 <? pos)%nat with false by (symmetry; apply Nat.ltb_ge; lia).
          f_equal. lia. }
        rewrite El. exact H2.
    + exists (pos :: lis), t', hier'. split; [|split; [|split; [|split]]].
      * cbn [drops_ok]. split; [exact Hs|]. rewrite <- L1. exact OK.
      * cbn [length]. lia.
      * cbn [Tree.drop_levels]. rewrite E1. exact ET.
      * cbn [Stats.drop_levels]. rewrite Epos.
        replace (Nat.eqb (S pos) (length hier)) with false by (symmetry; apply Nat.eqb_neq; exact Hnot).
        rewrite E1. exact ES.
      * intros k. rewrite EN. rewrite nth_remove_nth. cbn [up_levels]. unfold up_level.
        destruct (up_levels lis k <? pos)%nat; reflexivity.
Qed.

(* ------------------------------------------------------------------ *)
(* 2. the whole drop loop on seq 0 n                                    *)
Lemma filter_length_split {A} (f : A -> bool) : forall l,
  (length (filter f l) + length (filter (fun x => negb (f x)) l) = length l)%nat.
Proof.
  induction l as [|x t IH]; [reflexivity|]. cbn [filter]. destruct (f x); cbn [negb length]; lia.
Qed.

Lemma seq_snoc n : (1 <= n)%nat -> seq 0 n = seq 0 (n - 1) ++ [(n - 1)%nat].
Proof.
  intros H. replace n with ((n - 1) + 1)%nat at 1 by lia. rewrite seq_app. reflexivity.
Qed.

Lemma last_seq n : (1 <= n)%nat -> last (seq 0 n) 0%nat = (n - 1)%nat.
Proof. intros H. rewrite (seq_snoc n H). apply last_last. Qed.

Lemma validate_nonempty t : validate t = true -> (1 <= length t)%nat.
Proof.
  intros V. destruct t; [discriminate V | cbn; lia].
Qed.

Lemma leaf_level_nth (t : tree) : leaf_level t = nth (length t - 1) t [].
Proof. unfold leaf_level. apply last_is_nth. Qed.

Lemma wf_leaf t : wf t -> wf_level (leaf_level t).
Proof. intros W. rewrite leaf_level_nth. apply wf_nth. exact W. Qed.

Lemma trunc_inner : forall t new_hier, validate t = true -> wf t ->
  let n := length t in
  let inner := filter (fun l => negb (nat_mem l new_hier)) (seq 0 (n - 1)) in
  exists lis t1 hier1,
    drops_ok n lis /\ length lis = length inner /\ Tree.drop_levels t lis = TOk t1 /\
    Stats.drop_levels t (seq 0 n) inner = Ok (t1, hier1) /\
    hier1 = filter (fun l => nat_mem l new_hier) (seq 0 (n - 1)) ++ [(n - 1)%nat] /\
    (forall k, (k < n - length lis)%nat -> nth k hier1 0%nat = up_levels lis k).
Proof.
  intros t new_hier V W n inner. pose proof (validate_nonempty t V) as Hn. fold n in Hn.
  assert (Hinner : forall lv, In lv inner -> (lv < n - 1)%nat).
  { intros lv H. apply filter_In in H. destruct H as [H _]. apply in_seq in H. lia. }
  destruct (sdrop_inner inner t (seq 0 n) V W) as (lis & t1 & hier1 & OK & LL & ET & ES & EN).
  - apply seq_length.
  - apply seq_NoDup.
  - apply NoDup_filter. apply seq_NoDup.
  - intros lv H. apply Hinner in H. split; [apply in_seq; lia | rewrite (last_seq n Hn); lia].
  - exists lis, t1, hier1. split; [exact OK|]. split; [exact LL|]. split; [exact ET|]. split; [exact ES|].
    split.
    + pose proof (drop_levels_hier inner t (seq 0 n) t1 hier1 (seq_NoDup _ _) ES) as Eh.
      rewrite Eh. rewrite (seq_snoc n Hn). rewrite filter_app. f_equal.
      * apply kept_levels.
      * cbn [filter]. destruct (nat_mem (n - 1) inner) eqn:E; [|reflexivity].
        apply nat_mem_in in E. apply Hinner in E. lia.
    + intros k Hk. rewrite EN. apply seq_nth. apply up_levels_lt; [exact OK | exact Hk].
Qed.

Lemma drop_leaf_flat (t : tree) : length t = 1%nat -> drop_leaf_level t = TErr E_FLAT.
Proof. intros H. unfold drop_leaf_level, drop_level_gen. rewrite H. reflexivity. Qed.

Lemma trunc_tree : forall t new_hier nt hier', validate t = true -> wf t ->
  let n := length t in
  Stats.drop_levels t (seq 0 n) (filter (fun l => negb (nat_mem l new_hier)) (seq 0 n)) = Ok (nt, hier') ->
  let kept := filter (fun l => nat_mem l new_hier) (seq 0 n) in
  let lvl := last kept 0%nat in
  (exists lis t1, drops_ok n lis /\ Tree.drop_levels t lis = TOk t1 /\
      ((lvl = (n - 1)%nat /\ nt = t1) \/ (lvl <> (n - 1)%nat /\ drop_leaf_level t1 = TOk nt))) /\
  validate nt = true /\ wf nt /\ length nt = length kept /\ (1 <= length kept)%nat /\ (lvl < n)%nat /\
  (lvl = (n - 1)%nat -> leaf_level nt = leaf_level t) /\
  (forall k, (k < length kept)%nat -> nodes (nth k nt []) = nodes (nth (nth k kept 0%nat) t [])) /\
  (forall j k x, (k <= j < length kept)%nat ->
     Tree.ancestor_at nt j x k = Tree.ancestor_at t (nth j kept 0%nat) x (nth k kept 0%nat)) /\
  (forall L c, lists (leaf_level nt) L c <->
     exists o, lists (leaf_level t) o c /\ Tree.ancestor_at t (n - 1) o lvl = Some L).
Proof.
  intros t new_hier nt hier' V W n H kept lvl.
  pose proof (validate_nonempty t V) as Hn. fold n in Hn.
  destruct (trunc_inner t new_hier V W) as (lis & t1 & hier1 & OK & LL & ET & ES & EH & EN).
  fold n in OK, ES, EH, EN, LL.
  set (inner := filter (fun l => negb (nat_mem l new_hier)) (seq 0 (n - 1))) in *.
  set (ki := filter (fun l => nat_mem l new_hier) (seq 0 (n - 1))) in *.
  destruct (drop_levels_preserve lis t V W OK) as (t1' & ET' & V1 & W1 & L1 & LF1 & _ & N1 & A1 & _).
  rewrite ET in ET'. inversion ET'; subst t1'. clear ET'. fold n in L1.
  assert (Hsplit : (length ki + length inner = n - 1)%nat).
  { unfold ki, inner. rewrite (filter_length_split (fun l => nat_mem l new_hier) (seq 0 (n - 1))).
    apply seq_length. }
  assert (Hki : forall x, In x ki -> (x < n - 1)%nat).
  { intros x Hx. apply filter_In in Hx. destruct Hx as [Hx _]. apply in_seq in Hx. lia. }
  assert (Lt1 : length t1 = S (length ki)) by lia.
  assert (Ekn : forall k, (k <= length ki)%nat -> nth k hier1 0%nat = up_levels lis k).
  { intros k Hk. apply EN. lia. }
  assert (Ed : filter (fun l => negb (nat_mem l new_hier)) (seq 0 n) =
               inner ++ (if nat_mem (n - 1) new_hier then [] else [(n - 1)%nat])).
  { rewrite (seq_snoc n Hn), filter_app. cbn [filter]. destruct (nat_mem (n - 1) new_hier); reflexivity. }
  assert (Ek : kept = ki ++ (if nat_mem (n - 1) new_hier then [(n - 1)%nat] else [])).
  { unfold kept. rewrite (seq_snoc n Hn), filter_app. cbn [filter]. destruct (nat_mem (n - 1) new_hier); reflexivity. }
  rewrite Ed in H. unfold lvl. rewrite Ek. clear Ed Ek lvl kept.
  destruct (nat_mem (n - 1) new_hier) eqn:Em.
  - (* the leaf level is kept *)
    rewrite app_nil_r in H. rewrite ES in H. inversion H; subst nt hier'. clear H.
    rewrite last_last. rewrite app_length. cbn [length]. rewrite <- EH.
    split; [exists lis, t1; split; [exact OK|]; split; [exact ET|]; left; split; reflexivity|].
    split; [exact V1|]. split; [exact W1|]. split; [lia|]. split; [lia|]. split; [lia|].
    split; [intros _; exact LF1|]. split; [|split].
    + intros k Hk. rewrite N1. rewrite Ekn by lia. reflexivity.
    + intros j k x Hjk. rewrite A1. rewrite !Ekn by lia. reflexivity.
    + intros L c. rewrite LF1. split.
      * intros HL. exists L. split; [exact HL | apply ancestor_at_self].
      * intros (o & Ho & Ea). rewrite ancestor_at_self in Ea. inversion Ea; subst. exact Ho.
  - (* the leaf level is dropped *)
    rewrite sdrop_app, ES in H. cbn [bind fst snd Stats.drop_levels] in H. rewrite EH in H.
    assert (Hnin : ~ In (n - 1)%nat ki) by (intros Hx; apply Hki in Hx; lia).
    rewrite (index_of_last ki _ Hnin) in H. rewrite app_length in H. cbn [length] in H.
    replace (Nat.eqb (S (length ki)) (length ki + 1)) with true in H by (symmetry; apply Nat.eqb_eq; lia).
    destruct (drop_leaf_level t1) as [t2|c] eqn:E2; [|discriminate H].
    rewrite remove_nth_last in H. inversion H; subst t2 hier'. clear H.
    assert (H2 : (2 <= length t1)%nat).
    { destruct (Nat.eq_dec (length t1) 1) as [E|E]; [|lia]. rewrite (drop_leaf_flat t1 E) in E2. discriminate E2. }
    destruct (drop_leaf_preserves t1 V1 W1 H2) as (t2 & E2' & V2 & W2 & L2 & N2 & A2 & C2).
    rewrite E2 in E2'. inversion E2'; subst t2. clear E2'.
    rewrite app_nil_r.
    assert (Hk1 : (1 <= length ki)%nat) by lia.
    assert (Elast : last ki 0%nat = up_levels lis (length ki - 1)).
    { rewrite last_is_nth. rewrite <- Ekn by lia. rewrite EH. rewrite app_nth1 by lia. reflexivity. }
    assert (Hlast : (last ki 0%nat < n - 1)%nat).
    { apply Hki. rewrite last_is_nth. apply nth_In. lia. }
    assert (Ekk : forall k, (k < length ki)%nat -> nth k ki 0%nat = up_levels lis k).
    { intros k Hk. rewrite <- Ekn by lia. rewrite EH. rewrite app_nth1 by lia. reflexivity. }
    split; [exists lis, t1; split; [exact OK|]; split; [exact ET|]; right; split; [lia | exact E2]|].
    split; [exact V2|]. split; [exact W2|]. split; [lia|]. split; [exact Hk1|]. split; [lia|].
    split; [intros E; lia|]. split; [|split].
    + intros k Hk. rewrite N2 by lia. rewrite N1. rewrite Ekk by exact Hk. reflexivity.
    + intros j k x Hjk. rewrite !Ekk by lia. rewrite <- A1.
      unfold Tree.ancestor_at. rewrite A2 by lia. reflexivity.
    + intros L c.
      set (m := (length ki - 1)%nat).
      assert (Em1 : S m = (length t1 - 1)%nat) by (unfold m; lia).
      assert (Em2 : (length t1 - 2)%nat = m) by (unfold m; lia).
      assert (Eup : up_levels lis (S m) = (n - 1)%nat).
      { rewrite Em1. rewrite L1. apply up_levels_last. exact OK. }
      assert (Eanc : forall o, Tree.ancestor_at t (n - 1) o (last ki 0%nat) = parent_of (nth m t1 []) o).
      { intros o. rewrite Elast. fold m. rewrite <- Eup. rewrite <- A1.
        rewrite (ancestor_at_chain t1 (S m) o m) by lia. rewrite ancestor_at_self. reflexivity. }
      pose proof (wf_leaf nt W2) as WL2. pose proof (wf_leaf t1 W1) as WL1.
      split.
      * intros HL. apply (lists_children_of _ _ _ WL2) in HL. rewrite C2 in HL.
        apply in_flat_map in HL. destruct HL as (o & Ho & Hc). rewrite Em2 in Ho.
        exists o. split; [rewrite <- LF1; apply children_of_lists; exact Hc|].
        rewrite Eanc. apply (children_parent_of t1 V1 m L o); [lia | exact Ho].
      * intros (o & Ho & Ea). rewrite Eanc in Ea.
        destruct (parent_of_children t1 m L o W1 Ea) as [Hch _].
        apply children_of_lists. rewrite C2. apply in_flat_map. exists o. rewrite Em2.
        split; [exact Hch|]. apply (lists_children_of _ _ _ WL1). rewrite LF1. exact Ho.
Qed.
