(* C17, second layer: what the two "equivalence" theorems of RunMappingP.v are (both runs
   execute the SAME election on the reduced tree; the proved relation is the one produced by
   backfill_assignments), their strict forms without the KeyError alternative, and the key
   convention of the marker table (Model/RunMappingKeys.v). *)
From Coq Require Import ZArith List Bool Lia Arith.
From CTM Require Import Base.Sx Base.ListX Base.SortX Model.Tree Model.Election Model.RunMapping Model.RunMappingKeys.
From CTM Require Import Proofs.TreeValidateP Proofs.TreeLeavesP Proofs.TreeDropP Proofs.ElectionWBP Proofs.ElectionP.
From CTM Require Import Proofs.RunMappingP.
From CTM Require Model.Markers.
Import ListNotations.
Open Scope Z_scope.

Lemma reduce_dropping t li t' : drop_level t li = TOk t' ->
  reduce t (cfg_dropping li) = TOk (t', remove_nth li (seq 0 (length t))).
Proof.
  intros Hd. destruct (drop_ok_facts t li t' Hd) as [Hli _].
  unfold reduce. cbn [cfg_dropping cfg_drop cfg_flatten].
  replace (li <? length t)%nat with true by (symmetry; apply Nat.ltb_lt; lia). rewrite Hd. reflexivity.
Qed.

Lemma reduce_flat t : validate t = true ->
  reduce t cfg_flat = TOk ([leaf_level t], [(length t - 1)%nat]).
Proof.
  intros V. destruct (flatten_accepted t V) as (Ef & _ & _).
  assert (Hne : t <> []) by (apply validate_iff in V; tauto).
  assert (Hn : (0 < length t)%nat) by (destruct t; [congruence | cbn; lia]).
  unfold reduce. cbn [cfg_flat cfg_drop cfg_flatten]. rewrite Ef. rewrite last_only_seq by exact Hn. reflexivity.
Qed.

Section SameElection.
Variable cell rng : Type.
Variable cache_ok : tree -> Markers.table -> bool.
Variable mk_decide : tree -> Markers.table ->
                     rng -> option (nat * node) -> list node -> list cell -> list rec * rng.
Notation run := (run_mapping_model cell rng cache_ok mk_decide).
Notation core := (run_core cell rng cache_ok mk_decide).

(* every run is run_core on its reduced tree *)
Lemma run_is_core t c tb cells g t' m : reduce t c = TOk (t', m) ->
  run t c tb cells g =
  core t' (if cfg_flatten c then Markers.flatten_table tb else tb) cells g (drop_cells t) m.
Proof. intros H. unfold run_mapping_model, run_core. rewrite H. reflexivity. Qed.

(* the two runs compared by drop_equals_reduced: one and the same cache test and election
   (tree t', table tb, cells, generator); they differ in the stored tree and the level names *)
Lemma both_runs_same_election_drop t li t' tb cells g : drop_level t li = TOk t' ->
  run t' cfg_none tb cells g = core t' tb cells g (drop_cells t') (seq 0 (length t')) /\
  run t (cfg_dropping li) tb cells g = core t' tb cells g (drop_cells t) (remove_nth li (seq 0 (length t))).
Proof.
  intros Hd. split.
  - apply (run_is_core t' cfg_none tb cells g t' (seq 0 (length t'))). apply reduce_none.
  - apply (run_is_core t (cfg_dropping li) tb cells g). apply reduce_dropping. exact Hd.
Qed.

Lemma both_runs_same_election_flat t tb cells g : validate t = true ->
  run [leaf_level t] cfg_none (Markers.flatten_table tb) cells g
    = core [leaf_level t] (Markers.flatten_table tb) cells g (drop_cells [leaf_level t]) [0%nat] /\
  run t cfg_flat tb cells g
    = core [leaf_level t] (Markers.flatten_table tb) cells g (drop_cells t) [(length t - 1)%nat].
Proof.
  intros V. split.
  - apply (run_is_core [leaf_level t] cfg_none (Markers.flatten_table tb) cells g [leaf_level t] [0%nat]). reflexivity.
  - apply (run_is_core t cfg_flat tb cells g). apply reduce_flat. exact V.
Qed.
End SameElection.

(* ------------------------------------------------------------------ strict forms *)
Section Strict.
Variable cell rng : Type.
Variable cache_ok : tree -> Markers.table -> bool.
Variable mk_decide : tree -> Markers.table ->
                     rng -> option (nat * node) -> list node -> list cell -> list rec * rng.
Hypothesis decide_kids : forall t1 tb1 g p kids cs, (2 <= length kids)%nat ->
  Forall (fun r => In (asg r) kids) (fst (mk_decide t1 tb1 g p kids cs)).
Notation run := (run_mapping_model cell rng cache_ok mk_decide).

Theorem drop_equals_reduced_strict t li t' tb cells g :
  tree_ok t -> validate t = true ->
  drop_level t li = TOk t' ->
  match run t' cfg_none tb cells g with
  | TErr e => run t (cfg_dropping li) tb cells g = TErr e
  | TOk (rowsB, g') =>
      exists rowsA, run t (cfg_dropping li) tb cells g = TOk (rowsA, g') /\
                    Forall2 (drop_rel t li) rowsA rowsB
  end.
Proof.
  intros Ht V Hd.
  pose proof (drop_equals_reduced cell rng cache_ok mk_decide t li t' tb cells g Hd) as H.
  destruct (run t' cfg_none tb cells g) as [[rowsB g']|e]; [|exact H].
  destruct H as [K|H]; [|exact H].
  exfalso. revert K.
  apply (no_key_error cell rng cache_ok mk_decide decide_kids t (cfg_dropping li) tb cells g
                      t' (remove_nth li (seq 0 (length t))) Ht V).
  apply reduce_dropping. exact Hd.
Qed.

Theorem flatten_equals_one_level_strict t tb cells g :
  tree_ok t -> validate t = true ->
  match run [leaf_level t] cfg_none (Markers.flatten_table tb) cells g with
  | TErr e => run t cfg_flat tb cells g = TErr e
  | TOk (rowsB, g') =>
      exists rowsA, run t cfg_flat tb cells g = TOk (rowsA, g') /\ Forall2 (flat_rel t) rowsA rowsB
  end.
Proof.
  intros Ht V.
  pose proof (flatten_equals_one_level cell rng cache_ok mk_decide t tb cells g V) as H.
  destruct (run [leaf_level t] cfg_none (Markers.flatten_table tb) cells g) as [[rowsB g']|e]; [|exact H].
  destruct H as [K|H]; [|exact H].
  exfalso. revert K.
  apply (no_key_error cell rng cache_ok mk_decide decide_kids t cfg_flat tb cells g
                      [leaf_level t] [(length t - 1)%nat] Ht V).
  apply reduce_flat. exact V.
Qed.
End Strict.
