(* Lemmas about Model/Tree.v, part 1: the validator is exactly "strict tree";
   parent_of / children_of / ancestors on an accepted tree. *)
From Coq Require Import ZArith List Bool Lia Permutation.
From CTM Require Import Base.Sx Base.ListX Base.SortX Model.Tree.
Import ListNotations.
Open Scope Z_scope.

(* ------------------------------------------------------------------ vocabulary *)
(* a Python dict has pairwise distinct keys *)
Definition wf_level (lv : level) : Prop := NoDup (nodes lv).
Definition wf (t : tree) : Prop := Forall wf_level t.
(* parent p lists c among its children (for the leaf level: leaf p owns row c) *)
Definition lists (pl : level) (p c : Z) : Prop := exists cs, In (p, cs) pl /\ In c cs.
(* what "strict tree" means for two consecutive levels *)
Definition strict_pair (pl cl : level) : Prop :=
  (forall c, In c (nodes cl) -> exists p, lists pl p c) /\
  (forall p c, lists pl p c -> In c (nodes cl)) /\
  (forall p p' c, lists pl p c -> lists pl p' c -> p = p').
(* no child is repeated inside one list *)
Definition child_lists_nodup (lv : level) : Prop := forall p cs, In (p, cs) lv -> NoDup cs.
(* the child lists of a level, laid end to end, repeat no name: no child in two entries and no
   child twice in one list -- what the validator's child -> parent table enforces *)
Definition flat_nodup (lv : level) : Prop := NoDup (concat (map snd lv)).
(* every level but the last has repetition-free child lists *)
Fixpoint inner_nodup (t : tree) : Prop :=
  match t with
  | [] => True
  | lv :: rest => match rest with [] => True | _ :: _ => child_lists_nodup lv /\ inner_nodup rest end
  end.

Lemma wf_nth t k : wf t -> wf_level (nth k t []).
Proof.
  intros H. destruct (Nat.lt_ge_cases k (length t)) as [Hk|Hk].
  - apply (proj1 (Forall_forall _ _) H). apply nth_In. exact Hk.
  - rewrite nth_overflow by exact Hk. constructor.
Qed.

Lemma lists_cons p0 cs0 pl p c :
  lists ((p0, cs0) :: pl) p c <-> (p = p0 /\ In c cs0) \/ lists pl p c.
Proof.
  unfold lists. split.
  - intros (cs & [E | Hin] & Hc).
    + inversion E; subst. left. split; [reflexivity | exact Hc].
    + right. exists cs. split; assumption.
  - intros [[-> Hc] | (cs & Hin & Hc)].
    + exists cs0. split; [left; reflexivity | exact Hc].
    + exists cs. split; [right; exact Hin | exact Hc].
Qed.

Lemma lists_nil p c : ~ lists [] p c.
Proof. intros (cs & [] & _). Qed.

Lemma lists_node pl p c : lists pl p c -> In p (nodes pl).
Proof. intros (cs & Hin & _). unfold nodes. apply (in_map fst) in Hin. exact Hin. Qed.

Lemma children_of_lists pl p c : In c (children_of pl p) -> lists pl p c.
Proof.
  unfold children_of. destruct (zassoc p pl) as [cs|] eqn:E; [|intros []].
  intros Hc. exists cs. split; [apply zassoc_in; exact E | exact Hc].
Qed.

Lemma children_of_in pl p cs : wf_level pl -> In (p, cs) pl -> children_of pl p = cs.
Proof. intros W Hin. unfold children_of. rewrite (zassoc_nodup_in p cs pl W Hin). reflexivity. Qed.

Lemma lists_children_of pl p c : wf_level pl -> lists pl p c -> In c (children_of pl p).
Proof. intros W (cs & Hin & Hc). rewrite (children_of_in pl p cs W Hin). exact Hc. Qed.

Lemma children_of_nodup pl p : child_lists_nodup pl -> NoDup (children_of pl p).
Proof.
  intros H. unfold children_of. destruct (zassoc p pl) as [cs|] eqn:E; [|constructor].
  apply (H p cs). apply zassoc_in. exact E.
Qed.

Lemma in_nodes_entry lv x : In x (nodes lv) -> exists cs, In (x, cs) lv.
Proof.
  unfold nodes. rewrite in_map_iff. intros ([y cs] & E & Hin). cbn in E. subst. exists cs. exact Hin.
Qed.

(* ------------------------------------------------------------------ validate_pair *)
Lemma all_have_parent_iff pl cl :
  all_have_parent pl cl = true <-> (forall c, In c (nodes cl) -> exists p, lists pl p c).
Proof.
  unfold all_have_parent. rewrite forallb_forall. split.
  - intros H c Hc. specialize (H c Hc). apply zmem_in in H. apply in_concat in H.
    destruct H as (cs & Hcs & Hin). apply in_map_iff in Hcs. destruct Hcs as ([p cs'] & E & Hp).
    cbn in E. subst. exists p, cs. split; assumption.
  - intros H c Hc. destruct (H c Hc) as (p & cs & Hp & Hin). apply zmem_in. apply in_concat.
    exists cs. split; [|exact Hin]. apply in_map_iff. exists (p, cs). split; [reflexivity | exact Hp].
Qed.

(* NoDup of the concatenation = no name in two entries, no name twice in an entry *)
Lemma concat_nodup_entries (lf : level) :
  NoDup (concat (map snd lf)) ->
  (forall l rs, In (l, rs) lf -> NoDup rs) /\
  (forall l l' rs rs' r, In (l, rs) lf -> In (l', rs') lf -> In r rs -> In r rs' -> (l, rs) = (l', rs')).
Proof.
  induction lf as [|[l0 rs0] t IH]; cbn; intros H; [split; intros; contradiction|].
  apply NoDup_app_inv in H. destruct H as (H1 & H2 & H3). destruct (IH H2) as (A1 & A2).
  assert (G : forall l rs r, In (l, rs) t -> In r rs -> In r (concat (map snd t))).
  { intros l rs r Hin Hr. apply in_concat. exists rs. split; [|exact Hr].
    apply in_map_iff. exists (l, rs). split; [reflexivity | exact Hin]. }
  split.
  - intros l rs [E|Hin]; [inversion E; subst; exact H1 | apply (A1 l rs Hin)].
  - intros l l' rs rs' r [E|Hin] [E'|Hin'] Hr Hr'.
    + congruence.
    + inversion E; subst. exfalso. apply (H3 r Hr). apply (G l' rs' r Hin' Hr').
    + inversion E'; subst. exfalso. apply (H3 r Hr'). apply (G l rs r Hin Hr).
    + apply (A2 l l' rs rs' r); assumption.
Qed.

Lemma flat_nodup_child_lists pl : flat_nodup pl -> child_lists_nodup pl.
Proof. intros H p cs Hin. apply (proj1 (concat_nodup_entries pl H) p cs Hin). Qed.

Lemma flat_nodup_one_parent pl p p' c : flat_nodup pl -> lists pl p c -> lists pl p' c -> p = p'.
Proof.
  intros H (cs & Hin & Hc) (cs' & Hin' & Hc').
  pose proof (proj2 (concat_nodup_entries pl H) p p' cs cs' c Hin Hin' Hc Hc') as E. congruence.
Qed.

Lemma in_flat_lists pl c : In c (concat (map snd pl)) <-> exists p, lists pl p c.
Proof.
  rewrite in_concat. split.
  - intros (cs & Hcs & Hc). apply in_map_iff in Hcs. destruct Hcs as ([p cs'] & E & Hp). cbn in E. subst.
    exists p, cs. split; assumption.
  - intros (p & cs & Hp & Hc). exists cs. split; [|exact Hc]. apply in_map_iff. exists (p, cs). split; [reflexivity | exact Hp].
Qed.

(* Python dict + repetition-free lists + one parent per child = flat_nodup *)
Lemma all_children_nodup pl :
  wf_level pl -> child_lists_nodup pl ->
  (forall p p' c, lists pl p c -> lists pl p' c -> p = p') ->
  flat_nodup pl.
Proof.
  unfold wf_level, flat_nodup. induction pl as [|[q cs] t IH]; intros Wp N U; cbn; [constructor|].
  cbn in Wp. inversion Wp as [|? ? Wq Wt]; subst. apply NoDup_app.
  - apply (N q cs). left. reflexivity.
  - apply IH; [exact Wt | intros p cs' Hin; apply (N p cs'); right; exact Hin|].
    intros p p' c Hl Hl'. apply (U p p' c); apply lists_cons; right; assumption.
  - intros c Hc Hc'. apply in_concat in Hc'. destruct Hc' as (cs' & Hcs' & Hc').
    apply in_map_iff in Hcs'. destruct Hcs' as ([p cs''] & E' & Hp). cbn in E'. subst cs''.
    assert (q = p).
    { apply (U q p c); [apply lists_cons; left; split; [reflexivity | exact Hc]|].
      apply lists_cons. right. exists cs'. split; assumption. }
    subst p. apply Wq. apply (in_map fst) in Hp. exact Hp.
Qed.

(* the table after one child list: the new children, all recorded under p, in front of the old table *)
Definition recorded (p : Z) (cs : list Z) (c2p : list (Z * Z)) : list (Z * Z) :=
  map (fun c => (c, p)) (rev cs) ++ c2p.

Lemma recorded_keys p cs c2p c : In c (map fst (recorded p cs c2p)) <-> In c cs \/ In c (map fst c2p).
Proof.
  unfold recorded. rewrite map_app, map_map, in_app_iff. cbn [fst]. rewrite map_id, <- in_rev. reflexivity.
Qed.

(* one child list passes exactly when every name in it is a node of the child level, is not
   recorded yet, and the list repeats no name *)
Lemma scan_children_sound cl (p : Z) cs (c2p c2p' : list (Z * Z)) :
  scan_children cl p cs c2p = Some c2p' ->
  (forall c, In c cs -> In c (nodes cl)) /\ NoDup cs /\
  (forall c, In c cs -> ~ In c (map fst c2p)) /\ c2p' = recorded p cs c2p.
Proof.
  revert c2p. induction cs as [|c t IH]; intros c2p H; cbn in H.
  - inversion H; subst. split; [intros c []|]. split; [constructor|]. split; [intros c []|]. reflexivity.
  - destruct (zmem c (nodes cl)) eqn:Em; cbn in H; [|discriminate].
    apply zmem_in in Em.
    destruct (zassoc c c2p) as [p'|] eqn:Ea; [discriminate|]. apply zassoc_none in Ea.
    destruct (IH _ H) as (A1 & A2 & A3 & A4). split; [|split; [|split]].
    + intros d [<-|Hd]; [exact Em | apply A1; exact Hd].
    + constructor; [|exact A2]. intros Hc. apply (A3 c Hc). left. reflexivity.
    + intros d [<-|Hd]; [exact Ea|]. intros Hk. apply (A3 d Hd). right. exact Hk.
    + rewrite A4. unfold recorded. cbn [rev]. rewrite map_app, <- app_assoc. reflexivity.
Qed.

Lemma scan_children_complete cl (p : Z) cs (c2p : list (Z * Z)) :
  (forall c, In c cs -> In c (nodes cl)) -> NoDup cs ->
  (forall c, In c cs -> ~ In c (map fst c2p)) ->
  scan_children cl p cs c2p = Some (recorded p cs c2p).
Proof.
  revert c2p. induction cs as [|c t IH]; intros c2p H1 H2 H3; cbn; [reflexivity|].
  assert (Em : zmem c (nodes cl) = true) by (apply zmem_in, H1; left; reflexivity).
  rewrite Em. cbn.
  assert (Ea : zassoc c c2p = None) by (apply zassoc_none, H3; left; reflexivity).
  rewrite Ea. inversion H2 as [|? ? Hn Ht]; subst.
  rewrite IH; [|intros d Hd; apply H1; right; exact Hd | exact Ht|].
  - unfold recorded. cbn [rev]. rewrite map_app, <- app_assoc. reflexivity.
  - intros d Hd [E|Hk]; [cbn in E; subst d; contradiction | apply (H3 d (or_intror Hd) Hk)].
Qed.

(* the whole level passes exactly when every listed name is a node of the child level, none is
   recorded beforehand, and the child lists laid end to end repeat no name *)
Lemma scan_parents_sound cl pl (c2p c2p' : list (Z * Z)) :
  scan_parents cl pl c2p = Some c2p' ->
  (forall (p c : Z), lists pl p c -> In c (nodes cl)) /\ flat_nodup pl /\
  (forall c, In c (concat (map snd pl)) -> ~ In c (map fst c2p)).
Proof.
  unfold flat_nodup. revert c2p. induction pl as [|[p0 cs0] t IH]; intros c2p H; cbn in H.
  - split; [intros p c Hl; destruct (lists_nil _ _ Hl)|]. split; [constructor | intros c []].
  - destruct (scan_children cl p0 cs0 c2p) as [c2p1|] eqn:E1; [|discriminate].
    destruct (scan_children_sound _ _ _ _ _ E1) as (A1 & A2 & A3 & ->).
    destruct (IH _ H) as (B1 & B2 & B3). split; [|split].
    + intros p c Hl. apply lists_cons in Hl. destruct Hl as [[-> Hc]|Hl]; [apply A1; exact Hc | apply (B1 p c Hl)].
    + cbn [map snd concat]. apply NoDup_app; [exact A2 | exact B2|].
      intros c Hc Hc'. apply (B3 c Hc'). apply recorded_keys. left. exact Hc.
    + cbn [map snd concat]. intros c Hc. apply in_app_iff in Hc. destruct Hc as [Hc|Hc]; [apply A3; exact Hc|].
      intros Hk. apply (B3 c Hc). apply recorded_keys. right. exact Hk.
Qed.

Lemma scan_parents_complete cl pl (c2p : list (Z * Z)) :
  (forall p c, lists pl p c -> In c (nodes cl)) -> flat_nodup pl ->
  (forall c, In c (concat (map snd pl)) -> ~ In c (map fst c2p)) ->
  exists c2p', scan_parents cl pl c2p = Some c2p'.
Proof.
  unfold flat_nodup. revert c2p. induction pl as [|[p0 cs0] t IH]; intros c2p H1 H2 H3; cbn; [eexists; reflexivity|].
  cbn [map snd concat] in H2, H3. apply NoDup_app_inv in H2. destruct H2 as (N1 & N2 & N3).
  rewrite (scan_children_complete cl p0 cs0 c2p).
  - apply IH; [intros p c Hl; apply (H1 p); apply lists_cons; right; exact Hl | exact N2|].
    intros c Hc Hk. apply recorded_keys in Hk. destruct Hk as [Hk|Hk]; [apply (N3 c Hk Hc)|].
    apply (H3 c); [apply in_or_app; right; exact Hc | exact Hk].
  - intros c Hc. apply (H1 p0). apply lists_cons. left. split; [reflexivity | exact Hc].
  - exact N1.
  - intros c Hc. apply H3. apply in_or_app. left. exact Hc.
Qed.

(* the verdict on two consecutive levels: a strict pair whose child lists repeat no name.
   (flat_nodup implies the one-parent clause of strict_pair; both are kept because the other
   lemmas are phrased with strict_pair.) *)
Theorem validate_pair_iff pl cl : validate_pair pl cl = true <-> strict_pair pl cl /\ flat_nodup pl.
Proof.
  unfold validate_pair, strict_pair. rewrite andb_true_iff, all_have_parent_iff. split.
  - intros [H1 H2].
    destruct (scan_parents cl pl []) as [c2p|] eqn:E; [|discriminate].
    destruct (scan_parents_sound _ _ _ _ E) as (A1 & A2 & _).
    split; [|exact A2]. split; [exact H1|]. split; [exact A1|].
    intros p p' c. apply flat_nodup_one_parent. exact A2.
  - intros ((H1 & H2 & _) & H4). split; [exact H1|].
    destruct (scan_parents_complete cl pl [] H2 H4) as [c2p E]; [intros c _ [] | rewrite E; reflexivity].
Qed.

Lemma validate_pair_strict pl cl : validate_pair pl cl = true -> strict_pair pl cl.
Proof. intros H. apply validate_pair_iff in H. tauto. Qed.

Lemma validate_pair_flat pl cl : validate_pair pl cl = true -> flat_nodup pl.
Proof. intros H. apply validate_pair_iff in H. tauto. Qed.

(* the validator looks at the child level only through its key list *)
Lemma validate_pair_nodes pl cl cl' : nodes cl = nodes cl' -> validate_pair pl cl = validate_pair pl cl'.
Proof.
  intros E. unfold validate_pair, all_have_parent. rewrite E. f_equal.
  assert (G : forall c2p, scan_parents cl pl c2p = scan_parents cl' pl c2p).
  { induction pl as [|[p cs] t IH]; intros c2p; cbn; [reflexivity|].
    assert (G2 : forall c2p, scan_children cl p cs c2p = scan_children cl' p cs c2p).
    { clear IH. induction cs as [|c u IHc]; intros m; cbn; [reflexivity|]. rewrite E.
      destruct (negb (zmem c (nodes cl'))); [reflexivity|].
      destruct (zassoc c m) as [q|]; [reflexivity | apply IHc]. }
    rewrite G2. destruct (scan_children cl' p cs c2p); [apply IH | reflexivity]. }
  rewrite G. reflexivity.
Qed.

(* ------------------------------------------------------------------ validate_pairs / validate *)
Lemma validate_pairs_cons pl cl rest :
  validate_pairs (pl :: cl :: rest) = validate_pair pl cl && validate_pairs (cl :: rest).
Proof. reflexivity. Qed.

Theorem validate_pairs_iff t :
  validate_pairs t = true <->
  (forall k, (S k < length t)%nat -> strict_pair (nth k t []) (nth (S k) t []) /\ flat_nodup (nth k t [])).
Proof.
  induction t as [|pl rest IH]; [cbn; split; [intros _ k Hk; lia | reflexivity]|].
  destruct rest as [|cl rest].
  - cbn. split; [intros _ k Hk; lia | reflexivity].
  - rewrite validate_pairs_cons, andb_true_iff, validate_pair_iff, IH. split.
    + intros [H1 H2] k Hk. destruct k as [|k]; [exact H1|]. apply (H2 k). cbn in *. lia.
    + intros H. split; [apply (H 0%nat); cbn; lia|]. intros k Hk. apply (H (S k)). cbn in *. lia.
Qed.

Lemma validate_pairs_app front a l :
  validate_pairs (front ++ a :: l) = validate_pairs (front ++ [a]) && validate_pairs (a :: l).
Proof.
  induction front as [|x f IH]; [cbn [app]; destruct l; reflexivity|].
  destruct f as [|y f].
  - cbn [app]. rewrite validate_pairs_cons. cbn [validate_pairs]. rewrite andb_true_r. reflexivity.
  - cbn [app] in *. rewrite !validate_pairs_cons, IH, andb_assoc. reflexivity.
Qed.

Lemma validate_pairs_last_nodes front a a' :
  nodes a = nodes a' -> validate_pairs (front ++ [a]) = validate_pairs (front ++ [a']).
Proof.
  intros E. induction front as [|x f IH]; [reflexivity|].
  destruct f as [|y f].
  - cbn. rewrite (validate_pair_nodes x a a' E). reflexivity.
  - cbn [app] in *. rewrite !validate_pairs_cons, IH. reflexivity.
Qed.

Lemma validate_pairs_tail a l : validate_pairs (a :: l) = true -> validate_pairs l = true.
Proof. destruct l as [|b l]; [reflexivity|]. rewrite validate_pairs_cons, andb_true_iff. tauto. Qed.

Lemma validate_pairs_skipn k t : validate_pairs t = true -> validate_pairs (skipn k t) = true.
Proof.
  revert t. induction k as [|k IH]; intros t H; [exact H|].
  destruct t as [|a l]; [exact H|]. cbn. apply IH. apply (validate_pairs_tail a). exact H.
Qed.

Lemma validate_pairs_head pl cl rest : validate_pairs (pl :: cl :: rest) = true -> strict_pair pl cl.
Proof. rewrite validate_pairs_cons, andb_true_iff, validate_pair_iff. tauto. Qed.

Lemma validate_pairs_head_flat pl cl rest : validate_pairs (pl :: cl :: rest) = true -> flat_nodup pl.
Proof. rewrite validate_pairs_cons, andb_true_iff, validate_pair_iff. tauto. Qed.

(* accepted => no child list above the leaf level repeats a name *)
Lemma validate_pairs_inner_nodup t : validate_pairs t = true -> inner_nodup t.
Proof.
  induction t as [|lv rest IH]; [intros _; exact Logic.I|].
  destruct rest as [|lv2 rest]; [intros _; exact Logic.I|].
  intros H. cbn [inner_nodup]. split.
  - apply flat_nodup_child_lists. apply (validate_pairs_head_flat _ _ _ H).
  - apply IH. apply (validate_pairs_tail lv). exact H.
Qed.

(* the whole validator *)
Theorem validate_iff t :
  validate t = true <->
  t <> [] /\
  (forall k, (S k < length t)%nat -> strict_pair (nth k t []) (nth (S k) t [])) /\
  NoDup (leaf_rows t) /\
  (forall k, (S k < length t)%nat -> flat_nodup (nth k t [])).
Proof.
  unfold validate. rewrite !andb_true_iff, validate_pairs_iff, znodup_b_spec, negb_true_iff.
  split.
  - intros [[H1 H2] H3]. split; [destruct t; [discriminate | congruence]|].
    split; [intros k Hk; apply (H2 k Hk)|]. split; [exact H3 | intros k Hk; apply (H2 k Hk)].
  - intros (H1 & H2 & H3 & H4). split; [split|]; try assumption; [destruct t; [congruence | reflexivity]|].
    intros k Hk. split; [apply H2 | apply H4]; exact Hk.
Qed.

Lemma validate_pairs_of t : validate t = true -> validate_pairs t = true.
Proof. unfold validate. rewrite !andb_true_iff. tauto. Qed.

Lemma validate_strict t k : validate t = true -> (S k < length t)%nat ->
  strict_pair (nth k t []) (nth (S k) t []).
Proof. intros H. apply validate_iff in H. destruct H as (_ & H & _). apply H. Qed.

Lemma validate_flat t k : validate t = true -> (S k < length t)%nat -> flat_nodup (nth k t []).
Proof. intros H. apply validate_iff in H. destruct H as (_ & _ & _ & H). apply H. Qed.

(* exported: what the validator did not enforce before the repair of F3 *)
Theorem validate_inner_nodup t : validate t = true -> inner_nodup t.
Proof. intros H. apply validate_pairs_inner_nodup, validate_pairs_of, H. Qed.

Lemma validate_child_lists t k : validate t = true -> (S k < length t)%nat -> child_lists_nodup (nth k t []).
Proof. intros V Hk. apply flat_nodup_child_lists, validate_flat; assumption. Qed.

(* rows: no row in two leaves *)
Lemma rows_one_leaf t l l' r :
  validate t = true -> lists (leaf_level t) l r -> lists (leaf_level t) l' r -> l = l'.
Proof.
  intros H (rs & Hin & Hr) (rs' & Hin' & Hr'). apply validate_iff in H. destruct H as (_ & _ & H & _).
  unfold leaf_rows in H. destruct (concat_nodup_entries _ H) as (_ & A).
  specialize (A l l' rs rs' r Hin Hin' Hr Hr'). congruence.
Qed.

(* ------------------------------------------------------------------ parent_of *)
Lemma parent_of_lists pl c p : parent_of pl c = Some p -> lists pl p c.
Proof.
  unfold parent_of. destruct (find _ (rev pl)) as [[q cs]|] eqn:E; [|discriminate].
  cbn. intros H. inversion H; subst. apply find_some in E. destruct E as [Hin Hm].
  cbn in Hm. apply zmem_in in Hm. apply in_rev in Hin. exists cs. split; assumption.
Qed.

Lemma lists_parent_of_some pl p c : lists pl p c -> exists p', parent_of pl c = Some p'.
Proof.
  intros (cs & Hin & Hc). unfold parent_of.
  destruct (find (fun pc : node * list Z => zmem c (snd pc)) (rev pl)) as [[q cs']|] eqn:E;
    [eexists; reflexivity|].
  exfalso. pose proof (find_none _ _ E (p, cs) (proj1 (in_rev pl (p, cs)) Hin)) as F.
  cbn [snd] in F. rewrite (proj2 (zmem_in c cs) Hc) in F. discriminate.
Qed.

Lemma parent_of_none pl c : parent_of pl c = None -> forall p, ~ lists pl p c.
Proof. intros H p Hl. destruct (lists_parent_of_some _ _ _ Hl) as [p' E]. congruence. Qed.

Lemma parent_of_unique pl cl p c : strict_pair pl cl -> lists pl p c -> parent_of pl c = Some p.
Proof.
  intros (_ & _ & U) Hl. destruct (lists_parent_of_some _ _ _ Hl) as [p' E]. rewrite E. f_equal.
  apply (U p' p c); [apply parent_of_lists; exact E | exact Hl].
Qed.

(* ------------------------------------------------------------------ inverse queries on an accepted tree *)
Section Accepted.
  Variable t : tree.
  Hypothesis V : validate t = true.

  (* exported for the mapping model: a listed child has that parent *)
  Lemma children_parent_of k p c : (S k < length t)%nat ->
    In c (children_of (nth k t []) p) -> parent_of (nth k t []) c = Some p.
  Proof.
    intros Hk Hc. apply (parent_of_unique _ (nth (S k) t [])); [apply validate_strict; assumption|].
    apply children_of_lists. exact Hc.
  Qed.

  Lemma parent_of_children k p c : wf t ->
    parent_of (nth k t []) c = Some p -> In c (children_of (nth k t []) p) /\ In p (nodes (nth k t [])).
  Proof.
    intros W H. apply parent_of_lists in H. split; [apply lists_children_of; [apply wf_nth; exact W | exact H]|].
    apply (lists_node _ _ _ H).
  Qed.

  (* exported: every node below the top has a parent one level up *)
  Lemma node_has_parent k c : (S k < length t)%nat -> In c (nodes (nth (S k) t [])) ->
    exists p, parent_of (nth k t []) c = Some p /\ In p (nodes (nth k t [])) /\ lists (nth k t []) p c.
  Proof.
    intros Hk Hc. pose proof (validate_strict t k V Hk) as S. destruct S as (S1 & S2 & S3).
    destruct (S1 c Hc) as [p Hl]. exists p. split; [|split; [apply (lists_node _ _ _ Hl) | exact Hl]].
    apply (parent_of_unique _ (nth (S k) t [])); [split; [exact S1 | split; [exact S2 | exact S3]] | exact Hl].
  Qed.

  Lemma listed_child_exists k p c : (S k < length t)%nat ->
    In c (children_of (nth k t []) p) -> In c (nodes (nth (S k) t [])).
  Proof.
    intros Hk Hc. destruct (validate_strict t k V Hk) as (_ & S2 & _). apply (S2 p). apply children_of_lists. exact Hc.
  Qed.
End Accepted.

(* ------------------------------------------------------------------ ancestors = the path to the top *)
Fixpoint path_ok (t : tree) (li : nat) (x : node) (l : list (nat * node)) : Prop :=
  match l with
  | [] => li = 0%nat
  | (k, p) :: l' => li = S k /\ In p (nodes (nth k t [])) /\ lists (nth k t []) p x /\ path_ok t k p l'
  end.

Lemma ancestors_path t li x : validate t = true -> (li < length t)%nat -> In x (nodes (nth li t [])) ->
  path_ok t li x (ancestors t li x).
Proof.
  intros V. revert x. induction li as [|k IH]; intros x Hk Hx; cbn; [reflexivity|].
  destruct (node_has_parent t V k x Hk Hx) as (p & E & Hp & Hl). rewrite E. cbn.
  split; [reflexivity|]. split; [exact Hp|]. split; [exact Hl|]. apply IH; [lia | exact Hp].
Qed.

Lemma path_unique t li x l : validate t = true -> (li < length t)%nat ->
  path_ok t li x l -> l = ancestors t li x.
Proof.
  intros V. revert li x. induction l as [|[k p] l IH]; intros li x Hli H; cbn in H.
  - subst. reflexivity.
  - destruct H as (-> & Hp & Hl & H). cbn.
    rewrite (parent_of_unique _ (nth (S k) t []) p x (validate_strict t k V Hli) Hl).
    f_equal. apply IH; [lia | exact H].
Qed.

Lemma ancestors_levels t li x : validate t = true -> (li < length t)%nat -> In x (nodes (nth li t [])) ->
  map fst (ancestors t li x) = rev (seq 0 li).
Proof.
  intros V. revert x. induction li as [|k IH]; intros x Hk Hx; [reflexivity|].
  cbn [ancestors]. destruct (node_has_parent t V k x Hk Hx) as (p & E & Hp & _). rewrite E.
  cbn [map fst]. rewrite IH by (try lia; exact Hp).
  rewrite seq_S, rev_app_distr. reflexivity.
Qed.

Lemma ancestors_chk_ok t li x : validate t = true -> (li < length t)%nat -> In x (nodes (nth li t [])) ->
  ancestors_chk t li x = TOk (ancestors t li x).
Proof.
  intros V. revert x. induction li as [|k IH]; intros x Hk Hx; [reflexivity|].
  cbn. destruct (node_has_parent t V k x Hk Hx) as (p & E & Hp & _). rewrite E.
  rewrite IH by (try lia; exact Hp). reflexivity.
Qed.
