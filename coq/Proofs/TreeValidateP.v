(* Lemmas about Model/Tree.v, part 1: the validator is exactly "strict tree";
   parent_of / children_of / ancestors on an accepted tree. *)
From Coq Require Import ZArith List Bool Lia Permutation.
From CTM Require Import Base.Sx Base.ListX Base.SortX Model.Tree.
Import ListNotations.
Open Scope Z_scope.

(* ------------------------------------------------------------------ vocabulary *)
(* a Python dict has pairwise distinct keys *)
Definition wf_level (lv : level) : Prop := NoDup (nodes lv).
Definition wf (t : tree) : Prop := Forall wf_level t.
(* parent p lists c among its children (for the leaf level: leaf p owns row c) *)
Definition lists (pl : level) (p c : Z) : Prop := exists cs, In (p, cs) pl /\ In c cs.
(* what "strict tree" means for two consecutive levels *)
Definition strict_pair (pl cl : level) : Prop :=
  (forall c, In c (nodes cl) -> exists p, lists pl p c) /\
  (forall p c, lists pl p c -> In c (nodes cl)) /\
  (forall p p' c, lists pl p c -> lists pl p' c -> p = p').
(* no child is repeated inside one list (NOT enforced by the validator: finding F3) *)
Definition child_lists_nodup (lv : level) : Prop := forall p cs, In (p, cs) lv -> NoDup cs.
(* every level but the last has repetition-free child lists *)
Fixpoint inner_nodup (t : tree) : Prop :=
  match t with
  | [] => True
  | lv :: rest => match rest with [] => True | _ :: _ => child_lists_nodup lv /\ inner_nodup rest end
  end.

Lemma wf_nth t k : wf t -> wf_level (nth k t []).
Proof.
  intros H. destruct (Nat.lt_ge_cases k (length t)) as [Hk|Hk].
  - apply (proj1 (Forall_forall _ _) H). apply nth_In. exact Hk.
  - rewrite nth_overflow by exact Hk. constructor.
Qed.

Lemma lists_cons p0 cs0 pl p c :
  lists ((p0, cs0) :: pl) p c <-> (p = p0 /\ In c cs0) \/ lists pl p c.
Proof.
  unfold lists. split.
  - intros (cs & [E | Hin] & Hc).
    + inversion E; subst. left. split; [reflexivity | exact Hc].
    + right. exists cs. split; assumption.
  - intros [[-> Hc] | (cs & Hin & Hc)].
    + exists cs0. split; [left; reflexivity | exact Hc].
    + exists cs. split; [right; exact Hin | exact Hc].
Qed.

Lemma lists_nil p c : ~ lists [] p c.
Proof. intros (cs & [] & _). Qed.

Lemma lists_node pl p c : lists pl p c -> In p (nodes pl).
Proof. intros (cs & Hin & _). unfold nodes. apply (in_map fst) in Hin. exact Hin. Qed.

Lemma children_of_lists pl p c : In c (children_of pl p) -> lists pl p c.
Proof.
  unfold children_of. destruct (zassoc p pl) as [cs|] eqn:E; [|intros []].
  intros Hc. exists cs. split; [apply zassoc_in; exact E | exact Hc].
Qed.

Lemma children_of_in pl p cs : wf_level pl -> In (p, cs) pl -> children_of pl p = cs.
Proof. intros W Hin. unfold children_of. rewrite (zassoc_nodup_in p cs pl W Hin). reflexivity. Qed.

Lemma lists_children_of pl p c : wf_level pl -> lists pl p c -> In c (children_of pl p).
Proof. intros W (cs & Hin & Hc). rewrite (children_of_in pl p cs W Hin). exact Hc. Qed.

Lemma children_of_nodup pl p : child_lists_nodup pl -> NoDup (children_of pl p).
Proof.
  intros H. unfold children_of. destruct (zassoc p pl) as [cs|] eqn:E; [|constructor].
  apply (H p cs). apply zassoc_in. exact E.
Qed.

Lemma in_nodes_entry lv x : In x (nodes lv) -> exists cs, In (x, cs) lv.
Proof.
  unfold nodes. rewrite in_map_iff. intros ([y cs] & E & Hin). cbn in E. subst. exists cs. exact Hin.
Qed.

(* ------------------------------------------------------------------ validate_pair *)
Lemma all_have_parent_iff pl cl :
  all_have_parent pl cl = true <-> (forall c, In c (nodes cl) -> exists p, lists pl p c).
Proof.
  unfold all_have_parent. rewrite forallb_forall. split.
  - intros H c Hc. specialize (H c Hc). apply zmem_in in H. apply in_concat in H.
    destruct H as (cs & Hcs & Hin). apply in_map_iff in Hcs. destruct Hcs as ([p cs'] & E & Hp).
    cbn in E. subst. exists p, cs. split; assumption.
  - intros H c Hc. destruct (H c Hc) as (p & cs & Hp & Hin). apply zmem_in. apply in_concat.
    exists cs. split; [|exact Hin]. apply in_map_iff. exists (p, cs). split; [reflexivity | exact Hp].
Qed.

Lemma scan_children_sound cl (p : Z) cs (c2p c2p' : list (Z * Z)) :
  scan_children cl p cs c2p = Some c2p' ->
  (forall c, In c cs -> In c (nodes cl) /\ zassoc c c2p' = Some p) /\
  (forall c q, zassoc c c2p = Some q -> zassoc c c2p' = Some q) /\
  (forall c q, zassoc c c2p' = Some q -> zassoc c c2p = Some q \/ (In c cs /\ q = p)).
Proof.
  revert c2p. induction cs as [|c t IH]; intros c2p H; cbn in H.
  - inversion H; subst. split; [intros c []|]. split; auto.
  - destruct (zmem c (nodes cl)) eqn:Em; cbn in H; [|discriminate].
    apply zmem_in in Em.
    destruct (zassoc c c2p) as [p'|] eqn:Ea.
    + destruct (p' =? p) eqn:Ep; [|discriminate]. apply Z.eqb_eq in Ep. subst p'.
      destruct (IH _ H) as (A1 & A2 & A3). split; [|split].
      * intros d [<-|Hd]; [split; [exact Em | apply A2; exact Ea] | apply A1; exact Hd].
      * exact A2.
      * intros d q Hq. destruct (A3 d q Hq) as [Ho|[Hd ->]]; [left; exact Ho | right; split; [right; exact Hd | reflexivity]].
    + destruct (IH _ H) as (A1 & A2 & A3). split; [|split].
      * intros d [<-|Hd]; [split; [exact Em | apply A2; cbn; rewrite Z.eqb_refl; reflexivity] | apply A1; exact Hd].
      * intros d q Hq. apply A2. cbn. destruct (d =? c) eqn:Edc; [|exact Hq].
        apply Z.eqb_eq in Edc. subst. congruence.
      * intros d q Hq. destruct (A3 d q Hq) as [Ho|[Hd ->]].
        -- cbn in Ho. destruct (d =? c) eqn:Edc.
           ++ apply Z.eqb_eq in Edc. subst. inversion Ho; subst. right. split; [left; reflexivity | reflexivity].
           ++ left. exact Ho.
        -- right. split; [right; exact Hd | reflexivity].
Qed.

Lemma scan_children_complete cl (p : Z) cs (c2p : list (Z * Z)) :
  (forall c, In c cs -> In c (nodes cl)) ->
  (forall c, In c cs -> zassoc c c2p = None \/ zassoc c c2p = Some p) ->
  exists c2p', scan_children cl p cs c2p = Some c2p'.
Proof.
  revert c2p. induction cs as [|c t IH]; intros c2p H1 H2; cbn; [eexists; reflexivity|].
  assert (Em : zmem c (nodes cl) = true) by (apply zmem_in, H1; left; reflexivity).
  rewrite Em. cbn.
  destruct (H2 c (or_introl eq_refl)) as [E|E]; rewrite E.
  - apply IH; [intros d Hd; apply H1; right; exact Hd|].
    intros d Hd. cbn. destruct (d =? c) eqn:Edc; [right; reflexivity | apply H2; right; exact Hd].
  - rewrite Z.eqb_refl. apply IH; [intros d Hd; apply H1; right; exact Hd | intros d Hd; apply H2; right; exact Hd].
Qed.

Lemma scan_parents_sound cl pl (c2p c2p' : list (Z * Z)) :
  scan_parents cl pl c2p = Some c2p' ->
  (forall (p c : Z), lists pl p c -> In c (nodes cl) /\ zassoc c c2p' = Some p) /\
  (forall (c q : Z), zassoc c c2p = Some q -> zassoc c c2p' = Some q).
Proof.
  revert c2p. induction pl as [|[p0 cs0] t IH]; intros c2p H; cbn in H.
  - inversion H; subst. split; [intros p c Hl; destruct (lists_nil _ _ Hl) | auto].
  - destruct (scan_children cl p0 cs0 c2p) as [c2p1|] eqn:E1; [|discriminate].
    destruct (scan_children_sound _ _ _ _ _ E1) as (A1 & A2 & _).
    destruct (IH _ H) as (B1 & B2). split.
    + intros p c Hl. apply lists_cons in Hl. destruct Hl as [[-> Hc]|Hl].
      * destruct (A1 c Hc) as [Hn Ha]. split; [exact Hn | apply B2; exact Ha].
      * apply B1; exact Hl.
    + intros c q Hq. apply B2, A2, Hq.
Qed.

Lemma scan_parents_complete cl pl (c2p : list (Z * Z)) :
  (forall p c, lists pl p c -> In c (nodes cl)) ->
  (forall (p c : Z), lists pl p c -> zassoc c c2p = None \/ zassoc c c2p = Some p) ->
  (forall p p' c, lists pl p c -> lists pl p' c -> p = p') ->
  exists c2p', scan_parents cl pl c2p = Some c2p'.
Proof.
  revert c2p. induction pl as [|[p0 cs0] t IH]; intros c2p H1 H2 H3; cbn; [eexists; reflexivity|].
  destruct (scan_children_complete cl p0 cs0 c2p) as [c2p1 E1].
  - intros c Hc. apply (H1 p0). apply lists_cons. left. split; [reflexivity | exact Hc].
  - intros c Hc. apply (H2 p0). apply lists_cons. left. split; [reflexivity | exact Hc].
  - rewrite E1. destruct (scan_children_sound _ _ _ _ _ E1) as (_ & _ & A3).
    apply IH.
    + intros p c Hl. apply (H1 p). apply lists_cons. right. exact Hl.
    + intros p c Hl.
      assert (Hl' : lists ((p0, cs0) :: t) p c) by (apply lists_cons; right; exact Hl).
      destruct (zassoc c c2p1) as [q|] eqn:Eq; [|left; reflexivity].
      right. destruct (A3 c q Eq) as [Ho|[Hc ->]].
      * destruct (H2 p c Hl') as [E|E]; congruence.
      * f_equal. apply (H3 p0 p c); [apply lists_cons; left; split; [reflexivity | exact Hc] | exact Hl'].
    + intros p p' c Hl Hl'. apply (H3 p p' c); apply lists_cons; right; assumption.
Qed.

Theorem validate_pair_iff pl cl : validate_pair pl cl = true <-> strict_pair pl cl.
Proof.
  unfold validate_pair, strict_pair. rewrite andb_true_iff, all_have_parent_iff. split.
  - intros [H1 H2]. split; [exact H1|].
    destruct (scan_parents cl pl []) as [c2p|] eqn:E; [|discriminate].
    destruct (scan_parents_sound _ _ _ _ E) as (A1 & _). split.
    + intros p c Hl. apply (A1 p c Hl).
    + intros p p' c Hl Hl'. destruct (A1 p c Hl) as [_ E1]. destruct (A1 p' c Hl') as [_ E2]. congruence.
  - intros (H1 & H2 & H3). split; [exact H1|].
    destruct (scan_parents_complete cl pl [] H2) as [c2p E]; [intros; left; reflexivity | exact H3|].
    rewrite E. reflexivity.
Qed.

(* the validator looks at the child level only through its key list *)
Lemma validate_pair_nodes pl cl cl' : nodes cl = nodes cl' -> validate_pair pl cl = validate_pair pl cl'.
Proof.
  intros E. unfold validate_pair, all_have_parent. rewrite E. f_equal.
  assert (G : forall c2p, scan_parents cl pl c2p = scan_parents cl' pl c2p).
  { induction pl as [|[p cs] t IH]; intros c2p; cbn; [reflexivity|].
    assert (G2 : forall c2p, scan_children cl p cs c2p = scan_children cl' p cs c2p).
    { clear IH. induction cs as [|c u IHc]; intros m; cbn; [reflexivity|]. rewrite E.
      destruct (negb (zmem c (nodes cl'))); [reflexivity|].
      destruct (zassoc c m) as [q|]; [destruct (q =? p); [apply IHc | reflexivity] | apply IHc]. }
    rewrite G2. destruct (scan_children cl' p cs c2p); [apply IH | reflexivity]. }
  rewrite G. reflexivity.
Qed.

(* ------------------------------------------------------------------ validate_pairs / validate *)
Lemma validate_pairs_cons pl cl rest :
  validate_pairs (pl :: cl :: rest) = validate_pair pl cl && validate_pairs (cl :: rest).
Proof. reflexivity. Qed.

Theorem validate_pairs_iff t :
  validate_pairs t = true <->
  (forall k, (S k < length t)%nat -> strict_pair (nth k t []) (nth (S k) t [])).
Proof.
  induction t as [|pl rest IH]; [cbn; split; [intros _ k Hk; lia | reflexivity]|].
  destruct rest as [|cl rest].
  - cbn. split; [intros _ k Hk; lia | reflexivity].
  - rewrite validate_pairs_cons, andb_true_iff, validate_pair_iff, IH. split.
    + intros [H1 H2] k Hk. destruct k as [|k]; [exact H1|]. apply (H2 k). cbn in *. lia.
    + intros H. split; [apply (H 0%nat); cbn; lia|]. intros k Hk. apply (H (S k)). cbn in *. lia.
Qed.

Lemma validate_pairs_app front a l :
  validate_pairs (front ++ a :: l) = validate_pairs (front ++ [a]) && validate_pairs (a :: l).
Proof.
  induction front as [|x f IH]; [cbn [app]; destruct l; reflexivity|].
  destruct f as [|y f].
  - cbn [app]. rewrite validate_pairs_cons. cbn [validate_pairs]. rewrite andb_true_r. reflexivity.
  - cbn [app] in *. rewrite !validate_pairs_cons, IH, andb_assoc. reflexivity.
Qed.

Lemma validate_pairs_last_nodes front a a' :
  nodes a = nodes a' -> validate_pairs (front ++ [a]) = validate_pairs (front ++ [a']).
Proof.
  intros E. induction front as [|x f IH]; [reflexivity|].
  destruct f as [|y f].
  - cbn. rewrite (validate_pair_nodes x a a' E). reflexivity.
  - cbn [app] in *. rewrite !validate_pairs_cons, IH. reflexivity.
Qed.

Lemma validate_pairs_tail a l : validate_pairs (a :: l) = true -> validate_pairs l = true.
Proof. destruct l as [|b l]; [reflexivity|]. rewrite validate_pairs_cons, andb_true_iff. tauto. Qed.

Lemma validate_pairs_skipn k t : validate_pairs t = true -> validate_pairs (skipn k t) = true.
Proof.
  revert t. induction k as [|k IH]; intros t H; [exact H|].
  destruct t as [|a l]; [exact H|]. cbn. apply IH. apply (validate_pairs_tail a). exact H.
Qed.

Lemma validate_pairs_head pl cl rest : validate_pairs (pl :: cl :: rest) = true -> strict_pair pl cl.
Proof. rewrite validate_pairs_cons, andb_true_iff, validate_pair_iff. tauto. Qed.

(* the whole validator *)
Theorem validate_iff t :
  validate t = true <->
  t <> [] /\
  (forall k, (S k < length t)%nat -> strict_pair (nth k t []) (nth (S k) t [])) /\
  NoDup (leaf_rows t).
Proof.
  unfold validate. rewrite !andb_true_iff, validate_pairs_iff, znodup_b_spec, negb_true_iff.
  split.
  - intros [[H1 H2] H3]. split; [|split; assumption]. destruct t; [discriminate | congruence].
  - intros (H1 & H2 & H3). split; [split|]; try assumption. destruct t; [congruence | reflexivity].
Qed.

Lemma validate_pairs_of t : validate t = true -> validate_pairs t = true.
Proof. unfold validate. rewrite !andb_true_iff. tauto. Qed.

Lemma validate_strict t k : validate t = true -> (S k < length t)%nat ->
  strict_pair (nth k t []) (nth (S k) t []).
Proof. intros H. apply validate_iff in H. destruct H as (_ & H & _). apply H. Qed.

(* rows: NoDup of the concatenation = no row in two leaves, no row twice in a leaf *)
Lemma concat_nodup_entries (lf : level) :
  NoDup (concat (map snd lf)) ->
  (forall l rs, In (l, rs) lf -> NoDup rs) /\
  (forall l l' rs rs' r, In (l, rs) lf -> In (l', rs') lf -> In r rs -> In r rs' -> (l, rs) = (l', rs')).
Proof.
  induction lf as [|[l0 rs0] t IH]; cbn; intros H; [split; intros; contradiction|].
  apply NoDup_app_inv in H. destruct H as (H1 & H2 & H3). destruct (IH H2) as (A1 & A2).
  assert (G : forall l rs r, In (l, rs) t -> In r rs -> In r (concat (map snd t))).
  { intros l rs r Hin Hr. apply in_concat. exists rs. split; [|exact Hr].
    apply in_map_iff. exists (l, rs). split; [reflexivity | exact Hin]. }
  split.
  - intros l rs [E|Hin]; [inversion E; subst; exact H1 | apply (A1 l rs Hin)].
  - intros l l' rs rs' r [E|Hin] [E'|Hin'] Hr Hr'.
    + congruence.
    + inversion E; subst. exfalso. apply (H3 r Hr). apply (G l' rs' r Hin' Hr').
    + inversion E'; subst. exfalso. apply (H3 r Hr'). apply (G l rs r Hin Hr).
    + apply (A2 l l' rs rs' r); assumption.
Qed.

Lemma rows_one_leaf t l l' r :
  validate t = true -> lists (leaf_level t) l r -> lists (leaf_level t) l' r -> l = l'.
Proof.
  intros H (rs & Hin & Hr) (rs' & Hin' & Hr'). apply validate_iff in H. destruct H as (_ & _ & H).
  unfold leaf_rows in H. destruct (concat_nodup_entries _ H) as (_ & A).
  specialize (A l l' rs rs' r Hin Hin' Hr Hr'). congruence.
Qed.

(* ------------------------------------------------------------------ parent_of *)
Lemma parent_of_lists pl c p : parent_of pl c = Some p -> lists pl p c.
Proof.
  unfold parent_of. destruct (find _ (rev pl)) as [[q cs]|] eqn:E; [|discriminate].
  cbn. intros H. inversion H; subst. apply find_some in E. destruct E as [Hin Hm].
  cbn in Hm. apply zmem_in in Hm. apply in_rev in Hin. exists cs. split; assumption.
Qed.

Lemma lists_parent_of_some pl p c : lists pl p c -> exists p', parent_of pl c = Some p'.
Proof.
  intros (cs & Hin & Hc). unfold parent_of.
  destruct (find (fun pc : node * list Z => zmem c (snd pc)) (rev pl)) as [[q cs']|] eqn:E;
    [eexists; reflexivity|].
  exfalso. pose proof (find_none _ _ E (p, cs) (proj1 (in_rev pl (p, cs)) Hin)) as F.
  cbn [snd] in F. rewrite (proj2 (zmem_in c cs) Hc) in F. discriminate.
Qed.

Lemma parent_of_none pl c : parent_of pl c = None -> forall p, ~ lists pl p c.
Proof. intros H p Hl. destruct (lists_parent_of_some _ _ _ Hl) as [p' E]. congruence. Qed.

Lemma parent_of_unique pl cl p c : strict_pair pl cl -> lists pl p c -> parent_of pl c = Some p.
Proof.
  intros (_ & _ & U) Hl. destruct (lists_parent_of_some _ _ _ Hl) as [p' E]. rewrite E. f_equal.
  apply (U p' p c); [apply parent_of_lists; exact E | exact Hl].
Qed.

(* ------------------------------------------------------------------ inverse queries on an accepted tree *)
Section Accepted.
  Variable t : tree.
  Hypothesis V : validate t = true.

  (* exported for the mapping model: a listed child has that parent *)
  Lemma children_parent_of k p c : (S k < length t)%nat ->
    In c (children_of (nth k t []) p) -> parent_of (nth k t []) c = Some p.
  Proof.
    intros Hk Hc. apply (parent_of_unique _ (nth (S k) t [])); [apply validate_strict; assumption|].
    apply children_of_lists. exact Hc.
  Qed.

  Lemma parent_of_children k p c : wf t ->
    parent_of (nth k t []) c = Some p -> In c (children_of (nth k t []) p) /\ In p (nodes (nth k t [])).
  Proof.
    intros W H. apply parent_of_lists in H. split; [apply lists_children_of; [apply wf_nth; exact W | exact H]|].
    apply (lists_node _ _ _ H).
  Qed.

  (* exported: every node below the top has a parent one level up *)
  Lemma node_has_parent k c : (S k < length t)%nat -> In c (nodes (nth (S k) t [])) ->
    exists p, parent_of (nth k t []) c = Some p /\ In p (nodes (nth k t [])) /\ lists (nth k t []) p c.
  Proof.
    intros Hk Hc. pose proof (validate_strict t k V Hk) as S. destruct S as (S1 & S2 & S3).
    destruct (S1 c Hc) as [p Hl]. exists p. split; [|split; [apply (lists_node _ _ _ Hl) | exact Hl]].
    apply (parent_of_unique _ (nth (S k) t [])); [split; [exact S1 | split; [exact S2 | exact S3]] | exact Hl].
  Qed.

  Lemma listed_child_exists k p c : (S k < length t)%nat ->
    In c (children_of (nth k t []) p) -> In c (nodes (nth (S k) t [])).
  Proof.
    intros Hk Hc. destruct (validate_strict t k V Hk) as (_ & S2 & _). apply (S2 p). apply children_of_lists. exact Hc.
  Qed.
End Accepted.

(* ------------------------------------------------------------------ ancestors = the path to the top *)
Fixpoint path_ok (t : tree) (li : nat) (x : node) (l : list (nat * node)) : Prop :=
  match l with
  | [] => li = 0%nat
  | (k, p) :: l' => li = S k /\ In p (nodes (nth k t [])) /\ lists (nth k t []) p x /\ path_ok t k p l'
  end.

Lemma ancestors_path t li x : validate t = true -> (li < length t)%nat -> In x (nodes (nth li t [])) ->
  path_ok t li x (ancestors t li x).
Proof.
  intros V. revert x. induction li as [|k IH]; intros x Hk Hx; cbn; [reflexivity|].
  destruct (node_has_parent t V k x Hk Hx) as (p & E & Hp & Hl). rewrite E. cbn.
  split; [reflexivity|]. split; [exact Hp|]. split; [exact Hl|]. apply IH; [lia | exact Hp].
Qed.

Lemma path_unique t li x l : validate t = true -> (li < length t)%nat ->
  path_ok t li x l -> l = ancestors t li x.
Proof.
  intros V. revert li x. induction l as [|[k p] l IH]; intros li x Hli H; cbn in H.
  - subst. reflexivity.
  - destruct H as (-> & Hp & Hl & H). cbn.
    rewrite (parent_of_unique _ (nth (S k) t []) p x (validate_strict t k V Hli) Hl).
    f_equal. apply IH; [lia | exact H].
Qed.

Lemma ancestors_levels t li x : validate t = true -> (li < length t)%nat -> In x (nodes (nth li t [])) ->
  map fst (ancestors t li x) = rev (seq 0 li).
Proof.
  intros V. revert x. induction li as [|k IH]; intros x Hk Hx; [reflexivity|].
  cbn [ancestors]. destruct (node_has_parent t V k x Hk Hx) as (p & E & Hp & _). rewrite E.
  cbn [map fst]. rewrite IH by (try lia; exact Hp).
  rewrite seq_S, rev_app_distr. reflexivity.
Qed.

Lemma ancestors_chk_ok t li x : validate t = true -> (li < length t)%nat -> In x (nodes (nth li t [])) ->
  ancestors_chk t li x = TOk (ancestors t li x).
Proof.
  intros V. revert x. induction li as [|k IH]; intros x Hk Hx; [reflexivity|].
  cbn. destruct (node_has_parent t V k x Hk Hx) as (p & E & Hp & _). rewrite E.
  rewrite IH by (try lia; exact Hp). reflexivity.
Qed.
