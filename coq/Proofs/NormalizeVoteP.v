(* Proofs linking the query preparation (C07) to the vote model: the vote of a cell at a parent
   depends on the query only through that cell's row on that parent's markers; hence every
   equality of prepare_query proved in NormalizeP.v is an equality of every vote record and of
   every decision.  Also: the rational scale relation lifted from rows to prepare_query. *)
From Coq Require Import ZArith List Bool Lia Permutation.
From CTM Require Import Base.Sx Base.SortX Model.Tree Model.Vote Model.Election Model.VoteDecide
                        Model.NormalizeVote Model.Normalize Proofs.NormalizeP.
Import ListNotations.
Open Scope Z_scope.

(* ------------------------------------------------------------------ *)
(* the vote sees the query only through q_at, and at parent p only through the rows q_at . p *)

Section Bridge.
Variable cell rng : Type.
Variable refs_at : parent -> list vec.
Variable owners_at : parent -> list Z.
Variable draw : rng -> parent -> list (list nat) * rng.
Variable n_assign : nat.
Variable corr_of : vec -> parent -> Z -> Election.frac.

Lemma vote_record_row (q1 q2 : cell -> parent -> vec) p kids subsets c :
  q1 c p = q2 c p ->
  vote_record cell refs_at owners_at q1 n_assign (corr_row corr_of q1) p kids subsets c =
  vote_record cell refs_at owners_at q2 n_assign (corr_row corr_of q2) p kids subsets c.
Proof. intros Hrow. unfold vote_record, corr_row. rewrite Hrow. reflexivity. Qed.

Lemma decide_vote_rows (q1 q2 : cell -> parent -> vec) g p kids cs :
  (forall c, In c cs -> q1 c p = q2 c p) ->
  decide_vote cell rng refs_at owners_at q1 draw n_assign (corr_row corr_of q1) g p kids cs =
  decide_vote cell rng refs_at owners_at q2 draw n_assign (corr_row corr_of q2) g p kids cs.
Proof.
  intros Hrows. unfold decide_vote. destruct (draw g p) as [subsets g']. f_equal.
  induction cs as [|c t IH]; [reflexivity|]. cbn [flat_map].
  rewrite (vote_record_row q1 q2 p kids subsets c) by (apply Hrows; left; reflexivity).
  f_equal. apply IH. intros c' Hc'. apply Hrows. right. assumption.
Qed.
End Bridge.

Lemma equal_profile_equal_vote (cell rng : Type) (refs_at : parent -> list vec) (owners_at : parent -> list Z)
      (draw : rng -> parent -> list (list nat) * rng) (n_assign : nat)
      (corr_of : vec -> parent -> Z -> Election.frac) (q1 q2 : cell -> parent -> vec) (p : parent) :
  (forall kids subsets c, q1 c p = q2 c p ->
     vote_record cell refs_at owners_at q1 n_assign (corr_row corr_of q1) p kids subsets c =
     vote_record cell refs_at owners_at q2 n_assign (corr_row corr_of q2) p kids subsets c) /\
  (forall g kids cs, (forall c, In c cs -> q1 c p = q2 c p) ->
     decide_vote cell rng refs_at owners_at q1 draw n_assign (corr_row corr_of q1) g p kids cs =
     decide_vote cell rng refs_at owners_at q2 draw n_assign (corr_row corr_of q2) g p kids cs).
Proof.
  split.
  - intros kids subsets c Hrow. apply vote_record_row. assumption.
  - intros g kids cs Hrows. apply decide_vote_rows. assumption.
Qed.

(* the same with the query read out of prepared matrices: only the matrix of parent p matters *)
Lemma equal_parent_matrix_equal_vote (rng : Type) (refs_at : parent -> list vec) (owners_at : parent -> list Z)
      (draw : rng -> parent -> list (list nat) * rng) (n_assign : nat)
      (corr_of : vec -> parent -> Z -> Election.frac) (pidx : parent -> nat) (m1 m2 : list (list vec)) (p : parent) :
  nth (pidx p) m1 [] = nth (pidx p) m2 [] ->
  (forall kids subsets c,
     vote_record_on refs_at owners_at n_assign corr_of pidx m1 p kids subsets c =
     vote_record_on refs_at owners_at n_assign corr_of pidx m2 p kids subsets c) /\
  (forall g kids cs,
     decide_on rng refs_at owners_at draw n_assign corr_of pidx m1 g p kids cs =
     decide_on rng refs_at owners_at draw n_assign corr_of pidx m2 g p kids cs).
Proof.
  intros Hm.
  assert (Hq : forall c, q_of pidx m1 c p = q_of pidx m2 c p) by (intros c; unfold q_of; rewrite Hm; reflexivity).
  split.
  - intros kids subsets c. unfold vote_record_on. apply vote_record_row. apply Hq.
  - intros g kids cs. unfold decide_on. apply decide_vote_rows. intros c _. apply Hq.
Qed.

Lemma prepared_equal_votes (r1 r2 : result (list (list vec))) m1 m2 :
  r1 = r2 -> r1 = Ok m1 -> r2 = Ok m2 -> same_votes m1 m2.
Proof.
  intros Heq H1 H2. rewrite H1, H2 in Heq. injection Heq as Hm. unfold same_votes.
  split; [exact Hm|]. split.
  - intros refs_at owners_at n_assign corr_of pidx p kids subsets c.
    apply (equal_parent_matrix_equal_vote unit refs_at owners_at (fun g _ => ([], g)) n_assign corr_of pidx m1 m2 p).
    rewrite Hm. reflexivity.
  - intros rng refs_at owners_at draw n_assign corr_of pidx g p kids cs.
    apply (equal_parent_matrix_equal_vote rng refs_at owners_at draw n_assign corr_of pidx m1 m2 p).
    rewrite Hm. reflexivity.
Qed.

(* ------------------------------------------------------------------ *)
(* the rational scale relation at the level of prepare_query           *)

Definition rows_proportional (d1 d2 : list (list Z)) : Prop :=
  Forall2 (fun r1 r2 => exists a b, 0 < a /\ 0 < b /\ Forall2 (fun x y => a * x = b * y) r1 r2) d1 d2.

Lemma existsb_neg_proportional a b r1 r2 :
  0 < a -> 0 < b -> proportional a b r1 r2 ->
  existsb (fun x => x <? 0) r1 = existsb (fun x => x <? 0) r2.
Proof.
  intros Ha Hb Hp. induction Hp as [|x y t1 t2 Hxy Ht IH]; [reflexivity|]. simpl. rewrite IH. f_equal.
  destruct (x <? 0) eqn:Ex; destruct (y <? 0) eqn:Ey; try reflexivity; exfalso.
  - apply Z.ltb_lt in Ex. apply Z.ltb_ge in Ey. nia.
  - apply Z.ltb_ge in Ex. apply Z.ltb_lt in Ey. nia.
Qed.

Lemma has_negative_proportional d1 d2 : rows_proportional d1 d2 -> has_negative d1 = has_negative d2.
Proof.
  unfold rows_proportional, has_negative. intros H.
  induction H as [|r1 r2 t1 t2 Hr Ht IH]; [reflexivity|]. simpl. rewrite IH. f_equal.
  destruct Hr as [a [b [Ha [Hb Hp]]]]. apply (existsb_neg_proportional a b); assumption.
Qed.

Section RationalMatrix.
Variable R : Type.
Variable lg : frac -> R.
Hypothesis lg_ext : forall a b, 0 < snd a -> 0 < snd b -> feq a b -> lg a = lg b.

Lemma log2cpm_rows_proportional d1 d2 :
  Forall nonneg_row d1 -> rows_proportional d1 d2 ->
  map (log2cpm_row R lg) d1 = map (log2cpm_row R lg) d2.
Proof.
  intros Hn Hp. apply Forall2_map_eq.
  pose proof (Forall2_and_Forall_l _ _ _ _ Hp Hn) as H2.
  eapply Forall2_weaken; [|exact H2]. intros r1 r2 [[a [b [Ha [Hb Hr]]]] Hn1]. simpl in *.
  apply (log2cpm_proportional R lg lg_ext a b); assumption.
Qed.

Lemma scale_rational_prepare genes d1 d2 lists :
  rows_proportional d1 d2 ->
  prepare_query R lg genes (DeclRaw d1) lists = prepare_query R lg genes (DeclRaw d2) lists.
Proof.
  intros Hp. pose proof (has_negative_proportional d1 d2 Hp) as Hneg.
  destruct (has_negative d1) eqn:E1.
  - rewrite !raw_negative by congruence. reflexivity.
  - rewrite !raw_equals_declared by congruence.
    rewrite (log2cpm_rows_proportional d1 d2); [reflexivity | apply has_negative_false; assumption | assumption].
Qed.
End RationalMatrix.

(* factor lists: row i of d1 times a_i = row i of d2 times b_i *)
Lemma rows_proportional_of_lists (las lbs : list Z) (d1 d2 : list (list Z)) :
  Forall (fun a => 0 < a) las -> Forall (fun b => 0 < b) lbs ->
  length las = length d1 -> length lbs = length d1 -> length d2 = length d1 ->
  (forall i, (i < length d1)%nat ->
     Forall2 (fun x y => nth i las 1 * x = nth i lbs 1 * y) (nth i d1 []) (nth i d2 [])) ->
  rows_proportional d1 d2.
Proof.
  revert las lbs d2. induction d1 as [|r1 t1 IH]; intros las lbs d2 Ha Hb La Lb L2 Hrows.
  - destruct d2; [constructor | discriminate].
  - destruct d2 as [|r2 t2]; [discriminate|]. destruct las as [|a ta]; [discriminate|]. destruct lbs as [|b tb]; [discriminate|].
    inversion Ha; subst. inversion Hb; subst. constructor.
    + exists a, b. split; [assumption|]. split; [assumption|]. apply (Hrows O). simpl. lia.
    + apply (IH ta tb t2); try assumption; try (simpl in *; lia).
      intros i Hi. apply (Hrows (S i)). simpl. lia.
Qed.

Lemma scale_invariant_rational_matrix (R : Type) (lg : frac -> R) :
  (forall a b, 0 < snd a -> 0 < snd b -> feq a b -> lg a = lg b) ->
  (forall genes d1 d2 lists,
     Forall2 (fun r1 r2 => exists a b, 0 < a /\ 0 < b /\ Forall2 (fun x y => a * x = b * y) r1 r2) d1 d2 ->
     prepare_query R lg genes (DeclRaw d1) lists = prepare_query R lg genes (DeclRaw d2) lists) /\
  (forall (las lbs : list Z) genes d1 d2 lists,
     Forall (fun a => 0 < a) las -> Forall (fun b => 0 < b) lbs ->
     length las = length d1 -> length lbs = length d1 -> length d2 = length d1 ->
     (forall i, (i < length d1)%nat ->
        Forall2 (fun x y => nth i las 1 * x = nth i lbs 1 * y) (nth i d1 []) (nth i d2 [])) ->
     prepare_query R lg genes (DeclRaw d1) lists = prepare_query R lg genes (DeclRaw d2) lists).
Proof.
  intros lg_ext. split.
  - intros genes d1 d2 lists Hp. apply scale_rational_prepare; assumption.
  - intros las lbs genes d1 d2 lists Ha Hb La Lb L2 Hrows. apply scale_rational_prepare; [assumption|].
    apply (rows_proportional_of_lists las lbs); assumption.
Qed.

(* ------------------------------------------------------------------ *)
(* the composed statements: each C07 relation leaves every vote unchanged *)

Section Composed.
Variable lg : frac -> Z.
Hypothesis lg_ext : forall a b, 0 < snd a -> 0 < snd b -> feq a b -> lg a = lg b.

Lemma scale_invariant_vote ks genes d lists m1 m2 :
  Forall (fun k => 0 < k) ks -> length ks = length d ->
  prepare_query Z lg genes (DeclRaw (scale_rows ks d)) lists = Ok m1 ->
  prepare_query Z lg genes (DeclRaw d) lists = Ok m2 ->
  same_votes m1 m2.
Proof.
  intros Hks Hl H1 H2. eapply prepared_equal_votes; [|exact H1|exact H2].
  apply scale_invariant; assumption.
Qed.

Lemma scale_rational_vote genes d1 d2 lists m1 m2 :
  rows_proportional d1 d2 ->
  prepare_query Z lg genes (DeclRaw d1) lists = Ok m1 ->
  prepare_query Z lg genes (DeclRaw d2) lists = Ok m2 ->
  same_votes m1 m2.
Proof.
  intros Hp H1 H2. eapply prepared_equal_votes; [|exact H1|exact H2].
  apply scale_rational_prepare; assumption.
Qed.
End Composed.

Lemma raw_equals_declared_vote (lg : frac -> Z) genes d lists m1 m2 :
  has_negative d = false ->
  prepare_query Z lg genes (DeclRaw d) lists = Ok m1 ->
  prepare_query Z lg genes (DeclNorm (map (log2cpm_row Z lg) d)) lists = Ok m2 ->
  same_votes m1 m2.
Proof.
  intros Hneg H1 H2. eapply prepared_equal_votes; [|exact H1|exact H2].
  apply raw_equals_declared. assumption.
Qed.

Lemma gene_permutation_vote (lg : frac -> Z) p genes lists :
  NoDup genes -> Permutation p (seq 0 (length genes)) ->
  (forall (d : list (list Z)) m1 m2, Forall (fun r => length r = length genes) d ->
     prepare_query Z lg (permute p genes) (DeclRaw (map (permute p) d)) lists = Ok m1 ->
     prepare_query Z lg genes (DeclRaw d) lists = Ok m2 ->
     same_votes m1 m2) /\
  (forall (d : list (list Z)) m1 m2, Forall (fun r => length r = length genes) d ->
     prepare_query Z lg (permute p genes) (DeclNorm (map (permute p) d)) lists = Ok m1 ->
     prepare_query Z lg genes (DeclNorm d) lists = Ok m2 ->
     same_votes m1 m2).
Proof.
  intros Hn Hp. destruct (gene_permutation_both Z lg p genes lists Hn Hp) as [Hraw Hnorm].
  split; intros d m1 m2 Hw H1 H2; (eapply prepared_equal_votes; [|exact H1|exact H2]).
  - apply Hraw. assumption.
  - apply Hnorm. assumption.
Qed.

Lemma extra_genes_vote (lg : frac -> Z) (keep : Z -> bool) genes (d : list (list Z)) lists m1 m2 :
  NoDup genes -> Forall (fun r => length r = length genes) d ->
  (forall g, In g (concat lists) -> keep g = true) ->
  prepare_query Z lg (filter keep genes) (DeclNorm (map (drop_cols keep genes) d)) lists = Ok m1 ->
  prepare_query Z lg genes (DeclNorm d) lists = Ok m2 ->
  same_votes m1 m2.
Proof.
  intros Hn Hw Hk H1 H2. eapply prepared_equal_votes; [|exact H1|exact H2].
  apply extra_genes_irrelevant; assumption.
Qed.

Lemma marker_values_by_name_vote (lg : frac -> Z) genes genes' (d d' : list (list Z)) lists m1 m2 :
  NoDup genes -> NoDup genes' ->
  Forall (fun r => length r = length genes) d -> Forall (fun r => length r = length genes') d' ->
  (forall g, In g (concat lists) -> (In g genes <-> In g genes')) ->
  Forall2 (fun row row' => forall g, In g (concat lists) ->
             zassoc g (combine genes row) = zassoc g (combine genes' row')) d d' ->
  prepare_query Z lg genes (DeclNorm d) lists = Ok m1 ->
  prepare_query Z lg genes' (DeclNorm d') lists = Ok m2 ->
  same_votes m1 m2.
Proof.
  intros Hn Hn' Hw Hw' Hin Hag H1 H2. eapply prepared_equal_votes; [|exact H1|exact H2].
  apply prepare_agree_assoc; assumption.
Qed.

(* ------------------------------------------------------------------ *)
(* the integer-valued example instance of lg is a function of the value *)
Lemma lgz_ext a b : 0 < snd a -> 0 < snd b -> feq a b -> lgz a = lgz b.
Proof.
  destruct a as [n1 d1]. destruct b as [n2 d2]. unfold feq, lgz. simpl. intros H1 H2 Heq.
  rewrite <- (Z.div_mul_cancel_r (n1 * 1024) d1 d2) by lia.
  rewrite <- (Z.div_mul_cancel_r (n2 * 1024) d2 d1) by lia.
  f_equal; [|ring].
  replace (n1 * 1024 * d2) with (n1 * d2 * 1024) by ring. rewrite Heq. ring.
Qed.

(* what same_votes says: exactly m1 = m2 (audit 3, defect A4) *)
Lemma same_votes_is_eq m1 m2 : same_votes m1 m2 <-> m1 = m2.
Proof. split; [intros [H _]; exact H | intros ->; repeat split; reflexivity]. Qed.
