(* Lemmas about Model/AvgCorr.v: what tally_votes / aggregate_votes / choose_node leave in corr_sum and votes
   for one reference type is exactly the sum / the number of the iterations that voted for one of its leaves,
   for every number of iterations, leaves and types and every interleaving of winners. *)
From Coq Require Import List ZArith Bool Lia.
From CTM Require Import Base.Sx Model.Vote Model.AvgCorr.
Import ListNotations.
Open Scope Z_scope.

Lemma upd_at_length {A} (f : A -> A) i (l : list A) : length (upd_at f i l) = length l.
Proof.
  revert i; induction l as [|x t IH]; intros i; [reflexivity|].
  destruct i as [|j]; cbn [upd_at length]; [reflexivity|]. now rewrite IH.
Qed.

Definition contrib (owners : list Z) (i : nat) (t d : Z) : Z :=
  match nth_error owners i with Some o => if o =? t then d else 0 | None => 0 end.

Lemma sum_where_upd owners : forall vals i d t,
  length owners = length vals ->
  sum_where owners (upd_at (Z.add d) i vals) t = sum_where owners vals t + contrib owners i t d.
Proof.
  induction owners as [|o os IH]; intros vals i d t Hlen.
  - destruct vals as [|v vs]; [|discriminate Hlen]. unfold contrib. destruct i; reflexivity.
  - destruct vals as [|v vs]; [discriminate Hlen|]. cbn [length] in Hlen.
    destruct i as [|j]; cbn [upd_at sum_where].
    + unfold contrib; cbn [nth_error]. destruct (o =? t); lia.
    + rewrite IH by lia. unfold contrib; cbn [nth_error]. lia.
Qed.

Lemma sum_where_zeros owners t : sum_where owners (zeros (length owners)) t = 0.
Proof.
  induction owners as [|o os IH]; [reflexivity|].
  cbn [length zeros repeat sum_where]. fold (zeros (length os)). rewrite IH. destruct (o =? t); reflexivity.
Qed.

Lemma zeros_length n : length (zeros n) = n.
Proof. apply repeat_length. Qed.

Lemma own_votes_cons owners it its t :
  own_votes owners (it :: its) t = contrib owners (fst it) t 1 + own_votes owners its t.
Proof.
  unfold own_votes, contrib, voted_for at 1. cbn [filter].
  unfold voted_for at 1.
  destruct (nth_error owners (fst it)) as [o|]; [|lia].
  destruct (o =? t); cbn [length]; lia.
Qed.

Lemma own_corr_cons owners it its t :
  own_corr_sum owners (it :: its) t = contrib owners (fst it) t (snd it) + own_corr_sum owners its t.
Proof.
  unfold own_corr_sum, contrib. cbn [filter]. unfold voted_for at 1.
  destruct (nth_error owners (fst it)) as [o|]; [|lia].
  destruct (o =? t); cbn [map fold_right]; lia.
Qed.

Lemma tally_fold owners t : forall its st,
  length (fst st) = length owners -> length (snd st) = length owners ->
  sum_where owners (fst (fold_left tally_step its st)) t = sum_where owners (fst st) t + own_votes owners its t /\
  sum_where owners (snd (fold_left tally_step its st)) t = sum_where owners (snd st) t + own_corr_sum owners its t.
Proof.
  induction its as [|it its IH]; intros st H1 H2; cbn [fold_left].
  - unfold own_votes, own_corr_sum; cbn. lia.
  - destruct (IH (tally_step st it)) as [IHv IHc].
    + unfold tally_step; cbn [fst]. now rewrite upd_at_length.
    + unfold tally_step; cbn [snd]. now rewrite upd_at_length.
    + rewrite IHv, IHc. unfold tally_step; cbn [fst snd].
      rewrite !sum_where_upd by (symmetry; assumption).
      rewrite own_votes_cons, own_corr_cons. lia.
Qed.

(* the aggregated vote count of a type is the number of iterations that voted for one of its leaves *)
Lemma agg_votes_exact owners its t :
  sum_where owners (fst (tally_corr (length owners) its)) t = own_votes owners its t.
Proof.
  unfold tally_corr.
  destruct (tally_fold owners t its (zeros (length owners), zeros (length owners))) as [Hv _];
    cbn [fst snd]; try apply zeros_length.
  rewrite Hv. cbn [fst]. rewrite sum_where_zeros. lia.
Qed.

(* the aggregated correlation sum of a type is the sum of the winning correlations of exactly those iterations *)
Lemma agg_corr_exact owners its t :
  sum_where owners (snd (tally_corr (length owners) its)) t = own_corr_sum owners its t.
Proof.
  unfold tally_corr.
  destruct (tally_fold owners t its (zeros (length owners), zeros (length owners))) as [_ Hc];
    cbn [fst snd]; try apply zeros_length.
  rewrite Hc. cbn [snd]. rewrite sum_where_zeros. lia.
Qed.

Lemma avg_corr_is_mean D owners its t :
  avg_corr D owners (tally_corr (length owners) its) t =
  (own_corr_sum owners its t, D * (if 0 <? own_votes owners its t then own_votes owners its t else 1)).
Proof. unfold avg_corr. now rewrite agg_votes_exact, agg_corr_exact. Qed.

Lemma own_corr_bounded D owners t : forall its,
  (forall it, In it its -> - D <= snd it <= D) ->
  - D * own_votes owners its t <= own_corr_sum owners its t <= D * own_votes owners its t.
Proof.
  induction its as [|it its IH]; intros Hb.
  - unfold own_votes, own_corr_sum; cbn. lia.
  - rewrite own_votes_cons, own_corr_cons.
    assert (Hit : - D <= snd it <= D) by (apply Hb; now left).
    assert (IH' := IH (fun x Hx => Hb x (or_intror Hx))).
    unfold contrib. destruct (nth_error owners (fst it)) as [o|]; [|lia].
    destruct (o =? t); lia.
Qed.

Lemma own_votes_nonneg owners its t : 0 <= own_votes owners its t.
Proof. unfold own_votes. lia. Qed.

(* avg_corr in [-1, 1]: |numerator| <= denominator, denominator > 0 -- also for a type without any vote
   (where the implementation divides by 1 and reports 0) *)
Lemma avg_corr_in_range D owners its t :
  0 < D -> (forall it, In it its -> - D <= snd it <= D) ->
  let a := avg_corr D owners (tally_corr (length owners) its) t in
  0 < snd a /\ - snd a <= fst a <= snd a.
Proof.
  intros HD Hb. rewrite avg_corr_is_mean. cbn [fst snd].
  assert (Hr := own_corr_bounded D owners t its Hb).
  assert (Hn := own_votes_nonneg owners its t).
  destruct (0 <? own_votes owners its t) eqn:Hv.
  - apply Z.ltb_lt in Hv. split; [nia|]. nia.
  - apply Z.ltb_ge in Hv. assert (own_votes owners its t = 0) as E by lia. rewrite E in Hr. split; lia.
Qed.

(* every iteration in range is counted for exactly one type: the votes of the distinct types add up *)
Lemma own_votes_total owners its t :
  own_votes owners its t <= Z.of_nat (length its).
Proof.
  unfold own_votes. apply inj_le.
  induction its as [|it its IH]; cbn [filter length]; [lia|].
  destruct (voted_for owners t it); cbn [length]; lia.
Qed.

(* a leaf column that belongs to no iteration's winner contributes nothing: types are independent *)
Lemma own_votes_app owners its1 its2 t :
  own_votes owners (its1 ++ its2) t = own_votes owners its1 t + own_votes owners its2 t.
Proof. unfold own_votes. rewrite filter_app, app_length. lia. Qed.

Lemma zsum_app (l1 l2 : list Z) :
  fold_right Z.add 0 (l1 ++ l2) = fold_right Z.add 0 l1 + fold_right Z.add 0 l2.
Proof. induction l1 as [|x l IH]; cbn [app fold_right]; [reflexivity|]. rewrite IH. lia. Qed.

Lemma own_corr_app owners its1 its2 t :
  own_corr_sum owners (its1 ++ its2) t = own_corr_sum owners its1 t + own_corr_sum owners its2 t.
Proof.
  unfold own_corr_sum. rewrite filter_app, map_app. apply zsum_app.
Qed.

(* the result does not depend on the order in which the iterations are tallied *)
Lemma tally_order_irrelevant owners its1 its2 t :
  sum_where owners (snd (tally_corr (length owners) (its1 ++ its2))) t =
  sum_where owners (snd (tally_corr (length owners) (its2 ++ its1))) t /\
  sum_where owners (fst (tally_corr (length owners) (its1 ++ its2))) t =
  sum_where owners (fst (tally_corr (length owners) (its2 ++ its1))) t.
Proof. rewrite !agg_corr_exact, !agg_votes_exact, !own_corr_app, !own_votes_app. lia. Qed.

(* refinement link: the vote array that the loop of tally_votes and the column sums of aggregate_votes build is
   the abstract vote function [votes_for] about which the plurality / runner-up theorems of C02 and C03 speak *)
Lemma voted_for_nth owners t it :
  (fst it < length owners)%nat -> voted_for owners t it = (nth (fst it) owners (-1) =? t).
Proof.
  intros Hlt. unfold voted_for.
  destruct (nth_error owners (fst it)) as [o|] eqn:E.
  - now rewrite (nth_error_nth owners (fst it) (-1) E).
  - apply nth_error_None in E. lia.
Qed.

Lemma own_votes_is_votes_for owners t : forall its,
  iters_in_range (length owners) its = true ->
  own_votes owners its t = Z.of_nat (votes_for owners (map fst its) t).
Proof.
  unfold own_votes, votes_for, count, iters_in_range.
  induction its as [|it its IH]; intros Hr; [reflexivity|].
  cbn [forallb] in Hr. apply andb_prop in Hr. destruct Hr as [Hit Hr].
  apply Nat.ltb_lt in Hit. specialize (IH Hr). apply Nat2Z.inj in IH.
  f_equal. cbn [map filter]. rewrite (voted_for_nth owners t it Hit).
  destruct (nth (fst it) owners (-1) =? t); cbn [length]; now rewrite IH.
Qed.

Lemma tally_refines_votes_for owners its t :
  iters_in_range (length owners) its = true ->
  sum_where owners (fst (tally_corr (length owners) its)) t = Z.of_nat (votes_for owners (map fst its) t).
Proof. intros Hr. rewrite agg_votes_exact. now apply own_votes_is_votes_for. Qed.
