(* Lemmas about Model/TreeReread.v: to_str followed by from_str.

   General part: two trees are `tree_perm`-related when they have the same levels, the same keys
   in the same order at every level, and at every key child collections that are permutations of
   one another.  Everything the property speaks about -- the validator's verdict, dict
   well-formedness, nodes, the child -> parent table, ancestors (with their error behaviour),
   is_equal_to and __eq__ -- is the same for related trees; children, leaf lists and leaf pairs
   are permutations.  Special part: `reread fs t` is related to t for every choice of flags. *)
From Coq Require Import ZArith List Bool Lia Permutation.
From CTM Require Import Base.Sx Base.ListX Base.SortX Model.Tree Model.TreeReread Proofs.TreeP.
Import ListNotations.
Open Scope Z_scope.

Definition entry_perm (a b : node * list Z) : Prop := fst a = fst b /\ Permutation (snd a) (snd b).
Definition level_perm (a b : level) : Prop := Forall2 entry_perm a b.
Definition tree_perm (t u : tree) : Prop := Forall2 level_perm t u.

(* ------------------------------------------------------------------ the relation *)
Lemma entry_perm_sym a b : entry_perm a b -> entry_perm b a.
Proof. intros [H1 H2]. split; [symmetry; exact H1 | apply Permutation_sym; exact H2]. Qed.

Lemma level_perm_sym a b : level_perm a b -> level_perm b a.
Proof. intros H. induction H as [|x y l l' Hxy Hl IH]; constructor; [apply entry_perm_sym; exact Hxy | exact IH]. Qed.

Lemma tree_perm_sym t u : tree_perm t u -> tree_perm u t.
Proof. intros H. induction H as [|x y l l' Hxy Hl IH]; constructor; [apply level_perm_sym; exact Hxy | exact IH]. Qed.

Lemma level_perm_refl a : level_perm a a.
Proof. induction a as [|x l IH]; constructor; [split; [reflexivity | apply Permutation_refl] | exact IH]. Qed.

Lemma tree_perm_refl t : tree_perm t t.
Proof. induction t as [|x l IH]; constructor; [apply level_perm_refl | exact IH]. Qed.

Lemma tree_perm_length t u : tree_perm t u -> length u = length t.
Proof. intros H. induction H as [|x y l l' Hxy Hl IH]; [reflexivity | cbn; rewrite IH; reflexivity]. Qed.

Lemma tree_perm_nth t u k : tree_perm t u -> level_perm (nth k t []) (nth k u []).
Proof.
  intros H. revert k. induction H as [|x y l l' Hxy Hl IH]; intros k.
  - destruct k; constructor.
  - destruct k as [|k]; [exact Hxy | apply IH].
Qed.

Lemma tree_perm_last t u : tree_perm t u -> level_perm (leaf_level t) (leaf_level u).
Proof.
  unfold leaf_level. intros H. induction H as [|x y l l' Hxy Hl IH]; [constructor|].
  destruct Hl as [|x2 y2 l2 l2' Hxy2 Hl2]; [exact Hxy | exact IH].
Qed.

Lemma tree_perm_hd t u : tree_perm t u -> level_perm (hd [] t) (hd [] u).
Proof. intros H. destruct H; [constructor | assumption]. Qed.

Lemma tree_perm_skipn k t u : tree_perm t u -> tree_perm (skipn k t) (skipn k u).
Proof.
  intros H. revert k. induction H as [|x y l l' Hxy Hl IH]; intros k.
  - destruct k; constructor.
  - destruct k as [|k]; [constructor; assumption | apply IH].
Qed.

(* ------------------------------------------------------------------ one level *)
Lemma level_perm_nodes a b : level_perm a b -> nodes a = nodes b.
Proof.
  intros H. induction H as [|x y l l' [Hf _] Hl IH]; [reflexivity|].
  unfold nodes in *. cbn [map]. rewrite Hf, IH. reflexivity.
Qed.

Lemma level_perm_children a b x : level_perm a b -> Permutation (children_of a x) (children_of b x).
Proof.
  intros H. unfold children_of. induction H as [|[p cs] [q ds] l l' [Hf Hp] Hl IH]; [apply Permutation_refl|].
  cbn [fst snd] in Hf, Hp. subst q. cbn [zassoc]. destruct (x =? p); [exact Hp | exact IH].
Qed.

Lemma level_perm_lists_1 a b p c : level_perm a b -> lists a p c -> lists b p c.
Proof.
  intros H. induction H as [|[p0 cs] [q ds] l l' [Hf Hp] Hl IH]; [intros HL; exact HL|].
  cbn [fst snd] in Hf, Hp. subst q. rewrite !lists_cons. intros [[E Hc]|HL].
  - left. split; [exact E | apply (Permutation_in _ Hp Hc)].
  - right. apply IH. exact HL.
Qed.

Lemma level_perm_lists a b p c : level_perm a b -> (lists a p c <-> lists b p c).
Proof. intros H. split; apply level_perm_lists_1; [exact H | apply level_perm_sym; exact H]. Qed.

Lemma level_perm_concat a b : level_perm a b -> Permutation (concat (map snd a)) (concat (map snd b)).
Proof.
  intros H. induction H as [|x y l l' [_ Hp] Hl IH]; [apply Permutation_refl|].
  cbn [map concat]. apply Permutation_app; assumption.
Qed.

Lemma zmem_perm c l l' : Permutation l l' -> zmem c l = zmem c l'.
Proof.
  intros Hp. destruct (zmem c l) eqn:E1; destruct (zmem c l') eqn:E2; try reflexivity.
  - apply zmem_in in E1. apply zmem_false in E2. exfalso. apply E2. apply (Permutation_in _ Hp E1).
  - apply zmem_in in E2. apply zmem_false in E1. exfalso. apply E1. apply (Permutation_in _ (Permutation_sym Hp) E2).
Qed.

Lemma find_app_local {A} (f : A -> bool) l1 l2 :
  find f (l1 ++ l2) = match find f l1 with Some y => Some y | None => find f l2 end.
Proof. induction l1 as [|x l1 IH]; [reflexivity|]. cbn [app find]. destruct (f x); [reflexivity | exact IH]. Qed.

Lemma level_perm_parent_of a b c : level_perm a b -> parent_of a c = parent_of b c.
Proof.
  intros H. unfold parent_of. set (f := fun pc : node * list Z => zmem c (snd pc)).
  induction H as [|x y l l' [Hf Hp] Hl IH]; [reflexivity|].
  cbn [rev]. rewrite !find_app_local.
  destruct (find f (rev l)) as [r|] eqn:E1; destruct (find f (rev l')) as [r'|] eqn:E2;
    cbn [option_map] in IH |- *; try discriminate IH; [exact IH|].
  cbn [find]. unfold f. rewrite (zmem_perm c _ _ Hp).
  destruct (zmem c (snd y)); [cbn [option_map]; rewrite Hf; reflexivity | reflexivity].
Qed.

Lemma level_perm_wf a b : level_perm a b -> wf_level a -> wf_level b.
Proof. intros H. unfold wf_level. rewrite (level_perm_nodes a b H). exact (fun h => h). Qed.

Lemma level_perm_flat a b : level_perm a b -> flat_nodup a -> flat_nodup b.
Proof. intros H. unfold flat_nodup. apply Permutation_NoDup, level_perm_concat, H. Qed.

Lemma level_perm_strict a b a' b' : level_perm a a' -> level_perm b b' -> strict_pair a b -> strict_pair a' b'.
Proof.
  intros Ha Hb (S1 & S2 & S3). unfold strict_pair. rewrite <- (level_perm_nodes b b' Hb).
  split; [|split].
  - intros c Hc. destruct (S1 c Hc) as [p Hl]. exists p. apply (level_perm_lists a a' p c Ha). exact Hl.
  - intros p c Hl. apply (S2 p). apply (level_perm_lists a a' p c Ha). exact Hl.
  - intros p p' c H1 H2. apply (S3 p p' c); apply (level_perm_lists a a' _ c Ha); assumption.
Qed.

(* ------------------------------------------------------------------ the tree *)
Lemma tree_perm_validate t u : tree_perm t u -> validate t = true -> validate u = true.
Proof.
  intros H. rewrite !validate_iff. intros (V1 & V2 & V3 & V4).
  pose proof (tree_perm_length t u H) as HL.
  split; [intros E; subst u; destruct t; [apply V1; reflexivity | discriminate]|].
  split; [|split].
  - intros k Hk. rewrite HL in Hk.
    apply (level_perm_strict (nth k t []) (nth (S k) t [])); [apply tree_perm_nth, H | apply tree_perm_nth, H | apply V2, Hk].
  - unfold leaf_rows. apply (Permutation_NoDup (l := concat (map snd (leaf_level t)))); [|exact V3].
    apply level_perm_concat, tree_perm_last, H.
  - intros k Hk. rewrite HL in Hk. apply (level_perm_flat (nth k t [])); [apply tree_perm_nth, H | apply V4, Hk].
Qed.

Lemma tree_perm_wf t u : tree_perm t u -> wf t -> wf u.
Proof.
  unfold wf. intros H. induction H as [|x y l l' Hxy Hl IH]; intros W; [constructor|].
  inversion W as [|? ? W1 W2]; subst. constructor; [apply (level_perm_wf x y Hxy W1) | apply IH, W2].
Qed.

Lemma tree_perm_ancestors t u li x : tree_perm t u -> ancestors u li x = ancestors t li x.
Proof.
  intros H. revert x. induction li as [|k IH]; intros x; [reflexivity|]. cbn [ancestors].
  rewrite <- (level_perm_parent_of (nth k t []) (nth k u []) x (tree_perm_nth t u k H)).
  destruct (parent_of (nth k t []) x) as [p|]; [rewrite IH; reflexivity | reflexivity].
Qed.

Lemma tree_perm_ancestors_chk t u li x : tree_perm t u -> ancestors_chk u li x = ancestors_chk t li x.
Proof.
  intros H. revert x. induction li as [|k IH]; intros x; [reflexivity|]. cbn [ancestors_chk].
  rewrite <- (level_perm_parent_of (nth k t []) (nth k u []) x (tree_perm_nth t u k H)).
  destruct (parent_of (nth k t []) x) as [p|]; [rewrite IH; reflexivity | reflexivity].
Qed.

Lemma tree_perm_ancestor_at t u li x k : tree_perm t u -> ancestor_at u li x k = ancestor_at t li x k.
Proof. intros H. unfold ancestor_at. rewrite (tree_perm_ancestors t u li x H). reflexivity. Qed.

Lemma tree_perm_children t u parent : tree_perm t u -> Permutation (children u parent) (children t parent).
Proof.
  intros H. destruct parent as [[li x]|]; cbn [children].
  - apply Permutation_sym, level_perm_children, tree_perm_nth, H.
  - rewrite (level_perm_nodes _ _ (tree_perm_hd t u H)). apply Permutation_refl.
Qed.

(* children(level, node) with its error behaviour: the same verdict, permuted payload *)
Lemma tree_perm_children_chk t u li x : tree_perm t u ->
  match children_chk t li x, children_chk u li x with
  | TOk a, TOk b => Permutation b a
  | TErr c, TErr d => c = d
  | _, _ => False
  end.
Proof.
  intros H. unfold children_chk. rewrite <- (level_perm_nodes _ _ (tree_perm_nth t u li H)).
  destruct (zmem x (nodes (nth li t []))); [|reflexivity].
  apply Permutation_sym, level_perm_children, tree_perm_nth, H.
Qed.

(* leaf lists: by the recursion of _get_leaves_from_tree, no hypothesis on the trees *)
Lemma tree_perm_leaves_from rest rest' : tree_perm rest rest' ->
  forall x, Permutation (leaves_from rest' x) (leaves_from rest x).
Proof.
  intros H. induction H as [|lv lv' below below' Hlv Hb IH]; intros x; [apply Permutation_refl|].
  destruct Hb as [|lv2 lv2' below2 below2' Hlv2 Hb2]; [apply Permutation_refl|].
  destruct Hb2 as [|lv3 lv3' below3 below3' Hlv3 Hb3].
  - cbn [leaves_from]. apply Permutation_sym, level_perm_children, Hlv.
  - change (leaves_from (lv' :: lv2' :: lv3' :: below3') x)
      with (flat_map (leaves_from (lv2' :: lv3' :: below3')) (zsort (children_of lv' x))).
    change (leaves_from (lv :: lv2 :: lv3 :: below3) x)
      with (flat_map (leaves_from (lv2 :: lv3 :: below3)) (zsort (children_of lv x))).
    apply (Permutation_trans (l' := flat_map (leaves_from (lv2' :: lv3' :: below3')) (zsort (children_of lv x)))).
    + apply Permutation_flat_map.
      apply (Permutation_trans (zsort_perm _)). apply Permutation_sym.
      apply (Permutation_trans (zsort_perm _)). apply level_perm_children, Hlv.
    + apply flat_map_perm_pointwise. intros y _. apply IH.
Qed.

Lemma tree_perm_leaves_of t u li x : tree_perm t u -> Permutation (leaves_of u li x) (leaves_of t li x).
Proof. intros H. unfold leaves_of. apply tree_perm_leaves_from, tree_perm_skipn, H. Qed.

(* leaf pairs: both lists are repetition free and have the same members (leaf_pairs_exact_all) *)
Lemma tree_perm_leaf_pairs t u parent : tree_perm t u -> validate t = true -> wf t ->
  Permutation (leaf_pairs u parent) (leaf_pairs t parent).
Proof.
  intros H V W.
  pose proof (tree_perm_validate t u H V) as V'. pose proof (tree_perm_wf t u H W) as W'.
  pose proof (tree_perm_length t u H) as HL.
  assert (Hcase : (forall li x, parent = Some (li, x) -> (li < length t)%nat) \/
                  exists li x, parent = Some (li, x) /\ (length t <= li)%nat).
  { destruct parent as [[li x]|]; [|left; intros; discriminate].
    destruct (Nat.lt_ge_cases li (length t)) as [Hl|Hl].
    - left. intros li' x' E. inversion E; subst. exact Hl.
    - right. exists li, x. split; [reflexivity | exact Hl]. }
  destruct Hcase as [Hp|(li & x & -> & Hge)].
  - destruct (leaf_pairs_exact_all t parent V W Hp) as [N1 M1].
    assert (Hp' : forall li x, parent = Some (li, x) -> (li < length u)%nat) by (intros li x E; rewrite HL; apply (Hp li x E)).
    destruct (leaf_pairs_exact_all u parent V' W' Hp') as [N2 M2].
    apply NoDup_Permutation; [exact N2 | exact N1|]. intros [a b]. rewrite M1, M2.
    assert (HC : forall c, In c (children u parent) <-> In c (children t parent)).
    { intros c. split; apply Permutation_in; [|apply Permutation_sym]; apply tree_perm_children, H. }
    assert (HLf : forall k c l, In l (leaves_of u k c) <-> In l (leaves_of t k c)).
    { intros k c l. split; apply Permutation_in; [|apply Permutation_sym]; apply tree_perm_leaves_of, H. }
    split; intros (Hab & c & c' & H1 & H2 & H3 & H4 & H5); (split; [exact Hab|]); exists c, c'.
    + rewrite <- !HC, <- !HLf. repeat split; assumption.
    + rewrite !HC, !HLf. repeat split; assumption.
  - assert (E : forall v : tree, (length v <= li)%nat -> leaf_pairs v (Some (li, x)) = []).
    { intros v Hv. unfold leaf_pairs. destruct (Nat.eqb (S li) (length v)); [reflexivity|].
      rewrite (nth_overflow v [] Hv). reflexivity. }
    rewrite (E t Hge), (E u); [apply Permutation_refl | rewrite HL; exact Hge].
Qed.

(* is_equal_to and __eq__ *)
Lemma set_eqb_perm a b : Permutation a b -> set_eqb a b = true.
Proof.
  intros Hp. unfold set_eqb. apply andb_true_iff. split; apply forallb_forall; intros x Hx; apply zmem_in.
  - apply (Permutation_in _ Hp Hx).
  - apply (Permutation_in _ (Permutation_sym Hp) Hx).
Qed.

Lemma tree_perm_is_equal_to t u : tree_perm t u -> is_equal_to t u = true.
Proof.
  intros H. induction H as [|lv lv' rest rest' Hlv Hr IH]; [reflexivity|].
  cbn [is_equal_to]. rewrite IH, andb_true_r, <- (level_perm_nodes lv lv' Hlv), set_eqb_refl. cbn [andb].
  destruct rest; [reflexivity|]. apply forallb_forall. intros x _. apply set_eqb_perm, level_perm_children, Hlv.
Qed.

Lemma tree_perm_tree_eqb t u : tree_perm t u -> tree_eqb t u = true.
Proof.
  intros H. unfold tree_eqb. rewrite (tree_perm_is_equal_to t u H). cbn [andb].
  apply forallb_forall. intros x _. apply set_eqb_perm, level_perm_children, tree_perm_last, H.
Qed.

(* ------------------------------------------------------------------ everything at once *)
Theorem child_order_irrelevant t u : tree_perm t u -> validate t = true -> wf t ->
  validate u = true /\ wf u /\ length u = length t /\
  (forall k, nodes (nth k u []) = nodes (nth k t [])) /\
  (forall k c, parent_of (nth k u []) c = parent_of (nth k t []) c) /\
  (forall li x, ancestors u li x = ancestors t li x) /\
  (forall li x, ancestors_chk u li x = ancestors_chk t li x) /\
  (forall parent, Permutation (children u parent) (children t parent)) /\
  (forall li x, match children_chk t li x, children_chk u li x with
                | TOk a, TOk b => Permutation b a
                | TErr c, TErr d => c = d
                | _, _ => False
                end) /\
  (forall li x, Permutation (leaves_of u li x) (leaves_of t li x)) /\
  (forall parent, Permutation (leaf_pairs u parent) (leaf_pairs t parent)) /\
  is_equal_to t u = true /\ tree_eqb t u = true.
Proof.
  intros H V W.
  split; [apply (tree_perm_validate t u H V)|]. split; [apply (tree_perm_wf t u H W)|].
  split; [apply tree_perm_length, H|].
  split; [intros k; symmetry; apply level_perm_nodes, tree_perm_nth, H|].
  split; [intros k c; symmetry; apply level_perm_parent_of, tree_perm_nth, H|].
  split; [intros li x; apply tree_perm_ancestors, H|].
  split; [intros li x; apply tree_perm_ancestors_chk, H|].
  split; [intros parent; apply tree_perm_children, H|].
  split; [intros li x; apply tree_perm_children_chk, H|].
  split; [intros li x; apply tree_perm_leaves_of, H|].
  split; [intros parent; apply tree_perm_leaf_pairs; assumption|].
  split; [apply tree_perm_is_equal_to, H | apply tree_perm_tree_eqb, H].
Qed.

(* ------------------------------------------------------------------ reread *)
Lemma reread_level_perm fl lv : level_perm lv (reread_level fl lv).
Proof.
  revert fl. induction lv as [|nc rest IH]; intros fl; [constructor|]. cbn [reread_level]. constructor; [|apply IH].
  split; [reflexivity|]. cbn [reread_entry snd]. destruct (hd false fl); [apply Permutation_sym, zsort_perm | apply Permutation_refl].
Qed.

Lemma reread_perm fs t : tree_perm t (reread fs t).
Proof.
  revert fs. induction t as [|lv rest IH]; intros fs; [constructor|]. cbn [reread].
  constructor; [apply reread_level_perm | apply IH].
Qed.

(* a tree whose collections are all lists comes back literally *)
Lemma reread_level_nil lv : reread_level [] lv = lv.
Proof. induction lv as [|[x cs] rest IH]; [reflexivity|]. cbn [reread_level hd tl reread_entry fst snd]. rewrite IH. reflexivity. Qed.

Lemma reread_json_id t : reread flags_json t = t.
Proof. unfold flags_json. induction t as [|lv rest IH]; [reflexivity|]. cbn [reread hd tl]. rewrite reread_level_nil, IH. reflexivity. Qed.

(* every flagged collection comes back sorted, every other one as it was, keys untouched *)
Lemma reread_level_nth fl lv i : (i < length lv)%nat ->
  nth i (reread_level fl lv) (0, []) =
  (fst (nth i lv (0, [])), if nth i fl false then zsort (snd (nth i lv (0, []))) else snd (nth i lv (0, []))).
Proof.
  revert fl i. induction lv as [|nc rest IH]; intros fl i Hi; [cbn in Hi; lia|].
  destruct i as [|i]; cbn [reread_level nth].
  - destruct fl; reflexivity.
  - rewrite IH by (cbn in Hi; lia). destruct fl; [destruct i; reflexivity | reflexivity].
Qed.

Lemma reread_shape fs t :
  tree_perm t (reread fs t) /\ reread flags_json t = t /\
  (forall fl lv i, (i < length lv)%nat ->
     nth i (reread_level fl lv) (0, []) =
     (fst (nth i lv (0, [])),
      if nth i fl false then zsort (snd (nth i lv (0, []))) else snd (nth i lv (0, [])))).
Proof. split; [apply reread_perm|]. split; [apply reread_json_id | exact reread_level_nth]. Qed.

Theorem reread_preserves fs t : validate t = true -> wf t ->
  validate (reread fs t) = true /\ wf (reread fs t) /\ length (reread fs t) = length t /\
  (forall k, nodes (nth k (reread fs t) []) = nodes (nth k t [])) /\
  (forall k c, parent_of (nth k (reread fs t) []) c = parent_of (nth k t []) c) /\
  (forall li x, ancestors (reread fs t) li x = ancestors t li x) /\
  (forall li x, ancestors_chk (reread fs t) li x = ancestors_chk t li x) /\
  (forall parent, Permutation (children (reread fs t) parent) (children t parent)) /\
  (forall li x, match children_chk t li x, children_chk (reread fs t) li x with
                | TOk a, TOk b => Permutation b a
                | TErr c, TErr d => c = d
                | _, _ => False
                end) /\
  (forall li x, Permutation (leaves_of (reread fs t) li x) (leaves_of t li x)) /\
  (forall parent, Permutation (leaf_pairs (reread fs t) parent) (leaf_pairs t parent)) /\
  is_equal_to t (reread fs t) = true /\ tree_eqb t (reread fs t) = true.
Proof. intros V W. apply child_order_irrelevant; [apply reread_perm | exact V | exact W]. Qed.

(* ------------------------------------------------------------------ the audit's witness *)
Definition built : tree := [[(0, [11; 10; 12])]; [(11, [0]); (10, [1]); (12, [2])]].
Definition built_reread : tree := [[(0, [10; 11; 12])]; [(11, [0]); (10, [1]); (12, [2])]].

Lemma built_witness :
  get_taxonomy_tree 2 [[0; 11]; [0; 10]; [0; 12]] = TOk built /\
  flags_built built = [[true]] /\
  reread (flags_built built) built = built_reread /\ built <> built_reread /\
  reread flags_json built = built /\
  leaf_pairs built (Some (0%nat, 0)) = [(10, 11); (11, 12); (10, 12)] /\
  leaf_pairs built_reread (Some (0%nat, 0)) = [(10, 11); (10, 12); (11, 12)] /\
  leaf_pairs built (Some (0%nat, 0)) <> leaf_pairs built_reread (Some (0%nat, 0)).
Proof.
  split; [vm_compute; reflexivity|]. split; [reflexivity|]. split; [vm_compute; reflexivity|].
  split; [intros E; discriminate E|]. split; [apply reread_json_id|].
  split; [vm_compute; reflexivity|]. split; [vm_compute; reflexivity|].
  vm_compute. intros E. discriminate E.
Qed.
