(* The CSC path of the row iterator (C05): AnnDataRowIterator on a CSC matrix =
   csc_to_csr_on_disk (Model/Transpose.v) followed by the CSR iterator. *)
From Coq Require Import List Arith ZArith Lia Bool.
From CTM Require Import Base.Sx Base.ListX Model.Sparse Model.Transpose
  Proofs.SparseP Proofs.TransposeP Proofs.TransposeFillP Proofs.TransposeSpecP Proofs.SparseBatchP.
Import ListNotations.

Lemma strictly_increasing_cons : forall l x,
  strictly_increasing (x :: l) = true -> Forall (fun y => x < y) l /\ strictly_increasing l = true.
Proof.
  induction l as [|y t IH]; intros x H; [split; [constructor | reflexivity]|].
  change (strictly_increasing (x :: y :: t)) with ((x <? y) && strictly_increasing (y :: t)) in H.
  apply andb_true_iff in H. destruct H as [H1 H2]. apply Nat.ltb_lt in H1.
  destruct (IH y H2) as [I1 _]. split; [|exact H2]. constructor; [exact H1|].
  eapply Forall_impl; [|exact I1]. cbn. intros; lia.
Qed.

Lemma strictly_increasing_NoDup l : strictly_increasing l = true -> NoDup l.
Proof.
  induction l as [|x t IH]; intros H; [constructor|].
  destruct (strictly_increasing_cons t x H) as [HF HS]. constructor; [|apply IH; exact HS].
  intros Hin. rewrite Forall_forall in HF. specialize (HF x Hin). lia.
Qed.

Lemma In_spec_entries Es n e : In e (spec_entries Es n) -> In e Es.
Proof.
  unfold spec_entries. intros H. apply in_concat in H. destruct H as (l & Hl & He).
  apply in_map_iff in Hl. destruct Hl as (r & <- & _). unfold out_row in He. apply filter_In in He. tauto.
Qed.

(* the column indices written are columns of the input *)
Lemma spec_idx_bound m nm nmaj ud imax sl :
  wf_comp m nm -> length (ptr m) = S nmaj ->
  Forall (fun c => c < nmaj) (idx (transpose_spec m ud imax sl)).
Proof.
  intros W HP. unfold transpose_spec. cbn [idx]. apply Forall_forall. intros c Hc.
  apply in_map_iff in Hc. destruct Hc as (e & <- & He). apply In_spec_entries in He.
  assert (He' : exists e0, In e0 (all_entries m ud) /\ e_major e = e_major e0).
  { destruct sl as [s|]; cbn [apply_slice] in He.
    - apply in_map_iff in He. destruct He as (e0 & <- & He0). apply filter_In in He0. exists e0. split; [tauto | reflexivity].
    - exists e. split; [exact He | reflexivity]. }
  destruct He' as (e0 & He0 & ->). unfold all_entries in He0. apply in_map_iff in He0.
  destruct He0 as (k & <- & Hk). apply in_seq in Hk. cbn [e_major].
  destruct (col_spec m nm k W ltac:(lia)) as [J1 _]. lia.
Qed.

(* the output of the transposition of a well-formed duplicate-free CSC matrix is a
   well-formed duplicate-free CSR matrix *)
Lemma spec_wf_csr m n_rows n_cols :
  wf_comp m n_rows -> length (ptr m) = S n_cols -> length (dat m) = length (idx m) ->
  no_dup_minor m ->
  let out := transpose_spec m true n_rows None in
  wf_csr out n_rows n_cols /\ no_dup_minor out.
Proof.
  intros W HP HD ND. cbn zeta. pose proof W as (_ & _ & _ & HF).
  destruct (spec_ptr_clauses m true n_rows None (fun _ => HF)) as (P0 & PM & PL & PLast & _ & PD).
  cbn zeta in P0, PM, PL, PLast, PD. cbn [n_out_of] in PL.
  set (out := transpose_spec m true n_rows None) in *.
  split.
  - split; [|split; [exact PL | apply PD; reflexivity]].
    split; [exact P0|]. split; [exact PLast|]. split; [exact PM|].
    apply (spec_idx_bound m n_rows n_cols); assumption.
  - intros j Hj. unfold span.
    pose proof (mono_nth_le _ j PM Hj) as Hle.
    pose proof (mono_nth_le_last _ (S j) PM Hj) as Hlast. rewrite PLast in Hlast.
    rewrite map_nth_seq_slice by lia.
    replace (nth j (ptr out) 0 + (nth (S j) (ptr out) 0 - nth j (ptr out) 0)) with (nth (S j) (ptr out) 0) by lia.
    apply strictly_increasing_NoDup.
    destruct (spec_rows_sorted m true n_rows None j) as [_ S2]; [cbn [n_out_of]; lia|].
    cbn zeta in S2. exact (S2 n_rows W ND).
Qed.

Lemma all_entries_length m ud : length (all_entries m ud) = length (idx m).
Proof. unfold all_entries. rewrite map_length, seq_length. reflexivity. Qed.

(* AnnDataRowIterator on a CSC matrix: the blocks are chained from 0 to n_rows, each is
   the corresponding row range of the transpose of the column-major dense view, and
   together they are the whole matrix - for every chunk size and every budget *)
Theorem iterate_csc_exact m n_rows n_cols c E L Lc :
  wf_comp m n_rows -> length (ptr m) = S n_cols -> length (dat m) = length (idx m) ->
  no_dup_minor m -> 1 <= c -> 1 <= L -> 1 <= Lc ->
  let M := map (fun r => map (fun j => cell m j r) (seq 0 n_cols)) (seq 0 n_rows) in
  exists bl, iterate_csc m n_rows n_cols c E L Lc = Ok bl /\
    chained 0 (map fst bl) n_rows /\
    Forall (fun b => snd (fst b) - fst (fst b) <= c) bl /\
    Forall (fun b => snd b = slice M (fst (fst b)) (snd (fst b))) bl /\
    concat (map snd bl) = M.
Proof.
  intros W HP HD ND Hc HL HLc. cbn zeta. unfold iterate_csc.
  destruct (transpose_full m n_cols true n_rows None E L Lc W HP (fun _ => HD) HL HLc) as (t & EQ & Ht).
  cbn zeta in Ht. destruct Ht as (EO & _ & _ & _ & _ & _ & _ & _ & Hd).
  destruct (Hd eq_refl) as (_ & _ & HDense). cbn [n_out_of Nat.add] in HDense.
  rewrite EQ. cbn [bind].
  destruct (spec_wf_csr m n_rows n_cols W HP HD ND) as [Wo NDo]. cbn zeta in Wo, NDo. rewrite <- EO in Wo, NDo.
  destruct (iterate_csr_exact (t_out t) n_rows n_cols c Wo NDo Hc) as (bl & EB & B1 & B2 & B3 & B4).
  exists bl. rewrite HDense in B3, B4. tauto.
Qed.

(* the three encodings of one matrix are read as the same rows *)
Theorem encodings_agree (d : dense) mr mc nr nc c1 c2 c3 E L Lc :
  length d = nr ->
  wf_csr mr nr nc -> no_dup_minor mr -> dense_of mr nr nc = d ->
  wf_comp mc nr -> length (ptr mc) = S nc -> length (dat mc) = length (idx mc) ->
  no_dup_minor mc ->
  map (fun r => map (fun j => cell mc j r) (seq 0 nc)) (seq 0 nr) = d ->
  1 <= c1 -> 1 <= c2 -> 1 <= c3 -> 1 <= L -> 1 <= Lc ->
  exists b1 b2 b3,
    iterate_dense d nr c1 = Ok b1 /\ iterate_csr mr nr nc c2 = Ok b2 /\
    iterate_csc mc nr nc c3 E L Lc = Ok b3 /\
    concat (map snd b1) = d /\ concat (map snd b2) = d /\ concat (map snd b3) = d.
Proof.
  intros HL Wr NDr Dr Wc HP HD NDc Dc H1 H2 H3 H4 H5.
  destruct (iterate_dense_exact d nr c1 HL H1) as (b1 & E1 & _ & _ & _ & C1).
  destruct (iterate_csr_exact mr nr nc c2 Wr NDr H2) as (b2 & E2 & _ & _ & _ & C2).
  destruct (iterate_csc_exact mc nr nc c3 E L Lc Wc HP HD NDc H3 H4 H5) as (b3 & E3 & _ & _ & _ & C3).
  cbn zeta in C3. exists b1, b2, b3. rewrite Dr in C2. rewrite Dc in C3. tauto.
Qed.

(* get_batch of AnnDataRowIterator on a CSC matrix: the conversion, then the CSR
   get_batch - the requested rows of the transposed dense view, in the requested order *)
Theorem csc_get_batch_exact m rows n_rows n_cols E L Lc :
  wf_comp m n_rows -> length (ptr m) = S n_cols -> length (dat m) = length (idx m) ->
  no_dup_minor m -> 1 <= L -> 1 <= Lc ->
  rows <> [] -> NoDup rows -> Forall (fun r => r < n_rows) rows ->
  let M := map (fun r => map (fun j => cell m j r) (seq 0 n_cols)) (seq 0 n_rows) in
  csc_get_batch m rows n_rows n_cols E L Lc = Ok (map (fun r => nth r M []) rows).
Proof.
  intros W HP HD ND HL HLc Hne NDr HF. cbn zeta. unfold csc_get_batch.
  destruct (transpose_full m n_cols true n_rows None E L Lc W HP (fun _ => HD) HL HLc) as (t & EQ & Ht).
  cbn zeta in Ht. destruct Ht as (EO & _ & _ & _ & _ & _ & _ & _ & Hd).
  destruct (Hd eq_refl) as (_ & _ & HDense). cbn [n_out_of Nat.add] in HDense.
  rewrite EQ. cbn [bind].
  destruct (spec_wf_csr m n_rows n_cols W HP HD ND) as [Wo NDo]. cbn zeta in Wo, NDo. rewrite <- EO in Wo, NDo.
  rewrite (csr_get_batch_exact (t_out t) n_rows n_cols rows Wo NDo Hne NDr HF). rewrite HDense. reflexivity.
Qed.

Theorem csc_get_batch_rejects m rows n_rows n_cols E L Lc :
  wf_comp m n_rows -> length (ptr m) = S n_cols -> length (dat m) = length (idx m) ->
  1 <= L -> 1 <= Lc ->
  rows = [] \/ ~ NoDup rows \/ Exists (fun r => n_rows <= r) rows ->
  exists e, csc_get_batch m rows n_rows n_cols E L Lc = Err e.
Proof.
  intros W HP HD HL HLc Hbad. unfold csc_get_batch.
  destruct (transpose_full m n_cols true n_rows None E L Lc W HP (fun _ => HD) HL HLc) as (t & EQ & Ht).
  cbn zeta in Ht. destruct Ht as (_ & _ & _ & _ & PL & _). cbn [n_out_of] in PL.
  rewrite EQ. cbn [bind]. exact (csr_get_batch_rejects (t_out t) n_rows n_cols rows PL Hbad).
Qed.
