(* Lemmas about Model/RunMapping.v (C17): the reduction of the tree, the placement of the
   election's records under the stored level names, and backfill_assignments. *)
From Coq Require Import ZArith List Bool Lia Arith.
From CTM Require Import Base.Sx Base.ListX Base.SortX Model.Tree Model.Election Model.RunMapping.
From CTM Require Import Proofs.TreeValidateP Proofs.TreeLeavesP Proofs.TreeDropP Proofs.ElectionWBP Proofs.ElectionP.
From CTM Require Model.Markers.
Import ListNotations.
Open Scope Z_scope.

(* ------------------------------------------------------------------ dictionaries *)
Lemma lookup_app {A} k (a b : list (nat * A)) :
  lookup k (a ++ b) = match lookup k a with Some v => Some v | None => lookup k b end.
Proof.
  induction a as [|[k' v] a IH]; cbn; [reflexivity|].
  destruct (Nat.eqb k k'); [reflexivity | exact IH].
Qed.

Lemma lookup_none {A} k (d : list (nat * A)) : ~ In k (map fst d) -> lookup k d = None.
Proof.
  induction d as [|[k' v] d IH]; cbn; intros H; [reflexivity|].
  destruct (Nat.eqb k k') eqn:E.
  - apply Nat.eqb_eq in E. exfalso. apply H. left. symmetry. exact E.
  - apply IH. intros Hin. apply H. right. exact Hin.
Qed.

Lemma lookup_some_in {A} k (d : list (nat * A)) v : lookup k d = Some v -> In k (map fst d).
Proof.
  induction d as [|[k' v'] d IH]; cbn; intros H; [discriminate|].
  destruct (Nat.eqb k k') eqn:E.
  - apply Nat.eqb_eq in E. left. symmetry. exact E.
  - right. apply IH. exact H.
Qed.

Lemma lookup_combine {A} (m : list nat) (rs : list A) j k :
  NoDup m -> length m = length rs -> nth_error m j = Some k ->
  lookup k (combine m rs) = nth_error rs j.
Proof.
  revert rs j. induction m as [|a m IH]; intros rs j ND Hlen Hj.
  - destruct j; discriminate.
  - destruct rs as [|r rs]; [discriminate|]. inversion ND as [|? ? Hna ND']; subst.
    destruct j as [|j]; cbn in Hj |- *.
    + inversion Hj; subst. rewrite Nat.eqb_refl. reflexivity.
    + assert (Hne : k <> a) by (intros ->; apply Hna; eapply nth_error_In; exact Hj).
      apply Nat.eqb_neq in Hne. rewrite Hne. apply IH; [exact ND' | cbn in Hlen; lia | exact Hj].
Qed.

Lemma combine_fst {A B} (a : list A) (b : list B) : length a = length b -> map fst (combine a b) = a.
Proof.
  revert b. induction a as [|x a IH]; intros [|y b] H; cbn in *; try discriminate; [reflexivity|].
  f_equal. apply IH. lia.
Qed.

(* ------------------------------------------------------------------ remove_nth on the level names *)
Lemma nth_error_remove_nth {A} n k (l : list A) :
  nth_error (remove_nth n l) k = if (k <? n)%nat then nth_error l k else nth_error l (S k).
Proof.
  revert k l. induction n as [|n IH]; intros k l; destruct l as [|a t]; cbn [remove_nth].
  - destruct k; reflexivity.
  - reflexivity.
  - destruct (k <? S n)%nat; destruct k; reflexivity.
  - destruct k as [|k]; [reflexivity|]. cbn [nth_error]. rewrite IH.
    change (S k <? S n)%nat with (k <? n)%nat. reflexivity.
Qed.

Lemma remove_nth_length {A} n (l : list A) : (n < length l)%nat -> length (remove_nth n l) = (length l - 1)%nat.
Proof.
  revert l. induction n as [|n IH]; intros [|a t] H; cbn in *; try lia.
  rewrite IH by lia. lia.
Qed.

Lemma remove_nth_in {A} n (l : list A) x : In x (remove_nth n l) -> In x l.
Proof.
  revert l. induction n as [|n IH]; intros [|a t] H; cbn in *; try contradiction.
  - right. exact H.
  - destruct H as [<-|H]; [left; reflexivity | right; apply IH; exact H].
Qed.

Lemma remove_nth_nodup {A} n (l : list A) : NoDup l -> NoDup (remove_nth n l).
Proof.
  revert l. induction n as [|n IH]; intros [|a t] H; cbn; try constructor.
  - inversion H; assumption.
  - inversion H; subst. intros Hin. apply remove_nth_in in Hin. contradiction.
  - inversion H; subst. apply IH. assumption.
Qed.

Lemma nth_error_seq a n k : (k < n)%nat -> nth_error (seq a n) k = Some (a + k)%nat.
Proof.
  revert a k. induction n as [|n IH]; intros a k H; [lia|].
  destruct k as [|k]; cbn; [f_equal; lia|]. rewrite IH by lia. f_equal. lia.
Qed.

(* the names of the levels that survive drop_level li *)
Lemma names_drop_nth n li j : (li < n)%nat -> (j < n - 1)%nat ->
  nth_error (remove_nth li (seq 0 n)) j = Some (up_level li j).
Proof.
  intros Hli Hj. rewrite nth_error_remove_nth. unfold up_level.
  destruct (j <? li)%nat; rewrite nth_error_seq by lia; reflexivity.
Qed.

Lemma names_drop_not_in n li : ~ In li (remove_nth li (seq 0 n)).
Proof.
  intros Hin. apply In_nth_error in Hin. destruct Hin as (j & Hj).
  rewrite nth_error_remove_nth in Hj.
  destruct (j <? li)%nat eqn:E.
  - apply Nat.ltb_lt in E.
    destruct (Nat.lt_ge_cases j n) as [H|H]; [rewrite nth_error_seq in Hj by lia; inversion Hj; lia|].
    assert (nth_error (seq 0 n) j = None) by (apply nth_error_None; rewrite seq_length; lia). congruence.
  - apply Nat.ltb_ge in E.
    destruct (Nat.lt_ge_cases (S j) n) as [H|H]; [rewrite nth_error_seq in Hj by lia; inversion Hj; lia|].
    assert (nth_error (seq 0 n) (S j) = None) by (apply nth_error_None; rewrite seq_length; lia). congruence.
Qed.

(* ------------------------------------------------------------------ place *)
Lemma place_keys m row : length m = length row -> map fst (place m row) = m.
Proof. intros H. unfold place. apply combine_fst. rewrite map_length. exact H. Qed.

Lemma lookup_place m row j k :
  NoDup m -> length m = length row -> nth_error m j = Some k ->
  lookup k (place m row) = option_map direct (nth_error row j).
Proof.
  intros ND Hlen Hj. unfold place. rewrite (lookup_combine m (map direct row) j k ND); [|rewrite map_length; exact Hlen|exact Hj].
  rewrite nth_error_map. reflexivity.
Qed.

Lemma lookup_place_none m row k : length m = length row -> ~ In k m -> lookup k (place m row) = None.
Proof. intros Hlen H. apply lookup_none. rewrite place_keys by exact Hlen. exact H. Qed.

(* no reduction: level j holds the j-th record *)
Lemma lookup_place_id n row j : length row = n ->
  lookup j (place (seq 0 n) row) = option_map direct (nth_error row j).
Proof.
  intros Hlen. destruct (Nat.lt_ge_cases j n) as [H|H].
  - apply lookup_place; [apply seq_NoDup | rewrite seq_length; lia | rewrite nth_error_seq by lia; reflexivity].
  - rewrite lookup_place_none; [|rewrite seq_length; lia | rewrite in_seq; lia].
    assert (E : nth_error row j = None) by (apply nth_error_None; lia). rewrite E. reflexivity.
Qed.

(* level li dropped: every other stored level k holds the record of the reduced level down_level li k *)
Lemma lookup_place_drop n li row k : (li < n)%nat -> length row = (n - 1)%nat ->
  lookup k (place (remove_nth li (seq 0 n)) row) =
  if (k =? li)%nat then None else option_map direct (nth_error row (down_level li k)).
Proof.
  intros Hli Hlen.
  assert (Hm : length (remove_nth li (seq 0 n)) = length row)
    by (rewrite remove_nth_length by (rewrite seq_length; exact Hli); rewrite seq_length; lia).
  destruct (k =? li)%nat eqn:E.
  - apply Nat.eqb_eq in E. subst k. apply lookup_place_none; [exact Hm | apply names_drop_not_in].
  - apply Nat.eqb_neq in E. destruct (Nat.lt_ge_cases k n) as [Hk|Hk].
    + apply lookup_place; [apply remove_nth_nodup, seq_NoDup | exact Hm|].
      rewrite names_drop_nth; [|exact Hli | unfold down_level; destruct (k <? li)%nat eqn:E2; [apply Nat.ltb_lt in E2 |apply Nat.ltb_ge in E2]; lia].
      f_equal. unfold up_level, down_level. destruct (k <? li)%nat eqn:E2.
      * rewrite E2. reflexivity.
      * apply Nat.ltb_ge in E2. replace (pred k <? li)%nat with false by (symmetry; apply Nat.ltb_ge; lia). lia.
    + rewrite lookup_place_none; [|exact Hm | intros Hin; apply remove_nth_in in Hin; apply in_seq in Hin; lia].
      assert (E3 : nth_error row (down_level li k) = None).
      { apply nth_error_None. unfold down_level. destruct (k <? li)%nat eqn:E2; [apply Nat.ltb_lt in E2|]; lia. }
      rewrite E3. reflexivity.
Qed.

(* ------------------------------------------------------------------ shape of the election's result *)
Section Shape.
Variable cell rng : Type.
Variable decide : rng -> option (nat * node) -> list node -> list cell -> list rec * rng.

Lemma visit_shape n L cells li parent kids idx g res pa g' res' pa' :
  shape n L res ->
  visit cell rng decide cells li parent kids idx (g, res, pa) = Ok (g', res', pa') ->
  shape n L res'.
Proof.
  intros Hs H. unfold visit in H.
  destruct idx as [|i0 idx']; [inversion H; subst; exact Hs|].
  destruct kids as [|k0 kids']; [discriminate|].
  destruct kids' as [|k1 kids''].
  - inversion H; subst. apply shape_write_back. exact Hs.
  - destruct (decide g parent (k0 :: k1 :: kids'') (pick cells (i0 :: idx'))) as [rs g2].
    destruct (Nat.eqb (length rs) (length (i0 :: idx'))); [|discriminate].
    inversion H; subst. apply shape_write_back. exact Hs.
Qed.

Lemma fold_visit_shape n L cells li (lv : level) pa_prev xs st st' :
  shape n L (snd (fst st)) ->
  fold_outcome (fun st'' x => visit cell rng decide cells li (Some (pred li, x)) (children_of lv x) (lookup_pa pa_prev x) st'')
               xs st = Ok st' ->
  shape n L (snd (fst st')).
Proof.
  revert st. induction xs as [|x xs IH]; intros st Hs H; cbn in H.
  - inversion H; subst. exact Hs.
  - destruct (visit cell rng decide cells li (Some (pred li, x)) (children_of lv x) (lookup_pa pa_prev x) st)
      as [st1| | |] eqn:E; try discriminate.
    apply (IH st1); [|exact H].
    destruct st as [[g res] pa]. destruct st1 as [[g1 res1] pa1]. cbn in *.
    eapply visit_shape; eauto.
Qed.

Lemma do_level_shape n L t cells li st st' :
  shape n L (snd (fst st)) -> do_level cell rng decide t cells li st = Ok st' -> shape n L (snd (fst st')).
Proof.
  destruct st as [[g res] pa]. intros Hs H. unfold do_level in H. destruct li as [|pli].
  - destruct st' as [[g1 res1] pa1]. cbn in *. eapply visit_shape; eauto.
  - eapply (fold_visit_shape n L cells (S pli)); [|exact H]. exact Hs.
Qed.

Lemma levels_from_shape n L t cells k li st st' :
  shape n L (snd (fst st)) -> levels_from cell rng decide t cells li k st = Ok st' -> shape n L (snd (fst st')).
Proof.
  revert li st. induction k as [|k IH]; intros li st Hs H; cbn in H.
  - inversion H; subst. exact Hs.
  - destruct (do_level cell rng decide t cells li st) as [st1| | |] eqn:E; try discriminate.
    eapply IH; [|exact H]. eapply do_level_shape; eauto.
Qed.

Lemma inherit_length above row rs : inherit above row = Ok rs -> length rs = length row.
Proof.
  revert above rs. induction row as [|o row IH]; intros above rs H; cbn in H.
  - inversion H. reflexivity.
  - destruct o as [r|]; [|discriminate].
    destruct (inherit _ row) as [t'| | |] eqn:E; try discriminate.
    inversion H; subst. cbn. f_equal. eapply IH. exact E.
Qed.

Lemma nth_map_const' {A B} (l : list A) (b d : B) i :
  (i < length l)%nat -> nth i (map (fun _ => b) l) d = b.
Proof. revert i. induction l as [|x l' IH]; intros [|i] H; cbn in *; try lia; auto. apply IH. lia. Qed.

(* one row per cell, one record per level of the tree the election ran on *)
Lemma rta_shape t cells g rows g' :
  run_type_assignment cell rng decide t cells g = Ok (rows, g') ->
  length rows = length cells /\ Forall (fun row => length row = length t) rows.
Proof.
  intros H. unfold run_type_assignment in H.
  destruct (levels_from cell rng decide t cells 0 (length t) (g, empty_table cell t cells, [])) as [[[g1 res] pa]| | |] eqn:El;
    try discriminate.
  assert (Hs : shape (length cells) (length t) res).
  { apply (levels_from_shape (length cells) (length t)) in El; [exact El|]. cbn.
    unfold shape, empty_table. split; [apply map_length|].
    intros i Hi. rewrite nth_map_const' by exact Hi. apply map_length. }
  match type of H with context [map_outcome ?f res] => destruct (map_outcome f res) as [rows'| | |] eqn:Em end;
    try discriminate.
  inversion H; subst rows' g1. clear H.
  apply map_outcome_spec in Em. destruct Hs as [Hs1 Hs2]. split.
  - rewrite <- (Forall2_length _ _ _ Em). exact Hs1.
  - apply Forall_forall. intros row Hrow. apply In_nth_error in Hrow. destruct Hrow as (i & Hi).
    assert (Hilt : (i < length rows)%nat) by (apply nth_error_Some; congruence).
    rewrite <- (Forall2_length _ _ _ Em), Hs1 in Hilt.
    destruct (nth_error res i) as [orow|] eqn:Eo; [|apply nth_error_None in Eo; lia].
    pose proof (Forall2_nth_error _ _ _ _ _ _ Em Eo Hi) as Hf. cbn beta in Hf.
    destruct (inherit None orow) as [rs| | |] eqn:Ei; try discriminate.
    inversion Hf; subst row. rewrite running_length, (inherit_length _ _ _ Ei).
    rewrite <- (Hs2 i Hilt). f_equal. symmetry. apply nth_error_nth. exact Eo.
Qed.
End Shape.

(* ------------------------------------------------------------------ backfill, cell by cell *)
Lemma map_tres_spec {A B} (f : A -> tres B) l l' :
  map_tres f l = TOk l' <-> Forall2 (fun x y => f x = TOk y) l l'.
Proof.
  revert l'. induction l as [|x l IH]; intros l'; cbn.
  - split; [intros H; inversion H; constructor | intros H; inversion H; reflexivity].
  - destruct (f x) as [y|e] eqn:E.
    + destruct (map_tres f l) as [r|e] eqn:E2.
      * split.
        -- intros H. inversion H; subst. constructor; [exact E | apply IH; reflexivity].
        -- intros H. inversion H as [|? y' ? r' Hy Hr]; subst. rewrite E in Hy. inversion Hy; subst.
           apply IH in Hr. inversion Hr; subst. reflexivity.
      * split; [discriminate|]. intros H. inversion H as [|? y' ? r' Hy Hr]; subst. apply IH in Hr. discriminate.
    + split; [discriminate|]. intros H. inversion H as [|? y' ? r' Hy Hr]; subst. rewrite E in Hy. discriminate.
Qed.

Lemma map_tres_err {A B} (f : A -> tres B) l e :
  map_tres f l = TErr e -> exists x, In x l /\ f x = TErr e.
Proof.
  induction l as [|x l IH]; cbn; [discriminate|].
  destruct (f x) as [y|e'] eqn:E.
  - destruct (map_tres f l) as [r|e'] eqn:E2; [discriminate|].
    intros H. inversion H; subst. destruct (IH eq_refl) as (x' & Hin & Hx). exists x'. split; [right; exact Hin | exact Hx].
  - intros H. inversion H; subst. exists x. split; [left; reflexivity | exact E].
Qed.

(* the loops commute: levels outside / cells inside = per cell, all its levels *)
Lemma fold_map_swap {A K} (f : K -> A -> tres A) ks (cells out : list A) :
  fold_tres (fun cs k => map_tres (f k) cs) ks cells = TOk out <->
  Forall2 (fun c o => fold_tres (fun c' k => f k c') ks c = TOk o) cells out.
Proof.
  revert cells. induction ks as [|k ks IH]; intros cells; cbn.
  - split.
    + intros H. inversion H; subst. clear H. induction out; constructor; auto.
    + intros H. f_equal. induction H as [|c o cs os Hco Hrest IHF]; [reflexivity|]. inversion Hco; subst. reflexivity.
  - destruct (map_tres (f k) cells) as [cs1|e] eqn:E.
    + apply map_tres_spec in E. rewrite IH. clear IH. split.
      * intros H. revert out H. induction E as [|c c1 cs cs1 Hc Hrest IHE]; intros out H.
        -- inversion H. constructor.
        -- inversion H as [|? o ? os Ho Hos]; subst. constructor; [rewrite Hc; exact Ho | apply IHE; exact Hos].
      * intros H. revert out H. induction E as [|c c1 cs cs1 Hc Hrest IHE]; intros out H.
        -- inversion H. constructor.
        -- inversion H as [|? o ? os Ho Hos]; subst. rewrite Hc in Ho. constructor; [exact Ho | apply IHE; exact Hos].
    + split; [discriminate|]. intros H. exfalso.
      apply map_tres_err in E. destruct E as (c & Hin & Hc).
      apply In_nth_error in Hin. destruct Hin as (i & Hi).
      assert (Hlt : (i < length out)%nat) by (rewrite <- (Forall2_length _ _ _ H); apply nth_error_Some; congruence).
      destruct (nth_error out i) as [o|] eqn:Eo; [|apply nth_error_None in Eo; lia].
      pose proof (Forall2_nth_error _ _ _ _ _ _ H Hi Eo) as Hf. cbn beta in Hf. rewrite Hc in Hf. discriminate.
Qed.

Lemma fold_map_err {A K} (f : K -> A -> tres A) (code : Z) ks (cells : list A) e :
  (forall k c e', f k c = TErr e' -> e' = code) ->
  fold_tres (fun cs k => map_tres (f k) cs) ks cells = TErr e -> e = code.
Proof.
  intros Hf. revert cells. induction ks as [|k ks IH]; intros cells; cbn; [discriminate|].
  destruct (map_tres (f k) cells) as [cs1|e1] eqn:E.
  - apply IH.
  - intros H. inversion H; subst. apply map_tres_err in E. destruct E as (c & _ & Hc). eapply Hf; exact Hc.
Qed.

(* all levels of one cell *)
Definition backfill_one (t : tree) (c : cellmap) : tres cellmap :=
  fold_tres (fun c' k => backfill_cell t k c') (rev (seq 0 (length t - 1))) c.

Lemma backfill_spec t cells out :
  backfill t cells = TOk out <-> Forall2 (fun c o => backfill_one t c = TOk o) cells out.
Proof. unfold backfill, backfill_one. apply (fold_map_swap (backfill_cell t)). Qed.

Lemma backfill_cell_err t k c e : backfill_cell t k c = TErr e -> e = Tree.E_KEY.
Proof.
  unfold backfill_cell. destruct (lookup k c); [discriminate|]. destruct (lookup (S k) c); [|discriminate].
  destruct (parent_of _ _); [discriminate|]. intros H. inversion H. reflexivity.
Qed.

(* the only way backfill_assignments fails is the KeyError of _child_to_parent *)
Lemma backfill_err t cells e : backfill t cells = TErr e -> e = Tree.E_KEY.
Proof. unfold backfill. apply fold_map_err. intros k c e'. apply backfill_cell_err. Qed.

(* levels that are all present: nothing happens *)
Lemma fold_present t ks c :
  (forall k, In k ks -> lookup k c <> None) ->
  fold_tres (fun c' k => backfill_cell t k c') ks c = TOk c.
Proof.
  induction ks as [|k ks IH]; intros H; cbn; [reflexivity|].
  unfold backfill_cell at 1. destruct (lookup k c) eqn:E; [|exfalso; apply (H k); [left; reflexivity | exact E]].
  apply IH. intros k' Hk'. apply H. right. exact Hk'.
Qed.

(* exactly one level li missing, its child level present *)
Lemma fold_single_gap t ks1 li ks2 c ch :
  (forall k, In k ks1 -> lookup k c <> None) ->
  (forall k, In k ks2 -> lookup k c <> None) ->
  lookup li c = None -> lookup (S li) c = Some ch ->
  fold_tres (fun c' k => backfill_cell t k c') (ks1 ++ li :: ks2) c =
  match parent_of (nth li t []) (o_asg ch) with
  | Some p => TOk (c ++ [(li, inferred p ch)])
  | None => TErr Tree.E_KEY
  end.
Proof.
  intros H1 H2 Hli Hch. induction ks1 as [|k ks1 IH]; cbn.
  - unfold backfill_cell at 1. rewrite Hli, Hch.
    destruct (parent_of (nth li t []) (o_asg ch)) as [p|]; [|reflexivity].
    apply fold_present. intros k Hk. rewrite lookup_app.
    destruct (lookup k c) eqn:E; [discriminate | exfalso; apply (H2 k Hk); exact E].
  - unfold backfill_cell at 1. destruct (lookup k c) eqn:E; [|exfalso; apply (H1 k); [left; reflexivity | exact E]].
    apply IH. intros k' Hk'. apply H1. right. exact Hk'.
Qed.

(* levels d, d-1, ..., 0 all missing below a present level d+1: the chain of parents *)
Lemma fold_climb t d : forall c o,
  (forall k, (k <= d)%nat -> lookup k c = None) ->
  lookup (S d) c <> None ->
  fold_tres (fun c' k => backfill_cell t k c') (rev (seq 0 (S d))) c = TOk o ->
  length o = (length c + S d)%nat /\
  (forall k, (d < k)%nat -> lookup k o = lookup k c) /\
  (forall k, (k <= d)%nat -> exists finer p,
      lookup (S k) o = Some finer /\ parent_of (nth k t []) (o_asg finer) = Some p /\
      lookup k o = Some (inferred p finer)).
Proof.
  induction d as [|d IH]; intros c o Hnone Hsome H.
  - cbn in H. unfold backfill_cell in H. rewrite (Hnone 0%nat) in H by lia.
    destruct (lookup 1 c) as [f|] eqn:Ef; [|congruence].
    destruct (parent_of (nth 0 t []) (o_asg f)) as [p|] eqn:Ep; [|discriminate].
    inversion H; subst o. split; [rewrite app_length; cbn; lia|]. split.
    + intros k Hk. rewrite lookup_app. destruct (lookup k c); [reflexivity|].
      cbn. destruct k; [lia | reflexivity].
    + intros k Hk. assert (k = 0)%nat by lia. subst k. exists f, p.
      split; [rewrite lookup_app, Ef; reflexivity|]. split; [exact Ep|].
      rewrite lookup_app, (Hnone 0%nat) by lia. reflexivity.
  - rewrite seq_S, rev_app_distr in H. cbn [rev app plus] in H. cbn [fold_tres] in H.
    unfold backfill_cell at 1 in H. rewrite (Hnone (S d)) in H by lia.
    destruct (lookup (S (S d)) c) as [f|] eqn:Ef; [|congruence].
    destruct (parent_of (nth (S d) t []) (o_asg f)) as [p|] eqn:Ep; [|discriminate].
    set (c1 := c ++ [(S d, inferred p f)]) in *.
    assert (L1 : forall k, k <> S d -> lookup k c1 = lookup k c).
    { intros k Hk. unfold c1. rewrite lookup_app. destruct (lookup k c); [reflexivity|].
      cbn. apply Nat.eqb_neq in Hk. rewrite Hk. reflexivity. }
    assert (L2 : lookup (S d) c1 = Some (inferred p f)).
    { unfold c1. rewrite lookup_app, (Hnone (S d)) by lia. cbn. rewrite Nat.eqb_refl. reflexivity. }
    destruct (IH c1 o) as (A0 & A1 & A2).
    + intros k Hk. rewrite L1 by lia. apply Hnone. lia.
    + rewrite L2. discriminate.
    + exact H.
    + split; [rewrite A0; unfold c1; rewrite app_length; cbn; lia|]. split.
      * intros k Hk. rewrite A1 by lia. apply L1. lia.
      * intros k Hk. destruct (Nat.eq_dec k (S d)) as [->|Hne].
        -- exists f, p. split; [rewrite A1 by lia; rewrite L1 by lia; exact Ef|]. split; [exact Ep|].
           rewrite A1 by lia. exact L2.
        -- apply A2. lia.
Qed.

(* ------------------------------------------------------------------ small facts about the trees *)
Lemma mk_tree_ok x t' : mk_tree x = TOk t' -> t' = x /\ validate x = true.
Proof. unfold mk_tree. destruct (validate x); [|discriminate]. intros H. inversion H. split; reflexivity. Qed.

(* the guard of _drop_level: a level that is neither absent nor the leaf level of a non-flat tree *)
Lemma drop_ok_facts t li t' : drop_level t li = TOk t' -> (S li < length t)%nat /\ t' = raw_drop t li.
Proof.
  unfold drop_level, drop_level_gen.
  destruct (Nat.eqb (length t) 1) eqn:E1; [discriminate|].
  destruct (Nat.leb (length t) li) eqn:E2; [discriminate|].
  destruct (Nat.eqb (S li) (length t)) eqn:E3; [discriminate|]. cbn [negb andb].
  apply Nat.leb_gt in E2. apply Nat.eqb_neq in E3. intros H. split; [lia|].
  destruct li as [|pi]; apply mk_tree_ok in H; destruct H as [H _]; exact H.
Qed.

Lemma drop_cells_length t : length (drop_cells t) = length t.
Proof.
  destruct t as [|a l]; [reflexivity|].
  destruct (drop_cells_shape (a :: l)) as (above & lf & E & ->); [discriminate|].
  rewrite E, !app_length. reflexivity.
Qed.

(* tree_for_metadata has the levels of the tree as read, except for the rows of the leaves *)
Lemma drop_cells_nth t k : (S k < length t)%nat -> nth k (drop_cells t) [] = nth k t [].
Proof.
  intros H. destruct t as [|a l]; [reflexivity|].
  destruct (drop_cells_shape (a :: l)) as (above & lf & E & ->); [discriminate|].
  rewrite E in H |- *. rewrite app_length in H. cbn in H. rewrite !app_nth1 by lia. reflexivity.
Qed.

Lemma seq_split m li : (li < m)%nat -> seq 0 m = seq 0 li ++ li :: seq (S li) (m - S li).
Proof.
  intros H. replace m with (li + S (m - S li))%nat at 1 by lia. rewrite seq_app. reflexivity.
Qed.

Lemma Forall2_same {A} (R : A -> A -> Prop) l : (forall x, In x l -> R x x) -> Forall2 R l l.
Proof. induction l as [|x l IH]; intros H; constructor; [apply H; left; reflexivity | apply IH; intros y Hy; apply H; right; exact Hy]. Qed.

Lemma Forall2_map_transfer {A B C D} (P : B -> C -> Prop) (Q : C -> D -> Prop) (f : A -> B) (g : A -> D) l outs :
  Forall2 P (map f l) outs -> (forall x o, In x l -> P (f x) o -> Q o (g x)) -> Forall2 Q outs (map g l).
Proof.
  revert outs. induction l as [|x l IH]; intros outs H HPQ; cbn in H; inversion H; subst; cbn; constructor.
  - apply HPQ; [left; reflexivity | assumption].
  - apply IH; [assumption | intros x' o' Hx'; apply HPQ; right; exact Hx'].
Qed.

(* no level missing: backfill_assignments leaves every cell alone *)
Lemma backfill_full t' rows :
  Forall (fun row => length row = length t') rows ->
  backfill (drop_cells t') (map (place (seq 0 (length t'))) rows) = TOk (map (place (seq 0 (length t'))) rows).
Proof.
  intros Hlen. apply backfill_spec. apply Forall2_same. intros c Hc.
  apply in_map_iff in Hc. destruct Hc as (row & <- & Hrow).
  rewrite Forall_forall in Hlen. specialize (Hlen row Hrow).
  unfold backfill_one. apply fold_present. intros k Hk. apply in_rev in Hk. apply in_seq in Hk.
  rewrite drop_cells_length in Hk. rewrite lookup_place_id by exact Hlen.
  destruct (nth_error row k) eqn:E; [discriminate|]. apply nth_error_None in E. lia.
Qed.

(* ------------------------------------------------------------------ one cell, one level dropped *)
Definition drop_rel (t : tree) (li : nat) (a b : cellmap) : Prop :=
  (forall k, k <> li -> lookup k a = lookup (if (k <? li)%nat then k else pred k) b) /\
  exists fine p,
    lookup (S li) a = Some fine /\ o_direct fine = true /\
    parent_of (nth li t []) (o_asg fine) = Some p /\
    lookup li a = Some (inferred p fine).

(* the completed cell: the placed records, then the dropped level *)
Lemma backfill_one_drop_form t li row o :
  (S li < length t)%nat -> length row = (length t - 1)%nat ->
  backfill_one (drop_cells t) (place (remove_nth li (seq 0 (length t))) row) = TOk o ->
  exists r p, nth_error row li = Some r /\ parent_of (nth li t []) (asg r) = Some p /\
              o = place (remove_nth li (seq 0 (length t))) row ++ [(li, inferred p (direct r))].
Proof.
  intros Hli Hlen H. set (n := length t) in *.
  set (c := place (remove_nth li (seq 0 n)) row) in *.
  assert (Lc : forall k, lookup k c = if (k =? li)%nat then None else option_map direct (nth_error row (down_level li k))).
  { intros k. unfold c. apply lookup_place_drop; [lia | exact Hlen]. }
  destruct (nth_error row li) as [r|] eqn:Er; [|apply nth_error_None in Er; lia].
  assert (Lli : lookup li c = None) by (rewrite Lc, Nat.eqb_refl; reflexivity).
  assert (LS : lookup (S li) c = Some (direct r)).
  { rewrite Lc. replace (S li =? li)%nat with false by (symmetry; apply Nat.eqb_neq; lia).
    unfold down_level. replace (S li <? li)%nat with false by (symmetry; apply Nat.ltb_ge; lia).
    cbn [pred]. rewrite Er. reflexivity. }
  assert (Lother : forall k, (k < n - 1)%nat -> k <> li -> lookup k c <> None).
  { intros k Hk Hne. rewrite Lc. apply Nat.eqb_neq in Hne. rewrite Hne.
    destruct (nth_error row (down_level li k)) eqn:E; [discriminate|].
    apply nth_error_None in E. unfold down_level in E. destruct (k <? li)%nat eqn:E2; [|apply Nat.ltb_ge in E2]; lia. }
  unfold backfill_one in H. rewrite drop_cells_length in H. fold n in H.
  rewrite (seq_split (n - 1) li) in H by lia.
  rewrite rev_app_distr in H. cbn [rev] in H. rewrite <- app_assoc in H. cbn [app] in H.
  rewrite (fold_single_gap _ _ li _ c (direct r)) in H; [| | |exact Lli|exact LS].
  - rewrite drop_cells_nth in H by lia. cbn [direct o_asg] in H.
    destruct (parent_of (nth li t []) (asg r)) as [p|] eqn:Ep; [|discriminate].
    inversion H; subst o. exists r, p. auto.
  - intros k Hk. apply in_rev in Hk. apply in_seq in Hk. apply Lother; lia.
  - intros k Hk. apply in_rev in Hk. apply in_seq in Hk. apply Lother; lia.
Qed.

Lemma backfill_one_drop t li row o :
  (S li < length t)%nat -> length row = (length t - 1)%nat ->
  backfill_one (drop_cells t) (place (remove_nth li (seq 0 (length t))) row) = TOk o ->
  drop_rel t li o (place (seq 0 (length t - 1)) row).
Proof.
  intros Hli Hlen H.
  destruct (backfill_one_drop_form t li row o Hli Hlen H) as (r & p & Er & Ep & ->).
  set (n := length t) in *. set (c := place (remove_nth li (seq 0 n)) row) in *.
  assert (Lc : forall k, lookup k c = if (k =? li)%nat then None else option_map direct (nth_error row (down_level li k))).
  { intros k. unfold c. apply lookup_place_drop; [lia | exact Hlen]. }
  assert (Lli : lookup li c = None) by (rewrite Lc, Nat.eqb_refl; reflexivity).
  assert (LS : lookup (S li) c = Some (direct r)).
  { rewrite Lc. replace (S li =? li)%nat with false by (symmetry; apply Nat.eqb_neq; lia).
    unfold down_level. replace (S li <? li)%nat with false by (symmetry; apply Nat.ltb_ge; lia).
    cbn [pred]. rewrite Er. reflexivity. }
  split.
  - intros k Hk. rewrite lookup_app.
    assert (E : lookup k [(li, inferred p (direct r))] = None)
      by (cbn; apply Nat.eqb_neq in Hk; rewrite Hk; reflexivity).
    rewrite E. rewrite lookup_place_id by exact Hlen.
    rewrite Lc. apply Nat.eqb_neq in Hk. rewrite Hk. unfold down_level.
    destruct (option_map direct (nth_error row (if (k <? li)%nat then k else pred k))); reflexivity.
  - exists (direct r), p. split; [rewrite lookup_app, LS; reflexivity|]. split; [reflexivity|].
    split; [exact Ep|]. rewrite lookup_app, Lli. cbn. rewrite Nat.eqb_refl. reflexivity.
Qed.

(* ------------------------------------------------------------------ one cell, flattened *)
Definition flat_rel (t : tree) (a b : cellmap) : Prop :=
  lookup (length t - 1) a = lookup 0 b /\
  forall k, (S k < length t)%nat -> exists finer p,
    lookup (S k) a = Some finer /\ parent_of (nth k t []) (o_asg finer) = Some p /\
    lookup k a = Some (inferred p finer).

Lemma backfill_one_flat t r o :
  t <> [] ->
  backfill_one (drop_cells t) (place [(length t - 1)%nat] [r]) = TOk o ->
  flat_rel t o (place [0%nat] [r]).
Proof.
  intros Hne H. set (n := length t) in *.
  assert (Hn : (0 < n)%nat) by (unfold n; destruct t; [congruence | cbn; lia]).
  unfold backfill_one in H. rewrite drop_cells_length in H. fold n in H.
  change (place [(n - 1)%nat] [r]) with [((n - 1)%nat, direct r)] in H.
  change (place [0%nat] [r]) with [(0%nat, direct r)].
  unfold flat_rel. fold n.
  destruct (n - 1)%nat as [|d] eqn:En.
  - cbn in H. inversion H; subst o. split; [reflexivity|]. intros k Hk. lia.
  - destruct (fold_climb (drop_cells t) d [(S d, direct r)] o) as (_ & A1 & A2).
    + intros k Hk. cbn. replace (k =? S d)%nat with false by (symmetry; apply Nat.eqb_neq; lia). reflexivity.
    + cbn. rewrite Nat.eqb_refl. discriminate.
    + exact H.
    + split.
      * rewrite A1 by lia. cbn. rewrite Nat.eqb_refl. reflexivity.
      * intros k Hk. destruct (A2 k) as (finer & p & F1 & F2 & F3); [lia|].
        exists finer, p. rewrite drop_cells_nth in F2 by exact Hk. auto.
Qed.

(* ------------------------------------------------------------------ the theorems about run_mapping_model *)
Section Theorems.
Variable cell rng : Type.
Variable cache_ok : tree -> Markers.table -> bool.
Variable mk_decide : tree -> Markers.table ->
                     rng -> option (nat * node) -> list node -> list cell -> list rec * rng.
Notation run := (run_mapping_model cell rng cache_ok mk_decide).
Definition cfg_none : cfg := {| cfg_drop := None; cfg_flatten := false |}.
Definition cfg_dropping (li : nat) : cfg := {| cfg_drop := Some li; cfg_flatten := false |}.
Definition cfg_flat : cfg := {| cfg_drop := None; cfg_flatten := true |}.

Lemma reduce_none t : reduce t cfg_none = TOk (t, seq 0 (length t)).
Proof. reflexivity. Qed.

Lemma reduce_absent t li f : (length t <= li)%nat ->
  reduce t {| cfg_drop := Some li; cfg_flatten := f |} = reduce t {| cfg_drop := None; cfg_flatten := f |}.
Proof.
  intros H. unfold reduce. cbn [cfg_drop cfg_flatten].
  replace (li <? length t)%nat with false by (symmetry; apply Nat.ltb_ge; exact H). reflexivity.
Qed.

(* C17, third sentence: a drop_level that is not a level of the taxonomy changes nothing *)
Theorem drop_absent_noop t li f tb cells g : (length t <= li)%nat ->
  run t {| cfg_drop := Some li; cfg_flatten := f |} tb cells g =
  run t {| cfg_drop := None; cfg_flatten := f |} tb cells g.
Proof. intros H. unfold run_mapping_model. rewrite (reduce_absent t li f H). reflexivity. Qed.

(* C17, first sentence *)
Theorem drop_equals_reduced t li t' tb cells g :
  drop_level t li = TOk t' ->
  match run t' cfg_none tb cells g with
  | TErr e => run t (cfg_dropping li) tb cells g = TErr e
  | TOk (rowsB, g') =>
      run t (cfg_dropping li) tb cells g = TErr Tree.E_KEY \/
      exists rowsA, run t (cfg_dropping li) tb cells g = TOk (rowsA, g') /\
                    Forall2 (drop_rel t li) rowsA rowsB
  end.
Proof.
  intros Hd. destruct (drop_ok_facts t li t' Hd) as [Hli Eraw].
  assert (Hlen' : length t' = (length t - 1)%nat) by (rewrite Eraw; apply raw_drop_length; lia).
  assert (RA : reduce t (cfg_dropping li) = TOk (t', remove_nth li (seq 0 (length t)))).
  { unfold reduce. cbn [cfg_dropping cfg_drop cfg_flatten].
    replace (li <? length t)%nat with true by (symmetry; apply Nat.ltb_lt; lia). rewrite Hd. reflexivity. }
  unfold run_mapping_model. rewrite RA, reduce_none. cbn [cfg_flatten cfg_dropping cfg_none].
  destruct (cache_ok t' tb); cbn [negb]; [|reflexivity].
  destruct (run_type_assignment cell rng (mk_decide t' tb) t' cells g) as [[rows g']| | |] eqn:El; try reflexivity.
  destruct (rta_shape _ _ _ _ _ _ _ _ El) as [_ Hrows].
  rewrite (backfill_full t' rows Hrows).
  destruct (backfill (drop_cells t) (map (place (remove_nth li (seq 0 (length t)))) rows)) as [rowsA|e] eqn:EA.
  - right. exists rowsA. split; [reflexivity|]. apply backfill_spec in EA.
    eapply Forall2_map_transfer; [exact EA|]. intros row o Hrow Ho. cbn beta in Ho.
    rewrite Forall_forall in Hrows. specialize (Hrows row Hrow). rewrite Hlen'.
    apply backfill_one_drop; [exact Hli | lia | exact Ho].
  - left. f_equal. eapply backfill_err. exact EA.
Qed.

(* C17, second sentence *)
Theorem flatten_equals_one_level t tb cells g :
  validate t = true ->
  match run [leaf_level t] cfg_none (Markers.flatten_table tb) cells g with
  | TErr e => run t cfg_flat tb cells g = TErr e
  | TOk (rowsB, g') =>
      run t cfg_flat tb cells g = TErr Tree.E_KEY \/
      exists rowsA, run t cfg_flat tb cells g = TOk (rowsA, g') /\ Forall2 (flat_rel t) rowsA rowsB
  end.
Proof.
  intros V. destruct (flatten_accepted t V) as (Ef & _ & _).
  assert (Hne : t <> []) by (apply validate_iff in V; tauto).
  assert (Hn : (0 < length t)%nat) by (destruct t; [congruence | cbn; lia]).
  assert (RA : reduce t cfg_flat = TOk ([leaf_level t], [(length t - 1)%nat])).
  { unfold reduce. cbn [cfg_flat cfg_drop cfg_flatten]. rewrite Ef. unfold last_only. rewrite seq_length.
    do 2 f_equal. rewrite (seq_split (length t) (length t - 1)) by lia.
    rewrite skipn_app, seq_length, Nat.sub_diag. rewrite skipn_all2 by (rewrite seq_length; lia).
    replace (length t - S (length t - 1))%nat with 0%nat by lia. reflexivity. }
  unfold run_mapping_model. rewrite RA, reduce_none. cbn [cfg_flatten cfg_flat cfg_none length seq].
  destruct (cache_ok [leaf_level t] (Markers.flatten_table tb)); cbn [negb]; [|reflexivity].
  destruct (run_type_assignment cell rng (mk_decide [leaf_level t] (Markers.flatten_table tb)) [leaf_level t] cells g)
    as [[rows g']| | |] eqn:El; try reflexivity.
  destruct (rta_shape _ _ _ _ _ _ _ _ El) as [_ Hrows].
  pose proof (backfill_full [leaf_level t] rows Hrows) as HB. cbn [length seq] in HB. rewrite HB.
  destruct (backfill (drop_cells t) (map (place [(length t - 1)%nat]) rows)) as [rowsA|e] eqn:EA.
  - right. exists rowsA. split; [reflexivity|]. apply backfill_spec in EA.
    eapply Forall2_map_transfer; [exact EA|]. intros row o Hrow Ho. cbn beta in Ho.
    rewrite Forall_forall in Hrows. specialize (Hrows row Hrow). cbn [length] in Hrows.
    destruct row as [|r [|r2 row]]; try discriminate.
    apply backfill_one_flat; [exact Hne | exact Ho].
  - left. f_equal. eapply backfill_err. exact EA.
Qed.
End Theorems.

(* ------------------------------------------------------------------ the completed cell is a path of the stored tree *)
Lemma nat_mem_in k l : nat_mem k l = true <-> In k l.
Proof.
  unfold nat_mem. rewrite existsb_exists. split.
  - intros (x & Hx & E). apply Nat.eqb_eq in E. subst. exact Hx.
  - intros H. exists k. split; [exact H | apply Nat.eqb_refl].
Qed.

Lemma opt_all_some {A B} (f : A -> option B) l :
  (forall x, In x l -> exists y, f x = Some y) ->
  exists ys, opt_all (map f l) = Some ys /\ map Some ys = map f l.
Proof.
  induction l as [|a l IH]; intros H; cbn.
  - exists []. split; reflexivity.
  - destruct (H a (or_introl eq_refl)) as (y & Ey).
    destruct IH as (ys & E1 & E2); [intros x Hx; apply H; right; exact Hx|].
    rewrite Ey, E1. exists (y :: ys). split; [reflexivity|]. cbn. rewrite E2. reflexivity.
Qed.

Lemma path_ok_elim t row : Election.path_ok t row = true ->
  length row = length t /\
  (forall k r, nth_error row k = Some r -> In (asg r) (nodes (nth k t []))) /\
  (forall k r r', nth_error row k = Some r -> nth_error row (S k) = Some r' ->
                  In (asg r') (children_of (nth k t []) (asg r))).
Proof.
  revert row. induction t as [|lv t' IH]; intros row H.
  - destruct row; [|discriminate]. split; [reflexivity|]. split; intros k; destruct k; discriminate.
  - destruct row as [|r row']; [discriminate|]. cbn [Election.path_ok] in H.
    apply andb_true_iff in H. destruct H as [H H3]. apply andb_true_iff in H. destruct H as [H1 H2].
    destruct (IH row' H3) as (L & N & C). split; [cbn; lia|]. split.
    + intros [|k] r0 Hk; cbn in Hk.
      * inversion Hk; subst. apply zmem_in. exact H1.
      * apply (N k). exact Hk.
    + intros [|k] r0 r1 Hk Hk1; cbn in Hk, Hk1.
      * inversion Hk; subst. destruct t' as [|lv2 t'']; [destruct row'; [discriminate | cbn in L; discriminate]|].
        destruct row' as [|r' row'']; [discriminate|]. cbn in Hk1. inversion Hk1; subst.
        apply zmem_in. exact H2.
      * apply (C k r0 r1); assumption.
Qed.

Lemma frac_eqb_refl a : frac_eqb a a = true.
Proof. unfold frac_eqb. rewrite !Z.eqb_refl. reflexivity. Qed.
Lemma ofrac_eqb_refl a : ofrac_eqb a a = true.
Proof. destruct a as [x|]; [apply frac_eqb_refl | reflexivity]. Qed.

Lemma cell_ok_intro t m o :
  validate t = true -> wf t ->
  length o = length t ->
  (forall k, (k < length t)%nat -> exists e, lookup k o = Some e /\
     (if nat_mem k m
      then o_direct e = true /\ o_runners e <> None /\ In (o_asg e) (nodes (nth k t [])) /\
           (forall f, lookup (S k) o = Some f -> (S k < length t)%nat ->
                      In (o_asg f) (children_of (nth k t []) (o_asg e)))
      else exists f p, lookup (S k) o = Some f /\ parent_of (nth k t []) (o_asg f) = Some p /\
                       e = inferred p f)) ->
  cell_ok t m o = true.
Proof.
  intros V W Hlen H. unfold cell_ok. rewrite Hlen, Nat.eqb_refl. cbn [andb].
  destruct (opt_all_some (fun k => lookup k o) (seq 0 (length t))) as (es & E1 & E2).
  { intros k Hk. apply in_seq in Hk. destruct (H k) as (e & He & _); [lia|]. eauto. }
  rewrite E1.
  assert (Les : length es = length t).
  { apply (f_equal (@length _)) in E2. rewrite !map_length, seq_length in E2. exact E2. }
  assert (Hes : forall k e, nth_error es k = Some e -> (k < length t)%nat /\ lookup k o = Some e).
  { intros k e He. assert (Hk : (k < length t)%nat) by (rewrite <- Les; apply nth_error_Some; congruence).
    split; [exact Hk|]. apply (f_equal (fun l => nth_error l k)) in E2.
    rewrite !nth_error_map, nth_error_seq, He in E2 by exact Hk. cbn in E2. inversion E2. reflexivity. }
  (* the assignment at level k is a node of level k; the finer one is among its children *)
  assert (Hnode : forall k e, lookup k o = Some e -> (k < length t)%nat -> In (o_asg e) (nodes (nth k t []))).
  { intros k e He Hk. destruct (H k Hk) as (e' & He' & Hc). rewrite He in He'. inversion He'; subst e'.
    destruct (nat_mem k m); [tauto|]. destruct Hc as (f & p & _ & Hp & ->). cbn.
    apply (parent_of_children t k p (o_asg f) W Hp). }
  assert (Hchild : forall k e f, lookup k o = Some e -> lookup (S k) o = Some f -> (S k < length t)%nat ->
                                 In (o_asg f) (children_of (nth k t []) (o_asg e))).
  { intros k e f He Hf Hk. destruct (H k ltac:(lia)) as (e' & He' & Hc). rewrite He in He'. inversion He'; subst e'.
    destruct (nat_mem k m); [destruct Hc as (_ & _ & _ & Hc); apply Hc; assumption|].
    destruct Hc as (f' & p & Hf' & Hp & ->). rewrite Hf in Hf'. inversion Hf'; subst f'. cbn.
    apply (parent_of_children t k p (o_asg f) W Hp). }
  apply andb_true_intro. split.
  - apply path_ok_intro.
    + rewrite map_length. exact Les.
    + intros k r Hr. rewrite nth_error_map in Hr. destruct (nth_error es k) as [e|] eqn:Ee; [|discriminate].
      inversion Hr; subst r. cbn [to_rec asg]. destruct (Hes k e Ee) as [Hk He]. apply Hnode; assumption.
    + intros k r r' Hr Hr'. rewrite nth_error_map in Hr, Hr'.
      destruct (nth_error es k) as [e|] eqn:Ee; [|discriminate].
      destruct (nth_error es (S k)) as [f|] eqn:Ef; [|discriminate].
      inversion Hr; subst r. inversion Hr'; subst r'. cbn [to_rec asg].
      destruct (Hes k e Ee) as [Hk He]. destruct (Hes (S k) f Ef) as [Hk' Hf]. eapply Hchild; eauto.
  - apply forallb_forall. intros k Hk. apply in_seq in Hk.
    destruct (H k ltac:(lia)) as (e & He & Hc). rewrite He. unfold level_ok.
    destruct (nat_mem k m).
    + destruct Hc as (Hd & Hr & _). rewrite Hd. destruct (o_runners e); [reflexivity | congruence].
    + destruct Hc as (f & p & Hf & Hp & ->). rewrite Hf. cbn. rewrite Hp, Z.eqb_refl.
      rewrite !frac_eqb_refl, ofrac_eqb_refl. reflexivity.
Qed.

(* no reduction *)
Lemma cell_ok_id t row : validate t = true -> wf t -> Election.path_ok t row = true ->
  cell_ok t (seq 0 (length t)) (place (seq 0 (length t)) row) = true.
Proof.
  intros V W P. destruct (path_ok_elim t row P) as (L & N & C).
  apply cell_ok_intro; auto.
  - unfold place. rewrite combine_length, seq_length, map_length. lia.
  - intros k Hk. rewrite lookup_place_id by exact L.
    destruct (nth_error row k) as [r|] eqn:Er; [|apply nth_error_None in Er; lia].
    exists (direct r). split; [reflexivity|].
    replace (nat_mem k (seq 0 (length t))) with true by (symmetry; apply nat_mem_in, in_seq; lia).
    split; [reflexivity|]. split; [discriminate|]. split; [apply (N k r Er)|].
    intros f Hf HS. rewrite lookup_place_id in Hf by exact L.
    destruct (nth_error row (S k)) as [r'|] eqn:Er'; [|discriminate]. cbn in Hf. inversion Hf; subst f.
    cbn. apply (C k r r' Er Er').
Qed.

(* one level dropped *)
Lemma cell_ok_drop t li row o : validate t = true -> wf t -> (S li < length t)%nat ->
  Election.path_ok (raw_drop t li) row = true ->
  backfill_one (drop_cells t) (place (remove_nth li (seq 0 (length t))) row) = TOk o ->
  cell_ok t (remove_nth li (seq 0 (length t))) o = true.
Proof.
  intros V W Hli P H. destruct (path_ok_elim _ row P) as (L & N & C).
  rewrite raw_drop_length in L by lia.
  destruct (backfill_one_drop_form t li row o Hli L H) as (r & p & Er & Ep & ->).
  set (n := length t) in *. set (m := remove_nth li (seq 0 n)) in *. set (c := place m row) in *.
  assert (Lc : forall k, lookup k c = if (k =? li)%nat then None else option_map direct (nth_error row (down_level li k))).
  { intros k. unfold c, m. apply lookup_place_drop; [lia | exact L]. }
  assert (Lo : forall k, lookup k (c ++ [(li, inferred p (direct r))]) =
                         if (k =? li)%nat then Some (inferred p (direct r))
                         else option_map direct (nth_error row (down_level li k))).
  { intros k. rewrite lookup_app, Lc. cbn [lookup]. destruct (k =? li)%nat; [reflexivity|].
    destruct (option_map direct (nth_error row (down_level li k))); reflexivity. }
  assert (Lm : length m = (n - 1)%nat).
  { unfold m. rewrite remove_nth_length by (rewrite seq_length; lia). rewrite seq_length. reflexivity. }
  apply cell_ok_intro; auto.
  - rewrite app_length. unfold c, place. rewrite combine_length, map_length, Lm, L. cbn. fold n. lia.
  - intros k Hk. fold n in Hk. rewrite Lo. destruct (k =? li)%nat eqn:Ek.
    + apply Nat.eqb_eq in Ek. subst k. exists (inferred p (direct r)). split; [reflexivity|].
      replace (nat_mem li m) with false.
      2:{ symmetry. apply not_true_iff_false. intros X. apply nat_mem_in in X. apply (names_drop_not_in n li X). }
      exists (direct r), p. split; [|split; [exact Ep | reflexivity]].
      rewrite Lo. replace (S li =? li)%nat with false by (symmetry; apply Nat.eqb_neq; lia).
      unfold down_level. replace (S li <? li)%nat with false by (symmetry; apply Nat.ltb_ge; lia).
      cbn [pred]. rewrite Er. reflexivity.
    + apply Nat.eqb_neq in Ek. set (j := down_level li k).
      assert (Hj : (j < n - 1)%nat) by (unfold j, down_level; destruct (k <? li)%nat eqn:E2; [apply Nat.ltb_lt in E2|apply Nat.ltb_ge in E2]; lia).
      assert (Hup : up_level li j = k).
      { unfold j, up_level, down_level. destruct (k <? li)%nat eqn:E2; [rewrite E2; reflexivity|].
        apply Nat.ltb_ge in E2. replace (pred k <? li)%nat with false by (symmetry; apply Nat.ltb_ge; lia). lia. }
      destruct (nth_error row j) as [rj|] eqn:Erj; [|apply nth_error_None in Erj; lia].
      exists (direct rj). split; [reflexivity|].
      replace (nat_mem k m) with true.
      2:{ symmetry. apply nat_mem_in. apply (nth_error_In m j). unfold m. rewrite names_drop_nth by lia. f_equal. exact Hup. }
      split; [reflexivity|]. split; [discriminate|]. split.
      * pose proof (N j rj Erj) as Hn. rewrite raw_drop_nth in Hn by lia. cbn [direct o_asg].
        rewrite <- Hup. unfold up_level.
        destruct (S j =? li)%nat eqn:E1.
        -- apply Nat.eqb_eq in E1. rewrite merge_nodes in Hn.
           replace (j <? li)%nat with true by (symmetry; apply Nat.ltb_lt; lia). exact Hn.
        -- destruct (j <? li)%nat; exact Hn.
      * intros f Hf HS. rewrite Lo in Hf. cbn [direct o_asg]. destruct (S k =? li)%nat eqn:ESk.
        -- (* the next level is the dropped one: its record is the parent of the record below *)
           apply Nat.eqb_eq in ESk. inversion Hf; subst f. cbn [inferred o_asg].
           assert (Ejk : j = k) by (unfold j, down_level; replace (k <? li)%nat with true by (symmetry; apply Nat.ltb_lt; lia); reflexivity).
           assert (Er' : nth_error row (S j) = Some r) by (rewrite Ejk, ESk; exact Er).
           pose proof (C j rj r Erj Er') as Hc. rewrite raw_drop_children in Hc by lia.
           replace (S j =? li)%nat with true in Hc by (symmetry; apply Nat.eqb_eq; lia).
           apply in_flat_map in Hc. destruct Hc as (d & Hd & Hr).
           pose proof (children_parent_of t V li d (asg r) Hli Hr) as Hpd.
           rewrite Ep in Hpd. inversion Hpd; subst d. rewrite <- Ejk. exact Hd.
        -- apply Nat.eqb_neq in ESk.
           assert (EdS : down_level li (S k) = S j).
           { unfold j, down_level. destruct (k <? li)%nat eqn:E2.
             - apply Nat.ltb_lt in E2. replace (S k <? li)%nat with true by (symmetry; apply Nat.ltb_lt; lia). reflexivity.
             - apply Nat.ltb_ge in E2. replace (S k <? li)%nat with false by (symmetry; apply Nat.ltb_ge; lia). cbn [pred]. lia. }
           rewrite EdS in Hf. destruct (nth_error row (S j)) as [r'|] eqn:Er'; [|discriminate].
           cbn in Hf. inversion Hf; subst f. cbn [direct o_asg].
           pose proof (C j rj r' Erj Er') as Hc. rewrite raw_drop_children in Hc by lia.
           replace (S j =? li)%nat with false in Hc.
           2:{ symmetry. apply Nat.eqb_neq. unfold j, down_level. destruct (k <? li)%nat eqn:E2; [apply Nat.ltb_lt in E2|apply Nat.ltb_ge in E2]; lia. }
           rewrite Hup in Hc. exact Hc.
Qed.

(* flattened *)
Lemma leaf_level_nth t : leaf_level t = nth (length t - 1) t [].
Proof.
  unfold leaf_level. induction t as [|a l IH]; [reflexivity|].
  destruct l as [|b l']; [reflexivity|].
  change (last (a :: b :: l') []) with (last (b :: l') []). rewrite IH. cbn [length].
  replace (S (S (length l')) - 1)%nat with (S (S (length l') - 1))%nat by lia. reflexivity.
Qed.

Lemma cell_ok_flat t r o : validate t = true -> wf t ->
  Election.path_ok [leaf_level t] [r] = true ->
  backfill_one (drop_cells t) (place [(length t - 1)%nat] [r]) = TOk o ->
  cell_ok t [(length t - 1)%nat] o = true.
Proof.
  intros V W P H. destruct (path_ok_elim _ _ P) as (_ & N & _).
  pose proof (N 0%nat r eq_refl) as Hleaf. cbn [nth] in Hleaf. rewrite leaf_level_nth in Hleaf.
  assert (Hne : t <> []) by (apply validate_iff in V; tauto).
  set (n := length t) in *.
  assert (Hn : (0 < n)%nat) by (unfold n; destruct t; [congruence | cbn; lia]).
  (* the shape of the completed cell *)
  assert (F : length o = n /\ lookup (n - 1) o = Some (direct r) /\
              forall k, (S k < n)%nat -> exists finer p,
                lookup (S k) o = Some finer /\ parent_of (nth k t []) (o_asg finer) = Some p /\
                lookup k o = Some (inferred p finer)).
  { unfold backfill_one in H. rewrite drop_cells_length in H. fold n in H.
    change (place [(n - 1)%nat] [r]) with [((n - 1)%nat, direct r)] in H.
    destruct (n - 1)%nat as [|d] eqn:En.
    - cbn in H. inversion H; subst o. split; [cbn; lia|]. split; [reflexivity|]. intros k Hk. lia.
    - destruct (fold_climb (drop_cells t) d [(S d, direct r)] o) as (A0 & A1 & A2).
      + intros k Hk. cbn. replace (k =? S d)%nat with false by (symmetry; apply Nat.eqb_neq; lia). reflexivity.
      + cbn. rewrite Nat.eqb_refl. discriminate.
      + exact H.
      + split; [rewrite A0; cbn; lia|]. split.
        * rewrite A1 by lia. cbn. rewrite Nat.eqb_refl. reflexivity.
        * intros k Hk. destruct (A2 k) as (finer & p & F1 & F2 & F3); [lia|].
          exists finer, p. rewrite drop_cells_nth in F2 by (fold n; exact Hk). auto. }
  destruct F as (F0 & F1 & F2).
  apply cell_ok_intro; auto. intros k Hk. fold n in Hk.
  destruct (Nat.eq_dec k (n - 1)) as [->|Hne'].
  - exists (direct r). split; [exact F1|].
    replace (nat_mem (n - 1) [(n - 1)%nat]) with true by (cbn; rewrite Nat.eqb_refl; reflexivity).
    split; [reflexivity|]. split; [discriminate|]. split; [exact Hleaf|]. intros f _ HS. fold n in HS. lia.
  - destruct (F2 k) as (finer & p & G1 & G2 & G3); [lia|]. exists (inferred p finer). split; [exact G3|].
    replace (nat_mem k [(n - 1)%nat]) with false
      by (cbn; apply Nat.eqb_neq in Hne'; rewrite Hne'; reflexivity).
    exists finer, p. auto.
Qed.

(* ------------------------------------------------------------------ the reduced tree is again a mapping tree *)
Lemma tree_ok_wf t : tree_ok t -> wf t.
Proof.
  intros Ht. apply Forall_forall. intros lv Hlv. apply In_nth with (d := []) in Hlv.
  destruct Hlv as (k & _ & <-). apply (tk_nodup t Ht k).
Qed.

Lemma tree_ok_of_validate t : validate t = true -> wf t ->
  nodes (hd [] t) <> [] ->
  (forall k x, (S k < length t)%nat -> In x (nodes (nth k t [])) -> children_of (nth k t []) x <> []) ->
  tree_ok t.
Proof.
  intros V W Htop Hchild. constructor.
  - apply validate_iff in V. tauto.
  - exact Htop.
  - intros k. apply wf_nth. exact W.
  - intros k x c Hk Hc. apply (listed_child_exists t V k x c Hk Hc).
  - intros k x x' c Hk Hne Hc Hc'. apply Hne.
    destruct (validate_strict t k V Hk) as (_ & _ & U).
    apply (U x x' c); apply children_of_lists; assumption.
  - exact Hchild.
Qed.

Lemma levels_nonempty t : tree_ok t -> forall k, (k < length t)%nat -> nodes (nth k t []) <> [].
Proof.
  intros Ht. induction k as [|k IH]; intros Hk.
  - destruct t as [|a l]; [cbn in Hk; lia|]. exact (tk_top _ Ht).
  - specialize (IH ltac:(lia)). destruct (nodes (nth k t [])) as [|x xs] eqn:E; [congruence|].
    assert (Hx : In x (nodes (nth k t []))) by (rewrite E; left; reflexivity).
    pose proof (tk_has_child t Ht k x Hk Hx) as Hc.
    destruct (children_of (nth k t []) x) as [|c cs] eqn:Ec; [congruence|].
    assert (Hin : In c (nodes (nth (S k) t []))) by (apply (tk_children_exist t Ht k x c Hk); rewrite Ec; left; reflexivity).
    intros E0. rewrite E0 in Hin. destruct Hin.
Qed.

Lemma tree_ok_raw_drop t li : tree_ok t -> validate t = true -> (S li < length t)%nat ->
  tree_ok (raw_drop t li).
Proof.
  intros Ht V Hli. pose proof (tree_ok_wf t Ht) as W.
  destruct (raw_drop_validate t li V W Hli) as [V' _].
  assert (Hlen : length (raw_drop t li) = (length t - 1)%nat) by (apply raw_drop_length; lia).
  assert (Hnodes : forall k, (k < length t - 1)%nat ->
                   nodes (nth k (raw_drop t li) []) = nodes (nth (up_level li k) t [])).
  { intros k Hk. rewrite raw_drop_nth by lia. unfold up_level. destruct (S k =? li)%nat eqn:E.
    - apply Nat.eqb_eq in E. rewrite merge_nodes.
      replace (k <? li)%nat with true by (symmetry; apply Nat.ltb_lt; lia). reflexivity.
    - destruct (k <? li)%nat; reflexivity. }
  apply tree_ok_of_validate; [exact V' | apply raw_drop_wf; exact W | |].
  - replace (hd [] (raw_drop t li)) with (nth 0 (raw_drop t li) []) by (destruct (raw_drop t li); reflexivity).
    rewrite Hnodes by lia. apply levels_nonempty; [exact Ht|]. unfold up_level. destruct (0 <? li)%nat; lia.
  - intros k x Hk Hx. rewrite Hlen in Hk. rewrite Hnodes in Hx by lia.
    rewrite raw_drop_children by lia. unfold up_level in *. destruct (S k =? li)%nat eqn:E.
    + apply Nat.eqb_eq in E. replace (k <? li)%nat with true in Hx by (symmetry; apply Nat.ltb_lt; lia).
      pose proof (tk_has_child t Ht k x ltac:(lia) Hx) as Hc.
      destruct (children_of (nth k t []) x) as [|d ds] eqn:Ed; [congruence|].
      assert (Hd : In d (nodes (nth (S k) t []))) by (apply (tk_children_exist t Ht k x d ltac:(lia)); rewrite Ed; left; reflexivity).
      rewrite E in Hd. pose proof (tk_has_child t Ht li d Hli Hd) as Hc2.
      cbn [flat_map]. destruct (children_of (nth li t []) d); [congruence | discriminate].
    + apply Nat.eqb_neq in E. apply (tk_has_child t Ht); [|exact Hx].
      destruct (k <? li)%nat eqn:E2; [apply Nat.ltb_lt in E2|apply Nat.ltb_ge in E2]; lia.
Qed.

Lemma tree_ok_leaf t : tree_ok t -> tree_ok [leaf_level t].
Proof.
  intros Ht. assert (Hn : (0 < length t)%nat) by (pose proof (tk_nonempty t Ht); destruct t; [congruence | cbn; lia]).
  constructor.
  - discriminate.
  - cbn [hd]. rewrite leaf_level_nth. apply levels_nonempty; [exact Ht | lia].
  - intros [|k]; cbn [nth]; [rewrite leaf_level_nth; apply (tk_nodup t Ht) | destruct k; constructor].
  - intros k x c Hk. cbn in Hk. lia.
  - intros k x x' c Hk. cbn in Hk. lia.
  - intros k x Hk. cbn in Hk. lia.
Qed.

(* ------------------------------------------------------------------ what reduce can return *)
Lemma last_only_one {A} (l : list A) x : nth_error l (length l - 1) = Some x -> last_only l = [x].
Proof.
  unfold last_only. induction l as [|a l IH]; intros H; [cbn in H; discriminate|].
  destruct l as [|b l'].
  - cbn in *. inversion H. reflexivity.
  - replace (length (a :: b :: l') - 1)%nat with (S (length (b :: l') - 1))%nat in * by (cbn [length]; lia).
    cbn [skipn nth_error] in *. apply IH. exact H.
Qed.

Lemma last_only_seq n : (0 < n)%nat -> last_only (seq 0 n) = [(n - 1)%nat].
Proof. intros H. apply last_only_one. rewrite seq_length, nth_error_seq by lia. reflexivity. Qed.

Lemma last_only_names_drop n li : (S li < n)%nat -> last_only (remove_nth li (seq 0 n)) = [(n - 1)%nat].
Proof.
  intros H. apply last_only_one.
  rewrite remove_nth_length by (rewrite seq_length; lia). rewrite seq_length.
  rewrite names_drop_nth by lia. f_equal. unfold up_level.
  replace (n - 1 - 1 <? li)%nat with false by (symmetry; apply Nat.ltb_ge; lia). lia.
Qed.

Lemma reduce_cases t c t' m : validate t = true -> wf t -> reduce t c = TOk (t', m) ->
  (t' = t /\ m = seq 0 (length t)) \/
  (exists li, (S li < length t)%nat /\ t' = raw_drop t li /\ m = remove_nth li (seq 0 (length t))) \/
  (t' = [leaf_level t] /\ m = [(length t - 1)%nat]).
Proof.
  intros V W H.
  assert (Hn : (0 < length t)%nat) by (apply validate_iff in V; destruct V as (V & _); destruct t; [congruence | cbn; lia]).
  assert (Tail : (if cfg_flatten c
                  then match flatten t with TOk t2 => TOk (t2, last_only (seq 0 (length t))) | TErr e => TErr e end
                  else TOk (t, seq 0 (length t))) = TOk (t', m) ->
                 (t' = t /\ m = seq 0 (length t)) \/
                 (exists li, (S li < length t)%nat /\ t' = raw_drop t li /\ m = remove_nth li (seq 0 (length t))) \/
                 (t' = [leaf_level t] /\ m = [(length t - 1)%nat])).
  { destruct (cfg_flatten c).
    - destruct (flatten t) as [t2|e] eqn:Ef; [|discriminate]. intros H0. inversion H0; subst. right; right.
      unfold flatten in Ef. apply mk_tree_ok in Ef. destruct Ef as [-> _].
      split; [reflexivity | apply last_only_seq; exact Hn].
    - intros H0. inversion H0; subst. left. split; reflexivity. }
  unfold reduce in H. destruct (cfg_drop c) as [li|]; [|apply Tail; exact H].
  destruct (li <? length t)%nat eqn:E; [|apply Tail; exact H].
  destruct (drop_level t li) as [t1|e] eqn:Ed; [|discriminate].
  destruct (drop_ok_facts t li t1 Ed) as [Hli ->].
  destruct (cfg_flatten c).
  - destruct (flatten (raw_drop t li)) as [t2|e] eqn:Ef; [|discriminate]. inversion H; subst. right; right.
    unfold flatten in Ef. apply mk_tree_ok in Ef. destruct Ef as [-> _].
    destruct (raw_drop_validate t li V W Hli) as [_ LL]. rewrite LL.
    split; [reflexivity | apply last_only_names_drop; exact Hli].
  - inversion H; subst. right; left. exists li. auto.
Qed.

Lemma spec_assemble t t' m (rows0 : list (list rec)) rows ncells :
  spec_routing t' ncells rows0 = true ->
  backfill (drop_cells t) (map (place m) rows0) = TOk rows ->
  (forall row0 o, Election.path_ok t' row0 = true ->
                  backfill_one (drop_cells t) (place m row0) = TOk o -> cell_ok t m o = true) ->
  spec_c17 t m ncells rows = true.
Proof.
  intros Hs Hb Hcell. unfold spec_routing in Hs. apply andb_true_iff in Hs. destruct Hs as [Hl Hp].
  apply backfill_spec in Hb. unfold spec_c17. apply andb_true_intro. split.
  - rewrite <- (Forall2_length _ _ _ Hb), map_length. exact Hl.
  - rewrite forallb_forall in Hp. clear Hl. revert rows Hb.
    induction rows0 as [|row0 rows0 IH]; intros rows Hb; cbn in Hb; inversion Hb; subst; [reflexivity|].
    cbn [forallb]. apply andb_true_intro. split.
    + eapply Hcell; [apply Hp; left; reflexivity | eassumption].
    + apply IH; [intros x Hx; apply Hp; right; exact Hx | assumption].
Qed.

Section PathTheorem.
Variable cell rng : Type.
Variable cache_ok : tree -> Markers.table -> bool.
Variable mk_decide : tree -> Markers.table ->
                     rng -> option (nat * node) -> list node -> list cell -> list rec * rng.
Hypothesis decide_kids : forall t1 tb1 g p kids cs, (2 <= length kids)%nat ->
  Forall (fun r => In (asg r) kids) (fst (mk_decide t1 tb1 g p kids cs)).
Notation run := (run_mapping_model cell rng cache_ok mk_decide).

(* C17 / C01: whatever the reduction, every completed cell is a root-to-leaf path of the STORED
   tree, voted levels flagged direct, the others inferred = parent of the finer level *)
Theorem backfilled_path t c tb cells g t' m rows g' :
  tree_ok t -> validate t = true ->
  reduce t c = TOk (t', m) ->
  run t c tb cells g = TOk (rows, g') ->
  spec_c17 t m (length cells) rows = true.
Proof.
  intros Ht V Hr H. pose proof (tree_ok_wf t Ht) as W.
  unfold run_mapping_model in H. rewrite Hr in H.
  set (tb' := if cfg_flatten c then Markers.flatten_table tb else tb) in *.
  destruct (cache_ok t' tb'); cbn [negb] in H; [|discriminate].
  destruct (run_type_assignment cell rng (mk_decide t' tb') t' cells g) as [[rows0 g0]| | |] eqn:El; try discriminate.
  destruct (backfill (drop_cells t) (map (place m) rows0)) as [out|e] eqn:Eb; [|discriminate].
  inversion H; subst out g0. clear H.
  assert (Sound : tree_ok t' -> spec_routing t' (length cells) rows0 = true).
  { intros Ht'. eapply (routing_sound cell rng (mk_decide t' tb')); [apply decide_kids | exact Ht' | exact El]. }
  destruct (reduce_cases t c t' m V W Hr) as [[-> ->] | [(li & Hli & -> & ->) | [-> ->]]].
  - apply (spec_assemble t t _ rows0 rows); [apply Sound; exact Ht | exact Eb|].
    intros row0 o P Ho. destruct (path_ok_elim t row0 P) as (L & _ & _).
    assert (E : backfill_one (drop_cells t) (place (seq 0 (length t)) row0) = TOk (place (seq 0 (length t)) row0)).
    { unfold backfill_one. apply fold_present. intros k Hk. apply in_rev in Hk. apply in_seq in Hk.
      rewrite drop_cells_length in Hk. rewrite lookup_place_id by exact L.
      destruct (nth_error row0 k) eqn:E; [discriminate|]. apply nth_error_None in E. lia. }
    rewrite E in Ho. inversion Ho; subst o. apply cell_ok_id; assumption.
  - apply (spec_assemble t (raw_drop t li) _ rows0 rows);
      [apply Sound; apply tree_ok_raw_drop; assumption | exact Eb|].
    intros row0 o P Ho. eapply cell_ok_drop; eauto.
  - apply (spec_assemble t [leaf_level t] _ rows0 rows);
      [apply Sound; apply tree_ok_leaf; exact Ht | exact Eb|].
    intros row0 o P Ho. destruct (path_ok_elim _ row0 P) as (L & _ & _). cbn [length] in L.
    destruct row0 as [|r [|r2 row0]]; try discriminate.
    apply (cell_ok_flat t r o); assumption.
Qed.
End PathTheorem.

(* ------------------------------------------------------------------ a decidable sufficient condition for tree_ok (used for the Examples) *)
Lemma wf_b_sound t : forallb (fun lv => znodup_b (nodes lv)) t = true -> wf t.
Proof.
  intros H. apply Forall_forall. intros lv Hlv. rewrite forallb_forall in H.
  apply znodup_b_spec. apply H. exact Hlv.
Qed.
Definition has_child_b (t : tree) : bool :=
  forallb (fun k => forallb (fun x => negb (is_nil (children_of (nth k t []) x))) (nodes (nth k t [])))
          (seq 0 (length t - 1)).
Lemma tree_ok_b t : validate t = true -> forallb (fun lv => znodup_b (nodes lv)) t = true ->
  negb (is_nil (nodes (hd [] t))) = true -> has_child_b t = true -> tree_ok t.
Proof.
  intros V W T H. apply tree_ok_of_validate;
    [exact V | apply wf_b_sound; exact W | destruct (nodes (hd [] t)); discriminate |].
  intros k x Hk Hx. unfold has_child_b in H. rewrite forallb_forall in H.
  specialize (H k ltac:(apply in_seq; lia)). rewrite forallb_forall in H. specialize (H x Hx).
  destruct (children_of (nth k t []) x); discriminate.
Qed.

(* ------------------------------------------------------------------ totality: no KeyError, no stranded cell *)
Lemma backfill_exists t cells :
  (forall c, In c cells -> exists o, backfill_one t c = TOk o) -> exists out, backfill t cells = TOk out.
Proof.
  intros H.
  assert (G : exists out, Forall2 (fun c o => backfill_one t c = TOk o) cells out).
  { induction cells as [|c cells IH]; [exists []; constructor|].
    destruct (H c (or_introl eq_refl)) as (o & Ho).
    destruct IH as (out & Hout); [intros c' Hc'; apply H; right; exact Hc'|].
    exists (o :: out). constructor; assumption. }
  destruct G as (out & G). exists out. apply backfill_spec. exact G.
Qed.

Lemma backfill_one_drop_total (t : tree) li row r p :
  (S li < length t)%nat -> length row = (length t - 1)%nat ->
  nth_error row li = Some r -> parent_of (nth li t []) (asg r) = Some p ->
  exists o, backfill_one (drop_cells t) (place (remove_nth li (seq 0 (length t))) row) = TOk o.
Proof.
  intros Hli Hlen Er Ep. set (n := length t) in *.
  set (c := place (remove_nth li (seq 0 n)) row) in *.
  assert (Lc : forall k, lookup k c = if (k =? li)%nat then None else option_map direct (nth_error row (down_level li k))).
  { intros k. unfold c. apply lookup_place_drop; [lia | exact Hlen]. }
  assert (Lli : lookup li c = None) by (rewrite Lc, Nat.eqb_refl; reflexivity).
  assert (LS : lookup (S li) c = Some (direct r)).
  { rewrite Lc. replace (S li =? li)%nat with false by (symmetry; apply Nat.eqb_neq; lia).
    unfold down_level. replace (S li <? li)%nat with false by (symmetry; apply Nat.ltb_ge; lia).
    cbn [pred]. rewrite Er. reflexivity. }
  assert (Lother : forall k, (k < n - 1)%nat -> k <> li -> lookup k c <> None).
  { intros k Hk Hne. rewrite Lc. apply Nat.eqb_neq in Hne. rewrite Hne.
    destruct (nth_error row (down_level li k)) eqn:E; [discriminate|].
    apply nth_error_None in E. unfold down_level in E. destruct (k <? li)%nat eqn:E2; [|apply Nat.ltb_ge in E2]; lia. }
  eexists. unfold backfill_one. rewrite drop_cells_length. change (length t) with n.
  rewrite (seq_split (n - 1) li) by lia.
  rewrite rev_app_distr. cbn [rev]. rewrite <- app_assoc. cbn [app].
  rewrite (fold_single_gap _ _ li _ c (direct r)); [| | |exact Lli|exact LS].
  - rewrite drop_cells_nth by exact Hli. change (o_asg (direct r)) with (asg r). rewrite Ep. reflexivity.
  - intros k Hk. apply in_rev in Hk. apply in_seq in Hk. apply Lother; lia.
  - intros k Hk. apply in_rev in Hk. apply in_seq in Hk. apply Lother; lia.
Qed.

Lemma fold_climb_total (t t0 : tree) : validate t = true ->
  forall d, (S d < length t)%nat -> (forall k, (k <= d)%nat -> nth k t0 [] = nth k t []) ->
  forall c f, (forall k, (k <= d)%nat -> lookup k c = None) ->
    lookup (S d) c = Some f -> In (o_asg f) (nodes (nth (S d) t [])) ->
    exists o, fold_tres (fun c' k => backfill_cell t0 k c') (rev (seq 0 (S d))) c = TOk o.
Proof.
  intros V. induction d as [|d IH]; intros Hd Hsame c f Hnone Hf Hin.
  - cbn. unfold backfill_cell. rewrite (Hnone 0%nat) by lia. rewrite Hf, (Hsame 0%nat) by lia.
    destruct (node_has_parent t V 0%nat (o_asg f) Hd Hin) as (p & Ep & _). rewrite Ep. eauto.
  - rewrite seq_S, rev_app_distr. cbn [rev app plus fold_tres].
    unfold backfill_cell at 1. rewrite (Hnone (S d)) by lia. rewrite Hf, (Hsame (S d)) by lia.
    destruct (node_has_parent t V (S d) (o_asg f) Hd Hin) as (p & Ep & Hp & _). rewrite Ep.
    apply (IH ltac:(lia) ltac:(intros k Hk; apply Hsame; lia) _ (inferred p f)).
    + intros k Hk. rewrite lookup_app, (Hnone k) by lia. cbn.
      replace (k =? S d)%nat with false by (symmetry; apply Nat.eqb_neq; lia). reflexivity.
    + rewrite lookup_app, (Hnone (S d)) by lia. cbn. rewrite Nat.eqb_refl. reflexivity.
    + exact Hp.
Qed.

Section NoKeyError.
Variable cell rng : Type.
Variable cache_ok : tree -> Markers.table -> bool.
Variable mk_decide : tree -> Markers.table ->
                     rng -> option (nat * node) -> list node -> list cell -> list rec * rng.
Hypothesis decide_kids : forall t1 tb1 g p kids cs, (2 <= length kids)%nat ->
  Forall (fun r => In (asg r) kids) (fst (mk_decide t1 tb1 g p kids cs)).
Notation run := (run_mapping_model cell rng cache_ok mk_decide).

(* backfill_assignments never meets a node without a parent: whatever the election voted on
   the reduced tree is a node of the stored tree below the top level *)
Theorem no_key_error t c tb cells g t' m :
  tree_ok t -> validate t = true ->
  reduce t c = TOk (t', m) ->
  run t c tb cells g <> TErr Tree.E_KEY.
Proof.
  intros Ht V Hr. pose proof (tree_ok_wf t Ht) as W.
  unfold run_mapping_model. rewrite Hr.
  set (tb' := if cfg_flatten c then Markers.flatten_table tb else tb) in *.
  destruct (cache_ok t' tb'); cbn [negb]; [|discriminate].
  destruct (run_type_assignment cell rng (mk_decide t' tb') t' cells g) as [[rows0 g']| | |] eqn:El; try discriminate.
  assert (Sound : tree_ok t' -> forall row0, In row0 rows0 -> Election.path_ok t' row0 = true).
  { intros Ht' row0 Hin.
    assert (Hs : spec_routing t' (length cells) rows0 = true)
      by (eapply (routing_sound cell rng (mk_decide t' tb')); [apply decide_kids | exact Ht' | exact El]).
    unfold spec_routing in Hs. apply andb_true_iff in Hs. destruct Hs as [_ Hs].
    rewrite forallb_forall in Hs. apply Hs. exact Hin. }
  assert (Fin : (forall row0, In row0 rows0 -> exists o, backfill_one (drop_cells t) (place m row0) = TOk o) ->
            match backfill (drop_cells t) (map (place m) rows0) with
            | TOk out => TOk (out, g') | TErr e => TErr e end <> TErr Tree.E_KEY).
  { intros Hcells. destruct (backfill_exists (drop_cells t) (map (place m) rows0)) as (out & Eo).
    - intros c0 Hc0. apply in_map_iff in Hc0. destruct Hc0 as (row0 & <- & Hrow0). apply Hcells. exact Hrow0.
    - rewrite Eo. discriminate. }
  apply Fin. clear Fin.
  destruct (reduce_cases t c t' m V W Hr) as [[E1 E2] | [(li & Hli & E1 & E2) | [E1 E2]]].
  - assert (Ht' : tree_ok t') by (rewrite E1; exact Ht).
    intros row0 Hin. pose proof (Sound Ht' row0 Hin) as P. rewrite E1 in P. rewrite E2.
    destruct (path_ok_elim t row0 P) as (L & _ & _).
    exists (place (seq 0 (length t)) row0). unfold backfill_one. apply fold_present.
    intros k Hk. apply in_rev in Hk. apply in_seq in Hk.
    rewrite drop_cells_length in Hk. rewrite lookup_place_id by exact L.
    destruct (nth_error row0 k) eqn:E; [discriminate|]. apply nth_error_None in E. lia.
  - assert (Ht' : tree_ok t') by (rewrite E1; apply tree_ok_raw_drop; assumption).
    intros row0 Hin. pose proof (Sound Ht' row0 Hin) as P. rewrite E1 in P. rewrite E2.
    destruct (path_ok_elim _ row0 P) as (L & N & _). rewrite raw_drop_length in L by lia.
    destruct (nth_error row0 li) as [r|] eqn:Er; [|apply nth_error_None in Er; lia].
    pose proof (N li r Er) as Hn. rewrite raw_drop_nth in Hn by lia.
    replace (S li =? li)%nat with false in Hn by (symmetry; apply Nat.eqb_neq; lia).
    replace (li <? li)%nat with false in Hn by (symmetry; apply Nat.ltb_irrefl).
    destruct (node_has_parent t V li (asg r) Hli Hn) as (p & Ep & _).
    eapply backfill_one_drop_total; eauto.
  - assert (Ht' : tree_ok t') by (rewrite E1; apply tree_ok_leaf; exact Ht).
    intros row0 Hin. pose proof (Sound Ht' row0 Hin) as P. rewrite E1 in P. rewrite E2.
    destruct (path_ok_elim _ row0 P) as (L & N & _). cbn [length] in L.
    destruct row0 as [|r [|r2 row0]]; try discriminate.
    pose proof (N 0%nat r eq_refl) as Hleaf. cbn [nth] in Hleaf. rewrite leaf_level_nth in Hleaf.
    unfold backfill_one. rewrite drop_cells_length.
    change (place [(length t - 1)%nat] [r]) with [((length t - 1)%nat, direct r)].
    destruct (length t - 1)%nat as [|d] eqn:En; [cbn; eauto|].
    apply (fold_climb_total t (drop_cells t) V d ltac:(lia)) with (f := direct r).
    + intros k Hk. apply drop_cells_nth. lia.
    + intros k Hk. cbn. replace (k =? S d)%nat with false by (symmetry; apply Nat.eqb_neq; lia). reflexivity.
    + cbn. rewrite Nat.eqb_refl. reflexivity.
    + exact Hleaf.
Qed.

(* ... and with a decision procedure that answers for every cell, the run succeeds as soon as
   the reduction and the marker cache are accepted: the election strands no cell (C01) *)
Hypothesis decide_len : forall t1 tb1 g p kids cs, (2 <= length kids)%nat ->
  length (fst (mk_decide t1 tb1 g p kids cs)) = length cs.

Theorem run_total t c tb cells g t' m :
  tree_ok t -> validate t = true ->
  reduce t c = TOk (t', m) ->
  cache_ok t' (if cfg_flatten c then Markers.flatten_table tb else tb) = true ->
  exists rows g', run t c tb cells g = TOk (rows, g').
Proof.
  intros Ht V Hr Hc. pose proof (tree_ok_wf t Ht) as W.
  pose proof (no_key_error t c tb cells g t' m Ht V Hr) as NK.
  unfold run_mapping_model in *. rewrite Hr in *. rewrite Hc in *. cbn [negb] in *.
  set (tb' := if cfg_flatten c then Markers.flatten_table tb else tb) in *.
  assert (Ht' : tree_ok t').
  { destruct (reduce_cases t c t' m V W Hr) as [[E1 E2] | [(li & Hli & E1 & E2) | [E1 E2]]]; rewrite E1;
      [exact Ht | apply tree_ok_raw_drop; assumption | apply tree_ok_leaf; exact Ht]. }
  destruct (routing_total cell rng (mk_decide t' tb') (decide_len t' tb') (decide_kids t' tb') t' cells g Ht')
    as (rows0 & g' & El).
  rewrite El in *.
  destruct (backfill (drop_cells t) (map (place m) rows0)) as [out|e] eqn:Eb; [eauto|].
  exfalso. apply NK. f_equal. eapply backfill_err. exact Eb.
Qed.
End NoKeyError.

(* ------------------------------------------------------------------ the reduced tree as a tree *)
(* the tree the marker reconciliation and the election are handed after drop_level answers
   parents() like the taxonomy that never had the level: the ancestors of a node of the reduced
   tree are its ancestors in the stored tree without the entry of the removed level *)
Lemma reduce_drop_ancestors t li t' m : validate t = true -> wf t -> (li < length t)%nat ->
  reduce t {| cfg_drop := Some li; cfg_flatten := false |} = TOk (t', m) ->
  drop_level t li = TOk t' /\ m = remove_nth li (seq 0 (length t)) /\
  (forall j x, ancestors t' j x = squash li (ancestors t (up_level li j) x)) /\
  (forall j x p, In p (map snd (ancestors t' j x)) -> exists k, In p (nodes (nth k t' []))).
Proof.
  intros V W H R. unfold reduce in R. cbn [cfg_drop cfg_flatten] in R.
  apply Nat.ltb_lt in H. rewrite H in R.
  destruct (drop_level t li) as [t1|e] eqn:D; [|discriminate].
  inversion R; subst t1 m. split; [reflexivity|]. split; [reflexivity|].
  destruct (drop_ok_facts t li t' D) as [HS E]. subst t'.
  split; [intros j x; apply raw_drop_ancestors; assumption|].
  intros j. induction j as [|k IH]; intros x p Hin; [cbn in Hin; contradiction|].
  cbn [ancestors] in Hin.
  destruct (parent_of (nth k (raw_drop t li) []) x) as [q|] eqn:P; [|cbn in Hin; contradiction].
  cbn [map snd] in Hin. destruct Hin as [<- | Hin].
  - exists k. unfold parent_of in P.
    destruct (find (fun pc => zmem x (snd pc)) (rev (nth k (raw_drop t li) []))) as [pc|] eqn:F; [|discriminate].
    cbn [option_map] in P. inversion P; subst q. apply find_some in F. destruct F as [F _].
    apply in_rev in F. unfold nodes. apply in_map. exact F.
  - apply (IH q p Hin).
Qed.
