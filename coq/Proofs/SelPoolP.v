(* The scheduler of select_all_markers (Model/Pool.v: sel_wait / sel_loop /
   run_selection_pool): whichever parents are behemoths, whatever the schedule, a clean
   verdict means every parent that was given a process exited with code 0, and a raise
   names a started parent and its non-zero code. *)
From Coq Require Import ZArith List Bool Lia.
From CTM Require Import Base.Sx Model.Pool Proofs.PoolP.
Import ListNotations.

Section Sel.
  Variable W : world.
  Variable leafless : list nat.

  (* every started parent is leafless (no process), still running, or exited with code 0 *)
  Definition sel_inv (s : sel_state) : Prop :=
    forall p, In p (ss_started s) ->
      mem p leafless = true \/ In p (map fst (ss_running s)) \/ code W p = 0%Z.
  Definition sel_inv2 (s : sel_state) : Prop :=
    forall j, In j (ss_running s) -> In (fst j) (ss_started s).

  Lemma sel_wait_inv fuel n : forall have s,
    sel_inv s -> sel_inv2 s ->
    match sel_wait fuel W n have s with
    | inr s' => sel_inv s' /\ sel_inv2 s' /\ ss_started s' = ss_started s /\
                (length (ss_running s') < n)%nat
    | inl (PRaised w c) => In w (ss_started s) /\ c = code W w /\ c <> 0%Z
    | inl POk => False
    | inl PHang => True
    end.
  Proof.
    induction fuel as [|f IH]; intros have s Hi Hi2; cbn [sel_wait].
    - destruct ((length (ss_running s) <? n)%nat && have)%bool eqn:E; [|exact Logic.I].
      apply andb_true_iff in E. destruct E as [E _]. apply Nat.ltb_lt in E. auto.
    - destruct ((length (ss_running s) <? n)%nat && have)%bool eqn:E.
      + apply andb_true_iff in E. destruct E as [E _]. apply Nat.ltb_lt in E. auto.
      + pose proof (winnow_dict_spec W (ss_clock s) (ss_running s)) as Hs.
        destruct (winnow_dict W (ss_clock s) (ss_running s)) as [r'|w c].
        * destruct Hs as [Hr Hz].
          match goal with |- context [sel_wait f W n ?h ?st] => specialize (IH h st) end.
          cbn [ss_started ss_running] in IH.
          assert (Hi' : sel_inv {| ss_started := ss_started s;
                                   ss_completed := ss_completed s ++
                                     filter (fun p => negb (mem p (map fst r'))) (map fst (ss_running s));
                                   ss_running := r'; ss_clock := S (ss_clock s) |}).
          { intros p Hp. cbn [ss_started ss_running] in *. destruct (Hi p Hp) as [H|[H|H]]; [left; exact H| |right; right; exact H].
            apply in_map_iff in H. destruct H as (j & <- & Hj).
            destruct (finished W (ss_clock s) j) eqn:Ef.
            - right; right. apply Hz; assumption.
            - right; left. apply in_map. subst r'. apply filter_In. split; [exact Hj|].
              unfold unfinished. rewrite Ef. reflexivity. }
          assert (Hi2' : sel_inv2 {| ss_started := ss_started s;
                                     ss_completed := ss_completed s ++
                                       filter (fun p => negb (mem p (map fst r'))) (map fst (ss_running s));
                                     ss_running := r'; ss_clock := S (ss_clock s) |}).
          { intros j Hj. cbn [ss_started ss_running] in *. apply Hi2. subst r'. apply filter_In in Hj. tauto. }
          specialize (IH Hi' Hi2').
          destruct (sel_wait f W n _ _) as [[|w c|]|s'] eqn:Ew; try exact IH.
        * destruct Hs as (j & Hj & <- & _ & Hc & Hnz). split; [apply Hi2; exact Hj | split; assumption].
  Qed.

  Lemma sel_loop_inv fuel n np beh sml : forall outer s,
    sel_inv s -> sel_inv2 s ->
    let r := sel_loop outer fuel W n np beh sml leafless s in
    (fst r = POk -> forall p, In p (ss_started (snd r)) -> mem p leafless = false -> code W p = 0%Z) /\
    (forall w c, fst r = PRaised w c -> In w (ss_started (snd r)) /\ c = code W w /\ c <> 0%Z).
  Proof.
    induction outer as [|o IH]; intros s Hi Hi2; cbn [sel_loop].
    - destruct (np <=? length (ss_started s))%nat.
      + pose proof (sel_wait_inv fuel 1 true s Hi Hi2) as Hw.
        destruct (sel_wait fuel W 1 true s) as [[|w c|]|s']; cbn [fst snd].
        * contradiction.
        * split; [discriminate|]. intros w' c' H; inversion H; subst. exact Hw.
        * split; discriminate.
        * destruct Hw as (Hi' & _ & _ & Hlen). split; [|discriminate].
          intros _ p Hp Hl. destruct (Hi' p Hp) as [H|[H|H]]; [congruence| |exact H].
          destruct (ss_running s'); [destruct H | cbn in Hlen; lia].
      + cbn. split; discriminate.
    - destruct (np <=? length (ss_started s))%nat.
      + pose proof (sel_wait_inv fuel 1 true s Hi Hi2) as Hw.
        destruct (sel_wait fuel W 1 true s) as [[|w c|]|s']; cbn [fst snd].
        * contradiction.
        * split; [discriminate|]. intros w' c' H; inversion H; subst. exact Hw.
        * split; discriminate.
        * destruct Hw as (Hi' & _ & _ & Hlen). split; [|discriminate].
          intros _ p Hp Hl. destruct (Hi' p Hp) as [H|[H|H]]; [congruence| |exact H].
          destruct (ss_running s'); [destruct H | cbn in Hlen; lia].
      + set (s1 := match choose_parent beh sml s with
                   | None => (false, s)
                   | Some p =>
                       if mem p leafless
                       then (true, {| ss_started := ss_started s ++ [p]; ss_completed := ss_completed s ++ [p];
                                      ss_running := ss_running s; ss_clock := ss_clock s |})
                       else (true, {| ss_started := ss_started s ++ [p]; ss_completed := ss_completed s;
                                      ss_running := ss_running s ++ [(p, ss_clock s)]; ss_clock := ss_clock s |})
                   end).
        assert (H1 : sel_inv (snd s1) /\ sel_inv2 (snd s1)).
        { subst s1. destruct (choose_parent beh sml s) as [p|]; [|split; assumption].
          destruct (mem p leafless) eqn:El; cbn [snd]; split.
          - intros q Hq. cbn [ss_started ss_running] in *. apply in_app_or in Hq.
            destruct Hq as [Hq|[<-|[]]]; [apply Hi; exact Hq | left; exact El].
          - intros j Hj. cbn [ss_started ss_running] in *. apply in_or_app. left. apply Hi2. exact Hj.
          - intros q Hq. cbn [ss_started ss_running] in *. apply in_app_or in Hq.
            destruct Hq as [Hq|[<-|[]]].
            + destruct (Hi q Hq) as [H|[H|H]]; [left; exact H| |right; right; exact H].
              right; left. rewrite map_app. apply in_or_app. left; exact H.
            + right; left. rewrite map_app. apply in_or_app. right. left. reflexivity.
          - intros j Hj. cbn [ss_started ss_running] in *. apply in_app_or in Hj.
            destruct Hj as [Hj|[<-|[]]]; apply in_or_app; [left; apply Hi2; exact Hj | right; left; reflexivity]. }
        destruct H1 as [Hi1 Hi21].
        pose proof (sel_wait_inv fuel n (fst s1) (snd s1) Hi1 Hi21) as Hw.
        destruct (sel_wait fuel W n (fst s1) (snd s1)) as [[|w c|]|s'] eqn:Ew; cbn [fst snd].
        * contradiction.
        * split; [discriminate|]. intros w' c' H; inversion H; subst. exact Hw.
        * split; discriminate.
        * destruct Hw as (Hi' & Hi2' & _ & _). apply IH; assumption.
  Qed.
End Sel.

Theorem selection_pool_verdict : forall (W : world) (n : nat) (behemoths smaller leafless : list nat),
  let r := run_selection_pool W n behemoths smaller leafless in
  (fst r = POk -> forall p, In p (ss_started (snd r)) -> mem p leafless = false -> code W p = 0%Z) /\
  (forall w c, fst r = PRaised w c -> In w (ss_started (snd r)) /\ c = code W w /\ c <> 0%Z).
Proof.
  intros W n beh sml leafless. unfold run_selection_pool. apply sel_loop_inv.
  - intros p [].
  - intros j [].
Qed.
