(* The scheduler of select_all_markers (Model/Pool.v: sel_wait / sel_loop /
   run_selection_pool): whichever parents are behemoths, whatever the schedule, a clean
   verdict means every parent that was given a process exited with code 0, and a raise
   names a started parent and its non-zero code. *)
From Coq Require Import ZArith List Bool Lia.
From CTM Require Import Base.Sx Model.Pool Proofs.PoolP.
Import ListNotations.

(* one poll (the body of either while loop); track = false is the final drain, which leaves
   completed_parents alone *)
Definition poll_state (track : bool) (s : sel_state) (r' : list job) : sel_state :=
  {| ss_started := ss_started s;
     ss_completed := if track
                     then ss_completed s ++
                          filter (fun p => negb (mem p (map fst r'))) (map fst (ss_running s))
                     else ss_completed s;
     ss_running := r'; ss_clock := S (ss_clock s) |}.

Lemma sel_wait_eq track f W n have s :
  sel_wait track (S f) W n have s =
  if ((length (ss_running s) <? n)%nat && have)%bool then inr s else
  match winnow_dict W (ss_clock s) (ss_running s) with
  | WRaise w c => inl (PRaised w c)
  | WOk r' => sel_wait track f W n (have || negb (length r' =? length (ss_running s))%nat)
                       (poll_state track s r')
  end.
Proof. reflexivity. Qed.

Section Sel.
  Variable W : world.
  Variable leafless : list nat.

  (* every started parent is leafless (no process), still running, or exited with code 0 *)
  Definition sel_inv (s : sel_state) : Prop :=
    forall p, In p (ss_started s) ->
      mem p leafless = true \/ In p (map fst (ss_running s)) \/ code W p = 0%Z.
  Definition sel_inv2 (s : sel_state) : Prop :=
    forall j, In j (ss_running s) -> In (fst j) (ss_started s).

  Lemma sel_wait_inv track fuel n : forall have s,
    sel_inv s -> sel_inv2 s ->
    match sel_wait track fuel W n have s with
    | inr s' => sel_inv s' /\ sel_inv2 s' /\ ss_started s' = ss_started s /\
                (length (ss_running s') < n)%nat
    | inl (PRaised w c) => In w (ss_started s) /\ c = code W w /\ c <> 0%Z
    | inl POk => False
    | inl PHang => True
    end.
  Proof.
    induction fuel as [|f IH]; intros have s Hi Hi2; [cbn [sel_wait] | rewrite sel_wait_eq].
    - destruct ((length (ss_running s) <? n)%nat && have)%bool eqn:E; [|exact Logic.I].
      apply andb_true_iff in E. destruct E as [E _]. apply Nat.ltb_lt in E. auto.
    - destruct ((length (ss_running s) <? n)%nat && have)%bool eqn:E.
      + apply andb_true_iff in E. destruct E as [E _]. apply Nat.ltb_lt in E. auto.
      + pose proof (winnow_dict_spec W (ss_clock s) (ss_running s)) as Hs.
        destruct (winnow_dict W (ss_clock s) (ss_running s)) as [r'|w c].
        * destruct Hs as [Hr Hz].
          match goal with |- context [sel_wait track f W n ?h ?st] => specialize (IH h st) end.
          cbn [poll_state ss_started ss_running] in IH.
          assert (Hi' : sel_inv (poll_state track s r')).
          { intros p Hp. cbn [poll_state ss_started ss_running] in *. destruct (Hi p Hp) as [H|[H|H]]; [left; exact H| |right; right; exact H].
            apply in_map_iff in H. destruct H as (j & <- & Hj).
            destruct (finished W (ss_clock s) j) eqn:Ef.
            - right; right. apply Hz; assumption.
            - right; left. apply in_map. subst r'. apply filter_In. split; [exact Hj|].
              unfold unfinished. rewrite Ef. reflexivity. }
          assert (Hi2' : sel_inv2 (poll_state track s r')).
          { intros j Hj. cbn [poll_state ss_started ss_running] in *. apply Hi2. subst r'. apply filter_In in Hj. tauto. }
          specialize (IH Hi' Hi2').
          destruct (sel_wait track f W n _ _) as [[|w c|]|s'] eqn:Ew; try exact IH.
        * destruct Hs as (j & Hj & <- & _ & Hc & Hnz). split; [apply Hi2; exact Hj | split; assumption].
  Qed.

  Lemma sel_loop_inv fuel dfuel n np beh sml : forall outer s,
    sel_inv s -> sel_inv2 s ->
    let r := sel_loop outer fuel dfuel W n np beh sml leafless s in
    (fst r = POk -> forall p, In p (ss_started (snd r)) -> mem p leafless = false -> code W p = 0%Z) /\
    (forall w c, fst r = PRaised w c -> In w (ss_started (snd r)) /\ c = code W w /\ c <> 0%Z).
  Proof.
    induction outer as [|o IH]; intros s Hi Hi2; cbn [sel_loop].
    - destruct (np <=? length (ss_started s))%nat.
      + pose proof (sel_wait_inv false dfuel 1 true s Hi Hi2) as Hw.
        destruct (sel_wait false dfuel W 1 true s) as [[|w c|]|s']; cbn [fst snd].
        * contradiction.
        * split; [discriminate|]. intros w' c' H; inversion H; subst. exact Hw.
        * split; discriminate.
        * destruct Hw as (Hi' & _ & _ & Hlen). split; [|discriminate].
          intros _ p Hp Hl. destruct (Hi' p Hp) as [H|[H|H]]; [congruence| |exact H].
          destruct (ss_running s'); [destruct H | cbn in Hlen; lia].
      + cbn. split; discriminate.
    - destruct (np <=? length (ss_started s))%nat.
      + pose proof (sel_wait_inv false dfuel 1 true s Hi Hi2) as Hw.
        destruct (sel_wait false dfuel W 1 true s) as [[|w c|]|s']; cbn [fst snd].
        * contradiction.
        * split; [discriminate|]. intros w' c' H; inversion H; subst. exact Hw.
        * split; discriminate.
        * destruct Hw as (Hi' & _ & _ & Hlen). split; [|discriminate].
          intros _ p Hp Hl. destruct (Hi' p Hp) as [H|[H|H]]; [congruence| |exact H].
          destruct (ss_running s'); [destruct H | cbn in Hlen; lia].
      + set (s1 := match choose_parent beh sml s with
                   | None => (false, s)
                   | Some p =>
                       if mem p leafless
                       then (true, {| ss_started := ss_started s ++ [p]; ss_completed := ss_completed s ++ [p];
                                      ss_running := ss_running s; ss_clock := ss_clock s |})
                       else (true, {| ss_started := ss_started s ++ [p]; ss_completed := ss_completed s;
                                      ss_running := ss_running s ++ [(p, ss_clock s)]; ss_clock := ss_clock s |})
                   end).
        assert (H1 : sel_inv (snd s1) /\ sel_inv2 (snd s1)).
        { subst s1. destruct (choose_parent beh sml s) as [p|]; [|split; assumption].
          destruct (mem p leafless) eqn:El; cbn [snd]; split.
          - intros q Hq. cbn [ss_started ss_running] in *. apply in_app_or in Hq.
            destruct Hq as [Hq|[<-|[]]]; [apply Hi; exact Hq | left; exact El].
          - intros j Hj. cbn [ss_started ss_running] in *. apply in_or_app. left. apply Hi2. exact Hj.
          - intros q Hq. cbn [ss_started ss_running] in *. apply in_app_or in Hq.
            destruct Hq as [Hq|[<-|[]]].
            + destruct (Hi q Hq) as [H|[H|H]]; [left; exact H| |right; right; exact H].
              right; left. rewrite map_app. apply in_or_app. left; exact H.
            + right; left. rewrite map_app. apply in_or_app. right. left. reflexivity.
          - intros j Hj. cbn [ss_started ss_running] in *. apply in_app_or in Hj.
            destruct Hj as [Hj|[<-|[]]]; apply in_or_app; [left; apply Hi2; exact Hj | right; left; reflexivity]. }
        destruct H1 as [Hi1 Hi21].
        pose proof (sel_wait_inv true fuel n (fst s1) (snd s1) Hi1 Hi21) as Hw.
        destruct (sel_wait true fuel W n (fst s1) (snd s1)) as [[|w c|]|s'] eqn:Ew; cbn [fst snd].
        * contradiction.
        * split; [discriminate|]. intros w' c' H; inversion H; subst. exact Hw.
        * split; discriminate.
        * destruct Hw as (Hi' & Hi2' & _ & _). apply IH; assumption.
  Qed.
End Sel.

Theorem selection_pool_verdict : forall (W : world) (n : nat) (behemoths smaller leafless : list nat),
  let r := run_selection_pool W n behemoths smaller leafless in
  (fst r = POk -> forall p, In p (ss_started (snd r)) -> mem p leafless = false -> code W p = 0%Z) /\
  (forall w c, fst r = PRaised w c -> In w (ss_started (snd r)) /\ c = code W w /\ c <> 0%Z).
Proof.
  intros W n beh sml leafless. unfold run_selection_pool. apply sel_loop_inv.
  - intros p [].
  - intros j [].
Qed.

(* ====================================================================================
   The full statement: the scheduler never hangs, on Ok every parent was started, and
   the pool invariant  started \ completed = running  holds at every state. *)
From Coq Require Import Permutation.
From CTM Require Import Base.ListX.

Lemma mem_in x l : mem x l = true <-> In x l.
Proof.
  unfold mem. rewrite existsb_exists. split.
  - intros (y & Hy & E). apply Nat.eqb_eq in E. subst. exact Hy.
  - intros H. exists x. split; [exact H | apply Nat.eqb_refl].
Qed.
Lemma mem_not_in x l : mem x l = false <-> ~ In x l.
Proof. rewrite <- mem_in. destruct (mem x l); split; congruence. Qed.

Lemma NoDup_map_filter {A B} (f : A -> B) (g : A -> bool) l :
  NoDup (map f l) -> NoDup (map f (filter g l)).
Proof.
  induction l as [|a l IH]; cbn; intros H; [constructor|].
  inversion H; subst. destruct (g a); cbn; [|apply IH; assumption].
  constructor; [|apply IH; assumption].
  intros Hin. apply H2. apply in_map_iff in Hin. destruct Hin as (b & Hb & Hin).
  apply filter_In in Hin. rewrite <- Hb. apply in_map. tauto.
Qed.

Lemma NoDup_snoc_x {A} (l : list A) x : NoDup l -> ~ In x l -> NoDup (l ++ [x]).
Proof.
  intros Hl Hx. apply NoDup_app; [exact Hl | constructor; [intros []|constructor] |].
  intros y Hy [<-|[]]. contradiction.
Qed.

(* the pool invariant (DESIGN section 7, C04): the parents that were started and are not
   yet recorded as completed are exactly the keys of process_dict -- as sets AND with
   multiplicity 1 (all three collections are duplicate-free); completed is part of
   started; no job carries a start time in the future *)
Definition pool_inv (s : sel_state) : Prop :=
  NoDup (ss_started s) /\ NoDup (ss_completed s) /\ NoDup (map fst (ss_running s)) /\
  (forall p, In p (map fst (ss_running s)) <-> In p (ss_started s) /\ ~ In p (ss_completed s)) /\
  (forall p, In p (ss_completed s) -> In p (ss_started s)) /\
  (forall j, In j (ss_running s) -> (snd j <= ss_clock s)%nat).

Definition sel_init : sel_state :=
  {| ss_started := []; ss_completed := []; ss_running := []; ss_clock := 0 |}.

Lemma pool_inv_init : pool_inv sel_init.
Proof.
  unfold pool_inv, sel_init; cbn. repeat split; try constructor; try tauto; intros; tauto.
Qed.

(* what is left of it after the final drain, which pops workers without recording them as
   completed: the keys of process_dict are still started and not completed, but not conversely *)
Definition weak_inv (s : sel_state) : Prop :=
  NoDup (ss_started s) /\ NoDup (ss_completed s) /\ NoDup (map fst (ss_running s)) /\
  (forall p, In p (map fst (ss_running s)) -> In p (ss_started s) /\ ~ In p (ss_completed s)) /\
  (forall p, In p (ss_completed s) -> In p (ss_started s)) /\
  (forall j, In j (ss_running s) -> (snd j <= ss_clock s)%nat).

Lemma pool_inv_weak s : pool_inv s -> weak_inv s.
Proof.
  intros (Hs & Hc & Hr & Hd & Hsub & Hck). repeat split; try assumption; apply Hd; assumption.
Qed.

(* one poll of the inner while loop *)
Lemma poll_inv (W : world) s :
  pool_inv s -> pool_inv (poll_state true s (filter (unfinished W (ss_clock s)) (ss_running s))).
Proof.
  intros (Hs & Hc & Hr & Hd & Hsub & Hck).
  set (r' := filter (unfinished W (ss_clock s)) (ss_running s)).
  assert (Hr'sub : forall p, In p (map fst r') -> In p (map fst (ss_running s))).
  { intros p Hp. apply in_map_iff in Hp. destruct Hp as (j & <- & Hj).
    apply filter_In in Hj. apply in_map. tauto. }
  assert (Hgone : forall p, In p (filter (fun p => negb (mem p (map fst r'))) (map fst (ss_running s))) <->
                            In p (map fst (ss_running s)) /\ ~ In p (map fst r')).
  { intros p. rewrite filter_In, negb_true_iff, mem_not_in. tauto. }
  unfold pool_inv, poll_state; cbn [ss_started ss_completed ss_running ss_clock].
  split; [exact Hs|]. split.
  { apply NoDup_app; [exact Hc | apply NoDup_filter; exact Hr |].
    intros p Hp Hg. apply Hgone in Hg. destruct Hg as [Hg _]. apply Hd in Hg. tauto. }
  split; [apply NoDup_map_filter; exact Hr|]. split.
  { intros p. rewrite in_app_iff, Hgone. split.
    - intros Hp. pose proof (Hr'sub p Hp) as Hp'. apply Hd in Hp'. tauto.
    - intros [Hps Hn]. assert (Hrun : In p (map fst (ss_running s))) by (apply Hd; tauto).
      destruct (in_dec Nat.eq_dec p (map fst r')) as [Hi|Hi]; [exact Hi | exfalso; tauto]. }
  split.
  { intros p Hp. apply in_app_or in Hp. destruct Hp as [Hp|Hp]; [apply Hsub; exact Hp|].
    apply Hgone in Hp. destruct Hp as [Hp _]. apply Hd in Hp. tauto. }
  intros j Hj. apply filter_In in Hj. destruct Hj as [Hj _]. specialize (Hck j Hj). lia.
Qed.

(* starting the chosen parent (the `if have_chosen_parent:` block) *)
Definition start_state (leafless : list nat) (s : sel_state) (p : nat) : sel_state :=
  if mem p leafless
  then {| ss_started := ss_started s ++ [p]; ss_completed := ss_completed s ++ [p];
          ss_running := ss_running s; ss_clock := ss_clock s |}
  else {| ss_started := ss_started s ++ [p]; ss_completed := ss_completed s;
          ss_running := ss_running s ++ [(p, ss_clock s)]; ss_clock := ss_clock s |}.

Lemma start_inv leafless s p : pool_inv s -> ~ In p (ss_started s) -> pool_inv (start_state leafless s p).
Proof.
  intros (Hs & Hc & Hr & Hd & Hsub & Hck) Hp.
  assert (Hpc : ~ In p (ss_completed s)) by (intros H; apply Hp, Hsub, H).
  assert (Hpr : ~ In p (map fst (ss_running s))) by (intros H; apply Hd in H; tauto).
  unfold start_state. destruct (mem p leafless); unfold pool_inv;
    cbn [ss_started ss_completed ss_running ss_clock].
  - split; [apply NoDup_snoc_x; assumption|]. split; [apply NoDup_snoc_x; assumption|].
    split; [exact Hr|]. split.
    + intros q. rewrite !in_app_iff. cbn [In]. rewrite Hd. split.
      * intros [Hq Hn]. split; [left; exact Hq|]. intros [H|[H|[]]]; [tauto | subst; tauto].
      * intros [[Hq|[Hq|[]]] Hn]; [tauto | subst; exfalso; apply Hn; right; left; reflexivity].
    + split; [|exact Hck]. intros q Hq. apply in_app_or in Hq. apply in_or_app.
      destruct Hq as [Hq|Hq]; [left; apply Hsub; exact Hq | right; exact Hq].
  - split; [apply NoDup_snoc_x; assumption|]. split; [exact Hc|].
    split; [rewrite map_app; cbn; apply NoDup_snoc_x; assumption|]. split.
    + intros q. rewrite map_app, !in_app_iff. cbn [In map fst]. rewrite Hd. split.
      * intros [[Hq Hn]|[Hq|[]]]; [tauto | subst; tauto].
      * intros [[Hq|[Hq|[]]] Hn]; [tauto | right; left; exact Hq].
    + split.
      * intros q Hq. apply in_or_app. left. apply Hsub. exact Hq.
      * intros j Hj. apply in_app_or in Hj. destruct Hj as [Hj|[<-|[]]]; [apply Hck; exact Hj | cbn; lia].
Qed.

Lemma filter_length_lt_or_eq {A} (f : A -> bool) l :
  length (filter f l) = length l -> filter f l = l.
Proof.
  induction l as [|a l IH]; cbn; [reflexivity|].
  destruct (f a); cbn; intros H.
  - f_equal. apply IH. lia.
  - pose proof (filter_length_le f l). lia.
Qed.

Section Sched.
  Variable W : world.

  (* the inner while loop, when it ends: invariant kept, nothing started, the dict only
     shrinks, it shrank strictly if the loop was entered without a chosen parent *)
  Lemma sel_wait_inr fuel n : forall have s s',
    pool_inv s -> sel_wait true fuel W n have s = inr s' ->
    pool_inv s' /\ ss_started s' = ss_started s /\
    (length (ss_running s') <= length (ss_running s))%nat /\
    (have = false -> (length (ss_running s') < length (ss_running s))%nat) /\
    (length (ss_running s') < n)%nat /\
    (forall j, In j (ss_running s') -> In j (ss_running s)).
  Proof.
    induction fuel as [|f IH]; intros have s s' Hi; [cbn [sel_wait] | rewrite sel_wait_eq].
    - destruct ((length (ss_running s) <? n)%nat && have)%bool eqn:E; [|discriminate].
      intros H; inversion H; subst s'. apply andb_true_iff in E. destruct E as [E1 E2].
      apply Nat.ltb_lt in E1. split; [exact Hi|]. split; [reflexivity|]. split; [lia|].
      split; [intros ->; discriminate|]. split; [exact E1 | auto].
    - destruct ((length (ss_running s) <? n)%nat && have)%bool eqn:E.
      + intros H; inversion H; subst s'. apply andb_true_iff in E. destruct E as [E1 E2].
        apply Nat.ltb_lt in E1. split; [exact Hi|]. split; [reflexivity|]. split; [lia|].
        split; [intros ->; discriminate|]. split; [exact E1 | auto].
      + pose proof (winnow_dict_spec W (ss_clock s) (ss_running s)) as Hs.
        destruct (winnow_dict W (ss_clock s) (ss_running s)) as [r'|w c]; [|discriminate].
        destruct Hs as [Hr _]. intros H.
        apply IH in H; [|subst r'; apply poll_inv; exact Hi].
        destruct H as (Hi' & Hst & Hle & Hlt & Hn & Hsub).
        cbn [poll_state ss_started ss_running] in Hst, Hle, Hlt, Hsub.
        pose proof (filter_length_le (unfinished W (ss_clock s)) (ss_running s)) as Hfl.
        rewrite <- Hr in Hfl.
        split; [exact Hi'|]. split; [exact Hst|]. split; [lia|]. split; [|split; [exact Hn|]].
        * intros ->. cbn [orb] in Hlt.
          destruct (length r' =? length (ss_running s))%nat eqn:El; cbn [negb] in Hlt.
          -- apply Nat.eqb_eq in El. specialize (Hlt eq_refl). lia.
          -- apply Nat.eqb_neq in El. lia.
        * intros j Hj. apply Hsub in Hj. subst r'. apply filter_In in Hj. tauto.
  Qed.

  (* ... and it always ends: fuel = f + 1 polls suffice when every running worker terminates
     within f polls from now, provided a parent was chosen or the dict is not empty *)
  Lemma sel_wait_no_hang track n : (1 <= n)%nat -> forall f have s,
    (forall j, In j (ss_running s) -> (snd j + dur W (fst j) <= ss_clock s + f)%nat) ->
    (have = true \/ ss_running s <> []) ->
    sel_wait track (S f) W n have s <> inl PHang.
  Proof.
    intros Hn. induction f as [|f IH]; intros have s Hdur Hne.
    - rewrite sel_wait_eq. cbn [sel_wait].
      destruct ((length (ss_running s) <? n)%nat && have)%bool eqn:E; [discriminate|].
      pose proof (winnow_dict_spec W (ss_clock s) (ss_running s)) as Hs.
      destruct (winnow_dict W (ss_clock s) (ss_running s)) as [r'|w c]; [|discriminate].
      destruct Hs as [Hr _].
      assert (r' = []) as ->.
      { subst r'. apply filter_none. intros j Hj. specialize (Hdur j Hj).
        unfold unfinished, finished. apply negb_false_iff, Nat.leb_le. lia. }
      cbn [length poll_state ss_running].
      assert (Hh : (have || negb (0 =? length (ss_running s))%nat)%bool = true).
      { destruct Hne as [->|Hne]; [reflexivity|]. destruct (ss_running s); [contradiction|].
        cbn. apply orb_true_r. }
      rewrite Hh. destruct n; [lia|]. cbn. discriminate.
    - rewrite sel_wait_eq.
      destruct ((length (ss_running s) <? n)%nat && have)%bool eqn:E; [discriminate|].
      pose proof (winnow_dict_spec W (ss_clock s) (ss_running s)) as Hs.
      destruct (winnow_dict W (ss_clock s) (ss_running s)) as [r'|w c]; [|discriminate].
      destruct Hs as [Hr _]. apply IH; cbn [poll_state ss_running ss_clock].
      + intros j Hj. subst r'. apply filter_In in Hj. destruct Hj as [Hj _].
        specialize (Hdur j Hj). lia.
      + destruct Hne as [->|Hne]; [left; reflexivity|].
        destruct (length r' =? length (ss_running s))%nat eqn:El.
        * right. apply Nat.eqb_eq in El. intros ->. destruct (ss_running s); [contradiction|discriminate].
        * left. apply orb_true_r.
  Qed.
End Sched.

Lemma sel_wait_never_ok track W fuel n : forall have s, sel_wait track fuel W n have s <> inl POk.
Proof.
  induction fuel as [|f IH]; intros have s; [cbn [sel_wait] | rewrite sel_wait_eq];
    destruct ((length (ss_running s) <? n)%nat && have)%bool; try discriminate.
  destruct (winnow_dict W (ss_clock s) (ss_running s)); [apply IH | discriminate].
Qed.

(* the final drain follows the same schedule as an inner loop would (same polls, same pops, same
   verdict): it only leaves `completed` as it was *)
Definition same_sched (s1 s2 : sel_state) : Prop :=
  ss_started s1 = ss_started s2 /\ ss_running s1 = ss_running s2 /\ ss_clock s1 = ss_clock s2.

Lemma sel_wait_untracked W fuel n : forall have s1 s2, same_sched s1 s2 ->
  match sel_wait true fuel W n have s1, sel_wait false fuel W n have s2 with
  | inl r1, inl r2 => r1 = r2
  | inr a, inr b => same_sched a b /\ ss_completed b = ss_completed s2
  | _, _ => False
  end.
Proof.
  induction fuel as [|f IH]; intros have s1 s2 (E1 & E2 & E3).
  - cbn [sel_wait]. rewrite E2.
    destruct ((length (ss_running s2) <? n)%nat && have)%bool; [|reflexivity].
    split; [repeat split; assumption | reflexivity].
  - rewrite !sel_wait_eq. rewrite E2, E3.
    destruct ((length (ss_running s2) <? n)%nat && have)%bool.
    + split; [repeat split; assumption | reflexivity].
    + destruct (winnow_dict W (ss_clock s2) (ss_running s2)) as [r'|w c]; [|reflexivity].
      assert (Hss : same_sched (poll_state true s1 r') (poll_state false s2 r')).
      { unfold same_sched. cbn [poll_state ss_started ss_running ss_clock]. rewrite E1, E3. repeat split. }
      exact (IH (have || negb (length r' =? length (ss_running s2))%nat)%bool _ _ Hss).
Qed.

Section Loop.
  Variable W : world.
  Variable n : nat.
  Variables beh sml leafless : list nat.
  Let parents := beh ++ sml.
  Let np := (length beh + length sml)%nat.
  Hypothesis Hnd : NoDup parents.

  Definition loop_inv (s : sel_state) : Prop :=
    pool_inv s /\ (forall p, In p (ss_started s) -> In p parents).

  (* the body of the outer loop up to the inner while loop *)
  Definition sel_step (s : sel_state) : bool * sel_state :=
    match choose_parent beh sml s with
    | None => (false, s)
    | Some p => (true, start_state leafless s p)
    end.

  (* the final `while len(process_dict) > 0` loop: completed_parents is left alone *)
  Definition drain (dfuel : nat) (s : sel_state) : pres * sel_state :=
    match sel_wait false dfuel W 1 true s with
    | inl r => (r, s)
    | inr s' => (POk, s')
    end.

  Lemma sel_loop_done outer fuel dfuel s : (np <=? length (ss_started s))%nat = true ->
    sel_loop outer fuel dfuel W n np beh sml leafless s = drain dfuel s.
  Proof. intros E. destruct outer; cbn [sel_loop]; rewrite E; reflexivity. Qed.

  Lemma sel_loop_step o fuel dfuel s : (np <=? length (ss_started s))%nat = false ->
    sel_loop (S o) fuel dfuel W n np beh sml leafless s =
    match sel_wait true fuel W n (fst (sel_step s)) (snd (sel_step s)) with
    | inl r => (r, snd (sel_step s))
    | inr s' => sel_loop o fuel dfuel W n np beh sml leafless s'
    end.
  Proof.
    intros E. cbn [sel_loop]. rewrite E. unfold sel_step, start_state.
    destruct (choose_parent beh sml s) as [p|]; [destruct (mem p leafless)|]; reflexivity.
  Qed.

  Lemma sel_loop_out_of_fuel fuel dfuel s : (np <=? length (ss_started s))%nat = false ->
    sel_loop O fuel dfuel W n np beh sml leafless s = (PHang, s).
  Proof. intros E. cbn [sel_loop]. rewrite E. reflexivity. Qed.

  Lemma choose_some s p : choose_parent beh sml s = Some p -> In p parents /\ ~ In p (ss_started s).
  Proof.
    unfold choose_parent, first_unstarted, parents. intros H.
    assert (Hf : forall l, find (fun p => negb (mem p (ss_started s))) l = Some p ->
                           In p l /\ ~ In p (ss_started s)).
    { intros l Hl. apply find_some in Hl. destruct Hl as [H1 H2].
      apply negb_true_iff, mem_not_in in H2. tauto. }
    destruct (if behemoth_running beh s then None
              else find (fun p => negb (mem p (ss_started s))) beh) as [q|] eqn:E.
    - inversion H; subst q. destruct (behemoth_running beh s); [discriminate|].
      apply Hf in E. rewrite in_app_iff. tauto.
    - apply Hf in H. rewrite in_app_iff. tauto.
  Qed.

  (* no spin with nothing running: while a parent is still to be started, "no parent can
     be chosen" means a behemoth is started and not completed, hence (pool invariant)
     in process_dict *)
  Lemma choose_none s : loop_inv s -> (length (ss_started s) < np)%nat ->
    choose_parent beh sml s = None -> ss_running s <> [].
  Proof.
    intros [(Hs & Hc & Hr & Hd & Hsub & Hck) Hincl] Hlt Hch.
    destruct (find (fun p => negb (mem p (ss_started s))) parents) as [q|] eqn:Ef.
    - apply find_some in Ef. destruct Ef as [Hq Hqn].
      unfold choose_parent, first_unstarted in Hch.
      assert (Hno : forall l, In q l -> find (fun p => negb (mem p (ss_started s))) l <> None).
      { intros l Hl Hf. pose proof (find_none _ _ Hf q Hl) as H. cbn in H. congruence. }
      unfold parents in Hq. apply in_app_or in Hq. destruct Hq as [Hqb|Hqs].
      + destruct (behemoth_running beh s) eqn:Eb.
        * unfold behemoth_running in Eb. apply existsb_exists in Eb. destruct Eb as (b & Hb & Hbb).
          apply andb_true_iff in Hbb. destruct Hbb as [H1 H2].
          apply mem_in in H1. apply negb_true_iff, mem_not_in in H2.
          assert (Hin : In b (map fst (ss_running s))) by (apply Hd; tauto).
          intros E. rewrite E in Hin. destruct Hin.
        * exfalso. apply (Hno beh Hqb).
          destruct (find (fun p => negb (mem p (ss_started s))) beh); [discriminate | reflexivity].
      + exfalso. apply (Hno sml Hqs).
        destruct (if behemoth_running beh s then None
                  else find (fun p => negb (mem p (ss_started s))) beh); [discriminate | exact Hch].
    - exfalso.
      assert (Hall : incl parents (ss_started s)).
      { intros p Hp. pose proof (find_none _ _ Ef p Hp) as H. cbn in H.
        apply negb_false_iff, mem_in in H. exact H. }
      pose proof (NoDup_incl_length Hnd Hall) as Hlen.
      unfold parents in Hlen. rewrite app_length in Hlen. unfold np in Hlt. lia.
  Qed.

  Lemma sel_step_inv s : loop_inv s -> loop_inv (snd (sel_step s)).
  Proof.
    intros [Hi Hincl]. unfold sel_step.
    destruct (choose_parent beh sml s) as [p|] eqn:Ec; cbn [snd]; [|split; assumption].
    apply choose_some in Ec. destruct Ec as [Hp Hns]. split; [apply start_inv; assumption|].
    unfold start_state. destruct (mem p leafless); cbn [ss_started]; intros q Hq;
      apply in_app_or in Hq; destruct Hq as [Hq|[<-|[]]]; auto.
  Qed.

  Definition wloop_inv (s : sel_state) : Prop :=
    weak_inv s /\ (forall p, In p (ss_started s) -> In p parents).

  Lemma loop_inv_weak s : loop_inv s -> wloop_inv s.
  Proof. intros [Hi Hincl]. split; [apply pool_inv_weak; exact Hi | exact Hincl]. Qed.

  (* with no fuel at all the drain hands back the state at the exit of the outer loop *)
  Lemma drain_zero s : snd (drain 0 s) = s.
  Proof. unfold drain. cbn [sel_wait]. destruct ((length (ss_running s) <? 1)%nat && true)%bool; reflexivity. Qed.

  Lemma drain_facts dfuel s : loop_inv s ->
    let r := drain dfuel s in
    wloop_inv (snd r) /\ ss_started (snd r) = ss_started s /\ ss_completed (snd r) = ss_completed s /\
    (fst r = POk -> ss_running (snd r) = []) /\
    (forall j, In j (ss_running (snd r)) -> In j (ss_running s)) /\
    (length (ss_running (snd r)) <= length (ss_running s))%nat.
  Proof.
    intros Hi. unfold drain.
    assert (Hss : same_sched s s) by (repeat split).
    pose proof (sel_wait_untracked W dfuel 1 true s s Hss) as Hu.
    destruct (sel_wait true dfuel W 1 true s) as [r1|a] eqn:Et;
      destruct (sel_wait false dfuel W 1 true s) as [r2|b] eqn:Ef; try contradiction; cbn [fst snd].
    - split; [apply loop_inv_weak; exact Hi|]. split; [reflexivity|]. split; [reflexivity|].
      split; [|split; [auto | lia]].
      intros ->. exfalso. exact (sel_wait_never_ok _ _ _ _ _ _ Ef).
    - destruct Hu as [(Ea & Eb & Ec) Hcomp].
      destruct Hi as [Hi Hincl]. pose proof Hi as (Hs & Hc & Hr & Hd & Hsub & Hck).
      apply sel_wait_inr in Et; [|exact Hi].
      destruct Et as (Hia & Hst & Hle & _ & Hlen & Hsubr).
      destruct Hia as (Hsa & Hca & Hra & Hda & Hsuba & Hcka).
      rewrite <- Ea, <- Eb, Hcomp, Hst.
      split; [split|].
      + unfold weak_inv. rewrite <- Ea, <- Eb, <- Ec, Hcomp, Hst.
        split; [exact Hs|]. split; [exact Hc|]. split; [exact Hra|]. split; [|split; [exact Hsub | exact Hcka]].
        intros p Hp. apply Hd. apply in_map_iff in Hp. destruct Hp as (j & <- & Hj).
        apply in_map. apply Hsubr. exact Hj.
      + rewrite <- Ea, Hst. exact Hincl.
      + split; [reflexivity|]. split; [reflexivity|]. split; [|split; [exact Hsubr | exact Hle]].
        intros _. destruct (ss_running a); [reflexivity | cbn in Hlen; lia].
  Qed.

  (* (A) the shape of every result of the loop, for EVERY number of outer iterations and EVERY
     fuel: either the loop stopped inside the outer loop (out of fuel or a raise: not Ok) at a
     state that satisfies the pool invariant, or it left the outer loop at such a state and the
     result is that of the final drain from there *)
  Lemma sel_loop_shape fuel dfuel : forall outer s, loop_inv s ->
    let r := sel_loop outer fuel dfuel W n np beh sml leafless s in
    exists s0, loop_inv s0 /\
      ((fst r <> POk /\ snd r = s0) \/
       ((np <=? length (ss_started s0))%nat = true /\ r = drain dfuel s0)).
  Proof.
    induction outer as [|o IH]; intros s Hi;
      destruct (np <=? length (ss_started s))%nat eqn:En.
    - rewrite sel_loop_done by exact En. exists s. split; [exact Hi | right; split; [exact En | reflexivity]].
    - rewrite sel_loop_out_of_fuel by exact En. exists s. split; [exact Hi | left; split; [discriminate | reflexivity]].
    - rewrite sel_loop_done by exact En. exists s. split; [exact Hi | right; split; [exact En | reflexivity]].
    - rewrite sel_loop_step by exact En. pose proof (sel_step_inv s Hi) as Hi1.
      destruct (sel_wait true fuel W n (fst (sel_step s)) (snd (sel_step s))) as [r|s'] eqn:Ew.
      + exists (snd (sel_step s)). split; [exact Hi1|]. left. cbn [fst snd]. split; [|reflexivity].
        intros ->. exact (sel_wait_never_ok _ _ _ _ _ _ Ew).
      + apply IH. destruct Hi1 as [Hp1 Hincl1]. apply sel_wait_inr in Ew; [|exact Hp1].
        destruct Ew as (Hi' & Hst & _). split; [exact Hi'|]. rewrite Hst. exact Hincl1.
  Qed.

  (* at every state of the outer loop (no final drain: dfuel = 0) the full pool invariant *)
  Lemma sel_loop_heads fuel outer s : loop_inv s ->
    loop_inv (snd (sel_loop outer fuel 0 W n np beh sml leafless s)).
  Proof.
    intros Hi. destruct (sel_loop_shape fuel 0 outer s Hi) as (s0 & Hi0 & [[_ E]|[_ E]]).
    - rewrite E. exact Hi0.
    - rewrite E, drain_zero. exact Hi0.
  Qed.

  (* whatever the fuels: the weak invariant; a clean verdict comes with everything started, an
     empty process_dict -- and `completed` as it was when the outer loop was left *)
  Lemma sel_loop_inv_all fuel dfuel outer s : loop_inv s ->
    let r := sel_loop outer fuel dfuel W n np beh sml leafless s in
    wloop_inv (snd r) /\
    (fst r = POk -> (np <= length (ss_started (snd r)))%nat /\ ss_running (snd r) = []).
  Proof.
    intros Hi r. subst r. destruct (sel_loop_shape fuel dfuel outer s Hi) as (s0 & Hi0 & [[Hne E]|[En E]]).
    - rewrite E. split; [apply loop_inv_weak; exact Hi0 | intros Hok; contradiction].
    - destruct (drain_facts dfuel s0 Hi0) as (H1 & H2 & _ & H4 & _). rewrite E.
      split; [exact H1|]. intros Hok. split; [rewrite H2; apply Nat.leb_le; exact En | auto].
  Qed.

  (* (B) termination *)
  Hypothesis Hn : (1 <= n)%nat.
  Variable m : nat.
  Hypothesis Hm : forall p, In p parents -> (dur W p <= m)%nat.

  Definition mu (s : sel_state) : nat := (2 * (np - length (ss_started s)) + length (ss_running s))%nat.

  Lemma dur_bound s : loop_inv s ->
    forall j, In j (ss_running s) -> (snd j + dur W (fst j) <= ss_clock s + m)%nat.
  Proof.
    intros [(Hs & Hc & Hr & Hd & Hsub & Hck) Hincl] j Hj.
    specialize (Hck j Hj).
    assert (Hp : In (fst j) parents).
    { apply Hincl. apply (proj1 (Hd (fst j))). apply in_map. exact Hj. }
    specialize (Hm _ Hp). lia.
  Qed.

  Lemma sel_step_progress s : loop_inv s -> (length (ss_started s) < np)%nat ->
    (fst (sel_step s) = true \/ ss_running (snd (sel_step s)) <> []) /\
    (fst (sel_step s) = true -> (mu (snd (sel_step s)) < mu s)%nat) /\
    (fst (sel_step s) = false -> snd (sel_step s) = s).
  Proof.
    intros Hi Hlt. unfold sel_step.
    destruct (choose_parent beh sml s) as [p|] eqn:Ec; cbn [fst snd].
    - split; [left; reflexivity|]. split; [|discriminate]. intros _.
      unfold mu, start_state. destruct (mem p leafless); cbn [ss_started ss_running];
        rewrite ?app_length; cbn [length]; lia.
    - split; [right; apply choose_none; assumption|]. split; [discriminate | reflexivity].
  Qed.

  Lemma sel_loop_no_hang : forall outer s, loop_inv s -> (mu s < outer)%nat ->
    fst (sel_loop outer (S m) (S m) W n np beh sml leafless s) <> PHang.
  Proof.
    induction outer as [|o IH]; intros s Hi Hmu;
      destruct (np <=? length (ss_started s))%nat eqn:En.
    - lia.
    - lia.
    - rewrite sel_loop_done by exact En. unfold drain.
      destruct (sel_wait false (S m) W 1 true s) as [r|s'] eqn:Ew; cbn [fst]; [|discriminate].
      intros ->. revert Ew. apply sel_wait_no_hang; [lia | apply dur_bound; exact Hi | left; reflexivity].
    - rewrite sel_loop_step by exact En. apply Nat.leb_gt in En.
      pose proof (sel_step_inv s Hi) as Hi1.
      destruct (sel_step_progress s Hi En) as (Hne & Hdec & Hsame).
      destruct (sel_wait true (S m) W n (fst (sel_step s)) (snd (sel_step s))) as [r|s'] eqn:Ew.
      + cbn [fst]. intros ->. revert Ew.
        apply sel_wait_no_hang; [exact Hn | apply dur_bound; exact Hi1 | exact Hne].
      + destruct Hi1 as [Hp1 Hincl1]. apply sel_wait_inr in Ew; [|exact Hp1].
        destruct Ew as (Hi' & Hst & Hle & Hlt & _). apply IH.
        * split; [exact Hi'|]. rewrite Hst. exact Hincl1.
        * assert (Hmu' : (mu s' < mu s)%nat); [|lia].
          destruct (fst (sel_step s)) eqn:Ef.
          -- specialize (Hdec eq_refl). unfold mu in *. rewrite Hst. lia.
          -- specialize (Hlt eq_refl). rewrite (Hsame eq_refl) in *. unfold mu. rewrite Hst. lia.
  Qed.
End Loop.

(* a raise of the inner loop names a key of process_dict *)
Lemma sel_wait_raise track W fuel n : forall have s w c,
  sel_wait track fuel W n have s = inl (PRaised w c) ->
  exists j, In j (ss_running s) /\ fst j = w /\ c = code W w /\ c <> 0%Z.
Proof.
  induction fuel as [|f IH]; intros have s w c; [cbn [sel_wait] | rewrite sel_wait_eq];
    destruct ((length (ss_running s) <? n)%nat && have)%bool; try discriminate.
  pose proof (winnow_dict_spec W (ss_clock s) (ss_running s)) as Hs.
  destruct (winnow_dict W (ss_clock s) (ss_running s)) as [r'|w1 c1].
  - destruct Hs as [Hr _]. intros H. apply IH in H. cbn [poll_state ss_running] in H.
    destruct H as (j & Hj & H). exists j. split; [|exact H]. subst r'. apply filter_In in Hj. tauto.
  - intros H; inversion H; subst. destruct Hs as (j & Hj & H1 & _ & H3 & H4). exists j. auto.
Qed.

Section Raise.
  Variable W : world.
  Variable n : nat.
  Variables beh sml leafless : list nat.

  (* only parents with leaf pairs get a process *)
  Definition procs_have_leaves (s : sel_state) : Prop :=
    forall j, In j (ss_running s) -> mem (fst j) leafless = false.

  Lemma sel_step_leaves s : procs_have_leaves s -> procs_have_leaves (snd (sel_step beh sml leafless s)).
  Proof.
    intros H. unfold sel_step. destruct (choose_parent beh sml s) as [p|]; cbn [snd]; [|exact H].
    unfold start_state. destruct (mem p leafless) eqn:E; [exact H|].
    intros j Hj. cbn [ss_running] in Hj. apply in_app_or in Hj.
    destruct Hj as [Hj|[<-|[]]]; [apply H; exact Hj | exact E].
  Qed.

  Lemma sel_loop_raise_leaves fuel dfuel : forall outer s w c,
    loop_inv beh sml s -> procs_have_leaves s ->
    fst (sel_loop outer fuel dfuel W n (length beh + length sml) beh sml leafless s) = PRaised w c ->
    mem w leafless = false.
  Proof.
    induction outer as [|o IH]; intros s w c Hi Hl;
      destruct (length beh + length sml <=? length (ss_started s))%nat eqn:En.
    - rewrite sel_loop_done by exact En. unfold drain.
      destruct (sel_wait false dfuel W 1 true s) as [r|s'] eqn:Ew; cbn [fst]; [|discriminate].
      intros ->. apply sel_wait_raise in Ew. destruct Ew as (j & Hj & <- & _). apply Hl. exact Hj.
    - rewrite sel_loop_out_of_fuel by exact En. discriminate.
    - rewrite sel_loop_done by exact En. unfold drain.
      destruct (sel_wait false dfuel W 1 true s) as [r|s'] eqn:Ew; cbn [fst]; [|discriminate].
      intros ->. apply sel_wait_raise in Ew. destruct Ew as (j & Hj & <- & _). apply Hl. exact Hj.
    - rewrite sel_loop_step by exact En.
      pose proof (sel_step_inv beh sml leafless s Hi) as Hi1.
      pose proof (sel_step_leaves s Hl) as Hl1.
      destruct (sel_wait true fuel W n (fst (sel_step beh sml leafless s)) (snd (sel_step beh sml leafless s)))
        as [r|s'] eqn:Ew.
      + cbn [fst]. intros ->. apply sel_wait_raise in Ew. destruct Ew as (j & Hj & <- & _). apply Hl1. exact Hj.
      + destruct Hi1 as [Hp1 Hincl1]. apply sel_wait_inr in Ew; [|exact Hp1].
        destruct Ew as (Hi' & Hst & _ & _ & _ & Hsub). apply IH.
        * split; [exact Hi'|]. rewrite Hst. exact Hincl1.
        * intros j Hj. apply Hl1. apply Hsub. exact Hj.
  Qed.
End Raise.

Lemma loop_inv_init beh sml : loop_inv beh sml sel_init.
Proof. split; [apply pool_inv_init | intros p []]. Qed.

(* ---- the full statement of the scheduler (Props/C14.v: c14_selection_scheduler) *)
Theorem selection_scheduler : forall (W : world) (n : nat) (behemoths smaller leafless : list nat),
  (1 <= n)%nat -> NoDup (behemoths ++ smaller) ->
  let parents := behemoths ++ smaller in
  let r := run_selection_pool W n behemoths smaller leafless in
  fst r <> PHang /\
  (fst r = POk ->
     Permutation (ss_started (snd r)) parents /\
     (NoDup (ss_completed (snd r)) /\ forall p, In p (ss_completed (snd r)) -> In p parents) /\
     ss_running (snd r) = [] /\
     forall p, In p parents -> mem p leafless = false -> code W p = 0%Z) /\
  (forall w c, fst r = PRaised w c ->
     In w parents /\ mem w leafless = false /\ c = code W w /\ c <> 0%Z) /\
  ((exists p, In p parents /\ mem p leafless = false /\ code W p <> 0%Z) ->
     exists w c, fst r = PRaised w c).
Proof.
  intros W n beh sml leafless Hn Hnd parents r.
  pose proof (loop_inv_init beh sml) as Hi0.
  assert (Hnh : fst r <> PHang).
  { subst r. unfold run_selection_pool, pool_fuel.
    apply (sel_loop_no_hang W n beh sml leafless Hnd Hn).
    - intros p Hp. apply list_max_ge. apply in_map. apply in_seq.
      pose proof (list_max_ge p (beh ++ sml) Hp). lia.
    - exact Hi0.
    - unfold mu. cbn. lia. }
  pose proof (sel_loop_inv_all W n beh sml leafless
                (pool_fuel W (S (list_max (beh ++ sml)))) (pool_fuel W (S (list_max (beh ++ sml))))
                (S (2 * (length beh + length sml))) sel_init Hi0)
    as Hall.
  change (wloop_inv beh sml (snd r) /\
          (fst r = POk -> (length beh + length sml <= length (ss_started (snd r)))%nat /\
                          ss_running (snd r) = [])) in Hall.
  destruct Hall as (Hinv & Hok).
  destruct (selection_pool_verdict W n beh sml leafless) as (Hsafe & Hraise). fold r in Hsafe, Hraise.
  assert (Hok' : fst r = POk ->
     Permutation (ss_started (snd r)) parents /\
     (NoDup (ss_completed (snd r)) /\ forall p, In p (ss_completed (snd r)) -> In p parents) /\
     ss_running (snd r) = [] /\
     forall p, In p parents -> mem p leafless = false -> code W p = 0%Z).
  { intros E. destruct (Hok E) as (Hlen & Hrun).
    destruct Hinv as [(Hs & Hc & Hr & Hd & Hsub & Hck) Hincl].
    assert (Hps : Permutation (ss_started (snd r)) parents).
    { apply NoDup_Permutation_bis; [exact Hs | | exact Hincl].
      unfold parents. rewrite app_length. exact Hlen. }
    split; [exact Hps|]. split; [|split; [exact Hrun|]].
    - split; [exact Hc|]. intros p Hp. apply Hincl. apply Hsub. exact Hp.
    - intros p Hp Hl. apply (Hsafe E); [|exact Hl].
      apply (Permutation_in p (Permutation_sym Hps)). exact Hp. }
  split; [exact Hnh|]. split; [exact Hok'|]. split.
  - intros w c E. destruct (Hraise w c E) as (Hw & Hc & Hnz).
    split; [apply Hinv; exact Hw|]. split; [|split; assumption].
    subst r. unfold run_selection_pool in E.
    eapply (sel_loop_raise_leaves W n beh sml leafless); [exact Hi0 | intros j [] | exact E].
  - intros (p & Hp & Hl & Hc). destruct (fst r) as [|w c|] eqn:E.
    + exfalso. apply Hc. apply Hok'; auto.
    + exists w, c. reflexivity.
    + contradiction.
Qed.

(* the same for the parents 0..k-1 split in any way into behemoths and smaller *)
Corollary selection_scheduler_partition : forall (W : world) (n k : nat) (behemoths smaller leafless : list nat),
  (1 <= n)%nat -> Permutation (behemoths ++ smaller) (seq 0 k) ->
  let r := run_selection_pool W n behemoths smaller leafless in
  fst r <> PHang /\
  (fst r = POk ->
     Permutation (ss_started (snd r)) (seq 0 k) /\
     (NoDup (ss_completed (snd r)) /\ forall p, In p (ss_completed (snd r)) -> (p < k)%nat) /\
     ss_running (snd r) = [] /\
     forall p, (p < k)%nat -> mem p leafless = false -> code W p = 0%Z) /\
  (forall w c, fst r = PRaised w c ->
     (w < k)%nat /\ mem w leafless = false /\ c = code W w /\ c <> 0%Z) /\
  ((exists p, (p < k)%nat /\ mem p leafless = false /\ code W p <> 0%Z) ->
     exists w c, fst r = PRaised w c).
Proof.
  intros W n k beh sml leafless Hn Hperm r.
  assert (Hnd : NoDup (beh ++ sml)).
  { apply (Permutation_NoDup (Permutation_sym Hperm)). apply seq_NoDup. }
  assert (Hin : forall p, In p (beh ++ sml) <-> (p < k)%nat).
  { intros p. split.
    - intros H. apply (Permutation_in p Hperm) in H. apply in_seq in H. lia.
    - intros H. apply (Permutation_in p (Permutation_sym Hperm)). apply in_seq. lia. }
  destruct (selection_scheduler W n beh sml leafless Hn Hnd) as (H1 & H2 & H3 & H4). fold r in H1, H2, H3, H4.
  split; [exact H1|]. split; [|split].
  - intros E. destruct (H2 E) as (A & B & C & D).
    split; [rewrite A; exact Hperm|]. split; [split; [apply B | intros p Hp; apply Hin; apply B; exact Hp]|]. split; [exact C|].
    intros p Hp. apply D. apply Hin. exact Hp.
  - intros w c E. destruct (H3 w c E) as (A & B). split; [apply Hin; exact A | exact B].
  - intros (p & Hp & Hl & Hc). apply H4. exists p. split; [apply Hin; exact Hp | auto].
Qed.

(* ---- the limits the scheduler is there to enforce: at most n processes, at most one
   behemoth among them -- at every state the loop can hand back *)
Section Limits.
  Variable W : world.
  Variable n : nat.
  Variables beh sml leafless : list nat.
  Hypothesis Hnd : NoDup (beh ++ sml).
  Hypothesis Hn : (1 <= n)%nat.

  Definition one_behemoth (s : sel_state) : Prop :=
    forall b1 b2, In b1 beh -> In b2 beh ->
      In b1 (map fst (ss_running s)) -> In b2 (map fst (ss_running s)) -> b1 = b2.

  Lemma choose_some_branch s p : choose_parent beh sml s = Some p ->
    (In p beh /\ behemoth_running beh s = false) \/ In p sml.
  Proof.
    unfold choose_parent, first_unstarted. intros H.
    destruct (behemoth_running beh s) eqn:Eb.
    - right. apply find_some in H. tauto.
    - destruct (find (fun p => negb (mem p (ss_started s))) beh) as [q|] eqn:Ef.
      + inversion H; subst q. left. apply find_some in Ef. tauto.
      + right. apply find_some in H. tauto.
  Qed.

  Lemma no_behemoth_running s b : pool_inv s -> behemoth_running beh s = false ->
    In b beh -> ~ In b (map fst (ss_running s)).
  Proof.
    intros (Hs & Hc & Hr & Hd & Hsub & Hck) Eb Hb Hin. apply Hd in Hin. destruct Hin as [H1 H2].
    rewrite <- not_true_iff_false in Eb. apply Eb. unfold behemoth_running.
    apply existsb_exists. exists b. split; [exact Hb|].
    apply andb_true_iff. split; [apply mem_in; exact H1 | apply negb_true_iff, mem_not_in; exact H2].
  Qed.

  Lemma step_limits s : loop_inv beh sml s -> (length (ss_running s) < n)%nat -> one_behemoth s ->
    (length (ss_running (snd (sel_step beh sml leafless s))) <= n)%nat /\
    one_behemoth (snd (sel_step beh sml leafless s)).
  Proof.
    intros [Hi Hincl] Hlen Hone. unfold sel_step.
    destruct (choose_parent beh sml s) as [p|] eqn:Ec; cbn [snd]; [|split; [lia | exact Hone]].
    unfold start_state. destruct (mem p leafless); cbn [ss_running]; [split; [lia | exact Hone]|].
    split; [rewrite app_length; cbn; lia|].
    apply choose_some_branch in Ec.
    intros b1 b2 Hb1 Hb2. cbn [ss_running]. rewrite map_app, !in_app_iff. cbn [map fst In].
    destruct Ec as [[Hpb Eb]|Hps].
    - pose proof (no_behemoth_running s b1 Hi Eb Hb1). pose proof (no_behemoth_running s b2 Hi Eb Hb2).
      intros [H1|[H1|[]]] [H2|[H2|[]]]; try contradiction. congruence.
    - assert (Hnb : ~ In p beh).
      { intros Hpb. apply NoDup_app_inv in Hnd. destruct Hnd as (_ & _ & Hdis). exact (Hdis p Hpb Hps). }
      intros [H1|[H1|[]]] [H2|[H2|[]]]; try (subst; contradiction). apply Hone; assumption.
  Qed.

  Lemma one_behemoth_sub s s' : (forall j, In j (ss_running s') -> In j (ss_running s)) ->
    one_behemoth s -> one_behemoth s'.
  Proof.
    intros Hsub Hone b1 b2 Hb1 Hb2 H1 H2. apply Hone; try assumption.
    - apply in_map_iff in H1. destruct H1 as (j & <- & Hj). apply in_map. apply Hsub. exact Hj.
    - apply in_map_iff in H2. destruct H2 as (j & <- & Hj). apply in_map. apply Hsub. exact Hj.
  Qed.

  Lemma sel_loop_limits fuel dfuel : forall outer s,
    loop_inv beh sml s -> (length (ss_running s) < n)%nat -> one_behemoth s ->
    let r := sel_loop outer fuel dfuel W n (length beh + length sml) beh sml leafless s in
    (length (ss_running (snd r)) <= n)%nat /\ one_behemoth (snd r).
  Proof.
    assert (Hdrain : forall s, loop_inv beh sml s -> (length (ss_running s) < n)%nat -> one_behemoth s ->
              (length (ss_running (snd (drain W dfuel s))) <= n)%nat /\ one_behemoth (snd (drain W dfuel s))).
    { intros s Hi Hlen Hone.
      destruct (drain_facts W beh sml dfuel s Hi) as (_ & _ & _ & _ & Hsub & Hle).
      split; [lia | exact (one_behemoth_sub s _ Hsub Hone)]. }
    induction outer as [|o IH]; intros s Hi Hlen Hone;
      destruct (length beh + length sml <=? length (ss_started s))%nat eqn:En.
    - rewrite sel_loop_done by exact En. apply Hdrain; assumption.
    - rewrite sel_loop_out_of_fuel by exact En. cbn. split; [lia | exact Hone].
    - rewrite sel_loop_done by exact En. apply Hdrain; assumption.
    - rewrite sel_loop_step by exact En.
      pose proof (sel_step_inv beh sml leafless s Hi) as Hi1.
      destruct (step_limits s Hi Hlen Hone) as [Hlen1 Hone1].
      destruct (sel_wait true fuel W n (fst (sel_step beh sml leafless s)) (snd (sel_step beh sml leafless s)))
        as [r|s'] eqn:Ew; [cbn [snd]; split; assumption|].
      destruct Hi1 as [Hp1 Hincl1]. apply sel_wait_inr in Ew; [|exact Hp1].
      destruct Ew as (Hi' & Hst & _ & _ & Hlt & Hsub). apply IH.
      + split; [exact Hi'|]. rewrite Hst. exact Hincl1.
      + exact Hlt.
      + exact (one_behemoth_sub _ s' Hsub Hone1).
  Qed.
End Limits.

(* ---- the pool invariant as a theorem about every state of the outer loop: stop the outer loop
   after any number `outer` of iterations (the state at that loop head comes back with PHang),
   give the inner loops any fuel (a starved inner loop hands back the state right after the
   start), give the final drain no fuel (the state at the exit of the outer loop comes back) *)
Theorem pool_invariant : forall (W : world) (n : nat) (behemoths smaller leafless : list nat) (outer fuel : nat),
  let s := snd (sel_loop outer fuel 0 W n (length behemoths + length smaller) behemoths smaller leafless sel_init) in
  pool_inv s /\ (forall p, In p (ss_started s) -> In p (behemoths ++ smaller)).
Proof.
  intros W n beh sml leafless outer fuel.
  exact (sel_loop_heads W n beh sml leafless fuel outer sel_init (loop_inv_init beh sml)).
Qed.

(* ... and what is left of it once the final drain has run (any fuel): the final drain pops
   workers without adding them to completed_parents, so only one direction survives *)
Theorem pool_invariant_after_drain :
  forall (W : world) (n : nat) (behemoths smaller leafless : list nat) (outer fuel dfuel : nat),
  let s := snd (sel_loop outer fuel dfuel W n (length behemoths + length smaller) behemoths smaller leafless sel_init) in
  weak_inv s /\ (forall p, In p (ss_started s) -> In p (behemoths ++ smaller)).
Proof.
  intros W n beh sml leafless outer fuel dfuel.
  exact (proj1 (sel_loop_inv_all W n beh sml leafless fuel dfuel outer sel_init (loop_inv_init beh sml))).
Qed.

(* the converse direction is really lost: one parent, one worker still running when the outer
   loop ends; after the run it is started, popped -- and not in completed_parents *)
Example final_drain_does_not_complete :
  let W := {| code := fun _ => 0%Z; dur := fun _ => 3%nat |} in
  let r := run_selection_pool W 2 [] [0%nat] [] in
  fst r = POk /\ ss_started (snd r) = [0%nat] /\ ss_completed (snd r) = [] /\ ss_running (snd r) = [].
Proof. vm_compute. repeat split; reflexivity. Qed.

Theorem scheduler_limits : forall (W : world) (n : nat) (behemoths smaller leafless : list nat) (outer fuel dfuel : nat),
  (1 <= n)%nat -> NoDup (behemoths ++ smaller) ->
  let s := snd (sel_loop outer fuel dfuel W n (length behemoths + length smaller) behemoths smaller leafless sel_init) in
  (length (ss_running s) <= n)%nat /\
  (forall b1 b2, In b1 behemoths -> In b2 behemoths ->
     In b1 (map fst (ss_running s)) -> In b2 (map fst (ss_running s)) -> b1 = b2).
Proof.
  intros W n beh sml leafless outer fuel dfuel Hn Hnd.
  apply (sel_loop_limits W n beh sml leafless Hnd Hn fuel dfuel outer sel_init (loop_inv_init beh sml)).
  - cbn. lia.
  - intros b1 b2 _ _ [].
Qed.

(* without the hypothesis NoDup the loop does hang: a parent listed twice can be started only
   once, so len(started_parents) never reaches len(parent_list) *)
Lemma duplicate_parent_hangs :
  fst (run_selection_pool {| code := fun _ => 0%Z; dur := fun _ => 1%nat |} 2 [] [0; 0]%nat []) = PHang.
Proof. vm_compute. reflexivity. Qed.

(* C04: when no worker fails, every schedule (world, bound) ends cleanly with the same set of
   parents started, nothing left in process_dict and every parent that was given a process exited
   with code 0 (so it set output_dict[parent] before it exited) -- output_dict has an entry for
   exactly the parents of parent_list, whatever the completion order.  (Stated with `started`
   and an empty process_dict: completed_parents is NOT the whole parent list at the end, see
   final_drain_does_not_complete.) *)
Theorem selection_schedule_independent :
  forall (W1 W2 : world) (n1 n2 : nat) (behemoths smaller leafless : list nat),
  (1 <= n1)%nat -> (1 <= n2)%nat -> NoDup (behemoths ++ smaller) ->
  (forall p, In p (behemoths ++ smaller) -> mem p leafless = false -> code W1 p = 0%Z) ->
  (forall p, In p (behemoths ++ smaller) -> mem p leafless = false -> code W2 p = 0%Z) ->
  let r1 := run_selection_pool W1 n1 behemoths smaller leafless in
  let r2 := run_selection_pool W2 n2 behemoths smaller leafless in
  fst r1 = POk /\ fst r2 = POk /\
  Permutation (ss_started (snd r1)) (behemoths ++ smaller) /\
  Permutation (ss_started (snd r1)) (ss_started (snd r2)) /\
  ss_running (snd r1) = [] /\ ss_running (snd r2) = [].
Proof.
  intros W1 W2 n1 n2 beh sml leafless Hn1 Hn2 Hnd Hc1 Hc2 r1 r2.
  assert (Hclean : forall W n, (1 <= n)%nat ->
            (forall p, In p (beh ++ sml) -> mem p leafless = false -> code W p = 0%Z) ->
            fst (run_selection_pool W n beh sml leafless) = POk).
  { intros W n Hn Hc. destruct (selection_scheduler W n beh sml leafless Hn Hnd) as (H1 & _ & H3 & _).
    destruct (fst (run_selection_pool W n beh sml leafless)) as [|w c|] eqn:E; [reflexivity | | contradiction].
    exfalso. destruct (H3 w c eq_refl) as (Hw & Hl & Hcw & Hnz). apply Hnz. rewrite Hcw. apply Hc; assumption. }
  pose proof (Hclean W1 n1 Hn1 Hc1) as E1. pose proof (Hclean W2 n2 Hn2 Hc2) as E2.
  destruct (selection_scheduler W1 n1 beh sml leafless Hn1 Hnd) as (_ & A1 & _).
  destruct (selection_scheduler W2 n2 beh sml leafless Hn2 Hnd) as (_ & A2 & _).
  destruct (A1 E1) as (B1 & _ & R1 & _). destruct (A2 E2) as (B2 & _ & R2 & _).
  split; [exact E1|]. split; [exact E2|]. split; [exact B1|].
  split; [eapply Permutation_trans; [exact B1 | apply Permutation_sym; exact B2]|].
  split; [exact R1 | exact R2].
Qed.
