(* backfill_assignments (Model/Tree.v: backfill): the levels missing from a cell's record are
   filled, from the leaves upward, with the recorded parent of the level below.
   Exported for C01 / C17:
     backfill_spec     what any successful backfill returns (present levels untouched, a filled
                       level = parent of the level below in the result), the only error is E_KEY
     backfill_fills    on an accepted tree, a record that holds the leaf and otherwise only true
                       ancestors of that leaf comes back holding the ancestor at EVERY level *)
From Coq Require Import ZArith List Bool Lia.
From CTM Require Import Base.Sx Base.ListX Base.SortX Model.Tree Proofs.TreeP.
Import ListNotations.
Open Scope Z_scope.

Lemma backfill_from_spec (t : tree) k : forall rec rec', (k <= length rec)%nat ->
  backfill_from t k rec = TOk rec' ->
  length rec' = length rec /\
  (forall j, (k <= j)%nat -> nth j rec' None = nth j rec None) /\
  (forall j a, nth j rec None = Some a -> nth j rec' None = Some a) /\
  (forall j, (j < k)%nat -> nth j rec None = None ->
     nth j rec' None = match nth (S j) rec' None with
                       | Some c => parent_of (nth j t []) c
                       | None => None
                       end).
Proof.
  induction k as [|j0 IH]; intros rec rec' Hk E.
  - cbn in E. inversion E; subst. repeat split; try reflexivity; try tauto. intros j Hj. lia.
  - cbn [backfill_from] in E. destruct (nth j0 rec None) as [a0|] eqn:E0.
    + destruct (IH rec rec' ltac:(lia) E) as (L & U & P & F). split; [exact L|]. split; [intros j Hj; apply U; lia|].
      split; [exact P|]. intros j Hj Hn. destruct (Nat.eq_dec j j0) as [->|Hne]; [congruence | apply F; [lia | exact Hn]].
    + destruct (nth (S j0) rec None) as [c|] eqn:E1.
      * destruct (parent_of (nth j0 t []) c) as [p|] eqn:Ep; [|discriminate].
        assert (R : forall j, nth j (replace_nth j0 (Some p) rec) None = if (j =? j0)%nat then Some p else nth j rec None).
        { intros j. apply nth_replace_nth. lia. }
        destruct (IH (replace_nth j0 (Some p) rec) rec' ltac:(rewrite replace_nth_length; lia) E) as (L & U & P & F).
        rewrite replace_nth_length in L. split; [exact L|].
        split; [intros j Hj; rewrite U by lia; rewrite R; replace (j =? j0)%nat with false by (symmetry; apply Nat.eqb_neq; lia); reflexivity|].
        split.
        { intros j a Hj. apply P. rewrite R. destruct (j =? j0)%nat eqn:Ej; [|exact Hj].
          apply Nat.eqb_eq in Ej. subst j. congruence. }
        intros j Hj Hn. destruct (Nat.eq_dec j j0) as [->|Hne].
        -- rewrite (U j0) by lia. rewrite (U (S j0)) by lia. rewrite !R, Nat.eqb_refl.
           replace (S j0 =? j0)%nat with false by (symmetry; apply Nat.eqb_neq; lia). rewrite E1. symmetry. exact Ep.
        -- apply F; [lia|]. rewrite R. replace (j =? j0)%nat with false by (symmetry; apply Nat.eqb_neq; lia). exact Hn.
      * destruct (IH rec rec' ltac:(lia) E) as (L & U & P & F). split; [exact L|]. split; [intros j Hj; apply U; lia|].
        split; [exact P|]. intros j Hj Hn. destruct (Nat.eq_dec j j0) as [->|Hne]; [|apply F; [lia | exact Hn]].
        rewrite (U j0) by lia. rewrite (U (S j0)) by lia. rewrite E0, E1. reflexivity.
Qed.

Lemma backfill_from_err (t : tree) k : forall rec c, backfill_from t k rec = TErr c -> c = E_KEY.
Proof.
  induction k as [|j0 IH]; intros rec c E; [discriminate|]. cbn [backfill_from] in E.
  destruct (nth j0 rec None); [apply (IH _ _ E)|]. destruct (nth (S j0) rec None) as [c0|]; [|apply (IH _ _ E)].
  destruct (parent_of (nth j0 t []) c0); [apply (IH _ _ E) | inversion E; reflexivity].
Qed.

Theorem backfill_spec (t : tree) rec : length rec = length t ->
  (forall rec', backfill t rec = TOk rec' ->
     length rec' = length rec /\
     (forall j a, nth j rec None = Some a -> nth j rec' None = Some a) /\
     (forall j, (S j < length t)%nat -> nth j rec None = None ->
        nth j rec' None = match nth (S j) rec' None with
                          | Some c => parent_of (nth j t []) c
                          | None => None
                          end) /\
     nth (length t - 1) rec' None = nth (length t - 1) rec None) /\
  (forall c, backfill t rec = TErr c -> c = E_KEY).
Proof.
  intros L. split; [|intros c; apply backfill_from_err].
  intros rec' E. unfold backfill in E. destruct (backfill_from_spec t (length t - 1)%nat rec rec' ltac:(lia) E) as (L' & U & P & F).
  split; [exact L'|]. split; [exact P|]. split; [intros j Hj; apply F; lia | apply U; lia].
Qed.

(* every level of an accepted tree holds an ancestor of a leaf *)
Lemma ancestor_at_exists t li x k : validate t = true -> (li < length t)%nat -> In x (nodes (nth li t [])) ->
  (k <= li)%nat -> exists a, ancestor_at t li x k = Some a.
Proof.
  intros V Hli Hx Hk. destruct (Nat.eq_dec k li) as [->|Hne]; [exists x; apply ancestor_at_self|].
  pose proof (ancestors_levels t li x V Hli Hx) as E.
  assert (Hin : In k (map fst (ancestors t li x))).
  { rewrite E. apply -> in_rev. apply in_seq. lia. }
  apply in_map_iff in Hin. destruct Hin as ([k' a] & Ek & Hin). cbn in Ek. subst k'.
  exists a. apply ancestor_at_in; [lia | exact Hin].
Qed.

Lemma backfill_from_fills (t : tree) (anc : nat -> option node) :
  (forall j, (S j < length t)%nat -> anc j = match anc (S j) with Some c => parent_of (nth j t []) c | None => None end) ->
  (forall j, (j < length t)%nat -> exists a, anc j = Some a) ->
  forall k rec, (k < length t)%nat -> length rec = length t ->
    (forall j, (k <= j < length t)%nat -> nth j rec None = anc j) ->
    (forall j a, (j < k)%nat -> nth j rec None = Some a -> anc j = Some a) ->
    exists rec', backfill_from t k rec = TOk rec' /\ length rec' = length t /\
      forall j, (j < length t)%nat -> nth j rec' None = anc j.
Proof.
  intros CH EX. induction k as [|j0 IH]; intros rec Hk L HI LO.
  - exists rec. split; [reflexivity|]. split; [exact L|]. intros j Hj. apply HI. lia.
  - cbn [backfill_from]. destruct (nth j0 rec None) as [a0|] eqn:E0.
    + apply IH; [lia | exact L | | intros j a Hj; apply LO; lia].
      intros j Hj. destruct (Nat.eq_dec j j0) as [->|Hne]; [|apply HI; lia].
      rewrite E0. symmetry. apply (LO j0 a0); [lia | exact E0].
    + rewrite (HI (S j0)) by lia. destruct (EX (S j0) ltac:(lia)) as [c Ec]. rewrite Ec.
      destruct (EX j0 ltac:(lia)) as [p Ep]. pose proof (CH j0 ltac:(lia)) as C. rewrite Ec, Ep in C. rewrite <- C.
      assert (R : forall j, nth j (replace_nth j0 (Some p) rec) None = if (j =? j0)%nat then Some p else nth j rec None).
      { intros j. apply nth_replace_nth. lia. }
      apply IH; [lia | rewrite replace_nth_length; exact L | |].
      * intros j Hj. rewrite R. destruct (j =? j0)%nat eqn:Ej.
        -- apply Nat.eqb_eq in Ej. subst j. symmetry. exact Ep.
        -- apply Nat.eqb_neq in Ej. apply HI. lia.
      * intros j a Hj. rewrite R. replace (j =? j0)%nat with false by (symmetry; apply Nat.eqb_neq; lia).
        apply LO. lia.
Qed.

Theorem backfill_fills t rec l : validate t = true -> wf t -> length rec = length t ->
  In l (nodes (leaf_level t)) ->
  nth (length t - 1) rec None = Some l ->
  (forall k a, (k < length t)%nat -> nth k rec None = Some a -> ancestor_at t (length t - 1) l k = Some a) ->
  exists rec', backfill t rec = TOk rec' /\ length rec' = length t /\
    forall k, (k < length t)%nat -> nth k rec' None = ancestor_at t (length t - 1) l k.
Proof.
  intros V W L Hl HL HC. pose proof (proj1 (validate_iff t) V) as (NE & _ & _).
  assert (Hn : (0 < length t)%nat) by (destruct t; [congruence | cbn; lia]).
  unfold leaf_level in Hl. rewrite last_is_nth in Hl.
  unfold backfill. apply (backfill_from_fills t (ancestor_at t (length t - 1) l)).
  - intros j Hj. apply ancestor_at_chain. lia.
  - intros j Hj. apply ancestor_at_exists; [exact V | lia | exact Hl | lia].
  - lia.
  - exact L.
  - intros j Hj. replace j with (length t - 1)%nat by lia. rewrite HL, ancestor_at_self. reflexivity.
  - intros j a Hj Hr. apply HC; [lia | exact Hr].
Qed.

Lemma nth_map_seq {A} (f : nat -> A) n k d : (k < n)%nat -> nth k (map f (seq 0 n)) d = f k.
Proof.
  intros H. rewrite (nth_indep _ d (f 0%nat)) by (rewrite map_length, seq_length; exact H).
  rewrite map_nth. rewrite seq_nth by exact H. reflexivity.
Qed.

(* the record left by mapping onto a reduced tree: the kept levels carry the ancestors of the
   chosen leaf, the dropped ones nothing *)
Definition reduced_record (t : tree) (l : node) (kept : nat -> bool) : list (option node) :=
  map (fun k => if (k =? length t - 1)%nat || kept k then ancestor_at t (length t - 1) l k else None)
      (seq 0 (length t)).

Theorem backfill_reduced t l kept : validate t = true -> wf t -> In l (nodes (leaf_level t)) ->
  backfill t (reduced_record t l kept) =
  TOk (map (fun k => ancestor_at t (length t - 1) l k) (seq 0 (length t))).
Proof.
  intros V W Hl. pose proof (proj1 (validate_iff t) V) as (NE & _ & _).
  assert (Hn : (0 < length t)%nat) by (destruct t; [congruence | cbn; lia]).
  assert (N : forall k, (k < length t)%nat ->
              nth k (reduced_record t l kept) None =
              if (k =? length t - 1)%nat || kept k then ancestor_at t (length t - 1) l k else None).
  { intros k Hk. unfold reduced_record. rewrite nth_map_seq by exact Hk. reflexivity. }
  destruct (backfill_fills t (reduced_record t l kept) l V W) as (rec' & E & L' & F).
  - unfold reduced_record. rewrite map_length, seq_length. reflexivity.
  - exact Hl.
  - rewrite N by lia. rewrite Nat.eqb_refl. cbn [orb]. apply ancestor_at_self.
  - intros k a Hk. rewrite N by exact Hk. destruct ((k =? length t - 1)%nat || kept k); [tauto | discriminate].
  - rewrite E. f_equal. apply (nth_ext _ _ None None); [rewrite L', map_length, seq_length; reflexivity|].
    intros k Hk. rewrite L' in Hk. rewrite F by exact Hk. rewrite nth_map_seq by exact Hk. reflexivity.
Qed.

(* ------------------------------------------------------------------ leaf lists of a reduced tree *)
(* the descendant leaves of every remaining node are the same leaves as before the drop *)
Lemma up_levels_last lis : forall n, drops_ok n lis -> up_levels lis (n - length lis - 1) = (n - 1)%nat.
Proof.
  induction lis as [|li rest IH]; intros n OK; cbn [up_levels length]; [lia|].
  destruct OK as [Hli OK]. replace (n - S (length rest) - 1)%nat with (n - 1 - length rest - 1)%nat by lia.
  rewrite (IH _ OK). unfold up_level. replace (n - 1 - 1 <? li)%nat with false by (symmetry; apply Nat.ltb_ge; lia). lia.
Qed.

Lemma up_levels_lt lis : forall n k, drops_ok n lis -> (k < n - length lis)%nat -> (up_levels lis k < n)%nat.
Proof.
  induction lis as [|li rest IH]; intros n k OK Hk; cbn [up_levels length] in *; [lia|].
  destruct OK as [Hli OK]. pose proof (IH (n - 1)%nat k OK ltac:(lia)) as H. unfold up_level.
  destruct (up_levels rest k <? li)%nat; lia.
Qed.

Theorem drop_levels_leaves lis t t' : validate t = true -> wf t -> drops_ok (length t) lis ->
  drop_levels t lis = TOk t' ->
  forall k x l, (k < length t')%nat ->
    (In l (leaves_of t' k x) <-> In l (leaves_of t (up_levels lis k) x)).
Proof.
  intros V W OK E k x l Hk.
  destruct (drop_levels_preserve lis t V W OK) as (t2 & E2 & V' & W' & L' & _ & _ & _ & A & _).
  rewrite E in E2. inversion E2; subst t2. clear E2.
  rewrite (leaves_of_ancestor t' V' W' k x l Hk).
  rewrite (leaves_of_ancestor t V W (up_levels lis k) x l) by (apply up_levels_lt; [exact OK | lia]).
  rewrite A. rewrite L'. rewrite (up_levels_last lis (length t) OK). reflexivity.
Qed.

Corollary drop_level_leaves t li t' : validate t = true -> wf t -> (S li < length t)%nat ->
  drop_level t li = TOk t' ->
  forall k x l, (k < length t')%nat ->
    (In l (leaves_of t' k x) <-> In l (leaves_of t (up_level li k) x)).
Proof.
  intros V W H E. apply (drop_levels_leaves [li] t t' V W); [cbn; tauto|]. cbn [drop_levels]. rewrite E. reflexivity.
Qed.
