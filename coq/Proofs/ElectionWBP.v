(* Lemmas about the table primitives of Model/Election.v: upd, write_back, regroup. *)
From Coq Require Import ZArith List Bool Lia Arith.
From CTM Require Import Base.Sx Base.ListX Base.SortX Model.Tree Model.Election.
Import ListNotations.
Open Scope Z_scope.

Definition cellrec (res : table) (i k : nat) : option rec := nth k (nth i res []) None.

Lemma upd_length {A} (l : list A) i x : length (upd l i x) = length l.
Proof. revert i. induction l as [|h t IH]; intros [|i]; cbn; auto. Qed.

Lemma nth_upd_eq {A} (l : list A) i x d : (i < length l)%nat -> nth i (upd l i x) d = x.
Proof. revert i. induction l as [|h t IH]; intros [|i] H; cbn in *; try lia; auto. apply IH. lia. Qed.

Lemma nth_upd_neq {A} (l : list A) i j x d : i <> j -> nth j (upd l i x) d = nth j l d.
Proof.
  revert i j. induction l as [|h t IH]; intros [|i] [|j] H; cbn; auto; try congruence.
Qed.

Lemma upd_out {A} (l : list A) i x : (length l <= i)%nat -> upd l i x = l.
Proof. revert i. induction l as [|h t IH]; intros [|i] H; cbn in *; auto; try lia. f_equal. apply IH. lia. Qed.

Definition wb_step (li : nat) (acc : table) (ir : nat * rec) : table :=
  upd acc (fst ir) (upd (nth (fst ir) acc []) li (Some (snd ir))).

Lemma write_back_unfold res li idx rs :
  write_back res li idx rs = fold_left (wb_step li) (combine idx rs) res.
Proof. reflexivity. Qed.

Lemma wb_step_length li acc ir : length (wb_step li acc ir) = length acc.
Proof. unfold wb_step. apply upd_length. Qed.

Lemma wb_step_row_length li acc ir i :
  length (nth i (wb_step li acc ir) []) = length (nth i acc []).
Proof.
  unfold wb_step. destruct (Nat.eq_dec (fst ir) i) as [E|E].
  - subst. destruct (Nat.lt_ge_cases (fst ir) (length acc)) as [H|H].
    + rewrite nth_upd_eq by exact H. apply upd_length.
    + rewrite upd_out by exact H. reflexivity.
  - rewrite nth_upd_neq by exact E. reflexivity.
Qed.

Lemma wb_step_other_col li acc ir i k : k <> li -> cellrec (wb_step li acc ir) i k = cellrec acc i k.
Proof.
  intros Hk. unfold cellrec, wb_step. destruct (Nat.eq_dec (fst ir) i) as [E|E].
  - subst. destruct (Nat.lt_ge_cases (fst ir) (length acc)) as [H|H].
    + rewrite nth_upd_eq by exact H. apply nth_upd_neq. congruence.
    + rewrite upd_out by exact H. reflexivity.
  - rewrite nth_upd_neq by exact E. reflexivity.
Qed.

Lemma wb_step_other_row li acc ir i k : fst ir <> i -> cellrec (wb_step li acc ir) i k = cellrec acc i k.
Proof. intros E. unfold cellrec, wb_step. rewrite nth_upd_neq by exact E. reflexivity. Qed.

Lemma wb_step_hit li acc ir :
  (fst ir < length acc)%nat -> (li < length (nth (fst ir) acc []))%nat ->
  cellrec (wb_step li acc ir) (fst ir) li = Some (snd ir).
Proof.
  intros H1 H2. unfold cellrec, wb_step. rewrite nth_upd_eq by exact H1. apply nth_upd_eq. exact H2.
Qed.

Lemma fold_wb_length li irs res : length (fold_left (wb_step li) irs res) = length res.
Proof. revert res. induction irs as [|ir t IH]; intros res; cbn; [reflexivity|]. rewrite IH. apply wb_step_length. Qed.

Lemma fold_wb_row_length li irs res i :
  length (nth i (fold_left (wb_step li) irs res) []) = length (nth i res []).
Proof.
  revert res. induction irs as [|ir t IH]; intros res; cbn; [reflexivity|].
  rewrite IH. apply wb_step_row_length.
Qed.

Lemma fold_wb_other_col li irs res i k : k <> li ->
  cellrec (fold_left (wb_step li) irs res) i k = cellrec res i k.
Proof.
  intros Hk. revert res. induction irs as [|ir t IH]; intros res; cbn [fold_left]; [reflexivity|].
  rewrite IH. apply wb_step_other_col. exact Hk.
Qed.

Lemma fold_wb_other_row li irs res i k : ~ In i (map fst irs) ->
  cellrec (fold_left (wb_step li) irs res) i k = cellrec res i k.
Proof.
  revert res. induction irs as [|ir t IH]; intros res Hn; cbn [fold_left]; [reflexivity|].
  cbn [map In] in Hn. rewrite IH by tauto. apply wb_step_other_row. tauto.
Qed.

Lemma fold_wb_hit li irs res i r :
  NoDup (map fst irs) -> In (i, r) irs ->
  (i < length res)%nat -> (li < length (nth i res []))%nat ->
  cellrec (fold_left (wb_step li) irs res) i li = Some r.
Proof.
  revert res. induction irs as [|ir t IH]; intros res ND Hin H1 H2; [destruct Hin|].
  cbn [fold_left]. cbn in ND. inversion ND as [|? ? Hnotin ND']; subst.
  destruct Hin as [E | Hin].
  - subst ir. rewrite fold_wb_other_row by exact Hnotin.
    apply (wb_step_hit li res (i, r)); assumption.
  - apply IH; auto.
    + rewrite wb_step_length. exact H1.
    + rewrite wb_step_row_length. exact H2.
Qed.

(* ---------- regroup ---------- *)
Lemma distinct_in x l : In x (distinct l) <-> In x l.
Proof.
  induction l as [|y t IH]; cbn; [tauto|].
  rewrite filter_In, IH. split.
  - intros [H | [H _]]; auto.
  - intros [H | H]; [auto|].
    destruct (Z.eq_dec y x) as [E|E]; [auto|]. right. split; [exact H|].
    apply negb_true_iff. apply Z.eqb_neq. exact E.
Qed.

Lemma distinct_nodup l : NoDup (distinct l).
Proof.
  induction l as [|y t IH]; cbn; [constructor|].
  constructor.
  - rewrite filter_In. intros [_ H]. rewrite Z.eqb_refl in H. discriminate.
  - apply NoDup_filter. exact IH.
Qed.

Lemma zassoc_map_key {A} (f : Z -> A) (keys : list Z) c :
  zassoc c (map (fun k => (k, f k)) keys) = if zmem c keys then Some (f c) else None.
Proof.
  induction keys as [|k t IH]; cbn; [reflexivity|].
  destruct (c =? k) eqn:E.
  - apply Z.eqb_eq in E. subst. reflexivity.
  - cbn. exact IH.
Qed.

Lemma zassoc_app {A} c (l1 l2 : list (Z * A)) :
  zassoc c (l1 ++ l2) = match zassoc c l1 with Some v => Some v | None => zassoc c l2 end.
Proof.
  induction l1 as [|[k v] t IH]; cbn; [reflexivity|].
  destruct (c =? k); [reflexivity | exact IH].
Qed.

Definition rows_of (c : node) (idx : list nat) (rs : list rec) : list nat :=
  map fst (filter (fun ir => asg (snd ir) =? c) (combine idx rs)).

Lemma lookup_regroup idx rs pa c :
  lookup_pa (regroup idx rs ++ pa) c =
  if zmem c (map asg rs) then rows_of c idx rs else lookup_pa pa c.
Proof.
  unfold lookup_pa, regroup. rewrite zassoc_app.
  rewrite (zassoc_map_key (fun c => map fst (filter (fun ir => asg (snd ir) =? c) (combine idx rs)))).
  assert (E : zmem c (distinct (map asg rs)) = zmem c (map asg rs)).
  { destruct (zmem c (map asg rs)) eqn:E1.
    - apply zmem_in. apply distinct_in. apply zmem_in. exact E1.
    - apply zmem_false. rewrite distinct_in. apply zmem_false. exact E1. }
  rewrite E. destruct (zmem c (map asg rs)); reflexivity.
Qed.

Lemma in_rows_of c idx rs i :
  In i (rows_of c idx rs) <-> exists r, In (i, r) (combine idx rs) /\ asg r = c.
Proof.
  unfold rows_of. rewrite in_map_iff. split.
  - intros ([i' r] & E & H). cbn in E. subst i'. apply filter_In in H. destruct H as [H1 H2].
    cbn in H2. apply Z.eqb_eq in H2. eauto.
  - intros (r & H1 & H2). exists (i, r). split; [reflexivity|]. apply filter_In. split; [exact H1|].
    cbn. apply Z.eqb_eq. exact H2.
Qed.

Lemma map_fst_filter_nodup {A B} (f : A * B -> bool) (l : list (A * B)) :
  NoDup (map fst l) -> NoDup (map fst (filter f l)).
Proof.
  induction l as [|x t IH]; cbn; intros H; [constructor|].
  inversion H; subst. destruct (f x); cbn.
  - constructor; [|apply IH; assumption].
    intros Hin. apply in_map_iff in Hin. destruct Hin as (y & E & Hy). apply filter_In in Hy.
    apply H2. rewrite <- E. apply in_map. tauto.
  - apply IH. assumption.
Qed.

Lemma combine_fst_nodup {A B} (a : list A) (b : list B) : NoDup a -> NoDup (map fst (combine a b)).
Proof.
  revert b. induction a as [|x t IH]; intros b H; cbn; [constructor|].
  destruct b as [|y b']; cbn; [constructor|].
  inversion H; subst. constructor; [|apply IH; assumption].
  intros Hin. apply in_map_iff in Hin. destruct Hin as ([x' y'] & E & Hin). cbn in E. subst.
  apply in_combine_l in Hin. contradiction.
Qed.

Lemma rows_of_nodup c idx rs : NoDup idx -> NoDup (rows_of c idx rs).
Proof. intros H. unfold rows_of. apply map_fst_filter_nodup. apply combine_fst_nodup. exact H. Qed.

Lemma in_combine_nth {A B} (a : list A) (b : list B) x y :
  In (x, y) (combine a b) -> exists j, nth_error a j = Some x /\ nth_error b j = Some y.
Proof.
  revert b. induction a as [|x' t IH]; intros b H; [destruct H|].
  destruct b as [|y' b']; [destruct H|]. cbn in H. destruct H as [E | H].
  - inversion E; subst. exists 0%nat. split; reflexivity.
  - destruct (IH _ H) as (j & H1 & H2). exists (S j). split; assumption.
Qed.

Lemma combine_in_fst {A B} (a : list A) (b : list B) x :
  length a = length b -> In x a -> exists y, In (x, y) (combine a b).
Proof.
  revert b. induction a as [|x' t IH]; intros b Hl H; [destruct H|].
  destruct b as [|y' b']; [discriminate|]. cbn in *.
  destruct H as [E | H]; [subst; eauto|].
  destruct (IH b' ltac:(lia) H) as (y & Hy). eauto.
Qed.
