(* Proofs about Model/Pool.v: both exit-code inspectors satisfy one specification;
   under it the dispatch/drain loop never drops a worker unchecked, never hangs
   when every started worker terminates, and raises iff some exit code is non-zero. *)
From Coq Require Import ZArith List Bool Lia.
From CTM Require Import Base.Sx Model.Pool.
Import ListNotations.

Definition unfinished (W : world) (t : nat) (j : job) : bool := negb (finished W t j).

Lemma filter_rev_x {A} (f : A -> bool) l : filter f (rev l) = rev (filter f l).
Proof.
  induction l as [|a l IH]; cbn; [reflexivity|].
  rewrite filter_app, IH. cbn. destruct (f a); cbn; [reflexivity | apply app_nil_r].
Qed.

(* what a poll does, whichever inspector is used *)
Definition winnow_spec (winnow : world -> nat -> list job -> wres (list job)) : Prop :=
  forall W t l,
    match winnow W t l with
    | WOk l' => l' = filter (unfinished W t) l /\
                (forall j, In j l -> finished W t j = true -> code W (fst j) = 0%Z)
    | WRaise w c => exists j, In j l /\ fst j = w /\ finished W t j = true /\
                              c = code W w /\ c <> 0%Z
    end.

Lemma scan_back_spec W t rl keep :
  match scan_back W t rl keep with
  | WOk k => k = rev (filter (unfinished W t) rl) ++ keep /\
             (forall j, In j rl -> finished W t j = true -> code W (fst j) = 0%Z)
  | WRaise w c => exists j, In j rl /\ fst j = w /\ finished W t j = true /\
                            c = code W w /\ c <> 0%Z
  end.
Proof.
  revert keep. induction rl as [|j r IH]; intros keep; cbn.
  - split; [reflexivity | intros j []].
  - unfold unfinished at 1. destruct (finished W t j) eqn:Ef; cbn.
    + destruct (code W (fst j) =? 0)%Z eqn:Ec.
      * apply Z.eqb_eq in Ec. specialize (IH keep).
        destruct (scan_back W t r keep) as [k|w c].
        -- destruct IH as [Hk Hz]. split; [exact Hk|].
           intros j' [<-|Hin] Hf; [exact Ec | apply Hz; assumption].
        -- destruct IH as (j' & Hin & H1 & H2 & H3 & H4).
           exists j'. repeat split; try assumption. right; exact Hin.
      * apply Z.eqb_neq in Ec. exists j. repeat split; try assumption. left; reflexivity.
    + specialize (IH (j :: keep)).
      destruct (scan_back W t r (j :: keep)) as [k|w c].
      * destruct IH as [Hk Hz]. split.
        -- rewrite Hk. rewrite <- app_assoc. reflexivity.
        -- intros j' [<-|Hin] Hf; [congruence | apply Hz; assumption].
      * destruct IH as (j' & Hin & H1 & H2 & H3 & H4).
        exists j'. repeat split; try assumption. right; exact Hin.
Qed.

Lemma winnow_list_spec : winnow_spec winnow_list.
Proof.
  intros W t l. unfold winnow_list.
  pose proof (scan_back_spec W t (rev l) []) as H.
  destruct (scan_back W t (rev l) []) as [k|w c].
  - destruct H as [Hk Hz]. split.
    + rewrite Hk, app_nil_r, filter_rev_x, rev_involutive. reflexivity.
    + intros j Hin. apply Hz. apply in_rev in Hin. exact Hin.
  - destruct H as (j & Hin & H). exists j. split; [apply in_rev; exact Hin | exact H].
Qed.

Lemma winnow_dict_spec : winnow_spec winnow_dict.
Proof.
  intros W t l. induction l as [|j r IH]; cbn.
  - split; [reflexivity | intros j []].
  - unfold unfinished at 1. destruct (finished W t j) eqn:Ef; cbn.
    + destruct (code W (fst j) =? 0)%Z eqn:Ec.
      * apply Z.eqb_eq in Ec. destruct (winnow_dict W t r) as [k|w c].
        -- destruct IH as [Hk Hz]. split; [exact Hk|].
           intros j' [<-|Hin] Hf; [exact Ec | apply Hz; assumption].
        -- destruct IH as (j' & Hin & H). exists j'. split; [right; exact Hin | exact H].
      * apply Z.eqb_neq in Ec. exists j. repeat split; try assumption. left; reflexivity.
    + destruct (winnow_dict W t r) as [k|w c].
      * destruct IH as [Hk Hz]. split; [rewrite Hk; reflexivity|].
        intros j' [<-|Hin] Hf; [congruence | apply Hz; assumption].
      * destruct IH as (j' & Hin & H). exists j'. split; [right; exact Hin | exact H].
Qed.

(* the list inspector raises on the LAST failed worker of the list, the dict
   inspector on the FIRST: which failure is reported differs, that one is reported
   does not *)
Example winnow_order_differs :
  let W := {| code := fun w => Z.of_nat w; dur := fun _ => O |} in
  winnow_list W 0 [(1, 0); (2, 0)]%nat = WRaise 2%nat 2%Z /\
  winnow_dict W 0 [(1, 0); (2, 0)]%nat = WRaise 1%nat 1%Z.
Proof. split; reflexivity. Qed.

Lemma filter_none {A} (f : A -> bool) l : (forall x, In x l -> f x = false) -> filter f l = [].
Proof.
  induction l as [|a l IH]; intros H; cbn; [reflexivity|].
  rewrite (H a (or_introl eq_refl)). apply IH. intros x Hx. apply H. right; exact Hx.
Qed.

Lemma list_max_ge x l : In x l -> (x <= list_max l)%nat.
Proof.
  induction l as [|y r IH]; cbn; [intros []|].
  intros [->|H]; [lia | specialize (IH H); lia].
Qed.

Section Loop.
  Variable winnow : world -> nat -> list job -> wres (list job).
  Hypothesis Hspec : winnow_spec winnow.

  Lemma wait_inr fuel W b : forall running t log r' t' log',
    wait_below winnow fuel W b running t log = inr (r', t', log') ->
    (length r' < b)%nat /\ (t <= t')%nat /\
    (forall j, In j r' -> In j running) /\
    (forall j, In j running -> In j r' \/ code W (fst j) = 0%Z).
  Proof.
    induction fuel as [|f IH]; intros running t log r' t' log'; cbn [wait_below].
    - destruct (Nat.ltb _ b) eqn:E; [|discriminate].
      intros H; inversion H; subst. apply Nat.ltb_lt in E.
      repeat split; auto.
    - destruct (Nat.ltb _ b) eqn:E.
      + intros H; inversion H; subst. apply Nat.ltb_lt in E. repeat split; auto.
      + pose proof (Hspec W t running) as Hs.
        destruct (winnow W t running) as [r1|w c]; [|discriminate].
        destruct Hs as [Hr1 Hz]. intros H. apply IH in H.
        destruct H as (Hlen & Ht & Hsub & Hcov). subst r1.
        repeat split; [exact Hlen | lia | |].
        * intros j Hj. apply Hsub in Hj. apply filter_In in Hj. tauto.
        * intros j Hj. destruct (finished W t j) eqn:Ef.
          -- right. apply Hz; assumption.
          -- apply Hcov. apply filter_In. split; [exact Hj|]. unfold unfinished. rewrite Ef. reflexivity.
  Qed.

  Lemma wait_raise fuel W b : forall running t log w c lg,
    wait_below winnow fuel W b running t log = inl (PRaised w c, lg) ->
    exists j, In j running /\ fst j = w /\ c = code W w /\ c <> 0%Z.
  Proof.
    induction fuel as [|f IH]; intros running t log w c lg; cbn [wait_below].
    - destruct (Nat.ltb _ b); discriminate.
    - destruct (Nat.ltb _ b); [discriminate|].
      pose proof (Hspec W t running) as Hs.
      destruct (winnow W t running) as [r1|w1 c1].
      + destruct Hs as [Hr1 _]. intros H. apply IH in H.
        destruct H as (j & Hj & H). exists j. split; [|exact H].
        subst r1. apply filter_In in Hj. tauto.
      + intros H; inversion H; subst.
        destruct Hs as (j & Hj & H1 & _ & H3 & H4). exists j. auto.
  Qed.

  Lemma wait_never_ok fuel W b : forall running t log lg,
    wait_below winnow fuel W b running t log <> inl (POk, lg).
  Proof.
    induction fuel as [|f IH]; intros running t log lg; cbn [wait_below].
    - destruct (Nat.ltb _ b); discriminate.
    - destruct (Nat.ltb _ b); [discriminate|].
      destruct (winnow W t running); [apply IH | discriminate].
  Qed.

  (* f + 1 polls suffice when every running job terminates within f polls *)
  Lemma wait_no_hang W b : (1 <= b)%nat -> forall f running t log lg,
    (forall j, In j running -> (snd j + dur W (fst j) <= t + f)%nat) ->
    wait_below winnow (S f) W b running t log <> inl (PHang, lg).
  Proof.
    intros Hb. induction f as [|f IH]; intros running t log lg Hdur.
    - cbn [wait_below]. destruct (Nat.ltb _ b); [discriminate|].
      pose proof (Hspec W t running) as Hs.
      destruct (winnow W t running) as [r1|w c]; [|discriminate].
      destruct Hs as [Hr1 _].
      assert (r1 = []) as ->.
      { subst r1. apply filter_none. intros j Hj. specialize (Hdur j Hj).
        unfold unfinished, finished. apply negb_false_iff, Nat.leb_le. lia. }
      cbn [wait_below length]. destruct b; [lia | discriminate].
    - cbn [wait_below]. destruct (Nat.ltb _ b); [discriminate|].
      pose proof (Hspec W t running) as Hs.
      destruct (winnow W t running) as [r1|w c]; [|discriminate].
      destruct Hs as [Hr1 _]. apply IH.
      intros j Hj. subst r1. apply filter_In in Hj. destruct Hj as [Hj Hu].
      specialize (Hdur j Hj). lia.
  Qed.
End Loop.

Section Dispatch.
  Variable winnow : world -> nat -> list job -> wres (list job).
  Hypothesis Hspec : winnow_spec winnow.

  (* Ok at the end of the drain: every worker ever handed to the loop has code 0 *)
  Lemma dispatch_ok fuel W n : forall todo running t log lg,
    dispatch_loop winnow fuel W n todo running t log = (POk, lg) ->
    forall w, In w todo \/ In w (map fst running) -> code W w = 0%Z.
  Proof.
    induction todo as [|w0 rest IH]; intros running t log lg; cbn [dispatch_loop].
    - destruct (wait_below winnow fuel W 1 running t log) as [[r l']|[[r' t'] log']] eqn:E.
      + intros H. inversion H; subst. exfalso. eapply wait_never_ok; eauto.
      + intros _ w [[]|Hw]. apply (wait_inr winnow Hspec) in E.
        destruct E as (Hlen & _ & _ & Hcov).
        apply in_map_iff in Hw. destruct Hw as (j & <- & Hj).
        destruct (Hcov j Hj) as [Hin|Hz]; [|exact Hz].
        destruct r'; [contradiction | cbn in Hlen; lia].
    - destruct (wait_below winnow fuel W n (running ++ [(w0, t)]) t (log ++ [EStart w0]))
        as [[r l']|[[r' t'] log']] eqn:E.
      + intros H. inversion H; subst. exfalso. eapply wait_never_ok; eauto.
      + intros H w Hw. specialize (IH _ _ _ _ H).
        apply (wait_inr winnow Hspec) in E. destruct E as (_ & _ & _ & Hcov).
        assert (Hj : In w rest \/ exists j, In j (running ++ [(w0, t)]) /\ fst j = w).
        { destruct Hw as [[<-|Hr]|Hr].
          - right. exists (w0, t). split; [apply in_or_app; right; left; reflexivity | reflexivity].
          - left; exact Hr.
          - right. apply in_map_iff in Hr. destruct Hr as (j & <- & Hj).
            exists j. split; [apply in_or_app; left; exact Hj | reflexivity]. }
        destruct Hj as [Hr|(j & Hj & <-)].
        * apply IH. left; exact Hr.
        * destruct (Hcov j Hj) as [Hin|Hz]; [|exact Hz].
          apply IH. right. apply in_map. exact Hin.
  Qed.

  (* a raise names a worker that was handed to the loop, and its non-zero code *)
  Lemma dispatch_raise fuel W n : forall todo running t log w c lg,
    dispatch_loop winnow fuel W n todo running t log = (PRaised w c, lg) ->
    (In w todo \/ In w (map fst running)) /\ c = code W w /\ c <> 0%Z.
  Proof.
    induction todo as [|w0 rest IH]; intros running t log w c lg; cbn [dispatch_loop].
    - destruct (wait_below winnow fuel W 1 running t log) as [[r l']|[[r' t'] log']] eqn:E.
      + intros H. inversion H; subst. apply (wait_raise winnow Hspec) in E.
        destruct E as (j & Hj & <- & Hc & Hnz). split; [|split; assumption].
        right. apply in_map. exact Hj.
      + discriminate.
    - destruct (wait_below winnow fuel W n (running ++ [(w0, t)]) t (log ++ [EStart w0]))
        as [[r l']|[[r' t'] log']] eqn:E.
      + intros H. inversion H; subst. apply (wait_raise winnow Hspec) in E.
        destruct E as (j & Hj & <- & Hc & Hnz). split; [|split; assumption].
        apply in_app_or in Hj. destruct Hj as [Hj|[<-|[]]].
        * right. apply in_map. exact Hj.
        * left. left. reflexivity.
      + intros H. apply IH in H. destruct H as (Hin & Hc & Hnz). split; [|split; assumption].
        apply (wait_inr winnow Hspec) in E. destruct E as (_ & _ & Hsub & _).
        destruct Hin as [Hr|Hr]; [left; right; exact Hr|].
        apply in_map_iff in Hr. destruct Hr as (j & <- & Hj). apply Hsub in Hj.
        apply in_app_or in Hj. destruct Hj as [Hj|[<-|[]]].
        * right. apply in_map. exact Hj.
        * left. left. reflexivity.
  Qed.

  (* no hang: m bounds every duration, fuel = m + 1, at least one slot *)
  Lemma dispatch_no_hang W n m : (1 <= n)%nat -> forall todo running t log,
    (forall w, In w todo -> (dur W w <= m)%nat) ->
    (forall j, In j running -> (snd j <= t)%nat /\ (dur W (fst j) <= m)%nat) ->
    fst (dispatch_loop winnow (S m) W n todo running t log) <> PHang.
  Proof.
    intros Hn. induction todo as [|w0 rest IH]; intros running t log Htodo Hrun; cbn [dispatch_loop].
    - destruct (wait_below winnow (S m) W 1 running t log) as [[r l']|[[r' t'] log']] eqn:E.
      + try rewrite E; cbn. intros ->. revert E. apply (wait_no_hang winnow Hspec); [lia|].
        intros j Hj. destruct (Hrun j Hj). lia.
      + try rewrite E; cbn. discriminate.
    - match goal with |- context [wait_below ?a ?b ?c ?d ?e ?f ?g] =>
        destruct (wait_below a b c d e f g) as [[r l']|[[r' t'] log']] eqn:E end.
      + try rewrite E; cbn. intros ->. revert E. apply (wait_no_hang winnow Hspec); [lia|].
        intros j Hj. apply in_app_or in Hj. destruct Hj as [Hj|[<-|[]]].
        * destruct (Hrun j Hj). lia.
        * cbn. specialize (Htodo w0 (or_introl eq_refl)). lia.
      + try rewrite E. apply IH.
        * intros w Hw. apply Htodo. right; exact Hw.
        * apply (wait_inr winnow Hspec) in E. destruct E as (_ & Ht & Hsub & _).
          intros j Hj. apply Hsub in Hj. apply in_app_or in Hj. destruct Hj as [Hj|[<-|[]]].
          -- destruct (Hrun j Hj). split; lia.
          -- cbn. specialize (Htodo w0 (or_introl eq_refl)). split; lia.
  Qed.

  (* the statement of C14 for one inspector *)
  Lemma pool_verdict W n k : (1 <= n)%nat ->
    let r := fst (dispatch_loop winnow (pool_fuel W k) W n (seq 0 k) [] 0 []) in
    r <> PHang /\
    (r = POk -> forall w, (w < k)%nat -> code W w = 0%Z) /\
    (forall w c, r = PRaised w c -> (w < k)%nat /\ c = code W w /\ c <> 0%Z) /\
    ((exists w, (w < k)%nat /\ code W w <> 0%Z) -> exists w c, r = PRaised w c).
  Proof.
    intros Hn r.
    assert (Hnh : r <> PHang).
    { apply dispatch_no_hang; [exact Hn | | intros j []].
      intros w Hw. apply list_max_ge. apply in_map. exact Hw. }
    assert (Hok : r = POk -> forall w, (w < k)%nat -> code W w = 0%Z).
    { intros Hr w Hw. subst r.
      destruct (dispatch_loop winnow (pool_fuel W k) W n (seq 0 k) [] 0 []) as [r0 lg] eqn:E.
      cbn in Hr. subst r0. eapply dispatch_ok; [exact E|]. left. apply in_seq. lia. }
    assert (Hra : forall w c, r = PRaised w c -> (w < k)%nat /\ c = code W w /\ c <> 0%Z).
    { intros w c Hr. subst r.
      destruct (dispatch_loop winnow (pool_fuel W k) W n (seq 0 k) [] 0 []) as [r0 lg] eqn:E.
      cbn in Hr. subst r0. apply dispatch_raise in E. destruct E as ([Hin|[]] & Hc & Hnz).
      apply in_seq in Hin. split; [lia | split; assumption]. }
    split; [exact Hnh|]. split; [exact Hok|]. split; [exact Hra|].
    intros (w & Hw & Hc). cut (exists w c, r = PRaised w c); [tauto|]. destruct r as [|w' c'|] eqn:Er.
      + exfalso. apply Hc. apply Hok; [reflexivity | exact Hw].
      + exists w', c'. reflexivity.
      + contradiction.
  Qed.
End Dispatch.

(* ---- the theorems as stated in Props/C14.v *)
Definition stage_result (variant : bool) (W : world) (n k : nat) : pres :=
  fst (if variant then run_pool_dict W n k else run_pool_list W n k).

Theorem pool_raises : forall (variant : bool) (W : world) (n k : nat), (1 <= n)%nat ->
  stage_result variant W n k <> PHang /\
  (stage_result variant W n k = POk -> forall w, (w < k)%nat -> code W w = 0%Z) /\
  (forall w c, stage_result variant W n k = PRaised w c -> (w < k)%nat /\ c = code W w /\ c <> 0%Z) /\
  ((exists w, (w < k)%nat /\ code W w <> 0%Z) -> exists w c, stage_result variant W n k = PRaised w c).
Proof.
  intros [|] W n k Hn; unfold stage_result, run_pool_dict, run_pool_list.
  - apply (pool_verdict winnow_dict winnow_dict_spec W n k Hn).
  - apply (pool_verdict winnow_list winnow_list_spec W n k Hn).
Qed.

(* exactly one failing worker: the error names that worker's code, whatever the schedule *)
Corollary pool_single_failure : forall variant W n k w0, (1 <= n)%nat -> (w0 < k)%nat ->
  code W w0 <> 0%Z -> (forall w, (w < k)%nat -> w <> w0 -> code W w = 0%Z) ->
  stage_result variant W n k = PRaised w0 (code W w0).
Proof.
  intros variant W n k w0 Hn Hw0 Hc Hothers.
  destruct (pool_raises variant W n k Hn) as (_ & _ & Hra & Hex).
  destruct (Hex (ex_intro _ w0 (conj Hw0 Hc))) as (w & c & Hr).
  destruct (Hra w c Hr) as (Hw & Hcw & Hnz).
  destruct (Nat.eq_dec w w0) as [->|Hne].
  - rewrite Hr, Hcw. reflexivity.
  - exfalso. apply Hnz. rewrite Hcw. apply Hothers; assumption.
Qed.

(* abnormal terminations have a non-zero exit code -- os._exit(k) only when k is not a
   multiple of 256: the status is cut to its low 8 bits before the parent can see it *)
Lemma exit_code_nonzero : forall m,
  match m with
  | NoFail => exit_code_of m = 0%Z
  | Raises => exit_code_of m <> 0%Z
  | Exits k => (0 <= exit_code_of m < 256)%Z /\
               (k mod 256 <> 0 -> exit_code_of m <> 0)%Z /\
               (0 < k < 256 -> exit_code_of m = k /\ exit_code_of m <> 0)%Z
  | Killed s => ((0 < s)%Z -> (exit_code_of m < 0)%Z)
  end.
Proof.
  intros [| |k|s]; cbn [exit_code_of]; try (intros; lia).
  split; [apply Z.mod_pos_bound; lia|]. split; [auto|].
  intros Hk. rewrite Z.mod_small by lia. lia.
Qed.

(* os._exit(256): an exit the parent cannot tell from a normal one *)
Lemma exit_256_is_zero : exit_code_of (Exits 256) = 0%Z /\ exit_code_of (Exits (-1)) = 255%Z /\
  exit_code_of (Exits 3) = 3%Z /\ exit_code_of (Killed 9) = (-9)%Z /\ exit_code_of Raises = 1%Z.
Proof. repeat split; reflexivity. Qed.

(* stage level: nothing that is done only after a clean drain happens when the pool raised *)
Lemma stage_effects : forall s r,
  (r = POk -> run_stage s r = (st_pre s ++ st_post s ++ st_finally s, true)) /\
  (r <> POk -> run_stage s r = (st_pre s ++ st_finally s, false) /\
               forall e, In e (fst (run_stage s r)) -> In e (st_pre s) \/ In e (st_finally s)).
Proof.
  intros s r. split.
  - intros ->. reflexivity.
  - intros Hr. destruct r as [|w c|]; [contradiction| |]; cbn; (split; [reflexivity|]);
      intros e He; apply in_app_or in He; exact He.
Qed.

(* ---- no worker is popped unchecked: every pop recorded in the parent's log is of a
   worker whose exit code was read and found 0 *)
Definition pops_ok (W : world) (log : list pev) : Prop :=
  forall w, In (EPop w) log -> code W w = 0%Z.

Lemma popped_ok W t before :
  (forall j, In j before -> finished W t j = true -> code W (fst j) = 0%Z) ->
  pops_ok W (popped before (filter (unfinished W t) before)).
Proof.
  intros Hz w Hin. unfold popped in Hin. apply in_map_iff in Hin.
  destruct Hin as (j & Hj & Hin). inversion Hj; subst w. apply filter_In in Hin.
  destruct Hin as [Hin Hne]. apply Hz; [exact Hin|].
  destruct (finished W t j) eqn:Ef; [reflexivity|]. exfalso.
  apply negb_true_iff in Hne. rewrite <- not_true_iff_false in Hne. apply Hne.
  apply existsb_exists. exists j. split.
  - apply filter_In. split; [exact Hin|]. unfold unfinished. rewrite Ef. reflexivity.
  - apply Nat.eqb_refl.
Qed.

Lemma pops_ok_app W a b : pops_ok W a -> pops_ok W b -> pops_ok W (a ++ b).
Proof. intros Ha Hb w Hin. apply in_app_or in Hin. destruct Hin; [apply Ha | apply Hb]; assumption. Qed.

Section Pops.
  Variable winnow : world -> nat -> list job -> wres (list job).
  Hypothesis Hspec : winnow_spec winnow.

  Lemma wait_pops fuel W b : forall running t log,
    pops_ok W log ->
    pops_ok W (match wait_below winnow fuel W b running t log with
               | inl (_, lg) => lg | inr (_, _, lg) => lg end).
  Proof.
    induction fuel as [|f IH]; intros running t log Hlog; cbn [wait_below].
    - destruct (Nat.ltb _ b); exact Hlog.
    - destruct (Nat.ltb _ b); [exact Hlog|].
      pose proof (Hspec W t running) as Hs.
      destruct (winnow W t running) as [r1|w c]; [|exact Hlog].
      destruct Hs as [Hr1 Hz]. apply IH. apply pops_ok_app; [exact Hlog|].
      subst r1. apply popped_ok. exact Hz.
  Qed.

  Lemma dispatch_pops fuel W n : forall todo running t log,
    pops_ok W log -> pops_ok W (snd (dispatch_loop winnow fuel W n todo running t log)).
  Proof.
    induction todo as [|w0 rest IH]; intros running t log Hlog; cbn [dispatch_loop].
    - pose proof (wait_pops fuel W 1 running t log Hlog) as H.
      destruct (wait_below winnow fuel W 1 running t log) as [[r l']|[[r' t'] log']]; exact H.
    - assert (Hl : pops_ok W (log ++ [EStart w0])).
      { apply pops_ok_app; [exact Hlog|]. intros w [Hw|[]]. discriminate. }
      pose proof (wait_pops fuel W n (running ++ [(w0, t)]) t _ Hl) as H.
      destruct (wait_below winnow fuel W n (running ++ [(w0, t)]) t (log ++ [EStart w0]))
        as [[r l']|[[r' t'] log']]; [exact H|]. apply IH. exact H.
  Qed.
End Pops.

Theorem pool_pops_checked : forall (variant : bool) (W : world) (n k : nat),
  pops_ok W (snd (if variant then run_pool_dict W n k else run_pool_list W n k)).
Proof.
  intros [|] W n k; unfold run_pool_dict, run_pool_list.
  - apply (dispatch_pops winnow_dict winnow_dict_spec). intros w [].
  - apply (dispatch_pops winnow_list winnow_list_spec). intros w [].
Qed.

(* ---- stages as sequences of phases *)
Lemma run_phases_fail : forall phs pools,
  length pools = length phs -> (exists r, In r pools /\ r <> POk) ->
  snd (run_phases phs pools) = false.
Proof.
  induction phs as [|pre rest IH]; intros pools Hlen (r & Hin & Hr).
  - destruct pools; [destruct Hin | discriminate].
  - destruct pools as [|r0 rs]; [discriminate|]. cbn [run_phases].
    destruct r0; try reflexivity. cbn. apply IH; [cbn in Hlen; lia|].
    destruct Hin as [<-|Hin]; [contradiction|]. exists r. split; assumption.
Qed.

Lemma run_phases_ok : forall phs pools,
  length pools = length phs -> snd (run_phases phs pools) = true -> forall r, In r pools -> r = POk.
Proof.
  induction phs as [|pre rest IH]; intros pools Hlen Hok r Hin.
  - destruct pools; [destruct Hin | discriminate].
  - destruct pools as [|r0 rs]; [discriminate|]. cbn [run_phases] in Hok.
    destruct r0; try discriminate. destruct Hin as [<-|Hin]; [reflexivity|].
    cbn in Hok. apply (IH rs); [cbn in Hlen; lia | exact Hok | exact Hin].
Qed.

Lemma run_phases_effects : forall phs pools e,
  In e (fst (run_phases phs pools)) -> In e (concat phs).
Proof.
  induction phs as [|pre rest IH]; intros pools e; cbn [run_phases concat].
  - intros [].
  - destruct pools as [|[|w c|] rs]; cbn; intros H; apply in_or_app;
      try (left; exact H).
    apply in_app_or in H. destruct H as [H|H]; [left; exact H | right; eapply IH; exact H].
Qed.

Definition complete_only_in_post (s : stage_desc) : bool :=
  negb (existsb (seff_eqb SComplete) (concat (sd_phases s))) &&
  negb (existsb (seff_eqb SComplete) (sd_finally s)).

Lemma seff_eqb_eq a b : seff_eqb a b = true <-> a = b.
Proof. destruct a, b; cbn; split; intros H; try reflexivity; try discriminate. Qed.

Lemma not_existsb_complete l : existsb (seff_eqb SComplete) l = false -> ~ In SComplete l.
Proof.
  intros H Hin. rewrite <- not_true_iff_false in H. apply H. apply existsb_exists.
  exists SComplete. split; [exact Hin | reflexivity].
Qed.

Lemma stage_incomplete : forall s pools clean_ok,
  complete_only_in_post s = true ->
  snd (run_phases (sd_phases s) pools) = false ->
  let r := run_stage_desc_c s pools clean_ok in
  snd (fst r) = false /\ ~ In SComplete (fst (fst r)) /\ snd r <> ENone /\
  (clean_ok = true -> snd r = EInspector).
Proof.
  intros s pools clean_ok Hc Hf. unfold run_stage_desc_c. rewrite Hf.
  unfold complete_only_in_post in Hc. apply andb_true_iff in Hc. destruct Hc as [H1 H2].
  apply negb_true_iff in H1, H2.
  destruct clean_ok; cbn [fst snd]; (split; [reflexivity|]); split.
  - intros Hin. apply in_app_or in Hin. destruct Hin as [Hin|Hin].
    + apply run_phases_effects in Hin. exact (not_existsb_complete _ H1 Hin).
    + exact (not_existsb_complete _ H2 Hin).
  - split; [discriminate | reflexivity].
  - intros Hin. apply in_app_or in Hin. destruct Hin as [Hin|Hin].
    + apply run_phases_effects in Hin. exact (not_existsb_complete _ H1 Hin).
    + apply filter_In in Hin. destruct Hin as [Hin _]. exact (not_existsb_complete _ H2 Hin).
  - split; [|discriminate]. destruct (existsb (seff_eqb SCleanScratch) (sd_finally s)); discriminate.
Qed.

Lemma all_stages_shape : forall s, In s all_stages -> complete_only_in_post s = true.
Proof.
  intros s Hin. cbn in Hin.
  repeat (destruct Hin as [<-|Hin]; [reflexivity|]). destruct Hin.
Qed.

Definition spec_bound (p : pool_spec) : nat := let '(_, _, n, _) := p in n.
Definition spec_fails (p : pool_spec) : Prop :=
  let '(_, W, _, k) := p in exists w, (w < k)%nat /\ code W w <> 0%Z.
Definition spec_all_zero (p : pool_spec) : Prop :=
  let '(_, W, _, k) := p in forall w, (w < k)%nat -> code W w = 0%Z.

Lemma pool_result_fail p : (1 <= spec_bound p)%nat -> spec_fails p -> pool_result p <> POk.
Proof.
  destruct p as [[[variant W] n] k]. cbn. intros Hn Hf.
  destruct (pool_raises variant W n k Hn) as (_ & _ & _ & Hex).
  destruct (Hex Hf) as (w & c & Hr). unfold stage_result in Hr. rewrite Hr. discriminate.
Qed.

Lemma pool_result_ok p : (1 <= spec_bound p)%nat -> pool_result p = POk -> spec_all_zero p.
Proof.
  destruct p as [[[variant W] n] k]. cbn. intros Hn Hr.
  destruct (pool_raises variant W n k Hn) as (_ & Hok & _). apply Hok. exact Hr.
Qed.

(* C14 for the stages: a failing worker in any phase => the stage does not complete and the
   completing effect does not happen; a completed stage => every worker of every phase
   exited with code 0 *)
Theorem no_complete_output : forall s specs clean_ok,
  In s all_stages -> length specs = length (sd_phases s) ->
  Forall (fun p => (1 <= spec_bound p)%nat) specs ->
  let r := run_stage_desc_c s (map pool_result specs) clean_ok in
  ((exists p, In p specs /\ spec_fails p) ->
     snd (fst r) = false /\ ~ In SComplete (fst (fst r)) /\ snd r <> ENone) /\
  (snd (fst r) = true -> snd r = ENone /\ forall p, In p specs -> spec_all_zero p).
Proof.
  intros s specs clean_ok Hs Hlen Hb r. split.
  - intros (p & Hp & Hf).
    destruct (stage_incomplete s (map pool_result specs) clean_ok) as (H1 & H2 & H3 & _);
      [apply all_stages_shape; exact Hs| |auto].
    apply run_phases_fail; [rewrite map_length; exact Hlen|].
    exists (pool_result p). split; [apply in_map; exact Hp|].
    apply pool_result_fail; [|exact Hf]. rewrite Forall_forall in Hb. apply Hb. exact Hp.
  - intros Hok. subst r. unfold run_stage_desc_c in *.
    destruct (snd (run_phases (sd_phases s) (map pool_result specs))) eqn:E.
    + split; [reflexivity|]. intros p Hp.
      apply pool_result_ok; [rewrite Forall_forall in Hb; apply Hb; exact Hp|].
      apply (run_phases_ok (sd_phases s) (map pool_result specs)); [rewrite map_length; exact Hlen | exact E|].
      apply in_map. exact Hp.
    + destruct clean_ok; discriminate Hok.
Qed.
