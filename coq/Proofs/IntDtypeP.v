From Coq Require Import ZArith List Bool Lia.
From CTM Require Import Base.Sx Model.IntDtype.
Import ListNotations.
Open Scope Z_scope.

(* characterisation of round half even *)
Definition rhe_spec (n d r : Z) : Prop :=
  2 * Z.abs (r * d - n) < d \/ (2 * Z.abs (r * d - n) = d /\ Z.even r = true).

Lemma rhe_meets_spec n d : 0 < d -> rhe_spec n d (round_half_even (n, d)).
Proof.
  intros Hd. unfold round_half_even, rhe_spec.
  pose proof (Z.div_mod n d ltac:(lia)) as Hdm.
  pose proof (Z.mod_pos_bound n d Hd) as Hb.
  set (q := n / d) in *. set (r := n mod d) in *.
  destruct (2 * r <? d) eqn:E1.
  - apply Z.ltb_lt in E1. left. lia.
  - apply Z.ltb_ge in E1.
    destruct (d <? 2 * r) eqn:E2.
    + apply Z.ltb_lt in E2. left. lia.
    + apply Z.ltb_ge in E2.
      destruct (Z.even q) eqn:E3.
      * right. split; [lia | exact E3].
      * right. split; [lia |].
        rewrite Z.even_add. rewrite E3. reflexivity.
Qed.

Lemma round_half n d : 0 < d -> 2 * Z.abs (round_half_even (n, d) * d - n) <= d.
Proof. intros Hd. destruct (rhe_meets_spec n d Hd) as [H | [H _]]; lia. Qed.

Lemma round_same_den_mono n1 n2 d :
  0 < d -> n1 <= n2 -> round_half_even (n1, d) <= round_half_even (n2, d).
Proof.
  intros Hd Hle. unfold round_half_even.
  pose proof (Z.div_mod n1 d ltac:(lia)) as H1.
  pose proof (Z.mod_pos_bound n1 d Hd) as B1.
  pose proof (Z.div_mod n2 d ltac:(lia)) as H2.
  pose proof (Z.mod_pos_bound n2 d Hd) as B2.
  set (q1 := n1 / d) in *. set (r1 := n1 mod d) in *.
  set (q2 := n2 / d) in *. set (r2 := n2 mod d) in *.
  assert (Hq : q1 <= q2) by (subst q1 q2; apply Z.div_le_mono; lia).
  assert (Hcase : q1 = q2 \/ q1 + 1 <= q2) by lia.
  destruct Hcase as [Heq | Hlt].
  - assert (Hr : r1 <= r2) by nia.
    rewrite <- Heq.
    destruct (2 * r1 <? d) eqn:A1; destruct (2 * r2 <? d) eqn:A2;
    destruct (d <? 2 * r1) eqn:C1; destruct (d <? 2 * r2) eqn:C2;
    destruct (Z.even q1); lia.
  - destruct (2 * r1 <? d); destruct (2 * r2 <? d);
    destruct (d <? 2 * r1); destruct (d <? 2 * r2);
    destruct (Z.even q1); destruct (Z.even q2); lia.
Qed.

Lemma round_scale n d k : 0 < d -> 0 < k ->
  round_half_even (n * k, d * k) = round_half_even (n, d).
Proof.
  intros Hd Hk. unfold round_half_even.
  rewrite Z.div_mul_cancel_r by lia.
  rewrite Zmult_mod_distr_r.
  assert (E1 : (2 * (n mod d * k) <? d * k) = (2 * (n mod d) <? d)).
  { destruct (2 * (n mod d) <? d) eqn:E.
    - apply Z.ltb_lt in E. apply Z.ltb_lt. nia.
    - apply Z.ltb_ge in E. apply Z.ltb_ge. nia. }
  assert (E2 : (d * k <? 2 * (n mod d * k)) = (d <? 2 * (n mod d))).
  { destruct (d <? 2 * (n mod d)) eqn:E.
    - apply Z.ltb_lt in E. apply Z.ltb_lt. nia.
    - apply Z.ltb_ge in E. apply Z.ltb_ge. nia. }
  rewrite E1, E2. reflexivity.
Qed.

Lemma round_mono x y : 0 < snd x -> 0 < snd y -> rat_le x y ->
  round_half_even x <= round_half_even y.
Proof.
  destruct x as [n1 d1], y as [n2 d2]. unfold rat_le. cbn [fst snd].
  intros H1 H2 Hle.
  rewrite <- (round_scale n1 d1 d2) by lia.
  rewrite <- (round_scale n2 d2 d1) by lia.
  replace (d2 * d1) with (d1 * d2) by lia.
  apply round_same_den_mono; lia.
Qed.

(* first_fit returns the first candidate containing the range *)
Lemma first_fit_spec lo hi cs k0 k :
  first_fit lo hi cs k0 = Some k ->
  (k0 <= k)%nat /\ fits lo hi (nth (k - k0) cs (0, -1)) = true /\
  forall j, (j < k - k0)%nat -> fits lo hi (nth j cs (0, -1)) = false.
Proof.
  revert k0. induction cs as [|c t IH]; intros k0 H; cbn [first_fit] in H; [discriminate|].
  destruct (fits lo hi c) eqn:E.
  - inversion H; subst k. replace (k0 - k0)%nat with 0%nat by lia. cbn [nth].
    split; [lia|]. split; [exact E|]. intros j Hj; lia.
  - destruct (IH _ H) as (Hle & Hfit & Hfirst).
    split; [lia|].
    replace (k - k0)%nat with (S (k - S k0)) by lia. cbn [nth].
    split; [exact Hfit|].
    intros j Hj. destruct j as [|j]; [exact E|]. cbn [nth]. apply Hfirst. lia.
Qed.

Lemma first_fit_none lo hi cs k0 :
  first_fit lo hi cs k0 = None -> forall c, In c cs -> fits lo hi c = false.
Proof.
  revert k0. induction cs as [|c t IH]; intros k0 H c' Hin; [destruct Hin|].
  cbn [first_fit] in H. destruct (fits lo hi c) eqn:E; [discriminate|].
  destruct Hin as [<- | Hin]; [exact E | eapply IH; eauto].
Qed.

Lemma fits_iff lo hi c : fits lo hi c = true <-> fst c <= lo /\ hi <= snd c.
Proof. unfold fits. rewrite andb_true_iff, !Z.leb_le. tauto. Qed.

(* the chosen type contains the rounded bounds, and is the first that does *)
Lemma choose_sound lo hi k :
  choose_int_dtype lo hi = Some k ->
  (k < 8)%nat /\
  fst (range_of k) <= round_half_even lo /\ round_half_even hi <= snd (range_of k) /\
  forall j, (j < k)%nat ->
     ~ (fst (range_of j) <= round_half_even lo /\ round_half_even hi <= snd (range_of j)).
Proof.
  unfold choose_int_dtype, range_of. intros H.
  destruct (first_fit_spec _ _ _ _ _ H) as (_ & Hfit & Hfirst).
  rewrite Nat.sub_0_r in *.
  assert (Hk : (k < 8)%nat).
  { destruct (Nat.lt_ge_cases k 8) as [|Hge]; [assumption|].
    rewrite nth_overflow in Hfit by (cbn; lia).
    apply fits_iff in Hfit. cbn in Hfit.
    exfalso.
    (* lo <= hi is not assumed: derive the contradiction from the sentinel (0,-1)
       only when it is one; otherwise k >= 8 is still impossible because first_fit
       scans 8 candidates *)
    clear Hfirst. revert H. clear -Hge.
    unfold candidates.
    repeat (cbn [first_fit]; match goal with |- context [fits ?a ?b ?c] => destruct (fits a b c) end;
            [intros H; inversion H; lia|]).
    cbn [first_fit]. discriminate. }
  split; [exact Hk|].
  apply fits_iff in Hfit. destruct Hfit as [Ha Hb].
  split; [exact Ha|]. split; [exact Hb|].
  intros j Hj Hc. specialize (Hfirst j Hj).
  assert (fits (round_half_even lo) (round_half_even hi) (nth j candidates (0, -1)) = true)
    by (apply fits_iff; exact Hc).
  congruence.
Qed.

(* completeness: if any candidate contains the rounded range, one is chosen *)
Lemma choose_complete lo hi c :
  In c candidates -> fst c <= round_half_even lo -> round_half_even hi <= snd c ->
  exists k, choose_int_dtype lo hi = Some k.
Proof.
  intros Hin Ha Hb. unfold choose_int_dtype.
  destruct (first_fit _ _ candidates 0) eqn:E; [eauto|].
  pose proof (first_fit_none _ _ _ _ E c Hin) as Hf.
  assert (fits (round_half_even lo) (round_half_even hi) c = true) by (apply fits_iff; lia).
  congruence.
Qed.

(* every value between the bounds fits the chosen type after rounding *)
Lemma values_fit lo hi k xs :
  0 < snd lo -> 0 < snd hi ->
  choose_int_dtype lo hi = Some k ->
  Forall (fun x => 0 < snd x /\ rat_le lo x /\ rat_le x hi) xs ->
  Forall (fun r => fst (range_of k) <= r <= snd (range_of k)) (round_values xs).
Proof.
  intros Hlo Hhi Hc Hall.
  destruct (choose_sound _ _ _ Hc) as (_ & Ha & Hb & _).
  unfold round_values. rewrite Forall_map.
  eapply Forall_impl; [|exact Hall].
  intros x (Hx & H1 & H2). cbn beta.
  pose proof (round_mono lo x Hlo Hx H1).
  pose proof (round_mono x hi Hx Hhi H2).
  lia.
Qed.

Lemma round_values_length xs : length (round_values xs) = length xs.
Proof. unfold round_values. apply map_length. Qed.

Lemma round_values_half xs :
  Forall (fun x => 0 < snd x) xs ->
  Forall2 (fun x r => 2 * Z.abs (r * snd x - fst x) <= snd x) xs (round_values xs).
Proof.
  induction xs as [|[n d] t IH]; intros H; cbn; constructor.
  - inversion H; subst. cbn [fst snd] in *. apply round_half. assumption.
  - apply IH. inversion H; assumption.
Qed.

(* an integer value is left unchanged by rounding *)
Lemma round_integer z d : 0 < d -> round_half_even (z * d, d) = z.
Proof.
  intros Hd. unfold round_half_even.
  rewrite Z.div_mul by lia. rewrite Z.mod_mul by lia.
  destruct (2 * 0 <? d) eqn:E; [reflexivity|]. apply Z.ltb_ge in E. lia.
Qed.

(* ---------------- the comparison numpy really makes (finding F5) ---------------- *)
Lemma first_fit_map_ext lo hi (f : Z * Z -> Z * Z) cs k0 :
  (forall c, In c cs -> fits lo hi (f c) = fits lo hi c) ->
  first_fit lo hi (map f cs) k0 = first_fit lo hi cs k0.
Proof.
  revert k0. induction cs as [|c t IH]; intros k0 H; [reflexivity|]. cbn [map first_fit].
  rewrite (H c (or_introl eq_refl)). destruct (fits lo hi c); [reflexivity|].
  apply IH. intros c' Hc'. apply H. right. exact Hc'.
Qed.

(* away from the four float boundaries the code's choice is the exact one ... *)
Lemma choose_f_agrees mant lo hi :
  (mant = 0 \/ forall c, In c candidates -> 2 ^ mant <= snd c -> round_half_even hi <> snd c + 1) ->
  choose_int_dtype_f mant lo hi = choose_int_dtype lo hi.
Proof.
  intros H. unfold choose_int_dtype_f, choose_int_dtype, fcandidates. apply first_fit_map_ext.
  intros c Hc. unfold fits, fmax. cbn [fst snd]. f_equal.
  destruct H as [-> | H]; [reflexivity|].
  destruct (mant =? 0); [reflexivity|]. cbn [orb].
  destruct (Z.ltb_spec (snd c) (2 ^ mant)) as [Hlt | Hge]; [reflexivity|].
  specialize (H c Hc Hge).
  destruct (Z.leb_spec (round_half_even hi) (snd c + 1)), (Z.leb_spec (round_half_even hi) (snd c)); try reflexivity; lia.
Qed.

(* ... and at a boundary it is not: an upper bound of 2^32 held in float32 gets uint32 *)
Lemma choose_f_refuted :
  exists mant lo hi k, choose_int_dtype_f mant lo hi = Some k /\
     ~ (round_half_even hi <= snd (range_of k)).
Proof. exists 24, (0, 1), (4294967296, 1), 4%nat. split; [vm_compute; reflexivity | vm_compute; intros H; apply H; reflexivity]. Qed.
