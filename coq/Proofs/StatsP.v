(* Proofs about the reference-statistics model (Model/Stats.v): monoid laws and
   additivity of the summaries, safety of the work split, rows addressed by name,
   the written table equals the direct computation, truncation, merge. *)
From Coq Require Import ZArith List Bool Arith Lia Permutation Sorted.
From CTM Require Import Base.Sx Base.ListX Base.SortX Model.Tree Model.Stats.
Import ListNotations.
Open Scope Z_scope.


(* ------------------------------------------------------------------ *)
(* definitions of the specification                                    *)
Definition rect (ng : nat) (rows : list (list Z)) : Prop := Forall (fun r => length r = ng) rows.
Definition swf (ng : nat) (s : summary) : Prop :=
  length (s_sum s) = ng /\ length (s_sumsq s) = ng /\ length (s_gt0 s) = ng /\
  length (s_gt1 s) = ng /\ length (s_ge1 s) = ng.
Definition cells_rect (ng : nat) (cells : list cell) : Prop := Forall (fun c => length (snd c) = ng) cells.
Definition files_wf (ng : nat) (files : list h5ad) : Prop :=
  Forall (fun f => length (f_genes f) = ng /\ cells_rect ng (f_cells f)) files /\ genes_agree files = true.
Definition total_size (chunks : list chunk_spec) : nat := fold_right (fun c acc => (spec_size c + acc)%nat) 0%nat chunks.
Definition named (lookup : list (Z * Z)) (c : cell) : bool :=
  match dict_get (fst c) lookup with Some _ => true | None => false end.
Definition all_cells (files : list h5ad) : list cell := concat (map f_cells files).
Definition members_of (lookup : list (Z * Z)) (rs : list Z) (cells : list cell) : list (list Z) :=
  map snd (filter (fun c => match dict_get (fst c) lookup with Some r => zmem r rs | None => false end) cells).
Definition rows_under (old_c2r : list (Z * nat)) (anc : Z -> option Z) (L : Z) : list Z :=
  map (fun orow => Z.of_nat (snd orow))
      (filter (fun orow => match anc (fst orow) with Some k => k =? L | None => false end) old_c2r).

(* ------------------------------------------------------------------ *)
(* 1. monoid + additivity                                              *)
Lemma vadd_comm : forall a b, vadd a b = vadd b a.
Proof.
  induction a as [|x a IH]; intros [|y b]; cbn; try reflexivity.
  rewrite IH, Z.add_comm. reflexivity.
Qed.

Lemma vadd_assoc : forall a b c, vadd (vadd a b) c = vadd a (vadd b c).
Proof.
  induction a as [|x a IH]; intros [|y b] [|z c]; cbn; try reflexivity.
  rewrite IH, Z.add_assoc. reflexivity.
Qed.

Lemma vadd_length : forall a b, length (vadd a b) = Nat.min (length a) (length b).
Proof.
  induction a as [|x a IH]; intros [|y b]; cbn; try reflexivity.
  rewrite IH. reflexivity.
Qed.

Lemma vzero_length n : length (vzero n) = n.
Proof. apply repeat_length. Qed.

Lemma vadd_zero_l : forall n v, length v = n -> vadd (vzero n) v = v.
Proof.
  unfold vzero. induction n as [|n IH]; intros [|y v] H; cbn in *; try reflexivity; try discriminate.
  rewrite IH by lia. reflexivity.
Qed.

Lemma vadd_zero_r : forall n v, length v = n -> vadd v (vzero n) = v.
Proof. intros n v H. rewrite vadd_comm. apply vadd_zero_l. exact H. Qed.

Lemma sadd_comm : forall a b, sadd a b = sadd b a.
Proof.
  intros [n1 a1 b1 c1 d1 e1] [n2 a2 b2 c2 d2 e2]. unfold sadd; cbn.
  f_equal; try apply vadd_comm. apply Z.add_comm.
Qed.

Lemma sadd_assoc : forall a b c, sadd (sadd a b) c = sadd a (sadd b c).
Proof.
  intros [n1 a1 b1 c1 d1 e1] [n2 a2 b2 c2 d2 e2] [n3 a3 b3 c3 d3 e3]. unfold sadd; cbn.
  f_equal; try apply vadd_assoc. symmetry. apply Z.add_assoc.
Qed.

Lemma sadd_zero_l : forall ng a, swf ng a -> sadd (szero ng) a = a.
Proof.
  intros ng [n a b c d e] (H1 & H2 & H3 & H4 & H5). cbn in *. unfold sadd, szero; cbn.
  rewrite !vadd_zero_l by assumption. reflexivity.
Qed.

Lemma sadd_zero_r : forall ng a, swf ng a -> sadd a (szero ng) = a.
Proof. intros ng a H. rewrite sadd_comm. apply sadd_zero_l. exact H. Qed.

Lemma rect_map (f : Z -> Z) ng rows : rect ng rows -> rect ng (map (map f) rows).
Proof.
  unfold rect. intros H. induction H as [|r t Hr Ht IH]; cbn; constructor.
  - rewrite map_length. exact Hr.
  - exact IH.
Qed.

Lemma rect_app ng a b : rect ng a -> rect ng b -> rect ng (a ++ b).
Proof. unfold rect. intros Ha Hb. apply Forall_app. split; assumption. Qed.

Lemma colsum_length ng rows : rect ng rows -> length (colsum ng rows) = ng.
Proof.
  unfold rect, colsum. intros H. induction H as [|r t Hr Ht IH]; cbn.
  - apply vzero_length.
  - rewrite vadd_length, IH, Hr. apply Nat.min_id.
Qed.

Lemma stats_wf : forall D ng rows, rect ng rows -> swf ng (stats_of_rows D ng rows).
Proof.
  intros D ng rows H. unfold swf, stats_of_rows; cbn.
  repeat split; apply colsum_length; try apply rect_map; exact H.
Qed.

Lemma colsum_app ng a b : rect ng b -> colsum ng (a ++ b) = vadd (colsum ng a) (colsum ng b).
Proof.
  intros Hb. induction a as [|x a IH].
  - cbn. change (fold_right vadd (vzero ng) b) with (colsum ng b).
    rewrite vadd_zero_l; [reflexivity | apply colsum_length; exact Hb].
  - cbn. change (fold_right vadd (vzero ng) (a ++ b)) with (colsum ng (a ++ b)).
    change (fold_right vadd (vzero ng) a) with (colsum ng a).
    rewrite IH, vadd_assoc. reflexivity.
Qed.

Lemma stats_additive : forall D ng a b, rect ng a -> rect ng b ->
  stats_of_rows D ng (a ++ b) = sadd (stats_of_rows D ng a) (stats_of_rows D ng b).
Proof.
  intros D ng a b Ha Hb. unfold stats_of_rows, sadd; cbn.
  rewrite !map_app, !colsum_app by (try apply rect_map; exact Hb).
  rewrite app_length, Nat2Z.inj_add. reflexivity.
Qed.

Lemma vadd_swap a b x : vadd a (vadd b x) = vadd b (vadd a x).
Proof. rewrite <- !vadd_assoc. rewrite (vadd_comm a b). reflexivity. Qed.

Lemma colsum_perm ng a b : Permutation a b -> colsum ng a = colsum ng b.
Proof.
  intros H. induction H as [|x l l' Hp IH|x y l|l l' l'' H1 IH1 H2 IH2].
  - reflexivity.
  - unfold colsum in *. cbn. rewrite IH. reflexivity.
  - unfold colsum. cbn. apply vadd_swap.
  - congruence.
Qed.

Lemma stats_perm : forall D ng a b, rect ng a -> Permutation a b ->
  stats_of_rows D ng a = stats_of_rows D ng b.
Proof.
  intros D ng a b _ Hp. unfold stats_of_rows.
  rewrite (Permutation_length Hp).
  rewrite (colsum_perm ng a b Hp).
  rewrite (colsum_perm ng _ _ (Permutation_map (map sq) Hp)).
  rewrite (colsum_perm ng _ _ (Permutation_map (map ind_gt0) Hp)).
  rewrite (colsum_perm ng _ _ (Permutation_map (map (ind_gt1 D)) Hp)).
  rewrite (colsum_perm ng _ _ (Permutation_map (map (ind_ge1 D)) Hp)).
  reflexivity.
Qed.

Lemma stats_nil D ng : stats_of_rows D ng [] = szero ng.
Proof. reflexivity. Qed.


(* ------------------------------------------------------------------ *)
(* 2. work split                                                       *)
Lemma total_size_app a b : total_size (a ++ b) = (total_size a + total_size b)%nat.
Proof. unfold total_size. induction a as [|x a IH]; cbn; [reflexivity|]. rewrite IH. lia. Qed.

Lemma ceil_div_ge n p : (1 <= p)%nat -> (n <= p * ceil_div n p)%nat.
Proof.
  intros Hp. unfold ceil_div.
  assert (Hp0 : p <> 0%nat) by lia.
  pose proof (Nat.div_mod (n + p - 1) p Hp0) as H1.
  pose proof (Nat.mod_upper_bound (n + p - 1) p Hp0) as H2.
  remember ((n + p - 1) / p)%nat as q eqn:Eq.
  remember ((n + p - 1) mod p)%nat as r eqn:Er.
  nia.
Qed.

Lemma append_at_app {A} (pre : list (list A)) cur post c :
  append_at (length pre) c (pre ++ cur :: post) = Some (pre ++ (cur ++ [c]) :: post).
Proof. induction pre as [|w pre IH]; cbn; [reflexivity|]. rewrite IH. reflexivity. Qed.

Lemma concat_all_nil {A} (l : list (list A)) : Forall (fun w => w = []) l -> concat l = [].
Proof. intros H. induction H as [|w t Hw Ht IH]; cbn; [reflexivity|]. rewrite Hw, IH. reflexivity. Qed.

Lemma Forall_tl {A} (P : A -> Prop) l : Forall P l -> Forall P (tl l).
Proof. intros H. destruct H as [|x t Hx Ht]; cbn; [constructor | exact Ht]. Qed.

Lemma Forall_repeat_nil {A} k : Forall (fun w : list A => w = []) (repeat [] k).
Proof. induction k as [|k IH]; cbn; constructor; [reflexivity | exact IH]. Qed.

Lemma split_loop_inv : forall n_per p chunks i this_n pre post,
  Forall (fun c => (1 <= spec_size c)%nat) chunks ->
  length pre = i -> (i + length post = p)%nat ->
  Forall (fun w => w = []) (tl post) ->
  (i * (n_per + 1) + this_n + total_size chunks <= p * n_per)%nat ->
  exists wl, split_loop n_per chunks i this_n (pre ++ post) = Some wl /\ length wl = p /\
     concat wl = concat (pre ++ post) ++ chunks.
Proof.
  intros n_per p chunks. induction chunks as [|c t IH]; intros i this_n pre post Hsz Hpre Hlen Htl Har.
  - exists (pre ++ post). cbn. split; [reflexivity|]. split.
    + rewrite app_length. lia.
    + rewrite app_nil_r. reflexivity.
  - inversion Hsz as [|c0 t0 Hc Ht]; subst c0 t0.
    cbn [total_size fold_right] in Har.
    change (fold_right (fun c acc => (spec_size c + acc)%nat) 0%nat t) with (total_size t) in Har.
    destruct post as [|cur tl0].
    + cbn in Hlen. exfalso. nia.
    + cbn [split_loop]. subst i. rewrite append_at_app. cbv zeta.
      cbn [tl] in Htl. cbn [length] in Hlen.
      assert (Hnil : concat tl0 = []) by (apply concat_all_nil; exact Htl).
      destruct (n_per <? this_n + spec_size c)%nat eqn:E.
      * apply Nat.ltb_lt in E.
        assert (Eq : pre ++ (cur ++ [c]) :: tl0 = (pre ++ [cur ++ [c]]) ++ tl0)
          by (rewrite <- app_assoc; reflexivity).
        rewrite Eq.
        destruct (IH (S (length pre)) 0%nat (pre ++ [cur ++ [c]]) tl0) as (wl & Hwl & Hl & Hcat).
        -- exact Ht.
        -- rewrite app_length. cbn. lia.
        -- lia.
        -- apply Forall_tl. exact Htl.
        -- nia.
        -- exists wl. split; [exact Hwl|]. split; [exact Hl|].
           rewrite Hcat. rewrite !concat_app. cbn. rewrite Hnil.
           repeat rewrite app_nil_r. repeat rewrite <- app_assoc. reflexivity.
      * apply Nat.ltb_ge in E.
        destruct (IH (length pre) (this_n + spec_size c)%nat pre ((cur ++ [c]) :: tl0)) as (wl & Hwl & Hl & Hcat).
        -- exact Ht.
        -- reflexivity.
        -- cbn [length]. lia.
        -- cbn [tl]. exact Htl.
        -- lia.
        -- exists wl. split; [exact Hwl|]. split; [exact Hl|].
           rewrite Hcat. rewrite !concat_app. cbn. rewrite Hnil.
           repeat rewrite app_nil_r. repeat rewrite <- app_assoc. reflexivity.
Qed.

Lemma work_split_safe : forall p chunks,
  (1 <= p)%nat -> Forall (fun c => (1 <= spec_size c)%nat) chunks ->
  exists wl, work_split (total_size chunks) p chunks = Some wl /\ length wl = p /\ concat wl = chunks.
Proof.
  intros p chunks Hp Hsz. unfold work_split.
  destruct (split_loop_inv (ceil_div (total_size chunks) p) p chunks 0%nat 0%nat [] (repeat [] p))
    as (wl & Hwl & Hl & Hcat).
  - exact Hsz.
  - reflexivity.
  - rewrite repeat_length. lia.
  - apply Forall_tl. apply Forall_repeat_nil.
  - pose proof (ceil_div_ge (total_size chunks) p Hp). lia.
  - cbn [app] in Hwl, Hcat. exists wl. split; [exact Hwl|]. split; [exact Hl|].
    rewrite Hcat. rewrite concat_all_nil by apply Forall_repeat_nil. reflexivity.
Qed.


(* ------------------------------------------------------------------ *)
(* 3. rows addressed by name                                           *)
Lemma map_fst_combine {A B} (a : list A) : forall (b : list B),
  length a = length b -> map fst (combine a b) = a.
Proof.
  induction a as [|x a IH]; intros [|y b] H; cbn in *; try reflexivity; try discriminate.
  rewrite IH by lia. reflexivity.
Qed.

Lemma map_snd_combine {A B} (a : list A) : forall (b : list B),
  length a = length b -> map snd (combine a b) = b.
Proof.
  induction a as [|x a IH]; intros [|y b] H; cbn in *; try reflexivity; try discriminate.
  rewrite IH by lia. reflexivity.
Qed.

Lemma zassoc_combine_seq : forall (l : list Z) a n c r,
  zassoc c (combine l (seq a n)) = Some r -> (a <= r)%nat /\ nth_error l (r - a) = Some c.
Proof.
  induction l as [|x t IH]; intros a n c r H; [cbn in H; discriminate|].
  destruct n as [|n]; [cbn in H; discriminate|].
  cbn [seq combine zassoc] in H.
  destruct (c =? x) eqn:E.
  - apply Z.eqb_eq in E. inversion H; subst. split; [lia|].
    replace (r - r)%nat with 0%nat by lia. reflexivity.
  - apply IH in H. destruct H as [H1 H2]. split; [lia|].
    replace (r - a)%nat with (S (r - S a)) by lia. exact H2.
Qed.

Lemma zassoc_combine_seq_nth : forall (l : list Z) a c i,
  NoDup l -> nth_error l i = Some c -> zassoc c (combine l (seq a (length l))) = Some (a + i)%nat.
Proof.
  induction l as [|x t IH]; intros a c i ND Hn; [destruct i; discriminate|].
  inversion ND as [|x0 t0 Hx Ht]; subst x0 t0.
  cbn [length seq combine zassoc].
  destruct i as [|i].
  - cbn in Hn. inversion Hn; subst. rewrite Z.eqb_refl. f_equal. lia.
  - cbn in Hn. assert (Hc : c <> x).
    { intros ->. apply Hx. eapply nth_error_In. exact Hn. }
    apply Z.eqb_neq in Hc. rewrite Hc. rewrite (IH (S a) c i Ht Hn). f_equal. lia.
Qed.

Lemma zassoc_combine_seq_lt (l : list Z) n c r :
  zassoc c (combine l (seq 0 n)) = Some r -> (r < n)%nat.
Proof.
  intros H. apply zassoc_in in H. apply in_combine_r in H. apply in_seq in H. lia.
Qed.

Lemma cell_to_row_ok c2r : forall c2c,
  (forall c cl, In (c, cl) c2c -> exists r, zassoc cl c2r = Some r) ->
  exists lookup, cell_to_row c2r c2c = Some lookup /\
    Forall2 (fun x y => fst y = fst x /\
                        (fun cl w => exists r, zassoc cl c2r = Some r /\ w = Z.of_nat r) (snd x) (snd y))
            c2c lookup.
Proof.
  induction c2c as [|[c cl] t IH]; intros H.
  - exists []. split; [reflexivity | constructor].
  - destruct (H c cl (or_introl eq_refl)) as (r & Hr).
    destruct IH as (t' & Ht' & HF).
    { intros c' cl' Hin. apply (H c' cl'). right. exact Hin. }
    exists ((c, Z.of_nat r) :: t'). cbn. rewrite Hr, Ht'. split; [reflexivity|].
    constructor; [|exact HF]. cbn. split; [reflexivity|]. exists r. split; [exact Hr | reflexivity].
Qed.

Lemma Forall2_rev' {A B} (R : A -> B -> Prop) l1 l2 : Forall2 R l1 l2 -> Forall2 R (rev l1) (rev l2).
Proof.
  intros H. induction H as [|x y l1 l2 Hxy H IH]; cbn; [constructor|].
  apply Forall2_app; [exact IH | constructor; [exact Hxy | constructor]].
Qed.

Lemma zassoc_Forall2 {A B} (R : A -> B -> Prop) (a : list (Z * A)) (b : list (Z * B)) k :
  Forall2 (fun x y => fst y = fst x /\ R (snd x) (snd y)) a b ->
  match zassoc k a with
  | Some v => exists w, zassoc k b = Some w /\ R v w
  | None => zassoc k b = None
  end.
Proof.
  intros H. induction H as [|[k1 v1] [k2 v2] l1 l2 [Hk Hv] H IH]; cbn; [reflexivity|].
  cbn in Hk, Hv. subst k2. destruct (k =? k1).
  - exists v2. split; [reflexivity | exact Hv].
  - exact IH.
Qed.

Lemma in_cell_to_cluster leaf c cl : In (c, cl) (cell_to_cluster leaf) -> In cl (map fst leaf).
Proof.
  unfold cell_to_cluster. intros H. apply in_flat_map in H. destruct H as (nc & Hnc & Hin).
  apply in_map_iff in Hin. destruct Hin as (c' & Heq & _). inversion Heq; subst.
  apply in_map. exact Hnc.
Qed.

Lemma c2r_generic (l : list Z) : NoDup l ->
  let c2r := combine l (seq 0 (length l)) in
  (forall c, In c l -> exists r, zassoc c c2r = Some r /\ (r < length l)%nat /\ nth_error l r = Some c) /\
  (forall c1 c2 r, zassoc c1 c2r = Some r -> zassoc c2 c2r = Some r -> c1 = c2).
Proof.
  intros ND c2r. split.
  - intros c Hc. apply In_nth_error in Hc. destruct Hc as (r & Hr). exists r.
    split; [|split].
    + unfold c2r. rewrite (zassoc_combine_seq_nth l 0%nat c r ND Hr). reflexivity.
    + apply nth_error_Some. congruence.
    + exact Hr.
  - intros c1 c2 r H1 H2. apply zassoc_combine_seq in H1, H2.
    destruct H1 as [_ H1]. destruct H2 as [_ H2]. congruence.
Qed.

Lemma cluster_to_row_eq clusters :
  cluster_to_row clusters = combine (zsort clusters) (seq 0 (length (zsort clusters))).
Proof. unfold cluster_to_row. rewrite zsort_length. reflexivity. Qed.

Lemma rows_by_name : forall leaf, NoDup (map fst leaf) ->
  let clusters := map fst leaf in
  let c2r := cluster_to_row clusters in
  map fst c2r = zsort clusters /\ map snd c2r = seq 0 (length clusters) /\
  (forall c, In c clusters -> exists r, zassoc c c2r = Some r /\ (r < length clusters)%nat /\
                                        nth_error (zsort clusters) r = Some c) /\
  (forall c1 c2 r, zassoc c1 c2r = Some r -> zassoc c2 c2r = Some r -> c1 = c2) /\
  exists lookup, cell_to_row c2r (cell_to_cluster leaf) = Some lookup /\
     Forall (fun cr => 0 <= snd cr < Z.of_nat (length leaf) /\ snd cr <> bad_row_idx) lookup /\
     (forall cell cl, dict_get cell (cell_to_cluster leaf) = Some cl ->
        exists r, zassoc cl c2r = Some r /\ dict_get cell lookup = Some (Z.of_nat r)) /\
     (forall cell, dict_get cell (cell_to_cluster leaf) = None -> dict_get cell lookup = None).
Proof.
  intros leaf ND clusters c2r.
  assert (NDs : NoDup (zsort clusters)) by (apply zsort_nodup; exact ND).
  destruct (c2r_generic (zsort clusters) NDs) as [G1 G2].
  assert (Ec : c2r = combine (zsort clusters) (seq 0 (length (zsort clusters))))
    by apply cluster_to_row_eq.
  rewrite <- Ec in G1, G2.
  assert (Hin : forall c, In c clusters -> exists r, zassoc c c2r = Some r /\ (r < length clusters)%nat /\
                                        nth_error (zsort clusters) r = Some c).
  { intros c Hc. destruct (G1 c) as (r & R1 & R2 & R3); [apply zsort_in; exact Hc|].
    exists r. rewrite zsort_length in R2. auto. }
  split; [|split; [|split; [|split]]].
  - rewrite Ec. apply map_fst_combine. rewrite seq_length. reflexivity.
  - rewrite Ec. rewrite zsort_length. apply map_snd_combine. rewrite seq_length, zsort_length. reflexivity.
  - exact Hin.
  - exact G2.
  - destruct (cell_to_row_ok c2r (cell_to_cluster leaf)) as (lookup & Hl & HF).
    { intros c cl H. apply in_cell_to_cluster in H. destruct (Hin cl H) as (r & Hr & _). exists r. exact Hr. }
    pose (R := fun (cl w : Z) => exists r, zassoc cl c2r = Some r /\ w = Z.of_nat r).
    assert (HF' : Forall2 (fun x y : Z * Z => fst y = fst x /\ R (snd x) (snd y)) (cell_to_cluster leaf) lookup)
      by exact HF.
    exists lookup. split; [exact Hl|]. split; [|split].
    + clear Hl HF'. induction HF as [|x y l1 l2 [_ (r & Hr & Hy)] HF IH]; [constructor|].
      constructor; [|exact IH].
      rewrite Hy. unfold c2r, cluster_to_row in Hr. apply zassoc_combine_seq_lt in Hr.
      unfold clusters in Hr. rewrite map_length in Hr. unfold bad_row_idx. lia.
    + intros cell cl Hd. unfold dict_get in *.
      pose proof (zassoc_Forall2 R _ _ cell (Forall2_rev' _ _ _ HF')) as HH. unfold R in HH.
      rewrite Hd in HH. destruct HH as (w & Hw & r & Hr & Ew). exists r. subst w. auto.
    + intros cell Hd. unfold dict_get in *.
      pose proof (zassoc_Forall2 R _ _ cell (Forall2_rev' _ _ _ HF')) as HH. unfold R in HH.
      rewrite Hd in HH. exact HH.
Qed.


(* ------------------------------------------------------------------ *)
(* 4a. tables                                                          *)
Definition twf (nc ng : nat) (t : table) : Prop := length t = nc /\ Forall (swf ng) t.

Lemma list_nth_error_ext {A} : forall (a b : list A),
  (forall i, nth_error a i = nth_error b i) -> a = b.
Proof.
  induction a as [|x a IH]; intros [|y b] H.
  - reflexivity.
  - specialize (H 0%nat). discriminate.
  - specialize (H 0%nat). discriminate.
  - pose proof (H 0%nat) as H0. cbn in H0. inversion H0; subst. f_equal.
    apply IH. intros i. apply (H (S i)).
Qed.

Lemma nth_error_seq' : forall n a r, (r < n)%nat -> nth_error (seq a n) r = Some (a + r)%nat.
Proof.
  induction n as [|n IH]; intros a r H; [lia|].
  destruct r as [|r]; cbn; [f_equal; lia|]. rewrite IH by lia. f_equal. lia.
Qed.

Lemma Forall_firstn' {A} (P : A -> Prop) : forall n l, Forall P l -> Forall P (firstn n l).
Proof.
  induction n as [|n IH]; intros l H; cbn; [constructor|].
  destruct H as [|x t Hx Ht]; constructor; [exact Hx | apply IH; exact Ht].
Qed.

Lemma Forall_skipn' {A} (P : A -> Prop) : forall n l, Forall P l -> Forall P (skipn n l).
Proof.
  induction n as [|n IH]; intros l H; cbn; [exact H|].
  destruct H as [|x t Hx Ht]; [constructor | apply IH; exact Ht].
Qed.

Lemma perm_filter {A} (f : A -> bool) l l' : Permutation l l' -> Permutation (filter f l) (filter f l').
Proof.
  intros H. induction H as [|x l l' Hp IH|x y l|l l' l'' H1 IH1 H2 IH2]; cbn.
  - constructor.
  - destruct (f x); [constructor|]; exact IH.
  - destruct (f x), (f y); try reflexivity. apply perm_swap.
  - eapply perm_trans; eassumption.
Qed.

Lemma sadd_wf ng a b : swf ng a -> swf ng b -> swf ng (sadd a b).
Proof.
  intros (A1 & A2 & A3 & A4 & A5) (B1 & B2 & B3 & B4 & B5). unfold swf, sadd; cbn.
  rewrite !vadd_length. rewrite A1, A2, A3, A4, A5, B1, B2, B3, B4, B5, Nat.min_id. auto.
Qed.

Lemma szero_wf ng : swf ng (szero ng).
Proof. unfold swf, szero; cbn. rewrite vzero_length. auto. Qed.

Lemma tadd_assoc : forall a b c, tadd (tadd a b) c = tadd a (tadd b c).
Proof.
  induction a as [|x a IH]; intros [|y b] [|z c]; cbn; try reflexivity.
  rewrite IH, sadd_assoc. reflexivity.
Qed.

Lemma tadd_length : forall a b, length (tadd a b) = Nat.min (length a) (length b).
Proof.
  induction a as [|x a IH]; intros [|y b]; cbn; try reflexivity.
  rewrite IH. reflexivity.
Qed.

Lemma tzero_wf nc ng : twf nc ng (tzero nc ng).
Proof.
  unfold twf, tzero. split; [apply repeat_length|].
  apply Forall_forall. intros s Hs. apply repeat_spec in Hs. subst. apply szero_wf.
Qed.

Lemma tadd_zero_l : forall nc ng t, twf nc ng t -> tadd (tzero nc ng) t = t.
Proof.
  unfold twf, tzero. induction nc as [|nc IH]; intros ng [|y t] [Hl HF]; cbn in *; try reflexivity; try discriminate.
  inversion HF as [|y0 t0 Hy Ht]; subst. rewrite IH by (split; [lia | exact Ht]).
  rewrite sadd_zero_l by exact Hy. reflexivity.
Qed.

Lemma tadd_zero_r : forall nc ng t, twf nc ng t -> tadd t (tzero nc ng) = t.
Proof.
  unfold twf, tzero. induction nc as [|nc IH]; intros ng [|y t] [Hl HF]; cbn in *; try reflexivity; try discriminate.
  inversion HF as [|y0 t0 Hy Ht]; subst. rewrite IH by (split; [lia | exact Ht]).
  rewrite sadd_zero_r by exact Hy. reflexivity.
Qed.

Lemma tadd_wf nc ng : forall a b, twf nc ng a -> twf nc ng b -> twf nc ng (tadd a b).
Proof.
  unfold twf. intros a b [La Fa] [Lb Fb]. split.
  - rewrite tadd_length, La, Lb. apply Nat.min_id.
  - clear La Lb. revert b Fb. induction Fa as [|x a Hx Ha IH]; intros b Fb; cbn; [constructor|].
    destruct Fb as [|y b Hy Hb]; constructor; [apply sadd_wf; assumption | apply IH; exact Hb].
Qed.

Lemma nth_error_tadd : forall a b r,
  nth_error (tadd a b) r =
  match nth_error a r, nth_error b r with Some x, Some y => Some (sadd x y) | _, _ => None end.
Proof.
  induction a as [|x a IH]; intros [|y b] [|r]; cbn; try reflexivity.
  - destruct (nth_error a r); reflexivity.
  - apply IH.
Qed.

(* ------------------------------------------------------------------ *)
(* 4b. the direct computation                                          *)
Lemma direct_length D nc ng lookup cells : length (direct D nc ng lookup cells) = nc.
Proof. unfold direct. rewrite map_length, seq_length. reflexivity. Qed.

Lemma direct_row : forall D nc ng lookup cells r, (r < nc)%nat ->
  nth_error (direct D nc ng lookup cells) r = Some (stats_of_rows D ng (members lookup (Z.of_nat r) cells)).
Proof.
  intros D nc ng lookup cells r H. unfold direct.
  rewrite nth_error_map, nth_error_seq' by exact H. reflexivity.
Qed.

Lemma direct_row_none D nc ng lookup cells r : (nc <= r)%nat ->
  nth_error (direct D nc ng lookup cells) r = None.
Proof. intros H. apply nth_error_None. rewrite direct_length. exact H. Qed.

Lemma members_app lookup r a b : members lookup r (a ++ b) = members lookup r a ++ members lookup r b.
Proof. unfold members. rewrite filter_app, map_app. reflexivity. Qed.

Lemma members_rect ng lookup r cells : cells_rect ng cells -> rect ng (members lookup r cells).
Proof.
  unfold cells_rect, rect, members. intros H. induction H as [|c t Hc Ht IH]; cbn; [constructor|].
  destruct (match dict_get (fst c) lookup with Some r' => r' =? r | None => false end); cbn.
  - constructor; [exact Hc | exact IH].
  - exact IH.
Qed.

Lemma cells_rect_app ng a b : cells_rect ng a -> cells_rect ng b -> cells_rect ng (a ++ b).
Proof. unfold cells_rect. intros Ha Hb. apply Forall_app. split; assumption. Qed.

Lemma direct_app D nc ng lookup a b : cells_rect ng a -> cells_rect ng b ->
  direct D nc ng lookup (a ++ b) = tadd (direct D nc ng lookup a) (direct D nc ng lookup b).
Proof.
  intros Ha Hb. unfold direct. generalize (seq 0 nc) as l.
  induction l as [|r l IH]; cbn; [reflexivity|].
  rewrite IH. f_equal. rewrite members_app. apply stats_additive; apply members_rect; assumption.
Qed.

Lemma direct_nil D nc ng lookup : direct D nc ng lookup [] = tzero nc ng.
Proof.
  unfold direct, tzero. generalize 0%nat as a.
  induction nc as [|nc IH]; intros a; cbn; [reflexivity|].
  rewrite IH. reflexivity.
Qed.

Lemma direct_wf D nc ng lookup cells : cells_rect ng cells -> twf nc ng (direct D nc ng lookup cells).
Proof.
  intros H. split; [apply direct_length|].
  apply Forall_forall. intros s Hs. unfold direct in Hs. apply in_map_iff in Hs.
  destruct Hs as (r & <- & _). apply stats_wf. apply members_rect. exact H.
Qed.

Lemma direct_perm : forall D nc ng lookup cells cells', cells_rect ng cells -> Permutation cells cells' ->
  direct D nc ng lookup cells = direct D nc ng lookup cells'.
Proof.
  intros D nc ng lookup cells cells' Hr Hp. unfold direct. apply map_ext. intros r.
  apply stats_perm; [apply members_rect; exact Hr|].
  unfold members. apply Permutation_map. apply perm_filter. exact Hp.
Qed.

Lemma members_named lookup r cells : members lookup r cells = members lookup r (filter (named lookup) cells).
Proof.
  unfold members, named. induction cells as [|c t IH]; cbn; [reflexivity|].
  destruct (dict_get (fst c) lookup) as [r'|] eqn:E; cbn.
  - rewrite E. destruct (r' =? r); cbn; rewrite IH; reflexivity.
  - exact IH.
Qed.

Lemma direct_ignores_unnamed : forall D nc ng lookup cells,
  direct D nc ng lookup cells = direct D nc ng lookup (filter (named lookup) cells).
Proof.
  intros D nc ng lookup cells. unfold direct. apply map_ext. intros r.
  rewrite <- members_named. reflexivity.
Qed.

(* ------------------------------------------------------------------ *)
(* 4c. _process_chunk                                                  *)
Lemma upd_add_spec : forall u s buf, (u < length buf)%nat ->
  exists b', upd_add u s buf = Some b' /\ length b' = length buf /\
    forall r, nth_error b' r =
              if Nat.eqb r u then option_map (fun b => sadd b s) (nth_error buf r) else nth_error buf r.
Proof.
  induction u as [|k IH]; intros s [|b t] H; cbn in H; try lia.
  - exists (sadd b s :: t). split; [reflexivity|]. split; [reflexivity|].
    intros [|r]; reflexivity.
  - destruct (IH s t) as (t' & H1 & H2 & H3); [lia|].
    exists (b :: t'). cbn. rewrite H1. split; [reflexivity|]. split; [lia|].
    intros [|r]; cbn; [reflexivity | apply H3].
Qed.

Lemma select_members lookup u : forall chunk, u <> bad_row_idx ->
  select u (cluster_chunk lookup chunk) chunk = members lookup u chunk.
Proof.
  intros chunk Hu. unfold cluster_chunk, members. induction chunk as [|c t IH]; cbn; [reflexivity|].
  destruct (dict_get (fst c) lookup) as [r'|].
  - destruct (r' =? u); cbn; rewrite IH; reflexivity.
  - assert (E : bad_row_idx =? u = false) by (apply Z.eqb_neq; congruence).
    rewrite E. exact IH.
Qed.

Lemma select_not_in u : forall cc chunk, ~ In u cc -> select u cc chunk = [].
Proof.
  induction cc as [|r cc IH]; intros [|c ch] H; cbn; try reflexivity.
  assert (E : r =? u = false) by (apply Z.eqb_neq; intros ->; apply H; left; reflexivity).
  rewrite E. apply IH. intros Hin. apply H. right. exact Hin.
Qed.

Lemma zmem_cons x y l : zmem x (y :: l) = (x =? y) || zmem x l.
Proof. reflexivity. Qed.

Lemma pc_loop_spec D ng cc chunk : forall us buf,
  NoDup us -> (forall u, In u us -> u = bad_row_idx \/ 0 <= u < Z.of_nat (length buf)) ->
  exists buf', pc_loop D ng us cc chunk buf = Some buf' /\ length buf' = length buf /\
    forall r, nth_error buf' r =
      option_map (fun b => if zmem (Z.of_nat r) us
                           then sadd b (stats_of_rows D ng (select (Z.of_nat r) cc chunk)) else b)
                 (nth_error buf r).
Proof.
  induction us as [|u t IH]; intros buf ND Hr.
  - exists buf. cbn. split; [reflexivity|]. split; [reflexivity|].
    intros r. destruct (nth_error buf r); reflexivity.
  - inversion ND as [|u0 t0 Hu Ht]; subst u0 t0. cbn [pc_loop].
    destruct (u =? bad_row_idx) eqn:Eb.
    + apply Z.eqb_eq in Eb.
      destruct (IH buf Ht) as (buf' & H1 & H2 & H3).
      { intros v Hv. apply Hr. right. exact Hv. }
      exists buf'. split; [exact H1|]. split; [exact H2|].
      intros r. rewrite H3, zmem_cons.
      assert (E : Z.of_nat r =? u = false) by (apply Z.eqb_neq; unfold bad_row_idx in Eb; lia).
      rewrite E. reflexivity.
    + apply Z.eqb_neq in Eb.
      destruct (Hr u (or_introl eq_refl)) as [Hb|Hu2]; [contradiction|].
      destruct (u <? 0) eqn:El; [apply Z.ltb_lt in El; lia|].
      destruct (upd_add_spec (Z.to_nat u) (stats_of_rows D ng (select u cc chunk)) buf)
        as (b' & U1 & U2 & U3); [lia|].
      rewrite U1.
      destruct (IH b' Ht) as (buf' & H1 & H2 & H3).
      { rewrite U2. intros v Hv. apply Hr. right. exact Hv. }
      exists buf'. split; [exact H1|]. split; [congruence|].
      intros r. rewrite H3, U3, zmem_cons.
      destruct (Nat.eqb r (Z.to_nat u)) eqn:Er.
      * apply Nat.eqb_eq in Er. assert (Eu : Z.of_nat r = u) by lia.
        rewrite Eu, Z.eqb_refl. cbn [orb].
        assert (Em : zmem u t = false) by (apply zmem_false; exact Hu).
        rewrite Em. destruct (nth_error buf r); reflexivity.
      * apply Nat.eqb_neq in Er.
        assert (E : Z.of_nat r =? u = false) by (apply Z.eqb_neq; lia).
        rewrite E. cbn [orb]. reflexivity.
Qed.

Definition lookup_in (nc : nat) (lookup : list (Z * Z)) : Prop :=
  forall c r, dict_get c lookup = Some r -> 0 <= r < Z.of_nat nc.

Lemma process_chunk_spec D nc ng lookup buf chunk :
  twf nc ng buf -> lookup_in nc lookup ->
  process_chunk D ng lookup buf chunk = Some (tadd buf (direct D nc ng lookup chunk)).
Proof.
  intros [Hl HF] Hlk. unfold process_chunk. cbv zeta.
  set (cc := cluster_chunk lookup chunk).
  destruct (pc_loop_spec D ng cc chunk (unique_sorted cc) buf) as (buf' & H1 & H2 & H3).
  - unfold unique_sorted. apply NoDup_nodup.
  - intros u Hu. unfold unique_sorted in Hu. apply (proj1 (nodup_In _ _ _)) in Hu. apply (proj1 (zsort_in _ _)) in Hu.
    unfold cc, cluster_chunk in Hu. apply in_map_iff in Hu. destruct Hu as (c & Hc & _).
    destruct (dict_get (fst c) lookup) as [r|] eqn:E.
    + right. subst u. rewrite Hl. eapply Hlk. exact E.
    + left. symmetry. exact Hc.
  - rewrite H1. f_equal. apply list_nth_error_ext. intros r.
    rewrite H3, nth_error_tadd.
    destruct (nth_error buf r) as [b|] eqn:Eb; cbn; [|reflexivity].
    assert (Hr : (r < nc)%nat) by (rewrite <- Hl; apply nth_error_Some; congruence).
    rewrite direct_row by exact Hr. f_equal.
    assert (Hnb : Z.of_nat r <> bad_row_idx) by (unfold bad_row_idx; lia).
    rewrite <- (select_members lookup (Z.of_nat r) chunk Hnb). fold cc.
    destruct (zmem (Z.of_nat r) (unique_sorted cc)) eqn:Em; [reflexivity|].
    apply zmem_false in Em.
    assert (Hn : ~ In (Z.of_nat r) cc).
    { intros Hin. apply Em. unfold unique_sorted. apply (proj2 (nodup_In _ _ _)). apply (proj2 (zsort_in _ _)). exact Hin. }
    rewrite (select_not_in _ cc chunk Hn). rewrite stats_nil.
    symmetry. apply sadd_zero_r.
    eapply Forall_forall; [exact HF|]. eapply nth_error_In. exact Eb.
Qed.


(* ------------------------------------------------------------------ *)
(* 4d. workers and the merge of their buffers                          *)
Definition cells_of (files : list h5ad) (w : list chunk_spec) : list cell :=
  concat (map (read_chunk files) w).

Lemma read_chunk_eq files fi r0 r1 f : nth_error files fi = Some f ->
  read_chunk files (fi, r0, r1) = firstn (r1 - r0) (skipn r0 (f_cells f)).
Proof. intros H. unfold read_chunk. cbv beta iota. rewrite H. reflexivity. Qed.

Lemma read_chunk_rect ng files c : files_wf ng files -> cells_rect ng (read_chunk files c).
Proof.
  intros [HF _]. destruct c as [[fi r0] r1]. unfold read_chunk. cbv beta iota.
  destruct (nth_error files fi) as [f|] eqn:E; [|constructor].
  apply nth_error_In in E. rewrite Forall_forall in HF. destruct (HF f E) as [_ Hc].
  unfold cells_rect in *. apply Forall_firstn'. apply Forall_skipn'. exact Hc.
Qed.

Lemma cells_of_rect ng files w : files_wf ng files -> cells_rect ng (cells_of files w).
Proof.
  intros H. unfold cells_of. induction w as [|c t IH]; cbn; [constructor|].
  apply cells_rect_app; [apply read_chunk_rect; exact H | exact IH].
Qed.

Lemma cells_of_app files a b : cells_of files (a ++ b) = cells_of files a ++ cells_of files b.
Proof. unfold cells_of. rewrite map_app, concat_app. reflexivity. Qed.

Lemma worker_spec D nc ng lookup files : lookup_in nc lookup -> files_wf ng files ->
  forall specs buf, twf nc ng buf ->
  worker D ng lookup files specs buf = Some (tadd buf (direct D nc ng lookup (cells_of files specs))).
Proof.
  intros Hlk Hfw. induction specs as [|c t IH]; intros buf Hb.
  - cbn. rewrite direct_nil, (tadd_zero_r nc ng buf Hb). reflexivity.
  - cbn [worker]. rewrite (process_chunk_spec D nc ng lookup buf _ Hb Hlk).
    rewrite IH.
    2:{ apply tadd_wf; [exact Hb | apply direct_wf; apply read_chunk_rect; exact Hfw]. }
    change (cells_of files (c :: t)) with (read_chunk files c ++ cells_of files t).
    rewrite direct_app; [| apply read_chunk_rect; exact Hfw | apply cells_of_rect; exact Hfw].
    rewrite tadd_assoc. reflexivity.
Qed.

Lemma run_workers_spec D nc ng lookup files : lookup_in nc lookup -> files_wf ng files ->
  forall wl, run_workers D nc ng lookup files wl =
             Some (map (fun w => direct D nc ng lookup (cells_of files w)) wl).
Proof.
  intros Hlk Hfw. induction wl as [|w t IH]; [reflexivity|].
  cbn [run_workers map]. rewrite (worker_spec D nc ng lookup files Hlk Hfw w _ (tzero_wf nc ng)).
  rewrite IH. rewrite tadd_zero_l; [reflexivity|].
  apply direct_wf. apply cells_of_rect. exact Hfw.
Qed.

Lemma merge_fold D nc ng lookup files : files_wf ng files -> forall wl X, cells_rect ng X ->
  fold_left tadd (map (fun w => direct D nc ng lookup (cells_of files w)) wl) (direct D nc ng lookup X)
  = direct D nc ng lookup (X ++ cells_of files (concat wl)).
Proof.
  intros Hfw. induction wl as [|w t IH]; intros X HX.
  - cbn. rewrite app_nil_r. reflexivity.
  - cbn [map fold_left concat].
    rewrite <- direct_app; [| exact HX | apply cells_of_rect; exact Hfw].
    rewrite IH; [| apply cells_rect_app; [exact HX | apply cells_of_rect; exact Hfw]].
    rewrite cells_of_app, app_assoc. reflexivity.
Qed.

(* ------------------------------------------------------------------ *)
(* 4e. the chunk list                                                  *)
Lemma total_size_cons c l : total_size (c :: l) = (spec_size c + total_size l)%nat.
Proof. reflexivity. Qed.

Lemma n_total_cons lookup f t :
  n_total_cells lookup (f :: t) =
  ((if overlaps lookup f then length (f_cells f) else 0) + n_total_cells lookup t)%nat.
Proof. reflexivity. Qed.

Lemma file_chunks_cells files fi f rows : nth_error files fi = Some f -> (1 <= rows)%nat ->
  forall fuel r0, (length (f_cells f) - r0 <= fuel)%nat ->
  concat (map (read_chunk files) (file_chunks fuel fi r0 (length (f_cells f)) rows)) = skipn r0 (f_cells f).
Proof.
  intros Hf Hrows. remember (length (f_cells f)) as n eqn:En.
  induction fuel as [|fuel IH]; intros r0 Hfuel.
  - cbn. symmetry. apply skipn_all2. lia.
  - cbn [file_chunks]. destruct (r0 <? n)%nat eqn:E.
    + apply Nat.ltb_lt in E. cbn [map concat]. rewrite IH by lia.
      rewrite (read_chunk_eq files fi r0 _ f Hf).
      destruct (Nat.le_gt_cases (r0 + rows) n) as [Hle|Hgt].
      * replace (Nat.min n (r0 + rows) - r0)%nat with rows by lia.
        rewrite <- (skipn_skipn rows r0). apply firstn_skipn.
      * replace (Nat.min n (r0 + rows) - r0)%nat with (length (skipn r0 (f_cells f)))
          by (rewrite skipn_length; lia).
        rewrite firstn_all. rewrite (skipn_all2 (n := (r0 + rows)%nat)) by lia. apply app_nil_r.
    + apply Nat.ltb_ge in E. cbn. symmetry. apply skipn_all2. lia.
Qed.

Lemma file_chunks_sizes fi n rows : (1 <= rows)%nat -> forall fuel r0, (n - r0 <= fuel)%nat ->
  Forall (fun c => (1 <= spec_size c)%nat) (file_chunks fuel fi r0 n rows) /\
  total_size (file_chunks fuel fi r0 n rows) = (n - r0)%nat.
Proof.
  intros Hrows. induction fuel as [|fuel IH]; intros r0 Hfuel.
  - cbn. split; [constructor | lia].
  - cbn [file_chunks]. destruct (r0 <? n)%nat eqn:E.
    + apply Nat.ltb_lt in E. destruct (IH (r0 + rows)%nat) as [I1 I2]; [lia|].
      split.
      * constructor; [|exact I1]. unfold spec_size. cbn [fst snd]. lia.
      * rewrite total_size_cons, I2. unfold spec_size. cbn [fst snd]. lia.
    + apply Nat.ltb_ge in E. cbn. split; [constructor | lia].
Qed.

Lemma all_chunks_cells lookup rows : (1 <= rows)%nat -> forall suffix pre,
  cells_of (pre ++ suffix) (all_chunks lookup (length pre) suffix rows)
  = concat (map f_cells (filter (overlaps lookup) suffix)).
Proof.
  intros Hrows. induction suffix as [|f t IH]; intros pre; [reflexivity|].
  cbn [all_chunks filter]. rewrite cells_of_app.
  pose proof (IH (pre ++ [f])) as IH'. rewrite <- app_assoc in IH'. cbn [app] in IH'.
  rewrite app_length in IH'. cbn [length] in IH'. rewrite Nat.add_1_r in IH'.
  rewrite IH'.
  destruct (overlaps lookup f).
  - cbn [map concat]. f_equal.
    assert (Hnth : nth_error (pre ++ f :: t) (length pre) = Some f).
    { rewrite nth_error_app2 by lia. rewrite Nat.sub_diag. reflexivity. }
    unfold cells_of.
    rewrite (file_chunks_cells (pre ++ f :: t) (length pre) f rows Hnth Hrows (length (f_cells f)) 0%nat) by lia.
    reflexivity.
  - reflexivity.
Qed.

Lemma all_chunks_sizes lookup rows : (1 <= rows)%nat -> forall files fi,
  Forall (fun c => (1 <= spec_size c)%nat) (all_chunks lookup fi files rows) /\
  total_size (all_chunks lookup fi files rows) = n_total_cells lookup files.
Proof.
  intros Hrows. induction files as [|f t IH]; intros fi.
  - cbn. split; [constructor | reflexivity].
  - cbn [all_chunks]. rewrite n_total_cons, total_size_app.
    destruct (IH (S fi)) as [I1 I2]. rewrite I2.
    destruct (overlaps lookup f).
    + destruct (file_chunks_sizes fi (length (f_cells f)) rows Hrows (length (f_cells f)) 0%nat) as [F1 F2]; [lia|].
      split; [apply Forall_app; split; assumption|]. rewrite F2. lia.
    + split; [exact I1 | reflexivity].
Qed.

Lemma all_chunks_nil_iff lookup rows : forall files fi,
  all_chunks lookup fi files rows = [] <-> filter (overlaps lookup) files = [].
Proof.
  induction files as [|f t IH]; intros fi; [cbn; tauto|].
  cbn [all_chunks filter]. destruct (overlaps lookup f) eqn:E.
  - destruct (f_cells f) as [|c cs] eqn:Ec.
    + unfold overlaps in E. rewrite Ec in E. discriminate.
    + cbn. split; intros H; discriminate H.
  - cbn [app]. apply IH.
Qed.

Lemma existsb_named_overlaps lookup files :
  existsb (named lookup) (all_cells files) = negb (is_nil (filter (overlaps lookup) files)).
Proof.
  unfold all_cells. induction files as [|f t IH]; [reflexivity|].
  cbn [map concat filter]. rewrite existsb_app.
  change (existsb (named lookup) (f_cells f)) with (overlaps lookup f).
  destruct (overlaps lookup f); cbn; [reflexivity | exact IH].
Qed.

Lemma existsb_false_filter {A} (p : A -> bool) l : existsb p l = false -> filter p l = [].
Proof.
  induction l as [|x t IH]; cbn; [reflexivity|].
  destruct (p x); cbn; [discriminate | exact IH].
Qed.

Lemma filter_named_overlaps lookup files :
  filter (named lookup) (all_cells files) =
  filter (named lookup) (concat (map f_cells (filter (overlaps lookup) files))).
Proof.
  unfold all_cells. induction files as [|f t IH]; [reflexivity|].
  cbn [map concat filter]. rewrite filter_app, IH.
  destruct (overlaps lookup f) eqn:E.
  - cbn [map concat]. rewrite filter_app. reflexivity.
  - change (overlaps lookup f) with (existsb (named lookup) (f_cells f)) in E.
    rewrite (existsb_false_filter _ _ E). reflexivity.
Qed.

Lemma concat_drop_empty {A} (wl : list (list A)) : concat (drop_empty wl) = concat wl.
Proof.
  unfold drop_empty. induction wl as [|w t IH]; [reflexivity|].
  cbn [filter]. destruct w as [|x w]; cbn; [exact IH | rewrite IH; reflexivity].
Qed.

Lemma drop_empty_nil {A} (wl : list (list A)) : drop_empty wl = [] <-> concat wl = [].
Proof.
  unfold drop_empty. induction wl as [|w t IH]; [cbn; tauto|].
  cbn [filter]. destruct w as [|x w]; cbn; [exact IH|]. split; intros H; discriminate H.
Qed.

(* ------------------------------------------------------------------ *)
(* 4f. the written table                                               *)
Lemma precompute_core D (leaf : level) files rows p lookup :
  cell_to_row (cluster_to_row (map fst leaf)) (cell_to_cluster leaf) = Some lookup ->
  lookup_in (length leaf) lookup -> (1 <= rows)%nat -> (1 <= p)%nat ->
  forall ng, ng = match files with f :: _ => length (f_genes f) | [] => 0%nat end ->
  files_wf ng files ->
  precompute D leaf files rows p =
    if existsb (named lookup) (all_cells files)
    then Ok (cluster_to_row (map fst leaf), direct D (length leaf) ng lookup (all_cells files))
    else Err E_NOWORK.
Proof.
  intros Hl Hlk Hrows Hp ng Eng Hfw. unfold precompute. cbv zeta.
  match goal with
  | |- context [cell_to_row ?a ?b] => replace (cell_to_row a b) with (Some lookup) by (symmetry; exact Hl)
  end.
  rewrite !map_length. rewrite <- Eng.
  destruct Hfw as [HF Hga]. rewrite Hga. cbn [negb].
  assert (Hfw : files_wf ng files) by (split; assumption).
  destruct (Nat.eqb_spec p 0) as [Ep|_]; [lia|].
  destruct (Nat.eqb_spec rows 0) as [Er|_]; [lia|]. cbn [andb].
  destruct (all_chunks_sizes lookup rows Hrows files 0%nat) as [Hsz Htot].
  rewrite <- Htot.
  destruct (work_split_safe p _ Hp Hsz) as (wl & Hws & Hlen & Hcat).
  rewrite Hws. rewrite (run_workers_spec D (length leaf) ng lookup files Hlk Hfw).
  rewrite existsb_named_overlaps.
  destruct (drop_empty wl) as [|w ws] eqn:Ed.
  - cbn [map].
    apply drop_empty_nil in Ed. rewrite Hcat in Ed. apply all_chunks_nil_iff in Ed.
    rewrite Ed. reflexivity.
  - cbn [map].
    destruct (filter (overlaps lookup) files) as [|g gs] eqn:Ef.
    + exfalso. apply (all_chunks_nil_iff lookup rows files 0%nat) in Ef.
      rewrite <- Hcat in Ef. apply drop_empty_nil in Ef. rewrite Ef in Ed. discriminate.
    + cbn [is_nil negb]. f_equal. f_equal.
      unfold merge_buffers.
      change (direct D (length leaf) ng lookup (cells_of files w)
              :: map (fun w0 => direct D (length leaf) ng lookup (cells_of files w0)) ws)
        with (map (fun w0 => direct D (length leaf) ng lookup (cells_of files w0)) (w :: ws)).
      rewrite <- (direct_nil D (length leaf) ng lookup).
      rewrite (merge_fold D (length leaf) ng lookup files Hfw (w :: ws) []) by constructor.
      cbn [app]. rewrite <- Ed, concat_drop_empty, Hcat.
      pose proof (all_chunks_cells lookup rows Hrows files []) as Hc. cbn [app length] in Hc.
      rewrite Hc. rewrite Ef.
      rewrite (direct_ignores_unnamed D (length leaf) ng lookup (all_cells files)).
      rewrite filter_named_overlaps, Ef.
      rewrite <- direct_ignores_unnamed. reflexivity.
Qed.

Lemma dict_get_in {A} k (v : A) d : dict_get k d = Some v -> In (k, v) d.
Proof. unfold dict_get. intros H. apply zassoc_in in H. apply in_rev in H. exact H. Qed.

Lemma precompute_equals_direct : forall D leaf files rows p ng,
  NoDup (map fst leaf) -> (1 <= rows)%nat -> (1 <= p)%nat -> files_wf ng files ->
  exists lookup, cell_to_row (cluster_to_row (map fst leaf)) (cell_to_cluster leaf) = Some lookup /\
    precompute D leaf files rows p =
      if existsb (named lookup) (all_cells files)
      then Ok (cluster_to_row (map fst leaf), direct D (length leaf) ng lookup (all_cells files))
      else Err E_NOWORK.
Proof.
  intros D leaf files rows p ng ND Hrows Hp Hfw.
  pose proof (rows_by_name leaf ND) as RB. cbv zeta in RB.
  destruct RB as (_ & _ & _ & _ & lookup & Hl & Hrange & _ & _).
  exists lookup. split; [exact Hl|].
  assert (Hlk : lookup_in (length leaf) lookup).
  { intros c r Hd. apply dict_get_in in Hd. rewrite Forall_forall in Hrange.
    apply Hrange in Hd. cbn in Hd. tauto. }
  destruct files as [|f0 ft].
  - rewrite (precompute_core D leaf [] rows p lookup Hl Hlk Hrows Hp 0%nat eq_refl).
    + reflexivity.
    + split; [constructor | reflexivity].
  - apply (precompute_core D leaf (f0 :: ft) rows p lookup Hl Hlk Hrows Hp ng); [|exact Hfw].
    destruct Hfw as [HF _]. inversion HF as [|x t [Hx _] Ht]; subst. reflexivity.
Qed.

Lemma existsb_perm {A} (p : A -> bool) l l' : Permutation l l' -> existsb p l = existsb p l'.
Proof.
  intros H. induction H as [|x l l' Hp IH|x y l|l l' l'' H1 IH1 H2 IH2]; cbn.
  - reflexivity.
  - rewrite IH. reflexivity.
  - destruct (p x), (p y); reflexivity.
  - congruence.
Qed.

Lemma all_cells_rect ng files : files_wf ng files -> cells_rect ng (all_cells files).
Proof.
  intros [HF _]. unfold all_cells. induction HF as [|f t [_ Hf] Ht IH]; cbn; [constructor|].
  apply cells_rect_app; assumption.
Qed.

Lemma partition_independent : forall D leaf files files' rows rows' p p' ng,
  NoDup (map fst leaf) -> (1 <= rows)%nat -> (1 <= rows')%nat -> (1 <= p)%nat -> (1 <= p')%nat ->
  files_wf ng files -> files_wf ng files' ->
  Permutation (all_cells files) (all_cells files') ->
  precompute D leaf files rows p = precompute D leaf files' rows' p'.
Proof.
  intros D leaf files files' rows rows' p p' ng ND Hr Hr' Hp Hp' Hfw Hfw' Hperm.
  destruct (precompute_equals_direct D leaf files rows p ng ND Hr Hp Hfw) as (lk & L1 & E1).
  destruct (precompute_equals_direct D leaf files' rows' p' ng ND Hr' Hp' Hfw') as (lk' & L2 & E2).
  rewrite L1 in L2. inversion L2; subst lk'.
  rewrite E1, E2.
  rewrite (existsb_perm (named lk) _ _ Hperm).
  rewrite (direct_perm D _ ng lk _ _ (all_cells_rect ng files Hfw) Hperm).
  reflexivity.
Qed.


(* ------------------------------------------------------------------ *)
(* 6. merge_precompute_files                                           *)
Lemma pinsert_perm x l : Permutation (pinsert x l) (x :: l).
Proof.
  induction l as [|y t IH]; cbn; [reflexivity|].
  destruct (p_path x <=? p_path y); [reflexivity|].
  rewrite IH. apply perm_swap.
Qed.

Lemma psort_perm l : Permutation (psort l) l.
Proof.
  induction l as [|x t IH]; cbn; [reflexivity|].
  rewrite pinsert_perm. constructor. exact IH.
Qed.

Lemma pick_most_spec : forall l best m, pick_most l best = Some m ->
  (In m l \/ best = Some m) /\ (forall f, In f l -> total_cells f <= total_cells m) /\
  (forall b, best = Some b -> total_cells b <= total_cells m).
Proof.
  induction l as [|f t IH]; intros best m H.
  - cbn in H. split; [right; exact H|]. split; [intros f []|].
    intros b Hb. rewrite H in Hb. inversion Hb. lia.
  - cbn in H. destruct best as [b|].
    + destruct (total_cells b <? total_cells f) eqn:E.
      * apply Z.ltb_lt in E. apply IH in H. destruct H as (H1 & H2 & H3).
        specialize (H3 f eq_refl). split.
        { destruct H1 as [H1|H1]; [left; right; exact H1 | left; left; inversion H1; reflexivity]. }
        split.
        { intros g [<-|Hg]; [exact H3 | apply H2; exact Hg]. }
        { intros b' Hb'. inversion Hb'; subst. lia. }
      * apply Z.ltb_ge in E. apply IH in H. destruct H as (H1 & H2 & H3).
        specialize (H3 b eq_refl). split.
        { destruct H1 as [H1|H1]; [left; right; exact H1 | right; exact H1]. }
        split.
        { intros g [<-|Hg]; [lia | apply H2; exact Hg]. }
        { intros b' Hb'. inversion Hb'; subst. exact H3. }
    + apply IH in H. destruct H as (H1 & H2 & H3). specialize (H3 f eq_refl). split.
      { destruct H1 as [H1|H1]; [left; right; exact H1 | left; left; inversion H1; reflexivity]. }
      split.
      { intros g [<-|Hg]; [exact H3 | apply H2; exact Hg]. }
      { intros b' Hb'. discriminate Hb'. }
Qed.

Definition pick (a b : summary) : summary := if s_n a <? s_n b then b else a.
Definition vis (most : pfile) (l : list pfile) : list pfile :=
  filter (fun f => negb (p_path f =? p_path most)) l.

Lemma replace_rows_length : forall dst src, length (replace_rows dst src) = length dst.
Proof.
  induction dst as [|d dt IH]; intros [|s st]; cbn; try reflexivity.
  rewrite IH. reflexivity.
Qed.

Lemma nth_error_replace_rows : forall dst src r d s,
  nth_error dst r = Some d -> nth_error src r = Some s ->
  nth_error (replace_rows dst src) r = Some (pick d s).
Proof.
  induction dst as [|d0 dt IH]; intros [|s0 st] [|r] d s Hd Hs; cbn in *; try discriminate.
  - inversion Hd; inversion Hs; subst. reflexivity.
  - apply IH; assumption.
Qed.

Lemma fold_replace_length : forall ts dst, length (fold_left replace_rows ts dst) = length dst.
Proof.
  induction ts as [|t ts IH]; intros dst; cbn; [reflexivity|].
  rewrite IH. apply replace_rows_length.
Qed.

Lemma merge_loop_spec most : forall l dst T, merge_loop most l dst = Ok T ->
  T = fold_left replace_rows (map p_tab (vis most l)) dst /\
  Forall (fun f => length (p_tab f) = length dst) (vis most l).
Proof.
  induction l as [|f t IH]; intros dst T H.
  - cbn in H. inversion H. split; [reflexivity | constructor].
  - cbn [merge_loop] in H. unfold vis. cbn [filter].
    destruct (p_path f =? p_path most) eqn:E; cbn [negb].
    + apply IH. exact H.
    + destruct (c2r_eqb (p_c2r f) (p_c2r most)); cbn [negb] in H; [|discriminate H].
      destruct (cols_eqb (p_cols f) (p_cols most)); cbn [negb] in H; [|discriminate H].
      destruct (Nat.eqb_spec (length dst) (length (p_tab f))) as [El|El]; cbn [negb] in H; [|discriminate H].
      apply IH in H. destruct H as [H1 H2]. rewrite replace_rows_length in H2.
      split; [exact H1|]. constructor; [symmetry; exact El | exact H2].
Qed.

Lemma fold_replace_row r : forall ts dst d0,
  Forall (fun t => length t = length dst) ts -> nth_error dst r = Some d0 ->
  exists xs, Forall2 (fun t x => nth_error t r = Some x) ts xs /\
             nth_error (fold_left replace_rows ts dst) r = Some (fold_left pick xs d0).
Proof.
  induction ts as [|t ts IH]; intros dst d0 HF Hd.
  - exists []. split; [constructor | exact Hd].
  - inversion HF as [|t0 ts0 Ht Hts]; subst t0 ts0.
    assert (Hr : (r < length dst)%nat) by (apply nth_error_Some; congruence).
    destruct (nth_error t r) as [x|] eqn:Et.
    2:{ apply nth_error_None in Et. lia. }
    destruct (IH (replace_rows dst t) (pick d0 x)) as (xs & X1 & X2).
    + rewrite replace_rows_length. exact Hts.
    + apply nth_error_replace_rows; assumption.
    + exists (x :: xs). split; [constructor; assumption | exact X2].
Qed.

Lemma nth_error_snoc_inv {A} (l : list A) x j y :
  nth_error (l ++ [x]) j = Some y ->
  ((j < length l)%nat /\ nth_error l j = Some y) \/ (j = length l /\ y = x).
Proof.
  intros H. destruct (Nat.lt_ge_cases j (length l)) as [Hlt|Hge].
  - left. rewrite nth_error_app1 in H by exact Hlt. auto.
  - right. rewrite nth_error_app2 in H by exact Hge.
    destruct (j - length l)%nat as [|k] eqn:Ek; cbn in H.
    + inversion H. split; [lia | reflexivity].
    + destruct k; discriminate H.
Qed.

Lemma pick_fold : forall xs d0, exists i,
  nth_error (d0 :: xs) i = Some (fold_left pick xs d0) /\
  (forall j y, nth_error (d0 :: xs) j = Some y -> s_n y <= s_n (fold_left pick xs d0)) /\
  (forall j y, (j < i)%nat -> nth_error (d0 :: xs) j = Some y -> s_n y < s_n (fold_left pick xs d0)).
Proof.
  intros xs d0. induction xs as [|x xs IH] using rev_ind.
  - exists 0%nat. cbn. split; [reflexivity|]. split.
    + intros [|j] y H; cbn in H; [inversion H; lia | destruct j; discriminate H].
    + intros j y Hj. lia.
  - destruct IH as (i & I1 & I2 & I3).
    rewrite fold_left_app. cbn [fold_left].
    remember (fold_left pick xs d0) as res eqn:Eres.
    assert (Hi : (i < length (d0 :: xs))%nat) by (apply nth_error_Some; congruence).
    change (d0 :: xs ++ [x]) with ((d0 :: xs) ++ [x]).
    unfold pick. destruct (s_n res <? s_n x) eqn:E.
    + apply Z.ltb_lt in E. exists (length (d0 :: xs)). split; [|split].
      * rewrite nth_error_app2 by lia. rewrite Nat.sub_diag. reflexivity.
      * intros j y H. apply nth_error_snoc_inv in H. destruct H as [[_ H]|[_ H]].
        -- apply I2 in H. lia.
        -- subst y. lia.
      * intros j y Hj H. apply nth_error_snoc_inv in H. destruct H as [[_ H]|[Hj2 _]]; [|lia].
        apply I2 in H. lia.
    + apply Z.ltb_ge in E. exists i. split; [|split].
      * rewrite nth_error_app1 by exact Hi. exact I1.
      * intros j y H. apply nth_error_snoc_inv in H. destruct H as [[_ H]|[_ H]].
        -- apply I2 in H. exact H.
        -- subst y. exact E.
      * intros j y Hj H. apply nth_error_snoc_inv in H. destruct H as [[_ H]|[Hj2 _]]; [|lia].
        apply (I3 j y Hj H).
Qed.

Lemma Forall2_nth_l {A B} (R : A -> B -> Prop) l1 l2 : Forall2 R l1 l2 ->
  forall i a, nth_error l1 i = Some a -> exists b, nth_error l2 i = Some b /\ R a b.
Proof.
  intros H. induction H as [|x y l1 l2 Hxy H IH]; intros i a Hi; [destruct i; discriminate Hi|].
  destruct i as [|i]; cbn in *; [inversion Hi; subst; eauto | apply IH; exact Hi].
Qed.

Lemma Forall2_nth_r {A B} (R : A -> B -> Prop) l1 l2 : Forall2 R l1 l2 ->
  forall i b, nth_error l2 i = Some b -> exists a, nth_error l1 i = Some a /\ R a b.
Proof.
  intros H. induction H as [|x y l1 l2 Hxy H IH]; intros i b Hi; [destruct i; discriminate Hi|].
  destruct i as [|i]; cbn in *; [inversion Hi; subst; eauto | apply IH; exact Hi].
Qed.

Lemma Forall2_map_l {A B C} (R : B -> C -> Prop) (g : A -> B) : forall l xs,
  Forall2 R (map g l) xs -> Forall2 (fun a x => R (g a) x) l xs.
Proof.
  induction l as [|a l IH]; intros xs H; cbn in H; inversion H; subst; constructor; auto.
Qed.

Lemma merge_inv files most T : merge_precompute files = Ok (most, T) ->
  pick_most (psort files) None = Some most /\ merge_loop most (psort files) (p_tab most) = Ok T.
Proof.
  unfold merge_precompute. cbv zeta. intros H.
  destruct (psort files) as [|first rest] eqn:Eps; [discriminate H|].
  unfold bind in H.
  destruct (census first (first :: rest)) as [u|c]; [|discriminate H].
  destruct (pick_most (first :: rest) None) as [m|] eqn:Epm; [|discriminate H].
  destruct (merge_loop m (first :: rest) (p_tab m)) as [d|c] eqn:Eml; [|discriminate H].
  inversion H; subst m d. split; [reflexivity | exact Eml].
Qed.

Lemma merge_rows files most T r s :
  merge_precompute files = Ok (most, T) -> nth_error T r = Some s ->
  exists i f, nth_error (most :: vis most (psort files)) i = Some f /\
    nth_error (p_tab f) r = Some s /\
    (forall j g s', nth_error (most :: vis most (psort files)) j = Some g ->
                    nth_error (p_tab g) r = Some s' -> s_n s' <= s_n s) /\
    (forall j g s', (j < i)%nat -> nth_error (most :: vis most (psort files)) j = Some g ->
                    nth_error (p_tab g) r = Some s' -> s_n s' < s_n s).
Proof.
  intros Hm HT. apply merge_inv in Hm. destruct Hm as [_ Hml].
  apply merge_loop_spec in Hml. destruct Hml as [ET HF].
  set (V := vis most (psort files)) in *.
  assert (Hr : (r < length (p_tab most))%nat).
  { rewrite <- (fold_replace_length (map p_tab V) (p_tab most)), <- ET.
    apply nth_error_Some. congruence. }
  destruct (nth_error (p_tab most) r) as [d0|] eqn:Ed.
  2:{ apply nth_error_None in Ed. lia. }
  destruct (fold_replace_row r (map p_tab V) (p_tab most) d0) as (xs & X1 & X2).
  { apply Forall_map. exact HF. }
  { exact Ed. }
  rewrite <- ET, HT in X2. assert (Es : s = fold_left pick xs d0) by congruence. clear X2.
  apply Forall2_map_l in X1.
  assert (F2 : Forall2 (fun f x => nth_error (p_tab f) r = Some x) (most :: V) (d0 :: xs))
    by (constructor; assumption).
  destruct (pick_fold xs d0) as (i & I1 & I2 & I3). rewrite <- Es in I1, I2, I3.
  destruct (Forall2_nth_r _ _ _ F2 i s I1) as (f & Hf1 & Hf2).
  exists i, f. split; [exact Hf1|]. split; [exact Hf2|]. split.
  - intros j g s' Hg Hs'. destruct (Forall2_nth_l _ _ _ F2 j g Hg) as (x & Hx1 & Hx2).
    rewrite Hs' in Hx2. inversion Hx2; subst x. apply (I2 j s' Hx1).
  - intros j g s' Hj Hg Hs'. destruct (Forall2_nth_l _ _ _ F2 j g Hg) as (x & Hx1 & Hx2).
    rewrite Hs' in Hx2. inversion Hx2; subst x. apply (I3 j s' Hj Hx1).
Qed.

Lemma path_inj : forall files f g, NoDup (map p_path files) -> In f files -> In g files ->
  p_path f = p_path g -> f = g.
Proof.
  induction files as [|a t IH]; intros f g ND Hf Hg E; [destruct Hf|].
  cbn in ND. inversion ND as [|x l Hx Ht]; subst x l.
  destruct Hf as [Hf|Hf]; destruct Hg as [Hg|Hg].
  - congruence.
  - subst a. exfalso. apply Hx. rewrite E. apply in_map. exact Hg.
  - subst a. exfalso. apply Hx. rewrite <- E. apply in_map. exact Hf.
  - apply IH; assumption.
Qed.

Lemma merge_keeps_largest : forall files most T,
  NoDup (map p_path files) ->
  merge_precompute files = Ok (most, T) ->
  In most files /\
  (forall f, In f files -> total_cells f <= total_cells most) /\
  length T = length (p_tab most) /\
  forall r s, nth_error T r = Some s ->
     (exists f, In f files /\ nth_error (p_tab f) r = Some s) /\
     (forall f s', In f files -> nth_error (p_tab f) r = Some s' -> s_n s' <= s_n s).
Proof.
  intros files most T ND Hm.
  pose proof (merge_inv files most T Hm) as [Hpm Hml].
  apply pick_most_spec in Hpm. destruct Hpm as (P1 & P2 & _).
  assert (Hmost : In most files).
  { destruct P1 as [P1|P1]; [|discriminate P1].
    eapply Permutation_in; [apply psort_perm | exact P1]. }
  assert (Hvis : forall f, In f (most :: vis most (psort files)) -> In f files).
  { intros f [<-|Hf]; [exact Hmost|]. unfold vis in Hf. apply filter_In in Hf.
    eapply Permutation_in; [apply psort_perm | apply Hf]. }
  split; [exact Hmost|]. split; [|split].
  - intros f Hf. apply P2. eapply Permutation_in; [apply Permutation_sym, psort_perm | exact Hf].
  - apply merge_loop_spec in Hml. destruct Hml as [ET _]. rewrite ET. apply fold_replace_length.
  - intros r s Hs. destruct (merge_rows files most T r s Hm Hs) as (i & f0 & R1 & R2 & R3 & _).
    split.
    + exists f0. split; [|exact R2]. apply Hvis. eapply nth_error_In. exact R1.
    + intros f s' Hf Hs'.
      assert (Hin : In f (most :: vis most (psort files))).
      { destruct (p_path f =? p_path most) eqn:E.
        - apply Z.eqb_eq in E. left. symmetry. apply (path_inj files f most ND Hf Hmost E).
        - right. unfold vis. apply filter_In. split.
          + eapply Permutation_in; [apply Permutation_sym, psort_perm | exact Hf].
          + rewrite E. reflexivity. }
      apply In_nth_error in Hin. destruct Hin as (j & Hj).
      apply (R3 j f s' Hj Hs').
Qed.

Lemma merge_tie_rule : forall files most T r s,
  NoDup (map p_path files) ->
  merge_precompute files = Ok (most, T) -> nth_error T r = Some s ->
  let visit := most :: filter (fun f => negb (p_path f =? p_path most)) (psort files) in
  exists i f, nth_error visit i = Some f /\ nth_error (p_tab f) r = Some s /\
    forall j g s', (j < i)%nat -> nth_error visit j = Some g -> nth_error (p_tab g) r = Some s' -> s_n s' < s_n s.
Proof.
  intros files most T r s ND Hm Hs visit.
  destruct (merge_rows files most T r s Hm Hs) as (i & f & R1 & R2 & _ & R4).
  exists i, f. split; [exact R1|]. split; [exact R2 | exact R4].
Qed.

(* ------------------------------------------------------------------ *)
(* 7. statements in the form used by Props/C09.v                       *)
Lemma monoid_laws : forall ng,
  (forall a b, sadd a b = sadd b a) /\
  (forall a b c, sadd (sadd a b) c = sadd a (sadd b c)) /\
  (forall a, swf ng a -> sadd (szero ng) a = a /\ sadd a (szero ng) = a) /\
  (forall a b, swf ng a -> swf ng b -> swf ng (sadd a b)) /\
  swf ng (szero ng) /\
  (forall D rows, rect ng rows -> swf ng (stats_of_rows D ng rows)) /\
  (forall D, stats_of_rows D ng [] = szero ng).
Proof.
  intros ng. split; [exact sadd_comm|]. split; [exact sadd_assoc|].
  split; [intros a H; split; [apply sadd_zero_l | apply sadd_zero_r]; exact H|].
  split; [intros a b; apply sadd_wf|]. split; [apply szero_wf|].
  split; [intros D rows; apply stats_wf | intros D; reflexivity].
Qed.

(* the work split applied to the chunk list the code really builds *)
Lemma work_split_real : forall lookup files rows p,
  (1 <= rows)%nat -> (1 <= p)%nat ->
  exists wl, work_split (n_total_cells lookup files) p (all_chunks lookup 0 files rows) = Some wl /\
             length wl = p /\ concat wl = all_chunks lookup 0 files rows /\
             cells_of files (concat (drop_empty wl)) = concat (map f_cells (filter (overlaps lookup) files)).
Proof.
  intros lookup files rows p Hrows Hp.
  destruct (all_chunks_sizes lookup rows Hrows files 0%nat) as [Hsz Htot].
  rewrite <- Htot.
  destruct (work_split_safe p _ Hp Hsz) as (wl & Hws & Hlen & Hcat).
  exists wl. split; [exact Hws|]. split; [exact Hlen|]. split; [exact Hcat|].
  rewrite concat_drop_empty, Hcat.
  pose proof (all_chunks_cells lookup rows Hrows files []) as Hc. cbn [app length] in Hc. exact Hc.
Qed.

(* the cell -> row lookup is the taxonomy's cell -> cluster map followed by the sorted row table *)
Lemma lookup_spec : forall leaf, NoDup (map fst leaf) ->
  exists lookup, cell_to_row (cluster_to_row (map fst leaf)) (cell_to_cluster leaf) = Some lookup /\
    forall cell,
      dict_get cell lookup =
      match dict_get cell (cell_to_cluster leaf) with
      | Some cl => option_map Z.of_nat (zassoc cl (cluster_to_row (map fst leaf)))
      | None => None
      end.
Proof.
  intros leaf ND. pose proof (rows_by_name leaf ND) as RB. cbv zeta in RB.
  destruct RB as (_ & _ & _ & _ & lookup & Hl & _ & H1 & H2).
  exists lookup. split; [exact Hl|]. intros cell.
  destruct (dict_get cell (cell_to_cluster leaf)) as [cl|] eqn:E.
  - destruct (H1 cell cl E) as (r & Hr & Hd). rewrite Hr, Hd. reflexivity.
  - apply H2. exact E.
Qed.

Lemma table_is_direct : forall D leaf files rows p ng,
  NoDup (map fst leaf) -> (1 <= rows)%nat -> (1 <= p)%nat -> files_wf ng files ->
  exists lookup,
    (forall cell,
      dict_get cell lookup =
      match dict_get cell (cell_to_cluster leaf) with
      | Some cl => option_map Z.of_nat (zassoc cl (cluster_to_row (map fst leaf)))
      | None => None
      end) /\
    precompute D leaf files rows p =
      if existsb (named lookup) (all_cells files)
      then Ok (cluster_to_row (map fst leaf),
               map (fun r => stats_of_rows D ng (members lookup (Z.of_nat r) (all_cells files)))
                   (seq 0 (length leaf)))
      else Err E_NOWORK.
Proof.
  intros D leaf files rows p ng ND Hr Hp Hfw.
  destruct (precompute_equals_direct D leaf files rows p ng ND Hr Hp Hfw) as (lk & L1 & E1).
  destruct (lookup_spec leaf ND) as (lk' & L2 & S2).
  rewrite L1 in L2. inversion L2; subst lk'.
  exists lk. split; [exact S2 | exact E1].
Qed.

Lemma unnamed_contribute_nothing : forall D ng lookup r cells,
  stats_of_rows D ng (members lookup r cells) =
  stats_of_rows D ng (members lookup r (filter (named lookup) cells)).
Proof. intros. rewrite <- members_named. reflexivity. Qed.

(* ------------------------------------------------------------------ *)
(* 5. truncation: _convert_to_new_leaves and the grouping of the old leaves *)
Definition anc_is (anc : Z -> option Z) (L : Z) (o : Z) : bool :=
  match anc o with Some k => k =? L | None => false end.

Lemma group_add_keys : forall g k v,
  map fst (group_add g k v) = if zmem k (map fst g) then map fst g else map fst g ++ [k].
Proof.
  induction g as [|[k' vs] t IH]; intros k v; [reflexivity|].
  cbn [group_add map fst]. rewrite zmem_cons. rewrite (Z.eqb_sym k k').
  destruct (k' =? k) eqn:E; cbn [orb map fst]; [reflexivity|].
  rewrite IH. destruct (zmem k (map fst t)); reflexivity.
Qed.

Lemma group_add_get : forall g k v L,
  zassoc L (group_add g k v) =
  if L =? k then Some (match zassoc k g with Some vs => vs ++ [v] | None => [v] end) else zassoc L g.
Proof.
  induction g as [|[k' vs] t IH]; intros k v L.
  - cbn. destruct (L =? k); reflexivity.
  - cbn [group_add]. destruct (k' =? k) eqn:E.
    + apply Z.eqb_eq in E. subst k'. cbn [zassoc]. rewrite Z.eqb_refl.
      destruct (L =? k); reflexivity.
    + cbn [zassoc]. rewrite IH. rewrite (Z.eqb_sym k k'), E.
      destruct (L =? k) eqn:E1; [|reflexivity].
      apply Z.eqb_eq in E1. subst L. rewrite (Z.eqb_sym k k'), E. reflexivity.
Qed.

Lemma group_by_get anc : forall olds g0 g, group_by anc olds g0 = Some g ->
  forall L, zassoc L g =
    match zassoc L g0, filter (anc_is anc L) olds with
    | None, [] => None
    | None, fs => Some fs
    | Some vs, fs => Some (vs ++ fs)
    end.
Proof.
  induction olds as [|o t IH]; intros g0 g H L.
  - cbn in H. inversion H; subst. cbn. destruct (zassoc L g); [rewrite app_nil_r|]; reflexivity.
  - cbn [group_by] in H. destruct (anc o) as [k|] eqn:Ea; [|discriminate H].
    rewrite (IH _ _ H L), group_add_get. cbn [filter].
    assert (Eo : anc_is anc L o = (k =? L)) by (unfold anc_is; rewrite Ea; reflexivity).
    rewrite Eo, (Z.eqb_sym k L). destruct (L =? k) eqn:E; [|reflexivity].
    apply Z.eqb_eq in E. subst L.
    destruct (zassoc k g0) as [vs|]; [rewrite <- app_assoc|]; reflexivity.
Qed.

Lemma group_by_nodup anc : forall olds g0 g, group_by anc olds g0 = Some g ->
  NoDup (map fst g0) -> NoDup (map fst g).
Proof.
  induction olds as [|o t IH]; intros g0 g H ND.
  - cbn in H. inversion H; subst. exact ND.
  - cbn [group_by] in H. destruct (anc o) as [k|]; [|discriminate H].
    apply (IH _ _ H). rewrite group_add_keys.
    destruct (zmem k (map fst g0)) eqn:E; [exact ND|].
    apply zmem_false in E. apply NoDup_app; [exact ND | constructor; [intros [] | constructor] |].
    intros x Hx [<-|[]]. exact (E Hx).
Qed.

(* new_leaf_to_old_leaves: distinct keys, and the group of L is exactly the old leaves
   whose ancestor is L, in their original order, and is not empty *)
Lemma group_by_spec anc olds g : group_by anc olds [] = Some g ->
  NoDup (map fst g) /\
  forall L os, In (L, os) g <-> (os = filter (anc_is anc L) olds /\ os <> []).
Proof.
  intros H. pose proof (group_by_nodup anc olds [] g H (NoDup_nil _)) as ND.
  split; [exact ND|]. intros L os.
  pose proof (group_by_get anc olds [] g H L) as HG. cbn [zassoc] in HG. split.
  - intros Hin. rewrite (zassoc_nodup_in L os g ND Hin) in HG.
    destruct (filter (anc_is anc L) olds) as [|x fs]; [discriminate HG|].
    inversion HG; subst. split; [reflexivity | discriminate].
  - intros [-> Hne]. destruct (filter (anc_is anc L) olds) as [|x fs]; [contradiction|].
    apply zassoc_in. exact HG.
Qed.

Lemma set_row_spec : forall u s buf b', set_row u s buf = Some b' ->
  length b' = length buf /\ (u < length buf)%nat /\
  forall r, nth_error b' r = if Nat.eqb r u then Some s else nth_error buf r.
Proof.
  induction u as [|k IH]; intros s [|b t] b' H; cbn in H; try discriminate H.
  - inversion H; subst. split; [reflexivity|]. split; [cbn; lia|]. intros [|r]; reflexivity.
  - destruct (set_row k s t) as [t'|] eqn:E; [|discriminate H]. inversion H; subst.
    destruct (IH s t t' E) as (H1 & H2 & H3). split; [cbn; lia|]. split; [cbn; lia|].
    intros [|r]; cbn; [reflexivity | apply H3].
Qed.

(* the summary written for one group *)
Definition row_sum (ng : nat) (data : table) (old_c2r : list (Z * nat)) (olds : list Z) : option summary :=
  match opt_map (fun o => dict_get o old_c2r) olds with
  | Some src =>
      match opt_map (fun r => nth_error data r) (map Z.to_nat (zsort (map Z.of_nat src))) with
      | Some rows => Some (sum_rows ng rows)
      | None => None
      end
  | None => None
  end.

Lemma convert_loop_spec ng data oc nc : forall groups acc T,
  convert_loop ng data oc nc groups acc = Ok T ->
  length T = length acc /\
  (forall r, (forall L olds, In (L, olds) groups -> dict_get L nc <> Some r) -> nth_error T r = nth_error acc r) /\
  (NoDup (map fst groups) ->
   (forall L1 L2 d, dict_get L1 nc = Some d -> dict_get L2 nc = Some d -> L1 = L2) ->
   forall L olds, In (L, olds) groups ->
     exists dst s, dict_get L nc = Some dst /\ (dst < length acc)%nat /\
                   row_sum ng data oc olds = Some s /\ nth_error T dst = Some s).
Proof.
  induction groups as [|[L0 olds0] t IH]; intros acc T H.
  - cbn in H. inversion H; subst. split; [reflexivity|]. split; [reflexivity|]. intros _ _ L olds [].
  - cbn [convert_loop] in H.
    destruct (dict_get L0 nc) as [dst|] eqn:Ed; [|discriminate H].
    destruct (opt_map (fun o => dict_get o oc) olds0) as [src|] eqn:Es; [|discriminate H].
    destruct (opt_map (fun r => nth_error data r) (map Z.to_nat (zsort (map Z.of_nat src)))) as [rows|] eqn:Er;
      [|discriminate H].
    destruct (set_row dst (sum_rows ng rows) acc) as [acc'|] eqn:Ea; [|discriminate H].
    destruct (set_row_spec _ _ _ _ Ea) as (A1 & A2 & A3).
    destruct (IH acc' T H) as (I1 & I2 & I3).
    split; [congruence|]. split.
    + intros r Hr. rewrite I2.
      * rewrite A3. destruct (Nat.eqb_spec r dst) as [->|_]; [|reflexivity].
        exfalso. apply (Hr L0 olds0); [left; reflexivity | exact Ed].
      * intros L olds Hin. apply (Hr L olds). right. exact Hin.
    + intros ND Hinj L olds [Heq|Hin].
      * inversion Heq; subst L olds. exists dst, (sum_rows ng rows).
        split; [exact Ed|]. split; [exact A2|]. split.
        { unfold row_sum. rewrite Es, Er. reflexivity. }
        rewrite I2; [rewrite A3, Nat.eqb_refl; reflexivity|].
        intros L olds Hin Hd. cbn in ND. inversion ND as [|x l Hx Hl]; subst.
        apply Hx. rewrite (Hinj L0 L dst Ed Hd). apply (in_map fst) in Hin. exact Hin.
      * cbn in ND. inversion ND as [|x l Hx Hl]; subst.
        destruct (I3 Hl Hinj L olds Hin) as (d & s & D1 & D2 & D3 & D4).
        exists d, s. split; [exact D1|]. split; [congruence|]. split; [exact D3 | exact D4].
Qed.

(* sums of rows do not depend on the order in which the rows are taken *)
Lemma sadd_swap a b x : sadd a (sadd b x) = sadd b (sadd a x).
Proof. rewrite <- !sadd_assoc. rewrite (sadd_comm a b). reflexivity. Qed.

Lemma sum_rows_perm ng a b : Permutation a b -> sum_rows ng a = sum_rows ng b.
Proof.
  intros H. unfold sum_rows. induction H as [|x l l' Hp IH|x y l|l l' l'' H1 IH1 H2 IH2]; cbn.
  - reflexivity.
  - rewrite IH. reflexivity.
  - apply sadd_swap.
  - congruence.
Qed.

Lemma opt_map_perm {A B} (f : A -> option B) l l' : Permutation l l' ->
  forall a, opt_map f l = Some a -> exists a', opt_map f l' = Some a' /\ Permutation a a'.
Proof.
  intros H. induction H as [|x l l' Hp IH|x y l|l l' l'' H1 IH1 H2 IH2]; intros a Ha.
  - exists a. split; [exact Ha | reflexivity].
  - cbn in Ha. destruct (f x) as [b|] eqn:Ex; [|discriminate Ha].
    destruct (opt_map f l) as [t|] eqn:Et; [|discriminate Ha]. inversion Ha; subst.
    destruct (IH t eq_refl) as (t' & E' & P'). exists (b :: t'). cbn. rewrite Ex, E'.
    split; [reflexivity | constructor; exact P'].
  - cbn in Ha. destruct (f y) as [by_|] eqn:Ey; [|discriminate Ha].
    destruct (f x) as [bx|] eqn:Ex; [|discriminate Ha].
    destruct (opt_map f l) as [t|] eqn:Et; [|discriminate Ha]. inversion Ha; subst.
    exists (bx :: by_ :: t). cbn. rewrite Ex, Ey, Et. split; [reflexivity | apply perm_swap].
  - destruct (IH1 a Ha) as (a1 & E1 & P1). destruct (IH2 a1 E1) as (a2 & E2 & P2).
    exists a2. split; [exact E2 | eapply perm_trans; eassumption].
Qed.

Lemma sorted_rows_perm (src : list nat) : Permutation (map Z.to_nat (zsort (map Z.of_nat src))) src.
Proof.
  eapply Permutation_trans.
  - apply Permutation_map. apply zsort_perm.
  - rewrite map_map. rewrite (map_ext _ (fun x => x)); [rewrite map_id; reflexivity|].
    intros x. apply Nat2Z.id.
Qed.

Lemma opt_map_map {A B} (f : A -> option B) (g : A -> B) l :
  (forall x, In x l -> f x = Some (g x)) -> opt_map f l = Some (map g l).
Proof.
  induction l as [|x t IH]; intros H; [reflexivity|]. cbn.
  rewrite (H x (or_introl eq_refl)), IH; [reflexivity|]. intros y Hy. apply H. right. exact Hy.
Qed.

Lemma opt_map_some_all {A B} (f : A -> option B) : forall l a, opt_map f l = Some a ->
  forall x, In x l -> exists b, f x = Some b.
Proof.
  induction l as [|y t IH]; intros a H x Hx; [destruct Hx|].
  cbn in H. destruct (f y) as [b|] eqn:Ey; [|discriminate H].
  destruct (opt_map f t) as [t'|] eqn:Et; [|discriminate H].
  destruct Hx as [<-|Hx]; [exists b; exact Ey | apply (IH t' eq_refl x Hx)].
Qed.

(* the members of a set of rows = the members of its elements, up to order *)
Lemma members_of_cons lookup r rs cells : ~ In r rs ->
  Permutation (members_of lookup (r :: rs) cells) (members lookup r cells ++ members_of lookup rs cells).
Proof.
  intros Hr. unfold members_of, members. induction cells as [|c t IH]; cbn [filter map]; [constructor|].
  destruct (dict_get (fst c) lookup) as [r'|].
  - rewrite zmem_cons. destruct (r' =? r) eqn:E.
    + apply Z.eqb_eq in E. subst r'. cbn [orb map app].
      assert (Em : zmem r rs = false) by (apply zmem_false; exact Hr). rewrite Em.
      constructor. exact IH.
    + cbn [orb]. destruct (zmem r' rs); cbn [map].
      * apply Permutation_cons_app. exact IH.
      * exact IH.
  - exact IH.
Qed.

Lemma members_of_nil lookup cells : members_of lookup [] cells = [].
Proof.
  unfold members_of. induction cells as [|c t IH]; [reflexivity|]. cbn [filter].
  destruct (dict_get (fst c) lookup); cbn; exact IH.
Qed.

Lemma members_of_rect ng lookup rs cells : cells_rect ng cells -> rect ng (members_of lookup rs cells).
Proof.
  unfold cells_rect, rect, members_of. intros H. induction H as [|c t Hc Ht IH]; cbn; [constructor|].
  destruct (match dict_get (fst c) lookup with Some r => zmem r rs | None => false end); cbn.
  - constructor; [exact Hc | exact IH].
  - exact IH.
Qed.

(* collapsing rows that hold the statistics of disjoint groups of cells gives the
   statistics of the union of the groups: additivity at work *)
Lemma sum_of_stats D ng lookup cells : cells_rect ng cells -> forall rs, NoDup rs ->
  sum_rows ng (map (fun r => stats_of_rows D ng (members lookup r cells)) rs)
  = stats_of_rows D ng (members_of lookup rs cells).
Proof.
  intros Hc. induction rs as [|r t IH]; intros ND.
  - cbn. rewrite members_of_nil. reflexivity.
  - inversion ND as [|x l Hx Hl]; subst. cbn [map sum_rows fold_right].
    change (fold_right sadd (szero ng) ?l) with (sum_rows ng l). rewrite (IH Hl).
    rewrite <- stats_additive; [| apply members_rect; exact Hc | apply members_of_rect; exact Hc].
    symmetry. apply stats_perm; [apply members_of_rect; exact Hc|].
    apply members_of_cons. exact Hx.
Qed.

(* the row written for a group, when the input table is the direct table of the old leaves *)
Lemma row_sum_direct D nc ng lookup cells oc olds s :
  cells_rect ng cells ->
  row_sum ng (direct D nc ng lookup cells) oc olds = Some s ->
  exists src, opt_map (fun o => dict_get o oc) olds = Some src /\
              Forall (fun r => (r < nc)%nat) src /\
              (NoDup src -> s = stats_of_rows D ng (members_of lookup (map Z.of_nat src) cells)).
Proof.
  intros Hc H. unfold row_sum in H.
  destruct (opt_map (fun o => dict_get o oc) olds) as [src|] eqn:Es; [|discriminate H].
  destruct (opt_map (fun r => nth_error (direct D nc ng lookup cells) r)
                    (map Z.to_nat (zsort (map Z.of_nat src)))) as [rows|] eqn:Er; [|discriminate H].
  inversion H; subst s. exists src. split; [reflexivity|].
  destruct (opt_map_perm _ _ _ (sorted_rows_perm src) rows Er) as (rows' & Er' & Pr).
  assert (Hlt : Forall (fun r => (r < nc)%nat) src).
  { apply Forall_forall. intros r Hr. destruct (opt_map_some_all _ _ _ Er' r Hr) as (b & Hb).
    rewrite <- (direct_length D nc ng lookup cells). apply nth_error_Some. congruence. }
  split; [exact Hlt|]. intros ND.
  rewrite (sum_rows_perm ng rows rows' Pr).
  assert (Erows : rows' = map (fun r => stats_of_rows D ng (members lookup (Z.of_nat r) cells)) src).
  { rewrite (opt_map_map _ (fun r => stats_of_rows D ng (members lookup (Z.of_nat r) cells)) src) in Er'.
    - inversion Er'. reflexivity.
    - intros r Hr. rewrite Forall_forall in Hlt. apply direct_row. apply Hlt. exact Hr. }
  rewrite Erows. rewrite <- (map_map Z.of_nat (fun z => stats_of_rows D ng (members lookup z cells))).
  apply sum_of_stats; [exact Hc|].
  apply FinFun.Injective_map_NoDup; [intros a b; apply Nat2Z.inj | exact ND].
Qed.

Lemma dict_get_nodup {A} k (d : list (Z * A)) : NoDup (map fst d) -> dict_get k d = zassoc k d.
Proof.
  intros ND. unfold dict_get. destruct (zassoc k d) as [v|] eqn:E.
  - apply zassoc_in in E. apply zassoc_nodup_in.
    + rewrite map_rev. apply NoDup_rev. exact ND.
    + apply (proj1 (in_rev d (k, v))). exact E.
  - apply zassoc_none. apply zassoc_none in E. intros H. apply E. rewrite map_rev in H. apply in_rev in H. exact H.
Qed.

Lemma truncate_inv ng old_tree new_hier old_c2r data nt nc T :
  truncate ng old_tree new_hier old_c2r data = Ok (nt, nc, T) ->
  exists hier', 
    drop_levels old_tree (seq 0 (length old_tree))
                (filter (fun l => negb (nat_mem l new_hier)) (seq 0 (length old_tree))) = Ok (nt, hier') /\
    ((last hier' 0%nat = (length old_tree - 1)%nat /\ nc = old_c2r /\ T = data) \/
     (last hier' 0%nat <> (length old_tree - 1)%nat /\
      nc = combine (nodes (leaf_level nt)) (seq 0 (length (nodes (leaf_level nt)))) /\
      exists groups,
        group_by (ancestor_at old_tree (last hier' 0%nat)) (nodes (leaf_level old_tree)) [] = Some groups /\
        convert_to_new_leaves ng data old_c2r nc groups = Ok T)).
Proof.
  unfold truncate. cbv zeta. intros H.
  destruct (list_eq_dec Nat.eq_dec new_hier (seq 0 (length old_tree))); [discriminate H|].
  destruct (negb (forallb (fun l => nat_mem l (seq 0 (length old_tree))) new_hier)); [discriminate H|].
  destruct (negb (nat_sorted_b new_hier)); [discriminate H|].
  destruct (filter (fun l => negb (nat_mem l new_hier)) (seq 0 (length old_tree))) as [|d0 ds] eqn:Ef;
    [discriminate H|].
  unfold bind in H.
  destruct (drop_levels old_tree (seq 0 (length old_tree)) (d0 :: ds)) as [[nt' hier']|c] eqn:Ed; [|discriminate H].
  exists hier'.
  destruct (Nat.eqb_spec (last hier' 0%nat) (length old_tree - 1)) as [El|El].
  - inversion H; subst. split; [reflexivity|]. left. auto.
  - destruct (group_by (ancestor_at old_tree (last hier' 0%nat)) (nodes (leaf_level old_tree)) []) as [groups|] eqn:Eg;
      [|discriminate H].
    destruct (convert_to_new_leaves ng data old_c2r
                (combine (nodes (leaf_level nt')) (seq 0 (length (nodes (leaf_level nt'))))) groups) as [d|c] eqn:Ec;
      [|discriminate H].
    inversion H; subst. split; [reflexivity|]. right. split; [exact El|]. split; [reflexivity|].
    exists groups. split; [reflexivity | exact Ec].
Qed.

Lemma opt_map_inj_nodup {A} (f : Z -> option A) : forall l a,
  (forall x y v, In x l -> In y l -> f x = Some v -> f y = Some v -> x = y) ->
  NoDup l -> opt_map f l = Some a -> NoDup a.
Proof.
  induction l as [|x t IH]; intros a Hinj ND H.
  - inversion H. constructor.
  - cbn in H. destruct (f x) as [b|] eqn:Ex; [|discriminate H].
    destruct (opt_map f t) as [t'|] eqn:Et; [|discriminate H]. inversion H; subst.
    inversion ND as [|x0 l0 Hx Hl]; subst. constructor.
    + intros Hb. clear IH H.
      assert (Hex : exists y, In y t /\ f y = Some b).
      { clear Hinj Hx Hl ND Ex. revert t' Et Hb. induction t as [|y t IHt]; intros t' Et Hb.
        - inversion Et; subst. destruct Hb.
        - cbn in Et. destruct (f y) as [c|] eqn:Ey; [|discriminate Et].
          destruct (opt_map f t) as [t''|] eqn:Et'; [|discriminate Et]. inversion Et; subst.
          destruct Hb as [->|Hb].
          + exists y. split; [left; reflexivity | exact Ey].
          + destruct (IHt t'' eq_refl Hb) as (z & Hz & Fz). exists z. split; [right; exact Hz | exact Fz]. }
      destruct Hex as (y & Hy & Fy). apply Hx.
      rewrite (Hinj x y b (or_introl eq_refl) (or_intror Hy) Ex Fy). exact Hy.
    + apply (IH t'); [|exact Hl | reflexivity].
      intros u w v Hu Hw. apply Hinj; right; assumption.
Qed.

Lemma c2r_injective {A} (d : list (Z * A)) :
  NoDup (map fst d) -> NoDup (map snd d) ->
  forall x y v, dict_get x d = Some v -> dict_get y d = Some v -> x = y.
Proof.
  intros N1 N2 x y v Hx Hy. rewrite (dict_get_nodup x _ N1) in Hx. rewrite (dict_get_nodup y _ N1) in Hy.
  apply zassoc_in in Hx, Hy. clear N1.
  induction d as [|[k w] t IH]; [destruct Hx|].
  cbn in N2. inversion N2 as [|a l Ha Hl]; subst.
  destruct Hx as [Hx|Hx]; destruct Hy as [Hy|Hy].
  - congruence.
  - inversion Hx; subst. exfalso. apply Ha. apply (in_map snd) in Hy. exact Hy.
  - inversion Hy; subst. exfalso. apply Ha. apply (in_map snd) in Hx. exact Hx.
  - apply IH; assumption.
Qed.

Lemma nth_error_tzero nc ng r : (r < nc)%nat -> nth_error (tzero nc ng) r = Some (szero ng).
Proof.
  unfold tzero. revert r. induction nc as [|n IH]; intros r H; [lia|].
  destruct r as [|r]; cbn; [reflexivity | apply IH; lia].
Qed.

(* c09_truncation (table level).  Input table = the direct table of the old leaves.
   Either the leaf level is kept (table and row map unchanged), or: the new row map lists
   the new leaves in the new tree's order, and the row of EVERY new leaf L is the
   statistics of all cells sitting in rows of old leaves whose ancestor (in the OLD tree,
   at the level that became the leaf level) is L — zero when there is none. *)
Lemma truncation_core : forall D nc0 ng lookup cells old_tree new_hier old_c2r nt nc T,
  cells_rect ng cells ->
  NoDup (nodes (leaf_level old_tree)) -> NoDup (map fst old_c2r) -> NoDup (map snd old_c2r) ->
  NoDup (nodes (leaf_level nt)) ->
  truncate ng old_tree new_hier old_c2r (direct D nc0 ng lookup cells) = Ok (nt, nc, T) ->
  exists hier',
    drop_levels old_tree (seq 0 (length old_tree))
                (filter (fun l => negb (nat_mem l new_hier)) (seq 0 (length old_tree))) = Ok (nt, hier') /\
    ((last hier' 0%nat = (length old_tree - 1)%nat /\ nc = old_c2r /\ T = direct D nc0 ng lookup cells) \/
     (last hier' 0%nat <> (length old_tree - 1)%nat /\
      nc = combine (nodes (leaf_level nt)) (seq 0 (length (nodes (leaf_level nt)))) /\
      length T = length (nodes (leaf_level nt)) /\
      forall L dst, dict_get L nc = Some dst ->
        exists src,
          opt_map (fun o => dict_get o old_c2r)
                  (filter (anc_is (ancestor_at old_tree (last hier' 0%nat)) L) (nodes (leaf_level old_tree))) = Some src /\
          nth_error T dst = Some (stats_of_rows D ng (members_of lookup (map Z.of_nat src) cells)))).
Proof.
  intros D nc0 ng lookup cells old_tree new_hier old_c2r nt nc T Hc NDo N1 N2 NDn H.
  destruct (truncate_inv _ _ _ _ _ _ _ _ H) as (hier' & Hdrop & [(E0 & E1 & E2)|(El & Enc & groups & Eg & Ecv)]).
  - exists hier'. split; [exact Hdrop|]. left. auto.
  - exists hier'. split; [exact Hdrop|]. right. split; [exact El|]. split; [exact Enc|].
    set (anc := ancestor_at old_tree (last hier' 0%nat)) in *.
    set (newl := nodes (leaf_level nt)) in *.
    destruct (group_by_spec anc _ groups Eg) as (NDg & Hg).
    unfold convert_to_new_leaves in Ecv.
    destruct (convert_loop_spec ng _ old_c2r nc groups _ T Ecv) as (C1 & C2 & C3).
    assert (Hlen : length nc = length newl).
    { rewrite Enc, combine_length, seq_length. apply Nat.min_id. }
    unfold tzero in C1. rewrite repeat_length in C1.
    assert (NDnc : NoDup (map fst nc)).
    { rewrite Enc. rewrite map_fst_combine; [exact NDn | rewrite seq_length; reflexivity]. }
    assert (Hinj : forall L1 L2 d, dict_get L1 nc = Some d -> dict_get L2 nc = Some d -> L1 = L2).
    { intros L1 L2 d H1 H2. rewrite (dict_get_nodup L1 _ NDnc) in H1. rewrite (dict_get_nodup L2 _ NDnc) in H2.
      pose proof (c2r_generic newl NDn) as G. cbv zeta in G. destruct G as [_ G2].
      rewrite Enc in H1, H2. exact (G2 L1 L2 d H1 H2). }
    split; [congruence|].
    intros L dst Hd.
    assert (Hdst : (dst < length newl)%nat).
    { rewrite (dict_get_nodup _ _ NDnc) in Hd. rewrite Enc in Hd. apply zassoc_combine_seq_lt in Hd. exact Hd. }
    destruct (filter (anc_is anc L) (nodes (leaf_level old_tree))) as [|o os] eqn:Ef.
    + exists []. split; [reflexivity|]. cbn [map]. rewrite members_of_nil, stats_nil.
      rewrite C2.
      * apply (nth_error_tzero _ ng dst). rewrite Hlen. exact Hdst.
      * intros L' olds' Hin Hd'. pose proof (Hinj L' L dst Hd' Hd) as ->.
        apply Hg in Hin. destruct Hin as [E Hne]. rewrite Ef in E. contradiction.
    + assert (Hin : In (L, o :: os) groups) by (apply Hg; rewrite Ef; split; [reflexivity | discriminate]).
      destruct (C3 NDg Hinj L (o :: os) Hin) as (d & s & D1 & _ & D3 & D4).
      rewrite Hd in D1. inversion D1; subst d.
      destruct (row_sum_direct D nc0 ng lookup cells old_c2r (o :: os) s Hc D3) as (src & S1 & _ & S3).
      exists src. split; [exact S1|]. rewrite D4. f_equal. apply S3.
      apply (opt_map_inj_nodup (fun o0 => dict_get o0 old_c2r) (o :: os) src); [| |exact S1].
      * intros x y v _ _. apply (c2r_injective old_c2r N1 N2).
      * rewrite <- Ef. apply NoDup_filter. exact NDo.
Qed.

Lemma filter_all_true {A} (f : A -> bool) l : (forall x, In x l -> f x = true) -> filter f l = l.
Proof.
  induction l as [|x t IH]; intros H; [reflexivity|]. cbn.
  rewrite (H x (or_introl eq_refl)), IH; [reflexivity|]. intros y Hy. apply H. right. exact Hy.
Qed.

(* the hierarchy left after the drops = the old levels that are wanted, in order *)
Lemma index_of_remove : forall hier lv pos, NoDup hier -> index_of lv hier = Some pos ->
  remove_nth pos hier = filter (fun x => negb (Nat.eqb x lv)) hier.
Proof.
  induction hier as [|y t IH]; intros lv pos ND H; [discriminate H|].
  inversion ND as [|y0 t0 Hy Ht]; subst. cbn [index_of] in H. cbn [filter].
  destruct (Nat.eqb_spec lv y) as [->|Hne].
  - inversion H; subst pos. cbn [remove_nth]. rewrite Nat.eqb_refl. cbn [negb].
    symmetry. apply filter_all_true. intros x Hx.
    apply negb_true_iff. apply Nat.eqb_neq. intros ->. exact (Hy Hx).
  - destruct (index_of lv t) as [p|] eqn:Ep; [|discriminate H]. cbn in H. inversion H; subst pos.
    cbn [remove_nth]. rewrite (IH lv p Ht Ep).
    destruct (Nat.eqb_spec y lv) as [->|_]; [contradiction|]. reflexivity.
Qed.

Lemma filter_filter' {A} (f g : A -> bool) l : filter f (filter g l) = filter (fun x => g x && f x) l.
Proof.
  induction l as [|x t IH]; [reflexivity|]. cbn. destruct (g x); cbn; [destruct (f x)|]; rewrite IH; reflexivity.
Qed.

Lemma drop_levels_hier : forall to_drop t hier t' hier', NoDup hier ->
  drop_levels t hier to_drop = Ok (t', hier') ->
  hier' = filter (fun x => negb (nat_mem x to_drop)) hier.
Proof.
  induction to_drop as [|lv rest IH]; intros t hier t' hier' ND H.
  - cbn in H. inversion H; subst. symmetry. apply filter_all_true. reflexivity.
  - cbn [drop_levels] in H. destruct (index_of lv hier) as [pos|] eqn:Ei; [|discriminate H].
    destruct (if Nat.eqb (S pos) (length hier) then drop_leaf_level t else drop_level t pos) as [t1|c];
      [|discriminate H].
    rewrite (index_of_remove hier lv pos ND Ei) in H.
    rewrite (IH t1 _ t' hier' (NoDup_filter _ ND) H). rewrite filter_filter'.
    apply filter_ext. intros x. unfold nat_mem. cbn [existsb]. rewrite negb_orb. reflexivity.
Qed.

Lemma nat_mem_in x l : nat_mem x l = true <-> In x l.
Proof.
  unfold nat_mem. rewrite existsb_exists. split.
  - intros (y & Hy & E). apply Nat.eqb_eq in E. subst. exact Hy.
  - intros H. exists x. split; [exact H | apply Nat.eqb_refl].
Qed.

Lemma kept_levels n new_hier :
  filter (fun x => negb (nat_mem x (filter (fun l => negb (nat_mem l new_hier)) (seq 0 n)))) (seq 0 n)
  = filter (fun l => nat_mem l new_hier) (seq 0 n).
Proof.
  apply filter_ext_in. intros x Hx.
  destruct (nat_mem x new_hier) eqn:E.
  - apply negb_true_iff. destruct (nat_mem x (filter _ (seq 0 n))) eqn:E2; [|reflexivity].
    apply nat_mem_in in E2. apply filter_In in E2. destruct E2 as [_ E2]. rewrite E in E2. discriminate E2.
  - apply negb_false_iff. apply nat_mem_in. apply filter_In. split; [exact Hx|]. rewrite E. reflexivity.
Qed.

(* c09_truncation (table level).  Input table = the direct table of the old leaves; lvl =
   the deepest old level that is kept.  Either lvl is the old leaf level (table and row map
   unchanged), or: the new row map lists the new leaves in the new tree's order, and the row
   of EVERY new leaf L is the statistics of all cells sitting in rows of old leaves whose
   ancestor at level lvl of the OLD tree is L - zero when there is none. *)
Lemma truncation_collapse : forall D nc0 ng lookup cells old_tree new_hier old_c2r nt nc T,
  cells_rect ng cells ->
  NoDup (nodes (leaf_level old_tree)) -> NoDup (map fst old_c2r) -> NoDup (map snd old_c2r) ->
  NoDup (nodes (leaf_level nt)) ->
  truncate ng old_tree new_hier old_c2r (direct D nc0 ng lookup cells) = Ok (nt, nc, T) ->
  let lvl := last (filter (fun l => nat_mem l new_hier) (seq 0 (length old_tree))) 0%nat in
  (lvl = (length old_tree - 1)%nat /\ nc = old_c2r /\ T = direct D nc0 ng lookup cells) \/
  (lvl <> (length old_tree - 1)%nat /\
    nc = combine (nodes (leaf_level nt)) (seq 0 (length (nodes (leaf_level nt)))) /\
    length T = length (nodes (leaf_level nt)) /\
    forall L dst, dict_get L nc = Some dst ->
      exists src,
        opt_map (fun o => dict_get o old_c2r)
                (filter (anc_is (ancestor_at old_tree lvl) L) (nodes (leaf_level old_tree))) = Some src /\
        nth_error T dst = Some (stats_of_rows D ng (members_of lookup (map Z.of_nat src) cells))).
Proof.
  intros D nc0 ng lookup cells old_tree new_hier old_c2r nt nc T Hc NDo N1 N2 NDn H lvl.
  destruct (truncation_core D nc0 ng lookup cells old_tree new_hier old_c2r nt nc T Hc NDo N1 N2 NDn H)
    as (hier' & Hd & Hcase).
  apply drop_levels_hier in Hd; [|apply seq_NoDup]. rewrite kept_levels in Hd.
  assert (El : last hier' 0%nat = lvl) by (rewrite Hd; reflexivity).
  rewrite El in Hcase. exact Hcase.
Qed.
