(* C18, composition: the hypotheses `nth_error refs l = Some rl`, `getcols S rl = getcols S q` and the owners of
   centroid_wins / centroid_unanimous (Proofs/VoteMainP.v, Proofs/CentroidP.v) are DISCHARGED by the reference side
   (Proofs/RefSideP.v): refs = reference_data, owners = reference_types as assemble_query_data builds them from the
   statistics file, the taxonomy and the marker cache.  Values are integers over a common denominator, produced
   from (sum, max(1, n)) by an arbitrary embedding `mean`. *)
From Coq Require Import ZArith List Bool Lia Arith Permutation Sorted.
From CTM Require Import Base.Sx Base.ListX Base.SortX Model.Tree Model.Normalize Model.Markers Model.RefSide Model.Vote.
From CTM Require Import Proofs.NormalizeP Proofs.TreeP Proofs.MarkersP Proofs.RefSideP Proofs.VoteMainP Proofs.CentroidP.
Import ListNotations.
Open Scope Z_scope.

Section Compose.
Variable mean : Z -> Z -> Z.

(* the cell q is the mean profile of leaf L, read BY NAME from the statistics file, on the genes of the
   reference matrix assembled for parent P *)
Definition is_centroid_of (sf : sfile) (L : Z) (genes : list Z) (q : list Z) : Prop :=
  Forall2 (fun g v => option_map (fun sn => mean (fst sn) (Z.max 1 (snd sn))) (sf_at sf L g) = Some v) genes q.

Lemma centroid_row t sf fs m groups refg qg qgenes qnorm P a L q :
  validate t = true -> wf t ->
  get_leaf_means Z mean t sf fs = ROk m ->
  assemble_reference Z t groups refg qg qgenes qnorm m P = ROk a ->
  In L (m_cells (a_ref a)) ->
  is_centroid_of sf L (m_genes (a_ref a)) q ->
  exists l c, nth_error (m_cells (a_ref a)) l = Some L /\ nth_error (m_data (a_ref a)) l = Some q /\
              nth l (a_types a) (-1) = c /\ In c (children t P) /\
              ancestor_at t (length t - 1) L (child_level_of P) = Some c /\
              In L (nodes (leaf_level t)).
Proof.
  intros V W Hm Ha HL Hq.
  destruct (leaf_means_by_name Z mean t sf fs m Hm) as (Ec & _ & _ & _ & Hby).
  assert (Hleaf : In L (nodes (leaf_level t))).
  { destruct (assemble_inv Z _ _ _ _ _ _ _ _ _ Ha)
      as (_ & _ & _ & _ & _ & _ & _ & _ & _ & _ & _ & _ & _ & _ & _ & _ & _ & Fd).
    destruct (In_nth_error _ _ HL) as [i Hi].
    destruct (Forall2_nth_l _ _ _ _ _ Fd Hi) as (row & _ & rowm & Hrow & _).
    unfold mat_row in Hrow. destruct (gene_to_col (m_cells m) L) as [k|] eqn:Ek; [|discriminate].
    destruct (gene_to_col_spec _ _ _ Ek) as [_ Hn]. apply nth_error_In in Hn. rewrite Ec in Hn.
    apply (proj1 (zsort_in _ _)) in Hn. exact Hn. }
  destruct (centroid_is_a_reference_row Z t _ _ _ _ _ m P a L q V W Ha HL) as (l & c & H1 & H2 & H3 & H4 & H5).
  - eapply Forall2_weaken; [|exact Hq]. intros g v Hg. cbn beta in Hg. rewrite (Hby L g Hleaf). exact Hg.
  - exists l, c. split; [exact H1|]. split; [exact H2|]. split; [apply nth_error_nth; exact H3|]. tauto.
Qed.

(* one iteration *)
Theorem centroid_through_the_stages t sf fs m groups refg qg qgenes qnorm P a L q S i :
  validate t = true -> wf t ->
  get_leaf_means Z mean t sf fs = ROk m ->
  assemble_reference Z t groups refg qg qgenes qnorm m P = ROk a ->
  In L (m_cells (a_ref a)) ->
  is_centroid_of sf L (m_genes (a_ref a)) q ->
  0 < ccov (getcols S q) (getcols S q) ->
  (forall j rj c, nth_error (m_data (a_ref a)) j = Some rj ->
       ancestor_at t (length t - 1) L (child_level_of P) = Some c -> nth j (a_types a) (-1) <> c ->
       let qs := getcols S q in let rs := getcols S rj in
       ccov rs rs = 0 \/ ccov qs rs < 0 \/ ccov qs rs * ccov qs rs < ccov qs qs * ccov rs rs) ->
  nearest q (m_data (a_ref a)) S = Some i ->
  In (nth i (a_types a) (-1)) (children t P) /\
  ancestor_at t (length t - 1) L (child_level_of P) = Some (nth i (a_types a) (-1)).
Proof.
  intros V W Hm Ha HL Hq Hflat Hothers Hn.
  destruct (centroid_row t sf fs m _ _ _ _ _ P a L q V W Hm Ha HL Hq) as (l & c & H1 & H2 & H3 & H4 & H5 & _).
  assert (E : nth i (a_types a) (-1) = nth l (a_types a) (-1)).
  { apply (centroid_wins q (m_data (a_ref a)) (a_types a) S l q i H2 eq_refl Hflat); [|exact Hn].
    intros j rj Hj Hne. apply (Hothers j rj c Hj H5). rewrite <- H3. exact Hne. }
  rewrite E, H3. tauto.
Qed.

(* the whole vote at the node *)
Theorem centroid_vote_through_the_stages t sf fs m groups refg qg qgenes qnorm P a L q subsets winners c :
  validate t = true -> wf t ->
  get_leaf_means Z mean t sf fs = ROk m ->
  assemble_reference Z t groups refg qg qgenes qnorm m P = ROk a ->
  In L (m_cells (a_ref a)) ->
  is_centroid_of sf L (m_genes (a_ref a)) q ->
  ancestor_at t (length t - 1) L (child_level_of P) = Some c ->
  Forall (fun S => 0 < ccov (getcols S q) (getcols S q) /\
            forall j rj, nth_error (m_data (a_ref a)) j = Some rj -> nth j (a_types a) (-1) <> c ->
              let qs := getcols S q in let rs := getcols S rj in
              ccov rs rs = 0 \/ ccov qs rs < 0 \/ ccov qs rs * ccov qs rs < ccov qs qs * ccov rs rs) subsets ->
  tally q (m_data (a_ref a)) subsets = Some winners ->
  In c (children t P) /\
  length winners = length subsets /\
  Forall (fun w => nth w (a_types a) (-1) = c) winners /\
  votes_for (a_types a) winners c = length subsets /\
  (forall c', c' <> c -> votes_for (a_types a) winners c' = 0%nat).
Proof.
  intros V W Hm Ha HL Hq Hc HS Ht.
  destruct (centroid_row t sf fs m _ _ _ _ _ P a L q V W Hm Ha HL Hq) as (l & c0 & H1 & H2 & H3 & H4 & H5 & _).
  assert (Ec0 : c0 = c) by congruence. rewrite Ec0 in H3, H4. clear Ec0 H5.
  assert (HF : Forall (centroid_on q (m_data (a_ref a)) (a_types a) l q) subsets).
  { eapply Forall_impl; [|exact HS]. intros S (Hf & Ho). split; [reflexivity|]. split; [exact Hf|].
    intros j rj Hj Hne. apply (Ho j rj Hj). rewrite <- H3. exact Hne. }
  destruct (centroid_unanimous q _ (a_types a) subsets l q winners H2 HF Ht) as (U1 & _ & U3 & U4 & U5).
  rewrite H3 in U3, U4, U5. tauto.
Qed.

End Compose.

(* ------------------------------------------------------------------ a concrete instance (non-vacuity) *)
(* two levels; node 1 has the leaves 3 and 2 (listed unsorted), node 0 the single leaf 5; the statistics file holds
   its rows in another order, a cluster (9) that is not in the taxonomy, a cluster without cells (5), and its genes
   in the order 12, 10, 11; the query lists them as 11, 12, 10 *)
Definition ex_tree : tree := [[(1, [3; 2]); (0, [5])]; [(5, []); (2, []); (3, [])]].
Definition ex_sf : sfile :=
  mk_sfile true false [(3, 0); (5, 2); (2, 1); (9, 3)] [12; 10; 11] [2; 4; 0; 1]
           [[10; 20; 30]; [8; 0; 24]; [1; 2; 3]; [7; 7; 7]].
Definition ex_groups : list (pkey * (list nat * list nat)) :=
  [(None, ([0%nat; 2%nat], [1%nat; 0%nat])); (Some (0%nat, 1), ([0%nat; 1%nat; 2%nat], [1%nat; 2%nat; 0%nat]))].
Definition ex_refg : list Z := [12; 10; 11].
Definition ex_qg : list Z := [11; 12; 10].
(* means over the common denominator 4 *)
Definition ex_mean (s d : Z) : Z := s * 4 / d.

Lemma ex_tree_ok : validate ex_tree = true /\ wf ex_tree.
Proof. split; [vm_compute; reflexivity | apply wf_small; vm_compute; reflexivity]. Qed.

Lemma ex_leaf_means :
  get_leaf_means Z ex_mean ex_tree ex_sf false =
  ROk (mk_rmat [2; 3; 5] [12; 10; 11] [[8; 0; 24]; [20; 40; 60]; [4; 8; 12]] Log2CPM).
Proof. vm_compute. reflexivity. Qed.

(* the same file without any gene: refused with the ValueError of aggregate_stats (code 23), whatever
   for_marker_selection; with one gene: accepted *)
Definition ex_sf_nogene : sfile :=
  mk_sfile true true [(3, 0); (5, 2); (2, 1); (9, 3)] [] [2; 4; 0; 1] [[]; []; []; []].
Definition ex_sf_onegene : sfile :=
  mk_sfile true true [(3, 0); (5, 2); (2, 1); (9, 3)] [12] [2; 4; 0; 1] [[10]; [8]; [1]; [7]].
Lemma ex_zero_genes :
  sf_wf ex_sf_nogene /\
  get_leaf_means Z ex_mean ex_tree ex_sf_nogene false = RErr RE_ZEROGENES /\
  get_leaf_means Z ex_mean ex_tree ex_sf_nogene true = RErr RE_ZEROGENES /\
  get_leaf_means Z ex_mean ex_tree ex_sf_onegene true =
  ROk (mk_rmat [2; 3; 5] [12] [[8]; [20]; [4]] Log2CPM).
Proof.
  split; [|vm_compute; repeat split; reflexivity].
  unfold sf_wf. cbn. split; [reflexivity|]. split; [repeat constructor|]. split.
  - repeat constructor; cbn; intuition discriminate.
  - repeat constructor; cbn; lia.
Qed.

Lemma ex_assemble_root :
  rbind (get_leaf_means Z ex_mean ex_tree ex_sf false) (fun m =>
    assemble_reference Z ex_tree ex_groups ex_refg ex_qg ex_qg Log2CPM m None) =
  ROk (mk_assembled Z (mk_rmat [2; 3; 5] [12; 11] [[8; 24]; [20; 60]; [4; 12]] Log2CPM) [1; 1; 0] [12; 11]).
Proof. vm_compute. reflexivity. Qed.

Lemma ex_assemble_node :
  rbind (get_leaf_means Z ex_mean ex_tree ex_sf false) (fun m =>
    assemble_reference Z ex_tree ex_groups ex_refg ex_qg ex_qg Log2CPM m (Some (0%nat, 1))) =
  ROk (mk_assembled Z (mk_rmat [2; 3] [12; 10; 11] [[8; 0; 24]; [20; 40; 60]] Log2CPM) [2; 3] [12; 10; 11]).
Proof. vm_compute. reflexivity. Qed.

(* the centroid of leaf 3 on the genes of node 1 *)
Lemma ex_centroid : is_centroid_of ex_mean ex_sf 3 [12; 10; 11] [20; 40; 60].
Proof. repeat constructor. Qed.
(* ... is not flat on the subset of all three genes, the other leaf below node 1 is imperfectly correlated with it,
   and the iteration is won by row 1, whose type is leaf 3 *)
Lemma ex_vote :
  let q := [20; 40; 60] in let refs := [[8; 0; 24]; [20; 40; 60]] in let S := [0%nat; 1%nat; 2%nat] in
  0 < ccov (getcols S q) (getcols S q) /\
  ccov (getcols S q) (getcols S [8; 0; 24]) * ccov (getcols S q) (getcols S [8; 0; 24]) <
    ccov (getcols S q) (getcols S q) * ccov (getcols S [8; 0; 24]) (getcols S [8; 0; 24]) /\
  nearest q refs S = Some 1%nat /\
  ancestor_at ex_tree 1 3 1 = Some 3.
Proof. vm_compute. repeat split; reflexivity. Qed.

Lemma znodup_nat : NoDup [2%nat; 0%nat; 3%nat; 1%nat].
Proof. repeat constructor; cbn; intuition lia. Qed.
Lemma znodup_nat3 : NoDup [1%nat; 2%nat; 0%nat].
Proof. repeat constructor; cbn; intuition lia. Qed.
Lemma ex_file_wf :
  sf_wf ex_sf /\ Permutation [2%nat; 0%nat; 3%nat; 1%nat] (seq 0 (length (sf_n ex_sf))) /\
  Permutation [1%nat; 2%nat; 0%nat] (seq 0 (length (sf_cols ex_sf))).
Proof.
  split; [|split].
  - unfold sf_wf. cbn. split; [reflexivity|]. split; [repeat constructor|]. split.
    + apply znodup_b_spec. vm_compute. reflexivity.
    + repeat constructor; cbn; lia.
  - apply NoDup_Permutation; [apply znodup_nat | apply seq_NoDup |].
    intros x. cbn. intuition lia.
  - apply NoDup_Permutation; [apply znodup_nat3 | apply seq_NoDup |].
    intros x. cbn. intuition lia.
Qed.
