(* Proofs about the penetrance tests and the marker tables (Model/Penetrance.v):
   soundness / completeness of approx_penetrance_test and of score_differential_genes,
   direction, no gene both ways, pair swap, chunk merge. *)
From Coq Require Import ZArith List Bool Arith Lia Permutation Sorted.
From CTM Require Import Base.Sx Base.ListX Base.SortX Model.Holm Model.Penetrance Proofs.HolmP.
Import ListNotations.
Open Scope Z_scope.

(* ------------------------------------------------------------------ *)
(* specification vocabulary                                            *)
(* on or above every floor *)
Definition above_floors (th : thresholds) (g : score) : Prop :=
  let '(q1, qd, f) := g in q1_min th <= q1 /\ qdiff_min th <= qd /\ fold_min th <= f.
(* strictly above every strict threshold *)
Definition strictly_passes (th : thresholds) (g : score) : Prop :=
  let '(q1, qd, f) := g in q1_th th < q1 /\ qdiff_th th < qd /\ fold_th th < f.
Definition th_ordered (th : thresholds) : Prop :=
  q1_min th < q1_th th /\ qdiff_min th < qdiff_th th /\ fold_min th < fold_th th.

Lemma is_invalid_false th g : is_invalid th g = false <-> above_floors th g.
Proof.
  destruct g as [[q1 qd] f]. unfold is_invalid, above_floors.
  rewrite !orb_false_iff, !Z.ltb_ge. tauto.
Qed.

Lemma exact_test_true th g : exact_test th g = true <-> strictly_passes th g.
Proof.
  destruct g as [[q1 qd] f]. unfold exact_test, strictly_passes.
  rewrite !andb_true_iff, !Z.gtb_lt. tauto.
Qed.

(* ------------------------------------------------------------------ *)
(* list helpers                                                        *)
Lemma combine_map_self {A B} (f : A -> B) l : combine l (map f l) = map (fun x => (x, f x)) l.
Proof. induction l as [|x t IH]; cbn; [reflexivity|]. rewrite IH. reflexivity. Qed.

Lemma nth_error_combine {A B} : forall (a : list A) (b : list B) g,
  nth_error (combine a b) g =
  match nth_error a g, nth_error b g with Some x, Some y => Some (x, y) | _, _ => None end.
Proof.
  induction a as [|x a IH]; intros [|y b] [|g]; cbn; try reflexivity.
  - destruct (nth_error a g); reflexivity.
  - apply IH.
Qed.

Lemma nth_error_andb_list : forall a b g,
  nth_error (andb_list a b) g =
  match nth_error a g, nth_error b g with Some x, Some y => Some (x && y) | _, _ => None end.
Proof.
  induction a as [|x a IH]; intros [|y b] [|g]; cbn; try reflexivity.
  - destruct (nth_error a g); reflexivity.
  - apply IH.
Qed.

Lemma andb_list_true a b g :
  nth_error (andb_list a b) g = Some true <-> nth_error a g = Some true /\ nth_error b g = Some true.
Proof.
  rewrite nth_error_andb_list.
  destruct (nth_error a g) as [x|]; destruct (nth_error b g) as [y|]; split; intros H;
    try discriminate H; try (destruct H; discriminate).
  - inversion H as [E]. apply andb_true_iff in E. destruct E; subst. split; reflexivity.
  - destruct H as [H1 H2]. inversion H1; inversion H2; subst. reflexivity.
Qed.

Lemma nth_error_repeat_false n g : nth_error (repeat false n) g <> Some true.
Proof.
  intros H. apply nth_error_In in H. apply repeat_spec in H. discriminate H.
Qed.

Lemma nth_error_repeat_true n g : (g < n)%nat -> nth_error (repeat true n) g = Some true.
Proof.
  revert g. induction n as [|n IH]; intros g H; [lia|].
  destruct g as [|g]; cbn; [reflexivity | apply IH; lia].
Qed.

(* ------------------------------------------------------------------ *)
(* distances                                                           *)
Lemma term_nonneg x t : 0 <= term x t.
Proof. unfold term. destruct (t <? x); cbv iota; [lia | apply Z.square_nonneg]. Qed.

Lemma term_zero x t : t < x -> term x t = 0.
Proof. intros H. unfold term. apply Z.ltb_lt in H. rewrite H. reflexivity. Qed.

Lemma EPS_DEN_pos : 0 < EPS_DEN. Proof. reflexivity. Qed.
Lemma EPS_NUM_pos : 0 < EPS_NUM. Proof. reflexivity. Qed.

(* the per-gene record built by penetrance_parameter_distance, given the value of bad_dist *)
Definition gd_of (th : thresholds) (bad : Z) (g : score) : gdist :=
  let d := raw_dists th g in
  let inv := is_invalid th g in
  let q1d := if inv then bad else d_q1 d in
  let qdd := if inv then bad else d_qdiff d in
  let fd := if inv then bad else d_fold d in
  let w0 := if qdd <? q1d then qdd else q1d in
  let w := if w0 <? fd then w0 else fd in
  mk_gdist (d_true d) q1d qdd fd w inv.

Lemma zmax_list_ge x l : x <= zmax_list x l.
Proof. unfold zmax_list. induction l as [|y t IH]; cbn; lia. Qed.

Lemma raw_nonneg th g :
  0 <= d_true (raw_dists th g) /\ 0 <= d_q1 (raw_dists th g) /\
  0 <= d_qdiff (raw_dists th g) /\ 0 <= d_fold (raw_dists th g).
Proof.
  destruct g as [[q1 qd] f]. unfold raw_dists, d_true, d_q1, d_qdiff, d_fold. cbn [fst snd].
  pose proof (term_nonneg q1 (q1_th th)). pose proof (term_nonneg qd (qdiff_th th)).
  pose proof (term_nonneg f (fold_th th)). lia.
Qed.

Lemma ppd_inv S th scores ds :
  penetrance_parameter_distance S th scores = POk ds ->
  th_ordered th /\ exists bad, 0 <= bad /\ ds = map (gd_of th bad) scores.
Proof.
  unfold penetrance_parameter_distance. intros H.
  destruct (q1_th th <=? q1_min th) eqn:E1; [discriminate H|].
  destruct (qdiff_th th <=? qdiff_min th) eqn:E2; [discriminate H|].
  destruct (fold_th th <=? fold_min th) eqn:E3; [discriminate H|].
  apply Z.leb_gt in E1, E2, E3.
  split; [unfold th_ordered; lia|].
  destruct (map (raw_dists th) scores) as [|d0 rest] eqn:Em; [discriminate H|].
  inversion H as [Hds]. clear H.
  set (bad := zmax_list (d_qdiff d0) (map d_qdiff (d0 :: rest) ++ map d_q1 (d0 :: rest) ++ map d_fold (d0 :: rest))
              + 200 * S * S).
  exists bad. split.
  - pose proof (zmax_list_ge (d_qdiff d0)
        (map d_qdiff (d0 :: rest) ++ map d_q1 (d0 :: rest) ++ map d_fold (d0 :: rest))) as Hz.
    assert (Hd0 : 0 <= d_qdiff d0).
    { destruct scores as [|g0 gs]; [discriminate Em|]. cbn in Em. inversion Em; subst.
      apply raw_nonneg. }
    unfold bad. nia.
  - rewrite <- Em. rewrite combine_map_self, map_map. apply map_ext. intros g. reflexivity.
Qed.

Lemma gd_nonneg th bad g : 0 <= bad ->
  0 <= g_q1 (gd_of th bad g) /\ 0 <= g_qdiff (gd_of th bad g) /\ 0 <= g_fold (gd_of th bad g).
Proof.
  intros Hb. unfold gd_of. cbn [g_q1 g_qdiff g_fold]. pose proof (raw_nonneg th g) as (_ & H1 & H2 & H3).
  destruct (is_invalid th g); lia.
Qed.

(* an "absolutely valid" gene is on or above every floor: the code requires it not to be
   flagged invalid (F8 repaired; no distance between thresholds and floors is needed) *)
Lemma abs_valid_above_floors S th bad g :
  absolutely_valid S (gd_of th bad g) = true -> above_floors th g.
Proof.
  intros H. unfold absolutely_valid in H. apply andb_true_iff in H. destruct H as [_ H].
  apply negb_true_iff in H. unfold gd_of in H. cbn [g_invalid] in H.
  apply is_invalid_false. exact H.
Qed.

Lemma strict_gd S th bad g : 0 < S -> th_ordered th -> strictly_passes th g ->
  absolutely_valid S (gd_of th bad g) = true /\ g_invalid (gd_of th bad g) = false /\
  g_qdiff (gd_of th bad g) = 0.
Proof.
  intros HS (O1 & O2 & O3) Hp. destruct g as [[q1 qd] f]. destruct Hp as (P1 & P2 & P3).
  assert (Einv : is_invalid th (q1, qd, f) = false).
  { apply is_invalid_false. unfold above_floors. lia. }
  unfold gd_of. rewrite Einv.
  unfold absolutely_valid, within_eps. cbn [g_true g_invalid g_qdiff negb].
  unfold raw_dists, d_true, d_qdiff. cbn [fst snd].
  rewrite (term_zero q1 _ P1), (term_zero qd _ P2), (term_zero f _ P3).
  split; [|split; reflexivity].
  rewrite andb_true_r.
  apply Z.ltb_lt. change (2 * (0 + 0 + 0)) with 0. rewrite Z.mul_0_l.
  apply Z.mul_pos_pos; [exact EPS_NUM_pos | nia].
Qed.

Lemma kth_in k l a : kth k l = Some a -> In a l.
Proof. unfold kth. intros H. apply nth_error_In in H. apply (proj1 (zsort_in a l)) in H. exact H. Qed.

(* ------------------------------------------------------------------ *)
(* approx_penetrance_test                                              *)
Lemma approx_sound : forall S th n_valid scores m g,
  approx_penetrance_test S th n_valid scores = POk m -> nth_error m g = Some true ->
  exists sc, nth_error scores g = Some sc /\ above_floors th sc.
Proof.
  intros S th nv scores m g H Hg. unfold approx_penetrance_test in H. cbv zeta in H.
  destruct (penetrance_parameter_distance S th scores) as [ds|c] eqn:Ep; [|discriminate H].
  cbn [pbind] in H. apply ppd_inv in Ep. destruct Ep as (HO & bad & Hbad & Eds).
  destruct (Nat.min nv (length scores) <=? count_true (map (absolutely_valid S) ds))%nat.
  - inversion H; subst m. rewrite Eds, map_map in Hg.
    apply map_nth_error_inv in Hg. destruct Hg as (sc & Hsc & Hav).
    exists sc. split; [exact Hsc|]. apply (abs_valid_above_floors S th bad sc). symmetry. exact Hav.
  - destruct (kth (Nat.min nv (length scores) - 1) (map g_q1 ds)) as [a|]; [|discriminate H].
    destruct (kth (Nat.min nv (length scores) - 1) (map g_qdiff ds)) as [b|]; [|discriminate H].
    destruct (kth (Nat.min nv (length scores) - 1) (map g_fold ds)) as [c|]; [|discriminate H].
    inversion H; subst m. rewrite Eds, map_map in Hg.
    apply map_nth_error_inv in Hg. destruct Hg as (sc & Hsc & Hav).
    exists sc. split; [exact Hsc|]. symmetry in Hav. apply andb_true_iff in Hav. destruct Hav as [_ Hinv].
    apply negb_true_iff in Hinv. unfold gd_of in Hinv. cbn [g_invalid] in Hinv.
    apply is_invalid_false. exact Hinv.
Qed.

Lemma approx_complete : forall S th n_valid scores m g sc,
  0 < S ->
  approx_penetrance_test S th n_valid scores = POk m ->
  nth_error scores g = Some sc -> strictly_passes th sc -> nth_error m g = Some true.
Proof.
  intros S th nv scores m g sc HS H Hsc Hp. unfold approx_penetrance_test in H. cbv zeta in H.
  destruct (penetrance_parameter_distance S th scores) as [ds|c] eqn:Ep; [|discriminate H].
  cbn [pbind] in H. apply ppd_inv in Ep. destruct Ep as (HO & bad & Hbad & Eds).
  destruct (strict_gd S th bad sc HS HO Hp) as (G1 & G2 & G3).
  destruct (Nat.min nv (length scores) <=? count_true (map (absolutely_valid S) ds))%nat.
  - inversion H; subst m. rewrite Eds, map_map. rewrite (map_nth_error _ _ _ Hsc). f_equal. exact G1.
  - destruct (kth (Nat.min nv (length scores) - 1) (map g_q1 ds)) as [a|] eqn:Ka; [|discriminate H].
    destruct (kth (Nat.min nv (length scores) - 1) (map g_qdiff ds)) as [b|] eqn:Kb; [|discriminate H].
    destruct (kth (Nat.min nv (length scores) - 1) (map g_fold ds)) as [c|] eqn:Kc; [|discriminate H].
    inversion H; subst m. rewrite Eds, map_map. rewrite (map_nth_error _ _ _ Hsc). f_equal.
    rewrite G2, G3. cbn [negb]. rewrite andb_true_r.
    assert (Hcut : 0 <= zmin3 a b c).
    { apply kth_in in Ka, Kb, Kc. rewrite Eds, map_map in Ka, Kb, Kc.
      apply in_map_iff in Ka, Kb, Kc.
      destruct Ka as (x & <- & _). destruct Kb as (y & <- & _). destruct Kc as (z & <- & _).
      pose proof (gd_nonneg th bad x Hbad) as (X1 & _ & _).
      pose proof (gd_nonneg th bad y Hbad) as (_ & Y2 & _).
      pose proof (gd_nonneg th bad z Hbad) as (_ & _ & Z3).
      unfold zmin3. lia. }
    apply Z.leb_le in Hcut. rewrite Hcut. reflexivity.
Qed.

(* F8 (repaired): the former counterexample to soundness.  S = 2^20, q1_th = 0.109375,
   q1_min_th = 0.109375 - 2^-20, gene q1 = 0.109375 - 2^-19, n_valid = 1: the gene is within
   1e-10 of the strict corner but below the floor; it is now rejected *)
Lemma f8_witness_rejected :
  let th := mk_th 114688 114687 524288 104858 1048576 838861 in
  let sc : score := (114686, 943718, 2097152) in
  ~ above_floors th sc /\
  within_eps 1048576 (gd_of th 0 sc) = true /\
  approx_penetrance_test 1048576 th 1 [sc] = POk [false].
Proof.
  cbv zeta. split; [unfold above_floors; cbn; lia|].
  split; vm_compute; reflexivity.
Qed.

(* ------------------------------------------------------------------ *)
(* penetrance_tests and the gene list                                  *)
Definition crit (th : thresholds) (exact : bool) (sc : score) : Prop :=
  if exact then strictly_passes th sc else above_floors th sc.

Lemma pen_sound S th exact nv scs m g :
  penetrance_tests S th exact nv scs = POk m -> nth_error m g = Some true ->
  exists sc, nth_error scs g = Some sc /\ crit th exact sc.
Proof.
  intros H Hg. unfold penetrance_tests in H. destruct exact.
  - inversion H; subst m. apply map_nth_error_inv in Hg. destruct Hg as (sc & Hsc & Hx).
    exists sc. split; [exact Hsc|]. apply exact_test_true. symmetry. exact Hx.
  - apply (approx_sound S th nv scs m g H Hg).
Qed.

Lemma pen_complete S th exact nv scs m g sc :
  0 < S ->
  penetrance_tests S th exact nv scs = POk m ->
  nth_error scs g = Some sc -> strictly_passes th sc -> nth_error m g = Some true.
Proof.
  intros HS H Hsc Hp. unfold penetrance_tests in H. destruct exact.
  - inversion H; subst m. rewrite (map_nth_error _ _ _ Hsc). f_equal. apply exact_test_true. exact Hp.
  - apply (approx_complete S th nv scs m g sc HS H Hsc Hp).
Qed.

Definition masked_out (S : Z) : score := (- S, 0, - S).

Lemma nth_error_mask_scores S m scores g :
  nth_error (mask_scores S (Some m) scores) g =
  match nth_error m g, nth_error scores g with
  | Some b, Some sc => Some (if b then sc else masked_out S)
  | _, _ => None
  end.
Proof.
  unfold mask_scores. rewrite nth_error_map, nth_error_combine.
  destruct (nth_error m g) as [b|]; [|reflexivity].
  destruct (nth_error scores g) as [sc|]; reflexivity.
Qed.

Definition in_list (mask : option (list bool)) (g : nat) : Prop :=
  match mask with Some m => nth_error m g = Some true | None => True end.

(* a gene outside the gene list has q1 = -1, which is below any floor > -1 (and not above
   any strict threshold >= -1) *)
Lemma masked_out_fails S th exact : - S < q1_min th -> q1_min th < q1_th th -> ~ crit th exact (masked_out S).
Proof.
  intros H1 H2 Hc. unfold crit, masked_out in Hc. destruct exact.
  - unfold strictly_passes in Hc. lia.
  - unfold above_floors in Hc. lia.
Qed.

Section OnePass.
  Variables (S : Z) (th : thresholds) (exact : bool) (nv : nat) (scores : list score) (pv : list bool).
  Definition one_pass (m : option (list bool)) : pres (list bool) :=
    pbind (penetrance_tests S th exact nv (mask_scores S m scores))
          (fun pen => POk (andb_list pv pen)).

  Lemma one_pass_sound m v g :
    - S < q1_min th -> q1_min th < q1_th th ->
    one_pass m = POk v -> nth_error v g = Some true ->
    nth_error pv g = Some true /\ in_list m g /\
    exists sc, nth_error scores g = Some sc /\ crit th exact sc.
  Proof.
    intros Hf Ho H Hg. unfold one_pass in H.
    destruct (penetrance_tests S th exact nv (mask_scores S m scores)) as [pen|c] eqn:Ep; [|discriminate H].
    cbn [pbind] in H. inversion H; subst v. apply andb_list_true in Hg. destruct Hg as [Hpv Hpen].
    split; [exact Hpv|].
    destruct (pen_sound S th exact nv _ pen g Ep Hpen) as (sc & Hsc & Hc).
    destruct m as [mm|].
    - rewrite nth_error_mask_scores in Hsc.
      destruct (nth_error mm g) as [b|] eqn:Eb; [|discriminate Hsc].
      destruct (nth_error scores g) as [sc0|] eqn:Es; [|discriminate Hsc].
      inversion Hsc as [E]. destruct b.
      + split; [exact Eb|]. exists sc0. split; [reflexivity|]. subst sc. exact Hc.
      + exfalso. subst sc. apply (masked_out_fails S th exact Hf Ho Hc).
    - split; [exact Logic.I|]. exists sc. split; [exact Hsc | exact Hc].
  Qed.

  Lemma one_pass_complete m v g sc :
    0 < S ->
    one_pass m = POk v ->
    nth_error pv g = Some true -> in_list m g ->
    nth_error scores g = Some sc -> strictly_passes th sc ->
    nth_error v g = Some true.
  Proof.
    intros HS H Hpv Hin Hsc Hp. unfold one_pass in H.
    destruct (penetrance_tests S th exact nv (mask_scores S m scores)) as [pen|c] eqn:Ep; [|discriminate H].
    cbn [pbind] in H. inversion H; subst v. apply andb_list_true. split; [exact Hpv|].
    apply (pen_complete S th exact nv _ pen g sc HS Ep); [|exact Hp].
    destruct m as [mm|]; [|exact Hsc].
    rewrite nth_error_mask_scores. cbn in Hin. rewrite Hin, Hsc. reflexivity.
  Qed.
End OnePass.

(* ------------------------------------------------------------------ *)
(* score_differential_genes                                            *)
Definition pvalue_valid (x : pair_in) : list bool :=
  map (fun v => v <? pi_T x) (approx_correct_ttest (pi_SP x) (pi_T x) (pi_p x)).

Lemma sdg_unfold st mask x :
  score_differential_genes st mask x =
  let ng := length (pi_mean1 x) in
  if (pi_n1 x <? st_n_min st) || (pi_n2 x <? st_n_min st)
  then POk (repeat false ng, repeat false ng)
  else
    let pass := one_pass (st_S st) (st_th st) (st_exact st) (st_n_valid st) (pi_scores x) (pvalue_valid x) in
    let up := map (fun ab => snd ab >? fst ab) (combine (pi_mean1 x) (pi_mean2 x)) in
    pbind (pass mask) (fun v1 =>
      if (st_n_valid_min st <=? count_true v1)%nat || st_exact st then POk (v1, up)
      else
        let gene_mask := match mask with None => repeat true ng | Some m => m end in
        pbind (pass (Some (andb_list gene_mask (pvalue_valid x)))) (fun v2 => POk (v2, up))).
Proof. reflexivity. Qed.

Lemma sdg_sound : forall st mask x v up g,
  - st_S st < q1_min (st_th st) -> q1_min (st_th st) < q1_th (st_th st) ->
  score_differential_genes st mask x = POk (v, up) -> nth_error v g = Some true ->
  st_n_min st <= pi_n1 x /\ st_n_min st <= pi_n2 x /\
  (exists a, nth_error (approx_correct_ttest (pi_SP x) (pi_T x) (pi_p x)) g = Some a /\ a < pi_T x) /\
  in_list mask g /\
  exists sc, nth_error (pi_scores x) g = Some sc /\ crit (st_th st) (st_exact st) sc.
Proof.
  intros st mask x v up g Hf Ho H Hg. rewrite sdg_unfold in H. cbv zeta in H.
  destruct ((pi_n1 x <? st_n_min st) || (pi_n2 x <? st_n_min st)) eqn:En.
  { inversion H; subst v. exfalso. exact (nth_error_repeat_false _ _ Hg). }
  apply orb_false_iff in En. destruct En as [En1 En2]. apply Z.ltb_ge in En1, En2.
  split; [exact En1|]. split; [exact En2|].
  assert (Hpv : forall g, nth_error (pvalue_valid x) g = Some true ->
            exists a, nth_error (approx_correct_ttest (pi_SP x) (pi_T x) (pi_p x)) g = Some a /\ a < pi_T x).
  { intros g0 Hg0. unfold pvalue_valid in Hg0. apply map_nth_error_inv in Hg0.
    destruct Hg0 as (a & Ha & Hlt). exists a. split; [exact Ha|]. apply Z.ltb_lt. symmetry. exact Hlt. }
  destruct (one_pass (st_S st) (st_th st) (st_exact st) (st_n_valid st) (pi_scores x) (pvalue_valid x) mask)
    as [v1|c] eqn:E1; [|discriminate H].
  cbn [pbind] in H.
  destruct ((st_n_valid_min st <=? count_true v1)%nat || st_exact st).
  - inversion H; subst v1 up.
    destruct (one_pass_sound _ _ _ _ _ _ mask v g Hf Ho E1 Hg) as (P1 & P2 & P3).
    split; [apply Hpv; exact P1|]. split; [exact P2 | exact P3].
  - destruct (one_pass (st_S st) (st_th st) (st_exact st) (st_n_valid st) (pi_scores x) (pvalue_valid x)
               (Some (andb_list match mask with Some m => m | None => repeat true (length (pi_mean1 x)) end
                                (pvalue_valid x)))) as [v2|c] eqn:E2; [|discriminate H].
    cbn [pbind] in H. inversion H; subst v2 up.
    destruct (one_pass_sound _ _ _ _ _ _ _ v g Hf Ho E2 Hg) as (P1 & P2 & P3).
    split; [apply Hpv; exact P1|]. split; [|exact P3].
    cbn in P2. apply andb_list_true in P2. destruct P2 as [P2 _].
    destruct mask as [m|]; [exact P2 | exact Logic.I].
Qed.

Lemma sdg_complete : forall st mask x v up g sc,
  0 < st_S st -> length (pi_mean1 x) = length (pi_scores x) ->
  score_differential_genes st mask x = POk (v, up) ->
  st_n_min st <= pi_n1 x -> st_n_min st <= pi_n2 x ->
  (exists a, nth_error (approx_correct_ttest (pi_SP x) (pi_T x) (pi_p x)) g = Some a /\ a < pi_T x) ->
  in_list mask g ->
  nth_error (pi_scores x) g = Some sc -> strictly_passes (st_th st) sc ->
  nth_error v g = Some true.
Proof.
  intros st mask x v up g sc HS Hlen H Hn1 Hn2 (a & Ha & Hlt) Hin Hsc Hp.
  rewrite sdg_unfold in H. cbv zeta in H.
  assert (En : (pi_n1 x <? st_n_min st) || (pi_n2 x <? st_n_min st) = false).
  { apply orb_false_iff. split; apply Z.ltb_ge; assumption. }
  rewrite En in H.
  assert (Hpv : nth_error (pvalue_valid x) g = Some true).
  { unfold pvalue_valid. rewrite (map_nth_error _ _ _ Ha). f_equal. apply Z.ltb_lt. exact Hlt. }
  destruct (one_pass (st_S st) (st_th st) (st_exact st) (st_n_valid st) (pi_scores x) (pvalue_valid x) mask)
    as [v1|c] eqn:E1; [|discriminate H].
  cbn [pbind] in H.
  destruct ((st_n_valid_min st <=? count_true v1)%nat || st_exact st).
  - inversion H; subst v1 up.
    apply (one_pass_complete _ _ _ _ _ _ mask v g sc HS E1 Hpv Hin Hsc Hp).
  - destruct (one_pass (st_S st) (st_th st) (st_exact st) (st_n_valid st) (pi_scores x) (pvalue_valid x)
               (Some (andb_list match mask with Some m => m | None => repeat true (length (pi_mean1 x)) end
                                (pvalue_valid x)))) as [v2|c] eqn:E2; [|discriminate H].
    cbn [pbind] in H. inversion H; subst v2 up.
    apply (one_pass_complete _ _ _ _ _ _ _ v g sc HS E2 Hpv); [|exact Hsc | exact Hp].
    cbn. apply andb_list_true. split; [|exact Hpv].
    destruct mask as [m|]; [exact Hin|].
    apply nth_error_repeat_true. rewrite Hlen. apply nth_error_Some. congruence.
Qed.

(* with exact penetrance requested: recorded <-> corrected p below threshold, strictly
   passing, in the gene list (and both clusters large enough) *)
Lemma sdg_exact_iff : forall st mask x v up g,
  st_exact st = true ->
  - st_S st < q1_min (st_th st) -> q1_min (st_th st) < q1_th (st_th st) -> 0 < st_S st ->
  length (pi_mean1 x) = length (pi_scores x) ->
  score_differential_genes st mask x = POk (v, up) ->
  (nth_error v g = Some true <->
   st_n_min st <= pi_n1 x /\ st_n_min st <= pi_n2 x /\
   (exists a, nth_error (approx_correct_ttest (pi_SP x) (pi_T x) (pi_p x)) g = Some a /\ a < pi_T x) /\
   in_list mask g /\
   exists sc, nth_error (pi_scores x) g = Some sc /\ strictly_passes (st_th st) sc).
Proof.
  intros st mask x v up g Hex Hf Ho HS Hlen H. split.
  - intros Hg. pose proof (sdg_sound st mask x v up g Hf Ho H Hg) as R. rewrite Hex in R. exact R.
  - intros (N1 & N2 & Hp & Hin & sc & Hsc & Hst).
    apply (sdg_complete st mask x v up g sc HS Hlen H N1 N2 Hp Hin Hsc Hst).
Qed.

(* ------------------------------------------------------------------ *)
(* direction, no gene both ways                                        *)
Lemma where_true_in : forall l k g,
  In g (where_true k l) <-> (k <= g)%nat /\ nth_error l (g - k) = Some true.
Proof.
  induction l as [|b t IH]; intros k g; cbn [where_true].
  - split; [intros [] | intros [_ H]; destruct (g - k)%nat; discriminate H].
  - assert (Hstep : forall g, (S k <= g)%nat -> nth_error (b :: t) (g - k) = nth_error t (g - S k)).
    { intros g0 H0. replace (g0 - k)%nat with (S (g0 - S k)) by lia. reflexivity. }
    destruct b.
    + split.
      * intros [<-|Hin]; [split; [lia|]; rewrite Nat.sub_diag; reflexivity|].
        apply IH in Hin. destruct Hin as [H1 H2]. split; [lia|]. rewrite Hstep by lia. exact H2.
      * intros [H1 H2]. destruct (Nat.eq_dec k g) as [->|Hne]; [left; reflexivity|].
        right. apply IH. split; [lia|]. rewrite <- Hstep by lia. exact H2.
    + split.
      * intros Hin. apply IH in Hin. destruct Hin as [H1 H2]. split; [lia|]. rewrite Hstep by lia. exact H2.
      * intros [H1 H2]. destruct (Nat.eq_dec k g) as [->|Hne].
        { rewrite Nat.sub_diag in H2. discriminate H2. }
        apply IH. split; [lia|]. rewrite <- Hstep by lia. exact H2.
Qed.

Lemma where_true_sorted : forall l k, StronglySorted lt (where_true k l).
Proof.
  induction l as [|b t IH]; intros k; cbn [where_true]; [constructor|].
  destruct b; [|apply IH]. constructor; [apply IH|].
  apply Forall_forall. intros g Hg. apply where_true_in in Hg. lia.
Qed.

Lemma up_down_spec : forall v u g,
  (In g (fst (up_down (v, u))) <-> nth_error v g = Some true /\ nth_error u g = Some true) /\
  (In g (snd (up_down (v, u))) <-> nth_error v g = Some true /\ nth_error u g = Some false).
Proof.
  intros v u g. unfold up_down. cbn [fst snd]. rewrite !where_true_in, !Nat.sub_0_r, !andb_list_true.
  rewrite nth_error_map. split.
  - split; [intros [_ H]; exact H | intros H; split; [lia | exact H]].
  - split.
    + intros [_ [H1 H2]]. split; [exact H1|]. destruct (nth_error u g) as [[|]|]; cbn in H2; try discriminate H2. reflexivity.
    + intros [H1 H2]. split; [lia|]. split; [exact H1|]. rewrite H2. reflexivity.
Qed.

Lemma no_gene_both_ways : forall v u g,
  ~ (In g (fst (up_down (v, u))) /\ In g (snd (up_down (v, u)))).
Proof.
  intros v u g [H1 H2]. apply up_down_spec in H1, H2.
  destruct H1 as [_ H1]. destruct H2 as [_ H2]. rewrite H1 in H2. discriminate H2.
Qed.

Lemma up_down_cover : forall v u g, length u = length v ->
  (nth_error v g = Some true <-> In g (fst (up_down (v, u))) \/ In g (snd (up_down (v, u)))).
Proof.
  intros v u g Hlen. pose proof (up_down_spec v u g) as [H1 H2]. rewrite H1, H2. split.
  - intros Hv. destruct (nth_error u g) as [[|]|] eqn:E.
    + left. split; [exact Hv | reflexivity].
    + right. split; [exact Hv | reflexivity].
    + exfalso. apply nth_error_None in E. assert (g < length v)%nat by (apply nth_error_Some; congruence). lia.
  - intros [[H _]|[H _]]; exact H.
Qed.

(* the direction recorded is the sign of mean2 - mean1 *)
Lemma sdg_direction : forall st mask x v up,
  score_differential_genes st mask x = POk (v, up) ->
  (pi_n1 x <? st_n_min st) || (pi_n2 x <? st_n_min st) = false ->
  up = map (fun ab => snd ab >? fst ab) (combine (pi_mean1 x) (pi_mean2 x)) /\
  forall g m1 m2, nth_error (pi_mean1 x) g = Some m1 -> nth_error (pi_mean2 x) g = Some m2 ->
     nth_error up g = Some (m2 >? m1).
Proof.
  intros st mask x v up H En. rewrite sdg_unfold in H. cbv zeta in H. rewrite En in H.
  assert (Eup : up = map (fun ab => snd ab >? fst ab) (combine (pi_mean1 x) (pi_mean2 x))).
  { destruct (one_pass _ _ _ _ _ _ mask) as [v1|c]; [|discriminate H]. cbn [pbind] in H.
    destruct ((st_n_valid_min st <=? count_true v1)%nat || st_exact st); [inversion H; reflexivity|].
    destruct (one_pass _ _ _ _ _ _ _) as [v2|c]; [|discriminate H]. cbn [pbind] in H. inversion H; reflexivity. }
  split; [exact Eup|]. intros g m1 m2 H1 H2. rewrite Eup, nth_error_map, nth_error_combine, H1, H2. reflexivity.
Qed.

(* ------------------------------------------------------------------ *)
(* swapping the two clusters of a pair                                 *)
Definition swap_pair (x : pair_in) : pair_in :=
  mk_pair_in (pi_n2 x) (pi_n1 x) (pi_SP x) (pi_T x) (pi_p x) (pi_scores x) (pi_mean2 x) (pi_mean1 x).

Lemma repeat_length_eq {A} (a : A) n m : n = m -> repeat a n = repeat a m.
Proof. intros ->. reflexivity. Qed.

Lemma sdg_swap_validity : forall st mask x v up,
  length (pi_mean1 x) = length (pi_mean2 x) ->
  score_differential_genes st mask x = POk (v, up) ->
  exists up', score_differential_genes st mask (swap_pair x) = POk (v, up').
Proof.
  intros st mask x v up Hlen H. rewrite sdg_unfold in H. rewrite sdg_unfold. cbv zeta in *.
  unfold swap_pair at 1 2 3. cbn [pi_n1 pi_n2 pi_mean1].
  rewrite (orb_comm (pi_n2 x <? st_n_min st)).
  destruct ((pi_n1 x <? st_n_min st) || (pi_n2 x <? st_n_min st)).
  { inversion H; subst. rewrite <- Hlen. eexists. reflexivity. }
  change (pvalue_valid (swap_pair x)) with (pvalue_valid x).
  change (pi_scores (swap_pair x)) with (pi_scores x).
  destruct (one_pass _ _ _ _ _ _ mask) as [v1|c]; [|discriminate H]. cbn [pbind] in *.
  destruct ((st_n_valid_min st <=? count_true v1)%nat || st_exact st).
  { inversion H; subst. eexists. reflexivity. }
  change (pi_mean1 (swap_pair x)) with (pi_mean2 x). rewrite <- Hlen.
  destruct (one_pass _ _ _ _ _ _ _) as [v2|c]; [|discriminate H]. cbn [pbind] in *.
  inversion H; subst. eexists. reflexivity.
Qed.

(* a recorded gene has a fold change >= the floor > 0, i.e. different means: swapping the
   pair flips its direction (and nothing else changes) *)
Lemma sdg_pair_swap : forall st mask x v up g,
  - st_S st < q1_min (st_th st) -> q1_min (st_th st) < q1_th (st_th st) ->
  0 < fold_min (st_th st) -> fold_min (st_th st) < fold_th (st_th st) ->
  length (pi_mean1 x) = length (pi_mean2 x) ->
  (forall g q1 qd f m1 m2, nth_error (pi_scores x) g = Some (q1, qd, f) ->
       nth_error (pi_mean1 x) g = Some m1 -> nth_error (pi_mean2 x) g = Some m2 -> f = Z.abs (m1 - m2)) ->
  score_differential_genes st mask x = POk (v, up) ->
  exists up', score_differential_genes st mask (swap_pair x) = POk (v, up') /\
    (nth_error v g = Some true ->
     forall b, nth_error up g = Some b -> nth_error up' g = Some (negb b)).
Proof.
  intros st mask x v up g Hf Ho Hfm Hft Hlen Hfold H.
  destruct (sdg_swap_validity st mask x v up Hlen H) as (up' & H').
  exists up'. split; [exact H'|]. intros Hg b Hb.
  destruct (sdg_sound st mask x v up g Hf Ho H Hg) as (N1 & N2 & _ & _ & sc & Hsc & Hc).
  assert (En : (pi_n1 x <? st_n_min st) || (pi_n2 x <? st_n_min st) = false)
    by (apply orb_false_iff; split; apply Z.ltb_ge; assumption).
  assert (En' : (pi_n1 (swap_pair x) <? st_n_min st) || (pi_n2 (swap_pair x) <? st_n_min st) = false)
    by (cbn; apply orb_false_iff; split; apply Z.ltb_ge; assumption).
  destruct (sdg_direction st mask x v up H En) as [Eup Dup].
  destruct (sdg_direction st mask (swap_pair x) v up' H' En') as [Eup' Dup'].
  cbn [swap_pair pi_mean1 pi_mean2] in Dup'.
  rewrite Eup, nth_error_map, nth_error_combine in Hb.
  destruct (nth_error (pi_mean1 x) g) as [m1|] eqn:E1; [|discriminate Hb].
  destruct (nth_error (pi_mean2 x) g) as [m2|] eqn:E2; [|discriminate Hb].
  cbn in Hb. inversion Hb as [Eb]. rewrite (Dup' g m2 m1 E2 E1). f_equal.
  destruct sc as [[q1 qd] f]. pose proof (Hfold g q1 qd f m1 m2 Hsc E1 E2) as Ef.
  assert (Hfpos : 0 < f).
  { unfold crit in Hc. destruct (st_exact st); [unfold strictly_passes in Hc | unfold above_floors in Hc]; lia. }
  destruct (m2 >? m1) eqn:Ea; destruct (m1 >? m2) eqn:Ec; try reflexivity.
  - apply Z.gtb_lt in Ea, Ec. lia.
  - rewrite Z.gtb_ltb in Ea, Ec. apply Z.ltb_ge in Ea, Ec. lia.
Qed.

(* ------------------------------------------------------------------ *)
(* per-chunk sparse tables and their merge                             *)
Lemma indptr_shift : forall rows off a, map (Nat.add off) (indptr_of rows a) = indptr_of rows (off + a).
Proof.
  induction rows as [|r t IH]; intros off a; cbn; [reflexivity|].
  rewrite IH. do 2 f_equal. lia.
Qed.

Lemma removelast_map {A B} (f : A -> B) l : removelast (map f l) = map f (removelast l).
Proof.
  induction l as [|x t IH]; [reflexivity|]. cbn [map removelast].
  destruct t as [|y t']; [reflexivity|]. cbn [map] in *. rewrite IH. reflexivity.
Qed.

Lemma indptr_nonempty rows a : indptr_of rows a <> [].
Proof. destruct rows; discriminate. Qed.

Lemma indptr_app : forall r1 r2 a,
  indptr_of (r1 ++ r2) a = removelast (indptr_of r1 a) ++ indptr_of r2 (a + length (concat r1)).
Proof.
  induction r1 as [|r t IH]; intros r2 a.
  - cbn. rewrite Nat.add_0_r. reflexivity.
  - cbn [app indptr_of concat]. rewrite IH.
    destruct (indptr_of t (a + length r)) as [|y l] eqn:E; [exfalso; exact (indptr_nonempty _ _ E)|].
    cbn [removelast app]. rewrite app_length. do 3 f_equal. lia.
Qed.

Lemma merge_sparse_spec : forall (chs : list (list (list nat))) off,
  merge_sparse (map lookup_to_sparse chs) off =
  (indptr_of (concat chs) off, concat (concat chs)).
Proof.
  induction chs as [|ch t IH]; intros off; [reflexivity|].
  cbn [map merge_sparse lookup_to_sparse concat]. unfold lookup_to_sparse at 1. cbv beta iota.
  rewrite !IH. cbn [fst snd]. rewrite concat_app. f_equal.
  rewrite <- removelast_map, indptr_shift, Nat.add_0_r, indptr_app. reflexivity.
Qed.

Lemma chunk_list_concat {A} : forall fuel n_per (l : list A),
  (1 <= n_per)%nat -> (length l <= fuel)%nat -> concat (chunk_list fuel n_per l) = l.
Proof.
  induction fuel as [|f IH]; intros n_per l Hn Hf.
  - destruct l; [reflexivity | cbn in Hf; lia].
  - cbn [chunk_list]. destruct l as [|x t]; [reflexivity|].
    cbn [concat]. rewrite IH; [apply firstn_skipn | exact Hn |].
    rewrite skipn_length. cbn [length] in *. lia.
Qed.

(* c11_chunk_merge: cutting the pairs into chunks of any size n_per >= 1, writing one
   sparse table per chunk and merging them in order gives the table of all pairs *)
Lemma chunk_merge : forall n_per (rows : list (list nat)), (1 <= n_per)%nat ->
  merge_sparse (map lookup_to_sparse (chunk_list (length rows) n_per rows)) 0 = lookup_to_sparse rows.
Proof.
  intros n_per rows Hn. rewrite merge_sparse_spec.
  rewrite chunk_list_concat by (try exact Hn; lia). reflexivity.
Qed.

Lemma n_per_pos n p : (1 <= n_per_of n p)%nat.
Proof. unfold n_per_of. cbv zeta. lia. Qed.

Lemma concat_map_map {A B} (f : A -> B) (ll : list (list A)) : concat (map (map f) ll) = map f (concat ll).
Proof. induction ll as [|l t IH]; cbn; [reflexivity|]. rewrite map_app, IH. reflexivity. Qed.

Lemma merged_tables {A} (f : A -> list nat) (uds : list A) n_per : (1 <= n_per)%nat ->
  merge_sparse (map (fun ch => lookup_to_sparse (map f ch)) (chunk_list (length uds) n_per uds)) 0
  = lookup_to_sparse (map f uds).
Proof.
  intros Hn.
  rewrite <- (map_map (map f) lookup_to_sparse).
  rewrite merge_sparse_spec, concat_map_map, chunk_list_concat by (try exact Hn; lia). reflexivity.
Qed.

(* the marker tables do not depend on the number of workers (which only sets the chunk size) *)
Lemma find_markers_workers : forall st gn gl np np' pairs,
  find_markers st gn gl np pairs = find_markers st gn gl np' pairs.
Proof.
  intros st gn gl np np' pairs. unfold find_markers.
  destruct (gene_mask_of gn gl) as [mask|c]; [|reflexivity]. cbn [pbind].
  destruct (pmap _ pairs) as [uds|c]; [|reflexivity]. cbn [pbind]. cbv zeta.
  rewrite !(merged_tables fst uds _ (n_per_pos _ _)), !(merged_tables snd uds _ (n_per_pos _ _)).
  reflexivity.
Qed.

(* F17 (repaired): the tables are written whatever the per-pair lists are - in particular
   when no pair has an up-regulated (or a down-regulated) marker.  Whenever the gene list
   overlaps the genes and every pair is scored, find_markers returns the CSR tables of the
   per-pair up lists and down lists *)
Lemma find_markers_tables : forall st gn gl np pairs mask uds,
  gene_mask_of gn gl = POk mask ->
  pmap (fun x => pbind (score_differential_genes st mask x) (fun vu => POk (up_down vu))) pairs = POk uds ->
  find_markers st gn gl np pairs = POk (lookup_to_sparse (map fst uds), lookup_to_sparse (map snd uds)).
Proof.
  intros st gn gl np pairs mask uds Hm Hp. unfold find_markers. rewrite Hm. cbn [pbind].
  rewrite Hp. cbn [pbind]. cbv zeta.
  rewrite (merged_tables fst uds _ (n_per_pos _ _)), (merged_tables snd uds _ (n_per_pos _ _)).
  reflexivity.
Qed.

Lemma indptr_of_nil_rows : forall (rows : list (list nat)) a,
  Forall (fun r => r = []) rows -> indptr_of rows a = repeat a (S (length rows)) /\ concat rows = [].
Proof.
  induction rows as [|r t IH]; intros a Hall; [split; reflexivity|].
  inversion Hall as [|r' t' Hr Ht]; subst. destruct (IH (a + 0)%nat Ht) as [I1 I2].
  cbn [indptr_of concat length app]. rewrite I1, I2, Nat.add_0_r. split; reflexivity.
Qed.

(* the table of a direction in which no pair has a marker: no gene index, all pointers 0 *)
Lemma empty_direction_table : forall (rows : list (list nat)),
  Forall (fun r => r = []) rows ->
  lookup_to_sparse rows = (repeat 0%nat (S (length rows)), []).
Proof.
  intros rows H. unfold lookup_to_sparse. destruct (indptr_of_nil_rows rows 0%nat H) as [I1 I2].
  rewrite I1, I2. reflexivity.
Qed.

(* ------------------------------------------------------------------ *)
(* the p-value-mask route                                              *)
Lemma mask_entries_in T : forall pv ds k g w,
  In (g, w) (mask_entries k T pv ds) <->
  (k <= g)%nat /\ exists v d, nth_error pv (g - k) = Some v /\ nth_error ds (g - k) = Some d /\
                               v < T /\ g_invalid d = false /\ w = g_wgt d.
Proof.
  induction pv as [|v0 pv IH]; intros ds k g w.
  - cbn. split; [intros [] | intros (_ & v & d & H & _)]. destruct (g - k)%nat; discriminate H.
  - destruct ds as [|d0 ds].
    + cbn. split; [intros [] | intros (_ & v & d & _ & H & _)]. destruct (g - k)%nat; discriminate H.
    + cbn [mask_entries].
      assert (Hstep : forall g, (S k <= g)%nat ->
                nth_error (v0 :: pv) (g - k) = nth_error pv (g - S k) /\
                nth_error (d0 :: ds) (g - k) = nth_error ds (g - S k)).
      { intros g0 H0. replace (g0 - k)%nat with (S (g0 - S k)) by lia. split; reflexivity. }
      assert (Htail : In (g, w) (mask_entries (S k) T pv ds) <->
                      (S k <= g)%nat /\ exists v d, nth_error (v0 :: pv) (g - k) = Some v /\
                         nth_error (d0 :: ds) (g - k) = Some d /\ v < T /\ g_invalid d = false /\ w = g_wgt d).
      { rewrite IH. split; intros (Hk & v & d & H1 & H2 & R); (split; [exact Hk|]); exists v, d;
          destruct (Hstep g Hk) as [S1 S2]; [rewrite S1, S2 | rewrite <- S1, <- S2]; auto. }
      destruct ((v0 <? T) && negb (g_invalid d0)) eqn:E.
      * apply andb_true_iff in E. destruct E as [E1 E2]. apply Z.ltb_lt in E1. apply negb_true_iff in E2.
        split.
        -- intros [Heq|Hin].
           ++ inversion Heq; subst g w. split; [lia|]. rewrite Nat.sub_diag. exists v0, d0. cbn. auto.
           ++ apply Htail in Hin. destruct Hin as [Hk R]. split; [lia | exact R].
        -- intros (Hk & v & d & H1 & H2 & H3 & H4 & H5).
           destruct (Nat.eq_dec k g) as [->|Hne].
           ++ rewrite Nat.sub_diag in H1, H2. cbn in H1, H2. inversion H1; inversion H2; subst. left. reflexivity.
           ++ right. apply Htail. split; [lia|]. exists v, d. auto.
      * split.
        -- intros Hin. apply Htail in Hin. destruct Hin as [Hk R]. split; [lia | exact R].
        -- intros (Hk & v & d & H1 & H2 & H3 & H4 & H5).
           destruct (Nat.eq_dec k g) as [->|Hne].
           ++ rewrite Nat.sub_diag in H1, H2. cbn in H1, H2. inversion H1; inversion H2; subst.
              apply Z.ltb_lt in H3. rewrite H3, H4 in E. discriminate E.
           ++ apply Htail. split; [lia|]. exists v, d. auto.
Qed.

Lemma strict_wgt th bad g : th_ordered th -> strictly_passes th g -> g_wgt (gd_of th bad g) = 0.
Proof.
  intros (O1 & O2 & O3) Hp. destruct g as [[q1 qd] f]. destruct Hp as (P1 & P2 & P3).
  assert (Einv : is_invalid th (q1, qd, f) = false) by (apply is_invalid_false; unfold above_floors; lia).
  unfold gd_of. rewrite Einv. cbn [g_wgt]. unfold raw_dists, d_q1, d_qdiff, d_fold. cbn [fst snd].
  rewrite (term_zero q1 _ P1), (term_zero qd _ P2), (term_zero f _ P3). reflexivity.
Qed.

(* the mask file: a gene has an entry for a pair iff its corrected p-value is below p_th and it
   is on or above every floor; the entry of a strictly passing gene is 0 ("strictly valid") *)
Lemma p_mask_row_spec : forall st x es,
  p_mask_row st x = POk es ->
  forall g, (exists w, In (g, w) es) <->
    exists a sc, nth_error (approx_correct_ttest (pi_SP x) (pi_T x) (pi_p x)) g = Some a /\ a < pi_T x /\
                 nth_error (pi_scores x) g = Some sc /\ above_floors (st_th st) sc.
Proof.
  intros st x es H g. unfold p_mask_row in H. cbv zeta in H.
  destruct (penetrance_parameter_distance (st_S st) (st_th st) (pi_scores x)) as [ds|c] eqn:Ep; [|discriminate H].
  cbn [pbind] in H. inversion H; subst es. apply ppd_inv in Ep. destruct Ep as (HO & bad & _ & Eds).
  split.
  - intros (w & Hin). apply mask_entries_in in Hin. rewrite Nat.sub_0_r in Hin.
    destruct Hin as (_ & v & d & H1 & H2 & H3 & H4 & _).
    rewrite Eds in H2. apply map_nth_error_inv in H2. destruct H2 as (sc & Hsc & Ed).
    exists v, sc. split; [exact H1|]. split; [exact H3|]. split; [exact Hsc|].
    apply is_invalid_false. subst d. exact H4.
  - intros (a & sc & H1 & H2 & H3 & H4). exists (g_wgt (gd_of (st_th st) bad sc)).
    apply mask_entries_in. split; [lia|]. rewrite Nat.sub_0_r. exists a, (gd_of (st_th st) bad sc).
    split; [exact H1|]. split; [rewrite Eds; apply map_nth_error; exact H3|]. split; [exact H2|].
    split; [|reflexivity]. unfold gd_of. cbn [g_invalid]. apply is_invalid_false. exact H4.
Qed.

Lemma p_mask_row_strict : forall st x es g w sc,
  p_mask_row st x = POk es -> In (g, w) es ->
  nth_error (pi_scores x) g = Some sc -> strictly_passes (st_th st) sc -> w = 0.
Proof.
  intros st x es g w sc H Hin Hsc Hp. unfold p_mask_row in H. cbv zeta in H.
  destruct (penetrance_parameter_distance (st_S st) (st_th st) (pi_scores x)) as [ds|c] eqn:Ep; [|discriminate H].
  cbn [pbind] in H. inversion H; subst es. apply ppd_inv in Ep. destruct Ep as (HO & bad & _ & Eds).
  apply mask_entries_in in Hin. rewrite Nat.sub_0_r in Hin.
  destruct Hin as (_ & v & d & _ & H2 & _ & _ & Hw).
  rewrite Eds, (map_nth_error _ _ _ Hsc) in H2. inversion H2; subst d. subst w.
  apply strict_wgt; assumption.
Qed.

Lemma EPS6_lt : EPS6_NUM < EPS6_DEN. Proof. reflexivity. Qed.
Lemma EPS6_NUM_pos : 0 < EPS6_NUM. Proof. reflexivity. Qed.

Lemma nth_error_map_seq {A} (f : nat -> A) n g : (g < n)%nat -> nth_error (map f (seq 0 n)) g = Some (f g).
Proof.
  intros H. rewrite nth_error_map.
  assert (E : nth_error (seq 0 n) g = Some g).
  { rewrite (nth_error_nth' (seq 0 n) 0%nat) by (rewrite seq_length; exact H). rewrite seq_nth by exact H. reflexivity. }
  rewrite E. reflexivity.
Qed.

Definition entry_of (entries : list (nat * Z)) (g : nat) : option Z := nat_assoc g (rev entries).

Section ValidityMask.
  Local Opaque Z.mul.
  Variables (SD : Z) (n_valid n_genes : nat) (entries : list (nat * Z)) (mask : option (list bool)).
  Hypothesis HSD : 0 < SD.
  Hypothesis Hmask : match mask with Some m => length m = n_genes | None => True end.

  Let p_mask := map (fun g => match entry_of entries g with Some _ => true | None => false end) (seq 0 n_genes).
  Let dist0 := map (fun g => match entry_of entries g with Some v => Z.max v 0 | None => 0 end) (seq 0 n_genes).
  Let prior_ok := match mask with None => repeat true n_genes | Some m => m end.

  Lemma vm_prior_len : length prior_ok = n_genes.
  Proof. unfold prior_ok. destruct mask; [exact Hmask | apply repeat_length]. Qed.

  Lemma vm_prior_in g : nth_error prior_ok g = Some true -> in_list mask g.
  Proof. unfold prior_ok, in_list. destruct mask; [intros H; exact H | intros _; exact Logic.I]. Qed.

  Lemma vm_in_prior g : (g < n_genes)%nat -> in_list mask g -> nth_error prior_ok g = Some true.
  Proof.
    unfold prior_ok, in_list. destruct mask; [intros _ H; exact H | intros H _; apply nth_error_repeat_true; exact H].
  Qed.

  Lemma vm_dist0_nonneg x : In x dist0 -> 0 <= x.
  Proof.
    unfold dist0. intros H. apply in_map_iff in H. destruct H as (g & <- & _).
    destruct (entry_of entries g); lia.
  Qed.

  Definition vm_dist (good : Z) : list Z :=
    map (fun x : bool * bool * Z => let '(pm, ok, d) := x in if negb pm then 3 * (good + SD) else if negb ok then 3 * (good + SD) else d)
        (combine (combine p_mask prior_ok) dist0).

  Lemma vm_dist_nth good g : (g < n_genes)%nat ->
    exists ok, nth_error prior_ok g = Some ok /\
      nth_error (vm_dist good) g =
      Some (match entry_of entries g with
            | Some v => if ok then Z.max v 0 else 3 * (good + SD)
            | None => 3 * (good + SD)
            end).
  Proof.
    intros Hg. destruct (nth_error prior_ok g) as [ok|] eqn:Eo.
    2:{ apply nth_error_None in Eo. rewrite vm_prior_len in Eo. lia. }
    exists ok. split; [reflexivity|]. unfold vm_dist.
    rewrite nth_error_map, !nth_error_combine. unfold p_mask, dist0.
    rewrite !(nth_error_map_seq _ n_genes g Hg), Eo. cbn.
    destruct (entry_of entries g); cbn; [destruct ok; reflexivity | reflexivity].
  Qed.

  Lemma vm_unfold :
    get_validity_mask SD n_valid n_genes entries mask =
    match dist0 with
    | [] => PErr E_EMPTY
    | d0 :: _ =>
        let good := zmax_list d0 dist0 in
        let bad := 2 * (good + SD) in
        let dist := vm_dist good in
        if negb (Nat.eqb (length dist) n_genes) then PErr E_SHAPE
        else
          let invalid := map (fun d => bad <=? d) dist in
          let abs_valid := map (fun d => d * EPS6_DEN <? EPS6_NUM * SD) dist in
          let v1 := andb_list p_mask abs_valid in
          if (count_true v1 <? n_valid)%nat then
            match kth (n_valid - 1) dist with
            | None => PErr E_INDEX
            | Some cutoff =>
                let pm := map (fun x : Z * bool * bool => let '(d, inv, av) := x in if av then true else if inv then false else d <=? cutoff)
                              (combine (combine dist invalid) abs_valid) in
                POk (andb_list p_mask pm)
            end
          else POk v1
    end.
  Proof. reflexivity. Qed.

  (* soundness of _get_validity_mask: a gene kept has an entry in the mask file (so its
     corrected p-value is below p_th and it is above the floors) and is in the gene list *)
  Lemma validity_mask_sound m g :
    get_validity_mask SD n_valid n_genes entries mask = POk m -> nth_error m g = Some true ->
    (exists v, entry_of entries g = Some v) /\ in_list mask g.
  Proof.
    rewrite vm_unfold. intros H Hg.
    destruct dist0 as [|d0 rest] eqn:Ed0; [discriminate H|]. cbv zeta in H.
    set (good := zmax_list d0 (d0 :: rest)) in *.
    assert (Hgood : 0 <= good).
    { pose proof (zmax_list_ge d0 (d0 :: rest)). assert (0 <= d0) by (apply vm_dist0_nonneg; rewrite Ed0; left; reflexivity).
      unfold good. lia. }
    destruct (negb (Nat.eqb (length (vm_dist good)) n_genes)); [discriminate H|].
    assert (Hpm : forall b, nth_error p_mask g = Some b -> (g < n_genes)%nat).
    { intros b Hb. assert (g < length p_mask)%nat by (apply nth_error_Some; congruence).
      unfold p_mask in H0. rewrite map_length, seq_length in H0. exact H0. }
    assert (Hoff : forall d, d = 3 * (good + SD) -> (d * EPS6_DEN <? EPS6_NUM * SD) = false /\ (2 * (good + SD) <=? d) = true).
    { intros d ->. pose proof EPS6_lt. pose proof EPS6_NUM_pos. split; [apply Z.ltb_ge; nia | apply Z.leb_le; lia]. }
    assert (Hcore : forall d, nth_error p_mask g = Some true -> nth_error (vm_dist good) g = Some d ->
              ((d * EPS6_DEN <? EPS6_NUM * SD) = true \/ (2 * (good + SD) <=? d) = false) ->
              (exists v, entry_of entries g = Some v) /\ in_list mask g).
    { intros d Hp Hd Hok. pose proof (Hpm _ Hp) as Hlt.
      destruct (vm_dist_nth good g Hlt) as (ok & Eo & En). rewrite En in Hd. inversion Hd as [Ed]. clear Hd.
      unfold p_mask in Hp. rewrite (nth_error_map_seq _ n_genes g Hlt) in Hp.
      destruct (entry_of entries g) as [v|] eqn:Ee; [|discriminate Hp].
      split; [exists v; reflexivity|]. apply vm_prior_in. rewrite Eo. f_equal.
      destruct ok; [reflexivity|]. exfalso. destruct (Hoff d (eq_sym Ed)) as [O1 O2].
      destruct Hok as [Hok|Hok]; congruence. }
    match type of H with (if ?c then _ else _) = _ => destruct c end.
    - destruct (kth (n_valid - 1) (vm_dist good)) as [cutoff|]; [|discriminate H].
      inversion H; subst m. apply andb_list_true in Hg. destruct Hg as [Hp Hx].
      rewrite nth_error_map, !nth_error_combine, !nth_error_map in Hx.
      destruct (nth_error (vm_dist good) g) as [d|] eqn:Ed; [|discriminate Hx]. cbn [option_map] in Hx.
      apply (Hcore d Hp eq_refl).
      destruct (d * EPS6_DEN <? EPS6_NUM * SD); [left; reflexivity|].
      destruct (2 * (good + SD) <=? d); [discriminate Hx | right; reflexivity].
    - inversion H; subst m. apply andb_list_true in Hg. destruct Hg as [Hp Hx].
      rewrite nth_error_map in Hx.
      destruct (nth_error (vm_dist good) g) as [d|] eqn:Ed; [|discriminate Hx]. cbn [option_map] in Hx.
      apply (Hcore d Hp eq_refl). left. inversion Hx. reflexivity.
  Qed.

  (* completeness: a gene of the list whose entry says "strictly valid" (value <= 0) is kept *)
  Lemma validity_mask_complete m g v :
    get_validity_mask SD n_valid n_genes entries mask = POk m ->
    (g < n_genes)%nat -> entry_of entries g = Some v -> v <= 0 -> in_list mask g ->
    nth_error m g = Some true.
  Proof.
    rewrite vm_unfold. intros H Hlt He Hv Hin.
    destruct dist0 as [|d0 rest] eqn:Ed0; [discriminate H|]. cbv zeta in H.
    set (good := zmax_list d0 (d0 :: rest)) in *.
    destruct (negb (Nat.eqb (length (vm_dist good)) n_genes)); [discriminate H|].
    assert (Hp : nth_error p_mask g = Some true).
    { unfold p_mask. rewrite (nth_error_map_seq _ n_genes g Hlt), He. reflexivity. }
    assert (Hd : nth_error (vm_dist good) g = Some 0).
    { destruct (vm_dist_nth good g Hlt) as (ok & Eo & En). rewrite (vm_in_prior g Hlt Hin) in Eo.
      inversion Eo; subst ok. rewrite En, He. f_equal. lia. }
    assert (Hav : (0 * EPS6_DEN <? EPS6_NUM * SD) = true).
    { apply Z.ltb_lt. pose proof EPS6_NUM_pos. nia. }
    match type of H with (if ?c then _ else _) = _ => destruct c end.
    - destruct (kth (n_valid - 1) (vm_dist good)) as [cutoff|]; [|discriminate H].
      inversion H; subst m. apply andb_list_true. split; [exact Hp|].
      rewrite nth_error_map, !nth_error_combine, !nth_error_map, Hd. cbn [option_map]. rewrite Hav. reflexivity.
    - inversion H; subst m. apply andb_list_true. split; [exact Hp|].
      rewrite nth_error_map, Hd. cbn [option_map]. rewrite Hav. reflexivity.
  Qed.
  Local Transparent Z.mul.
End ValidityMask.

(* ------------------------------------------------------------------ *)
(* soundness stated with the FULL Holm-Bonferroni value                *)
Lemma sdg_sound_full_holm : forall st mask x v up g,
  Forall (fun q => 0 <= q <= pi_SP x) (pi_p x) -> pi_T x <= pi_SP x ->
  - st_S st < q1_min (st_th st) -> q1_min (st_th st) < q1_th (st_th st) ->
  score_differential_genes st mask x = POk (v, up) -> nth_error v g = Some true ->
  st_n_min st <= pi_n1 x /\ st_n_min st <= pi_n2 x /\
  (exists h, nth_error (correct_ttest (pi_SP x) 0 (pi_p x)) g = Some h /\ h < pi_T x) /\
  in_list mask g /\
  exists sc, nth_error (pi_scores x) g = Some sc /\ crit (st_th st) (st_exact st) sc.
Proof.
  intros st mask x v up g Hr HT Hf Ho H Hg.
  destruct (sdg_sound st mask x v up g Hf Ho H Hg) as (N1 & N2 & (a & Ha & Hlt) & Hin & Hsc).
  split; [exact N1|]. split; [exact N2|]. split; [|split; [exact Hin | exact Hsc]].
  assert (Hg' : (g < length (pi_p x))%nat).
  { rewrite <- (approx_length (pi_SP x) (pi_T x)). apply nth_error_Some. congruence. }
  destruct (nth_error (pi_p x) g) as [q|] eqn:Eq; [|apply nth_error_None in Eq; lia].
  destruct (restricted_holm_at (pi_SP x) (pi_T x) (pi_p x) Hr HT g q Eq) as (_ & _ & a' & h & Ea & Eh & Hiff).
  rewrite Ha in Ea. inversion Ea; subst a'. exists h. split; [exact Eh | apply Hiff; exact Hlt].
Qed.

(* ------------------------------------------------------------------ *)
(* Inputs on which Python raises although the model is total (audit, defect 10).
   pair_wf: the per-gene arrays of a pair have one length (numpy refuses to combine arrays of
   different lengths: ValueError); 1 <= n_processors (n_pairs // (2*n_processors) raises
   ZeroDivisionError for 0, where Z division gives n_per = 8).  The property theorems carry
   these hypotheses; the lemmas below are the stronger statements restricted to them. *)
Definition pair_wf (x : pair_in) : Prop :=
  length (pi_p x) = length (pi_scores x) /\ length (pi_mean1 x) = length (pi_scores x) /\
  length (pi_mean2 x) = length (pi_scores x).

Lemma sdg_sound_wf : forall st mask x v up g, pair_wf x ->
  - st_S st < q1_min (st_th st) -> q1_min (st_th st) < q1_th (st_th st) ->
  score_differential_genes st mask x = POk (v, up) -> nth_error v g = Some true ->
  st_n_min st <= pi_n1 x /\ st_n_min st <= pi_n2 x /\
  (exists a, nth_error (approx_correct_ttest (pi_SP x) (pi_T x) (pi_p x)) g = Some a /\ a < pi_T x) /\
  in_list mask g /\
  exists sc, nth_error (pi_scores x) g = Some sc /\ crit (st_th st) (st_exact st) sc.
Proof. intros st mask x v up g _. apply sdg_sound. Qed.

Lemma sdg_complete_wf : forall st mask x v up g sc, pair_wf x ->
  0 < st_S st ->
  score_differential_genes st mask x = POk (v, up) ->
  st_n_min st <= pi_n1 x -> st_n_min st <= pi_n2 x ->
  (exists a, nth_error (approx_correct_ttest (pi_SP x) (pi_T x) (pi_p x)) g = Some a /\ a < pi_T x) ->
  in_list mask g ->
  nth_error (pi_scores x) g = Some sc -> strictly_passes (st_th st) sc ->
  nth_error v g = Some true.
Proof. intros st mask x v up g sc (_ & W & _) HS. apply sdg_complete; assumption. Qed.

Lemma sdg_exact_iff_wf : forall st mask x v up g, pair_wf x ->
  st_exact st = true ->
  - st_S st < q1_min (st_th st) -> q1_min (st_th st) < q1_th (st_th st) -> 0 < st_S st ->
  score_differential_genes st mask x = POk (v, up) ->
  (nth_error v g = Some true <->
   st_n_min st <= pi_n1 x /\ st_n_min st <= pi_n2 x /\
   (exists a, nth_error (approx_correct_ttest (pi_SP x) (pi_T x) (pi_p x)) g = Some a /\ a < pi_T x) /\
   in_list mask g /\
   exists sc, nth_error (pi_scores x) g = Some sc /\ strictly_passes (st_th st) sc).
Proof. intros st mask x v up g (_ & W & _) He Hf Ho HS. apply sdg_exact_iff; assumption. Qed.

Lemma sdg_pair_swap_wf : forall st mask x v up g, pair_wf x ->
  - st_S st < q1_min (st_th st) -> q1_min (st_th st) < q1_th (st_th st) ->
  0 < fold_min (st_th st) -> fold_min (st_th st) < fold_th (st_th st) ->
  (forall g q1 qd f m1 m2, nth_error (pi_scores x) g = Some (q1, qd, f) ->
       nth_error (pi_mean1 x) g = Some m1 -> nth_error (pi_mean2 x) g = Some m2 -> f = Z.abs (m1 - m2)) ->
  score_differential_genes st mask x = POk (v, up) ->
  exists up', score_differential_genes st mask (swap_pair x) = POk (v, up') /\
    (nth_error v g = Some true ->
     forall b, nth_error up g = Some b -> nth_error up' g = Some (negb b)).
Proof.
  intros st mask x v up g (_ & W1 & W2) Hf Ho Hfm Hft. apply sdg_pair_swap; try assumption. congruence.
Qed.

Lemma sdg_sound_full_holm_wf : forall st mask x v up g, pair_wf x ->
  Forall (fun q => 0 <= q <= pi_SP x) (pi_p x) -> pi_T x <= pi_SP x ->
  - st_S st < q1_min (st_th st) -> q1_min (st_th st) < q1_th (st_th st) ->
  score_differential_genes st mask x = POk (v, up) -> nth_error v g = Some true ->
  st_n_min st <= pi_n1 x /\ st_n_min st <= pi_n2 x /\
  (exists h, nth_error (correct_ttest (pi_SP x) 0 (pi_p x)) g = Some h /\ h < pi_T x) /\
  in_list mask g /\
  exists sc, nth_error (pi_scores x) g = Some sc /\ crit (st_th st) (st_exact st) sc.
Proof. intros st mask x v up g _. apply sdg_sound_full_holm. Qed.

Lemma find_markers_workers_pos : forall st gn gl np np' pairs, (1 <= np)%nat -> (1 <= np')%nat ->
  find_markers st gn gl np pairs = find_markers st gn gl np' pairs.
Proof. intros st gn gl np np' pairs _ _. apply find_markers_workers. Qed.

(* the totalisations themselves, so that nobody mistakes them for behaviour of the code *)
Lemma n_per_of_zero_workers : n_per_of 100 0 = 8%nat.
Proof. vm_compute. reflexivity. Qed.
