(* Lemmas about Model/Tree.v, part 3: drop_level / drop_leaf_level / flatten /
   to_str(drop_cells) keep a strict tree strict and keep every remaining ancestor. *)
From Coq Require Import ZArith List Bool Lia Permutation.
From CTM Require Import Base.Sx Base.ListX Base.SortX Model.Tree Proofs.TreeValidateP Proofs.TreeLeavesP.
Import ListNotations.
Open Scope Z_scope.

(* ------------------------------------------------------------------ list surgery *)
Lemma nth_remove_nth {A} n k (l : list A) d :
  nth k (remove_nth n l) d = if (k <? n)%nat then nth k l d else nth (S k) l d.
Proof.
  revert k l. induction n as [|n IH]; intros k l; destruct l as [|a t]; cbn [remove_nth].
  - destruct k; reflexivity.
  - reflexivity.
  - destruct (k <? S n)%nat; destruct k; reflexivity.
  - destruct k as [|k]; [reflexivity|]. cbn [nth]. rewrite IH.
    change (S k <? S n)%nat with (k <? n)%nat. reflexivity.
Qed.

Lemma nth_replace_nth {A} n k x (l : list A) d : (n < length l)%nat ->
  nth k (replace_nth n x l) d = if (k =? n)%nat then x else nth k l d.
Proof.
  revert k l. induction n as [|n IH]; intros k l H; destruct l as [|a t]; cbn in H; try lia; cbn [replace_nth].
  - destruct k; reflexivity.
  - destruct k as [|k]; [reflexivity|]. cbn [nth]. rewrite IH by lia. reflexivity.
Qed.

Lemma split_two {A} pi (t : list A) d : (S pi < length t)%nat ->
  exists front rest, t = front ++ nth pi t d :: nth (S pi) t d :: rest /\ length front = pi.
Proof.
  revert t. induction pi as [|pi IH]; intros t H.
  - destruct t as [|a [|b l]]; cbn in H; try lia. exists [], l. split; reflexivity.
  - destruct t as [|a l]; cbn in H; [lia|]. destruct (IH l) as (f & r & E & Hl); [lia|].
    exists (a :: f), r. split; [cbn [nth app]; rewrite <- E; reflexivity | cbn; lia].
Qed.

Lemma remove_replace {A} (front : list A) a b rest x :
  remove_nth (S (length front)) (replace_nth (length front) x (front ++ a :: b :: rest)) = front ++ x :: rest.
Proof. induction front as [|y f IH]; cbn; [reflexivity|]. cbn in IH. rewrite IH. reflexivity. Qed.

Lemma last_app_cons {A} (front : list A) a l d : last (front ++ a :: l) d = last (a :: l) d.
Proof.
  induction front as [|y f IH]; [reflexivity|]. cbn [app]. rewrite <- IH.
  destruct (f ++ a :: l) eqn:E; [destruct f; discriminate | reflexivity].
Qed.

(* ------------------------------------------------------------------ the merged parent level *)
Definition merge_level (pl dl : level) : level :=
  map (fun nc => (fst nc, flat_map (children_of dl) (snd nc))) pl.

Lemma merge_nodes pl dl : nodes (merge_level pl dl) = nodes pl.
Proof. unfold merge_level, nodes. rewrite map_map. reflexivity. Qed.

Lemma merge_lists pl dl p g :
  lists (merge_level pl dl) p g <-> exists d, lists pl p d /\ In g (children_of dl d).
Proof.
  unfold lists, merge_level. split.
  - intros (cs & Hin & Hg). apply in_map_iff in Hin. destruct Hin as ([q cs0] & E & Hin).
    cbn [fst snd] in E. inversion E; subst. apply in_flat_map in Hg. destruct Hg as (d & Hd & Hg).
    exists d. split; [exists cs0; split; assumption | exact Hg].
  - intros (d & (cs & Hin & Hd) & Hg). exists (flat_map (children_of dl) cs). split.
    + apply in_map_iff. exists (p, cs). split; [reflexivity | exact Hin].
    + apply in_flat_map. exists d. split; assumption.
Qed.

Lemma merge_children_of pl dl p :
  children_of (merge_level pl dl) p = flat_map (children_of dl) (children_of pl p).
Proof.
  unfold children_of, merge_level. induction pl as [|[q cs] t IH]; cbn; [reflexivity|].
  destruct (p =? q); [reflexivity | exact IH].
Qed.

(* exported: the parent in the reduced tree is the grand-parent in the original *)
Lemma merge_parent_of pl dl g :
  wf_level dl ->
  (forall d d', lists dl d g -> lists dl d' g -> d = d') ->
  (forall p p' d, lists pl p d -> lists pl p' d -> p = p') ->
  parent_of (merge_level pl dl) g =
  match parent_of dl g with Some d => parent_of pl d | None => None end.
Proof.
  intros W U1 U2.
  destruct (parent_of (merge_level pl dl) g) as [p'|] eqn:E.
  - apply parent_of_lists in E. apply merge_lists in E. destruct E as (d' & Hl & Hg).
    apply children_of_lists in Hg.
    destruct (lists_parent_of_some _ _ _ Hg) as [d Ed]. rewrite Ed.
    assert (d = d') by (apply U1; [apply parent_of_lists; exact Ed | exact Hg]). subst d'.
    destruct (lists_parent_of_some _ _ _ Hl) as [p Ep]. rewrite Ep. f_equal.
    apply (U2 p' p d); [exact Hl | apply parent_of_lists; exact Ep].
  - destruct (parent_of dl g) as [d|] eqn:Ed; [|reflexivity].
    destruct (parent_of pl d) as [p|] eqn:Ep; [|reflexivity].
    exfalso. apply (parent_of_none _ _ E p). apply merge_lists. exists d.
    split; [apply parent_of_lists; exact Ep|]. apply lists_children_of; [exact W | apply parent_of_lists; exact Ed].
Qed.

Lemma merge_strict pl dl gl :
  strict_pair pl dl -> strict_pair dl gl -> wf_level dl -> strict_pair (merge_level pl dl) gl.
Proof.
  intros (A1 & A2 & A3) (B1 & B2 & B3) W. split; [|split].
  - intros g Hg. destruct (B1 g Hg) as [d Hd]. destruct (A1 d (lists_node _ _ _ Hd)) as [p Hp].
    exists p. apply merge_lists. exists d. split; [exact Hp | apply lists_children_of; assumption].
  - intros p g Hl. apply merge_lists in Hl. destruct Hl as (d & _ & Hg). apply (B2 d).
    apply children_of_lists. exact Hg.
  - intros p p' g Hl Hl'. apply merge_lists in Hl, Hl'. destruct Hl as (d & Hd & Hg), Hl' as (d' & Hd' & Hg').
    assert (d = d') by (apply (B3 d d' g); apply children_of_lists; assumption). subst d'.
    apply (A3 p p' d); assumption.
Qed.

(* child lists that repeat no name stay so when a level is merged away: the merged lists are the
   grand-children (for the leaf level: the rows of the new leaves) *)
Lemma merge_flat_nodup pl dl : flat_nodup pl -> flat_nodup dl -> flat_nodup (merge_level pl dl).
Proof.
  unfold flat_nodup. intros P R.
  destruct (concat_nodup_entries dl R) as (R1 & R2).
  assert (E : concat (map snd (merge_level pl dl)) = flat_map (children_of dl) (concat (map snd pl))).
  { unfold merge_level. rewrite map_map. cbn [snd]. clear. induction pl as [|[q cs] t IH]; cbn; [reflexivity|].
    rewrite flat_map_app, IH. reflexivity. }
  rewrite E. apply NoDup_flat_map.
  - exact P.
  - intros c _. unfold children_of. destruct (zassoc c dl) as [rs|] eqn:Ea; [|constructor].
    apply (R1 c rs). apply zassoc_in. exact Ea.
  - intros c c' _ _ Hne r Hr Hr'. apply Hne.
    apply children_of_lists in Hr, Hr'. destruct Hr as (rs & Hin & Hr), Hr' as (rs' & Hin' & Hr').
    specialize (R2 c c' rs rs' r Hin Hin' Hr Hr'). congruence.
Qed.

(* ------------------------------------------------------------------ what drop_level builds *)
Definition raw_drop (t : tree) (li : nat) : tree :=
  match li with
  | O => tl t
  | S pi => remove_nth li (replace_nth pi (merge_level (nth pi t []) (nth li t [])) t)
  end.

Lemma raw_drop_split pi t : (S pi < length t)%nat ->
  exists front rest, t = front ++ nth pi t [] :: nth (S pi) t [] :: rest /\ length front = pi /\
                     raw_drop t (S pi) = front ++ merge_level (nth pi t []) (nth (S pi) t []) :: rest.
Proof.
  intros H. destruct (split_two pi t [] H) as (f & r & E & Hl). exists f, r. split; [exact E|]. split; [exact Hl|].
  unfold raw_drop. set (m := merge_level _ _). rewrite E at 1. rewrite <- Hl. apply remove_replace.
Qed.

(* level access in the reduced tree -- exported *)
Lemma raw_drop_nth t li k : (li < length t)%nat ->
  nth k (raw_drop t li) [] =
  if (S k =? li)%nat then merge_level (nth k t []) (nth li t [])
  else if (k <? li)%nat then nth k t [] else nth (S k) t [].
Proof.
  intros H. destruct li as [|pi].
  - cbn [raw_drop]. destruct t as [|a l]; [cbn in H; lia|]. reflexivity.
  - unfold raw_drop. rewrite nth_remove_nth.
    change (S k =? S pi)%nat with (k =? pi)%nat.
    destruct (k <? S pi)%nat eqn:E1.
    + rewrite nth_replace_nth by lia. destruct (k =? pi)%nat eqn:E2; [|reflexivity].
      apply Nat.eqb_eq in E2. subst. reflexivity.
    + apply Nat.ltb_ge in E1. rewrite nth_replace_nth by lia.
      destruct (k =? pi)%nat eqn:E2; [apply Nat.eqb_eq in E2; lia|].
      destruct (S k =? pi)%nat eqn:E3; [apply Nat.eqb_eq in E3; lia | reflexivity].
Qed.

Lemma raw_drop_length t li : (li < length t)%nat -> length (raw_drop t li) = (length t - 1)%nat.
Proof.
  intros H. destruct li as [|pi].
  - destruct t; cbn in *; lia.
  - destruct (raw_drop_split pi t H) as (f & r & E & Hl & ->).
    apply (f_equal (@length level)) in E. rewrite app_length in E. cbn [length] in E.
    rewrite app_length. cbn [length]. lia.
Qed.

Lemma raw_drop_wf t li : wf t -> wf (raw_drop t li).
Proof.
  intros W. destruct li as [|pi].
  - destruct t; [exact W | inversion W; assumption].
  - destruct (Nat.lt_ge_cases (S pi) (length t)) as [H|H].
    + destruct (raw_drop_split pi t H) as (f & r & E & Hl & ->). unfold wf in *. rewrite E in W.
      apply Forall_app in W. destruct W as [W1 W2]. inversion W2 as [|? ? Wa W3]; subst. inversion W3; subst.
      apply Forall_app. split; [exact W1|]. constructor; [|assumption].
      unfold wf_level. rewrite merge_nodes. exact Wa.
    + (* out of range: replace/remove do nothing harmful; not needed, but true *)
      unfold raw_drop, wf. apply Forall_forall. intros lv Hlv.
      assert (G : forall (n : nat) (x : level) (l : tree), (forall y, In y l -> wf_level y) -> wf_level x ->
                  forall y, In y (replace_nth n x l) -> wf_level y).
      { induction n as [|n IH]; intros x l Hl Hx y Hy; destruct l as [|a l']; cbn in Hy; try contradiction.
        - destruct Hy as [<-|Hy]; [exact Hx | apply Hl; right; exact Hy].
        - destruct Hy as [<-|Hy]; [apply Hl; left; reflexivity|].
          apply (IH x l'); [intros z Hz; apply Hl; right; exact Hz | exact Hx | exact Hy]. }
      assert (G2 : forall (n : nat) (l : tree) y, In y (remove_nth n l) -> In y l).
      { induction n as [|n IH]; intros l y Hy; destruct l as [|a l']; cbn in Hy; try contradiction.
        - right. exact Hy.
        - destruct Hy as [<-|Hy]; [left; reflexivity | right; apply IH; exact Hy]. }
      apply G2 in Hlv. revert Hlv. apply G.
      * intros y Hy. apply (proj1 (Forall_forall _ _) W). exact Hy.
      * unfold wf_level. rewrite merge_nodes. apply wf_nth. exact W.
Qed.

(* closure: dropping a level that is not the leaf level *)
Lemma raw_drop_validate t li : validate t = true -> wf t -> (S li < length t)%nat ->
  validate (raw_drop t li) = true /\ leaf_level (raw_drop t li) = leaf_level t.
Proof.
  intros V W H. destruct li as [|pi].
  - destruct t as [|a [|b l]]; cbn in H; try lia. cbn [raw_drop tl]. split; [|reflexivity].
    unfold validate in *. rewrite !andb_true_iff in *. destruct V as [[_ V2] V3].
    split; [split; [reflexivity | apply (validate_pairs_tail a); exact V2] | exact V3].
  - assert (H' : (S pi < length t)%nat) by lia.
    destruct (raw_drop_split pi t H') as (f & r & E & Hl & ->).
    set (pl := nth pi t []) in *. set (dl := nth (S pi) t []) in *.
    assert (Hr : r <> []).
    { intros ->. apply (f_equal (@length level)) in E. rewrite app_length in E. cbn [length] in E. lia. }
    destruct r as [|gl r']; [congruence|].
    assert (LL : leaf_level (f ++ merge_level pl dl :: gl :: r') = leaf_level t).
    { unfold leaf_level. rewrite E, !last_app_cons. reflexivity. }
    split; [|exact LL].
    unfold validate in *. rewrite !andb_true_iff in *. destruct V as [[_ V2] V3].
    split; [split; [destruct f; reflexivity|]|].
    + rewrite E in V2. rewrite validate_pairs_app in V2. rewrite validate_pairs_app.
      apply andb_true_iff in V2. destruct V2 as [V2a V2b].
      rewrite !validate_pairs_cons in V2b. rewrite !andb_true_iff in V2b. destruct V2b as (B1 & B2 & B3).
      rewrite validate_pairs_cons. rewrite !andb_true_iff. split; [|split; [|exact B3]].
      * rewrite <- V2a. apply validate_pairs_last_nodes. apply merge_nodes.
      * apply validate_pair_iff. split.
        -- apply merge_strict; [apply validate_pair_strict; exact B1 | apply validate_pair_strict; exact B2|].
           apply wf_nth. exact W.
        -- apply merge_flat_nodup; [apply (validate_pair_flat _ _ B1) | apply (validate_pair_flat _ _ B2)].
    + unfold leaf_rows in *. subst pl dl.
      etransitivity; [|exact V3]. do 3 f_equal. exact LL.
Qed.

(* closure: dropping the leaf level (the child lists one level up repeat no name, so the rows
   inherited by the new leaves repeat none either) *)
Lemma raw_drop_leaf_validate t : validate t = true -> wf t -> (2 <= length t)%nat ->
  validate (raw_drop t (length t - 1)) = true.
Proof.
  intros V W H. replace (length t - 1)%nat with (S (length t - 2)) by lia.
  remember (length t - 2)%nat as pi eqn:Epi.
  assert (Hpi : (S pi < length t)%nat) by lia.
  destruct (raw_drop_split pi t Hpi) as (f & r & E & Hl & ->).
  set (pl := nth pi t []) in *. set (dl := nth (S pi) t []) in *.
  assert (r = []).
  { destruct r; [reflexivity|]. exfalso. apply (f_equal (@length level)) in E. rewrite app_length in E. cbn in E. lia. }
  subst r.
  unfold validate in *. rewrite !andb_true_iff in *. destruct V as [[_ V2] V3].
  rewrite E in V2. rewrite validate_pairs_app in V2. apply andb_true_iff in V2. destruct V2 as [V2a V2b].
  split; [split; [destruct f; reflexivity|]|].
  - rewrite <- V2a. apply validate_pairs_last_nodes. apply merge_nodes.
  - apply znodup_b_spec. apply znodup_b_spec in V3. unfold leaf_rows, leaf_level in *.
    rewrite last_last. rewrite E in V3. rewrite last_app_cons in V3. cbn [last] in V3.
    apply merge_flat_nodup; [|exact V3].
    apply (validate_pair_flat pl dl). cbn in V2b. rewrite andb_true_r in V2b. exact V2b.
Qed.

(* ------------------------------------------------------------------ ancestors in the reduced tree *)
Definition up_level (li j : nat) : nat := if (j <? li)%nat then j else S j.
Definition down_level (li k : nat) : nat := if (k <? li)%nat then k else pred k.
Definition squash (li : nat) (l : list (nat * node)) : list (nat * node) :=
  map (fun kp => (down_level li (fst kp), snd kp)) (filter (fun kp => negb (fst kp =? li)%nat) l).

(* exported: parent_of in the reduced tree *)
Lemma raw_drop_parent_of t li k g : validate t = true -> wf t -> (S li < length t)%nat ->
  parent_of (nth k (raw_drop t li) []) g =
  if (S k =? li)%nat
  then match parent_of (nth li t []) g with Some d => parent_of (nth k t []) d | None => None end
  else parent_of (nth (up_level li k) t []) g.
Proof.
  intros V W H. rewrite raw_drop_nth by lia. unfold up_level.
  destruct (S k =? li)%nat eqn:E; [|destruct (k <? li)%nat; reflexivity].
  apply Nat.eqb_eq in E. subst li.
  pose proof (validate_strict t k V ltac:(lia)) as (_ & _ & U2).
  pose proof (validate_strict t (S k) V H) as (_ & _ & U1).
  apply merge_parent_of; [apply wf_nth; exact W | intros d d'; apply U1 | exact U2].
Qed.

(* exported: children in the reduced tree *)
Lemma raw_drop_children t li k p : (li < length t)%nat ->
  children_of (nth k (raw_drop t li) []) p =
  if (S k =? li)%nat then flat_map (children_of (nth li t [])) (children_of (nth k t []) p)
  else children_of (nth (up_level li k) t []) p.
Proof.
  intros H. rewrite raw_drop_nth by exact H. unfold up_level.
  destruct (S k =? li)%nat; [apply merge_children_of | destruct (k <? li)%nat; reflexivity].
Qed.

(* exported: ancestors in drop_level t li = ancestors in t without the entry of level li *)
Lemma raw_drop_ancestors t li j x : validate t = true -> wf t -> (S li < length t)%nat ->
  ancestors (raw_drop t li) j x = squash li (ancestors t (up_level li j) x).
Proof.
  intros V W H. revert x. induction j as [|k IH]; intros x.
  - cbn [ancestors]. unfold up_level. destruct li as [|pi]; [|reflexivity].
    cbn [Nat.ltb Nat.leb ancestors]. destruct (parent_of (nth 0 t []) x); reflexivity.
  - cbn [ancestors]. rewrite raw_drop_parent_of by assumption.
    destruct (S k =? li)%nat eqn:E1.
    + apply Nat.eqb_eq in E1. subst li. unfold up_level at 1.
      replace (S k <? S k)%nat with false by (symmetry; apply Nat.ltb_irrefl).
      cbn [ancestors]. destruct (parent_of (nth (S k) t []) x) as [d|]; [|reflexivity].
      unfold squash at 1. cbn [filter fst]. rewrite Nat.eqb_refl. cbn [negb].
      destruct (parent_of (nth k t []) d) as [p|]; [|reflexivity].
      cbn [filter fst snd map]. replace (k =? S k)%nat with false by (symmetry; apply Nat.eqb_neq; lia).
      cbn [negb map fst snd]. unfold down_level at 1. replace (k <? S k)%nat with true by (symmetry; apply Nat.ltb_lt; lia).
      rewrite IH. unfold up_level. replace (k <? S k)%nat with true by (symmetry; apply Nat.ltb_lt; lia).
      reflexivity.
    + apply Nat.eqb_neq in E1. unfold up_level at 1 2. destruct (k <? li)%nat eqn:E2.
      * apply Nat.ltb_lt in E2. replace (S k <? li)%nat with true by (symmetry; apply Nat.ltb_lt; lia).
        cbn [ancestors]. destruct (parent_of (nth k t []) x) as [p|]; [|reflexivity].
        unfold squash at 1. cbn [filter fst]. replace (k =? li)%nat with false by (symmetry; apply Nat.eqb_neq; lia).
        cbn [negb map fst snd]. unfold down_level at 1. replace (k <? li)%nat with true by (symmetry; apply Nat.ltb_lt; lia).
        rewrite IH. unfold up_level. replace (k <? li)%nat with true by (symmetry; apply Nat.ltb_lt; lia).
        reflexivity.
      * apply Nat.ltb_ge in E2. replace (S k <? li)%nat with false by (symmetry; apply Nat.ltb_ge; lia).
        cbn [ancestors]. destruct (parent_of (nth (S k) t []) x) as [p|]; [|reflexivity].
        unfold squash at 1. cbn [filter fst]. replace (S k =? li)%nat with false by (symmetry; apply Nat.eqb_neq; lia).
        cbn [negb map fst snd]. unfold down_level at 1. replace (S k <? li)%nat with false by (symmetry; apply Nat.ltb_ge; lia).
        cbn [pred]. rewrite IH. unfold up_level. replace (k <? li)%nat with false by (symmetry; apply Nat.ltb_ge; lia).
        reflexivity.
Qed.

(* ------------------------------------------------------------------ the model's drop_level on an accepted tree *)
Theorem drop_level_accepted t li : validate t = true -> wf t -> (S li < length t)%nat ->
  drop_level t li = TOk (raw_drop t li).
Proof.
  intros V W H. unfold drop_level, drop_level_gen.
  destruct (Nat.eqb (length t) 1) eqn:E1; [apply Nat.eqb_eq in E1; lia|].
  destruct (Nat.leb (length t) li) eqn:E2; [apply Nat.leb_le in E2; lia|].
  destruct (Nat.eqb (S li) (length t)) eqn:E3; [apply Nat.eqb_eq in E3; lia|].
  cbn [negb andb]. pose proof (raw_drop_validate t li V W H) as [V' _].
  assert (G : mk_tree (raw_drop t li) = TOk (raw_drop t li)) by (unfold mk_tree; rewrite V'; reflexivity).
  destruct li as [|pi]; exact G.
Qed.

Theorem drop_level_errors t li :
  (length t = 1%nat -> drop_level t li = TErr E_FLAT) /\
  (length t <> 1%nat -> (length t <= li)%nat -> drop_level t li = TErr E_NOLEVEL) /\
  (length t <> 1%nat -> S li = length t -> drop_level t li = TErr E_LEAF).
Proof.
  unfold drop_level, drop_level_gen. split; [|split].
  - intros ->. reflexivity.
  - intros H1 H2. destruct (Nat.eqb (length t) 1) eqn:E1; [apply Nat.eqb_eq in E1; lia|].
    destruct (Nat.leb (length t) li) eqn:E2; [reflexivity | apply Nat.leb_gt in E2; lia].
  - intros H1 H2. destruct (Nat.eqb (length t) 1) eqn:E1; [apply Nat.eqb_eq in E1; lia|].
    destruct (Nat.leb (length t) li) eqn:E2; [apply Nat.leb_le in E2; lia|].
    rewrite <- H2, Nat.eqb_refl. reflexivity.
Qed.

Theorem drop_leaf_level_accepted t : validate t = true -> wf t -> (2 <= length t)%nat ->
  drop_leaf_level t = TOk (raw_drop t (length t - 1)).
Proof.
  intros V W H. unfold drop_leaf_level, drop_level_gen.
  destruct (Nat.eqb (length t) 1) eqn:E1; [apply Nat.eqb_eq in E1; lia|].
  destruct (Nat.leb (length t) (length t - 1)) eqn:E2; [apply Nat.leb_le in E2; lia|].
  cbn [negb andb]. pose proof (raw_drop_leaf_validate t V W H) as V'.
  assert (G : mk_tree (raw_drop t (length t - 1)) = TOk (raw_drop t (length t - 1)))
    by (unfold mk_tree; rewrite V'; reflexivity).
  destruct (length t - 1)%nat as [|pi] eqn:E; [lia|]. exact G.
Qed.

(* ------------------------------------------------------------------ flatten *)
Theorem flatten_accepted t : validate t = true ->
  flatten t = TOk [leaf_level t] /\ validate [leaf_level t] = true /\ leaf_level [leaf_level t] = leaf_level t.
Proof.
  intros V. assert (V' : validate [leaf_level t] = true).
  { unfold validate in *. rewrite !andb_true_iff in *. destruct V as [_ V3]. split; [split; reflexivity|]. exact V3. }
  unfold flatten, mk_tree. rewrite V'. repeat split; reflexivity.
Qed.

(* ------------------------------------------------------------------ to_str(drop_cells=True) / from_str *)
Lemma drop_cells_shape t : t <> [] ->
  exists above lf, t = above ++ [lf] /\ drop_cells t = above ++ [map (fun nc => (fst nc, [])) lf].
Proof.
  intros NE. destruct (exists_last NE) as (above & lf & E). exists above, lf. split; [exact E|].
  unfold drop_cells. rewrite E, rev_app_distr. cbn [rev app]. rewrite rev_involutive. reflexivity.
Qed.

Lemma nodes_strip (lf : level) : nodes (map (fun nc : node * list Z => (fst nc, @nil Z)) lf) = nodes lf.
Proof. unfold nodes. rewrite map_map. reflexivity. Qed.

Lemma ancestors_firstn t u j x : (forall k, (k < j)%nat -> nth k t [] = nth k u []) ->
  ancestors t j x = ancestors u j x.
Proof.
  revert x. induction j as [|k IH]; intros x H; [reflexivity|].
  change (ancestors t (S k) x)
    with (match parent_of (nth k t []) x with Some p => (k, p) :: ancestors t k p | None => [] end).
  change (ancestors u (S k) x)
    with (match parent_of (nth k u []) x with Some p => (k, p) :: ancestors u k p | None => [] end).
  rewrite (H k) by lia. destruct (parent_of (nth k u []) x) as [p|]; [|reflexivity].
  f_equal. apply IH. intros k' Hk'. apply H. lia.
Qed.

Theorem drop_cells_accepted t : validate t = true -> wf t ->
  validate (drop_cells t) = true /\ wf (drop_cells t) /\ length (drop_cells t) = length t /\
  (forall k, nodes (nth k (drop_cells t) []) = nodes (nth k t [])) /\
  (forall k, (S k < length t)%nat -> nth k (drop_cells t) [] = nth k t []) /\
  leaf_rows (drop_cells t) = [] /\
  (forall j x, (j < length t)%nat -> ancestors (drop_cells t) j x = ancestors t j x).
Proof.
  intros V W. pose proof (proj1 (validate_iff t) V) as (NE & _).
  destruct (drop_cells_shape t NE) as (above & lf & E & ->).
  set (lf0 := map (fun nc : node * list Z => (fst nc, @nil Z)) lf).
  assert (Hnth : forall k, (S k < length t)%nat -> nth k (above ++ [lf0]) [] = nth k t []).
  { intros k Hk. rewrite E in Hk |- *. rewrite app_length in Hk. cbn in Hk. rewrite !app_nth1 by lia. reflexivity. }
  assert (Hrows : leaf_rows (above ++ [lf0]) = []).
  { unfold leaf_rows, leaf_level. rewrite last_last. unfold lf0. clear. induction lf as [|a l IH]; [reflexivity | exact IH]. }
  split; [|split; [|split; [|split; [|split; [|split]]]]].
  - unfold validate in *. rewrite !andb_true_iff in *. destruct V as [[_ V2] _].
    split; [split; [destruct above; reflexivity|]|].
    + rewrite <- V2, E. apply validate_pairs_last_nodes. apply nodes_strip.
    + rewrite Hrows. reflexivity.
  - unfold wf in *. rewrite E in W. apply Forall_app in W. destruct W as [W1 W2]. apply Forall_app. split; [exact W1|].
    inversion W2; subst. constructor; [|constructor]. unfold wf_level, lf0. rewrite nodes_strip. assumption.
  - rewrite E, !app_length. reflexivity.
  - intros k. rewrite E. destruct (Nat.lt_ge_cases k (length above)) as [Hk|Hk].
    + rewrite !app_nth1 by exact Hk. reflexivity.
    + rewrite !app_nth2 by exact Hk. destruct (k - length above)%nat as [|m]; [apply nodes_strip | destruct m; reflexivity].
  - exact Hnth.
  - exact Hrows.
  - intros j x Hj. apply ancestors_firstn. intros k Hk. apply Hnth. lia.
Qed.
