(* Order of the pairs, behemoth threshold and gene names for EVERY genes_at_a_time = k
   (select_with_k / select_parent_k of Model/SelectionK.v): the lifts of SelectionPickP.v (pair order),
   SelectionDownP.v (renumbering, downsampled table, threshold) and SelectionNamesP.v (names) from the
   one-gene loop to the batched loop.  Audit 3, defect A10 (ii). *)
From Coq Require Import ZArith List Bool Arith Lia Permutation.
From CTM Require Import Base.Sx Base.ListX Base.SortX Model.Tree Model.Selection Model.SelectionK
                        Proofs.SelectionP Proofs.SelectionPickP Proofs.SelectionDownP Proofs.SelectionNamesP
                        Proofs.SelectionKP Proofs.SelectionKSafeP Proofs.SelectionPickKP.
Import ListNotations.
Local Open Scope nat_scope.

Lemma exhausted_ext a b pool : (forall g, utility a g = utility b g) -> exhausted a pool = exhausted b pool.
Proof. intros E. unfold exhausted. apply forallb_ext'. intros h. rewrite E. reflexivity. Qed.

Lemma is_top_ext a b pool g : (forall h, utility a h = utility b h) -> is_top a pool g = is_top b pool g.
Proof.
  intros E. unfold is_top. f_equal. apply forallb_ext'. intros h. rewrite !E. reflexivity.
Qed.

(* ================================================================== the order of the pairs *)
Definition bres_same (a b : state) (r r' : bres) : Prop :=
  match r, r' with
  | BOk s p, BOk s' p' =>
      p = p' /\ same_state s s' /\ exists t, chosen s = chosen a ++ t /\ chosen s' = chosen b ++ t
  | BIllegal g, BIllegal g' => g = g'
  | BStuck, BStuck => True
  | BRaise e, BRaise e' => e = e'
  | _, _ => False
  end.

(* same outcome; on `break` the same genes popped in the loop, in the same order (t), the same selected
   set, counts, flags and utility array *)
Definition wkres_same (a b : state) (r r' : wkres) : Prop :=
  match r, r' with
  | WKDone s, WKDone s' => same_state s s' /\ exists t, chosen s = chosen a ++ t /\ chosen s' = chosen b ++ t
  | WKIllegal g, WKIllegal g' => g = g'
  | WKStuck, WKStuck => True
  | WKOutOfFuel, WKOutOfFuel => True
  | WKRaise e, WKRaise e' => e = e'
  | _, _ => False
  end.

Section OrderPickK.
Variable n_genes : nat.
Variable marks : nat -> slot -> bool.
Variable n : nat.
Variable k : nat.
Variables pairs pairs' : list nat.
Hypothesis Hperm : Permutation pairs pairs'.

Lemma flag_same a b : same_state a b ->
  existsb (newly n_genes marks n a) (slots pairs) = existsb (newly n_genes marks n b) (slots pairs').
Proof.
  intros E. rewrite (existsb_perm _ _ _ (slots_perm pairs pairs' Hperm)).
  induction (slots pairs') as [|s l IH]; cbn; [reflexivity|].
  rewrite (newly_same n_genes marks n a b s E), IH. reflexivity.
Qed.

Lemma pop_with_same pick h h' : pick_respects pick -> hist_same h h' ->
  forall j a b pool, same_state a b ->
  bres_same a b (pop_with marks pick h j a pool) (pop_with marks pick h' j b pool).
Proof.
  intros HR Hh. induction j as [|j IH]; intros a b pool E; cbn [pop_with].
  - split; [reflexivity|]. split; [exact E|]. exists []. rewrite !app_nil_r. split; reflexivity.
  - assert (Done : bres_same a b (BOk a pool) (BOk b pool)).
    { split; [reflexivity|]. split; [exact E|]. exists []. rewrite !app_nil_r. split; reflexivity. }
    destruct pool as [|p0 pr] eqn:Ep; [exact Done|]. rewrite <- Ep in *. clear Ep p0 pr.
    pose proof E as (E1 & _ & _ & _ & E5).
    rewrite <- (exhausted_ext a b pool E5).
    destruct (exhausted a pool); [exact Done|].
    rewrite <- (HR _ _ _ _ Hh E1).
    destruct (pick h (chosen a)) as [g|]; [|exact Logic.I].
    rewrite <- (is_top_ext a b pool g E5).
    destruct (is_top a pool g); [|reflexivity].
    rewrite <- (nmem_perm g _ _ E1).
    destruct (nmem g (chosen a)); [reflexivity|].
    specialize (IH (choose marks a g) (choose marks b g) (pool_remove g pool) (choose_same marks a b g E)).
    destruct (pop_with marks pick h j (choose marks a g) (pool_remove g pool)) as [s p|x| |e],
             (pop_with marks pick h' j (choose marks b g) (pool_remove g pool)) as [s' p'|x'| |e'];
      cbn in IH |- *; try exact IH.
    destruct IH as (Hp & Es & t & C1 & C2). split; [exact Hp|]. split; [exact Es|].
    exists (g :: t). cbn [choose chosen] in C1, C2. rewrite C1, C2, <- !app_assoc. split; reflexivity.
Qed.

Lemma run_with_k_same pick : pick_respects pick -> forall fuel h h' a b pool,
  same_state a b -> hist_same h h' ->
  wkres_same a b (run_with_k n_genes pairs marks n k pick fuel h a pool)
                 (run_with_k n_genes pairs' marks n k pick fuel h' b pool).
Proof.
  intros HR. induction fuel as [|f IH]; intros h h' a b pool E Hh; [exact Logic.I|]. rewrite !run_with_k_S.
  pose proof (update_same n_genes marks n pairs pairs' Hperm a b E) as E'.
  rewrite <- (finished_same n_genes pairs pairs' Hperm _ _ E').
  destruct (finished n_genes pairs (update_filled n_genes pairs marks n a)).
  { split; [exact E'|]. exists []. rewrite !app_nil_r. split; reflexivity. }
  pose proof (observe_same n_genes marks n pairs pairs' Hperm a b h h' E Hh) as Ho.
  assert (Er : refresh n_genes pairs marks n a pool = refresh n_genes pairs' marks n b pool).
  { unfold refresh. rewrite (flag_same a b E). reflexivity. }
  rewrite <- Er.
  pose proof (pop_with_same pick _ _ HR Ho k _ _ (refresh n_genes pairs marks n a pool) E') as P.
  destruct (pop_with marks pick (observe n_genes pairs marks n a h) k (update_filled n_genes pairs marks n a)
                     (refresh n_genes pairs marks n a pool)) as [s p|x| |e],
           (pop_with marks pick (observe n_genes pairs' marks n b h') k (update_filled n_genes pairs' marks n b)
                     (refresh n_genes pairs marks n a pool)) as [s' p'|x'| |e'];
    cbn in P |- *; try contradiction; try exact P.
  destruct P as (Hp & Es & t & C1 & C2). subst p'.
  specialize (IH _ _ s s' p Es Ho).
  destruct (run_with_k n_genes pairs marks n k pick f (observe n_genes pairs marks n a h) s p) as [z|x| | |e],
           (run_with_k n_genes pairs' marks n k pick f (observe n_genes pairs' marks n b h') s' p) as [z'|x'| | |e'];
    cbn in IH |- *; try exact IH.
  destruct IH as (Ez & t2 & D1 & D2). split; [exact Ez|]. exists (t ++ t2).
  change (chosen (update_filled n_genes pairs marks n a)) with (chosen a) in C1.
  change (chosen (update_filled n_genes pairs' marks n b)) with (chosen b) in C2.
  rewrite D1, D2, C1, C2, <- !app_assoc. split; reflexivity.
Qed.

Lemma pool0_same : pool0 n_genes pairs marks n = pool0 n_genes pairs' marks n.
Proof.
  unfold pool0. apply filter_ext. intros g.
  rewrite (nmem_perm g _ _ (proj1 (start_same n_genes marks n pairs pairs' Hperm))). reflexivity.
Qed.

Theorem pick_order_irrelevant_k pick : pick_respects pick ->
  wkres_same (start n_genes pairs marks n) (start n_genes pairs' marks n)
             (select_with_k n_genes pairs marks n k pick) (select_with_k n_genes pairs' marks n k pick).
Proof.
  intros HR. unfold select_with_k. rewrite <- pool0_same.
  apply run_with_k_same; [exact HR | apply start_same; exact Hperm | apply hist0_same; exact Hperm].
Qed.
End OrderPickK.

(* spelled out *)
Theorem batch_pair_order_irrelevant n_genes marks n k pairs pairs' pick :
  Permutation pairs pairs' -> pick_respects pick ->
  match select_with_k n_genes pairs marks n k pick, select_with_k n_genes pairs' marks n k pick with
  | WKDone st, WKDone st' =>
      (exists popped, chosen st = chosen (start n_genes pairs marks n) ++ popped /\
                      chosen st' = chosen (start n_genes pairs' marks n) ++ popped) /\
      Permutation (chosen (start n_genes pairs marks n)) (chosen (start n_genes pairs' marks n)) /\
      Permutation (chosen st) (chosen st') /\
      (forall s, counts st s = counts st' s) /\ (forall s, filled st s = filled st' s) /\
      (forall g, utility st g = utility st' g)
  | WKIllegal g, WKIllegal g' => g = g'
  | WKStuck, WKStuck => True
  | WKOutOfFuel, WKOutOfFuel => True
  | WKRaise e, WKRaise e' => e = e'
  | _, _ => False
  end.
Proof.
  intros HP HR. pose proof (pick_order_irrelevant_k n_genes marks n k pairs pairs' HP pick HR) as H.
  destruct (select_with_k n_genes pairs marks n k pick) as [s|g| | |e],
           (select_with_k n_genes pairs' marks n k pick) as [s'|g'| | |e']; cbn in H |- *; try exact H.
  destruct H as ((E1 & E2 & E3 & E4 & E5) & t & C1 & C2).
  split; [exists t; auto|]. split; [apply (start_same n_genes marks n pairs pairs' HP)|].
  repeat split; auto.
Qed.

(* ================================================================== renumbering the pairs *)
Section RenameK.
Variable n_genes : nat.
Variable n : nat.
Variable k : nat.
Variable f : nat -> nat.
Variable pairs' : list nat.
Variables marks' marks : nat -> slot -> bool.
Hypothesis Hmarks : forall g p d, In p pairs' -> marks' g (p, d) = marks g (f p, d).

Notation pairs := (rn_pairs f pairs').
Notation ren := (ren_state f pairs').

Definition bres_ren (r' r : bres) : Prop :=
  match r', r with
  | BOk s' p', BOk s p => p' = p /\ ren_state f pairs' s' s
  | BIllegal g', BIllegal g => g' = g
  | BStuck, BStuck => True
  | BRaise e', BRaise e => e' = e
  | _, _ => False
  end.

Definition wkres_ren (r' r : wkres) : Prop :=
  match r', r with
  | WKDone s', WKDone s => ren_state f pairs' s' s
  | WKIllegal g', WKIllegal g => g' = g
  | WKStuck, WKStuck => True
  | WKOutOfFuel, WKOutOfFuel => True
  | WKRaise e', WKRaise e => e' = e
  | _, _ => False
  end.

Lemma flag_ren a' a : ren a' a ->
  existsb (newly n_genes marks' n a') (slots pairs') = existsb (newly n_genes marks n a) (slots pairs).
Proof.
  intros E. rewrite slots_map, existsb_map. apply existsb_ext_in. intros s H.
  apply (newly_ren n_genes n f pairs' marks' marks Hmarks); assumption.
Qed.

Lemma pop_with_ren pick hist : forall j a' a pool, ren a' a ->
  bres_ren (pop_with marks' pick hist j a' pool) (pop_with marks pick hist j a pool).
Proof.
  induction j as [|j IH]; intros a' a pool E; cbn [pop_with]; [split; [reflexivity | exact E]|].
  destruct pool as [|p0 pr] eqn:Ep; [split; [reflexivity | exact E]|]. rewrite <- Ep in *. clear Ep p0 pr.
  pose proof E as (E1 & _ & _ & _ & E5).
  rewrite (exhausted_ext a' a pool E5).
  destruct (exhausted a pool); [split; [reflexivity | exact E]|].
  rewrite E1. destruct (pick hist (chosen a)) as [g|]; [|exact Logic.I].
  rewrite (is_top_ext a' a pool g E5).
  destruct (is_top a pool g); [|reflexivity].
  destruct (nmem g (chosen a)); [reflexivity|].
  apply IH. apply (choose_ren f pairs' marks' marks Hmarks). exact E.
Qed.

Lemma run_with_k_ren pick : forall fuel h a' a pool, ren a' a ->
  wkres_ren (run_with_k n_genes pairs' marks' n k pick fuel h a' pool)
            (run_with_k n_genes pairs marks n k pick fuel h a pool).
Proof.
  induction fuel as [|fu IH]; intros h a' a pool E; [exact Logic.I|]. rewrite !run_with_k_S.
  pose proof (update_ren n_genes n f pairs' marks' marks Hmarks a' a E) as E'.
  rewrite (finished_ren n_genes f pairs' _ _ E').
  destruct (finished n_genes pairs (update_filled n_genes pairs marks n a)); [exact E'|].
  rewrite (observe_ren n_genes n f pairs' marks' marks Hmarks a' a h E).
  assert (Er : refresh n_genes pairs' marks' n a' pool = refresh n_genes pairs marks n a pool).
  { unfold refresh. rewrite (flag_ren a' a E). reflexivity. }
  rewrite Er.
  pose proof (pop_with_ren pick (observe n_genes pairs marks n a h) k _ _ (refresh n_genes pairs marks n a pool) E') as P.
  destruct (pop_with marks' pick (observe n_genes pairs marks n a h) k (update_filled n_genes pairs' marks' n a')
                     (refresh n_genes pairs marks n a pool)) as [s' p'|x'| |e'],
           (pop_with marks pick (observe n_genes pairs marks n a h) k (update_filled n_genes pairs marks n a)
                     (refresh n_genes pairs marks n a pool)) as [s p|x| |e];
    cbn in P |- *; try contradiction; try exact P.
  destruct P as [-> Es]. apply IH. exact Es.
Qed.

Theorem select_with_k_ren pick :
  wkres_ren (select_with_k n_genes pairs' marks' n k pick) (select_with_k n_genes pairs marks n k pick).
Proof.
  unfold select_with_k, hist0_sorted.
  pose proof (start_ren n_genes n f pairs' marks' marks Hmarks) as S.
  rewrite (snapshot_ren n_genes f pairs' _ _
             (update_ren n_genes n f pairs' marks' marks Hmarks _ _ (init_ren f pairs' marks' marks Hmarks))).
  assert (Ep : pool0 n_genes pairs' marks' n = pool0 n_genes pairs marks n).
  { unfold pool0. destruct S as (S1 & _). rewrite S1. reflexivity. }
  rewrite Ep. apply run_with_k_ren. exact S.
Qed.
End RenameK.

(* ================================================================== the behemoth threshold *)
Definition sel_same_k (d d' : list nat) (r r' : wkres) : Prop :=
  match r, r' with
  | WKDone s, WKDone s' =>
      (exists t, chosen s = d ++ t /\ chosen s' = d' ++ t) /\ Permutation d d' /\
      Permutation (chosen s) (chosen s') /\ (forall g, utility s g = utility s' g)
  | WKIllegal g, WKIllegal g' => g = g'
  | WKStuck, WKStuck => True
  | WKOutOfFuel, WKOutOfFuel => True
  | WKRaise e, WKRaise e' => e = e'
  | _, _ => False
  end.

Theorem threshold_core_k n_genes n k pick marksB marksD idx idxB idxD :
  pick_respects pick ->
  (forall g j d, j < length idx -> marksD g (j, d) = marksB g (nth j idx 0, d)) ->
  Permutation idxB idx -> Permutation idxD (seq 0 (length idx)) ->
  sel_same_k (chosen (start n_genes idxB marksB n)) (chosen (start n_genes idxD marksD n))
             (select_with_k n_genes idxB marksB n k pick) (select_with_k n_genes idxD marksD n k pick).
Proof.
  intros HR HM PB PD.
  set (f := fun j => nth j idx 0). set (loc := seq 0 (length idx)).
  assert (HM' : forall g p d, In p loc -> marksD g (p, d) = marksB g (f p, d)).
  { intros g p d Hp. apply HM. apply in_seq in Hp. lia. }
  pose proof (select_with_k_ren n_genes n k f loc marksD marksB HM' pick) as H2.
  pose proof (start_ren n_genes n f loc marksD marksB HM') as S2.
  unfold rn_pairs in H2, S2. unfold f, loc in H2, S2. rewrite map_nth_seq in H2, S2. fold loc in H2, S2.
  pose proof (pick_order_irrelevant_k n_genes marksB n k idxB idx PB pick HR) as H1.
  pose proof (pick_order_irrelevant_k n_genes marksD n k loc idxD (Permutation_sym PD) pick HR) as H3.
  pose proof (start_same n_genes marksB n idxB idx PB) as S1.
  pose proof (start_same n_genes marksD n loc idxD (Permutation_sym PD)) as S3.
  assert (PS : Permutation (chosen (start n_genes idxB marksB n)) (chosen (start n_genes idxD marksD n))).
  { eapply Permutation_trans; [apply S1|]. destruct S2 as (S2 & _). rewrite <- S2. apply S3. }
  unfold sel_same_k.
  destruct (select_with_k n_genes idxB marksB n k pick) as [sB|gB| | |eB],
           (select_with_k n_genes idx marksB n k pick) as [sC|gC| | |eC]; cbn in H1; try contradiction;
  destruct (select_with_k n_genes loc marksD n k pick) as [sC'|gC'| | |eC']; cbn in H2; try contradiction;
  destruct (select_with_k n_genes idxD marksD n k pick) as [sD|gD| | |eD]; cbn in H3; try contradiction;
    try exact Logic.I; try congruence.
  destruct H1 as ((P1 & _ & _ & _ & U1) & t1 & A1 & A2).
  destruct H3 as ((P3 & _ & _ & _ & U3) & t3 & B1 & B2).
  destruct H2 as (C1 & _ & _ & _ & U2). destruct S2 as (S2 & _).
  assert (t1 = t3).
  { rewrite C1, A2, <- S2 in B1. apply app_inv_head in B1. auto. }
  subst t3. split; [exists t1; auto|]. split; [exact PS|]. split.
  - eapply Permutation_trans; [exact P1|]. rewrite <- C1. exact P3.
  - intros g. rewrite U1, <- U2, U3. reflexivity.
Qed.

Definition parent_res_same_k (k : nat) (rm' : refmarkers) (t : tree) (parent : option (nat * node)) (n : nat)
                             (r r' : parent_res_k) : Prop :=
  match r, r' with
  | PKSkip, PKSkip => True
  | PKErrOverlap, PKErrOverlap => True
  | PKErrPair, PKErrPair => True
  | PKRun ng w, PKRun ng' w' =>
      ng = ng' /\ ng = length (rm_genes rm') /\
      exists arr idxB idxD,
        downsample_pairs rm' (leaf_pairs t parent) = Some arr /\
        parent_idx rm' t parent true = Some idxB /\ parent_idx arr t parent true = Some idxD /\
        sel_same_k (chosen (start ng idxB (marks_of (pair_tables rm')) n))
                   (chosen (start ng idxD (marks_of (pair_tables arr)) n)) w w'
  | _, _ => False
  end.

Theorem threshold_irrelevant_k k pick rm query t parent n :
  pick_respects pick -> NoDup (leaf_pairs t parent) ->
  parent_res_same_k k (thin_genes rm query) t parent n
    (select_parent_k k pick rm query t parent true n) (select_parent_k k pick rm query t parent false n).
Proof.
  intros HR ND. unfold select_parent_k.
  destruct (keep_idx rm query) as [|k0 kr] eqn:K; [exact Logic.I|].
  destruct (leaf_pairs t parent) as [|lp lr] eqn:LP; [exact Logic.I|]. rewrite <- LP in *.
  set (rm' := thin_genes rm query).
  destruct (downsample_pairs rm' (leaf_pairs t parent)) as [arr|] eqn:D.
  - destruct (downsample_preserves_marks rm' _ arr ND D) as (G & _ & idx & I1 & I2 & L & _ & M).
    rewrite (parent_idx_some rm' t parent true idx I1), (parent_idx_some arr t parent true _ I2).
    cbn. rewrite G. split; [reflexivity|]. split; [reflexivity|].
    exists arr, (nat_sort idx), (nat_sort (seq 0 (length (leaf_pairs t parent)))).
    split; [exact D|].
    split; [apply (parent_idx_some rm' t parent true idx I1)|].
    split; [apply (parent_idx_some arr t parent true _ I2)|].
    rewrite <- L. apply threshold_core_k with (idx := idx).
    + exact HR.
    + intros g j d Hj. destruct (nth_error idx j) as [i|] eqn:E.
      * rewrite (M j i E g d). rewrite (nth_error_nth _ _ 0 E). reflexivity.
      * apply nth_error_None in E. lia.
    + apply nat_sort_perm.
    + apply nat_sort_perm.
  - pose proof (downsample_none _ _ D) as N. unfold parent_idx. rewrite N. exact Logic.I.
Qed.

(* ================================================================== gene NAMES, every k *)
(* the name-level reading of "gene j of the thinned array marks a pair of taxonomy_idx_array"
   (the body of SelectionNamesP.selected_names_are_query_markers, without the run) *)
Lemma marked_gene_has_name rm query t parent bh idx j :
  NoDup (rm_genes rm) ->
  let rm' := thin_genes rm query in
  parent_idx rm' t parent bh = Some idx ->
  (exists p d, In p idx /\ marks_of (pair_tables rm') j (p, d) = true) ->
  exists name i,
    nth_error (rm_genes rm') j = Some name /\
    In name query /\
    nth_error (rm_genes rm) i = Some name /\ (forall i', nth_error (rm_genes rm) i' = Some name -> i' = i) /\
    exists pr dn up (d : bool), In pr (leaf_pairs t parent) /\ In (pr, (dn, up)) (rm_pairs rm) /\
                       In i (if d then up else dn).
Proof.
  intros ND rm' PI (p & d & Hp & Hm).
  apply marks_of_true in Hm. destruct Hm as (e' & E' & Hin).
  unfold pair_tables in E'. rewrite nth_error_map in E'.
  destruct (nth_error (rm_pairs rm') p) as [x'|] eqn:X'; [|discriminate]. inversion E'; subst e'.
  destruct (parent_idx_keys rm' t parent bh idx p PI Hp) as (x2 & X2 & K). rewrite X' in X2. inversion X2; subst x2.
  destruct (thinning_sound rm query) as (T1 & T2 & T3 & T4). cbv zeta in *.
  assert (Hpl : p < length (rm_pairs rm)).
  { rewrite <- T3. apply nth_error_Some. fold rm'. rewrite X'. discriminate. }
  destruct (nth_error (rm_pairs rm) p) as [x|] eqn:X; [|apply nth_error_None in X; lia].
  destruct (T4 p x X) as (y & Y & Yk & Yd & Yu). fold rm' in Y. rewrite X' in Y. inversion Y; subst y.
  assert (Hi : exists i, nth_error (keep_idx rm query) j = Some i /\ In i (if d then snd (snd x) else fst (snd x))).
  { destruct d; [apply Yu | apply Yd]; exact Hin. }
  destruct Hi as (i & Ki & Li).
  assert (Hik : In i (keep_idx rm query)) by (eapply nth_error_In; exact Ki).
  apply T2 in Hik. destruct Hik as [Hil Hq].
  exists (nth i (rm_genes rm) 0%Z), i.
  split.
  { fold rm'. unfold rm'. rewrite T1.
    exact (map_nth_error (fun i0 => nth i0 (rm_genes rm) 0%Z) j (keep_idx rm query) Ki). }
  split; [exact Hq|]. split; [apply nth_error_nth'; exact Hil|]. split.
  { intros i' Hi'. rewrite NoDup_nth_error in ND. apply ND.
    - apply nth_error_Some. rewrite Hi'. discriminate.
    - rewrite Hi'. symmetry. apply nth_error_nth'. exact Hil. }
  destruct x as [pr [dn up]]. exists pr, dn, up, d. cbn [fst snd] in *.
  split; [rewrite <- Yk; exact K|]. split; [eapply nth_error_In; exact X | exact Li].
Qed.

(* every gene returned for a parent by the BATCHED loop, by name: exactly one gene of the reference file
   bears it, it occurs in the query, and that gene is listed in the file as a down- or up-marker of a
   leaf pair the parent must discriminate *)
Theorem batch_selected_names_are_query_markers rm query t parent bh idx n k prefix batches st :
  NoDup (rm_genes rm) ->
  let rm' := thin_genes rm query in
  parent_idx rm' t parent bh = Some idx ->
  replayk (length (rm_genes rm')) idx (marks_of (pair_tables rm')) n k prefix batches = KDone st ->
  forall j, In j (chosen st) ->
    exists name i,
      nth_error (rm_genes rm') j = Some name /\
      In name query /\
      nth_error (rm_genes rm) i = Some name /\ (forall i', nth_error (rm_genes rm) i' = Some name -> i' = i) /\
      exists pr dn up (d : bool), In pr (leaf_pairs t parent) /\ In (pr, (dn, up)) (rm_pairs rm) /\
                         In i (if d then up else dn).
Proof.
  intros ND rm' PI R j Hj.
  destruct (batch_in_query_and_marker _ _ _ _ _ _ _ _ R j Hj) as (_ & p & d & Hp & Hm).
  apply (marked_gene_has_name rm query t parent bh idx j ND PI). exists p, d. auto.
Qed.

(* ... and for whatever rule names the pops (numpy's included) *)
Theorem rule_selected_names_are_query_markers rm query t parent bh idx n k pick st :
  NoDup (rm_genes rm) ->
  let rm' := thin_genes rm query in
  parent_idx rm' t parent bh = Some idx ->
  select_with_k (length (rm_genes rm')) idx (marks_of (pair_tables rm')) n k pick = WKDone st ->
  forall j, In j (chosen st) ->
    exists name i,
      nth_error (rm_genes rm') j = Some name /\
      In name query /\
      nth_error (rm_genes rm) i = Some name /\ (forall i', nth_error (rm_genes rm) i' = Some name -> i' = i) /\
      exists pr dn up (d : bool), In pr (leaf_pairs t parent) /\ In (pr, (dn, up)) (rm_pairs rm) /\
                         In i (if d then up else dn).
Proof.
  intros ND rm' PI R.
  destruct (select_with_k_is_replayk _ _ _ _ _ _ _ R) as (bs & Hbs).
  exact (batch_selected_names_are_query_markers rm query t parent bh idx n k _ bs st ND PI Hbs).
Qed.
