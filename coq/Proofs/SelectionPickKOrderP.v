(* Order of the pairs, behemoth threshold and gene names for EVERY genes_at_a_time = k
   (select_with_k / select_parent_k of Model/SelectionK.v): the lifts of SelectionPickP.v (pair order),
   SelectionDownP.v (renumbering, downsampled table, threshold) and SelectionNamesP.v (names) from the
   one-gene loop to the batched loop.  Audit 3, defect A10 (ii). *)
From Coq Require Import ZArith List Bool Arith Lia Permutation.
From CTM Require Import Base.Sx Base.ListX Base.SortX Model.Tree Model.Selection Model.SelectionK
                        Proofs.SelectionP Proofs.SelectionPickP Proofs.SelectionDownP Proofs.SelectionNamesP
                        Proofs.SelectionKP Proofs.SelectionKSafeP Proofs.SelectionPickKP.
Import ListNotations.
Local Open Scope nat_scope.

Lemma exhausted_ext a b pool : (forall g, utility a g = utility b g) -> exhausted a pool = exhausted b pool.
Proof. intros E. unfold exhausted. apply forallb_ext'. intros h. rewrite E. reflexivity. Qed.

Lemma is_top_ext a b pool g : (forall h, utility a h = utility b h) -> is_top a pool g = is_top b pool g.
Proof.
  intros E. unfold is_top. f_equal. apply forallb_ext'. intros h. rewrite !E. reflexivity.
Qed.

(* ================================================================== the order of the pairs *)
Definition bres_same (a b : state) (r r' : bres) : Prop :=
  match r, r' with
  | BOk s p, BOk s' p' =>
      p = p' /\ same_state s s' /\ exists t, chosen s = chosen a ++ t /\ chosen s' = chosen b ++ t
  | BIllegal g, BIllegal g' => g = g'
  | BStuck, BStuck => True
  | BRaise e, BRaise e' => e = e'
  | _, _ => False
  end.

(* same outcome; on `break` the same genes popped in the loop, in the same order (t), the same selected
   set, counts, flags and utility array *)
Definition wkres_same (a b : state) (r r' : wkres) : Prop :=
  match r, r' with
  | WKDone s, WKDone s' => same_state s s' /\ exists t, chosen s = chosen a ++ t /\ chosen s' = chosen b ++ t
  | WKIllegal g, WKIllegal g' => g = g'
  | WKStuck, WKStuck => True
  | WKOutOfFuel, WKOutOfFuel => True
  | WKRaise e, WKRaise e' => e = e'
  | _, _ => False
  end.

Section OrderPickK.
Variable n_genes : nat.
Variable marks : nat -> slot -> bool.
Variable n : nat.
Variable k : nat.
Variables pairs pairs' : list nat.
Hypothesis Hperm : Permutation pairs pairs'.

Lemma flag_same a b : same_state a b ->
  existsb (newly n_genes marks n a) (slots pairs) = existsb (newly n_genes marks n b) (slots pairs').
Proof.
  intros E. rewrite (existsb_perm _ _ _ (slots_perm pairs pairs' Hperm)).
  induction (slots pairs') as [|s l IH]; cbn; [reflexivity|].
  rewrite (newly_same n_genes marks n a b s E), IH. reflexivity.
Qed.

Lemma pop_with_same pick h h' : pick_respects pick -> hist_same h h' ->
  forall j a b pool, same_state a b ->
  bres_same a b (pop_with marks pick h j a pool) (pop_with marks pick h' j b pool).
Proof.
  intros HR Hh. induction j as [|j IH]; intros a b pool E; cbn [pop_with].
  - split; [reflexivity|]. split; [exact E|]. exists []. rewrite !app_nil_r. split; reflexivity.
  - assert (Done : bres_same a b (BOk a pool) (BOk b pool)).
    { split; [reflexivity|]. split; [exact E|]. exists []. rewrite !app_nil_r. split; reflexivity. }
    destruct pool as [|p0 pr] eqn:Ep; [exact Done|]. rewrite <- Ep in *. clear Ep p0 pr.
    pose proof E as (E1 & _ & _ & _ & E5).
    rewrite <- (exhausted_ext a b pool E5).
    destruct (exhausted a pool); [exact Done|].
    rewrite <- (HR _ _ _ _ Hh E1).
    destruct (pick h (chosen a)) as [g|]; [|exact Logic.I].
    rewrite <- (is_top_ext a b pool g E5).
    destruct (is_top a pool g); [|reflexivity].
    rewrite <- (nmem_perm g _ _ E1).
    destruct (nmem g (chosen a)); [reflexivity|].
    specialize (IH (choose marks a g) (choose marks b g) (pool_remove g pool) (choose_same marks a b g E)).
    destruct (pop_with marks pick h j (choose marks a g) (pool_remove g pool)) as [s p|x| |e],
             (pop_with marks pick h' j (choose marks b g) (pool_remove g pool)) as [s' p'|x'| |e'];
      cbn in IH |- *; try exact IH.
    destruct IH as (Hp & Es & t & C1 & C2). split; [exact Hp|]. split; [exact Es|].
    exists (g :: t). cbn [choose chosen] in C1, C2. rewrite C1, C2, <- !app_assoc. split; reflexivity.
Qed.

Lemma run_with_k_same pick : pick_respects pick -> forall fuel h h' a b pool,
  same_state a b -> hist_same h h' ->
  wkres_same a b (run_with_k n_genes pairs marks n k pick fuel h a pool)
                 (run_with_k n_genes pairs' marks n k pick fuel h' b pool).
Proof.
  intros HR. induction fuel as [|f IH]; intros h h' a b pool E Hh; [exact Logic.I|]. rewrite !run_with_k_S.
  pose proof (update_same n_genes marks n pairs pairs' Hperm a b E) as E'.
  rewrite <- (finished_same n_genes pairs pairs' Hperm _ _ E').
  destruct (finished n_genes pairs (update_filled n_genes pairs marks n a)).
  { split; [exact E'|]. exists []. rewrite !app_nil_r. split; reflexivity. }
  pose proof (observe_same n_genes marks n pairs pairs' Hperm a b h h' E Hh) as Ho.
  assert (Er : refresh n_genes pairs marks n a pool = refresh n_genes pairs' marks n b pool).
  { unfold refresh. rewrite (flag_same a b E). reflexivity. }
  rewrite <- Er.
  pose proof (pop_with_same pick _ _ HR Ho k _ _ (refresh n_genes pairs marks n a pool) E') as P.
  destruct (pop_with marks pick (observe n_genes pairs marks n a h) k (update_filled n_genes pairs marks n a)
                     (refresh n_genes pairs marks n a pool)) as [s p|x| |e],
           (pop_with marks pick (observe n_genes pairs' marks n b h') k (update_filled n_genes pairs' marks n b)
                     (refresh n_genes pairs marks n a pool)) as [s' p'|x'| |e'];
    cbn in P |- *; try contradiction; try exact P.
  destruct P as (Hp & Es & t & C1 & C2). subst p'.
  specialize (IH _ _ s s' p Es Ho).
  destruct (run_with_k n_genes pairs marks n k pick f (observe n_genes pairs marks n a h) s p) as [z|x| | |e],
           (run_with_k n_genes pairs' marks n k pick f (observe n_genes pairs' marks n b h') s' p) as [z'|x'| | |e'];
    cbn in IH |- *; try exact IH.
  destruct IH as (Ez & t2 & D1 & D2). split; [exact Ez|]. exists (t ++ t2).
  change (chosen (update_filled n_genes pairs marks n a)) with (chosen a) in C1.
  change (chosen (update_filled n_genes pairs' marks n b)) with (chosen b) in C2.
  rewrite D1, D2, C1, C2, <- !app_assoc. split; reflexivity.
Qed.

Lemma pool0_same : pool0 n_genes pairs marks n = pool0 n_genes pairs' marks n.
Proof.
  unfold pool0. apply filter_ext. intros g.
  rewrite (nmem_perm g _ _ (proj1 (start_same n_genes marks n pairs pairs' Hperm))). reflexivity.
Qed.

Theorem pick_order_irrelevant_k pick : pick_respects pick ->
  wkres_same (start n_genes pairs marks n) (start n_genes pairs' marks n)
             (select_with_k n_genes pairs marks n k pick) (select_with_k n_genes pairs' marks n k pick).
Proof.
  intros HR. unfold select_with_k. rewrite <- pool0_same.
  apply run_with_k_same; [exact HR | apply start_same; exact Hperm | apply hist0_same; exact Hperm].
Qed.
End OrderPickK.

(* spelled out *)
Theorem batch_pair_order_irrelevant n_genes marks n k pairs pairs' pick :
  Permutation pairs pairs' -> pick_respects pick ->
  match select_with_k n_genes pairs marks n k pick, select_with_k n_genes pairs' marks n k pick with
  | WKDone st, WKDone st' =>
      (exists popped, chosen st = chosen (start n_genes pairs marks n) ++ popped /\
                      chosen st' = chosen (start n_genes pairs' marks n) ++ popped) /\
      Permutation (chosen (start n_genes pairs marks n)) (chosen (start n_genes pairs' marks n)) /\
      Permutation (chosen st) (chosen st') /\
      (forall s, counts st s = counts st' s) /\ (forall s, filled st s = filled st' s) /\
      (forall g, utility st g = utility st' g)
  | WKIllegal g, WKIllegal g' => g = g'
  | WKStuck, WKStuck => True
  | WKOutOfFuel, WKOutOfFuel => True
  | WKRaise e, WKRaise e' => e = e'
  | _, _ => False
  end.
Proof.
  intros HP HR. pose proof (pick_order_irrelevant_k n_genes marks n k pairs pairs' HP pick HR) as H.
  destruct (select_with_k n_genes pairs marks n k pick) as [s|g| | |e],
           (select_with_k n_genes pairs' marks n k pick) as [s'|g'| | |e']; cbn in H |- *; try exact H.
  destruct H as ((E1 & E2 & E3 & E4 & E5) & t & C1 & C2).
  split; [exists t; auto|]. split; [apply (start_same n_genes marks n pairs pairs' HP)|].
  repeat split; auto.
Qed.

(* ================================================================== renumbering the pairs *)
Section RenameK.
Variable n_genes : nat.
Variable n : nat.
Variable k : nat.
Variable f : nat -> nat.
Variable pairs' : list nat.
Variables marks' marks : nat -> slot -> bool.
Hypothesis Hmarks : forall g p d, In p pairs' -> marks' g (p, d) = marks g (f p, d).

Notation pairs := (rn_pairs f pairs').
Notation ren := (ren_state f pairs').

Definition bres_ren (r' r : bres) : Prop :=
  match r', r with
  | BOk s' p', BOk s p => p' = p /\ ren_state f pairs' s' s
  | BIllegal g', BIllegal g => g' = g
  | BStuck, BStuck => True
  | BRaise e', BRaise e => e' = e
  | _, _ => False
  end.

Definition wkres_ren (r' r : wkres) : Prop :=
  match r', r with
  | WKDone s', WKDone s => ren_state f pairs' s' s
  | WKIllegal g', WKIllegal g => g' = g
  | WKStuck, WKStuck => True
  | WKOutOfFuel, WKOutOfFuel => True
  | WKRaise e', WKRaise e => e' = e
  | _, _ => False
  end.

Lemma flag_ren a' a : ren a' a ->
  existsb (newly n_genes marks' n a') (slots pairs') = existsb (newly n_genes marks n a) (slots pairs).
Proof.
  intros E. rewrite slots_map, existsb_map. apply existsb_ext_in. intros s H.
  apply (newly_ren n_genes n f pairs' marks' marks Hmarks); assumption.
Qed.

Lemma pop_with_ren pick hist : forall j a' a pool, ren a' a ->
  bres_ren (pop_with marks' pick hist j a' pool) (pop_with marks pick hist j a pool).
Proof.
  induction j as [|j IH]; intros a' a pool E; cbn [pop_with]; [split; [reflexivity | exact E]|].
  destruct pool as [|p0 pr] eqn:Ep; [split; [reflexivity | exact E]|]. rewrite <- Ep in *. clear Ep p0 pr.
  pose proof E as (E1 & _ & _ & _ & E5).
  rewrite (exhausted_ext a' a pool E5).
  destruct (exhausted a pool); [split; [reflexivity | exact E]|].
  rewrite E1. destruct (pick hist (chosen a)) as [g|]; [|exact Logic.I].
  rewrite (is_top_ext a' a pool g E5).
  destruct (is_top a pool g); [|reflexivity].
  destruct (nmem g (chosen a)); [reflexivity|].
  apply IH. apply (choose_ren f pairs' marks' marks Hmarks). exact E.
Qed.

Lemma run_with_k_ren pick : forall fuel h a' a pool, ren a' a ->
  wkres_ren (run_with_k n_genes pairs' marks' n k pick fuel h a' pool)
            (run_with_k n_genes pairs marks n k pick fuel h a pool).
Proof.
  induction fuel as [|fu IH]; intros h a' a pool E; [exact Logic.I|]. rewrite !run_with_k_S.
  pose proof (update_ren n_genes n f pairs' marks' marks Hmarks a' a E) as E'.
  rewrite (finished_ren n_genes f pairs' _ _ E').
  destruct (finished n_genes pairs (update_filled n_genes pairs marks n a)); [exact E'|].
  rewrite (observe_ren n_genes n f pairs' marks' marks Hmarks a' a h E).
  assert (Er : refresh n_genes pairs' marks' n a' pool = refresh n_genes pairs marks n a pool).
  { unfold refresh. rewrite (flag_ren a' a E). reflexivity. }
  rewrite Er.
  pose proof (pop_with_ren pick (observe n_genes pairs marks n a h) k _ _ (refresh n_genes pairs marks n a pool) E') as P.
  destruct (pop_with marks' pick (observe n_genes pairs marks n a h) k (update_filled n_genes pairs' marks' n a')
                     (refresh n_genes pairs marks n a pool)) as [s' p'|x'| |e'],
           (pop_with marks pick (observe n_genes pairs marks n a h) k (update_filled n_genes pairs marks n a)
                     (refresh n_genes pairs marks n a pool)) as [s p|x| |e];
    cbn in P |- *; try contradiction; try exact P.
  destruct P as [-> Es]. apply IH. exact Es.
Qed.

Theorem select_with_k_ren pick :
  wkres_ren (select_with_k n_genes pairs' marks' n k pick) (select_with_k n_genes pairs marks n k pick).
Proof.
  unfold select_with_k, hist0_sorted.
  pose proof (start_ren n_genes n f pairs' marks' marks Hmarks) as S.
  rewrite (snapshot_ren n_genes f pairs' _ _
             (update_ren n_genes n f pairs' marks' marks Hmarks _ _ (init_ren f pairs' marks' marks Hmarks))).
  assert (Ep : pool0 n_genes pairs' marks' n = pool0 n_genes pairs marks n).
  { unfold pool0. destruct S as (S1 & _). rewrite S1. reflexivity. }
  rewrite Ep. apply run_with_k_ren. exact S.
Qed.
End RenameK.

(* ================================================================== the behemoth threshold *)
Definition sel_same_k (d d' : list nat) (r r' : wkres) : Prop :=
  match r, r' with
  | WKDone s, WKDone s' =>
      (exists t, chosen s = d ++ t /\ chosen s' = d' ++ t) /\ Permutation d d' /\
      Permutation (chosen s) (chosen s') /\ (forall g, utility s g = utility s' g)
  | WKIllegal g, WKIllegal g' => g = g'
  | WKStuck, WKStuck => True
  | WKOutOfFuel, WKOutOfFuel => True
  | WKRaise e, WKRaise e' => e = e'
  | _, _ => False
  end.

Theorem threshold_core_k n_genes n k pick marksB marksD idx idxB idxD :
  pick_respects pick ->
  (forall g j d, j < length idx -> marksD g (j, d) = marksB g (nth j idx 0, d)) ->
  Permutation idxB idx -> Permutation idxD (seq 0 (length idx)) ->
  sel_same_k (chosen (start n_genes idxB marksB n)) (chosen (start n_genes idxD marksD n))
             (select_with_k n_genes idxB marksB n k pick) (select_with_k n_genes idxD marksD n k pick).
Proof.
  intros HR HM PB PD.
  set (f := fun j => nth j idx 0). set (loc := seq 0 (length idx)).
  assert (HM' : forall g p d, In p loc -> marksD g (p, d) = marksB g (f p, d)).
  { intros g p d Hp. apply HM. apply in_seq in Hp. lia. }
  pose proof (select_with_k_ren n_genes n k f loc marksD marksB HM' pick) as H2.
  pose proof (start_ren n_genes n f loc marksD marksB HM') as S2.
  unfold rn_pairs in H2, S2. unfold f, loc in H2, S2. rewrite map_nth_seq in H2, S2. fold loc in H2, S2.
  pose proof (pick_order_irrelevant_k n_genes marksB n k idxB idx PB pick HR) as H1.
  pose proof (pick_order_irrelevant_k n_genes marksD n k loc idxD (Permutation_sym PD) pick HR) as H3.
  pose proof (start_same n_genes marksB n idxB idx PB) as S1.
  pose proof (start_same n_genes marksD n loc idxD (Permutation_sym PD)) as S3.
  assert (PS : Permutation (chosen (start n_genes idxB marksB n)) (chosen (start n_genes idxD marksD n))).
  { eapply Permutation_trans; [apply S1|]. destruct S2 as (S2 & _). rewrite <- S2. apply S3. }
  unfold sel_same_k.
  destruct (select_with_k n_genes idxB marksB n k pick) as [sB|gB| | |eB],
           (select_with_k n_genes idx marksB n k pick) as [sC|gC| | |eC]; cbn in H1; try contradiction;
  destruct (select_with_k n_genes loc marksD n k pick) as [sC'|gC'| | |eC']; cbn in H2; try contradiction;
  destruct (select_with_k n_genes idxD marksD n k pick) as [sD|gD| | |eD]; cbn in H3; try contradiction;
    try exact Logic.I; try congruence.
  destruct H1 as ((P1 & _ & _ & _ & U1) & t1 & A1 & A2).
  destruct H3 as ((P3 & _ & _ & _ & U3) & t3 & B1 & B2).
  destruct H2 as (C1 & _ & _ & _ & U2). destruct S2 as (S2 & _).
  assert (t1 = t3).
  { rewrite C1, A2, <- S2 in B1. apply app_inv_head in B1. auto. }
  subst t3. split; [exists t1; auto|]. split; [exact PS|]. split.
  - eapply Permutation_trans; [exact P1|]. rewrite <- C1. exact P3.
  - intros g. rewrite U1, <- U2, U3. reflexivity.
Qed.

Definition parent_res_same_k (k : nat) (rm' : refmarkers) (t : tree) (parent : option (nat * node)) (n : nat)
                             (r r' : parent_res_k) : Prop :=
  match r, r' with
  | PKSkip, PKSkip => True
  | PKErrOverlap, PKErrOverlap => True
  | PKErrPair, PKErrPair => True
  | PKRun ng w, PKRun ng' w' =>
      ng = ng' /\ ng = length (rm_genes rm') /\
      exists arr idxB idxD,
        downsample_pairs rm' (leaf_pairs t parent) = Some arr /\
        parent_idx rm' t parent true = Some idxB /\ parent_idx arr t parent true = Some idxD /\
        sel_same_k (chosen (start ng idxB (marks_of (pair_tables rm')) n))
                   (chosen (start ng idxD (marks_of (pair_tables arr)) n)) w w'
  | _, _ => False
  end.

Theorem threshold_irrelevant_k k pick rm query t parent n :
  pick_respects pick -> NoDup (leaf_pairs t parent) ->
  parent_res_same_k k (thin_genes rm query) t parent n
    (select_parent_k k pick rm query t parent true n) (select_parent_k k pick rm query t parent false n).
Proof.
  intros HR ND. unfold select_parent_k.
  destruct (keep_idx rm query) as [|k0 kr] eqn:K; [exact Logic.I|].
  destruct (leaf_pairs t parent) as [|lp lr] eqn:LP; [exact Logic.I|]. rewrite <- LP in *.
  set (rm' := thin_genes rm query).
  destruct (downsample_pairs rm' (leaf_pairs t parent)) as [arr|] eqn:D.
  - destruct (downsample_preserves_marks rm' _ arr ND D) as (G & _ & idx & I1 & I2 & L & _ & M).
    rewrite (parent_idx_some rm' t parent true idx I1), (parent_idx_some arr t parent true _ I2).
    cbn. rewrite G. split; [reflexivity|]. split; [reflexivity|].
    exists arr, (nat_sort idx), (nat_sort (seq 0 (length (leaf_pairs t parent)))).
    split; [exact D|].
    split; [apply (parent_idx_some rm' t parent true idx I1)|].
    split; [apply (parent_idx_some arr t parent true _ I2)|].
    rewrite <- L. apply threshold_core_k with (idx := idx).
    + exact HR.
    + intros g j d Hj. destruct (nth_error idx j) as [i|] eqn:E.
      * rewrite (M j i E g d). rewrite (nth_error_nth _ _ 0 E). reflexivity.
      * apply nth_error_None in E. lia.
    + apply nat_sort_perm.
    + apply nat_sort_perm.
  - pose proof (downsample_none _ _ D) as N. unfold parent_idx. rewrite N. exact Logic.I.
Qed.

(* ================================================================== gene NAMES, every k *)
(* the name-level reading of "gene j of the thinned array marks a pair of taxonomy_idx_array"
   (the body of SelectionNamesP.selected_names_are_query_markers, without the run) *)
Lemma marked_gene_has_name rm query t parent bh idx j :
  NoDup (rm_genes rm) ->
  let rm' := thin_genes rm query in
  parent_idx rm' t parent bh = Some idx ->
  (exists p d, In p idx /\ marks_of (pair_tables rm') j (p, d) = true) ->
  exists name i,
    nth_error (rm_genes rm') j = Some name /\
    In name query /\
    nth_error (rm_genes rm) i = Some name /\ (forall i', nth_error (rm_genes rm) i' = Some name -> i' = i) /\
    exists pr dn up (d : bool), In pr (leaf_pairs t parent) /\ In (pr, (dn, up)) (rm_pairs rm) /\
                       In i (if d then up else dn).
Proof.
  intros ND rm' PI (p & d & Hp & Hm).
  apply marks_of_true in Hm. destruct Hm as (e' & E' & Hin).
  unfold pair_tables in E'. rewrite nth_error_map in E'.
  destruct (nth_error (rm_pairs rm') p) as [x'|] eqn:X'; [|discriminate]. inversion E'; subst e'.
  destruct (parent_idx_keys rm' t parent bh idx p PI Hp) as (x2 & X2 & K). rewrite X' in X2. inversion X2; subst x2.
  destruct (thinning_sound rm query) as (T1 & T2 & T3 & T4). cbv zeta in *.
  assert (Hpl : p < length (rm_pairs rm)).
  { rewrite <- T3. apply nth_error_Some. fold rm'. rewrite X'. discriminate. }
  destruct (nth_error (rm_pairs rm) p) as [x|] eqn:X; [|apply nth_error_None in X; lia].
  destruct (T4 p x X) as (y & Y & Yk & Yd & Yu). fold rm' in Y. rewrite X' in Y. inversion Y; subst y.
  assert (Hi : exists i, nth_error (keep_idx rm query) j = Some i /\ In i (if d then snd (snd x) else fst (snd x))).
  { destruct d; [apply Yu | apply Yd]; exact Hin. }
  destruct Hi as (i & Ki & Li).
  assert (Hik : In i (keep_idx rm query)) by (eapply nth_error_In; exact Ki).
  apply T2 in Hik. destruct Hik as [Hil Hq].
  exists (nth i (rm_genes rm) 0%Z), i.
  split.
  { fold rm'. unfold rm'. rewrite T1.
    exact (map_nth_error (fun i0 => nth i0 (rm_genes rm) 0%Z) j (keep_idx rm query) Ki). }
  split; [exact Hq|]. split; [apply nth_error_nth'; exact Hil|]. split.
  { intros i' Hi'. rewrite NoDup_nth_error in ND. apply ND.
    - apply nth_error_Some. rewrite Hi'. discriminate.
    - rewrite Hi'. symmetry. apply nth_error_nth'. exact Hil. }
  destruct x as [pr [dn up]]. exists pr, dn, up, d. cbn [fst snd] in *.
  split; [rewrite <- Yk; exact K|]. split; [eapply nth_error_In; exact X | exact Li].
Qed.

(* every gene returned for a parent by the BATCHED loop, by name: exactly one gene of the reference file
   bears it, it occurs in the query, and that gene is listed in the file as a down- or up-marker of a
   leaf pair the parent must discriminate *)
Theorem batch_selected_names_are_query_markers rm query t parent bh idx n k prefix batches st :
  NoDup (rm_genes rm) ->
  let rm' := thin_genes rm query in
  parent_idx rm' t parent bh = Some idx ->
  replayk (length (rm_genes rm')) idx (marks_of (pair_tables rm')) n k prefix batches = KDone st ->
  forall j, In j (chosen st) ->
    exists name i,
      nth_error (rm_genes rm') j = Some name /\
      In name query /\
      nth_error (rm_genes rm) i = Some name /\ (forall i', nth_error (rm_genes rm) i' = Some name -> i' = i) /\
      exists pr dn up (d : bool), In pr (leaf_pairs t parent) /\ In (pr, (dn, up)) (rm_pairs rm) /\
                         In i (if d then up else dn).
Proof.
  intros ND rm' PI R j Hj.
  destruct (batch_in_query_and_marker _ _ _ _ _ _ _ _ R j Hj) as (_ & p & d & Hp & Hm).
  apply (marked_gene_has_name rm query t parent bh idx j ND PI). exists p, d. auto.
Qed.

(* ... and for whatever rule names the pops (numpy's included) *)
Theorem rule_selected_names_are_query_markers rm query t parent bh idx n k pick st :
  NoDup (rm_genes rm) ->
  let rm' := thin_genes rm query in
  parent_idx rm' t parent bh = Some idx ->
  select_with_k (length (rm_genes rm')) idx (marks_of (pair_tables rm')) n k pick = WKDone st ->
  forall j, In j (chosen st) ->
    exists name i,
      nth_error (rm_genes rm') j = Some name /\
      In name query /\
      nth_error (rm_genes rm) i = Some name /\ (forall i', nth_error (rm_genes rm) i' = Some name -> i' = i) /\
      exists pr dn up (d : bool), In pr (leaf_pairs t parent) /\ In (pr, (dn, up)) (rm_pairs rm) /\
                         In i (if d then up else dn).
Proof.
  intros ND rm' PI R.
  destruct (select_with_k_is_replayk _ _ _ _ _ _ _ R) as (bs & Hbs).
  exact (batch_selected_names_are_query_markers rm query t parent bh idx n k _ bs st ND PI Hbs).
Qed.

(* ================================================================== audit 4, A5 (i): compositions *)
(* legality (SelectionPickKP.numpy_rule_is_legal_k) composed with the order theorem: for numpy's own
   rule the two pair orders do not merely give "the same outcome" (which could be WKIllegal on both
   sides): both runs END IN `break`, with selections that are permutations of each other *)
Theorem numpy_pair_order_composed n_genes marks n k pairs pairs' sorter :
  is_argsort sorter -> 1 <= k -> no_gene_both_ways marks -> pairs <> [] ->
  Permutation pairs pairs' ->
  exists st st',
    select_with_k n_genes pairs marks n k (pick_pop sorter) = WKDone st /\
    select_with_k n_genes pairs' marks n k (pick_pop sorter) = WKDone st' /\
    (exists popped, chosen st = chosen (start n_genes pairs marks n) ++ popped /\
                    chosen st' = chosen (start n_genes pairs' marks n) ++ popped) /\
    Permutation (chosen (start n_genes pairs marks n)) (chosen (start n_genes pairs' marks n)) /\
    Permutation (chosen st) (chosen st') /\
    (forall s, counts st s = counts st' s) /\ (forall s, filled st s = filled st' s) /\
    (forall g, utility st g = utility st' g).
Proof.
  intros Hs Hk _ _ HP.
  destruct (numpy_rule_is_legal_k n_genes pairs marks n sorter Hs k Hk) as (st & E).
  destruct (numpy_rule_is_legal_k n_genes pairs' marks n sorter Hs k Hk) as (st' & E').
  pose proof (batch_pair_order_irrelevant n_genes marks n k pairs pairs' (pick_pop sorter) HP
                (pick_pop_respects sorter)) as H.
  rewrite E, E' in H. exists st, st'. split; [exact E|]. split; [exact E'|]. exact H.
Qed.

(* ------------------------------------------------------------------ select_parent_k: the four lifts *)
(* (the k = 1 statements: SelectionNamesP.parent_short_circuit, parent_run_has_pairs,
   empty_overlap_refused, overlap_needed; same proofs, genes_at_a_time is only handed down) *)
Theorem parent_short_circuit_k k pick rm query t parent bh n :
  keep_idx rm query <> [] -> leaf_pairs t parent = [] ->
  select_parent_k k pick rm query t parent bh n = PKSkip.
Proof.
  intros K L. unfold select_parent_k. destruct (keep_idx rm query); [contradiction|]. rewrite L. reflexivity.
Qed.

Theorem parent_run_has_pairs_k k pick rm query t parent bh n ng r :
  select_parent_k k pick rm query t parent bh n = PKRun ng r ->
  exists arr idx, idx <> [] /\ Forall (fun i => i < length (rm_pairs arr)) idx /\
    parent_idx arr t parent true = Some idx /\ ng = length (rm_genes arr) /\
    rm_genes arr = rm_genes (thin_genes rm query) /\
    (if bh then Some (thin_genes rm query)
     else downsample_pairs (thin_genes rm query) (leaf_pairs t parent)) = Some arr /\
    r = select_with_k ng idx (marks_of (pair_tables arr)) n k pick.
Proof.
  unfold select_parent_k. destruct (keep_idx rm query); [discriminate|].
  destruct (leaf_pairs t parent) as [|lp lr] eqn:L; [discriminate|]. rewrite <- L.
  set (rm' := thin_genes rm query).
  intros H.
  assert (G : forall arr, (if bh then Some rm' else downsample_pairs rm' (leaf_pairs t parent)) = Some arr ->
                          rm_genes arr = rm_genes rm').
  { intros arr E. destruct bh; [inversion E; reflexivity|].
    unfold downsample_pairs in E. destruct (opt_all _); [|discriminate]. inversion E. reflexivity. }
  destruct (if bh then Some rm' else downsample_pairs rm' (leaf_pairs t parent)) as [arr|] eqn:A; [|discriminate].
  destruct (parent_idx arr t parent true) as [idx|] eqn:P; [|discriminate].
  inversion H; subst. exists arr, idx. split.
  - intros ->. unfold parent_idx in P. rewrite L in P. cbn in P.
    destruct (idx_of_pair lp (rm_pairs arr) 0); [|discriminate].
    destruct (opt_all _); [|discriminate]. inversion P as [P']. unfold nat_sort in P'.
    apply (f_equal (@length nat)) in P'. rewrite map_length, zsort_length, map_length in P'. discriminate.
  - split; [apply (parent_idx_in_range _ _ _ _ _ P)|]. split; [exact P|]. split; [reflexivity|].
    split; [apply G; reflexivity|]. split; reflexivity.
Qed.

Theorem empty_overlap_refused_k k pick rm query t parent bh n :
  (forall g, In g (rm_genes rm) -> ~ In g query) ->
  select_parent_k k pick rm query t parent bh n = PKErrOverlap.
Proof.
  intros H. unfold select_parent_k. destruct (keep_idx rm query) as [|i r] eqn:K; [reflexivity|].
  exfalso. assert (Hi : In i (keep_idx rm query)) by (rewrite K; left; reflexivity).
  apply keep_idx_spec in Hi. destruct Hi as [Hl Hq]. apply (H _ (nth_In _ _ Hl) Hq).
Qed.

Theorem overlap_needed_k k pick rm query t parent bh n :
  select_parent_k k pick rm query t parent bh n <> PKErrOverlap ->
  exists g, In g (rm_genes rm) /\ In g query.
Proof.
  unfold select_parent_k. destruct (keep_idx rm query) as [|i r] eqn:K; [intros H; contradiction H; reflexivity|].
  intros _. assert (Hi : In i (keep_idx rm query)) by (rewrite K; left; reflexivity).
  apply keep_idx_spec in Hi. destruct Hi as [Hl Hq]. exists (nth i (rm_genes rm) 0%Z).
  split; [apply nth_In; exact Hl | exact Hq].
Qed.

(* ------------------------------------------------------------------ threshold, composed *)
(* legality composed with threshold_irrelevant_k at the level of the pipeline's per-parent entry: one
   parent treated as a behemoth (global pair numbers) or handed its downsampled table (local numbers)
   - both calls short-circuit, or both are refused with the same error, or BOTH _run_selection calls
   end in `break` on arrays with the same genes, with selections that are permutations of each other
   (the same genes popped by the loop in the same order after desperate prefixes that are
   permutations of each other) and the same final utility array *)
Theorem numpy_threshold_composed k sorter rm query t parent n :
  is_argsort sorter -> 1 <= k -> NoDup (leaf_pairs t parent) ->
  no_gene_both_ways (marks_of (pair_tables (thin_genes rm query))) ->
  match select_parent_k k (pick_pop sorter) rm query t parent true n,
        select_parent_k k (pick_pop sorter) rm query t parent false n with
  | PKSkip, PKSkip => leaf_pairs t parent = []
  | PKErrOverlap, PKErrOverlap => True
  | PKErrPair, PKErrPair => True
  | PKRun ng w, PKRun ng' w' =>
      ng = ng' /\ ng = length (rm_genes (thin_genes rm query)) /\
      exists st st', w = WKDone st /\ w' = WKDone st' /\
        Permutation (chosen st) (chosen st') /\ (forall g, utility st g = utility st' g) /\
        exists arr idxB idxD,
          downsample_pairs (thin_genes rm query) (leaf_pairs t parent) = Some arr /\
          parent_idx (thin_genes rm query) t parent true = Some idxB /\ idxB <> [] /\
          parent_idx arr t parent true = Some idxD /\ idxD <> [] /\
          Permutation (chosen (start ng idxB (marks_of (pair_tables (thin_genes rm query))) n))
                      (chosen (start ng idxD (marks_of (pair_tables arr)) n)) /\
          exists popped,
            chosen st = chosen (start ng idxB (marks_of (pair_tables (thin_genes rm query))) n) ++ popped /\
            chosen st' = chosen (start ng idxD (marks_of (pair_tables arr)) n) ++ popped
  | _, _ => False
  end.
Proof.
  intros Hs Hk ND _.
  pose proof (threshold_irrelevant_k k (pick_pop sorter) rm query t parent n (pick_pop_respects sorter) ND) as H.
  destruct (select_parent_k k (pick_pop sorter) rm query t parent true n) as [|ng w| |] eqn:EB;
  destruct (select_parent_k k (pick_pop sorter) rm query t parent false n) as [|ng' w'| |] eqn:ED;
    cbn in H; try contradiction; try exact Logic.I.
  - (* both skip: only when the parent has no pair *)
    unfold select_parent_k in EB. destruct (keep_idx rm query); [discriminate|].
    destruct (leaf_pairs t parent) as [|lp lr]; [reflexivity|].
    destruct (parent_idx (thin_genes rm query) t parent true); discriminate.
  - destruct H as (E1 & E2 & arr & idxB & idxD & D & IB & ID & S).
    destruct (parent_run_has_pairs_k _ _ _ _ _ _ _ _ _ _ EB) as (arrB & iB & NB & _ & PB & GB & _ & AB & RB).
    destruct (parent_run_has_pairs_k _ _ _ _ _ _ _ _ _ _ ED) as (arrD & iD & NDd & _ & PD & GD & _ & AD & RD).
    inversion AB; subst arrB. rewrite D in AD. inversion AD; subst arrD.
    rewrite IB in PB. inversion PB; subst iB. rewrite ID in PD. inversion PD; subst iD.
    subst ng'.
    destruct (numpy_rule_is_legal_k ng idxB (marks_of (pair_tables (thin_genes rm query))) n sorter Hs k Hk) as (st & LB).
    destruct (numpy_rule_is_legal_k ng idxD (marks_of (pair_tables arr)) n sorter Hs k Hk) as (st' & LD).
    subst w w'. rewrite LB, LD in S |- *.
    unfold sel_same_k in S. destruct S as ((pp & C1 & C2) & PS & PC & U).
    split; [reflexivity|]. split; [exact E2|].
    exists st, st'. split; [reflexivity|]. split; [reflexivity|]. split; [exact PC|]. split; [exact U|].
    exists arr, idxB, idxD. repeat (split; [assumption|]). exists pp. split; assumption.
Qed.
