(* Proofs about the additions at the end of Model/Selection.v: prefixes of the loop (`steps`), the
   loop with an arbitrary deterministic tie-break (`run_with`), its three instances, and the
   independence of all of it from the order of the pairs. *)
From Coq Require Import ZArith List Bool Arith Lia Permutation.
From CTM Require Import Base.Sx Base.SortX Model.Tree Model.Selection Proofs.SelectionP.
Import ListNotations.
Local Open Scope nat_scope.

Lemma same_state_sym a b : same_state a b -> same_state b a.
Proof.
  intros (E1 & E2 & E3 & E4 & E5). unfold same_state.
  split; [apply Permutation_sym; exact E1|]. repeat split; intros; symmetry; auto.
Qed.

Lemma step_chosen n_genes pairs marks n st g st' :
  step n_genes pairs marks n st g = Some st' -> chosen st' = chosen st ++ [g].
Proof.
  intros H. apply step_inv in H. cbv zeta in H. destruct H as (_ & _ & _ & _ & ->). reflexivity.
Qed.

(* ------------------------------------------------------------------ prefixes *)
Lemma steps_chosen n_genes pairs marks n trace : forall st st',
  steps n_genes pairs marks n st trace = Some st' -> chosen st' = chosen st ++ trace.
Proof.
  induction trace as [|g t IH]; intros st st' H; cbn in H.
  - inversion H. rewrite app_nil_r. reflexivity.
  - destruct (step n_genes pairs marks n st g) as [s1|] eqn:S; [|discriminate].
    rewrite (IH _ _ H), (step_chosen _ _ _ _ _ _ _ S), <- app_assoc. reflexivity.
Qed.

Lemma run_prefix n_genes pairs marks n trace : forall st st' k,
  run n_genes pairs marks n st trace = Some st' ->
  exists sk, steps n_genes pairs marks n st (firstn k trace) = Some sk.
Proof.
  induction trace as [|g t IH]; intros st st' k H.
  - rewrite firstn_nil. eexists. reflexivity.
  - destruct k as [|k]; [eexists; reflexivity|]. cbn in *.
    destruct (step n_genes pairs marks n st g) as [s1|]; [|discriminate]. apply (IH _ _ k H).
Qed.

Lemma steps_same n_genes marks n pairs pairs' : Permutation pairs pairs' ->
  forall trace a b a', same_state a b -> steps n_genes pairs marks n a trace = Some a' ->
  exists b', steps n_genes pairs' marks n b trace = Some b' /\ same_state a' b'.
Proof.
  intros HP. induction trace as [|g t IH]; intros a b a' E H; cbn in *.
  - inversion H; subst. eexists. split; [reflexivity | exact E].
  - destruct (step n_genes pairs marks n a g) as [a1|] eqn:S; [|discriminate].
    destruct (step_same n_genes marks n pairs pairs' HP a b g a1 E S) as (b1 & S' & E1). rewrite S'.
    apply (IH a1 b1 a' E1 H).
Qed.

(* the strengthened order-independence: final state AND every prefix *)
Theorem pair_order_irrelevant_prefix n_genes marks n pairs pairs' :
  Permutation pairs pairs' -> forall trace st,
  run n_genes pairs marks n (start n_genes pairs marks n) trace = Some st ->
  (exists st', run n_genes pairs' marks n (start n_genes pairs' marks n) trace = Some st' /\
               Permutation (chosen st) (chosen st') /\
               (forall s, counts st s = counts st' s) /\ (forall s, filled st s = filled st' s) /\
               (forall p, aggr st p = aggr st' p) /\ (forall g, utility st g = utility st' g)) /\
  forall k, exists sk sk',
    steps n_genes pairs marks n (start n_genes pairs marks n) (firstn k trace) = Some sk /\
    steps n_genes pairs' marks n (start n_genes pairs' marks n) (firstn k trace) = Some sk' /\
    chosen sk = chosen (start n_genes pairs marks n) ++ firstn k trace /\
    chosen sk' = chosen (start n_genes pairs' marks n) ++ firstn k trace /\
    Permutation (chosen (start n_genes pairs marks n)) (chosen (start n_genes pairs' marks n)) /\
    (forall s, counts sk s = counts sk' s) /\ (forall s, filled sk s = filled sk' s) /\
    (forall p, aggr sk p = aggr sk' p) /\ (forall g, utility sk g = utility sk' g).
Proof.
  intros HP trace st H. pose proof (start_same n_genes marks n pairs pairs' HP) as E0. split.
  - destruct (run_same n_genes marks n pairs pairs' HP trace _ _ st E0 H) as (st' & R & (E1 & E2 & E3 & E4 & E5)).
    exists st'. repeat split; auto.
  - intros k. destruct (run_prefix _ _ _ _ _ _ _ k H) as (sk & Sk).
    destruct (steps_same n_genes marks n pairs pairs' HP _ _ _ sk E0 Sk) as (sk' & Sk' & (E1 & E2 & E3 & E4 & E5)).
    exists sk, sk'. split; [exact Sk|]. split; [exact Sk'|].
    split; [apply (steps_chosen _ _ _ _ _ _ _ Sk)|]. split; [apply (steps_chosen _ _ _ _ _ _ _ Sk')|].
    split; [apply E0|]. repeat split; auto.
Qed.

Lemma run_with_S n_genes pairs marks n pick f hist st :
  run_with n_genes pairs marks n pick (S f) hist st =
  if finished n_genes pairs (update_filled n_genes pairs marks n st) then WDone (update_filled n_genes pairs marks n st)
  else match pick (observe n_genes pairs marks n st hist) (chosen st) with
       | None => WStuck
       | Some g => match step n_genes pairs marks n st g with
                   | Some st' => run_with n_genes pairs marks n pick f (observe n_genes pairs marks n st hist) st'
                   | None => WIllegal g
                   end
       end.
Proof. reflexivity. Qed.

(* ------------------------------------------------------------------ run_with: results are legal runs *)
Definition wres_opt (r : wres) : option state := match r with WDone s => Some s | _ => None end.

Lemma run_with_is_run n_genes pairs marks n pick fuel : forall hist st st',
  run_with n_genes pairs marks n pick fuel hist st = WDone st' ->
  exists trace, run n_genes pairs marks n st trace = Some st' /\ chosen st' = chosen st ++ trace.
Proof.
  induction fuel as [|f IH]; intros hist st st' H; [discriminate|]. rewrite run_with_S in H.
  destruct (finished n_genes pairs (update_filled n_genes pairs marks n st)) eqn:F.
  - inversion H; subst st'. exists []. cbn. rewrite F. split; [reflexivity|]. rewrite app_nil_r. reflexivity.
  - destruct (pick _ _) as [g|]; [|discriminate].
    destruct (step n_genes pairs marks n st g) as [s1|] eqn:S; [|discriminate].
    destruct (IH _ _ _ H) as (t & R & C). exists (g :: t). cbn. rewrite S. split; [exact R|].
    rewrite C, (step_chosen _ _ _ _ _ _ _ S), <- app_assoc. reflexivity.
Qed.

Theorem select_with_is_run n_genes pairs marks n pick st :
  select_with n_genes pairs marks n pick = WDone st ->
  exists trace, run n_genes pairs marks n (start n_genes pairs marks n) trace = Some st /\
                chosen st = chosen (start n_genes pairs marks n) ++ trace.
Proof. apply run_with_is_run. Qed.

(* ------------------------------------------------------------------ rules that do not look at the ORDER of the chosen lists *)
Definition hentry_same (e e' : hentry) : Prop := fst e = fst e' /\ Permutation (snd e) (snd e').
Definition hist_same (h h' : list hentry) : Prop := Forall2 hentry_same h h'.
Definition pick_respects (pick : pick_fn) : Prop :=
  forall h h' c c', hist_same h h' -> Permutation c c' -> pick h c = pick h' c'.

Definition wres_same (r r' : wres) : Prop :=
  match r, r' with
  | WDone s, WDone s' => same_state s s'
  | WIllegal g, WIllegal g' => g = g'
  | WStuck, WStuck => True
  | WOutOfFuel, WOutOfFuel => True
  | _, _ => False
  end.

Lemma hist_same_app h1 h1' h2 h2' : hist_same h1 h1' -> hist_same h2 h2' -> hist_same (h1 ++ h2) (h1' ++ h2').
Proof. apply Forall2_app. Qed.

Lemma hist_same_rev h h' : hist_same h h' -> hist_same (rev h) (rev h').
Proof.
  intros H. induction H as [|e e' l l' He _ IH]; cbn; [constructor|].
  apply hist_same_app; [exact IH | constructor; [exact He | constructor]].
Qed.

Section OrderPick.
Variable n_genes : nat.
Variable marks : nat -> slot -> bool.
Variable n : nat.
Variables pairs pairs' : list nat.
Hypothesis Hperm : Permutation pairs pairs'.

Lemma snapshot_same a b : same_state a b -> snapshot n_genes a = snapshot n_genes b.
Proof. intros (_ & _ & _ & _ & E5). unfold snapshot. apply map_ext. exact E5. Qed.

Lemma observe_same a b h h' : same_state a b -> hist_same h h' ->
  hist_same (observe n_genes pairs marks n a h) (observe n_genes pairs' marks n b h').
Proof.
  intros E Hh. unfold observe. apply hist_same_app; [exact Hh|]. constructor; [|constructor].
  split; cbn [fst snd].
  - f_equal.
    + rewrite (existsb_perm _ _ _ (slots_perm pairs pairs' Hperm)).
      clear Hh. induction (slots pairs') as [|s l IH]; cbn; [reflexivity|].
      rewrite (newly_same n_genes marks n a b s E), IH. reflexivity.
    + apply snapshot_same. apply update_same; assumption.
  - apply E.
Qed.

Lemma step_none_same a b g : same_state a b ->
  step n_genes pairs marks n a g = None -> step n_genes pairs' marks n b g = None.
Proof.
  intros E H. destruct (step n_genes pairs' marks n b g) as [b1|] eqn:S; [|reflexivity].
  destruct (step_same n_genes marks n pairs' pairs (Permutation_sym Hperm) b a g b1 (same_state_sym _ _ E) S)
    as (a1 & S' & _). congruence.
Qed.

Lemma run_with_same pick : pick_respects pick -> forall fuel h h' a b,
  same_state a b -> hist_same h h' ->
  wres_same (run_with n_genes pairs marks n pick fuel h a) (run_with n_genes pairs' marks n pick fuel h' b).
Proof.
  intros HR. induction fuel as [|f IH]; intros h h' a b E Hh; [exact Logic.I|]. rewrite !run_with_S.
  pose proof (update_same n_genes marks n pairs pairs' Hperm a b E) as E'.
  rewrite <- (finished_same n_genes pairs pairs' Hperm _ _ E').
  destruct (finished n_genes pairs (update_filled n_genes pairs marks n a)); [exact E'|].
  pose proof (observe_same a b h h' E Hh) as Ho.
  assert (Ec : Permutation (chosen a) (chosen b)) by apply E.
  rewrite <- (HR _ _ _ _ Ho Ec).
  destruct (pick (observe n_genes pairs marks n a h) (chosen a)) as [g|]; [|exact Logic.I].
  destruct (step n_genes pairs marks n a g) as [a1|] eqn:S.
  - destruct (step_same n_genes marks n pairs pairs' Hperm a b g a1 E S) as (b1 & S' & E1). rewrite S'.
    apply IH; assumption.
  - rewrite (step_none_same a b g E S). reflexivity.
Qed.

Lemma run_with_same_trace pick : pick_respects pick -> forall fuel h h' a b st,
  same_state a b -> hist_same h h' ->
  run_with n_genes pairs marks n pick fuel h a = WDone st ->
  exists t st', run_with n_genes pairs' marks n pick fuel h' b = WDone st' /\ same_state st st' /\
                run n_genes pairs marks n a t = Some st /\ run n_genes pairs' marks n b t = Some st' /\
                chosen st = chosen a ++ t /\ chosen st' = chosen b ++ t.
Proof.
  intros HR. induction fuel as [|f IH]; intros h h' a b st E Hh H; [discriminate|]. rewrite run_with_S in H |- *.
  pose proof (update_same n_genes marks n pairs pairs' Hperm a b E) as E'.
  pose proof (finished_same n_genes pairs pairs' Hperm _ _ E') as EF.
  destruct (finished n_genes pairs (update_filled n_genes pairs marks n a)) eqn:F.
  - inversion H; subst st. rewrite <- EF. exists [], (update_filled n_genes pairs' marks n b).
    cbn. rewrite F, <- EF. rewrite !app_nil_r.
    split; [reflexivity|]. split; [exact E'|]. repeat split; reflexivity.
  - rewrite <- EF.
    pose proof (observe_same a b h h' E Hh) as Ho.
    assert (Ec : Permutation (chosen a) (chosen b)) by apply E.
    rewrite <- (HR _ _ _ _ Ho Ec).
    destruct (pick (observe n_genes pairs marks n a h) (chosen a)) as [g|]; [|discriminate].
    destruct (step n_genes pairs marks n a g) as [a1|] eqn:S; [|discriminate].
    destruct (step_same n_genes marks n pairs pairs' Hperm a b g a1 E S) as (b1 & S' & E1). rewrite S'.
    destruct (IH _ _ _ _ _ E1 Ho H) as (t & st' & R & Es & R1 & R2 & C1 & C2).
    exists (g :: t), st'. cbn. rewrite S, S'.
    split; [exact R|]. split; [exact Es|]. split; [exact R1|]. split; [exact R2|]. split.
    + rewrite C1, (step_chosen _ _ _ _ _ _ _ S), <- app_assoc. reflexivity.
    + rewrite C2, (step_chosen _ _ _ _ _ _ _ S'), <- app_assoc. reflexivity.
Qed.

Lemma hist0_same : hist_same (hist0_sorted n_genes pairs marks n) (hist0_sorted n_genes pairs' marks n).
Proof.
  unfold hist0_sorted. constructor; [|constructor]. split; cbn [fst snd]; [|constructor].
  f_equal. apply snapshot_same. apply update_same; [assumption|]. apply init_same. assumption.
Qed.

Theorem pick_order_irrelevant pick : pick_respects pick ->
  wres_same (select_with n_genes pairs marks n pick) (select_with n_genes pairs' marks n pick).
Proof.
  intros HR. unfold select_with. apply run_with_same; [exact HR | | exact hist0_same].
  apply start_same. exact Hperm.
Qed.
End OrderPick.

(* spelled out: same outcome; on `break` the same choice sequence in the loop, the same selected SET,
   the same counts / flags / utility array *)
Theorem pick_function_order_irrelevant n_genes marks n pairs pairs' pick :
  Permutation pairs pairs' -> pick_respects pick ->
  match select_with n_genes pairs marks n pick, select_with n_genes pairs' marks n pick with
  | WDone st, WDone st' =>
      (exists trace, chosen st = chosen (start n_genes pairs marks n) ++ trace /\
                     chosen st' = chosen (start n_genes pairs' marks n) ++ trace /\
                     run n_genes pairs marks n (start n_genes pairs marks n) trace = Some st /\
                     run n_genes pairs' marks n (start n_genes pairs' marks n) trace = Some st') /\
      Permutation (chosen st) (chosen st') /\
      (forall s, counts st s = counts st' s) /\ (forall s, filled st s = filled st' s) /\
      (forall g, utility st g = utility st' g)
  | WIllegal g, WIllegal g' => g = g'
  | WStuck, WStuck => True
  | WOutOfFuel, WOutOfFuel => True
  | _, _ => False
  end.
Proof.
  intros HP HR. pose proof (pick_order_irrelevant n_genes marks n pairs pairs' HP pick HR) as H.
  destruct (select_with n_genes pairs marks n pick) as [st|g| |] eqn:R1,
           (select_with n_genes pairs' marks n pick) as [st'|g'| |] eqn:R2; cbn in H; try exact H; try contradiction.
  destruct H as (E1 & E2 & E3 & E4 & E5).
  split; [|repeat split; auto].
  destruct (run_with_same_trace n_genes marks n pairs pairs' HP pick HR _ _ _ _ _ st
              (start_same n_genes marks n pairs pairs' HP) (hist0_same n_genes marks n pairs pairs' HP) R1)
    as (t & st2 & R2' & _ & Ra & Rb & Ca & Cb).
  unfold select_with in R2. rewrite R2 in R2'. inversion R2'; subst st2.
  exists t. auto.
Qed.

(* ------------------------------------------------------------------ the three rules *)
Lemma last_opt_snoc {A} (l : list A) x : last_opt (l ++ [x]) = Some x.
Proof. unfold last_opt. rewrite rev_app_distr. reflexivity. Qed.

Lemma find_ext_in {A} (f g : A -> bool) l : (forall x, In x l -> f x = g x) -> find f l = find g l.
Proof.
  induction l as [|x t IH]; intros H; cbn; [reflexivity|].
  rewrite (H x (or_introl eq_refl)). rewrite IH; [reflexivity|]. intros y Hy. apply H. right. exact Hy.
Qed.

Lemma snapshot_length n_genes st : length (snapshot n_genes st) = n_genes.
Proof. unfold snapshot, genes. rewrite map_length, seq_length. reflexivity. Qed.

Lemma snapshot_nth n_genes st g : g < n_genes -> nth g (snapshot n_genes st) (-1)%Z = utility st g.
Proof.
  intros H. unfold snapshot, genes.
  rewrite (nth_indep _ (-1)%Z (utility st 0)) by (rewrite map_length, seq_length; exact H).
  rewrite map_nth, seq_nth by exact H. reflexivity.
Qed.

(* (1) `greedy` is run_with for the rule "first unchosen gene of maximal utility" *)
Lemma pick_first_max_is_first_max n_genes pairs marks n st hist :
  pick_first_max (observe n_genes pairs marks n st hist) (chosen st) =
  first_max n_genes (update_filled n_genes pairs marks n st).
Proof.
  unfold pick_first_max, observe. rewrite last_opt_snoc. rewrite snapshot_length.
  unfold first_max. apply find_ext_in. intros g Hg. apply in_seq in Hg.
  rewrite snapshot_nth by lia. reflexivity.
Qed.

Theorem greedy_is_run_with n_genes pairs marks n fuel : forall hist st,
  wres_opt (run_with n_genes pairs marks n pick_first_max fuel hist st) = greedy n_genes pairs marks n fuel st.
Proof.
  induction fuel as [|f IH]; intros hist st; [reflexivity|]. rewrite run_with_S. cbn [greedy].
  destruct (finished n_genes pairs (update_filled n_genes pairs marks n st)) eqn:F; [reflexivity|].
  rewrite pick_first_max_is_first_max.
  destruct (first_max n_genes (update_filled n_genes pairs marks n st)) as [g|] eqn:FM; [|reflexivity].
  unfold first_max in FM. apply find_some in FM. destruct FM as [Hg Hp].
  unfold step. rewrite F.
  apply andb_true_iff in Hp. destruct Hp as [Hp1 Hp2].
  replace (nmem g (genes n_genes)) with true by (symmetry; apply nmem_in; exact Hg).
  rewrite Hp1, Hp2. cbn [andb]. apply IH.
Qed.

Corollary greedy_is_select_with n_genes pairs marks n :
  wres_opt (select_with n_genes pairs marks n pick_first_max) =
  greedy n_genes pairs marks n (S n_genes) (start n_genes pairs marks n).
Proof. apply greedy_is_run_with. Qed.

(* (2) every legal recorded choice sequence is run_with for the rule that reads it off *)
Lemma run_is_run_with n_genes pairs marks n nd trace : forall pre st st' fuel hist,
  run n_genes pairs marks n st trace = Some st' ->
  length (chosen st) = nd + length pre -> length trace < fuel ->
  run_with n_genes pairs marks n (pick_of_trace nd (pre ++ trace)) fuel hist st = WDone st'.
Proof.
  induction trace as [|g t IH]; intros pre st st' fuel hist R L Hf;
    (destruct fuel as [|f]; [cbn in Hf; lia|]); rewrite run_with_S; cbn in R.
  - destruct (finished n_genes pairs (update_filled n_genes pairs marks n st)); [|discriminate].
    inversion R. reflexivity.
  - destruct (step n_genes pairs marks n st g) as [s1|] eqn:S; [|discriminate].
    pose proof (step_inv _ _ _ _ _ _ _ S) as SI. cbv zeta in SI. destruct SI as (F & _).
    rewrite F. unfold pick_of_trace at 1. rewrite L.
    replace (nd + length pre - nd) with (length pre) by lia.
    rewrite nth_error_app2 by lia. rewrite Nat.sub_diag. cbn [nth_error]. rewrite S.
    replace (pre ++ g :: t) with ((pre ++ [g]) ++ t) by (rewrite <- app_assoc; reflexivity).
    apply IH; [exact R | | cbn in Hf; lia].
    rewrite (step_chosen _ _ _ _ _ _ _ S), !app_length. cbn. lia.
Qed.

Theorem trace_is_select_with n_genes pairs marks n trace st :
  run n_genes pairs marks n (start n_genes pairs marks n) trace = Some st ->
  select_with n_genes pairs marks n (pick_of_trace (length (chosen (start n_genes pairs marks n))) trace) = WDone st.
Proof.
  intros R. unfold select_with. apply (run_is_run_with n_genes pairs marks n _ trace [] _ _ _ _ R).
  - cbn. lia.
  - pose proof (iterations_bounded _ _ _ _ _ _ R). lia.
Qed.

(* the three rules do not look at the order of the chosen lists *)
Lemma last_opt_same h h' : hist_same h h' ->
  match last_opt h, last_opt h' with
  | Some e, Some e' => hentry_same e e'
  | None, None => True
  | _, _ => False
  end.
Proof.
  intros H. apply hist_same_rev in H. unfold last_opt. destruct H; [exact Logic.I | assumption].
Qed.

Lemma pick_first_max_respects : pick_respects pick_first_max.
Proof.
  intros h h' c c' Hh Hc. unfold pick_first_max. pose proof (last_opt_same h h' Hh) as L.
  destruct (last_opt h) as [[[fl u] ch]|], (last_opt h') as [[[fl' u'] ch']|]; try contradiction; [|reflexivity].
  destruct L as [L _]. cbn in L. inversion L; subst. apply find_ext'. intros g.
  rewrite (nmem_perm g _ _ Hc). reflexivity.
Qed.

Lemma pick_of_trace_respects nd trace : pick_respects (pick_of_trace nd trace).
Proof.
  intros h h' c c' _ Hc. unfold pick_of_trace. rewrite (Permutation_length Hc). reflexivity.
Qed.

Lemma find_flag_same h h' : hist_same h h' ->
  match find (fun e : hentry => fst (fst e)) h, find (fun e : hentry => fst (fst e)) h' with
  | Some e, Some e' => hentry_same e e'
  | None, None => True
  | _, _ => False
  end.
Proof.
  intros H. induction H as [|e e' l l' He _ IH]; cbn; [exact Logic.I|].
  pose proof He as [E1 _]. rewrite <- E1. destruct (fst (fst e)); [exact He | exact IH].
Qed.

Lemma pick_pop_respects sorter : pick_respects (pick_pop sorter).
Proof.
  intros h h' c c' Hh Hc. unfold pick_pop.
  pose proof (find_flag_same _ _ (hist_same_rev _ _ Hh)) as L.
  destruct (find _ (rev h)) as [[[fl u] ch]|], (find _ (rev h')) as [[[fl' u'] ch']|]; try contradiction; [|reflexivity].
  destruct L as [L1 L2]. cbn in L1, L2. inversion L1; subst. f_equal.
  apply filter_ext. intros g. rewrite (nmem_perm g _ _ Hc), (nmem_perm g _ _ L2). reflexivity.
Qed.

Theorem rules_respect :
  pick_respects pick_first_max /\ (forall sorter, pick_respects (pick_pop sorter)) /\
  (forall nd trace, pick_respects (pick_of_trace nd trace)).
Proof. split; [exact pick_first_max_respects|]. split; [exact pick_pop_respects | exact pick_of_trace_respects]. Qed.

Definition wres_chosen (r : wres) : option (list nat) := option_map (fun s => chosen s) (wres_opt r).
