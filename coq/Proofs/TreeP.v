(* Lemmas about Model/Tree.v (taxonomy). *)
From Coq Require Import ZArith List Bool Lia Permutation.
From CTM Require Import Base.Sx Base.ListX Base.SortX Model.Tree.
Import ListNotations.
Open Scope Z_scope.

Definition f3_tree : tree := [[(0, [1; 1; 2])]; [(1, []); (2, [])]].

Lemma leaf_pairs_refuted : exists t p,
  validate t = true /\ Forall (fun lv => NoDup (nodes lv)) t /\
  (~ NoDup (leaf_pairs t p) \/ exists a, In (a, a) (leaf_pairs t p)).
Proof.
  exists f3_tree, (Some (0%nat, 0)). split; [vm_compute; reflexivity|]. split.
  - repeat constructor; cbn; intuition congruence.
  - right. exists 1. vm_compute. left. reflexivity.
Qed.
